(* Proofs for C16: the scheme builder (Sem/Registry.v) refines the abstract
   registry (Spec/C16.v) on every history; consistency of the items map with
   the vectors; exact lookup; the identifier lexer; scheme identity. *)
From Coq Require Import List NArith Bool Arith Lia.
From WF Require Import Base.Bytes Lang.Types Sem.Registry Spec.C16.
Import ListNotations.
Open Scope N_scope.

(* ------------------------------------------------------------------ *)
(* equality tests *)

Lemma reg_bytes_eqb_iff a : forall b, bytes_eqb a b = true <-> a = b.
Proof.
  induction a as [|x a IH]; intros [|y b]; cbn [bytes_eqb]; split; intros H; try discriminate; auto.
  - apply andb_true_iff in H. destruct H as [Hx Hr]. apply N.eqb_eq in Hx. apply IH in Hr. now subst.
  - inversion H; subst. apply andb_true_iff. split; [apply N.eqb_refl|now apply IH].
Qed.

Lemma reg_bytes_eqb_refl a : bytes_eqb a a = true.
Proof. now apply reg_bytes_eqb_iff. Qed.

Lemma reg_bytes_eqb_neq a b : a <> b -> bytes_eqb a b = false.
Proof.
  intros H. destruct (bytes_eqb a b) eqn:E; [|reflexivity]. apply reg_bytes_eqb_iff in E. contradiction.
Qed.

Lemma reg_ty_eqb_iff a : forall b, ty_eqb a b = true <-> a = b.
Proof.
  induction a as [| | | |a IH|a IH]; intros [| | | |b|b]; cbn [ty_eqb]; split; intros H;
    try discriminate; auto.
  - apply IH in H. now subst.
  - inversion H; subst. now apply IH.
  - apply IH in H. now subst.
  - inversion H; subst. now apply IH.
Qed.

Lemma reg_ty_eqb_refl a : ty_eqb a a = true.
Proof. now apply reg_ty_eqb_iff. Qed.

(* ------------------------------------------------------------------ *)
(* the abstract registry: lists of registrations *)

Lemma reg_fields_app l1 l2 : reg_fields (l1 ++ l2) = reg_fields l1 ++ reg_fields l2.
Proof.
  induction l1 as [|r l1 IH]; [reflexivity|]. destruct r as [n t o|n|t k]; cbn [app reg_fields]; now rewrite IH.
Qed.
Lemma reg_functions_app l1 l2 : reg_functions (l1 ++ l2) = reg_functions l1 ++ reg_functions l2.
Proof.
  induction l1 as [|r l1 IH]; [reflexivity|]. destruct r as [n t o|n|t k]; cbn [app reg_functions]; now rewrite IH.
Qed.
Lemma reg_lists_app l1 l2 : reg_lists (l1 ++ l2) = reg_lists l1 ++ reg_lists l2.
Proof.
  induction l1 as [|r l1 IH]; [reflexivity|]. destruct r as [n t o|n|t k]; cbn [app reg_lists]; now rewrite IH.
Qed.

Lemma lookup_from_app l1 : forall nf nfn l2 n,
  lookup_from nf nfn (l1 ++ l2) n =
  match lookup_from nf nfn l1 n with
  | Some e => Some e
  | None => lookup_from (nf + length (reg_fields l1)) (nfn + length (reg_functions l1)) l2 n
  end.
Proof.
  induction l1 as [|r l1 IH]; intros nf nfn l2 n.
  - cbn. now rewrite !Nat.add_0_r.
  - destruct r as [m t o|m|t k]; cbn [app lookup_from reg_fields reg_functions length].
    + destruct (bytes_eqb n m); [reflexivity|]. rewrite IH. now rewrite Nat.add_succ_comm.
    + destruct (bytes_eqb n m); [reflexivity|]. rewrite IH. now rewrite (Nat.add_succ_comm nfn).
    + apply IH.
Qed.

(* the entry found for a name is the registration made under that name, at its index *)
Lemma lookup_from_field_nth l : forall nf nfn n i t o,
  lookup_from nf nfn l n = Some (EField i t o) ->
  exists j, i = (nf + j)%nat /\
            nth_error (reg_fields l) j = Some {| fd_name := n; fd_ty := t; fd_optional := o |}.
Proof.
  induction l as [|r l IH]; intros nf nfn n i t o H; [discriminate|].
  destruct r as [m t' o'|m|t' k]; cbn [lookup_from reg_fields] in *.
  - destruct (bytes_eqb n m) eqn:E.
    + apply reg_bytes_eqb_iff in E. subst m. inversion H; subst. exists O. split; [lia|reflexivity].
    + apply IH in H. destruct H as (j & Hi & Hn). exists (S j). split; [lia|exact Hn].
  - destruct (bytes_eqb n m) eqn:E; [discriminate|]. now apply IH in H.
  - now apply IH in H.
Qed.

Lemma lookup_from_function_nth l : forall nf nfn n i,
  lookup_from nf nfn l n = Some (EFunction i) ->
  exists j, i = (nfn + j)%nat /\ nth_error (reg_functions l) j = Some n.
Proof.
  induction l as [|r l IH]; intros nf nfn n i H; [discriminate|].
  destruct r as [m t' o'|m|t' k]; cbn [lookup_from reg_functions] in *.
  - destruct (bytes_eqb n m) eqn:E; [discriminate|]. now apply IH in H.
  - destruct (bytes_eqb n m) eqn:E.
    + apply reg_bytes_eqb_iff in E. subst m. inversion H; subst. exists O. split; [lia|reflexivity].
    + apply IH in H. destruct H as (j & Hi & Hn). exists (S j). split; [lia|exact Hn].
  - now apply IH in H.
Qed.

(* numbering *)
Definition numbered_from {A} (s : nat) (l : list A) : list (nat * A) := combine (seq s (length l)) l.

Lemma numbered_from_app {A} (l : list A) : forall s x,
  numbered_from s (l ++ [x]) = numbered_from s l ++ [((s + length l)%nat, x)].
Proof.
  unfold numbered_from. induction l as [|y l IH]; intros s x.
  - cbn. now rewrite Nat.add_0_r.
  - cbn [app length seq combine]. rewrite IH. now rewrite Nat.add_succ_comm.
Qed.

Lemma find_app {A} (f : A -> bool) (a b : list A) :
  find f (a ++ b) = match find f a with Some x => Some x | None => find f b end.
Proof. induction a as [|x a IH]; [reflexivity|]. cbn. destruct (f x); [reflexivity|exact IH]. Qed.

Lemma find_numbered_nth {A} (f : nat * A -> bool) (l : list A) : forall s i d,
  find f (numbered_from s l) = Some (i, d) ->
  exists j, i = (s + j)%nat /\ nth_error l j = Some d.
Proof.
  unfold numbered_from. induction l as [|x l IH]; intros s i d H; [discriminate|].
  cbn [length seq combine find] in H. destruct (f (s, x)).
  - inversion H; subst. exists O. split; [lia|reflexivity].
  - apply IH in H. destruct H as (j & Hi & Hn). exists (S j). split; [lia|exact Hn].
Qed.

Lemma find_numbered_none {A} (g : A -> bool) (l : list A) : forall s,
  find (fun p => g (snd p)) (numbered_from s l) = None <-> existsb g l = false.
Proof.
  unfold numbered_from. induction l as [|x l IH]; intros s; [cbn; tauto|].
  cbn [length seq combine find existsb snd]. destruct (g x); cbn [orb]; [split; discriminate|apply IH].
Qed.

Lemma has_list_spec l t :
  has_list l t = match spec_get_list l t with Some _ => true | None => false end.
Proof.
  unfold has_list, spec_get_list, spec_lists, numbered.
  destruct (find _ _) eqn:E.
  - destruct (existsb _ _) eqn:E'; [reflexivity|].
    apply (find_numbered_none (fun d => ty_eqb t (fst d)) (reg_lists l) O) in E'.
    unfold numbered_from in E'. rewrite E' in E. discriminate.
  - apply (find_numbered_none (fun d => ty_eqb t (fst d)) (reg_lists l) O). exact E.
Qed.

(* ------------------------------------------------------------------ *)
(* refinement *)

Definition item_of_entry (e : entry) : item :=
  match e with EField i _ _ => IField i | EFunction i => IFunction i end.

Record refines (b : builder) (l : registry) : Prop := {
  rf_fields : b_fields b = reg_fields l;
  rf_functions : b_functions b = reg_functions l;
  rf_lists : b_lists b = reg_lists l;
  rf_items : forall n, map_get bytes_eqb n (b_items b) = option_map item_of_entry (holder l n);
  rf_list_types : forall t, map_get ty_eqb t (b_list_types b) = option_map fst (spec_get_list l t)
}.

Lemma refines_empty : refines empty_builder [].
Proof. constructor; reflexivity. Qed.

Lemma holder_snoc l r n :
  holder (l ++ [r]) n =
  match holder l n with
  | Some e => Some e
  | None => lookup_from (length (reg_fields l)) (length (reg_functions l)) [r] n
  end.
Proof. unfold holder. now rewrite lookup_from_app. Qed.

Lemma spec_get_list_snoc_other l r t :
  reg_lists [r] = [] -> spec_get_list (l ++ [r]) t = spec_get_list l t.
Proof.
  intros H. unfold spec_get_list, spec_lists. now rewrite reg_lists_app, H, app_nil_r.
Qed.

Lemma spec_get_list_snoc_list l t' k t :
  spec_get_list (l ++ [RegList t' k]) t =
  match spec_get_list l t with
  | Some p => Some p
  | None => if ty_eqb t t' then Some (length (reg_lists l), (t', k)) else None
  end.
Proof.
  unfold spec_get_list, spec_lists, numbered. rewrite reg_lists_app. cbn [reg_lists].
  change (combine (seq 0 (length (reg_lists l ++ [(t', k)]))) (reg_lists l ++ [(t', k)]))
    with (numbered_from 0 (reg_lists l ++ [(t', k)])).
  rewrite numbered_from_app, find_app. fold (numbered_from 0 (reg_lists l)).
  destruct (find _ (numbered_from 0 (reg_lists l))); [reflexivity|].
  cbn [find fst snd Nat.add]. destruct (ty_eqb t t'); reflexivity.
Qed.

(* adding a named thing *)
Lemma add_named_refines b l n (r : registration) (e0 : entry) (b' : builder) :
  refines b l ->
  reg_lists [r] = [] ->
  (forall m, lookup_from (length (reg_fields l)) (length (reg_functions l)) [r] m =
             if bytes_eqb m n then Some e0 else None) ->
  b_fields b' = b_fields b ++ reg_fields [r] ->
  b_functions b' = b_functions b ++ reg_functions [r] ->
  b_lists b' = b_lists b ->
  b_list_types b' = b_list_types b ->
  b_items b' = map_insert_vacant n (item_of_entry e0) (b_items b) ->
  holder l n = None ->
  refines b' (l ++ [r]).
Proof.
  intros [Hf Hfn Hl Hi Hlt] Hnl Hlook Ef Efn El Elt Ei Hnone.
  constructor.
  - now rewrite Ef, Hf, reg_fields_app.
  - now rewrite Efn, Hfn, reg_functions_app.
  - now rewrite El, Hl, reg_lists_app, Hnl, app_nil_r.
  - intros m. rewrite Ei, holder_snoc. unfold map_insert_vacant. cbn [map_get].
    rewrite Hlook. destruct (bytes_eqb m n) eqn:E.
    + apply reg_bytes_eqb_iff in E. subst m. now rewrite Hnone.
    + rewrite Hi. destruct (holder l m); reflexivity.
  - intros t. rewrite Elt, Hlt. now rewrite spec_get_list_snoc_other.
Qed.

Lemma apply_op_refines b l o :
  refines b l ->
  fst (apply_op b o) = fst (spec_apply l o) /\ refines (snd (apply_op b o)) (snd (spec_apply l o)).
Proof.
  intros R. pose proof R as [Hf Hfn Hl Hi Hlt].
  destruct o as [n t|n t|n|t k]; cbn [apply_op spec_apply].
  - unfold add_field, add_field_full, spec_add_named. rewrite Hi.
    destruct (holder l n) as [[i t' o'|i]|] eqn:Hh; cbn [option_map item_of_entry fst snd]; auto.
    split; [reflexivity|].
    apply (add_named_refines b l n (RegField n t false) (EField (length (reg_fields l)) t false));
      [exact R|reflexivity| |reflexivity| |reflexivity|reflexivity| |exact Hh].
    + intros m. cbn [lookup_from]. destruct (bytes_eqb m n); reflexivity.
    + cbn [b_functions reg_functions]. now rewrite app_nil_r.
    + cbn [b_items item_of_entry]. now rewrite Hf.
  - unfold add_optional_field, add_field_full, spec_add_named. rewrite Hi.
    destruct (holder l n) as [[i t' o'|i]|] eqn:Hh; cbn [option_map item_of_entry fst snd]; auto.
    split; [reflexivity|].
    apply (add_named_refines b l n (RegField n t true) (EField (length (reg_fields l)) t true));
      [exact R|reflexivity| |reflexivity| |reflexivity|reflexivity| |exact Hh].
    + intros m. cbn [lookup_from]. destruct (bytes_eqb m n); reflexivity.
    + cbn [b_functions reg_functions]. now rewrite app_nil_r.
    + cbn [b_items item_of_entry]. now rewrite Hf.
  - unfold add_function, spec_add_named. rewrite Hi.
    destruct (holder l n) as [[i t' o'|i]|] eqn:Hh; cbn [option_map item_of_entry fst snd]; auto.
    split; [reflexivity|].
    apply (add_named_refines b l n (RegFunction n) (EFunction (length (reg_functions l))));
      [exact R|reflexivity| | |reflexivity|reflexivity|reflexivity| |exact Hh].
    + intros m. cbn [lookup_from]. destruct (bytes_eqb m n); reflexivity.
    + cbn [b_fields reg_fields]. now rewrite app_nil_r.
    + cbn [b_items item_of_entry]. now rewrite Hfn.
  - unfold add_list. rewrite Hlt, has_list_spec.
    destruct (spec_get_list l t) as [p|] eqn:Hg; cbn [option_map fst snd]; auto.
    split; [reflexivity|]. constructor; cbn [b_fields b_functions b_lists b_items b_list_types].
    + now rewrite reg_fields_app, app_nil_r.
    + now rewrite reg_functions_app, app_nil_r.
    + now rewrite reg_lists_app, Hl.
    + intros m. rewrite holder_snoc, Hi. destruct (holder l m); reflexivity.
    + intros t'. rewrite spec_get_list_snoc_list. unfold map_insert_vacant. cbn [map_get].
      destruct (ty_eqb t' t) eqn:E.
      * apply reg_ty_eqb_iff in E. subst t'. rewrite Hg. cbn [option_map fst]. now rewrite Hl.
      * rewrite Hlt. destruct (spec_get_list l t'); reflexivity.
Qed.

Lemma fold_refines ops : forall st sst,
  fst st = fst sst -> refines (snd st) (snd sst) ->
  fst (fold_left step ops st) = fst (fold_left spec_step ops sst) /\
  refines (snd (fold_left step ops st)) (snd (fold_left spec_step ops sst)).
Proof.
  induction ops as [|o ops IH]; intros st sst Hr R; [now split|].
  cbn [fold_left]. destruct (apply_op_refines _ _ o R) as [Hres R'].
  apply IH; unfold step, spec_step; cbn [fst snd]; [now rewrite Hr, Hres|exact R'].
Qed.

Lemma run_refines ops :
  fst (run_ops ops) = fst (spec_run_ops ops) /\ refines (snd (run_ops ops)) (snd (spec_run_ops ops)).
Proof. apply fold_refines; [reflexivity|apply refines_empty]. Qed.

(* ------------------------------------------------------------------ *)
(* the queries of a refining builder answer like the abstract registry *)

Lemma numbered_all {A} (l : list A) : forall pre,
  option_map_all (fun i => option_map (pair i) (nth_error (pre ++ l) i)) (seq (length pre) (length l))
  = Some (numbered_from (length pre) l).
Proof.
  unfold numbered_from. induction l as [|x l IH]; intros pre; [reflexivity|].
  cbn [length seq option_map_all combine].
  rewrite nth_error_app2 by lia. rewrite Nat.sub_diag. cbn [nth_error option_map].
  specialize (IH (pre ++ [x])). rewrite <- app_assoc in IH. cbn [app] in IH.
  rewrite app_length in IH. cbn [length] in IH. rewrite Nat.add_1_r in IH. now rewrite IH.
Qed.

Lemma numbered_all0 {A} (l : list A) :
  option_map_all (fun i => option_map (pair i) (nth_error l i)) (seq 0 (length l)) = Some (numbered l).
Proof. exact (numbered_all l []). Qed.

Section Queries.
  Variables (b : builder) (l : registry).
  Hypothesis R : refines b l.

  Lemma q_get_field n : obs_get_field b n = Some (spec_get_field l n).
  Proof.
    destruct R as [Hf _ _ Hi _]. unfold obs_get_field, get_field, scheme_get, spec_get_field.
    rewrite Hi. destruct (holder l n) as [[i t o|i]|] eqn:Hh; cbn [option_map item_of_entry]; try reflexivity.
    apply lookup_from_field_nth in Hh. destruct Hh as (j & Hj & Hn). cbn in Hj. subst j.
    unfold field_at. now rewrite Hf, Hn.
  Qed.

  Lemma q_get_function n : obs_get_function b n = Some (spec_get_function l n).
  Proof.
    destruct R as [_ Hfn _ Hi _]. unfold obs_get_function, get_function, scheme_get, spec_get_function.
    rewrite Hi. destruct (holder l n) as [[i t o|i]|] eqn:Hh; cbn [option_map item_of_entry]; try reflexivity.
    apply lookup_from_function_nth in Hh. destruct Hh as (j & Hj & Hn). cbn in Hj. subst j.
    unfold function_at. now rewrite Hfn, Hn.
  Qed.

  Lemma q_get_list t : obs_get_list b t = Some (spec_get_list l t).
  Proof.
    destruct R as [_ _ Hl _ Hlt]. unfold obs_get_list, get_list. rewrite Hlt.
    destruct (spec_get_list l t) as [[i d]|] eqn:Hg; cbn [option_map fst]; [|reflexivity].
    unfold spec_get_list, spec_lists, numbered in Hg.
    apply (find_numbered_nth _ (reg_lists l) O) in Hg. destruct Hg as (j & Hj & Hn). cbn in Hj. subst j.
    unfold list_at. now rewrite Hl, Hn.
  Qed.

  Lemma q_fields : obs_fields b = Some (spec_fields l).
  Proof.
    destruct R as [Hf _ _ _ _]. unfold obs_fields, fields, field_at, spec_fields. rewrite Hf.
    apply numbered_all0.
  Qed.

  Lemma q_functions : obs_functions b = Some (spec_functions l).
  Proof.
    destruct R as [_ Hfn _ _ _]. unfold obs_functions, functions, function_at, spec_functions. rewrite Hfn.
    apply numbered_all0.
  Qed.

  Lemma q_lists : obs_lists b = Some (spec_lists l).
  Proof.
    destruct R as [_ _ Hl _ _]. unfold obs_lists, lists, list_at, spec_lists. rewrite Hl.
    apply numbered_all0.
  Qed.

  Lemma q_counts : obs_counts b = spec_counts l.
  Proof.
    destruct R as [Hf Hfn Hl _ _]. unfold obs_counts, spec_counts, field_count, function_count, list_count.
    now rewrite Hf, Hfn, Hl.
  Qed.

  Lemma q_scheme_get n : scheme_get b n = option_map item_of_entry (holder l n).
  Proof. destruct R as [_ _ _ Hi _]. apply Hi. Qed.
End Queries.

(* The statement of the main theorem, as one proposition about a builder and
   a registry: every public query answers alike. *)
Definition same_answers (b : builder) (l : registry) : Prop :=
  (forall n, obs_get_field b n = Some (spec_get_field l n)) /\
  (forall n, obs_get_function b n = Some (spec_get_function l n)) /\
  (forall t, obs_get_list b t = Some (spec_get_list l t)) /\
  obs_fields b = Some (spec_fields l) /\
  obs_functions b = Some (spec_functions l) /\
  obs_lists b = Some (spec_lists l) /\
  obs_counts b = spec_counts l.

Lemma refines_same_answers b l : refines b l -> same_answers b l.
Proof.
  intros R. repeat split; intros;
    [apply q_get_field|apply q_get_function|apply q_get_list|apply q_fields|apply q_functions|apply q_lists
    |apply q_counts]; exact R.
Qed.

Lemma registry_refines_map_proof (ops : list reg_op) :
  fst (run_ops ops) = fst (spec_run_ops ops) /\
  same_answers (snd (run_ops ops)) (snd (spec_run_ops ops)).
Proof. destruct (run_refines ops) as [H R]. split; [exact H|now apply refines_same_answers]. Qed.

(* ------------------------------------------------------------------ *)
(* failures change nothing and report the holder's kind; successes are exactly the free names *)

Lemma failed_add_unchanged b o e : fst (apply_op b o) = AddErr e -> snd (apply_op b o) = b.
Proof.
  destruct o as [n t|n t|n|t k]; cbn [apply_op];
    unfold add_field, add_optional_field, add_field_full, add_function, add_list.
  - destruct (map_get bytes_eqb n (b_items b)) as [[i|i]|]; cbn; intros H; [reflexivity|reflexivity|discriminate].
  - destruct (map_get bytes_eqb n (b_items b)) as [[i|i]|]; cbn; intros H; [reflexivity|reflexivity|discriminate].
  - destruct (map_get bytes_eqb n (b_items b)) as [[i|i]|]; cbn; intros H; [reflexivity|reflexivity|discriminate].
  - destruct (map_get ty_eqb t (b_list_types b)); cbn; intros H; [reflexivity|discriminate].
Qed.

(* the response is determined by who holds the key *)
Definition holder_kind (b : builder) (k : key) : option redef :=
  match k with
  | KName n => match scheme_get b n with
               | Some (IField _) => Some RedefField
               | Some (IFunction _) => Some RedefFunction
               | None => None
               end
  | KList t => match get_list b t with Some _ => Some RedefList | None => None end
  end.

Lemma response_by_holder b o :
  fst (apply_op b o) = match holder_kind b (op_key o) with Some e => AddErr e | None => AddOk end.
Proof.
  destruct o as [n t|n t|n|t k]; cbn [apply_op op_key holder_kind];
    unfold add_field, add_optional_field, add_field_full, add_function, add_list, scheme_get, get_list.
  - destruct (map_get bytes_eqb n (b_items b)) as [[i|i]|]; reflexivity.
  - destruct (map_get bytes_eqb n (b_items b)) as [[i|i]|]; reflexivity.
  - destruct (map_get bytes_eqb n (b_items b)) as [[i|i]|]; reflexivity.
  - destruct (map_get ty_eqb t (b_list_types b)); reflexivity.
Qed.

Lemma key_eqb_iff a c : key_eqb a c = true <-> a = c.
Proof.
  destruct a as [x|x], c as [y|y]; cbn [key_eqb]; split; intros H; try discriminate.
  - apply reg_bytes_eqb_iff in H. now subst.
  - inversion H; subst. apply reg_bytes_eqb_refl.
  - apply reg_ty_eqb_iff in H. now subst.
  - inversion H; subst. apply reg_ty_eqb_refl.
Qed.

(* after an operation, its key is held: by the previous holder, or by the operation's own kind *)
Lemma holder_kind_after b o k :
  holder_kind (snd (apply_op b o)) k =
  match holder_kind b k with
  | Some e => Some e
  | None => if key_eqb k (op_key o) then Some (op_redef o) else None
  end.
Proof.
  destruct (fst (apply_op b o)) as [|e] eqn:Hres.
  2:{ rewrite (failed_add_unchanged _ _ _ Hres). rewrite response_by_holder in Hres.
      destruct (holder_kind b k) eqn:Hk; [reflexivity|].
      destruct (key_eqb k (op_key o)) eqn:E; [|reflexivity].
      apply key_eqb_iff in E. subst k. rewrite Hk in Hres. discriminate. }
  rewrite response_by_holder in Hres.
  destruct o as [n t|n t|n|t kd]; cbn [apply_op op_key op_redef holder_kind] in *;
    unfold add_field, add_optional_field, add_field_full, add_function, add_list, scheme_get, get_list in *.
  - destruct (map_get bytes_eqb n (b_items b)) as [[i|i]|] eqn:Hn; try discriminate. cbn [snd].
    destruct k as [m|t']; cbn [holder_kind key_eqb]; unfold scheme_get, get_list; cbn [b_items b_list_types].
    + unfold map_insert_vacant. cbn [map_get]. destruct (bytes_eqb m n) eqn:E.
      * apply reg_bytes_eqb_iff in E. subst m. now rewrite Hn.
      * destruct (map_get bytes_eqb m (b_items b)) as [[j|j]|]; reflexivity.
    + destruct (map_get ty_eqb t' (b_list_types b)); reflexivity.
  - destruct (map_get bytes_eqb n (b_items b)) as [[i|i]|] eqn:Hn; try discriminate. cbn [snd].
    destruct k as [m|t']; cbn [holder_kind key_eqb]; unfold scheme_get, get_list; cbn [b_items b_list_types].
    + unfold map_insert_vacant. cbn [map_get]. destruct (bytes_eqb m n) eqn:E.
      * apply reg_bytes_eqb_iff in E. subst m. now rewrite Hn.
      * destruct (map_get bytes_eqb m (b_items b)) as [[j|j]|]; reflexivity.
    + destruct (map_get ty_eqb t' (b_list_types b)); reflexivity.
  - destruct (map_get bytes_eqb n (b_items b)) as [[i|i]|] eqn:Hn; try discriminate. cbn [snd].
    destruct k as [m|t']; cbn [holder_kind key_eqb]; unfold scheme_get, get_list; cbn [b_items b_list_types].
    + unfold map_insert_vacant. cbn [map_get]. destruct (bytes_eqb m n) eqn:E.
      * apply reg_bytes_eqb_iff in E. subst m. now rewrite Hn.
      * destruct (map_get bytes_eqb m (b_items b)) as [[j|j]|]; reflexivity.
    + destruct (map_get ty_eqb t' (b_list_types b)); reflexivity.
  - destruct (map_get ty_eqb t (b_list_types b)) eqn:Hn; try discriminate. cbn [snd].
    destruct k as [m|t']; cbn [holder_kind key_eqb]; unfold scheme_get, get_list; cbn [b_items b_list_types].
    + destruct (map_get bytes_eqb m (b_items b)) as [[j|j]|]; reflexivity.
    + unfold map_insert_vacant. cbn [map_get]. destruct (ty_eqb t' t) eqn:E.
      * apply reg_ty_eqb_iff in E. subst t'. now rewrite Hn.
      * destruct (map_get ty_eqb t' (b_list_types b)); reflexivity.
Qed.

Lemma run_ops_snoc ops o : run_ops (ops ++ [o]) = step (run_ops ops) o.
Proof. unfold run_ops. now rewrite fold_left_app. Qed.

(* who holds a key after a history: the first operation that claimed it *)
Lemma holder_kind_history ops : forall k,
  holder_kind (snd (run_ops ops)) k =
  option_map op_redef (find (fun p => key_eqb k (op_key p)) ops).
Proof.
  induction ops as [|o ops IH] using rev_ind; intros k.
  - destruct k; reflexivity.
  - rewrite run_ops_snoc. unfold step. cbn [snd]. rewrite holder_kind_after, IH, find_app.
    destruct (find _ ops); [reflexivity|]. cbn [find option_map].
    destruct (key_eqb k (op_key o)); reflexivity.
Qed.

Lemma response_history ops o :
  fst (run_ops (ops ++ [o])) = fst (run_ops ops) ++ [expected_response ops o].
Proof.
  rewrite run_ops_snoc. unfold step. cbn [fst]. f_equal. f_equal.
  rewrite response_by_holder, holder_kind_history. unfold expected_response.
  destruct (find _ ops); reflexivity.
Qed.

(* a name that no operation of the history mentions is not found, whatever else was registered *)
Lemma never_added_not_found ops n :
  ~ In (KName n) (map op_key ops) -> scheme_get (snd (run_ops ops)) n = None.
Proof.
  intros Hn. pose proof (holder_kind_history ops (KName n)) as H.
  assert (Hf : find (fun p => key_eqb (KName n) (op_key p)) ops = None).
  { destruct (find _ ops) as [p|] eqn:E; [|reflexivity]. apply find_some in E. destruct E as [Hin He].
    apply key_eqb_iff in He. exfalso. apply Hn. rewrite He. now apply in_map. }
  rewrite Hf in H. cbn [holder_kind option_map] in H.
  destruct (scheme_get _ n) as [[i|i]|]; [discriminate|discriminate|reflexivity].
Qed.

(* ------------------------------------------------------------------ *)
(* the invariant: the items map and the vectors describe each other *)

Record consistent (b : builder) : Prop := {
  c_field_slot : forall n i, scheme_get b n = Some (IField i) ->
                 exists f, field_at b i = Some f /\ fd_name f = n;
  c_function_slot : forall n i, scheme_get b n = Some (IFunction i) -> function_at b i = Some n;
  c_slot_field : forall i f, field_at b i = Some f -> scheme_get b (fd_name f) = Some (IField i);
  c_slot_function : forall i n, function_at b i = Some n -> scheme_get b n = Some (IFunction i);
  c_list_slot : forall t i, get_list b t = Some i -> exists k, list_at b i = Some (t, k);
  c_slot_list : forall i t k, list_at b i = Some (t, k) -> get_list b t = Some i
}.

Lemma consistent_empty : consistent empty_builder.
Proof.
  constructor; unfold scheme_get, get_list, field_at, function_at, list_at; cbn; intros; try discriminate.
  - destruct i; discriminate.
  - destruct i; discriminate.
  - destruct i; discriminate.
Qed.

Lemma nth_error_snoc {A} (l : list A) x i y :
  nth_error (l ++ [x]) i = Some y ->
  (i < length l /\ nth_error l i = Some y)%nat \/ (i = length l /\ y = x).
Proof.
  intros H. destruct (Nat.lt_ge_cases i (length l)) as [Hlt|Hge].
  - left. split; [exact Hlt|]. now rewrite nth_error_app1 in H.
  - right. rewrite nth_error_app2 in H by exact Hge.
    destruct (i - length l)%nat as [|d] eqn:E.
    + cbn in H. inversion H. split; [lia|reflexivity].
    + cbn in H. destruct d; discriminate.
Qed.

Lemma nth_error_snoc_old {A} (l : list A) x i y :
  nth_error l i = Some y -> nth_error (l ++ [x]) i = Some y.
Proof.
  intros H. rewrite nth_error_app1; [exact H|]. apply nth_error_Some. now rewrite H.
Qed.

Lemma nth_error_snoc_new {A} (l : list A) x : nth_error (l ++ [x]) (length l) = Some x.
Proof. rewrite nth_error_app2 by lia. now rewrite Nat.sub_diag. Qed.

Lemma add_field_full_consistent b n t o :
  consistent b -> consistent (snd (add_field_full b n t o)).
Proof.
  intros [C1 C2 C3 C4 C5 C6]. unfold add_field_full.
  destruct (map_get bytes_eqb n (b_items b)) as [[j|j]|] eqn:Hn; cbn [snd]; try (constructor; assumption).
  constructor; unfold scheme_get, get_list, field_at, function_at, list_at in *;
    cbn [b_fields b_functions b_items b_list_types b_lists]; unfold map_insert_vacant; cbn [map_get].
  - intros m i. destruct (bytes_eqb m n) eqn:E.
    + apply reg_bytes_eqb_iff in E. subst m. intros H. inversion H; subst i.
      eexists. split; [apply nth_error_snoc_new|reflexivity].
    + intros H. apply C1 in H. destruct H as (f & Hf & Hname). exists f. split; [|exact Hname].
      now apply nth_error_snoc_old.
  - intros m i. destruct (bytes_eqb m n) eqn:E; [discriminate|]. apply C2.
  - intros i f H. apply nth_error_snoc in H. destruct H as [[_ H]|[Hi Hf]].
    + apply C3 in H. destruct (bytes_eqb (fd_name f) n) eqn:E; [|exact H].
      apply reg_bytes_eqb_iff in E. rewrite E, Hn in H. discriminate.
    + subst i f. cbn [fd_name]. now rewrite reg_bytes_eqb_refl.
  - intros i m H. apply C4 in H. destruct (bytes_eqb m n) eqn:E; [|exact H].
    apply reg_bytes_eqb_iff in E. rewrite E, Hn in H. discriminate.
  - exact C5.
  - exact C6.
Qed.

Lemma add_function_consistent b n : consistent b -> consistent (snd (add_function b n)).
Proof.
  intros [C1 C2 C3 C4 C5 C6]. unfold add_function.
  destruct (map_get bytes_eqb n (b_items b)) as [[j|j]|] eqn:Hn; cbn [snd]; try (constructor; assumption).
  constructor; unfold scheme_get, get_list, field_at, function_at, list_at in *;
    cbn [b_fields b_functions b_items b_list_types b_lists]; unfold map_insert_vacant; cbn [map_get].
  - intros m i. destruct (bytes_eqb m n) eqn:E; [discriminate|]. apply C1.
  - intros m i. destruct (bytes_eqb m n) eqn:E.
    + apply reg_bytes_eqb_iff in E. subst m. intros H. inversion H; subst i. apply nth_error_snoc_new.
    + intros H. apply C2 in H. now apply nth_error_snoc_old.
  - intros i f H. apply C3 in H. destruct (bytes_eqb (fd_name f) n) eqn:E; [|exact H].
    apply reg_bytes_eqb_iff in E. rewrite E, Hn in H. discriminate.
  - intros i m H. apply nth_error_snoc in H. destruct H as [[_ H]|[Hi Hf]].
    + apply C4 in H. destruct (bytes_eqb m n) eqn:E; [|exact H].
      apply reg_bytes_eqb_iff in E. rewrite E, Hn in H. discriminate.
    + subst i m. now rewrite reg_bytes_eqb_refl.
  - exact C5.
  - exact C6.
Qed.

Lemma add_list_consistent b t k : consistent b -> consistent (snd (add_list b t k)).
Proof.
  intros [C1 C2 C3 C4 C5 C6]. unfold add_list.
  destruct (map_get ty_eqb t (b_list_types b)) as [j|] eqn:Hn; cbn [snd]; try (constructor; assumption).
  constructor; unfold scheme_get, get_list, field_at, function_at, list_at in *;
    cbn [b_fields b_functions b_items b_list_types b_lists]; unfold map_insert_vacant; cbn [map_get];
    try assumption.
  - intros t' i. destruct (ty_eqb t' t) eqn:E.
    + apply reg_ty_eqb_iff in E. subst t'. intros H. inversion H; subst i. exists k. apply nth_error_snoc_new.
    + intros H. apply C5 in H. destruct H as (k' & H). exists k'. now apply nth_error_snoc_old.
  - intros i t' k' H. apply nth_error_snoc in H. destruct H as [[_ H]|[Hi Hf]].
    + apply C6 in H. destruct (ty_eqb t' t) eqn:E; [|exact H].
      apply reg_ty_eqb_iff in E. rewrite E, Hn in H. discriminate.
    + subst i. inversion Hf; subst. now rewrite reg_ty_eqb_refl.
Qed.

Lemma apply_op_consistent b o : consistent b -> consistent (snd (apply_op b o)).
Proof.
  destruct o as [n t|n t|n|t k]; cbn [apply_op]; unfold add_field, add_optional_field.
  - apply add_field_full_consistent.
  - apply add_field_full_consistent.
  - apply add_function_consistent.
  - apply add_list_consistent.
Qed.

Lemma run_ops_consistent ops : consistent (snd (run_ops ops)).
Proof.
  induction ops as [|o ops IH] using rev_ind; [apply consistent_empty|].
  rewrite run_ops_snoc. unfold step. cbn [snd]. now apply apply_op_consistent.
Qed.

(* consequences: slots are unique, lookups are exact *)
Lemma consistent_unique_names b : consistent b ->
  (forall i j f g, field_at b i = Some f -> field_at b j = Some g -> fd_name f = fd_name g -> i = j) /\
  (forall i j n, function_at b i = Some n -> function_at b j = Some n -> i = j) /\
  (forall i j f, field_at b i = Some f -> function_at b j = Some (fd_name f) -> False) /\
  (forall i j t k k', list_at b i = Some (t, k) -> list_at b j = Some (t, k') -> i = j).
Proof.
  intros [C1 C2 C3 C4 C5 C6]. repeat split.
  - intros i j f g Hf Hg E. apply C3 in Hf. apply C3 in Hg. rewrite E in Hf. rewrite Hf in Hg. now inversion Hg.
  - intros i j n Hi Hj. apply C4 in Hi. apply C4 in Hj. rewrite Hi in Hj. now inversion Hj.
  - intros i j f Hf Hn. apply C3 in Hf. apply C4 in Hn. rewrite Hf in Hn. discriminate.
  - intros i j t k k' Hi Hj. apply C6 in Hi. apply C6 in Hj. rewrite Hi in Hj. now inversion Hj.
Qed.

Lemma lookup_exact_proof ops n i :
  get_field (snd (run_ops ops)) n = Some i ->
  exists f, field_at (snd (run_ops ops)) i = Some f /\ fd_name f = n.
Proof.
  intros H. apply (c_field_slot _ (run_ops_consistent ops)). unfold get_field in H.
  destruct (scheme_get _ n) as [[j|j]|]; try discriminate. now inversion H.
Qed.

Lemma lookup_exact_function_proof ops n i :
  get_function (snd (run_ops ops)) n = Some i -> function_at (snd (run_ops ops)) i = Some n.
Proof.
  intros H. apply (c_function_slot _ (run_ops_consistent ops)). unfold get_function in H.
  destruct (scheme_get _ n) as [[j|j]|]; try discriminate. now inversion H.
Qed.

(* ------------------------------------------------------------------ *)
(* the registry of a history is the list of its first claims *)

Definition key_held (l : registry) (k : key) : bool :=
  match k with
  | KName n => match holder l n with Some _ => true | None => false end
  | KList t => has_list l t
  end.

Lemma key_held_snoc l o k :
  key_held l (op_key o) = false ->
  key_held (l ++ [reg_of_op o]) k = key_held l k || key_eqb k (op_key o).
Proof.
  intros _. destruct k as [n|t]; cbn [key_held].
  - rewrite holder_snoc. destruct (holder l n); [reflexivity|]. cbn [orb].
    destruct o as [m t'|m t'|m|t' kd]; cbn [reg_of_op lookup_from op_key key_eqb];
      try (destruct (bytes_eqb n m); reflexivity). reflexivity.
  - unfold has_list. rewrite reg_lists_app, existsb_app.
    destruct o as [m t'|m t'|m|t' kd]; cbn [reg_of_op reg_lists existsb op_key key_eqb fst];
      now rewrite ?orb_false_r.
Qed.

Lemma spec_apply_by_held l o :
  spec_apply l o =
  if key_held l (op_key o)
  then (fst (spec_apply l o), l)
  else (AddOk, l ++ [reg_of_op o]).
Proof.
  destruct o as [n t|n t|n|t k]; cbn [spec_apply op_key key_held reg_of_op]; unfold spec_add_named;
    try (destruct (holder l n) as [[i t' o'|i]|]; reflexivity).
  destruct (has_list l t); reflexivity.
Qed.

Lemma first_claims_fold ops : forall seen st,
  (forall k, existsb (fun p => key_eqb k (op_key p)) seen = key_held (snd st) k) ->
  snd (fold_left spec_step ops st) = snd st ++ map reg_of_op (first_claims seen ops).
Proof.
  induction ops as [|o ops IH]; intros seen st Hs; [cbn; now rewrite app_nil_r|].
  cbn [fold_left first_claims]. rewrite Hs.
  unfold spec_step at 2. rewrite (spec_apply_by_held (snd st) o).
  destruct (key_held (snd st) (op_key o)) eqn:Hk.
  - rewrite (IH seen); cbn [snd]; [reflexivity|exact Hs].
  - rewrite (IH (seen ++ [o])); cbn [snd map].
    + now rewrite <- app_assoc.
    + intros k. rewrite existsb_app, key_held_snoc by exact Hk. rewrite Hs. cbn [existsb].
      now rewrite orb_false_r.
Qed.

Lemma registry_is_first_claims ops :
  snd (spec_run_ops ops) = map reg_of_op (first_claims [] ops).
Proof.
  unfold spec_run_ops. rewrite (first_claims_fold ops [] ([], [])); [reflexivity|].
  intros k. destruct k; reflexivity.
Qed.

(* ------------------------------------------------------------------ *)
(* the identifier lexer *)

Lemma span_while_spec f l :
  l = fst (span_while f l) ++ snd (span_while f l) /\
  forallb f (fst (span_while f l)) = true /\
  match snd (span_while f l) with [] => True | c :: _ => f c = false end.
Proof.
  induction l as [|c l IH]; [cbn; auto|]. cbn [span_while]. destruct (f c) eqn:E; cbn [fst snd].
  - destruct IH as (H1 & H2 & H3). repeat split.
    + cbn [app]. now rewrite <- H1.
    + cbn [forallb]. now rewrite E, H2.
    + exact H3.
  - repeat split. exact E.
Qed.

Lemma ident_char_not_dot c : is_ident_char c = true -> (c =? 46) = false.
Proof.
  intros H. destruct (c =? 46) eqn:E; [|reflexivity]. apply N.eqb_eq in E. subst c. discriminate.
Qed.

Lemma ident_char_name_byte c : is_ident_char c = true -> is_name_byte c = true.
Proof. intros H. unfold is_name_byte. now rewrite H. Qed.

Lemma name_run_app_ident seg rest :
  forallb is_ident_char seg = true ->
  name_run (seg ++ rest) = (seg ++ fst (name_run rest), snd (name_run rest)).
Proof.
  induction seg as [|c seg IH]; intros H; [cbn; now destruct (name_run rest)|].
  cbn [forallb] in H. apply andb_true_iff in H. destruct H as [Hc Hs].
  cbn [app name_run]. rewrite (ident_char_name_byte _ Hc), (IH Hs). reflexivity.
Qed.

Lemma segments_ok_ident seg : forall cur run,
  seg <> [] -> forallb is_ident_char seg = true ->
  segments_ok cur (seg ++ run) = segments_ok true run.
Proof.
  induction seg as [|c seg IH]; intros cur run Hne H; [contradiction|].
  cbn [forallb] in H. apply andb_true_iff in H. destruct H as [Hc Hs].
  cbn [app segments_ok]. rewrite (ident_char_not_dot _ Hc).
  destruct seg as [|d seg']; [reflexivity|]. apply IH; [discriminate|exact Hs].
Qed.

Definition spec_lex_result (acc input : bytes) : lex_result bytes :=
  if segments_ok false (fst (name_run input))
  then LexOk (acc ++ fst (name_run input)) (snd (name_run input))
  else LexErr ExpectedName.

Lemma ident_loop_spec fuel : forall acc input,
  (length input < fuel)%nat -> ident_loop fuel acc input = spec_lex_result acc input.
Proof.
  induction fuel as [|fuel IH]; intros acc input Hlen; [lia|].
  cbn [ident_loop]. unfold take_while, spec_lex_result.
  destruct (span_while_spec is_ident_char input) as (Hsplit & Hall & Hstop).
  destruct (span_while is_ident_char input) as [seg rest] eqn:Esp. cbn [fst snd] in *.
  destruct seg as [|c seg].
  - (* no identifier character at the start *)
    cbn [app] in Hsplit. subst rest.
    destruct input as [|d input']; [reflexivity|].
    cbn [name_run]. unfold is_name_byte. rewrite Hstop. cbn [orb].
    destruct (d =? 46) eqn:Ed; cbn [fst segments_ok]; [now rewrite Ed|reflexivity].
  - assert (Hne : c :: seg <> []) by discriminate.
    assert (Hnr : name_run input = ((c :: seg) ++ fst (name_run rest), snd (name_run rest))).
    { rewrite Hsplit at 1. apply (name_run_app_ident _ rest Hall). }
    rewrite Hnr. cbn [fst snd].
    rewrite (segments_ok_ident _ false _ Hne Hall).
    assert (Hrl : (length rest < length input)%nat).
    { rewrite Hsplit. rewrite app_length. cbn [length]. lia. }
    destruct rest as [|d rest'].
    + cbn [starts_with name_run fst snd segments_ok]. now rewrite app_nil_r.
    + cbn [starts_with]. destruct (46 =? d) eqn:Ed.
      * apply N.eqb_eq in Ed. subst d. cbn [name_run]. change (is_name_byte 46) with true. cbn iota.
        cbn [fst snd segments_ok]. change (46 =? 46) with true. cbn iota. cbn [andb].
        rewrite IH by (cbn [length] in Hrl; lia). unfold spec_lex_result.
        destruct (segments_ok false (fst (name_run rest'))); [|reflexivity].
        f_equal. rewrite <- !app_assoc. reflexivity.
      * cbn [name_run]. unfold is_name_byte. rewrite Hstop. rewrite N.eqb_sym in Ed. rewrite Ed.
        cbn [orb fst snd segments_ok]. now rewrite app_nil_r.
Qed.

Lemma lex_ident_spec input :
  lex_ident input =
  match spec_lex_ident input with
  | Some (name, rest) => LexOk name rest
  | None => LexErr ExpectedName
  end.
Proof.
  unfold lex_ident. rewrite ident_loop_spec by (cbn; lia). unfold spec_lex_result, spec_lex_ident.
  destruct (name_run input) as [run rest]. cbn [fst snd app]. destruct (segments_ok false run); reflexivity.
Qed.

(* what the specification's identifier is: a split of the input at the end of
   the maximal run of identifier characters and dots *)
Lemma name_run_spec l :
  l = fst (name_run l) ++ snd (name_run l) /\
  forallb is_name_byte (fst (name_run l)) = true /\
  match snd (name_run l) with [] => True | c :: _ => is_name_byte c = false end.
Proof.
  induction l as [|c l IH]; [cbn; auto|]. cbn [name_run]. destruct (is_name_byte c) eqn:E; cbn [fst snd].
  - destruct IH as (H1 & H2 & H3). repeat split.
    + cbn [app]. now rewrite <- H1.
    + cbn [forallb]. now rewrite E, H2.
    + exact H3.
  - repeat split. exact E.
Qed.

Lemma lex_ident_maximal input name rest :
  lex_ident input = LexOk name rest ->
  input = name ++ rest /\
  forallb is_name_byte name = true /\
  segments_ok false name = true /\
  match rest with [] => True | c :: _ => is_ident_char c = false /\ c <> 46 end.
Proof.
  rewrite lex_ident_spec. unfold spec_lex_ident.
  destruct (name_run_spec input) as (H1 & H2 & H3).
  destruct (name_run input) as [run r]. cbn [fst snd] in *.
  destruct (segments_ok false run) eqn:Hs; [|discriminate].
  intros H. inversion H; subst name rest. repeat split; auto.
  destruct r as [|c r']; [exact I|]. unfold is_name_byte in H3. apply orb_false_iff in H3.
  destruct H3 as [Hc Hd]. split; [exact Hc|]. intros E. subst c. discriminate.
Qed.

Lemma lex_ident_never_out_of_fuel input : lex_ident input <> LexErr OutOfFuel.
Proof.
  rewrite lex_ident_spec. destruct (spec_lex_ident input) as [[n r]|]; discriminate.
Qed.

(* ------------------------------------------------------------------ *)
(* identifiers in value expressions and filters *)

Lemma lex_identifier_resolve b l text :
  refines b l ->
  lex_identifier_expr b text =
  match resolve l text with
  | (Malformed, _) => LexErr ExpectedName
  | (Unknown, _) => LexErr UnknownIdentifier
  | (ToField i t, rest) => LexOk (PField i, t) rest
  | (ToFunction i, rest) =>
      match starts_with [40] (skip_space rest) with
      | None => LexErr ExpectedLiteral
      | Some r =>
          match skip_space r with
          | [] => LexErr ExpectedLiteral
          | c :: r' => if c =? 41 then LexOk (PCall i, TBool) r' else LexErr Unmodelled
          end
      end
  end.
Proof.
  intros R. unfold lex_identifier_expr, lex_identifier, resolve. rewrite lex_ident_spec.
  destruct (spec_lex_ident text) as [[name rest]|]; [|reflexivity].
  rewrite (q_scheme_get b l R).
  destruct (holder l name) as [[i t o|i]|] eqn:Hh; cbn [option_map item_of_entry]; try reflexivity.
  pose proof (q_get_field b l R name) as Hq. unfold obs_get_field, get_field, spec_get_field in Hq.
  rewrite (q_scheme_get b l R), Hh in Hq. cbn [option_map item_of_entry] in Hq.
  destruct (field_at b i) as [f|]; [|discriminate]. cbn [option_map] in Hq. inversion Hq; subst f. reflexivity.
Qed.

Lemma call_suffix_cases rest :
  (rest = [] /\ is_call_suffix rest = Some false) \/
  (rest = [40; 41] /\ is_call_suffix rest = Some true) \/
  is_call_suffix rest = None.
Proof.
  unfold is_call_suffix. destruct rest as [|c r]; [left; split; reflexivity|].
  change (bytes_eqb (c :: r) []) with false. cbv iota.
  right. destruct (bytes_eqb (c :: r) [40; 41]) eqn:E; [|right; reflexivity].
  apply reg_bytes_eqb_iff in E. left. split; [exact E|reflexivity].
Qed.

Lemma probe_value_spec_proof b l text :
  refines b l -> spec_probe_value l text <> PErr Unmodelled ->
  probe_value b text = spec_probe_value l text.
Proof.
  intros R. unfold probe_value, lex_index_expr, spec_probe_value. rewrite (lex_identifier_resolve b l text R).
  destruct (resolve l text) as [[| |i t|i] rest]; try reflexivity.
  - destruct (call_suffix_cases rest) as [[E1 E2]|[[E1 E2]|E2]]; rewrite E2; try subst rest;
      [reflexivity|reflexivity|]. intros H. now contradiction H.
  - destruct (call_suffix_cases rest) as [[E1 E2]|[[E1 E2]|E2]]; rewrite E2; try subst rest;
      [reflexivity|reflexivity|]. intros H. now contradiction H.
Qed.

Lemma bool_container_next t :
  bool_container t = match ty_next t with Some TBool => true | _ => false end.
Proof. destruct t as [| | | |t1|t1]; try reflexivity; destruct t1; reflexivity. Qed.

Lemma bool_container_not_bool t : bool_container t = true -> ty_eqb t TBool = false.
Proof. destruct t; try discriminate; reflexivity. Qed.

Lemma probe_filter_spec_proof b l text :
  refines b l -> spec_probe_filter l text <> PErr Unmodelled ->
  probe_filter b text = spec_probe_filter l text.
Proof.
  intros R. unfold probe_filter, spec_probe_filter.
  destruct (begins [40] text || begins [33] text || begins [110; 111; 116] text
            || begins [97; 110; 121] text || begins [97; 108; 108] text); [reflexivity|].
  unfold lex_index_expr. rewrite (lex_identifier_resolve b l text R).
  destruct (resolve l text) as [[| |i t|i] rest]; try reflexivity.
  - destruct (call_suffix_cases rest) as [[E1 E2]|[[E1 E2]|E2]]; rewrite E2; try subst rest;
      [| |intros H; now contradiction H]; intros _;
      (destruct t as [| | | |t1|t1]; try destruct t1; reflexivity).
  - destruct (call_suffix_cases rest) as [[E1 E2]|[[E1 E2]|E2]]; rewrite E2; try subst rest;
      [reflexivity|reflexivity|]. intros H. now contradiction H.
Qed.

(* ------------------------------------------------------------------ *)
(* scheme identity *)

Lemma combine_snoc {A B} (a : list A) : forall (c : list B) x y,
  length a = length c -> combine (a ++ [x]) (c ++ [y]) = combine a c ++ [(x, y)].
Proof.
  induction a as [|u a IH]; intros [|v c] x y H; try discriminate; [reflexivity|].
  cbn [app combine]. rewrite IH; [reflexivity|]. now inversion H.
Qed.

Lemma nth_error_combine_in {A B} (a : list A) : forall (c : list B) i x y,
  nth_error a i = Some x -> nth_error c i = Some y -> In (x, y) (combine a c).
Proof.
  induction a as [|u a IH]; intros [|v c] [|i] x y Ha Hc; try discriminate.
  - inversion Ha; inversion Hc; subst. now left.
  - right. now apply (IH c i).
Qed.

Record world_rel (st : list scheme * nat) (ost : list nat * nat) : Prop := {
  w_len : length (fst st) = length (fst ost);
  w_same : forall p q, In p (combine (fst st) (fst ost)) -> In q (combine (fst st) (fst ost)) ->
           (s_id (fst p) = s_id (fst q) <-> snd p = snd q);
  w_bound : forall p, In p (combine (fst st) (fst ost)) -> (s_id (fst p) < snd st /\ snd p < snd ost)%nat
}.

Lemma world_step st ost o :
  world_rel st ost -> world_rel (scheme_step st o) (origin_step ost o).
Proof.
  intros [Hlen Hsame Hbound]. destruct o as [ops|k]; cbn [scheme_step origin_step].
  - unfold build. cbn [fst snd]. constructor; cbn [fst snd].
    + rewrite !app_length. cbn [length]. now rewrite Hlen.
    + intros p q. rewrite (combine_snoc _ _ _ _ Hlen). rewrite !in_app_iff. cbn [In].
      intros [Hp|[Hp|[]]] [Hq|[Hq|[]]].
      * now apply Hsame.
      * subst q. cbn [fst snd s_id]. apply Hbound in Hp. split; intros E; lia.
      * subst p. cbn [fst snd s_id]. apply Hbound in Hq. split; intros E; lia.
      * subst p q. split; reflexivity.
    + intros p. rewrite (combine_snoc _ _ _ _ Hlen). rewrite in_app_iff. cbn [In].
      intros [Hp|[Hp|[]]].
      * apply Hbound in Hp. lia.
      * subst p. cbn [fst snd s_id]. lia.
  - destruct (nth_error (fst st) k) as [s|] eqn:Es.
    + destruct (nth_error (fst ost) k) as [x|] eqn:Ex.
      2:{ apply nth_error_None in Ex. assert (k < length (fst st))%nat by (apply nth_error_Some; now rewrite Es). lia. }
      pose proof (nth_error_combine_in _ _ _ _ _ Es Ex) as Hin. unfold scheme_clone.
      constructor; cbn [fst snd].
      * rewrite !app_length. cbn [length]. now rewrite Hlen.
      * intros p q. rewrite (combine_snoc _ _ _ _ Hlen). rewrite !in_app_iff. cbn [In].
        intros [Hp|[Hp|[]]] [Hq|[Hq|[]]]; try subst p; try subst q; now apply Hsame.
      * intros p. rewrite (combine_snoc _ _ _ _ Hlen). rewrite in_app_iff. cbn [In].
        intros [Hp|[Hp|[]]]; try subst p; [apply Hbound in Hp|apply Hbound in Hin]; cbn [fst snd] in *; lia.
    + destruct (nth_error (fst ost) k) as [x|] eqn:Ex.
      1:{ apply nth_error_None in Es. assert (k < length (fst ost))%nat by (apply nth_error_Some; now rewrite Ex). lia. }
      constructor; cbn [fst snd]; [exact Hlen|exact Hsame|].
      intros p Hp. apply Hbound in Hp. lia.
Qed.

Lemma world_fold ops : forall st ost,
  world_rel st ost -> world_rel (fold_left scheme_step ops st) (fold_left origin_step ops ost).
Proof.
  induction ops as [|o ops IH]; intros st ost W; [exact W|]. cbn [fold_left]. apply IH. now apply world_step.
Qed.

Lemma world_run ops :
  world_rel (fold_left scheme_step ops ([], O)) (fold_left origin_step ops ([], O)).
Proof. apply world_fold. constructor; cbn; [reflexivity|intros p q []|intros p []]. Qed.

Lemma scheme_eq_iff_clone_proof ops i j si sj oi oj :
  nth_error (run_scheme_ops ops) i = Some si -> nth_error (run_scheme_ops ops) j = Some sj ->
  nth_error (scheme_origins ops) i = Some oi -> nth_error (scheme_origins ops) j = Some oj ->
  scheme_eqb si sj = Nat.eqb oi oj.
Proof.
  unfold run_scheme_ops, scheme_origins. intros Hi Hj Hoi Hoj.
  destruct (world_run ops) as [_ Hsame _].
  pose proof (nth_error_combine_in _ _ _ _ _ Hi Hoi) as Pi.
  pose proof (nth_error_combine_in _ _ _ _ _ Hj Hoj) as Pj.
  specialize (Hsame _ _ Pi Pj). cbn [fst snd] in Hsame. unfold scheme_eqb.
  destruct (Nat.eqb oi oj) eqn:E.
  - apply Nat.eqb_eq in E. apply Nat.eqb_eq. now apply Hsame.
  - apply Nat.eqb_neq in E. apply Nat.eqb_neq. intros H. apply E. now apply Hsame.
Qed.

Lemma scheme_worlds_same_length ops : length (run_scheme_ops ops) = length (scheme_origins ops).
Proof. unfold run_scheme_ops, scheme_origins. now destruct (world_run ops) as [H _ _]. Qed.

(* ------------------------------------------------------------------ *)
(* statements in the form used by Props/C16.v *)

Lemma field_indexes_insertion_order_proof ops :
  obs_fields (snd (run_ops ops)) = Some (numbered (reg_fields (map reg_of_op (first_claims [] ops)))) /\
  obs_functions (snd (run_ops ops)) = Some (numbered (reg_functions (map reg_of_op (first_claims [] ops)))) /\
  obs_lists (snd (run_ops ops)) = Some (numbered (reg_lists (map reg_of_op (first_claims [] ops)))).
Proof.
  destruct (run_refines ops) as [_ R]. rewrite <- registry_is_first_claims.
  repeat split; [now apply q_fields|now apply q_functions|now apply q_lists].
Qed.

Lemma items_consistent_proof ops :
  let b := snd (run_ops ops) in
  (forall n i, scheme_get b n = Some (IField i) -> exists f, field_at b i = Some f /\ fd_name f = n) /\
  (forall n i, scheme_get b n = Some (IFunction i) -> function_at b i = Some n) /\
  (forall i f, field_at b i = Some f -> scheme_get b (fd_name f) = Some (IField i)) /\
  (forall i n, function_at b i = Some n -> scheme_get b n = Some (IFunction i)) /\
  (forall t i, get_list b t = Some i -> exists k, list_at b i = Some (t, k)) /\
  (forall i t k, list_at b i = Some (t, k) -> get_list b t = Some i).
Proof. cbv zeta. destruct (run_ops_consistent ops) as [C1 C2 C3 C4 C5 C6]. repeat split; assumption. Qed.

Lemma unique_slots_proof ops :
  let b := snd (run_ops ops) in
  (forall i j f g, field_at b i = Some f -> field_at b j = Some g -> fd_name f = fd_name g -> i = j) /\
  (forall i j n, function_at b i = Some n -> function_at b j = Some n -> i = j) /\
  (forall i j f, field_at b i = Some f -> function_at b j = Some (fd_name f) -> False) /\
  (forall i j t k k', list_at b i = Some (t, k) -> list_at b j = Some (t, k') -> i = j).
Proof. cbv zeta. apply consistent_unique_names, run_ops_consistent. Qed.

Lemma probes_history_proof ops text :
  (spec_probe_value (snd (spec_run_ops ops)) text <> PErr Unmodelled ->
   probe_value (snd (run_ops ops)) text = spec_probe_value (snd (spec_run_ops ops)) text) /\
  (spec_probe_filter (snd (spec_run_ops ops)) text <> PErr Unmodelled ->
   probe_filter (snd (run_ops ops)) text = spec_probe_filter (snd (spec_run_ops ops)) text).
Proof.
  destruct (run_refines ops) as [_ R]. split; intros H;
    [now apply probe_value_spec_proof|now apply probe_filter_spec_proof].
Qed.
