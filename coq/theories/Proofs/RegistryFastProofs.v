(* Sem/RegistryFast.v computes what Sem/Registry.v and Spec/C16.v define. *)
From Coq Require Import List NArith Bool Arith Lia.
From WF Require Import Base.Bytes Lang.Types Sem.Registry Spec.C16 Sem.RegistryFast.
Import ListNotations.

Lemma rev'_rev {A} (l : list A) : rev' l = rev l.
Proof. unfold rev'. symmetry. apply rev_alt. Qed.

(* ---------------------------------------------------------------- model *)

Definition fb_ok (f : fbuilder) : Prop :=
  f_nfields f = length (f_fields f) /\ f_nfunctions f = length (f_functions f) /\
  f_nlists f = length (f_lists f).

Lemma fb_ok_empty : fb_ok empty_fbuilder.
Proof. repeat split. Qed.

Lemma fapply_ok f o :
  fb_ok f ->
  fb_ok (snd (fapply_op f o)) /\
  apply_op (to_builder f) o = (fst (fapply_op f o), to_builder (snd (fapply_op f o))).
Proof.
  intros (Hf & Hn & Hl).
  destruct o as [n t|n t|n|t k]; cbn [apply_op fapply_op].
  - unfold add_field, add_field_full, fadd_field_full. cbn [to_builder b_items].
    destruct (map_get bytes_eqb n (f_items f)) as [[i|i]|]; cbn [fst snd];
      try (split; [repeat split; assumption|reflexivity]).
    split; [repeat split; cbn; auto|].
    unfold to_builder. cbn [b_fields b_functions b_items b_list_types b_lists
                              f_fields f_functions f_items f_list_types f_lists].
    rewrite !rev'_rev. cbn [rev]. rewrite rev_length, <- Hf. reflexivity.
  - unfold add_optional_field, add_field_full, fadd_field_full. cbn [to_builder b_items].
    destruct (map_get bytes_eqb n (f_items f)) as [[i|i]|]; cbn [fst snd];
      try (split; [repeat split; assumption|reflexivity]).
    split; [repeat split; cbn; auto|].
    unfold to_builder. cbn [b_fields b_functions b_items b_list_types b_lists
                              f_fields f_functions f_items f_list_types f_lists].
    rewrite !rev'_rev. cbn [rev]. rewrite rev_length, <- Hf. reflexivity.
  - unfold add_function, fadd_function. cbn [to_builder b_items].
    destruct (map_get bytes_eqb n (f_items f)) as [[i|i]|]; cbn [fst snd];
      try (split; [repeat split; assumption|reflexivity]).
    split; [repeat split; cbn; auto|].
    unfold to_builder. cbn [b_fields b_functions b_items b_list_types b_lists
                              f_fields f_functions f_items f_list_types f_lists].
    rewrite !rev'_rev. cbn [rev]. rewrite rev_length, <- Hn. reflexivity.
  - unfold add_list, fadd_list. cbn [to_builder b_list_types].
    destruct (map_get ty_eqb t (f_list_types f)) as [i|]; cbn [fst snd];
      try (split; [repeat split; assumption|reflexivity]).
    split; [repeat split; cbn; auto|].
    unfold to_builder. cbn [b_fields b_functions b_items b_list_types b_lists
                              f_fields f_functions f_items f_list_types f_lists].
    rewrite !rev'_rev. cbn [rev]. rewrite rev_length, <- Hl. reflexivity.
Qed.

Lemma fold_fstep ops : forall rs f,
  fb_ok f ->
  fold_left step ops (rev rs, to_builder f) =
  (rev (fst (fold_left fstep ops (rs, f))), to_builder (snd (fold_left fstep ops (rs, f)))).
Proof.
  induction ops as [|o ops IH]; intros rs f Hok; [reflexivity|].
  cbn [fold_left]. destruct (fapply_ok f o Hok) as [Hok' Ha].
  unfold step at 2. cbn [fst snd]. rewrite Ha. cbn [fst snd].
  unfold fstep at 2 4. cbn [fst snd].
  change (rev rs ++ [fst (fapply_op f o)]) with (rev (fst (fapply_op f o) :: rs)).
  apply IH. exact Hok'.
Qed.

Theorem run_ops_fast_eq ops : run_ops_fast ops = run_ops ops.
Proof.
  unfold run_ops_fast, run_ops. rewrite rev'_rev.
  change ([], empty_builder) with (rev (@nil add_result), to_builder empty_fbuilder).
  rewrite (fold_fstep ops [] empty_fbuilder fb_ok_empty). reflexivity.
Qed.

(* ---------------------------------------------------------------- specification *)

(* the kind that holds a name, read off [holder] *)
Definition holder_kind (l : registry) (n : bytes) : option bool :=
  match holder l n with
  | Some (EField _ _ _) => Some true
  | Some (EFunction _) => Some false
  | None => None
  end.

(* the same without the indices *)
Fixpoint first_kind (l : registry) (n : bytes) : option bool :=
  match l with
  | [] => None
  | r :: l' => match kind_of_reg n r with Some k => Some k | None => first_kind l' n end
  end.

Lemma lookup_from_kind l n : forall nf nfn,
  match lookup_from nf nfn l n with
  | Some (EField _ _ _) => Some true
  | Some (EFunction _) => Some false
  | None => None
  end = first_kind l n.
Proof.
  induction l as [|r l IH]; intros nf nfn; [reflexivity|].
  destruct r as [m t o|m|t k]; cbn [lookup_from first_kind kind_of_reg].
  - destruct (bytes_eqb n m); [reflexivity|apply IH].
  - destruct (bytes_eqb n m); [reflexivity|apply IH].
  - apply IH.
Qed.

Lemma holder_kind_first l n : holder_kind l n = first_kind l n.
Proof. unfold holder_kind, holder. apply lookup_from_kind. Qed.

Lemma first_kind_app l r n :
  first_kind (l ++ [r]) n = match first_kind l n with Some k => Some k | None => kind_of_reg n r end.
Proof.
  induction l as [|x l IH]; cbn [app first_kind].
  - destruct (kind_of_reg n r); reflexivity.
  - destruct (kind_of_reg n x); [reflexivity|exact IH].
Qed.

Lemma oldest_kind_acc lr n : forall acc,
  fold_left (fun acc r => match kind_of_reg n r with Some k => Some k | None => acc end) lr acc =
  match first_kind (rev lr) n with Some k => Some k | None => acc end.
Proof.
  induction lr as [|r lr IH]; intros acc; [reflexivity|].
  cbn [fold_left rev]. rewrite IH, first_kind_app.
  destruct (first_kind (rev lr) n); [reflexivity|]. destruct (kind_of_reg n r); reflexivity.
Qed.

Lemma oldest_kind_spec lr n : oldest_kind lr n = holder_kind (rev lr) n.
Proof.
  unfold oldest_kind. rewrite oldest_kind_acc, holder_kind_first.
  destruct (first_kind (rev lr) n); reflexivity.
Qed.

Lemma reg_lists_app l l' : reg_lists (l ++ l') = reg_lists l ++ reg_lists l'.
Proof.
  induction l as [|r l IH]; [reflexivity|]. destruct r; cbn [app reg_lists]; rewrite ?IH; reflexivity.
Qed.

Lemma has_list_rev_spec lr t : has_list_rev lr t = has_list (rev lr) t.
Proof.
  unfold has_list, has_list_rev. induction lr as [|r lr IH]; [reflexivity|].
  cbn [existsb rev]. rewrite reg_lists_app, existsb_app, <- IH.
  destruct r as [m t' o|m|t' k]; cbn [reg_lists existsb fst]; rewrite ?orb_false_r; [reflexivity|reflexivity|].
  apply orb_comm.
Qed.

Lemma fspec_apply_ok lr o :
  spec_apply (rev lr) o = (fst (fspec_apply lr o), rev (snd (fspec_apply lr o))).
Proof.
  assert (Hn : forall n r,
             spec_add_named (rev lr) n r = (fst (fspec_add_named lr n r), rev (snd (fspec_add_named lr n r)))).
  { intros n r. unfold spec_add_named, fspec_add_named. rewrite oldest_kind_spec. unfold holder_kind.
    destruct (holder (rev lr) n) as [[i t o0|i]|]; reflexivity. }
  destruct o as [n t|n t|n|t k]; cbn [spec_apply fspec_apply]; try apply Hn.
  rewrite has_list_rev_spec. destruct (has_list (rev lr) t); reflexivity.
Qed.

Lemma fold_fspec_step ops : forall rs lr,
  fold_left spec_step ops (rev rs, rev lr) =
  (rev (fst (fold_left fspec_step ops (rs, lr))), rev (snd (fold_left fspec_step ops (rs, lr)))).
Proof.
  induction ops as [|o ops IH]; intros rs lr; [reflexivity|].
  cbn [fold_left]. unfold spec_step at 2. cbn [fst snd]. rewrite (fspec_apply_ok lr o). cbn [fst snd].
  unfold fspec_step at 2 4. cbn [fst snd].
  change (rev rs ++ [fst (fspec_apply lr o)]) with (rev (fst (fspec_apply lr o) :: rs)).
  apply IH.
Qed.

Theorem spec_run_ops_fast_eq ops : spec_run_ops_fast ops = spec_run_ops ops.
Proof.
  unfold spec_run_ops_fast, spec_run_ops. rewrite !rev'_rev.
  change (fold_left spec_step ops ([], []))
    with (fold_left spec_step ops (rev (@nil add_result), rev (@nil registration))).
  rewrite (fold_fspec_step ops [] []). reflexivity.
Qed.
