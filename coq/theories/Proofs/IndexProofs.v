(* The three compilation strategies of IndexExpr::compile_with and the value
   compilation of IndexExpr agree with [select] / [sel_vres] of the
   specification on well-typed values. *)
From Coq Require Import List ZArith NArith Bool Lia Arith.
From WF Require Import Base.Bytes Sem.RangeSet Lang.Types Lang.Ast Lang.Context
     Sem.Compile Spec.Denote Spec.Typing Proofs.ScalarProofs Proofs.ValueProofs.
Import ListNotations.

Lemma simplify_noeach idx : map_each_count idx = 0%nat -> simplify_indexes idx = idx.
Proof.
  induction idx as [|i r IH]; intros H; [reflexivity|].
  rewrite mec_cons in H. destruct (index_is_each i) eqn:E; [discriminate|].
  cbn [simplify_indexes]. destruct i; try discriminate E; destruct r; try reflexivity; f_equal; apply IH; exact H.
Qed.

Lemma last_each_split idx : last_is_each idx = true -> exists p, idx = p ++ [IEach] /\ simplify_indexes idx = p.
Proof.
  induction idx as [|i r IH]; intros H; [discriminate|].
  destruct r as [|j r'].
  - cbn in H. destruct i; try discriminate H. exists []. split; reflexivity.
  - assert (Hr : last_is_each (j :: r') = true) by exact H.
    destruct (IH Hr) as (p & Hp & Hs). exists (i :: p). split; [cbn; now rewrite Hp|].
    assert (Heq : simplify_indexes (i :: j :: r') = i :: simplify_indexes (j :: r')) by (destruct i; reflexivity).
    rewrite Heq, Hs. reflexivity.
Qed.

Lemma mec_app a b : map_each_count (a ++ b) = (map_each_count a + map_each_count b)%nat.
Proof. unfold map_each_count. now rewrite filter_app, app_length. Qed.

Lemma removelast_app_one {A} (p : list A) x : removelast (p ++ [x]) = p.
Proof. rewrite removelast_app by discriminate. cbn. now rewrite app_nil_r. Qed.

Lemma last_app_one {A} (p : list A) x d : last (p ++ [x]) d = x.
Proof. induction p as [|y p IH]; [reflexivity|]. cbn [app]. destruct (p ++ [x]) eqn:E; [destruct p; discriminate|]. exact IH. Qed.

(* evaluating a comparer over typed elements *)
Lemma mapM_comp (comp : comparer) (holds : value -> option bool) c t xs :
  (forall x, has_type x t = true -> exists b, comp x c = Some b /\ holds x = Some b) ->
  Forall (fun x => has_type x t = true) xs ->
  exists bs, mapM (fun it => comp it c) xs = Some bs /\ all_some (map holds xs) = Some bs.
Proof.
  intros Hc Hall. induction Hall as [|x xs Hx _ IH]; [exists []; split; reflexivity|].
  destruct (Hc x Hx) as (b & H1 & H2). destruct IH as (bs & H3 & H4).
  exists (b :: bs). cbn. rewrite H1, H3, H2, H4. split; reflexivity.
Qed.

Section WithCtx.
Variable c : ctx.

(* What [compile_with] computes, in terms of the specification's [select]. *)
Lemma compile_with_spec (src : ctx -> M (option value)) base t0 idx t default comp holds :
  src c = Some base ->
  (forall v, base = Some v -> has_type v t0 = true) ->
  ty_index_ok t0 idx = Some t ->
  (forall x, has_type x t = true -> exists b, comp x c = Some b /\ holds x = Some b) ->
  match compile_with src idx default comp with
  | COne f =>
      map_each_count idx = 0%nat /\
      exists b, f c = Some b /\
                match select base idx with
                | SAbsent => b = default
                | SOne x => holds x = Some b
                | SMany _ => False
                end
  | CVec f =>
      map_each_count idx <> 0%nat /\
      exists l xs, f c = Some l /\ select base idx = SMany xs /\ all_some (map holds xs) = Some l
  end.
Proof.
  intros Hsrc Hbase Hidx Hcomp. unfold compile_with.
  destruct (map_each_count idx) as [|[|n]] eqn:En.
  - (* no [*]: compile_one_with *)
    split; [reflexivity|]. unfold compile_one_with. rewrite Hsrc, (simplify_noeach idx En).
    unfold select. rewrite En. cbn [Nat.eqb].
    destruct base as [v|]; [|exists default; split; reflexivity].
    destruct (get_nested_typed idx v t0 t (Hbase v eq_refl) Hidx En) as (Hg & Hx). rewrite Hg.
    destruct (get_path v idx) as [x|]; [|exists default; split; reflexivity].
    destruct (Hcomp x (Hx x eq_refl)) as (b & H1 & H2). exists b. split; assumption.
  - destruct (last_is_each idx) eqn:El.
    + (* one trailing [*]: compile_vec_with *)
      split; [discriminate|]. destruct (last_each_split idx El) as (p & Hp & Hs).
      assert (Hpn : map_each_count p = 0%nat).
      { rewrite Hp, mec_app in En. cbn in En. lia. }
      unfold compile_vec_with. rewrite Hsrc, Hs. unfold select. rewrite En. cbn [Nat.eqb].
      destruct base as [v|]; [|exists [], []; repeat split; reflexivity].
      rewrite Hp in Hidx. apply ty_index_ok_app in Hidx. destruct Hidx as (s & Hs1 & Hs2).
      destruct (get_nested_typed p v t0 s (Hbase v eq_refl) Hs1 Hpn) as (Hg & Hx). rewrite Hg.
      rewrite Hp, (flatten_prefix_each p v Hpn).
      destruct (get_path v p) as [x|]; [|exists [], []; repeat split; reflexivity].
      assert (Hn : ty_next s = Some t) by (destruct s; cbn in Hs2; try discriminate; injection Hs2 as ->; reflexivity).
      destruct (elems_typed x s t (Hx x eq_refl) Hn) as (Hit & Hall). rewrite Hit.
      destruct (mapM_comp comp holds c t (elems x) Hcomp Hall) as (bs & H1 & H2).
      exists bs, (elems x). rewrite H1. repeat split; auto.
    + (* [*] not last: compile_iter_with *)
      split; [discriminate|]. unfold compile_iter_with. rewrite Hsrc. unfold select. rewrite En. cbn [Nat.eqb].
      destruct base as [v|]; [|exists [], []; repeat split; reflexivity].
      assert (Hne : idx <> []) by (intros ->; discriminate En).
      rewrite (mei_collect_is_flatten idx v t0 t Hne (Hbase v eq_refl) Hidx).
      destruct (mapM_comp comp holds c t (flatten idx v) Hcomp (flatten_typed idx v t0 t (Hbase v eq_refl) Hidx))
        as (bs & H1 & H2).
      exists bs, (flatten idx v). rewrite H1. repeat split; auto.
  - (* several [*]: compile_iter_with *)
    split; [discriminate|]. unfold compile_iter_with. rewrite Hsrc. unfold select. rewrite En. cbn [Nat.eqb].
    destruct base as [v|]; [|exists [], []; repeat split; reflexivity].
    assert (Hne : idx <> []) by (intros ->; discriminate En).
    rewrite (mei_collect_is_flatten idx v t0 t Hne (Hbase v eq_refl) Hidx).
    destruct (mapM_comp comp holds c t (flatten idx v) Hcomp (flatten_typed idx v t0 t (Hbase v eq_refl) Hidx))
      as (bs & H1 & H2).
    exists bs, (flatten idx v). rewrite H1. repeat split; auto.
Qed.

(* a bare container of booleans compiled with compile_vec_with + IsTrue *)
Lemma compile_vec_bools (src : ctx -> M (option value)) base t0 idx t :
  src c = Some base ->
  (forall v, base = Some v -> has_type v t0 = true) ->
  ty_index_ok t0 idx = Some t -> ty_next t = Some TBool ->
  map_each_count idx = 0%nat ->
  exists l, compile_vec_with src idx (fun v _ => cast_bool v) c = Some l /\
            match select base idx with
            | SOne v => bools_of (elems v) = Some l
            | SAbsent => l = []
            | SMany _ => False
            end.
Proof.
  intros Hsrc Hbase Hidx Hn En. unfold compile_vec_with. rewrite Hsrc, (simplify_noeach idx En).
  unfold select. rewrite En. cbn [Nat.eqb].
  destruct base as [v|]; [|exists []; split; reflexivity].
  destruct (get_nested_typed idx v t0 t (Hbase v eq_refl) Hidx En) as (Hg & Hx). rewrite Hg.
  destruct (get_path v idx) as [x|]; [|exists []; split; reflexivity].
  destruct (elems_typed x t TBool (Hx x eq_refl) Hn) as (Hit & Hall). rewrite Hit.
  destruct (mapM_comp (fun v _ => cast_bool v) (fun v => match v with VBool b => Some b | _ => None end)
                      c TBool (elems x)) as (bs & H1 & H2); [|exact Hall|].
  { intros y Hy. apply has_type_prim_inv in Hy. destruct Hy as (b & ->). exists b. split; reflexivity. }
  exists bs. split; [exact H1|exact H2].
Qed.

End WithCtx.
