(* C06: byte-string literals: quoted (all escape forms), raw, hex pairs. *)
From Coq Require Import List ZArith NArith Bool Lia Arith.
From Coq Require Import ZifyBool.
From WF Require Import Base.Bytes Sem.RangeSet Lang.Ast Parse.Lex Spec.C06 Proofs.LexBase.
Import ListNotations.
Open Scope Z_scope.

(* ================= fixed-width escapes ================= *)
Definition hex_sweep (b : N) : bool :=
  forallb (fun u : bool * bool =>
    match u8_from_digits [digit_char (fst u) (Z.of_N b / 16); digit_char (snd u) (Z.of_N b mod 16)] 16 with
    | Some v => (v =? b)%N
    | None => false
    end) [(true, true); (true, false); (false, true); (false, false)].

Lemma hex_sweep_all : forall b, (b < 256)%N -> hex_sweep b = true.
Proof. apply (Nforall_below hex_sweep 256). vm_compute. reflexivity. Qed.

Lemma u8_hex_digits : forall u1 u2 b, (b < 256)%N ->
  u8_from_digits [digit_char u1 (Z.of_N b / 16); digit_char u2 (Z.of_N b mod 16)] 16 = Some b.
Proof.
  intros u1 u2 b H. pose proof (hex_sweep_all b H) as S. unfold hex_sweep in S. cbn [forallb fst snd] in S.
  destruct u1, u2;
    match goal with |- ?x = _ => destruct x as [v|] eqn:E end;
    rewrite ?E in S; try (f_equal; lia); try lia.
Qed.

Lemma hex_byte_digits : forall u1 u2 b rest, (b < 256)%N ->
  hex_byte (digit_char u1 (Z.of_N b / 16) :: digit_char u2 (Z.of_N b mod 16) :: rest) = LOk b rest.
Proof.
  intros u1 u2 b rest H. unfold hex_byte, fixed_byte.
  assert (H1 : 0 <= Z.of_N b / 16 < 16) by (split; [apply Z.div_pos; lia|apply Z.div_lt_upper_bound; lia]).
  assert (H2 : 0 <= Z.of_N b mod 16 < 16) by (apply Z.mod_pos_bound; lia).
  rewrite take_ascii2 by (apply digit_char_lt128; assumption). cbn [lbind].
  rewrite u8_hex_digits by assumption. reflexivity.
Qed.

Definition oct_sweep (b : N) : bool :=
  match u8_from_digits [digit_char false (Z.of_N b / 64); digit_char false (Z.of_N b / 8 mod 8);
                        digit_char false (Z.of_N b mod 8)] 8 with
  | Some v => (v =? b)%N
  | None => false
  end.
Lemma oct_sweep_all : forall b, (b < 256)%N -> oct_sweep b = true.
Proof. apply (Nforall_below oct_sweep 256). vm_compute. reflexivity. Qed.

Lemma oct_byte_digits : forall b rest, (b < 256)%N ->
  oct_byte (digit_char false (Z.of_N b / 64) :: digit_char false (Z.of_N b / 8 mod 8) ::
            digit_char false (Z.of_N b mod 8) :: rest) = LOk b rest.
Proof.
  intros b rest H. unfold oct_byte, fixed_byte.
  assert (H1 : 0 <= Z.of_N b / 64 < 16) by (split; [apply Z.div_pos; lia|apply Z.div_lt_upper_bound; lia]).
  assert (H2 : 0 <= Z.of_N b / 8 mod 8 < 16) by (pose proof (Z.mod_pos_bound (Z.of_N b / 8) 8); lia).
  assert (H3 : 0 <= Z.of_N b mod 8 < 16) by (pose proof (Z.mod_pos_bound (Z.of_N b) 8); lia).
  rewrite take_ascii3 by (apply digit_char_lt128; assumption). cbn [lbind].
  pose proof (oct_sweep_all b H) as S. unfold oct_sweep in S.
  match goal with |- context [u8_from_digits ?l 8] => destruct (u8_from_digits l 8) as [v|] end; [|discriminate].
  f_equal. lia.
Qed.

(* ================= quoted strings ================= *)
Lemma qstep_end : forall f full r acc, quoted_go (S f) full (34%N :: r) acc = LOk acc r.
Proof. reflexivity. Qed.
Lemma qstep_bs_quote : forall f full r acc,
  quoted_go (S f) full (92%N :: 34%N :: r) acc = quoted_go f full r (acc ++ [34%N]).
Proof. reflexivity. Qed.
Lemma qstep_bs_bs : forall f full r acc,
  quoted_go (S f) full (92%N :: 92%N :: r) acc = quoted_go f full r (acc ++ [92%N]).
Proof. reflexivity. Qed.
Lemma qstep_x : forall f full r acc,
  quoted_go (S f) full (92%N :: 120%N :: r) acc =
  match hex_byte r with
  | LOk b rest => quoted_go f full rest (acc ++ [b])
  | LErr k s' n => LErr k s' n
  | LPanic => LPanic
  | LFuel => LFuel
  end.
Proof. reflexivity. Qed.
Lemma qstep_oct : forall f full d r acc, (48 <= d <= 55)%N ->
  quoted_go (S f) full (92%N :: d :: r) acc =
  match oct_byte (d :: r) with
  | LOk b rest => quoted_go f full rest (acc ++ [b])
  | LErr k s' n => LErr k s' n
  | LPanic => LPanic
  | LFuel => LFuel
  end.
Proof.
  intros f full d r acc H.
  assert (E : (d = 48 \/ d = 49 \/ d = 50 \/ d = 51 \/ d = 52 \/ d = 53 \/ d = 54 \/ d = 55)%N) by lia.
  destruct E as [->|[->|[->|[->|[->|[->|[->| ->]]]]]]]; reflexivity.
Qed.
Lemma qstep_lit : forall f full b r acc, (b < 128)%N -> b <> 34%N -> b <> 92%N ->
  quoted_go (S f) full (b :: r) acc = quoted_go f full r (acc ++ [b]).
Proof.
  intros f full b r acc H1 H2 H3. cbn [quoted_go]. rewrite next_char_ascii by assumption. cbv iota beta.
  destruct b as [|p]; [reflexivity|].
  do 7 (try (destruct p as [p|p|]); try reflexivity); congruence.
Qed.
Lemma qstep_eof : forall f full acc, quoted_go (S f) full [] acc = LErr EMissingEndingQuote full (length full).
Proof. reflexivity. Qed.
Lemma qstep_bs_eof : forall f full acc, quoted_go (S f) full [92%N] acc = LErr EMissingEndingQuote full (length full).
Proof. reflexivity. Qed.

Lemma qbody_length : forall l, (length l <= length (print_qbody l))%nat.
Proof.
  induction l as [|[st b] l IH]; cbn [print_qbody length]; [lia|].
  rewrite app_length. destruct st; cbn [print_qbyte length]; lia.
Qed.

(* one printed byte is consumed by one iteration *)
Lemma quoted_go_byte : forall f full st b s acc, style_ok st b ->
  quoted_go (S f) full (print_qbyte st b ++ s) acc = quoted_go f full s (acc ++ [b]).
Proof.
  intros f full st b s acc Hok. destruct st as [| |u1 u2|]; cbn [print_qbyte app]; cbn in Hok.
  - destruct Hok as (H1 & H2 & H3). apply qstep_lit; assumption.
  - destruct Hok as [-> | ->]; reflexivity.
  - rewrite qstep_x, hex_byte_digits by assumption. reflexivity.
  - assert (Hd : 0 <= Z.of_N b / 64 < 10) by (split; [apply Z.div_pos; lia|apply Z.div_lt_upper_bound; lia]).
    destruct (digit_char_dec false _ Hd) as [_ Ed].
    rewrite qstep_oct by (rewrite Ed; assert (Z.of_N b / 64 < 4) by (apply Z.div_lt_upper_bound; lia); lia).
    rewrite oct_byte_digits by assumption. reflexivity.
Qed.

Lemma quoted_go_print : forall l fuel full acc rest, styles_ok l -> (length l < fuel)%nat ->
  quoted_go fuel full (print_qbody l ++ 34%N :: rest) acc = LOk (acc ++ map snd l) rest.
Proof.
  induction l as [|[st b] l IH]; intros fuel full acc rest Hok Hf;
    (destruct fuel as [|f]; [cbn in Hf; lia|]).
  - cbn [print_qbody app map]. rewrite qstep_end, app_nil_r. reflexivity.
  - inversion Hok as [|? ? Hb Hl]; subst. cbn [fst snd] in Hb.
    cbn [print_qbody map snd]. rewrite <- app_assoc, quoted_go_byte by assumption.
    rewrite IH by (assumption || (cbn [length] in Hf; lia)). rewrite <- app_assoc. reflexivity.
Qed.

Theorem quoted_body_lex : forall l rest, styles_ok l ->
  lex_quoted_string_as_vec (print_qbody l ++ 34%N :: rest) = LOk (map snd l) rest.
Proof.
  intros l rest Hok. unfold lex_quoted_string_as_vec.
  rewrite quoted_go_print; [reflexivity|assumption|].
  rewrite app_length. pose proof (qbody_length l). lia.
Qed.

Theorem quoted_lex_bytes : forall l rest, styles_ok l ->
  lex_bytes (print_quoted l ++ rest) = LOk (map snd l, FQuoted) rest.
Proof.
  intros l rest Hok. unfold print_quoted. cbn [app]. rewrite <- app_assoc. cbn [app].
  unfold lex_bytes, lex_quoted_or_raw_string. rewrite quoted_body_lex by assumption. reflexivity.
Qed.

Lemma quoted_go_unterminated : forall l fuel full acc, styles_ok l -> (length l < fuel)%nat ->
  quoted_go fuel full (print_qbody l) acc = LErr EMissingEndingQuote full (length full).
Proof.
  induction l as [|[st b] l IH]; intros fuel full acc Hok Hf;
    (destruct fuel as [|f]; [cbn in Hf; lia|]).
  - reflexivity.
  - inversion Hok as [|? ? Hb Hl]; subst. cbn [fst snd] in Hb.
    cbn [print_qbody]. rewrite quoted_go_byte by assumption.
    apply IH; [assumption|cbn [length] in Hf; lia].
Qed.

Theorem quoted_unterminated : forall l, styles_ok l ->
  lex_quoted_string_as_vec (print_qbody l) = LErr EMissingEndingQuote (print_qbody l) (length (print_qbody l)).
Proof.
  intros l Hok. unfold lex_quoted_string_as_vec. apply quoted_go_unterminated; [assumption|].
  pose proof (qbody_length l). lia.
Qed.

(* ================= hex pairs ================= *)
Lemma lex_byte_sep_ok : forall sp r, lex_byte_sep (sep_char sp :: r) = LOk tt r.
Proof. intros [| |] r; reflexivity. Qed.

Lemma lex_byte_sep_other : forall b r, b <> 58%N -> b <> 45%N -> b <> 46%N ->
  exists n, lex_byte_sep (b :: r) = LErr EExpectedName (b :: r) n.
Proof.
  intros b r H1 H2 H3. unfold lex_byte_sep, take. cbn [take_chars]. unfold next_char.
  pose proof (char_len_pos b) as Hl. destruct (char_len b) as [|k]; [lia|].
  cbn [firstn take_chars app lbind]. rewrite app_nil_r.
  eexists.
  destruct b as [|p]; [reflexivity|].
  do 6 (try (destruct p as [p|p|]); try reflexivity); congruence.
Qed.

Lemma lex_byte_sep_stop : forall rest, hexpairs_follow_ok rest ->
  exists k s n, lex_byte_sep rest = LErr k s n.
Proof.
  intros rest H. destruct rest as [|b r].
  - eexists _, _, _. reflexivity.
  - cbn in H. destruct (lex_byte_sep_other b r) as [n E]; try lia. eexists _, _, _. exact E.
Qed.

Definition hextail_ok (l : list (byte_sep * (bool * bool) * N)) : Prop := Forall (fun x => (snd x < 256)%N) l.

Lemma hexpair_lex : forall u1 u2 b rest, (b < 256)%N -> hex_byte (print_hexpair u1 u2 b ++ rest) = LOk b rest.
Proof. intros. unfold print_hexpair. cbn [app]. apply hex_byte_digits. assumption. Qed.

Lemma byte_string_go_print : forall l fuel u1 u2 b acc rest,
  (b < 256)%N -> hextail_ok l -> hexpairs_follow_ok rest -> (length l < fuel)%nat ->
  byte_string_go fuel (print_hexpair u1 u2 b ++ print_hextail l ++ rest) acc = LOk (acc ++ b :: map snd l) rest.
Proof.
  induction l as [|[[sp [v1 v2]] b'] l IH]; intros fuel u1 u2 b acc rest Hb Hl Hr Hf;
    (destruct fuel as [|f]; [cbn in Hf; lia|]); cbn [byte_string_go].
  - cbn [print_hextail app map]. rewrite hexpair_lex by assumption. cbn [lbind].
    destruct (lex_byte_sep_stop rest Hr) as (k & s & n & E). rewrite E. reflexivity.
  - inversion Hl as [|? ? Hb' Hl']; subst. cbn [snd] in Hb'.
    rewrite hexpair_lex by assumption. cbn [lbind print_hextail app].
    rewrite lex_byte_sep_ok. rewrite <- app_assoc.
    rewrite IH by (assumption || (cbn [length] in Hf; lia)). rewrite <- app_assoc. reflexivity.
Qed.

Lemma hextail_length : forall l, (length l <= length (print_hextail l))%nat.
Proof.
  induction l as [|[[sp [v1 v2]] b] l IH]; [cbn; lia|].
  cbn [print_hextail length]. rewrite app_length. cbn [print_hexpair length]. lia.
Qed.

Theorem hexpairs_lex : forall u1 u2 b0 l rest,
  (b0 < 256)%N -> hextail_ok l -> l <> [] -> hexpairs_follow_ok rest ->
  lex_byte_string (print_hexpairs u1 u2 b0 l ++ rest) = LOk (b0 :: map snd l) rest.
Proof.
  intros u1 u2 b0 l rest Hb Hl Hne Hr. unfold lex_byte_string, print_hexpairs.
  rewrite <- app_assoc, hexpair_lex by assumption. cbn [lbind].
  destruct l as [|[[sp [v1 v2]] b'] l]; [contradiction|].
  inversion Hl as [|? ? Hb' Hl']; subst. cbn [snd] in Hb'.
  cbn [print_hextail app]. rewrite lex_byte_sep_ok. cbn [lbind]. rewrite <- app_assoc.
  rewrite byte_string_go_print; [reflexivity|assumption|assumption|assumption|].
  pose proof (hextail_length l). repeat (rewrite ?app_length; cbn [length]). lia.
Qed.

Lemma lex_bytes_other : forall c s, c <> 34%N -> c <> 114%N ->
  lex_bytes (c :: s) = lmap (fun b => (b, FByte)) (lex_byte_string (c :: s)).
Proof.
  intros c s H1 H2. unfold lex_bytes.
  destruct c as [|p]; [reflexivity|].
  do 7 (try (destruct p as [p|p|]); try reflexivity); congruence.
Qed.

Theorem hexpairs_lex_bytes : forall u1 u2 b0 l rest,
  (b0 < 256)%N -> hextail_ok l -> l <> [] -> hexpairs_follow_ok rest ->
  lex_bytes (print_hexpairs u1 u2 b0 l ++ rest) = LOk (b0 :: map snd l, FByte) rest.
Proof.
  intros u1 u2 b0 l rest Hb Hl Hne Hr.
  pose proof (hexpairs_lex u1 u2 b0 l rest Hb Hl Hne Hr) as E.
  unfold print_hexpairs, print_hexpair in *. cbn [app] in *.
  assert (Hd : 0 <= Z.of_N b0 / 16 < 16) by (split; [apply Z.div_pos; lia|apply Z.div_lt_upper_bound; lia]).
  rewrite lex_bytes_other by (apply (digit_char_not u1 _ Hd)).
  rewrite E. reflexivity.
Qed.

(* ================= raw strings ================= *)
Lemma count_hashes_hash : forall r, count_hashes (35%N :: r) = S (count_hashes r).
Proof. reflexivity. Qed.
Lemma count_hashes_other : forall b r, b <> 35%N -> count_hashes (b :: r) = O.
Proof.
  intros b r H. cbn [count_hashes]. destruct b as [|p]; [reflexivity|].
  do 6 (try (destruct p as [p|p|]); try reflexivity); congruence.
Qed.
Lemma count_hashes_nil : count_hashes [] = O.
Proof. reflexivity. Qed.

Lemma count_hashes_leading : forall s, count_hashes s = leading_hashes s.
Proof.
  induction s as [|b s IH]; [reflexivity|].
  destruct (N.eq_dec b 35) as [->|Hn].
  - rewrite count_hashes_hash. cbn [leading_hashes]. rewrite IH. reflexivity.
  - rewrite count_hashes_other by assumption. cbn [leading_hashes]. destruct b as [|p]; [reflexivity|].
    do 6 (try (destruct p as [p|p|]); try reflexivity); congruence.
Qed.

Lemma count_hashes_app : forall n s, count_hashes (hashes n ++ s) = (n + count_hashes s)%nat.
Proof. induction n as [|n IH]; intros s; [reflexivity|]. cbn [hashes repeat app]. rewrite count_hashes_hash, IH. reflexivity. Qed.

Lemma count_hashes_quote : forall s t, count_hashes (s ++ 34%N :: t) = count_hashes s.
Proof.
  induction s as [|b s IH]; intros t.
  - cbn [app]. rewrite count_hashes_other by discriminate. reflexivity.
  - cbn [app]. destruct (N.eq_dec b 35) as [->|Hn].
    + rewrite !count_hashes_hash, IH. reflexivity.
    + rewrite !count_hashes_other by assumption. reflexivity.
Qed.

Lemma count_hashes_le : forall s, (count_hashes s <= length s)%nat.
Proof.
  induction s as [|b s IH]; [cbn; lia|]. destruct (N.eq_dec b 35) as [->|Hn].
  - rewrite count_hashes_hash. cbn [length]. lia.
  - rewrite count_hashes_other by assumption. lia.
Qed.

Lemma firstn_count_hashes : forall s, firstn (count_hashes s) s = hashes (count_hashes s).
Proof.
  induction s as [|b s IH]; [reflexivity|]. destruct (N.eq_dec b 35) as [->|Hn].
  - rewrite count_hashes_hash. cbn [firstn hashes repeat]. unfold hashes in IH. rewrite IH. reflexivity.
  - rewrite count_hashes_other by assumption. reflexivity.
Qed.

Lemma skipn_hashes : forall n s, skipn n (hashes n ++ s) = s.
Proof. induction n as [|n IH]; intros s; [reflexivity|]. cbn [hashes repeat app skipn]. apply IH. Qed.

Lemma utf8_chars_tail35 : forall s, utf8_chars (35%N :: s) -> utf8_chars s.
Proof. intros s H. inversion H; subst; try assumption; lia. Qed.

Lemma utf8_chars_skip_hashes : forall s, utf8_chars s -> utf8_chars (skipn (count_hashes s) s).
Proof.
  induction s as [|b s IH]; intros H; [exact H|]. destruct (N.eq_dec b 35) as [->|Hn].
  - rewrite count_hashes_hash. cbn [skipn]. apply IH. apply utf8_chars_tail35. exact H.
  - rewrite count_hashes_other by assumption. exact H.
Qed.

(* one character of a well-formed text *)
Lemma utf8_chars_inv : forall body, utf8_chars body ->
  body = [] \/
  exists c s, body = c ++ s /\ (1 <= length c)%nat /\ utf8_chars s /\
              (forall t, next_char (c ++ t) = Some (c, t)) /\ (c = [34%N] \/ c <> [34%N]).
Proof.
  intros body H. destruct H as [|b s Hb Hs|b c1 s Hb H1 Hs|b c1 c2 s Hb H1 H2 Hs|b c1 c2 c3 s Hb H1 H2 H3 Hs].
  - left; reflexivity.
  - right. exists [b], s. split; [reflexivity|]. split; [cbn; lia|]. split; [assumption|]. split.
    + intros t. cbn [app]. apply next_char_ascii. assumption.
    + destruct (N.eq_dec b 34) as [->|Hn]; [left; reflexivity|right; congruence].
  - right. exists [b; c1], s. split; [reflexivity|]. split; [cbn; lia|]. split; [assumption|]. split.
    + intros t. cbn [app]. unfold next_char, char_len.
      replace (b <? 128)%N with false by lia. replace (b <? 224)%N with true by lia. reflexivity.
    + right; discriminate.
  - right. exists [b; c1; c2], s. split; [reflexivity|]. split; [cbn; lia|]. split; [assumption|]. split.
    + intros t. cbn [app]. unfold next_char, char_len.
      replace (b <? 128)%N with false by lia. replace (b <? 224)%N with false by lia.
      replace (b <? 240)%N with true by lia. reflexivity.
    + right; discriminate.
  - right. exists [b; c1; c2; c3], s. split; [reflexivity|]. split; [cbn; lia|]. split; [assumption|]. split.
    + intros t. cbn [app]. unfold next_char, char_len.
      replace (b <? 128)%N with false by lia. replace (b <? 224)%N with false by lia.
      replace (b <? 240)%N with false by lia. reflexivity.
    + right; discriminate.
Qed.

Lemma raw_go_step : forall f n s c r pre, next_char s = Some (c, r) -> c <> [34%N] ->
  raw_go (S f) n s pre = raw_go f n r (pre ++ c).
Proof.
  intros f n s c r pre H Hc. cbn [raw_go]. rewrite H.
  destruct c as [|x tl]; [reflexivity|]. destruct x as [|p]; [reflexivity|].
  do 6 (try (destruct p as [p|p|]); try reflexivity).
  destruct tl; [congruence|reflexivity].
Qed.

Lemma raw_go_quote : forall f n r pre,
  raw_go (S f) n (34%N :: r) pre =
  if Nat.leb n (count_hashes r) then Some (pre, skipn n r)
  else raw_go f n (skipn (count_hashes r) r) (pre ++ [34%N] ++ firstn (count_hashes r) r).
Proof. reflexivity. Qed.

Lemma raw_go_print : forall n rest k body, (length body <= k)%nat ->
  forall fuel pre, (length body < fuel)%nat -> utf8_chars body -> no_early_close n body ->
  raw_go fuel n (body ++ 34%N :: hashes n ++ rest) pre = Some (pre ++ body, rest).
Proof.
  intros n rest k. induction k as [|k IH]; intros body Hk fuel pre Hf Hu Hc;
    (destruct fuel as [|f]; [lia|]).
  - destruct body; [|cbn in Hk; lia]. cbn [app]. rewrite raw_go_quote, count_hashes_app.
    replace (Nat.leb n (n + count_hashes rest)) with true by (symmetry; apply Nat.leb_le; lia).
    rewrite skipn_hashes, app_nil_r. reflexivity.
  - destruct (utf8_chars_inv body Hu) as [->|(c & s & -> & Hlen & Hs & Hnext & Hq)].
    + cbn [app]. rewrite raw_go_quote, count_hashes_app.
      replace (Nat.leb n (n + count_hashes rest)) with true by (symmetry; apply Nat.leb_le; lia).
      rewrite skipn_hashes, app_nil_r. reflexivity.
    + rewrite app_length in Hk, Hf. destruct Hq as [->|Hne].
      * (* a quote inside the body, followed by fewer than n hashes *)
        cbn [app]. rewrite raw_go_quote, count_hashes_quote.
        assert (Hlt : (count_hashes s < n)%nat).
        { rewrite count_hashes_leading. apply (Hc [] s). reflexivity. }
        replace (Nat.leb n (count_hashes s)) with false by (symmetry; apply Nat.leb_gt; lia).
        pose proof (count_hashes_le s) as Hle.
        rewrite skipn_app, firstn_app.
        replace (count_hashes s - length s)%nat with O by lia. cbn [skipn firstn]. rewrite app_nil_r.
        cbn [length] in Hk, Hf.
        rewrite IH.
        -- f_equal. f_equal. rewrite <- !app_assoc. cbn [app]. rewrite firstn_skipn. reflexivity.
        -- rewrite skipn_length. lia.
        -- rewrite skipn_length. lia.
        -- apply utf8_chars_skip_hashes. assumption.
        -- intros p q E. apply (Hc (34%N :: firstn (count_hashes s) s ++ p) q).
           cbn [app]. f_equal. rewrite <- app_assoc, <- E. symmetry. apply firstn_skipn.
      * rewrite <- app_assoc. rewrite (raw_go_step f n _ c _ pre (Hnext _) Hne).
        rewrite IH; [rewrite <- app_assoc; reflexivity|lia|lia|assumption|].
        intros p q E. apply (Hc (c ++ p) q). rewrite E, <- app_assoc. reflexivity.
Qed.

Theorem raw_body_lex : forall n body rest, (n <= 255)%nat -> utf8_chars body -> no_early_close n body ->
  lex_raw_string_as_str (hashes n ++ 34%N :: body ++ 34%N :: hashes n ++ rest) = LOk (body, N.of_nat n) rest.
Proof.
  intros n body rest Hn Hu Hc. unfold lex_raw_string_as_str.
  rewrite count_hashes_app, count_hashes_other by discriminate. rewrite Nat.add_0_r.
  replace (Nat.ltb 255 n) with false by (symmetry; apply Nat.ltb_ge; lia).
  rewrite skipn_hashes.
  rewrite (raw_go_print n rest (length body) body (le_n _) _ []); [reflexivity| |assumption|assumption].
  rewrite app_length. lia.
Qed.

Theorem raw_lex_bytes : forall n body rest, (n <= 255)%nat -> utf8_chars body -> no_early_close n body ->
  lex_bytes (print_raw n body ++ rest) = LOk (body, FRaw (N.of_nat n)) rest.
Proof.
  intros n body rest Hn Hu Hc. unfold print_raw. cbn [app]. unfold lex_bytes, lex_quoted_or_raw_string.
  replace ((hashes n ++ 34%N :: body ++ 34%N :: hashes n) ++ rest)
    with (hashes n ++ 34%N :: body ++ 34%N :: hashes n ++ rest).
  2:{ repeat (rewrite <- app_assoc; cbn [app]). reflexivity. }
  rewrite raw_body_lex by assumption. reflexivity.
Qed.

Theorem raw_too_many_hashes : forall input, (255 < count_hashes input)%nat ->
  lex_raw_string_as_str input = LErr EInvalidRawStringHashCount input (length input).
Proof.
  intros input H. unfold lex_raw_string_as_str.
  replace (Nat.ltb 255 (count_hashes input)) with true by (symmetry; apply Nat.ltb_lt; lia). reflexivity.
Qed.

(* ================= one iteration of the quoted-string loop, with the nested
   pattern matches on characters replaced by equality tests ================= *)
Definition esc_step (f : nat) (full r : bytes) (acc : bytes) (go : bytes -> bytes -> lres bytes) : lres bytes :=
  match next_char r with
  | None => LErr EMissingEndingQuote full (length full)
  | Some (c2, r2) =>
      if bytes_eqb c2 [34%N] then go r2 (acc ++ [34%N])
      else if bytes_eqb c2 [92%N] then go r2 (acc ++ [92%N])
      else if bytes_eqb c2 [120%N] then
        match hex_byte r2 with
        | LOk b rest => go rest (acc ++ [b])
        | LErr k s' n => LErr k s' n
        | LPanic => LPanic
        | LFuel => LFuel
        end
      else
        match c2 with
        | [d] =>
            if ((48 <=? d) && (d <=? 55))%N then
              match oct_byte r with
              | LOk b rest => go rest (acc ++ [b])
              | LErr k s' n => LErr k s' n
              | LPanic => LPanic
              | LFuel => LFuel
              end
            else LErr EInvalidCharacterEscape r 1%nat
        | _ => LErr EInvalidCharacterEscape r (length c2)
        end
  end.

Lemma quoted_go_unfold : forall f full s acc,
  quoted_go (S f) full s acc =
  match next_char s with
  | None => LErr EMissingEndingQuote full (length full)
  | Some (c, r) =>
      if bytes_eqb c [92%N] then esc_step f full r acc (quoted_go f full)
      else if bytes_eqb c [34%N] then LOk acc r
      else quoted_go f full r (acc ++ c)
  end.
Proof.
  intros f full s acc. cbn [quoted_go]. destruct (next_char s) as [[c r]|]; [|reflexivity].
  destruct c as [|x tl]; [reflexivity|].
  destruct x as [|p]; [destruct tl; reflexivity|].
  do 7 (try (destruct p as [p|p|])); try (destruct tl; reflexivity).
  (* x = 92 *)
  destruct tl; [|reflexivity].
  unfold esc_step. cbn [bytes_eqb N.eqb Pos.eqb andb].
  destruct (next_char r) as [[c2 r2]|]; [|reflexivity].
  destruct c2 as [|y tl2]; [reflexivity|].
  destruct y as [|q]; [destruct tl2; reflexivity|].
  do 7 (try (destruct q as [q|q|])); destruct tl2; reflexivity.
Qed.

Lemma bytes_eqb_single : forall c x, bytes_eqb c [x] = true -> c = [x].
Proof.
  intros c x H. destruct c as [|y [|z t]]; cbn [bytes_eqb] in H; try discriminate.
  - apply andb_prop in H. destruct H as [H _]. f_equal. lia.
  - apply andb_prop in H. destruct H as [_ H]. discriminate.
Qed.

Lemma quoted_go_prefix : forall l f full s acc, styles_ok l ->
  quoted_go (length l + f) full (print_qbody l ++ s) acc = quoted_go f full s (acc ++ map snd l).
Proof.
  induction l as [|[st b] l IH]; intros f full s acc Hok.
  - cbn [length print_qbody app map Nat.add]. rewrite app_nil_r. reflexivity.
  - inversion Hok as [|? ? Hb Hl]; subst. cbn [fst snd] in Hb.
    cbn [length print_qbody map snd Nat.add]. rewrite <- app_assoc, quoted_go_byte by assumption.
    rewrite IH by assumption. rewrite <- app_assoc. reflexivity.
Qed.

(* ---- inversion of the fixed-width escapes ---- *)
Lemma take_chars_ascii_len : forall n s ds rest, take_chars n s = Some (ds, rest) ->
  forallb is_ascii ds = true -> length ds = n.
Proof.
  induction n as [|n IH]; intros s ds rest H Ha; cbn [take_chars] in H.
  - inversion H; reflexivity.
  - destruct (next_char s) as [[c r]|] eqn:E; [|discriminate].
    destruct (take_chars n r) as [[t rest']|] eqn:E2; [|discriminate]. inversion H; subst.
    rewrite forallb_app in Ha. apply andb_prop in Ha. destruct Ha as [Hc Ht].
    destruct s as [|b s']; [discriminate|]. unfold next_char in E. inversion E; subst.
    pose proof (char_len_pos b) as Hp. destruct (char_len b) as [|k] eqn:Ek; [lia|].
    cbn [firstn forallb] in Hc. apply andb_prop in Hc. destruct Hc as [Hb _].
    assert (k = O).
    { unfold char_len in Ek. unfold is_ascii in Hb. rewrite Hb in Ek. inversion Ek. reflexivity. }
    subst k. cbn [firstn app length]. f_equal. eapply IH; eassumption.
Qed.

Lemma u8_from_digits_inv : forall ds radix b, u8_from_digits ds radix = Some b ->
  exists v, forallb (fun x => is_ascii x && is_hexdigit x) ds = true /\
            digits_val radix ds 0 = Some v /\ v < 256 /\ b = Z.to_N v.
Proof.
  intros ds radix b H. unfold u8_from_digits in H. destruct ds as [|d0 ds0]; [discriminate|].
  destruct (forallb (fun b0 => is_ascii b0 && is_hexdigit b0) (d0 :: ds0)) eqn:Ef; [|discriminate].
  destruct (digits_val radix (d0 :: ds0) 0) as [v|] eqn:Ev; [|discriminate].
  destruct (v <? 256) eqn:El; [|discriminate]. inversion H; subst.
  exists v. split; [reflexivity|]. split; [reflexivity|]. split; [lia|reflexivity].
Qed.

Lemma fixed_byte_inv : forall n radix input b rest, fixed_byte n radix input = LOk b rest ->
  exists ds v, input = ds ++ rest /\ length ds = n /\
    forallb (fun x => is_ascii x && is_hexdigit x) ds = true /\
    digits_val radix ds 0 = Some v /\ v < 256 /\ b = Z.to_N v.
Proof.
  intros n radix input b rest H. unfold fixed_byte, take in H.
  destruct (take_chars n input) as [[ds r]|] eqn:E; [|discriminate]. cbn [lbind] in H.
  destruct (u8_from_digits ds radix) as [b'|] eqn:Eu; [|discriminate]. inversion H; subst b' r.
  destruct (u8_from_digits_inv _ _ _ Eu) as (v & Ef & Ev & Hlt & Hb).
  destruct (take_chars_split _ _ _ _ E) as [Es _].
  exists ds, v. split; [exact Es|]. split.
  - eapply take_chars_ascii_len; [exact E|]. rewrite forallb_forall in *. intros x Hx.
    specialize (Ef x Hx). apply andb_prop in Ef. apply Ef.
  - split; [exact Ef|]. split; [exact Ev|]. split; assumption.
Qed.

Lemma fixed_byte_safe : forall n radix input, safe (fixed_byte n radix input).
Proof.
  intros n radix input. unfold fixed_byte. apply safe_lbind; [apply take_safe|].
  intros ds rest _. destruct (u8_from_digits ds radix); auto with lexsafe.
Qed.

Lemma hexdigit_is_spec : forall x, is_ascii x && is_hexdigit x = true -> hex_digit_byte x = true.
Proof. intros x H. apply andb_prop in H. apply H. Qed.

Lemma octdigit_of_val : forall x, is_hexdigit x = true -> Z.of_N (hexval x) < 8 -> oct_digit_byte x = true.
Proof.
  intros x H Hv. unfold is_hexdigit, hexval, Lex.is_digit, oct_digit_byte in *.
  destruct ((48 <=? x)%N && (x <=? 57)%N) eqn:E1; [lia|].
  destruct ((97 <=? x)%N && (x <=? 102)%N) eqn:E2; lia.
Qed.

Lemma esc_step_bad : forall f full r acc go, ~ good_escape r ->
  exists k at_ len, esc_step f full r acc go = LErr k at_ len.
Proof.
  intros f full r acc go Hbad. unfold esc_step.
  destruct (next_char r) as [[c2 r2]|] eqn:En; [|eexists _, _, _; reflexivity].
  destruct (next_char_shorter _ _ _ En) as [_ Er].
  destruct (bytes_eqb c2 [34%N]) eqn:E1.
  { apply bytes_eqb_single in E1. subst. exfalso. apply Hbad. left. eexists. reflexivity. }
  destruct (bytes_eqb c2 [92%N]) eqn:E2.
  { apply bytes_eqb_single in E2. subst. exfalso. apply Hbad. right. left. eexists. reflexivity. }
  destruct (bytes_eqb c2 [120%N]) eqn:E3.
  { apply bytes_eqb_single in E3. subst c2. cbn [app] in Er.
    destruct (hex_byte r2) as [b rest|k s' n| |] eqn:Eh.
    - exfalso. unfold hex_byte in Eh. destruct (fixed_byte_inv _ _ _ _ _ Eh) as (ds & v & Es & Hl & Hf & _).
      destruct ds as [|h1 [|h2 [|? ?]]]; try discriminate. cbn [forallb] in Hf.
      apply andb_prop in Hf. destruct Hf as [F1 Hf]. apply andb_prop in Hf. destruct Hf as [F2 _].
      apply Hbad. right. right. left. exists h1, h2, rest. subst. split; [reflexivity|].
      split; apply hexdigit_is_spec; assumption.
    - eexists _, _, _; reflexivity.
    - exfalso. unfold hex_byte in Eh. destruct (fixed_byte_safe 2 16 r2) as [Hp _]. exact (Hp Eh).
    - exfalso. unfold hex_byte in Eh. destruct (fixed_byte_safe 2 16 r2) as [_ Hp]. exact (Hp Eh). }
  destruct c2 as [|d [|? ?]]; try (eexists _, _, _; reflexivity).
  destruct ((48 <=? d)%N && (d <=? 55)%N) eqn:Eo; [|eexists _, _, _; reflexivity].
  destruct (oct_byte r) as [b rest|k s' n| |] eqn:Eh.
  - exfalso. unfold oct_byte in Eh. destruct (fixed_byte_inv _ _ _ _ _ Eh) as (ds & v & Es & Hl & Hf & Hv & Hlt & _).
    destruct ds as [|o1 [|o2 [|o3 [|? ?]]]]; try discriminate. cbn [forallb] in Hf.
    apply andb_prop in Hf. destruct Hf as [F1 Hf]. apply andb_prop in Hf. destruct Hf as [F2 Hf].
    apply andb_prop in Hf. destruct Hf as [F3 _].
    apply andb_prop in F1. destruct F1 as [_ F1]. apply andb_prop in F2. destruct F2 as [_ F2].
    apply andb_prop in F3. destruct F3 as [_ F3].
    cbn [digits_val] in Hv.
    destruct (Z.of_N (hexval o1) <? 8) eqn:V1; [|discriminate].
    destruct (Z.of_N (hexval o2) <? 8) eqn:V2; [|discriminate].
    destruct (Z.of_N (hexval o3) <? 8) eqn:V3; [|discriminate]. inversion Hv; subst v.
    pose proof (octdigit_of_val o1 F1 ltac:(lia)) as O1. pose proof (octdigit_of_val o2 F2 ltac:(lia)) as O2.
    pose proof (octdigit_of_val o3 F3 ltac:(lia)) as O3.
    apply Hbad. right. right. right. exists o1, o2, o3, rest. split; [exact Es|].
    split; [exact O1|]. split; [exact O2|]. split; [exact O3|].
    unfold oct_digit_byte, hexval, Lex.is_digit in *.
    replace ((48 <=? o1)%N && (o1 <=? 57)%N) with true in Hlt by lia.
    assert (0 <= Z.of_N (hexval o2)) by lia. assert (0 <= Z.of_N (hexval o3)) by lia. lia.
  - eexists _, _, _; reflexivity.
  - exfalso. unfold oct_byte in Eh. destruct (fixed_byte_safe 3 8 r) as [Hp _]. exact (Hp Eh).
  - exfalso. unfold oct_byte in Eh. destruct (fixed_byte_safe 3 8 r) as [_ Hp]. exact (Hp Eh).
Qed.

Lemma bad_escape_go : forall l r f full acc, styles_ok l -> ~ good_escape r ->
  exists k at_ len, quoted_go (length l + S f) full (print_qbody l ++ 92%N :: r) acc = LErr k at_ len.
Proof.
  intros l r f full acc Hok Hbad. rewrite quoted_go_prefix by assumption.
  rewrite quoted_go_unfold. rewrite next_char_ascii by lia. cbn [bytes_eqb N.eqb Pos.eqb andb].
  apply esc_step_bad. assumption.
Qed.

Theorem bad_escape_vec : forall l r, styles_ok l -> ~ good_escape r ->
  exists k at_ len, lex_quoted_string_as_vec (print_qbody l ++ 92%N :: r) = LErr k at_ len.
Proof.
  intros l r Hok Hbad. unfold lex_quoted_string_as_vec.
  assert (Hlen : (length l + 1 <= length (print_qbody l ++ 92%N :: r))%nat).
  { rewrite app_length. pose proof (qbody_length l). cbn [length]. lia. }
  replace (S (length (print_qbody l ++ 92%N :: r)))
    with (length l + S (length (print_qbody l ++ 92%N :: r) - length l))%nat by lia.
  apply bad_escape_go; assumption.
Qed.

Theorem bad_escape_rejected : forall l r, styles_ok l -> ~ good_escape r ->
  exists k at_ len, lex_bytes (34%N :: print_qbody l ++ 92%N :: r) = LErr k at_ len.
Proof.
  intros l r Hok Hbad. destruct (bad_escape_vec l r Hok Hbad) as (k & a & n & E).
  unfold lex_bytes, lex_quoted_or_raw_string. rewrite E. eexists _, _, _. reflexivity.
Qed.
