(* C07, part 2: aliases and white space at the level of the parser model.
   Each alias pair of the property text is mapped to one constructor by the
   operator tables; white space (spaces and line breaks) before a token is
   invisible to [skip_space]; the parser functions that consume an operator
   token give a result that depends neither on the spelling chosen nor on the
   white space around it. *)
From Coq Require Import List ZArith NArith Bool String Lia.
From WF Require Import Base.Bytes Sem.RangeSet Lang.Types Lang.Ast Parse.Lex Sem.Compile Parse.Parser Spec.C07
     Proofs.ParserProofs Proofs.ParserClosed.
Import ListNotations.
Open Scope N_scope.
Local Notation length := List.length (only parsing).

(* ---- white space ---- *)

Lemma layout_ws_space c : (c = 32 \/ c = 13 \/ c = 10) -> is_space c = true.
Proof. intros [->|[->| ->]]; reflexivity. Qed.

Theorem skip_space_ws ws x : layout_ws ws -> skip_space (ws ++ x) = skip_space x.
Proof.
  intro H. induction H as [|c r Hc Hr IH]; [reflexivity|].
  cbn [app skip_space]. now rewrite (layout_ws_space c Hc).
Qed.

Theorem skip_space_idem x : skip_space (skip_space x) = skip_space x.
Proof.
  induction x as [|c r IH]; [reflexivity|]. cbn [skip_space].
  destruct (is_space c) eqn:E; [exact IH|]. cbn [skip_space]. now rewrite E.
Qed.

(* what is left starts with a character that is not white space *)
Theorem skip_space_stops x : match skip_space x with [] => True | c :: _ => is_space c = false end.
Proof.
  induction x as [|c r IH]; [exact I|]. cbn [skip_space].
  destruct (is_space c) eqn:E; [exact IH|exact E].
Qed.

(* skip_space removes exactly a prefix of layout white space *)
Theorem skip_space_prefix x : exists ws, layout_ws ws /\ x = ws ++ skip_space x.
Proof.
  induction x as [|c r (ws & Hws & IH)]; [exists []; split; [constructor|reflexivity]|].
  cbn [skip_space]. destruct (is_space c) eqn:E.
  - exists (c :: ws). split; [|cbn; now rewrite <- IH].
    constructor; [|exact Hws]. unfold is_space in E.
    destruct (c =? 32) eqn:E1; [left; now apply N.eqb_eq|].
    destruct (c =? 13) eqn:E2; [right; left; now apply N.eqb_eq|].
    destruct (c =? 10) eqn:E3; [right; right; now apply N.eqb_eq|discriminate].
  - exists []. split; [constructor|reflexivity].
Qed.

Lemma layout_ws_app a c : layout_ws a -> layout_ws c -> layout_ws (a ++ c).
Proof. apply Forall_app_2 || (intros; apply Forall_app; split; assumption). Qed.

(* two texts that differ only in the white space before a token look the same *)
Corollary skip_space_layout ws1 ws2 x :
  layout_ws ws1 -> layout_ws ws2 -> skip_space (ws1 ++ x) = skip_space (ws2 ++ x).
Proof. intros H1 H2. now rewrite !skip_space_ws. Qed.

(* ---- the operator tables: both spellings, one constructor ---- *)

Lemma starts_with_self p : forall r, starts_with p (p ++ r) = Some r.
Proof. induction p as [|c p IH]; intro r; cbn [starts_with app]; [reflexivity|]. now rewrite N.eqb_refl. Qed.

Theorem logical_alias_table : forall a1 a2 o r,
  In (a1, a2, o) logical_aliases ->
  lex_alts logical_ops (a1 ++ r) = Some (o, r) /\ lex_alts logical_ops (a2 ++ r) = Some (o, r).
Proof.
  intros a1 a2 o r H. cbn in H.
  destruct H as [H|[H|[H|[]]]]; injection H as <- <- <-; split; reflexivity.
Qed.

Theorem unary_alias_table : forall a1 a2 r,
  In (a1, a2) unary_aliases ->
  lex_alts unary_ops (a1 ++ r) = Some (tt, r) /\ lex_alts unary_ops (a2 ++ r) = Some (tt, r).
Proof.
  intros a1 a2 r H. cbn in H. destruct H as [H|[]]. injection H as <- <-. split; reflexivity.
Qed.

(* `>` and `<` are prefixes of `>=` and `<=`: what follows must not start with `=` *)
Theorem comparison_alias_table : forall a1 a2 c r,
  In (a1, a2, c) comparison_aliases -> no_eq_follows r ->
  lex_alts comparison_ops (a1 ++ r) = Some (c, r) /\ lex_alts comparison_ops (a2 ++ r) = Some (c, r).
Proof.
  intros a1 a2 c r H Hr. cbn in H.
  destruct H as [H|[H|[H|[H|[H|[H|[H|[H|[]]]]]]]]]; injection H as <- <- <-; split; try reflexivity.
  - destruct r as [|x r']; [reflexivity|].
    assert (E : (61 =? x) = false) by (destruct (N.eqb_spec 61 x) as [<-|]; [cbn in Hr; contradiction|reflexivity]).
    cbv - [N.eqb]. rewrite E. reflexivity.
  - destruct r as [|x r']; [reflexivity|].
    assert (E : (61 =? x) = false) by (destruct (N.eqb_spec 61 x) as [<-|]; [cbn in Hr; contradiction|reflexivity]).
    cbv - [N.eqb]. rewrite E. reflexivity.
Qed.

(* the symbolic spellings other than `>` and `<` need no side condition *)
Theorem comparison_alias_table_free : forall a1 a2 c r,
  In (a1, a2, c) comparison_aliases -> a2 <> bs ">" -> a2 <> bs "<" ->
  lex_alts comparison_ops (a1 ++ r) = Some (c, r) /\ lex_alts comparison_ops (a2 ++ r) = Some (c, r).
Proof.
  intros a1 a2 c r H N1 N2. cbn in H.
  destruct H as [H|[H|[H|[H|[H|[H|[H|[H|[]]]]]]]]]; injection H as <- <- <-; split; try reflexivity;
    exfalso; (now apply N1) || (now apply N2).
Qed.

(* every spelling in the tables of the parser is one of the documented ones:
   the tables have no other entry for these constructors *)
Theorem logical_table_complete : forall t o,
  In (t, o) logical_ops -> exists a1 a2, In (a1, a2, o) logical_aliases /\ (t = a1 \/ t = a2).
Proof.
  intros t o H. cbn in H.
  destruct H as [H|[H|[H|[H|[H|[H|[]]]]]]]; injection H as <- <-;
    [exists (bs "or"), (bs "||")|exists (bs "or"), (bs "||")|exists (bs "xor"), (bs "^^")|
     exists (bs "xor"), (bs "^^")|exists (bs "and"), (bs "&&")|exists (bs "and"), (bs "&&")];
    (split; [cbn; tauto|(now left) || (now right)]).
Qed.

(* ---- operator tokens inside the parser functions ---- *)

(* LogicalExpr::lex_combining_op: white space, operator, white space *)
Theorem combining_op_layout : forall a1 a2 o ws1 ws2 r,
  In (a1, a2, o) logical_aliases -> layout_ws ws1 -> layout_ws ws2 ->
  lex_combining_op (ws1 ++ a1 ++ ws2 ++ r) = (Some o, skip_space r) /\
  lex_combining_op (ws1 ++ a2 ++ ws2 ++ r) = (Some o, skip_space r).
Proof.
  intros a1 a2 o ws1 ws2 r H H1 H2.
  assert (G : forall a, In a [a1; a2] -> lex_combining_op (ws1 ++ a ++ ws2 ++ r) = (Some o, skip_space r)).
  { intros a Ha. unfold lex_combining_op. rewrite skip_space_ws by assumption.
    assert (Hs : forall x, skip_space (a ++ x) = a ++ x).
    { cbn in H, Ha. destruct H as [H|[H|[H|[]]]]; injection H as <- <- <-;
        destruct Ha as [<-|[<-|[]]]; intro x; reflexivity. }
    rewrite Hs.
    assert (Ht : lex_alts logical_ops (a ++ ws2 ++ r) = Some (o, ws2 ++ r)).
    { destruct (logical_alias_table a1 a2 o (ws2 ++ r) H) as [T1 T2]. destruct Ha as [<-|[<-|[]]]; assumption. }
    rewrite Ht. now rewrite skip_space_ws. }
  split; apply G; cbn; auto.
Qed.

(* no operator: the input is left as it is *)
Theorem combining_op_none x :
  lex_alts logical_ops (skip_space x) = None -> lex_combining_op x = (None, x).
Proof. intro H. unfold lex_combining_op. now rewrite H. Qed.

(* LogicalExpr::lex_simple_expr on `not` / `!`: operator, white space, operand *)
Theorem unary_layout : forall sch st f d a1 a2 ws r,
  In (a1, a2) unary_aliases -> layout_ws ws -> d < st_max_depth st ->
  let k := lbind (lex_simple sch st f (d + 1) (skip_space r)) (fun arg rest1 => LOk (ENot arg) rest1) in
  lex_simple sch st (S f) d (a1 ++ ws ++ r) = k /\ lex_simple sch st (S f) d (a2 ++ ws ++ r) = k.
Proof.
  intros sch st f d a1 a2 ws r H Hws Hd k. cbn in H. destruct H as [H|[]]. injection H as <- <-.
  assert (Hi : forall x, increase st d x = LOk (d + 1) []).
  { intro x. unfold increase. destruct (st_max_depth st <=? d) eqn:E; [apply N.leb_le in E; lia|reflexivity]. }
  assert (G : forall a, starts_with [40] (a ++ ws ++ r) = None ->
                        lex_alts unary_ops (a ++ ws ++ r) = Some (tt, ws ++ r) ->
                        lex_simple sch st (S f) d (a ++ ws ++ r) = k).
  { intros a E1 E2. remember (a ++ ws ++ r) as inp eqn:Ei. cbn [lex_simple]. rewrite E1, E2.
    rewrite Hi. cbn [lbind]. now rewrite skip_space_ws. }
  split; apply G; reflexivity.
Qed.

(* `(` white space expression white space `)` *)
Theorem paren_layout : forall sch st f d ws r,
  layout_ws ws -> d < st_max_depth st ->
  lex_simple sch st (S f) d (40 :: ws ++ r) = lex_simple sch st (S f) d (40 :: r).
Proof.
  intros sch st f d ws r Hws Hd.
  assert (Hi : forall x, increase st d x = LOk (d + 1) []).
  { intro x. unfold increase. destruct (st_max_depth st <=? d) eqn:E; [apply N.leb_le in E; lia|reflexivity]. }
  cbn [lex_simple starts_with]. rewrite N.eqb_refl. cbv iota beta. rewrite !Hi. cbn [lbind].
  now rewrite skip_space_ws.
Qed.

(* the closing parenthesis may be preceded by white space *)
Theorem expect_close_layout : forall ws r,
  layout_ws ws -> expect [41] (skip_space (ws ++ 41 :: r)) = LOk tt r.
Proof.
  intros ws r Hws. rewrite skip_space_ws by assumption. cbn [skip_space].
  change (is_space 41) with false. cbv iota. unfold expect. cbn [starts_with]. now rewrite N.eqb_refl.
Qed.

(* ComparisonExpr::lex_with_lhs: white space, operator, white space, literal.
   [prim3] = the left-hand side is Int, Bytes or Ip. *)
Definition prim3 (t : ty) : bool := match t with TInt | TBytes | TIp => true | _ => false end.

Lemma comparison_alias_nonspace a1 a2 c :
  In (a1, a2, c) comparison_aliases -> forall a x, In a [a1; a2] -> skip_space (a ++ x) = a ++ x.
Proof.
  intros H a x Ha. cbn in H.
  destruct H as [H|[H|[H|[H|[H|[H|[H|[H|[]]]]]]]]]; injection H as <- <- <-;
    destruct Ha as [<-|[<-|[]]]; reflexivity.
Qed.

Theorem ordering_layout : forall sch st f d lhs lt a1 a2 o ws1 ws2 r,
  In (a1, a2, OpOrd o) comparison_aliases -> ty_iexpr sch lhs = Some lt -> prim3 lt = true ->
  layout_ws ws1 -> layout_ws ws2 -> no_eq_follows (ws2 ++ r) ->
  let k := lbind (lex_rhs lt (skip_space r)) (fun v rest => LOk (EComparison lhs (COrd o v)) rest) in
  lex_with_lhs sch st (S f) d (ws1 ++ a1 ++ ws2 ++ r) lhs = k /\
  lex_with_lhs sch st (S f) d (ws1 ++ a2 ++ ws2 ++ r) lhs = k.
Proof.
  intros sch st f d lhs lt a1 a2 o ws1 ws2 r H Hty Hp H1 H2 Hne k.
  assert (G : forall a, In a [a1; a2] -> lex_with_lhs sch st (S f) d (ws1 ++ a ++ ws2 ++ r) lhs = k).
  { intros a Ha. cbn [lex_with_lhs]. rewrite Hty.
    rewrite skip_space_ws by assumption. rewrite (comparison_alias_nonspace _ _ _ H a _ Ha).
    assert (Ht : lex_alts comparison_ops (a ++ ws2 ++ r) = Some (OpOrd o, ws2 ++ r)).
    { destruct (comparison_alias_table a1 a2 (OpOrd o) (ws2 ++ r) H Hne) as [T1 T2].
      destruct Ha as [<-|[<-|[]]]; assumption. }
    destruct lt; try discriminate Hp; rewrite Ht; cbv iota beta; cbn [negb]; now rewrite skip_space_ws. }
  split; apply G; cbn; auto.
Qed.

Theorem bitwise_and_layout : forall sch st f d lhs ws1 ws2 r,
  ty_iexpr sch lhs = Some TInt -> layout_ws ws1 -> layout_ws ws2 ->
  let k := lbind (lex_int (skip_space r)) (fun z rest => LOk (EComparison lhs (CBitAnd z)) rest) in
  lex_with_lhs sch st (S f) d (ws1 ++ bs "bitwise_and" ++ ws2 ++ r) lhs = k /\
  lex_with_lhs sch st (S f) d (ws1 ++ bs "&" ++ ws2 ++ r) lhs = k.
Proof.
  intros sch st f d lhs ws1 ws2 r Hty H1 H2 k.
  assert (H : In (bs "bitwise_and", bs "&", OpBand) comparison_aliases) by (cbn; tauto).
  assert (G : forall a, In a [bs "bitwise_and"; bs "&"] ->
                        lex_with_lhs sch st (S f) d (ws1 ++ a ++ ws2 ++ r) lhs = k).
  { intros a Ha. cbn [lex_with_lhs]. rewrite Hty.
    rewrite skip_space_ws by assumption. rewrite (comparison_alias_nonspace _ _ _ H a _ Ha).
    assert (Ht : lex_alts comparison_ops (a ++ ws2 ++ r) = Some (OpBand, ws2 ++ r)).
    { destruct (comparison_alias_table_free _ _ _ (ws2 ++ r) H) as [T1 T2]; try discriminate.
      destruct Ha as [<-|[<-|[]]]; assumption. }
    rewrite Ht. cbv iota beta. now rewrite skip_space_ws. }
  split; apply G; cbn; auto.
Qed.

Theorem matches_layout : forall sch st f d lhs ws1 ws2 r,
  ty_iexpr sch lhs = Some TBytes -> layout_ws ws1 -> layout_ws ws2 ->
  let k := lbind (lex_regex (skip_space r)) (fun p rest => LOk (EComparison lhs (CMatches (fst p) (snd p))) rest) in
  lex_with_lhs sch st (S f) d (ws1 ++ bs "matches" ++ ws2 ++ r) lhs = k /\
  lex_with_lhs sch st (S f) d (ws1 ++ bs "~" ++ ws2 ++ r) lhs = k.
Proof.
  intros sch st f d lhs ws1 ws2 r Hty H1 H2 k.
  assert (H : In (bs "matches", bs "~", OpMatches) comparison_aliases) by (cbn; tauto).
  assert (G : forall a, In a [bs "matches"; bs "~"] ->
                        lex_with_lhs sch st (S f) d (ws1 ++ a ++ ws2 ++ r) lhs = k).
  { intros a Ha. cbn [lex_with_lhs]. rewrite Hty.
    rewrite skip_space_ws by assumption. rewrite (comparison_alias_nonspace _ _ _ H a _ Ha).
    assert (Ht : lex_alts comparison_ops (a ++ ws2 ++ r) = Some (OpMatches, ws2 ++ r)).
    { destruct (comparison_alias_table_free _ _ _ (ws2 ++ r) H) as [T1 T2]; try discriminate.
      destruct Ha as [<-|[<-|[]]]; assumption. }
    rewrite Ht. cbv iota beta. now rewrite skip_space_ws. }
  split; apply G; cbn; auto.
Qed.

(* the white space between the items of a `{ ... }` list is invisible *)
Theorem brace_items_layout {A} : forall fuel (lex1 : bytes -> lres A) ws x acc,
  layout_ws ws -> brace_items fuel lex1 (ws ++ x) acc = brace_items fuel lex1 x acc.
Proof.
  intros fuel lex1 ws x acc Hws. destruct fuel as [|f]; [reflexivity|].
  cbn [brace_items]. now rewrite skip_space_ws.
Qed.

(* `[` white space index white space `]`: both skips of IndexExpr::lex_with *)
Theorem index_layout : forall ws1 ws2 y r,
  layout_ws ws1 -> layout_ws ws2 ->
  lex_field_index (skip_space (ws1 ++ y)) = lex_field_index (skip_space y) /\
  expect [93] (skip_space (ws2 ++ 93 :: r)) = LOk tt r.
Proof.
  intros ws1 ws2 y r H1 H2. split.
  - now rewrite skip_space_ws.
  - rewrite skip_space_ws by assumption. cbn [skip_space].
    change (is_space 93) with false. cbv iota. unfold expect. cbn [starts_with]. now rewrite N.eqb_refl.
Qed.

(* the whole filter: leading and trailing white space is trimmed (str::trim, Unicode White_Space) *)
Lemma layout_ws_ascii c : (c = 32 \/ c = 13 \/ c = 10) -> is_ws_ascii c = true.
Proof. intros [->|[->| ->]]; reflexivity. Qed.

Lemma layout_ws_rev ws : layout_ws ws -> layout_ws (rev ws).
Proof. intro H. apply Forall_rev. exact H. Qed.

(* a step function that drops one white-space character from the front *)
Definition ws_step (step : bytes -> option bytes) : Prop :=
  (forall c r, is_ws_ascii c = true -> step (c :: r) = Some r) /\
  (forall x r, step x = Some r -> (List.length r < List.length x)%nat) /\
  (forall x r y, step x = Some r -> step (x ++ y) = Some (r ++ y)) /\
  (forall x ws, step x = None -> x <> [] -> layout_ws ws -> step (x ++ ws) = None).

Lemma dws_fuel step : ws_step step -> forall n m x,
  (List.length x <= n)%nat -> (List.length x <= m)%nat -> drop_while_some step n x = drop_while_some step m x.
Proof.
  intros (_ & Hsh & _ & _). induction n as [|n IH]; intros m x Hn Hm.
  - destruct x; [|cbn in Hn; lia]. destruct m; cbn [drop_while_some]; [reflexivity|].
    destruct (step []) as [r|] eqn:E; [|reflexivity]. apply Hsh in E. cbn in E. lia.
  - destruct m as [|m].
    + destruct x; [|cbn in Hm; lia]. cbn [drop_while_some]. destruct (step []) as [r|] eqn:E; [|reflexivity].
      apply Hsh in E. cbn in E. lia.
    + cbn [drop_while_some]. destruct (step x) as [r|] eqn:E; [|reflexivity].
      pose proof (Hsh _ _ E). apply IH; lia.
Qed.

Lemma dws_ws step ws x : ws_step step -> layout_ws ws ->
  drop_while_some step (List.length (ws ++ x)) (ws ++ x) = drop_while_some step (List.length x) x.
Proof.
  intros Hst H. induction H as [|c r Hc Hr IH]; [reflexivity|].
  cbn [app List.length drop_while_some]. rewrite (proj1 Hst c (r ++ x) (layout_ws_ascii c Hc)). exact IH.
Qed.

Lemma dws_app step : ws_step step -> forall n x ws, layout_ws ws -> (List.length x <= n)%nat ->
  drop_while_some step (List.length (x ++ ws)) (x ++ ws) =
  match drop_while_some step n x with [] => [] | y => y ++ ws end.
Proof.
  intros Hst. pose proof Hst as (_ & Hsh & Happ & Hnone).
  induction n as [|n IH]; intros x ws Hws Hn.
  - destruct x; [|cbn in Hn; lia]. cbn [app drop_while_some].
    rewrite <- (app_nil_r ws) at 1 2. rewrite (dws_ws step ws [] Hst Hws). reflexivity.
  - cbn [drop_while_some]. destruct (step x) as [r|] eqn:E.
    + pose proof (Hsh _ _ E) as Hl. rewrite <- (IH r ws Hws ltac:(lia)).
      destruct (List.length (x ++ ws)) as [|k] eqn:Ek; [rewrite app_length in Ek; lia|].
      cbn [drop_while_some]. rewrite (Happ _ _ ws E).
      apply (dws_fuel step Hst); rewrite !app_length in *; lia.
    + destruct x as [|c x'].
      * cbn [app]. rewrite <- (app_nil_r ws) at 1 2. rewrite (dws_ws step ws [] Hst Hws). reflexivity.
      * destruct (List.length ((c :: x') ++ ws)) as [|k] eqn:Ek; [cbn in Ek; lia|].
        cbn [drop_while_some]. rewrite (Hnone _ ws E ltac:(discriminate) Hws). reflexivity.
Qed.

Lemma ws_prefix_step : ws_step ws_prefix.
Proof.
  split; [|split; [|split]].
  - intros c r H. unfold ws_prefix. now rewrite H.
  - intros x r H. unfold ws_prefix in H. destruct x as [|b [|c [|d r3]]]; try discriminate H;
      repeat match type of H with (if ?c then _ else _) = _ => destruct c; try discriminate H end;
      injection H as <-; cbn [List.length]; lia.
  - intros x r y H. unfold ws_prefix in H |- *. destruct x as [|b [|c [|d r3]]]; try discriminate H; cbn [app].
    + destruct (is_ws_ascii b); [|discriminate H]. now injection H as <-.
    + destruct (is_ws_ascii b); [now injection H as <-|].
      destruct ((b =? 194) && _); [|discriminate H]. now injection H as <-.
    + destruct (is_ws_ascii b); [now injection H as <-|].
      destruct ((b =? 194) && _); [now injection H as <-|].
      repeat match type of H with (if ?c then _ else _) = _ => destruct c; try discriminate H end; now injection H as <-.
  - intros x ws H Hne Hws. unfold ws_prefix in H |- *.
    assert (Hsmall : forall c, In c ws -> (c <? 128) = true).
    { intros c Hc. unfold layout_ws in Hws. rewrite Forall_forall in Hws. destruct (Hws c Hc) as [->|[->| ->]]; reflexivity. }
    destruct x as [|b [|c [|d r3]]]; [contradiction| | |]; cbn [app].
    + destruct (is_ws_ascii b); [discriminate H|]. destruct ws as [|w1 [|w2 ws']]; [reflexivity| |].
      * pose proof (Hsmall w1 (or_introl eq_refl)).
        replace ((b =? 194) && ((w1 =? 133) || (w1 =? 160))) with false by lia. reflexivity.
      * pose proof (Hsmall w1 (or_introl eq_refl)). pose proof (Hsmall w2 (or_intror (or_introl eq_refl))).
        replace ((b =? 194) && ((w1 =? 133) || (w1 =? 160))) with false by lia.
        replace ((b =? 225) && (w1 =? 154) && (w2 =? 128)) with false by lia.
        replace ((b =? 226) && (w1 =? 128) && ((128 <=? w2) && (w2 <=? 138) || (w2 =? 168) || (w2 =? 169) || (w2 =? 175)))
          with false by lia.
        replace ((b =? 226) && (w1 =? 129) && (w2 =? 159)) with false by lia.
        replace ((b =? 227) && (w1 =? 128) && (w2 =? 128)) with false by lia. reflexivity.
    + destruct (is_ws_ascii b); [discriminate H|]. destruct ((b =? 194) && _); [discriminate H|].
      destruct ws as [|w1 ws']; [reflexivity|]. pose proof (Hsmall w1 (or_introl eq_refl)).
      replace ((b =? 225) && (c =? 154) && (w1 =? 128)) with false by lia.
      replace ((b =? 226) && (c =? 128) && ((128 <=? w1) && (w1 <=? 138) || (w1 =? 168) || (w1 =? 169) || (w1 =? 175)))
        with false by lia.
      replace ((b =? 226) && (c =? 129) && (w1 =? 159)) with false by lia.
      replace ((b =? 227) && (c =? 128) && (w1 =? 128)) with false by lia. reflexivity.
    + revert H. repeat match goal with |- (if ?c then _ else _) = _ -> _ => destruct c; try discriminate end. reflexivity.
Qed.

Lemma ws_suffix_rev_step : ws_step ws_suffix_rev.
Proof.
  split; [|split; [|split]].
  - intros c r H. unfold ws_suffix_rev. now rewrite H.
  - intros x r H. unfold ws_suffix_rev in H. destruct x as [|b [|c [|d r3]]]; try discriminate H;
      repeat match type of H with (if ?c then _ else _) = _ => destruct c; try discriminate H end;
      injection H as <-; cbn [List.length]; lia.
  - intros x r y H. unfold ws_suffix_rev in H |- *. destruct x as [|b [|c [|d r3]]]; try discriminate H; cbn [app].
    + destruct (is_ws_ascii b); [|discriminate H]. now injection H as <-.
    + destruct (is_ws_ascii b); [now injection H as <-|].
      destruct ((c =? 194) && _); [|discriminate H]. now injection H as <-.
    + destruct (is_ws_ascii b); [now injection H as <-|].
      destruct ((c =? 194) && _); [now injection H as <-|].
      repeat match type of H with (if ?c then _ else _) = _ => destruct c; try discriminate H end; now injection H as <-.
  - intros x ws H Hne Hws. unfold ws_suffix_rev in H |- *.
    assert (Hsmall : forall c, In c ws -> (c <? 128) = true).
    { intros c Hc. unfold layout_ws in Hws. rewrite Forall_forall in Hws. destruct (Hws c Hc) as [->|[->| ->]]; reflexivity. }
    destruct x as [|b [|c [|d r3]]]; [contradiction| | |]; cbn [app].
    + destruct (is_ws_ascii b); [discriminate H|]. destruct ws as [|w1 [|w2 ws']]; [reflexivity| |].
      * pose proof (Hsmall w1 (or_introl eq_refl)).
        replace ((w1 =? 194) && ((b =? 133) || (b =? 160))) with false by lia. reflexivity.
      * pose proof (Hsmall w1 (or_introl eq_refl)). pose proof (Hsmall w2 (or_intror (or_introl eq_refl))).
        replace ((w1 =? 194) && ((b =? 133) || (b =? 160))) with false by lia.
        replace ((w2 =? 225) && (w1 =? 154) && (b =? 128)) with false by lia.
        replace ((w2 =? 226) && (w1 =? 128) && ((128 <=? b) && (b <=? 138) || (b =? 168) || (b =? 169) || (b =? 175)))
          with false by lia.
        replace ((w2 =? 226) && (w1 =? 129) && (b =? 159)) with false by lia.
        replace ((w2 =? 227) && (w1 =? 128) && (b =? 128)) with false by lia. reflexivity.
    + destruct (is_ws_ascii b); [discriminate H|]. destruct ((c =? 194) && _); [discriminate H|].
      destruct ws as [|w1 ws']; [reflexivity|]. pose proof (Hsmall w1 (or_introl eq_refl)).
      replace ((w1 =? 225) && (c =? 154) && (b =? 128)) with false by lia.
      replace ((w1 =? 226) && (c =? 128) && ((128 <=? b) && (b <=? 138) || (b =? 168) || (b =? 169) || (b =? 175)))
        with false by lia.
      replace ((w1 =? 226) && (c =? 129) && (b =? 159)) with false by lia.
      replace ((w1 =? 227) && (c =? 128) && (b =? 128)) with false by lia. reflexivity.
    + revert H. repeat match goal with |- (if ?c then _ else _) = _ -> _ => destruct c; try discriminate end. reflexivity.
Qed.

Lemma trim_start_ws ws x : layout_ws ws -> trim_start (ws ++ x) = trim_start x.
Proof. intros H. unfold trim_start. now apply dws_ws; [apply ws_prefix_step|]. Qed.

Theorem trim_layout ws1 ws2 x : layout_ws ws1 -> layout_ws ws2 -> trim (ws1 ++ x ++ ws2) = trim x.
Proof.
  intros H1 H2. unfold trim. cbv zeta. rewrite trim_start_ws by assumption.
  unfold trim_start at 1 2. rewrite (dws_app ws_prefix ws_prefix_step (List.length x) x ws2 H2 (le_n _)).
  fold (trim_start x). destruct (trim_start x) as [|c y] eqn:E; [reflexivity|].
  f_equal. rewrite rev_app_distr.
  rewrite (dws_fuel ws_suffix_rev ws_suffix_rev_step _ (List.length (rev ws2 ++ rev (c :: y))) (rev ws2 ++ rev (c :: y)))
    by (rewrite !app_length, !rev_length; cbn [List.length]; lia).
  rewrite (dws_ws ws_suffix_rev (rev ws2) (rev (c :: y)) ws_suffix_rev_step (layout_ws_rev _ H2)).
  apply (dws_fuel ws_suffix_rev ws_suffix_rev_step); rewrite rev_length; lia.
Qed.

Theorem parse_filter_outer_layout sch st ws1 ws2 x :
  layout_ws ws1 -> layout_ws ws2 -> parse_filter sch st (ws1 ++ x ++ ws2) = parse_filter sch st x.
Proof. intros H1 H2. unfold parse_filter. now rewrite trim_layout. Qed.
