(* Proofs for C12: the visitor model (Sem/Visitor.v) computes exactly the
   occurrence relations of Spec/C12.v, for every AST (mutual induction, no size
   bound), and name lookup errs exactly on the names that are not fields. *)
From Coq Require Import List Bool Arith NArith Lia.
From WF Require Import Base.Bytes Lang.Types Lang.Ast Sem.Compile Parse.Lex Parse.Parser Sem.Visitor Spec.C12.
Import ListNotations.

(* ================= enumeration of constituents = the relation [sub] ================= *)

Lemma sub_trans a b c : sub a b -> sub b c -> sub a c.
Proof.
  intros Hab Hbc. induction Hbc as [n|n c' p Hs IH Hc]; [exact Hab|].
  eapply sub_step; [apply IH; exact Hab|exact Hc].
Qed.

Lemma sub_child c p : child c p -> sub c p.
Proof. intros H. eapply sub_step; [apply sub_refl|exact H]. Qed.

Lemma nodes_self n : In n (nodes n).
Proof. destruct n as [[]|[]|[]]; cbn; auto. Qed.

(* every enumerated node is a constituent *)
Lemma nodes_sound_mut :
  (forall e n, In n (nodes_l e) -> sub n (NL e)) /\
  (forall l n, In n (nodes_ls l) -> exists e, In e (lexprs_to_list l) /\ sub n (NL e)) /\
  (forall e n, In n (nodes_i e) -> sub n (NI e)) /\
  (forall a n, In n (nodes_as a) -> exists x, In x (args_to_list a) /\ sub n (NA x)) /\
  (forall a n, In n (nodes_a a) -> sub n (NA a)).
Proof.
  apply ast_mutind.
  - (* ECombining *) intros op items IH n Hn. cbn [nodes_l] in Hn. destruct Hn as [<-|Hn]; [apply sub_refl|].
    destruct (IH n Hn) as (e & He & Hs). eapply sub_step; [exact Hs|]. now constructor.
  - (* EComparison *) intros lhs IH op n Hn. cbn [nodes_l] in Hn. destruct Hn as [<-|Hn]; [apply sub_refl|].
    eapply sub_step; [apply IH; exact Hn|constructor].
  - (* EParen *) intros e IH n Hn. cbn [nodes_l] in Hn. destruct Hn as [<-|Hn]; [apply sub_refl|].
    eapply sub_step; [apply IH; exact Hn|constructor].
  - (* ENot *) intros e IH n Hn. cbn [nodes_l] in Hn. destruct Hn as [<-|Hn]; [apply sub_refl|].
    eapply sub_step; [apply IH; exact Hn|constructor].
  - (* EQuantIndex *) intros q a IH n Hn. cbn [nodes_l] in Hn. destruct Hn as [<-|Hn]; [apply sub_refl|].
    eapply sub_step; [apply IH; exact Hn|constructor].
  - (* EQuantLogical *) intros q a IH n Hn. cbn [nodes_l] in Hn. destruct Hn as [<-|Hn]; [apply sub_refl|].
    eapply sub_step; [apply IH; exact Hn|constructor].
  - (* LNil *) intros n Hn. destruct Hn.
  - (* LCons *) intros e IHe r IHr n Hn. cbn [nodes_ls] in Hn. apply in_app_or in Hn. destruct Hn as [Hn|Hn].
    + exists e. split; [now left|apply IHe; exact Hn].
    + destruct (IHr n Hn) as (x & Hx & Hs). exists x. split; [now right|exact Hs].
  - (* IField *) intros f idx n Hn. cbn [nodes_i] in Hn. destruct Hn as [<-|[]]. apply sub_refl.
  - (* ICall *) intros fn a IH idx n Hn. cbn [nodes_i] in Hn. destruct Hn as [<-|Hn]; [apply sub_refl|].
    destruct (IH n Hn) as (x & Hx & Hs). eapply sub_step; [exact Hs|]. now constructor.
  - (* ANil *) intros n Hn. destruct Hn.
  - (* ACons *) intros x IHx r IHr n Hn. cbn [nodes_as] in Hn. apply in_app_or in Hn. destruct Hn as [Hn|Hn].
    + exists x. split; [now left|apply IHx; exact Hn].
    + destruct (IHr n Hn) as (y & Hy & Hs). exists y. split; [now right|exact Hs].
  - (* AIndex *) intros e IH n Hn. cbn [nodes_a] in Hn. destruct Hn as [<-|Hn]; [apply sub_refl|].
    eapply sub_step; [apply IH; exact Hn|constructor].
  - (* ALit *) intros r n Hn. cbn [nodes_a] in Hn. destruct Hn as [<-|[]]. apply sub_refl.
  - (* ALogical *) intros e IH n Hn. cbn [nodes_a] in Hn. destruct Hn as [<-|Hn]; [apply sub_refl|].
    eapply sub_step; [apply IH; exact Hn|constructor].
Qed.

Lemma nodes_sound n m : In m (nodes n) -> sub m n.
Proof.
  destruct nodes_sound_mut as (Hl & _ & Hi & _ & Ha).
  destruct n as [e|e|a]; cbn [nodes]; [apply Hl|apply Hi|apply Ha].
Qed.

Lemma nodes_ls_operand l : forall e, In e (lexprs_to_list l) -> incl (nodes_l e) (nodes_ls l).
Proof.
  induction l as [|x r IH]; intros e He; cbn in He; [destruct He|].
  cbn [nodes_ls]. destruct He as [->|He].
  - apply incl_appl, incl_refl.
  - apply incl_appr. now apply IH.
Qed.

Lemma nodes_as_argument a : forall x, In x (args_to_list a) -> incl (nodes_a x) (nodes_as a).
Proof.
  induction a as [|y r IH]; intros x Hx; cbn in Hx; [destruct Hx|].
  cbn [nodes_as]. destruct Hx as [->|Hx].
  - apply incl_appl, incl_refl.
  - apply incl_appr. now apply IH.
Qed.

(* the constituents of an immediate constituent are enumerated *)
Lemma nodes_child c p : child c p -> incl (nodes c) (nodes p).
Proof.
  intros H. destruct H; cbn [nodes nodes_l nodes_i nodes_a]; apply incl_tl;
    try apply incl_refl.
  - now apply nodes_ls_operand.
  - now apply nodes_as_argument.
Qed.

Lemma nodes_complete n m : sub m n -> In m (nodes n).
Proof.
  intros H. induction H as [n|m c p Hs IH Hc]; [apply nodes_self|].
  eapply nodes_child; eauto.
Qed.

Theorem nodes_iff_sub n m : In m (nodes n) <-> sub m n.
Proof. split; [apply nodes_sound|apply nodes_complete]. Qed.

(* ---- executable specification = relational specification ---- *)
Theorem occursb_iff f n : occursb f n = true <-> occurs f n.
Proof.
  unfold occursb, occurs. rewrite existsb_exists. split.
  - intros (m & Hin & Hm). destruct m as [e|[g idx|fn a idx]|a]; cbn in Hm; try discriminate.
    apply Nat.eqb_eq in Hm. subst g. exists idx. now apply nodes_sound.
  - intros (idx & Hs). exists (NI (IField f idx)). split; [now apply nodes_complete|].
    cbn. apply Nat.eqb_refl.
Qed.

Theorem occurs_in_list_lhsb_iff f n : occurs_in_list_lhsb f n = true <-> occurs_in_list_lhs f n.
Proof.
  unfold occurs_in_list_lhsb, occurs_in_list_lhs. rewrite existsb_exists. split.
  - intros (m & Hin & Hm). destruct m as [[| lhs [] | | | |]|e|a]; cbn [is_list_cmp_with] in Hm; try discriminate.
    exists lhs, li, name. split; [now apply nodes_sound|now apply occursb_iff].
  - intros (lhs & li & name & Hs & Ho). exists (NL (EComparison lhs (CInList li name))).
    split; [now apply nodes_complete|]. cbn [is_list_cmp_with]. now apply occursb_iff.
Qed.

(* ================= UsesVisitor = occursb ================= *)

Definition hit (f : nat) (l : list node) : bool := existsb (is_field_node f) l.

Lemma hit_app f a b : hit f (a ++ b) = hit f a || hit f b.
Proof. apply existsb_app. Qed.

Lemma uv_mut f :
  (forall e u, uv_lexpr f u e = u || hit f (nodes_l e)) /\
  (forall l u, uv_lexprs f u l = u || hit f (nodes_ls l)) /\
  (forall e u, uv_iexpr f u e = u || hit f (nodes_i e)) /\
  (forall a u, uv_args f u a = u || hit f (nodes_as a)) /\
  (forall a u, uv_arg f u a = u || hit f (nodes_a a)).
Proof.
  apply ast_mutind.
  - intros op items IH u. cbn [uv_lexpr nodes_l]. destruct u; [reflexivity|]. rewrite IH. reflexivity.
  - intros lhs IH op u. cbn [uv_lexpr nodes_l]. destruct u; [reflexivity|]. rewrite IH. reflexivity.
  - intros e IH u. cbn [uv_lexpr nodes_l]. destruct u; [reflexivity|]. rewrite IH. reflexivity.
  - intros e IH u. cbn [uv_lexpr nodes_l]. destruct u; [reflexivity|]. rewrite IH. reflexivity.
  - intros q a IH u. cbn [uv_lexpr nodes_l]. destruct u; [reflexivity|]. rewrite IH. reflexivity.
  - intros q a IH u. cbn [uv_lexpr nodes_l]. destruct u; [reflexivity|]. rewrite IH. reflexivity.
  - intros u. cbn. now rewrite orb_false_r.
  - intros e IHe r IHr u. cbn [uv_lexprs nodes_ls]. rewrite IHr, IHe, hit_app. now rewrite orb_assoc.
  - intros g idx u. cbn [uv_iexpr nodes_i]. destruct u; [reflexivity|]. cbn.
    destruct (Nat.eqb f g); reflexivity.
  - intros fn a IH idx u. cbn [uv_iexpr nodes_i]. destruct u; [reflexivity|]. rewrite IH. reflexivity.
  - intros u. cbn. now rewrite orb_false_r.
  - intros x IHx r IHr u. cbn [uv_args nodes_as]. rewrite IHr, IHx, hit_app. now rewrite orb_assoc.
  - intros e IH u. cbn [uv_arg nodes_a]. destruct u; [reflexivity|]. rewrite IH. reflexivity.
  - intros r u. cbn [uv_arg nodes_a]. destruct u; reflexivity.
  - intros e IH u. cbn [uv_arg nodes_a]. destruct u; [reflexivity|]. rewrite IH. reflexivity.
Qed.

Lemma uv_lexpr_occursb f e : uv_lexpr f false e = occursb f (NL e).
Proof. destruct (uv_mut f) as (H & _). now rewrite H. Qed.
Lemma uv_iexpr_occursb f e : uv_iexpr f false e = occursb f (NI e).
Proof. destruct (uv_mut f) as (_ & _ & H & _). now rewrite H. Qed.
Lemma uv_arg_occursb f a : uv_arg f false a = occursb f (NA a).
Proof. destruct (uv_mut f) as (_ & _ & _ & _ & H). now rewrite H. Qed.

(* the flag is sticky and the early exit changes nothing *)
Lemma uv_lexpr_flag f e u : uv_lexpr f u e = u || uv_lexpr f false e.
Proof. destruct (uv_mut f) as (H & _). now rewrite (H e u), (H e false). Qed.

(* ================= UsesListVisitor = occurs_in_list_lhsb ================= *)

Definition lhit (f : nat) (l : list node) : bool := existsb (is_list_cmp_with f) l.

Lemma lhit_app f a b : lhit f (a ++ b) = lhit f a || lhit f b.
Proof. apply existsb_app. Qed.

Lemma ulv_mut f :
  (forall e u, ulv_lexpr f u e = u || lhit f (nodes_l e)) /\
  (forall l u, ulv_lexprs f u l = u || lhit f (nodes_ls l)) /\
  (forall e u, ulv_iexpr f u e = u || lhit f (nodes_i e)) /\
  (forall a u, ulv_args f u a = u || lhit f (nodes_as a)) /\
  (forall a u, ulv_arg f u a = u || lhit f (nodes_a a)).
Proof.
  apply ast_mutind.
  - intros op items IH u. cbn [ulv_lexpr nodes_l]. destruct u; [reflexivity|]. rewrite IH. reflexivity.
  - intros lhs IH op u. cbn [ulv_lexpr nodes_l]. destruct u; [reflexivity|].
    unfold uv_comparison. rewrite uv_iexpr_occursb.
    unfold lhit at 1. cbn [existsb orb]. fold (lhit f (nodes_i lhs)).
    destruct op; cbn [is_in_list is_list_cmp_with]; try (rewrite IH; reflexivity).
    destruct (occursb f (NI lhs)); [reflexivity|]. rewrite IH. reflexivity.
  - intros e IH u. cbn [ulv_lexpr nodes_l]. destruct u; [reflexivity|]. rewrite IH. reflexivity.
  - intros e IH u. cbn [ulv_lexpr nodes_l]. destruct u; [reflexivity|]. rewrite IH. reflexivity.
  - intros q a IH u. cbn [ulv_lexpr nodes_l]. destruct u; [reflexivity|]. rewrite IH. reflexivity.
  - intros q a IH u. cbn [ulv_lexpr nodes_l]. destruct u; [reflexivity|]. rewrite IH. reflexivity.
  - intros u. cbn. now rewrite orb_false_r.
  - intros e IHe r IHr u. cbn [ulv_lexprs nodes_ls]. rewrite IHr, IHe, lhit_app. now rewrite orb_assoc.
  - intros g idx u. cbn [ulv_iexpr nodes_i]. destruct u; reflexivity.
  - intros fn a IH idx u. cbn [ulv_iexpr nodes_i]. destruct u; [reflexivity|]. rewrite IH. reflexivity.
  - intros u. cbn. now rewrite orb_false_r.
  - intros x IHx r IHr u. cbn [ulv_args nodes_as]. rewrite IHr, IHx, lhit_app. now rewrite orb_assoc.
  - intros e IH u. cbn [ulv_arg nodes_a]. destruct u; [reflexivity|]. rewrite IH. reflexivity.
  - intros r u. cbn [ulv_arg nodes_a]. destruct u; reflexivity.
  - intros e IH u. cbn [ulv_arg nodes_a]. destruct u; [reflexivity|]. rewrite IH. reflexivity.
Qed.

Lemma ulv_lexpr_spec f e : ulv_lexpr f false e = occurs_in_list_lhsb f (NL e).
Proof. destruct (ulv_mut f) as (H & _). now rewrite H. Qed.
Lemma ulv_iexpr_spec f e : ulv_iexpr f false e = occurs_in_list_lhsb f (NI e).
Proof. destruct (ulv_mut f) as (_ & _ & H & _). now rewrite H. Qed.

(* ---- the four statements against the relational specification ---- *)
Theorem uses_filter_spec f e : uv_lexpr f false e = true <-> occurs f (NL e).
Proof. rewrite uv_lexpr_occursb. apply occursb_iff. Qed.
Theorem uses_value_spec f e : uv_iexpr f false e = true <-> occurs f (NI e).
Proof. rewrite uv_iexpr_occursb. apply occursb_iff. Qed.
Theorem uses_list_filter_spec f e : ulv_lexpr f false e = true <-> occurs_in_list_lhs f (NL e).
Proof. rewrite ulv_lexpr_spec. apply occurs_in_list_lhsb_iff. Qed.
Theorem uses_list_value_spec f e : ulv_iexpr f false e = true <-> occurs_in_list_lhs f (NI e).
Proof. rewrite ulv_iexpr_spec. apply occurs_in_list_lhsb_iff. Qed.

(* uses_list implies uses *)
Lemma sub_occurs f a b : sub a b -> occurs f a -> occurs f b.
Proof. intros Hab [idx Hs]. exists idx. eapply sub_trans; eauto. Qed.

Theorem uses_list_implies_uses f n : occurs_in_list_lhs f n -> occurs f n.
Proof.
  intros (lhs & li & name & Hs & Ho). eapply sub_occurs; [exact Hs|].
  eapply sub_occurs; [apply sub_child; constructor|exact Ho].
Qed.

(* ================= name lookup ================= *)

Lemma beqb_eq a : forall b, bytes_eqb a b = true <-> a = b.
Proof.
  induction a as [|x a IH]; intros [|y b]; cbn; try (split; [discriminate|discriminate]); [tauto|].
  rewrite andb_true_iff, N.eqb_eq, IH. split; [intros [-> ->]; reflexivity|intros H; injection H; auto].
Qed.

Lemma beqb_sym a b : bytes_eqb a b = bytes_eqb b a.
Proof.
  destruct (bytes_eqb a b) eqn:E1, (bytes_eqb b a) eqn:E2; try reflexivity.
  - apply beqb_eq in E1. subst. assert (bytes_eqb b b = true) by now apply beqb_eq. congruence.
  - apply beqb_eq in E2. subst. assert (bytes_eqb a a = true) by now apply beqb_eq. congruence.
Qed.

(* the model's left-to-right scan and the specification's [find] over numbered fields agree *)
Lemma find_field_find name l : forall k,
  find_field name l k =
  option_map fst (find (fun p => bytes_eqb (fd_name (snd p)) name) (List.combine (seq k (List.length l)) l)).
Proof.
  induction l as [|fd r IH]; intros k; cbn [find_field List.length seq List.combine find]; [reflexivity|].
  cbn [snd]. rewrite (beqb_sym name (fd_name fd)). destruct (bytes_eqb (fd_name fd) name); [reflexivity|].
  apply IH.
Qed.

Theorem get_field_is_field_index sch name : get_field sch name = field_index sch name.
Proof.
  unfold get_field, scheme_get, field_index. rewrite find_field_find.
  destruct (find _ _) as [[i fd]|]; cbn [option_map fst]; [reflexivity|].
  destruct (find_fn name (sc_functions sch) 0); reflexivity.
Qed.

Lemma find_field_first name l : forall k,
  match find_field name l k with
  | Some i => (k <= i)%nat /\ (exists fd, nth_error l (i - k) = Some fd /\ fd_name fd = name) /\
              (forall j fd, (j < i - k)%nat -> nth_error l j = Some fd -> fd_name fd <> name)
  | None => forall j fd, nth_error l j = Some fd -> fd_name fd <> name
  end.
Proof.
  induction l as [|fd r IH]; intros k; cbn [find_field].
  - intros j fd H. destruct j; discriminate.
  - destruct (bytes_eqb name (fd_name fd)) eqn:E.
    + apply beqb_eq in E. split; [lia|]. split.
      * exists fd. rewrite Nat.sub_diag. now split.
      * intros j fd' Hj. lia.
    + assert (Hne : fd_name fd <> name).
      { intros Heq. rewrite <- Heq in E. assert (bytes_eqb (fd_name fd) (fd_name fd) = true) by now apply beqb_eq.
        congruence. }
      specialize (IH (S k)). destruct (find_field name r (S k)) as [i|].
      * destruct IH as (Hle & (fd' & Hn & Hname) & Hfirst). split; [lia|]. split.
        -- exists fd'. replace (i - k)%nat with (S (i - S k)) by lia. now split.
        -- intros j fd'' Hj Hnth. destruct j as [|j]; cbn in Hnth.
           ++ injection Hnth as <-. exact Hne.
           ++ apply (Hfirst j fd''); [lia|exact Hnth].
      * intros j fd' Hnth. destruct j as [|j]; cbn in Hnth.
        -- injection Hnth as <-. exact Hne.
        -- eapply IH; eauto.
Qed.

(* a hit is a field of that name; a miss means no field has the name (function names included) *)
Theorem get_field_some sch name i : get_field sch name = Some i -> names_field sch name i.
Proof.
  unfold get_field, scheme_get. pose proof (find_field_first name (sc_fields sch) 0) as H.
  destruct (find_field name (sc_fields sch) 0) as [j|].
  - intros Hj. cbn in Hj. injection Hj as <-. destruct H as (_ & (fd & Hn & Hname) & _).
    rewrite Nat.sub_0_r in Hn. now exists fd.
  - destruct (find_fn name (sc_functions sch) 0); cbn; discriminate.
Qed.

Theorem get_field_none sch name : get_field sch name = None <-> ~ is_field_name sch name.
Proof.
  unfold get_field, scheme_get. pose proof (find_field_first name (sc_fields sch) 0) as H.
  destruct (find_field name (sc_fields sch) 0) as [j|].
  - split; [discriminate|]. intros Hn. exfalso. apply Hn. destruct H as (_ & (fd & Hnth & Hname) & _).
    rewrite Nat.sub_0_r in Hnth. exists j, fd. now split.
  - split.
    + intros _ (i & fd & Hnth & Hname). exact (H i fd Hnth Hname).
    + intros _. destruct (find_fn name (sc_functions sch) 0); reflexivity.
Qed.

Lemma NoDup_map_nth {A B} (g : A -> B) (l : list A) i j a b :
  NoDup (map g l) -> nth_error l i = Some a -> nth_error l j = Some b -> g a = g b -> i = j.
Proof.
  intros Hnd Hi Hj Hg. rewrite NoDup_nth_error in Hnd. apply Hnd.
  - rewrite map_length. apply nth_error_Some. congruence.
  - rewrite !nth_error_map, Hi, Hj. cbn. now rewrite Hg.
Qed.

(* with unique names the hit is THE field of that name *)
Theorem get_field_complete sch name i :
  names_unique sch -> names_field sch name i -> get_field sch name = Some i.
Proof.
  intros Hu (fd & Hnth & Hname). destruct (get_field sch name) as [j|] eqn:E.
  - apply get_field_some in E. destruct E as (fd' & Hnth' & Hname'). f_equal.
    eapply (NoDup_map_nth fd_name); eauto. congruence.
  - apply get_field_none in E. exfalso. apply E. exists i, fd. now split.
Qed.

(* ================= the API level ================= *)

Theorem filter_uses_exec_spec sch e name : filter_uses sch e name = spec_uses sch (NL e) name.
Proof.
  unfold filter_uses, spec_uses. rewrite get_field_is_field_index.
  destruct (field_index sch name); cbn; [|reflexivity]. now rewrite uv_lexpr_occursb.
Qed.
Theorem filter_uses_list_exec_spec sch e name : filter_uses_list sch e name = spec_uses_list sch (NL e) name.
Proof.
  unfold filter_uses_list, spec_uses_list. rewrite get_field_is_field_index.
  destruct (field_index sch name); cbn; [|reflexivity]. now rewrite ulv_lexpr_spec.
Qed.
Theorem value_uses_exec_spec sch e name : value_uses sch e name = spec_uses sch (NI e) name.
Proof.
  unfold value_uses, spec_uses. rewrite get_field_is_field_index.
  destruct (field_index sch name); cbn; [|reflexivity]. now rewrite uv_iexpr_occursb.
Qed.
Theorem value_uses_list_exec_spec sch e name : value_uses_list sch e name = spec_uses_list sch (NI e) name.
Proof.
  unfold value_uses_list, spec_uses_list. rewrite get_field_is_field_index.
  destruct (field_index sch name); cbn; [|reflexivity]. now rewrite ulv_iexpr_spec.
Qed.

Lemma answers_of sch name (P : nat -> Prop) (g : nat -> bool) :
  (forall i, g i = true <-> P i) -> answers sch name P (option_map g (get_field sch name)).
Proof.
  intros Hg. destruct (get_field sch name) as [i|] eqn:E; cbn.
  - exists i. split; [now apply get_field_some|apply Hg].
  - now apply get_field_none.
Qed.

Theorem filter_uses_answers sch e name :
  answers sch name (fun i => occurs i (NL e)) (filter_uses sch e name).
Proof. apply answers_of. intros i. apply uses_filter_spec. Qed.
Theorem filter_uses_list_answers sch e name :
  answers sch name (fun i => occurs_in_list_lhs i (NL e)) (filter_uses_list sch e name).
Proof. apply answers_of. intros i. apply uses_list_filter_spec. Qed.
Theorem value_uses_answers sch e name :
  answers sch name (fun i => occurs i (NI e)) (value_uses sch e name).
Proof. apply answers_of. intros i. apply uses_value_spec. Qed.
Theorem value_uses_list_answers sch e name :
  answers sch name (fun i => occurs_in_list_lhs i (NI e)) (value_uses_list sch e name).
Proof. apply answers_of. intros i. apply uses_list_value_spec. Qed.

Theorem unknown_name_errors sch name :
  ~ is_field_name sch name ->
  (forall e, filter_uses sch e name = None /\ filter_uses_list sch e name = None) /\
  (forall e, value_uses sch e name = None /\ value_uses_list sch e name = None).
Proof.
  intros H. apply get_field_none in H.
  unfold filter_uses, filter_uses_list, value_uses, value_uses_list. rewrite H. cbn. auto.
Qed.

(* a registered function's name is not a field name: an error, not `false` *)
Theorem function_name_errors sch name i :
  scheme_get sch name = Some (IdFn i) -> ~ is_field_name sch name.
Proof. intros H. apply get_field_none. unfold get_field. now rewrite H. Qed.

(* ================= towards the source text ================= *)

(* Every identifier node the parser model builds comes from [lex_ident_name] on
   the text at that point, looked up in the scheme. *)
Theorem lex_index_expr_ident sch st fuel d input e rest :
  lex_index_expr sch st fuel d input = LOk e rest ->
  exists name after,
    lex_ident_name input = LOk name after /\
    match e with
    | IField i _ => scheme_get sch name = Some (IdField i)
    | ICall i _ _ => scheme_get sch name = Some (IdFn i)
    end.
Proof.
  destruct fuel as [|f]; [discriminate|]. cbn [lex_index_expr].
  destruct (lex_ident_name input) as [name after|k a n| |]; try discriminate.
  intros H. exists name, after. split; [reflexivity|].
  destruct (scheme_get sch name) as [[i|i]|]; [| |discriminate].
  - destruct (field_ty sch i) as [t|]; [|discriminate]. unfold lmap, lbind in H.
    destruct (lex_indexes _ _ _ _ _ _) as [idx0 r0|k0 a0 n0| |]; try discriminate. injection H as <- _. reflexivity.
  - destruct (increase st d (skip_space after)) as [d' r1|k1 a1 n1| |]; try discriminate.
    destruct (lex_call _ _ _ _ _ _) as [al r2|k2 a2 n2| |]; try discriminate.
    destruct (ty_call sch i al) as [t|]; [|discriminate]. unfold lmap, lbind in H.
    destruct (lex_indexes _ _ _ _ _ _) as [idx0 r0|k0 a0 n0| |]; try discriminate. injection H as <- _. reflexivity.
Qed.

(* ... hence, with unique names, the identifier text IS the name of the field in the node *)
Theorem lex_index_expr_field_name sch st fuel d input i idx rest :
  lex_index_expr sch st fuel d input = LOk (IField i idx) rest ->
  exists name after, lex_ident_name input = LOk name after /\ names_field sch name i.
Proof.
  intros H. destruct (lex_index_expr_ident _ _ _ _ _ _ _ H) as (name & after & Hl & Hg).
  exists name, after. split; [exact Hl|]. apply get_field_some. unfold get_field. now rewrite Hg.
Qed.
