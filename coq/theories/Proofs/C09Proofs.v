(* C09: the three `in {...}` comparisons equal their specification. *)
From Coq Require Import List ZArith NArith Bool Lia.
From WF Require Import Base.Bytes Sem.RangeSet Spec.C09 Proofs.RangeSetProofs.
Import ListNotations.
Open Scope Z_scope.

Lemma oneof_int_spec items x : oneof_int items x = Some (spec_in_int items x).
Proof. destruct x as [v|]; cbn; [apply rangeset_contains_spec|reflexivity]. Qed.

Lemma split_v4 items v :
  Forall ip_item_wf items ->
  existsb (in_range v) (fst (split_ip_items items)) = existsb (ip_item_contains (V4 v)) items.
Proof.
  intros HF. induction HF as [|it items Hwf Hrest IH]; [reflexivity|].
  cbn [split_ip_items fold_right existsb]. fold (split_ip_items items).
  destruct it as [a b|a b|a n|a n]; cbn [fst snd existsb ip_item_contains orb];
    try exact IH; try (f_equal; exact IH).
  cbn in Hwf. destruct Hwf as (Hn & Hm). rewrite cidr_range_spec by assumption.
  f_equal; exact IH.
Qed.

Lemma split_v6 items v :
  Forall ip_item_wf items ->
  existsb (in_range v) (snd (split_ip_items items)) = existsb (ip_item_contains (V6 v)) items.
Proof.
  intros HF. induction HF as [|it items Hwf Hrest IH]; [reflexivity|].
  cbn [split_ip_items fold_right existsb]. fold (split_ip_items items).
  destruct it as [a b|a b|a n|a n]; cbn [fst snd existsb ip_item_contains orb];
    try exact IH; try (f_equal; exact IH).
  cbn in Hwf. destruct Hwf as (Hn & Hm). rewrite cidr_range_spec by assumption.
  f_equal; exact IH.
Qed.

Lemma oneof_ip_spec items x :
  Forall ip_item_wf items -> oneof_ip items x = Some (spec_in_ip items x).
Proof.
  intros Hwf. destruct x as [[v|v]|]; cbn [oneof_ip spec_in_ip]; [| |reflexivity].
  - rewrite rangeset_contains_spec. f_equal. now apply split_v4.
  - rewrite rangeset_contains_spec. f_equal. now apply split_v6.
Qed.

Lemma bytes_eqb_sym a b : bytes_eqb a b = bytes_eqb b a.
Proof.
  revert b. induction a as [|x a IH]; destruct b as [|y b]; cbn; auto.
  now rewrite N.eqb_sym, IH.
Qed.

Lemma oneof_bytes_spec items x : oneof_bytes items x = Some (spec_in_bytes items x).
Proof.
  destruct x as [v|]; cbn; [|reflexivity]. f_equal.
  induction items as [|i items IH]; cbn; [reflexivity|]. now rewrite IH, bytes_eqb_sym.
Qed.

(* The normal form the binary search relies on, for any input list. *)
Lemma normalize_sorted_disjoint l : sepsorted (rangeset_from l).
Proof. apply merge_sep, sort_sorted. Qed.

Lemma empty_list_false_int x : oneof_int [] x = Some false.
Proof. destruct x; reflexivity. Qed.
Lemma empty_list_false_ip x : oneof_ip [] x = Some false.
Proof. destruct x as [[|]|]; reflexivity. Qed.
Lemma empty_list_false_bytes x : oneof_bytes [] x = Some false.
Proof. destruct x; reflexivity. Qed.

Lemma family_split_v4 items v :
  Forall ip_item_wf items ->
  oneof_ip items (Some (V4 v)) =
  oneof_ip (filter (fun it => match it with IpRange4 _ _ | IpCidr4 _ _ => true | _ => false end) items)
           (Some (V4 v)).
Proof.
  intros Hwf. rewrite !oneof_ip_spec; auto.
  2:{ rewrite Forall_forall in *. intros it Hit. apply filter_In in Hit. now apply Hwf. }
  f_equal. cbn [spec_in_ip]. clear Hwf.
  induction items as [|it items IH]; [reflexivity|]. cbn [filter existsb].
  destruct it; cbn [existsb ip_item_contains]; now rewrite IH.
Qed.
