(* Proofs for C11: the quoted-regex scanner, the wildcard matcher and the
   reference regex matcher of Sem/Matchers.v against Spec/C11.v. *)
From Coq Require Import List NArith Arith Bool Lia.
From WF Require Import Base.Bytes Lang.Ast Parse.Lex Sem.Matchers Spec.C11.
Import ListNotations.
Open Scope N_scope.

(* ================================================================== *)
(* 1. regular expressions: reference matcher = inductive relation      *)

Definition nilb (l : bytes) : bool := match l with [] => true | _ => false end.

Lemma nilb_app_cons : forall (a : bytes) (c : N) (b : bytes), nilb (a ++ c :: b) = false.
Proof. intros a c b. destruct a as [|x a]; reflexivity. Qed.

Lemma in_range_spec : forall (c : N) (p : N * N), in_range c p = true <-> fst p <= c <= snd p.
Proof.
  intros c [lo hi]. unfold in_range. cbn [fst snd].
  rewrite andb_true_iff, !N.leb_le. tauto.
Qed.

Lemma existsb_in_range : forall (rs : list (N * N)) (c : N),
  existsb (in_range c) rs = true <-> exists lo hi, In (lo, hi) rs /\ lo <= c <= hi.
Proof.
  intros rs c. rewrite existsb_exists. split.
  - intros [[lo hi] [Hin Hr]]. exists lo, hi. split; [exact Hin|]. apply in_range_spec in Hr. exact Hr.
  - intros [lo [hi [Hin Hr]]]. exists (lo, hi). split; [exact Hin|]. apply in_range_spec. exact Hr.
Qed.

Lemma set_mem_spec : forall (neg : bool) (rs : list (N * N)) (c : N),
  set_mem neg rs c = true <-> byte_in_set neg rs c.
Proof.
  intros neg rs c. unfold set_mem, byte_in_set. destruct neg.
  - rewrite xorb_true_l, negb_true_iff. rewrite <- existsb_in_range.
    destruct (existsb (in_range c) rs); split; intro H.
    + discriminate H.
    + exfalso. apply H. reflexivity.
    + intro H'. discriminate H'.
    + reflexivity.
  - rewrite xorb_false_l. apply existsb_in_range.
Qed.

Lemma rx_is_fail_eq : forall r : regex_ast, rx_is_fail r = true -> r = RFail.
Proof.
  intros r H. destruct r as [neg rs| | | |a b|a b|a]; try discriminate H.
  destruct neg; [discriminate H|]. destruct rs as [|x rs]; [reflexivity|discriminate H].
Qed.

Lemma rmatch_fail : forall pre w post : bytes, ~ rmatch RFail pre w post.
Proof.
  intros pre w post H. inversion H as [neg rs pre' c post' Hin| | | | | | | |]; subst.
  cbn in Hin. destruct Hin as [lo [hi [Hin _]]]. exact Hin.
Qed.

Lemma list_eqb_eq : forall (A : Type) (f : A -> A -> bool) (l1 l2 : list A),
  (forall x y, f x y = true -> x = y) -> list_eqb f l1 l2 = true -> l1 = l2.
Proof.
  intros A f l1. induction l1 as [|x l1 IH]; intros l2 Hf H; destruct l2 as [|y l2]; cbn in H;
    try discriminate H; [reflexivity|].
  apply andb_true_iff in H. destruct H as [Hxy Hl].
  apply Hf in Hxy. subst y. f_equal. apply IH; assumption.
Qed.

Lemma rx_eqb_eq : forall a b : regex_ast, rx_eqb a b = true -> a = b.
Proof.
  intros a. induction a as [n1 r1| | | |a1 IHa b1 IHb|a1 IHa b1 IHb|a1 IHa]; intros b H;
    destruct b as [n2 r2| | | |a2 b2|a2 b2|a2]; cbn in H; try discriminate H; try reflexivity.
  - apply andb_true_iff in H. destruct H as [Hn Hr].
    apply eqb_prop in Hn. subst n2. f_equal.
    apply (list_eqb_eq _ _ _ _) in Hr; [exact Hr|].
    intros [x1 x2] [y1 y2] Hxy. cbn in Hxy. apply andb_true_iff in Hxy. destruct Hxy as [H1 H2].
    apply N.eqb_eq in H1. apply N.eqb_eq in H2. subst. reflexivity.
  - apply andb_true_iff in H. destruct H as [Ha Hb]. f_equal; [apply IHa|apply IHb]; assumption.
  - apply andb_true_iff in H. destruct H as [Ha Hb]. f_equal; [apply IHa|apply IHb]; assumption.
  - f_equal. apply IHa. exact H.
Qed.

Lemma rmatch_eps_inv : forall pre w post : bytes, rmatch REps pre w post -> w = [].
Proof. intros pre w post H. inversion H. reflexivity. Qed.

Lemma rx_seq_spec : forall (a b : regex_ast) (pre w post : bytes),
  rmatch (rx_seq a b) pre w post <-> rmatch (RSeq a b) pre w post.
Proof.
  intros a b pre w post. unfold rx_seq. destruct (rx_is_fail a) eqn:Hf.
  - apply rx_is_fail_eq in Hf. subst a. split; intro H.
    + exfalso. exact (rmatch_fail _ _ _ H).
    + inversion H as [| | | |a' b' pre' w1 w2 post' Ha Hb| | | |]; subst.
      exfalso. exact (rmatch_fail _ _ _ Ha).
  - destruct a as [neg rs| | | |a1 a2|a1 a2|a1]; try reflexivity.
    split; intro H.
    + apply (RmSeq REps b pre [] w post); [constructor|]. rewrite app_nil_r. exact H.
    + inversion H as [| | | |a' b' pre' w1 w2 post' Ha Hb| | | |]; subst.
      apply rmatch_eps_inv in Ha. subst w1. rewrite app_nil_r in Hb. exact Hb.
Qed.

Lemma rx_alt_spec : forall (a b : regex_ast) (pre w post : bytes),
  rmatch (rx_alt a b) pre w post <-> rmatch (RAlt a b) pre w post.
Proof.
  intros a b pre w post. unfold rx_alt. destruct (rx_is_fail a) eqn:Hfa.
  - apply rx_is_fail_eq in Hfa. subst a. split; intro H.
    + apply RmAltR. exact H.
    + inversion H as [| | | | |a' b' pre' w' post' Ha|a' b' pre' w' post' Hb| |]; subst;
        [exfalso; exact (rmatch_fail _ _ _ Ha)|exact Hb].
  - destruct (rx_is_fail b) eqn:Hfb.
    + apply rx_is_fail_eq in Hfb. subst b. split; intro H.
      * apply RmAltL. exact H.
      * inversion H as [| | | | |a' b' pre' w' post' Ha|a' b' pre' w' post' Hb| |]; subst;
          [exact Ha|exfalso; exact (rmatch_fail _ _ _ Hb)].
    + destruct (rx_eqb a b) eqn:He; [|reflexivity].
      apply rx_eqb_eq in He. subst b. split; intro H.
      * apply RmAltL. exact H.
      * inversion H; subst; assumption.
Qed.

Lemma nullable_sound : forall (r : regex_ast) (pre post : bytes),
  rx_nullable (nilb pre) (nilb post) r = true -> rmatch r pre [] post.
Proof.
  intros r. induction r as [neg rs| | | |a IHa b IHb|a IHa b IHb|a IHa]; intros pre post H; cbn in H.
  - discriminate H.
  - constructor.
  - destruct pre as [|x pre]; [constructor|discriminate H].
  - destruct post as [|x post]; [constructor|discriminate H].
  - apply andb_true_iff in H. destruct H as [Ha Hb].
    apply (RmSeq a b pre [] [] post).
    + cbn [app]. apply IHa. exact Ha.
    + rewrite app_nil_r. apply IHb. exact Hb.
  - apply orb_true_iff in H. destruct H as [Ha|Hb]; [apply RmAltL, IHa, Ha|apply RmAltR, IHb, Hb].
  - constructor.
Qed.

Lemma nullable_complete : forall (r : regex_ast) (pre w post : bytes),
  rmatch r pre w post -> w = [] -> rx_nullable (nilb pre) (nilb post) r = true.
Proof.
  intros r0 pre0 w0 post0 H. induction H as [neg rs pre c post Hin|pre post|post|pre
    |a b pre w1 w2 post Ha IHa Hb IHb|a b pre w post Ha IHa|a b pre w post Hb IHb
    |a pre post|a pre w1 w2 post Ha IHa Hs IHs]; intros Hw; cbn [rx_nullable]; try reflexivity.
  - discriminate Hw.
  - apply app_eq_nil in Hw. destruct Hw as [H1 H2]. subst w1 w2.
    cbn [app] in IHa. rewrite app_nil_r in IHb.
    rewrite (IHa eq_refl), (IHb eq_refl). reflexivity.
  - rewrite (IHa Hw). reflexivity.
  - rewrite (IHb Hw). apply orb_true_r.
Qed.

Lemma nullable_spec : forall (r : regex_ast) (pre post : bytes),
  rx_nullable (nilb pre) (nilb post) r = true <-> rmatch r pre [] post.
Proof.
  intros r pre post. split; [apply nullable_sound|].
  intro H. exact (nullable_complete _ _ _ _ H eq_refl).
Qed.

(* the derivative consumes the first byte of the matched piece *)
Lemma deriv_complete : forall (r : regex_ast) (pre w0 post : bytes),
  rmatch r pre w0 post ->
  forall (c : N) (w : bytes), w0 = c :: w -> rmatch (rx_deriv (nilb pre) c r) (pre ++ [c]) w post.
Proof.
  intros r0 pre0 w0 post0 H. induction H as [neg rs pre c0 post Hin|pre post|post|pre
    |a b pre w1 w2 post Ha IHa Hb IHb|a b pre w' post Ha IHa|a b pre w' post Hb IHb
    |a pre post|a pre w1 w2 post Ha IHa Hs IHs]; intros c w Hw; cbn [rx_deriv]; try discriminate Hw.
  - injection Hw as Hc Hw'. subst c0 w.
    apply set_mem_spec in Hin. rewrite Hin. constructor.
  - apply rx_alt_spec. destruct w1 as [|x w1].
    + cbn [app] in Hw. subst w2. apply RmAltR.
      apply nullable_complete in Ha; [|reflexivity]. cbn [app nilb] in Ha. rewrite Ha.
      rewrite app_nil_r in IHb. apply IHb. reflexivity.
    + cbn [app] in Hw. injection Hw as Hx Hw'. subst x w. apply RmAltL. apply rx_seq_spec.
      apply RmSeq.
      * apply IHa. reflexivity.
      * rewrite <- app_assoc. cbn [app]. exact Hb.
  - apply rx_alt_spec. apply RmAltL. apply IHa. exact Hw.
  - apply rx_alt_spec. apply RmAltR. apply IHb. exact Hw.
  - destruct w1 as [|x w1].
    + cbn [app] in Hw. rewrite app_nil_r in IHs. apply (IHs c w Hw).
    + cbn [app] in Hw. injection Hw as Hx Hw'. subst x w. apply rx_seq_spec. apply RmSeq.
      * apply IHa. reflexivity.
      * rewrite <- app_assoc. cbn [app]. exact Hs.
Qed.

Lemma deriv_sound : forall (r : regex_ast) (pre : bytes) (c : N) (w post : bytes),
  rmatch (rx_deriv (nilb pre) c r) (pre ++ [c]) w post -> rmatch r pre (c :: w) post.
Proof.
  intros r. induction r as [neg rs| | | |a IHa b IHb|a IHa b IHb|a IHa]; intros pre c w post H;
    cbn [rx_deriv] in H.
  - destruct (set_mem neg rs c) eqn:Hm.
    + apply rmatch_eps_inv in H. subst w. constructor. apply set_mem_spec. exact Hm.
    + exfalso. exact (rmatch_fail _ _ _ H).
  - exfalso. exact (rmatch_fail _ _ _ H).
  - exfalso. exact (rmatch_fail _ _ _ H).
  - exfalso. exact (rmatch_fail _ _ _ H).
  - apply rx_alt_spec in H.
    inversion H as [| | | | |a' b' pre' w' post' Hl|a' b' pre' w' post' Hr| |]; subst.
    + apply rx_seq_spec in Hl.
      inversion Hl as [| | | |a' b' pre' w1 w2 post' Ha Hb| | | |]; subst.
      apply IHa in Ha. rewrite <- app_assoc in Hb. cbn [app] in Hb.
      apply (RmSeq a b pre (c :: w1) w2 post); assumption.
    + destruct (rx_nullable (nilb pre) false a) eqn:Hn.
      * apply IHb in Hr.
        apply (RmSeq a b pre [] (c :: w) post).
        -- apply nullable_sound. cbn [app nilb]. exact Hn.
        -- rewrite app_nil_r. exact Hr.
      * exfalso. exact (rmatch_fail _ _ _ Hr).
  - apply rx_alt_spec in H.
    inversion H as [| | | | |a' b' pre' w' post' Hl|a' b' pre' w' post' Hr| |]; subst.
    + apply RmAltL. apply IHa. exact Hl.
    + apply RmAltR. apply IHb. exact Hr.
  - apply rx_seq_spec in H.
    inversion H as [| | | |a' b' pre' w1 w2 post' Ha Hs| | | |]; subst.
    apply IHa in Ha. rewrite <- app_assoc in Hs. cbn [app] in Hs.
    apply (RmStarCons a pre (c :: w1) w2 post); assumption.
Qed.

Lemma deriv_spec : forall (r : regex_ast) (pre : bytes) (c : N) (w post : bytes),
  rmatch r pre (c :: w) post <-> rmatch (rx_deriv (nilb pre) c r) (pre ++ [c]) w post.
Proof.
  intros r pre c w post. split.
  - intro H. exact (deriv_complete _ _ _ _ H c w eq_refl).
  - apply deriv_sound.
Qed.

Lemma prefix_spec : forall (rest : bytes) (r : regex_ast) (pre : bytes),
  rx_prefix (nilb pre) r rest = true <-> exists w post, rest = w ++ post /\ rmatch r pre w post.
Proof.
  intros rest. induction rest as [|c rest IH]; intros r pre; cbn [rx_prefix].
  - rewrite orb_false_r. change true with (nilb []). rewrite nullable_spec. split.
    + intro H. exists [], []. split; [reflexivity|exact H].
    + intros [w [post [Hs H]]]. symmetry in Hs. apply app_eq_nil in Hs. destruct Hs; subst. exact H.
  - rewrite orb_true_iff. change false with (nilb (c :: rest)) at 1. rewrite nullable_spec.
    assert (Hn : false = nilb (pre ++ [c])) by (symmetry; apply nilb_app_cons).
    rewrite Hn. rewrite IH. split.
    + intros [H|[w [post [Hs H]]]].
      * exists [], (c :: rest). split; [reflexivity|exact H].
      * apply deriv_spec in H. exists (c :: w), post. split; [|exact H].
        cbn [app]. rewrite Hs. reflexivity.
    + intros [w [post [Hs H]]]. destruct w as [|x w].
      * left. cbn [app] in Hs. subst post. exact H.
      * right. cbn [app] in Hs. injection Hs as Hx Hs'. subst x.
        exists w, post. split; [exact Hs'|]. apply deriv_spec. exact H.
Qed.

Lemma search_spec : forall (rest : bytes) (r : regex_ast) (pre : bytes),
  rx_search (nilb pre) r rest = true <->
  exists a w post, rest = a ++ w ++ post /\ rmatch r (pre ++ a) w post.
Proof.
  intros rest. induction rest as [|c rest IH]; intros r pre; cbn [rx_search].
  - rewrite orb_false_r. rewrite prefix_spec. split.
    + intros [w [post [Hs H]]]. exists [], w, post. rewrite app_nil_r. split; assumption.
    + intros [a [w [post [Hs H]]]]. symmetry in Hs. apply app_eq_nil in Hs. destruct Hs as [Ha Hs].
      subst a. rewrite app_nil_r in H. exists w, post. split; [symmetry; exact Hs|exact H].
  - rewrite orb_true_iff. rewrite prefix_spec.
    assert (Hn : false = nilb (pre ++ [c])) by (symmetry; apply nilb_app_cons).
    rewrite Hn. rewrite IH. split.
    + intros [[w [post [Hs H]]]|[a [w [post [Hs H]]]]].
      * exists [], w, post. rewrite app_nil_r. split; assumption.
      * exists (c :: a), w, post. rewrite <- app_assoc in H. cbn [app] in *. rewrite Hs. split; [reflexivity|exact H].
    + intros [a [w [post [Hs H]]]]. destruct a as [|x a].
      * left. rewrite app_nil_r in H. exists w, post. split; assumption.
      * right. cbn [app] in Hs. injection Hs as Hx Hs'. subst x.
        exists a, w, post. split; [exact Hs'|]. rewrite <- app_assoc. cbn [app]. exact H.
Qed.

Theorem regex_run_spec : forall (r : regex_ast) (h : bytes),
  regex_run r h = true <-> regex_search_spec r h.
Proof.
  intros r h. unfold regex_run, regex_search_spec.
  change true with (nilb []) at 1. rewrite search_spec. cbn [app]. reflexivity.
Qed.

(* ================================================================== *)
(* 2. the quoted-literal scanner                                       *)

Lemma scan_go_sound : forall (n : nat) (s : bytes) (ic : bool) (p rest : bytes),
  (length s <= n)%nat -> regex_scan_go s ic = Some (p, rest) -> scan_spec ic s p rest.
Proof.
  induction n as [|n IHn]; intros s ic p rest Hl H.
  - destruct s as [|c s1]; [discriminate H|cbn in Hl; lia].
  - destruct s as [|c s1]; [discriminate H|]. cbn [regex_scan_go] in H. cbn [length] in Hl.
    destruct (c =? 92) eqn:E92.
    + apply N.eqb_eq in E92. subst c. destruct s1 as [|c2 s2]; [discriminate H|].
      destruct (regex_scan_go s2 ic) as [[p' rest']|] eqn:Er; [|discriminate H].
      injection H as Hp Hr. subst rest'. apply IHn in Er; [|cbn in Hl; lia].
      destruct ic; cbn [orb] in Hp.
      * subst p. apply ScEscape; [left; reflexivity|exact Er].
      * destruct (c2 =? 34) eqn:E34; cbn [negb] in Hp; subst p.
        -- apply N.eqb_eq in E34. subst c2. apply ScQuoteOutside. exact Er.
        -- apply N.eqb_neq in E34. apply ScEscape; [right; exact E34|exact Er].
    + apply N.eqb_neq in E92.
      destruct (c =? 34) eqn:E34.
      * apply N.eqb_eq in E34. subst c. destruct ic; cbn in H.
        -- destruct (regex_scan_go s1 true) as [[p' rest']|] eqn:Er; [|discriminate H].
           injection H as Hp Hr. subst p rest'. apply ScQuoteInside. apply IHn; [lia|exact Er].
        -- injection H as Hp Hr. subst p rest. apply ScEnd.
      * apply N.eqb_neq in E34. cbn [andb] in H.
        destruct (c =? 91) eqn:E91; [apply N.eqb_eq in E91|apply N.eqb_neq in E91].
        -- subst c. destruct ic; cbn in H.
           ++ destruct (regex_scan_go s1 true) as [[p' rest']|] eqn:Er; [|discriminate H].
              injection H as Hp Hr. subst p rest'.
              apply ScPlain; try assumption; try reflexivity; [discriminate|apply IHn; [lia|exact Er]].
           ++ destruct (regex_scan_go s1 true) as [[p' rest']|] eqn:Er; [|discriminate H].
              injection H as Hp Hr. subst p rest'. apply ScOpen. apply IHn; [lia|exact Er].
        -- cbn [andb] in H.
           destruct (c =? 93) eqn:E93; [apply N.eqb_eq in E93|apply N.eqb_neq in E93].
           ++ subst c. destruct ic; cbn in H.
              ** destruct (regex_scan_go s1 false) as [[p' rest']|] eqn:Er; [|discriminate H].
                 injection H as Hp Hr. subst p rest'. apply ScClose. apply IHn; [lia|exact Er].
              ** destruct (regex_scan_go s1 false) as [[p' rest']|] eqn:Er; [|discriminate H].
                 injection H as Hp Hr. subst p rest'.
                 apply ScPlain; try assumption; try reflexivity; [discriminate|apply IHn; [lia|exact Er]].
           ++ cbn [andb] in H.
              destruct (regex_scan_go s1 ic) as [[p' rest']|] eqn:Er; [|discriminate H].
              injection H as Hp Hr. subst p rest'.
              apply ScPlain; try assumption; try (intro Hc; contradiction). apply IHn; [lia|exact Er].
Qed.

Lemma scan_go_complete : forall (ic : bool) (s p rest : bytes),
  scan_spec ic s p rest -> regex_scan_go s ic = Some (p, rest).
Proof.
  intros ic s p rest H.
  induction H as [rest|s p rest H IH|ic c s p rest Hc H IH|s p rest H IH|s p rest H IH|s p rest H IH
                  |ic c s p rest H92 H34 H91 H93 H IH].
  - reflexivity.
  - cbn [regex_scan_go]. change (92 =? 92) with true. cbn iota. rewrite IH. reflexivity.
  - cbn [regex_scan_go]. change (92 =? 92) with true. cbn iota. rewrite IH.
    destruct Hc as [Hic|Hc34].
    + subst ic. reflexivity.
    + apply N.eqb_neq in Hc34. rewrite Hc34. rewrite orb_true_r. reflexivity.
  - cbn. rewrite IH. reflexivity.
  - cbn. rewrite IH. reflexivity.
  - cbn. rewrite IH. reflexivity.
  - cbn [regex_scan_go].
    apply N.eqb_neq in H92. apply N.eqb_neq in H34. rewrite H92, H34. cbn [andb].
    destruct (c =? 91) eqn:E91.
    + apply N.eqb_eq in E91. rewrite (H91 E91) in *. subst c. cbn. rewrite IH. reflexivity.
    + cbn [andb]. destruct (c =? 93) eqn:E93.
      * apply N.eqb_eq in E93. rewrite (H93 E93) in *. cbn. rewrite IH. reflexivity.
      * cbn [andb]. rewrite IH. reflexivity.
Qed.

Theorem scan_go_spec : forall (ic : bool) (s p rest : bytes),
  regex_scan_go s ic = Some (p, rest) <-> scan_spec ic s p rest.
Proof.
  intros ic s p rest. split.
  - apply (scan_go_sound (length s)). apply Nat.le_refl.
  - apply scan_go_complete.
Qed.

Lemma scan_clean_spec : forall (ic : bool) (body : bytes),
  scan_clean ic body -> forall rest, scan_spec ic (body ++ 34 :: rest) body rest.
Proof.
  intros ic body H.
  induction H as [|ic c s Hc H IH|s H IH|s H IH|s H IH|ic c s H92 H34 H91 H93 H IH]; intro rest; cbn [app].
  - apply ScEnd.
  - apply ScEscape; [exact Hc|apply IH].
  - apply ScOpen. apply IH.
  - apply ScClose. apply IH.
  - apply ScQuoteInside. apply IH.
  - apply ScPlain; try assumption. apply IH.
Qed.

Theorem scanner_identity : forall body rest : bytes,
  scan_clean false body -> regex_scan_literal (body ++ 34 :: rest) = LOk body rest.
Proof.
  intros body rest H. unfold regex_scan_literal.
  rewrite (scan_go_complete _ _ _ _ (scan_clean_spec _ _ H rest)). reflexivity.
Qed.

(* no quote, no backslash, no opening bracket at all: trivially clean *)
Lemma plain_is_clean : forall body : bytes,
  Forall (fun c => c <> 34 /\ c <> 92 /\ c <> 91) body -> scan_clean false body.
Proof.
  intros body H. induction H as [|c body [H34 [H92 H91]] Hf IH]; [constructor|].
  apply CleanPlain; try assumption; [intro Hc; contradiction|reflexivity].
Qed.

Definition map_pat (f : bytes -> bytes) (r : option (bytes * bytes)) : option (bytes * bytes) :=
  match r with Some (p, rest) => Some (f p, rest) | None => None end.

Theorem scanner_unescapes_quote_outside_class : forall s : bytes,
  regex_scan_go (92 :: 34 :: s) false = map_pat (cons 34) (regex_scan_go s false).
Proof. intro s. cbn. destruct (regex_scan_go s false) as [[p rest]|]; reflexivity. Qed.

Theorem scanner_keeps_escape_inside_class : forall (c : N) (s : bytes),
  regex_scan_go (92 :: c :: s) true = map_pat (fun p => 92 :: c :: p) (regex_scan_go s true) /\
  regex_scan_go (34 :: s) true = map_pat (cons 34) (regex_scan_go s true).
Proof.
  intros c s. split; cbn; destruct (regex_scan_go s true) as [[p rest]|]; reflexivity.
Qed.

(* outside a class every backslash pair other than \<quote> is kept *)
Theorem scanner_keeps_other_escapes : forall (c : N) (s : bytes),
  c <> 34 -> regex_scan_go (92 :: c :: s) false = map_pat (fun p => 92 :: c :: p) (regex_scan_go s false).
Proof.
  intros c s Hc. cbn. apply N.eqb_neq in Hc. rewrite Hc.
  destruct (regex_scan_go s false) as [[p rest]|]; reflexivity.
Qed.

(* a backslash at the very end: MissingEndingQuote, whatever precedes *)
Theorem scanner_trailing_backslash : forall (ic : bool), regex_scan_go [92] ic = None.
Proof. intro ic. reflexivity. Qed.

(* ================================================================== *)
(* 3. wildcards                                                        *)

(* the definition of wparse matches on numerals; this is its reading with tests *)
Lemma wparse_unfold : forall (c : N) (r : bytes),
  wparse (c :: r) =
  if c =? 92 then
    match r with
    | [] => None
    | d :: r' =>
        if d =? 42 then option_map (cons (WLit 42)) (wparse r')
        else if d =? 92 then option_map (cons (WLit 92)) (wparse r')
        else None
    end
  else if c =? 42 then option_map (cons WStar) (wparse r)
  else option_map (cons (WLit c)) (wparse r).
Proof.
  intros c r. destruct c as [|p]; [reflexivity|].
  do 7 (try (destruct p as [p|p|]); try reflexivity).
  destruct r as [|d r']; [reflexivity|].
  destruct d as [|q]; [reflexivity|].
  do 7 (try (destruct q as [q|q|]); try reflexivity).
Qed.

Lemma wparse_sound : forall (n : nat) (p : bytes) (t : list wtok),
  (length p <= n)%nat -> wparse p = Some t -> wtokens p t.
Proof.
  induction n as [|n IHn]; intros p t Hl H.
  - destruct p as [|c r]; [|cbn in Hl; lia]. cbn in H. injection H as Ht. subst t. constructor.
  - destruct p as [|c r]; [cbn in H; injection H as Ht; subst t; constructor|].
    rewrite wparse_unfold in H. cbn [length] in Hl.
    destruct (c =? 92) eqn:E92.
    + apply N.eqb_eq in E92. subst c. destruct r as [|d r']; [discriminate H|]. cbn [length] in Hl.
      destruct (d =? 42) eqn:E42.
      * apply N.eqb_eq in E42. subst d. destruct (wparse r') as [t'|] eqn:Er; [|discriminate H].
        injection H as Ht. subst t. apply WtEscStar. apply IHn; [lia|exact Er].
      * destruct (d =? 92) eqn:E92'; [|discriminate H].
        apply N.eqb_eq in E92'. subst d. destruct (wparse r') as [t'|] eqn:Er; [|discriminate H].
        injection H as Ht. subst t. apply WtEscBackslash. apply IHn; [lia|exact Er].
    + apply N.eqb_neq in E92. destruct (c =? 42) eqn:E42.
      * apply N.eqb_eq in E42. subst c. destruct (wparse r) as [t'|] eqn:Er; [|discriminate H].
        injection H as Ht. subst t. apply WtStar. apply IHn; [lia|exact Er].
      * apply N.eqb_neq in E42. destruct (wparse r) as [t'|] eqn:Er; [|discriminate H].
        injection H as Ht. subst t. apply WtChar; try assumption. apply IHn; [lia|exact Er].
Qed.

Lemma wparse_complete : forall (p : bytes) (t : list wtok), wtokens p t -> wparse p = Some t.
Proof.
  intros p t H. induction H as [|p t H IH|p t H IH|p t H IH|c p t H92 H42 H IH].
  - reflexivity.
  - rewrite wparse_unfold. change (92 =? 92) with true. change (42 =? 42) with true. cbn iota.
    rewrite IH. reflexivity.
  - rewrite wparse_unfold. change (92 =? 92) with true. change (92 =? 42) with false. cbn iota.
    rewrite IH. reflexivity.
  - rewrite wparse_unfold. change (42 =? 92) with false. change (42 =? 42) with true. cbn iota.
    rewrite IH. reflexivity.
  - rewrite wparse_unfold. apply N.eqb_neq in H92. apply N.eqb_neq in H42. rewrite H92, H42, IH. reflexivity.
Qed.

Theorem wparse_spec : forall (p : bytes) (t : list wtok), wparse p = Some t <-> wtokens p t.
Proof.
  intros p t. split; [apply (wparse_sound (length p)); apply Nat.le_refl|apply wparse_complete].
Qed.

Lemma wparse_app : forall (p : bytes) (t : list wtok), wtokens p t ->
  forall q, wparse (p ++ q) = option_map (app t) (wparse q).
Proof.
  intros p t H. induction H as [|p t H IH|p t H IH|p t H IH|c p t H92 H42 H IH]; intro q; cbn [app].
  - destruct (wparse q); reflexivity.
  - rewrite wparse_unfold. change (92 =? 92) with true. change (42 =? 42) with true. cbn iota.
    rewrite IH. destruct (wparse q); reflexivity.
  - rewrite wparse_unfold. change (92 =? 92) with true. change (92 =? 42) with false. cbn iota.
    rewrite IH. destruct (wparse q); reflexivity.
  - rewrite wparse_unfold. change (42 =? 92) with false. change (42 =? 42) with true. cbn iota.
    rewrite IH. destruct (wparse q); reflexivity.
  - rewrite wparse_unfold. apply N.eqb_neq in H92. apply N.eqb_neq in H42. rewrite H92, H42, IH.
    destruct (wparse q); reflexivity.
Qed.

(* an escape other than \* and \\, or a backslash at the end: no reading *)
Lemma wparse_bad_escape : forall (p : bytes) (t : list wtok) (c : N) (q : bytes),
  wtokens p t -> c <> 42 -> c <> 92 -> wparse (p ++ 92 :: c :: q) = None /\ wparse (p ++ [92]) = None.
Proof.
  intros p t c q H H42 H92. rewrite !(wparse_app _ _ H). split.
  - rewrite wparse_unfold. change (92 =? 92) with true. cbn iota.
    apply N.eqb_neq in H42. apply N.eqb_neq in H92. rewrite H42, H92. reflexivity.
  - reflexivity.
Qed.

Lemma star_count_stars : forall t : list wtok, star_count t = stars t.
Proof.
  intro t. unfold star_count. induction t as [|[c|] t IH]; cbn; [reflexivity|exact IH|].
  f_equal. exact IH.
Qed.

Lemma has_double_star_spec : forall t : list wtok, has_double_star t = true <-> double_star t.
Proof.
  intro t. split.
  - induction t as [|x t IH]; intro H; [discriminate H|].
    destruct x as [c|].
    + cbn in H. destruct (IH H) as [a [b Hab]]. exists (WLit c :: a), b. rewrite Hab. reflexivity.
    + destruct t as [|y t']; [discriminate H|]. destruct y as [c|].
      * cbn [has_double_star] in H. destruct (IH H) as [a [b Hab]]. exists (WStar :: a), b. rewrite Hab. reflexivity.
      * exists [], t'. reflexivity.
  - intros [a [b Hab]]. subst t. induction a as [|x a IH]; [reflexivity|].
    cbn [app]. destruct x as [c|]; [exact IH|].
    destruct (a ++ WStar :: WStar :: b) as [|y r] eqn:E; [discriminate IH|].
    destruct y as [c|]; [exact IH|reflexivity].
Qed.

Lemma wildcard_compile_new : forall (limit : option N) (p : bytes),
  wildcard_compile limit p = match wildcard_new limit p with inl t => Some t | inr _ => None end.
Proof.
  intros limit p. unfold wildcard_compile, wildcard_new. destruct (wparse p) as [t|]; [|reflexivity].
  destruct (match limit with Some l => N.ltb l (N.of_nat (star_count t)) | None => false end); [reflexivity|].
  destruct (has_double_star t); reflexivity.
Qed.

Theorem wildcard_compile_spec : forall (limit : option N) (p : bytes) (t : list wtok),
  wildcard_compile limit p = Some t <-> wildcard_accept_spec limit p t.
Proof.
  intros limit p t. unfold wildcard_compile, wildcard_accept_spec. split.
  - intro H. destruct (wparse p) as [t'|] eqn:Ep; [|discriminate H].
    destruct (match limit with Some l => N.ltb l (N.of_nat (star_count t')) | None => false end) eqn:El;
      [discriminate H|].
    destruct (has_double_star t') eqn:Ed; [discriminate H|]. injection H as Ht. subst t'.
    split; [apply wparse_spec; exact Ep|]. split.
    + intro Hd. apply has_double_star_spec in Hd. rewrite Hd in Ed. discriminate Ed.
    + intros l Hl. subst limit. apply N.ltb_ge in El. rewrite <- star_count_stars. exact El.
  - intros [Hp [Hd Hl]]. apply wparse_spec in Hp. rewrite Hp.
    assert (El : match limit with Some l => N.ltb l (N.of_nat (star_count t)) | None => false end = false).
    { destruct limit as [l|]; [|reflexivity]. apply N.ltb_ge. rewrite star_count_stars. apply Hl. reflexivity. }
    rewrite El. destruct (has_double_star t) eqn:Ed; [|reflexivity].
    exfalso. apply Hd. apply has_double_star_spec. exact Ed.
Qed.

(* rejection, one reason at a time *)
Theorem wildcard_reject_rules :
  (* ** *)
  (forall limit p t, wtokens p t -> double_star t -> wildcard_compile limit p = None) /\
  (* an invalid escape or a backslash at the end, anywhere after a readable prefix *)
  (forall limit p t c q, wtokens p t -> c <> 42 -> c <> 92 ->
     wildcard_compile limit (p ++ 92 :: c :: q) = None /\ wildcard_compile limit (p ++ [92]) = None) /\
  (* more stars than the limit *)
  (forall l p t, wtokens p t -> l < N.of_nat (stars t) -> wildcard_compile (Some l) p = None) /\
  (* nothing else is rejected *)
  (forall limit p, wildcard_compile limit p = None <->
     ~ (exists t, wtokens p t /\ ~ double_star t /\ (forall l, limit = Some l -> N.of_nat (stars t) <= l))) /\
  (* ? is an ordinary character: it stands for itself and for nothing else *)
  (forall r, wparse (63 :: r) = option_map (cons (WLit 63)) (wparse r)) /\
  (forall strict x, sym_eq strict 63 x = true <-> x = 63).
Proof.
  repeat split.
  - intros limit p t Hp Hd. unfold wildcard_compile. apply wparse_spec in Hp. rewrite Hp.
    apply has_double_star_spec in Hd. rewrite Hd. destruct (match limit with Some _ => _ | None => _ end); reflexivity.
  - unfold wildcard_compile. destruct (wparse_bad_escape p t c q H H0 H1) as [E _]. rewrite E. reflexivity.
  - unfold wildcard_compile. destruct (wparse_bad_escape p t c q H H0 H1) as [_ E]. rewrite E. reflexivity.
  - intros l p t Hp Hl. unfold wildcard_compile. apply wparse_spec in Hp. rewrite Hp.
    rewrite star_count_stars. apply N.ltb_lt in Hl. rewrite Hl. reflexivity.
  - intros H [t Ht]. apply (wildcard_compile_spec limit p t) in Ht. rewrite Ht in H. discriminate H.
  - intro H. destruct (wildcard_compile limit p) as [t|] eqn:E; [|reflexivity].
    exfalso. apply H. exists t. apply wildcard_compile_spec. exact E.
  - intro H. unfold sym_eq, ascii_lower in H. destruct strict.
    + apply N.eqb_eq in H. symmetry. exact H.
    + change ((65 <=? 63) && (63 <=? 90)) with false in H. cbn iota in H.
      apply N.eqb_eq in H. destruct ((65 <=? x) && (x <=? 90)) eqn:Ex; [|symmetry; exact H].
      apply andb_true_iff in Ex. destruct Ex as [E1 E2]. apply N.leb_le in E1. lia.
  - intro H. subst x. destruct strict; reflexivity.
Qed.

(* ---- the matcher ---- *)

Lemma sym_eq_spec : forall (strict : bool) (a b : N), sym_eq strict a b = true <-> sym_spec strict a b.
Proof.
  intros strict a b. unfold sym_eq, sym_spec. destruct strict; [apply N.eqb_eq|].
  unfold ascii_lower, ascii_case_eq. rewrite N.eqb_eq.
  destruct ((65 <=? a) && (a <=? 90)) eqn:Ea; destruct ((65 <=? b) && (b <=? 90)) eqn:Eb;
    try (apply andb_true_iff in Ea; destruct Ea as [Ea1 Ea2]; apply N.leb_le in Ea1; apply N.leb_le in Ea2);
    try (apply andb_true_iff in Eb; destruct Eb as [Eb1 Eb2]; apply N.leb_le in Eb1; apply N.leb_le in Eb2);
    try (apply andb_false_iff in Ea; rewrite !N.leb_gt in Ea);
    try (apply andb_false_iff in Eb; rewrite !N.leb_gt in Eb); lia.
Qed.

Lemma wmatch_star_unfold : forall (strict : bool) (r : list wtok) (v : bytes),
  wmatch strict (WStar :: r) v =
  wmatch strict r v || match v with [] => false | _ :: v' => wmatch strict (WStar :: r) v' end.
Proof. intros strict r v. destruct v as [|x v]; reflexivity. Qed.

Lemma wmatch_sound : forall (strict : bool) (t : list wtok) (v : bytes),
  wmatch strict t v = true -> wmatch_spec strict t v.
Proof.
  intros strict t. induction t as [|x r IH]; intros v H.
  - destruct v as [|y v]; [constructor|discriminate H].
  - destruct x as [c|].
    + destruct v as [|y v]; [discriminate H|]. cbn [wmatch] in H.
      apply andb_true_iff in H. destruct H as [Hs Hr].
      constructor; [apply sym_eq_spec; exact Hs|apply IH; exact Hr].
    + induction v as [|y v IHv].
      * rewrite wmatch_star_unfold in H. rewrite orb_false_r in H.
        apply (WsStar strict r [] []). apply IH. exact H.
      * rewrite wmatch_star_unfold in H. apply orb_true_iff in H. destruct H as [H|H].
        -- apply (WsStar strict r [] (y :: v)). apply IH. exact H.
        -- specialize (IHv H). inversion IHv as [| |t' u v' Hm]; subst.
           apply (WsStar strict r (y :: u) v'). exact Hm.
Qed.

Lemma wmatch_complete : forall (strict : bool) (t : list wtok) (v : bytes),
  wmatch_spec strict t v -> wmatch strict t v = true.
Proof.
  intros strict t v H. induction H as [|c x t v Hs H IH|t u v H IH].
  - reflexivity.
  - cbn [wmatch]. apply sym_eq_spec in Hs. rewrite Hs, IH. reflexivity.
  - induction u as [|y u IHu]; rewrite wmatch_star_unfold; cbn [app].
    + rewrite IH. reflexivity.
    + rewrite IHu. apply orb_true_r.
Qed.

Theorem wmatch_is_spec : forall (strict : bool) (t : list wtok) (v : bytes),
  wmatch strict t v = true <-> wmatch_spec strict t v.
Proof. intros strict t v. split; [apply wmatch_sound|apply wmatch_complete]. Qed.

(* pattern text level: wildcard_match decides "the text reads as tokens that match" *)
Theorem wildcard_match_spec : forall (strict : bool) (p v : bytes),
  wildcard_match strict p v = Some true <-> exists t, wtokens p t /\ wmatch_spec strict t v.
Proof.
  intros strict p v. unfold wildcard_match. split.
  - destruct (wparse p) as [t|] eqn:Ep; [|discriminate]. cbn. intro H. injection H as H.
    exists t. split; [apply wparse_spec; exact Ep|apply wmatch_is_spec; exact H].
  - intros [t [Hp Hm]]. apply wparse_spec in Hp. rewrite Hp. cbn. f_equal. apply wmatch_is_spec. exact Hm.
Qed.

(* whole value: every literal consumes exactly one byte of the value *)
Fixpoint lits (t : list wtok) : nat :=
  match t with [] => O | WLit _ :: r => S (lits r) | WStar :: r => lits r end.

Theorem wildcard_whole_value : forall (strict : bool) (t : list wtok) (v : bytes),
  wmatch strict t v = true ->
  (lits t <= length v)%nat /\ (stars t = 0%nat -> length v = lits t).
Proof.
  intros strict t v H. apply wmatch_is_spec in H.
  induction H as [|c x t v Hs H [IH1 IH2]|t u v H [IH1 IH2]]; cbn [lits stars length].
  - split; [apply Nat.le_refl|reflexivity].
  - split; [lia|]. intro Hz. rewrite (IH2 Hz). reflexivity.
  - split; [rewrite app_length; lia|]. intro Hz. discriminate Hz.
Qed.

(* a pattern without stars is a byte-for-byte comparison of the whole value *)
Theorem wildcard_literal_pattern : forall (strict : bool) (l v : bytes),
  wmatch strict (map WLit l) v = true <-> Forall2 (sym_spec strict) l v.
Proof.
  intros strict l. induction l as [|c l IH]; intro v; cbn [map wmatch].
  - destruct v as [|y v]; split; intro H; try constructor; try discriminate H; inversion H.
  - destruct v as [|y v].
    + split; intro H; [discriminate H|inversion H].
    + rewrite andb_true_iff, sym_eq_spec, IH. split.
      * intros [H1 H2]. constructor; assumption.
      * intro H. inversion H; subst. split; assumption.
Qed.

Definition fold_tok (x : wtok) : wtok := match x with WLit c => WLit (ascii_lower c) | WStar => WStar end.

Lemma wmatch_fold : forall (t : list wtok) (v : bytes),
  wmatch false t v = wmatch true (map fold_tok t) (map ascii_lower v).
Proof.
  intro t. induction t as [|x r IH]; intro v.
  - destruct v; reflexivity.
  - destruct x as [c|].
    + destruct v as [|y v]; [reflexivity|]. cbn [map fold_tok wmatch]. rewrite IH. reflexivity.
    + cbn [map fold_tok]. induction v as [|y v IHv].
      * rewrite !wmatch_star_unfold. cbn [map]. rewrite IH. reflexivity.
      * rewrite wmatch_star_unfold. rewrite (wmatch_star_unfold true). cbn [map].
        rewrite IH, IHv. reflexivity.
Qed.

Theorem wildcard_case_rule :
  (forall a b, sym_eq true a b = true <-> a = b) /\
  (forall a b, sym_eq false a b = true <-> ascii_case_eq a b) /\
  (forall t v, wmatch true t v = true -> wmatch false t v = true) /\
  (forall t v, wmatch false t v = wmatch true (map fold_tok t) (map ascii_lower v)).
Proof.
  split; [|split; [|split]].
  - intros a b. apply (sym_eq_spec true).
  - intros a b. apply (sym_eq_spec false).
  - intros t v H. apply wmatch_is_spec in H. apply wmatch_is_spec.
    induction H as [|c x t v Hs H IH|t u v H IH].
    + constructor.
    + constructor; [|exact IH]. cbn in Hs. subst x. left. reflexivity.
    + constructor. exact IH.
  - apply wmatch_fold.
Qed.

(* ================================================================== *)
(* 4. raw strings are passed verbatim                                  *)

Lemma count_hashes_unfold : forall (x : N) (r : bytes),
  count_hashes (x :: r) = if x =? 35 then S (count_hashes r) else O.
Proof.
  intros x r. destruct x as [|p]; [reflexivity|].
  do 6 (try (destruct p as [p|p|]); try reflexivity).
Qed.

Lemma hashes_at_unfold : forall (x : N) (r : bytes),
  hashes_at (x :: r) = if x =? 35 then S (hashes_at r) else O.
Proof.
  intros x r. destruct x as [|p]; [reflexivity|].
  do 6 (try (destruct p as [p|p|]); try reflexivity).
Qed.

Lemma hashes_at_count : forall s : bytes, hashes_at s = count_hashes s.
Proof.
  intro s. induction s as [|x s IH]; [reflexivity|].
  rewrite hashes_at_unfold, count_hashes_unfold, IH. reflexivity.
Qed.

Lemma count_hashes_le : forall s : bytes, (count_hashes s <= length s)%nat.
Proof.
  intro s. induction s as [|x s IH]; [apply Nat.le_refl|].
  rewrite count_hashes_unfold. cbn [length]. destruct (x =? 35); lia.
Qed.

Lemma count_hashes_stop : forall (b : bytes) (x : N) (t : bytes),
  x <> 35 -> count_hashes (b ++ x :: t) = count_hashes b.
Proof.
  intros b x t Hx. induction b as [|y b IH]; cbn [app].
  - rewrite count_hashes_unfold. apply N.eqb_neq in Hx. rewrite Hx. reflexivity.
  - rewrite !count_hashes_unfold. rewrite IH. reflexivity.
Qed.

Lemma count_hashes_repeat : forall (n : nat) (t : bytes), (n <= count_hashes (repeat 35%N n ++ t))%nat.
Proof.
  intros n t. induction n as [|n IH]; [apply Nat.le_0_l|].
  cbn [repeat app]. rewrite count_hashes_unfold. change (35 =? 35) with true. cbn iota. lia.
Qed.

Lemma count_hashes_repeat_stop : forall (n : nat) (x : N) (t : bytes),
  x <> 35 -> count_hashes (repeat 35 n ++ x :: t) = n.
Proof.
  intros n x t Hx. induction n as [|n IH]; cbn [repeat app].
  - rewrite count_hashes_unfold. apply N.eqb_neq in Hx. rewrite Hx. reflexivity.
  - rewrite count_hashes_unfold. change (35 =? 35) with true. cbn iota. rewrite IH. reflexivity.
Qed.

Lemma skipn_repeat_app : forall (n : nat) (x : N) (t : bytes), skipn n (repeat x n ++ t) = t.
Proof. intros n x t. induction n as [|n IH]; [reflexivity|exact IH]. Qed.

(* one iteration of the loop of lex_raw_string_as_str on an ASCII character *)
Lemma raw_go_step : forall (f n : nat) (x : N) (s body : bytes),
  x < 128 ->
  raw_go (S f) n (x :: s) body =
  if x =? 34 then
    if Nat.leb n (count_hashes s) then Some (body, skipn n s)
    else raw_go f n (skipn (count_hashes s) s) (body ++ [34] ++ firstn (count_hashes s) s)
  else raw_go f n s (body ++ [x]).
Proof.
  intros f n x s body Hx. cbn [raw_go next_char]. unfold char_len.
  apply N.ltb_lt in Hx. rewrite Hx. cbn [firstn skipn].
  destruct x as [|p]; [reflexivity|].
  do 6 (try (destruct p as [p|p|]); try reflexivity).
Qed.

Lemma raw_go_body : forall (n : nat) (rest : bytes) (m : nat) (body : bytes) (fuel : nat) (body0 : bytes),
  (length body <= m)%nat ->
  Forall (fun b => b < 128) body ->
  raw_body_ok n body ->
  (length body < fuel)%nat ->
  raw_go fuel n (body ++ 34 :: repeat 35 n ++ rest) body0 = Some (body0 ++ body, rest).
Proof.
  intros n rest m. induction m as [|m IH]; intros body fuel body0 Hm Hascii Hok Hfuel.
  - destruct body as [|x b]; [|cbn in Hm; lia]. destruct fuel as [|f]; [lia|]. cbn [app].
    rewrite raw_go_step by reflexivity. change (34 =? 34) with true. cbn iota.
    assert (Hle : Nat.leb n (count_hashes (repeat 35%N n ++ rest)) = true)
      by (apply Nat.leb_le; apply count_hashes_repeat).
    rewrite Hle. rewrite skipn_repeat_app, app_nil_r. reflexivity.
  - destruct body as [|x b].
    + apply (IH [] fuel body0); [apply Nat.le_0_l|assumption|assumption|assumption].
    + destruct fuel as [|f]; [lia|]. cbn [app length] in *.
      inversion Hascii as [|x' b' Hx Hb]; subst x' b'.
      rewrite raw_go_step by exact Hx.
      destruct (x =? 34) eqn:E34.
      * apply N.eqb_eq in E34. subst x.
        assert (Hk : (hashes_at b < n)%nat) by (apply (Hok [] b); reflexivity).
        rewrite count_hashes_stop by discriminate. rewrite <- hashes_at_count.
        assert (Hle : Nat.leb n (hashes_at b) = false) by (apply Nat.leb_gt; exact Hk).
        rewrite Hle.
        assert (Hkl : (hashes_at b <= length b)%nat) by (rewrite hashes_at_count; apply count_hashes_le).
        rewrite skipn_app, firstn_app.
        replace (hashes_at b - length b)%nat with O by lia. cbn [skipn firstn]. rewrite app_nil_r.
        rewrite (IH (skipn (hashes_at b) b) f).
        -- rewrite <- !app_assoc. cbn [app]. rewrite firstn_skipn. reflexivity.
        -- rewrite skipn_length. lia.
        -- rewrite <- (firstn_skipn (hashes_at b) b) in Hb. apply Forall_app in Hb. apply Hb.
        -- intros a b2 Hab. apply (Hok (34 :: firstn (hashes_at b) b ++ a) b2).
           cbn [app]. rewrite <- app_assoc. rewrite <- Hab. rewrite firstn_skipn. reflexivity.
        -- rewrite skipn_length. lia.
      * rewrite (IH b f).
        -- rewrite <- app_assoc. reflexivity.
        -- lia.
        -- exact Hb.
        -- intros a b2 Hab. apply (Hok (x :: a) b2). cbn [app]. rewrite Hab. reflexivity.
        -- lia.
Qed.

Theorem raw_string_verbatim : forall (n : nat) (body rest : bytes),
  (n <= 255)%nat ->
  Forall (fun b => b < 128) body ->
  raw_body_ok n body ->
  lex_raw_string_as_str (repeat 35 n ++ 34 :: body ++ 34 :: repeat 35 n ++ rest) = LOk (body, N.of_nat n) rest.
Proof.
  intros n body rest Hn Hascii Hok. unfold lex_raw_string_as_str.
  rewrite count_hashes_repeat_stop by discriminate.
  assert (Hlt : Nat.ltb 255 n = false) by (apply Nat.ltb_ge; exact Hn). rewrite Hlt.
  rewrite skipn_repeat_app.
  rewrite (raw_go_body n rest (length body) body _ []); try assumption.
  - reflexivity.
  - apply Nat.le_refl.
  - rewrite app_length. cbn [length]. lia.
Qed.

(* the regex lexer hands the body of a raw string to the engine unchanged *)
Theorem regex_raw_verbatim : forall (input body rest : bytes) (n : N),
  lex_raw_string_as_str input = LOk (body, n) rest ->
  regex_lex_pattern (114 :: input) = LOk (body, Some n) rest.
Proof. intros input body rest n H. cbn. rewrite H. reflexivity. Qed.

(* ================================================================== *)
(* 5. a wildcard is an anchored regular expression                     *)

Lemma case_set_spec : forall (strict : bool) (c x : N),
  byte_in_set false (case_set strict c) x <-> sym_spec strict c x.
Proof.
  intros strict c x. unfold byte_in_set, case_set, sym_spec. destruct strict.
  - split.
    + intros [lo [hi [[Hin|[]] Hr]]]. injection Hin as H1 H2. subst lo hi. lia.
    + intro H. subst x. exists c, c. split; [left; reflexivity|lia].
  - unfold ascii_case_eq.
    destruct ((65 <=? c) && (c <=? 90)) eqn:Eu.
    + apply andb_true_iff in Eu. destruct Eu as [E1 E2]. apply N.leb_le in E1. apply N.leb_le in E2. split.
      * intros [lo [hi [[Hin|[Hin|[]]] Hr]]]; injection Hin as H1 H2; subst lo hi; lia.
      * intros [H|[[_ H]|[[H1 H2] H]]].
        -- subst x. exists c, c. split; [left; reflexivity|lia].
        -- subst x. exists (c + 32), (c + 32). split; [right; left; reflexivity|lia].
        -- lia.
    + destruct ((97 <=? c) && (c <=? 122)) eqn:El.
      * apply andb_true_iff in El. destruct El as [E1 E2]. apply N.leb_le in E1. apply N.leb_le in E2. split.
        -- intros [lo [hi [[Hin|[Hin|[]]] Hr]]]; injection Hin as H1 H2; subst lo hi; lia.
        -- intros [H|[[H1 H]|[[H1 H2] H]]].
           ++ subst x. exists c, c. split; [left; reflexivity|lia].
           ++ lia.
           ++ exists (c - 32), (c - 32). split; [right; left; reflexivity|lia].
      * apply andb_false_iff in Eu. apply andb_false_iff in El. rewrite !N.leb_gt in Eu, El. split.
        -- intros [lo [hi [[Hin|[]] Hr]]]. injection Hin as H1 H2. subst lo hi. lia.
        -- intros [H|[[H1 H]|[[H1 H2] H]]]; try lia.
           subst x. exists c, c. split; [left; reflexivity|lia].
Qed.

Lemma star_any : forall u pre post : bytes, rmatch (RStar (RSet true [])) pre u post.
Proof.
  intro u. induction u as [|y u IH]; intros pre post; [constructor|].
  apply (RmStarCons (RSet true []) pre [y] u post).
  - constructor. cbn. intros [lo [hi [[] _]]].
  - apply IH.
Qed.

Lemma wild_body_sound : forall (strict : bool) (t : list wtok) (pre v post : bytes),
  rmatch (wild_body strict t) pre v post -> wmatch_spec strict t v.
Proof.
  intros strict t. induction t as [|x r IH]; intros pre v post H; cbn [wild_body] in H.
  - apply rmatch_eps_inv in H. subst v. constructor.
  - inversion H as [| | | |a b pre' w1 w2 post' Ha Hb| | | |]; subst.
    apply IH in Hb. destruct x as [c|]; cbn [tok_regex] in Ha.
    + inversion Ha as [neg rs pre' y post' Hin| | | | | | | |]; subst.
      cbn [app]. constructor; [apply case_set_spec; exact Hin|exact Hb].
    + constructor. exact Hb.
Qed.

Lemma wild_body_complete : forall (strict : bool) (t : list wtok) (v : bytes),
  wmatch_spec strict t v -> forall pre post, rmatch (wild_body strict t) pre v post.
Proof.
  intros strict t v H. induction H as [|c x t v Hs H IH|t u v H IH]; intros pre post; cbn [wild_body].
  - constructor.
  - apply (RmSeq _ _ pre [x] v post); [|apply IH].
    cbn [tok_regex]. constructor. apply case_set_spec. exact Hs.
  - apply RmSeq; [apply star_any|apply IH].
Qed.

Theorem wildcard_is_anchored_regex : forall (strict : bool) (t : list wtok) (v : bytes),
  wmatch strict t v = regex_run (wild_regex strict t) v.
Proof.
  intros strict t v. apply eq_true_iff_eq. rewrite wmatch_is_spec, regex_run_spec.
  unfold regex_search_spec, wild_regex. split.
  - intro H. exists [], v, []. rewrite app_nil_r. split; [reflexivity|].
    apply (RmSeq RStart _ [] [] v []); [constructor|].
    cbn [app]. rewrite <- (app_nil_r v). apply RmSeq.
    + apply wild_body_complete. exact H.
    + constructor.
  - intros [pre [w [post [Hv H]]]].
    inversion H as [| | | |a b pre' w1 w2 post' Hs Hr| | | |]; subst.
    inversion Hs; subst. cbn [app] in *.
    inversion Hr as [| | | |a b pre' w3 w4 post' Hb He| | | |]; subst.
    inversion He; subst. rewrite !app_nil_r. rewrite app_nil_r in Hb.
    apply wild_body_sound in Hb. exact Hb.
Qed.
