(* C13, exactness: the configured nesting limit acts on parsing ONLY as a
   filter on the nesting depth of the result.  For two parser settings that
   differ in nothing but max_nesting_depth: whatever one of them accepts, with
   a result whose nesting is within the other's limit, the other accepts too,
   with the same AST.  One induction on the fuel over the nine parser
   functions.  The only place where a nesting error could be swallowed is the
   literal fall-back of FunctionCallArgExpr::lex_with, taken when the first
   characters of the argument do not look like an identifier; the scheme
   condition [fn_names_ok] (every function name looks like an identifier to
   that test within its first three characters) excludes it. *)
From Coq Require Import List ZArith NArith Bool Lia Arith.
From WF Require Import Base.Bytes Sem.RangeSet Sem.Matchers Lang.Types Lang.Ast Lang.Context
     Sem.Compile Spec.Typing Spec.C13 Parse.Lex Parse.Parser
     Proofs.TypingProofs Proofs.ParserProofs Proofs.LexFacts Proofs.FuelProofs.
Import ListNotations.
Local Notation length := List.length (only parsing).
Local Open Scope N_scope.
Local Arguments regex_compile : simpl never.
Local Arguments wildcard_compile : simpl never.

(* ---- the identifier test of FunctionCallArgExpr::lex_with on the first three characters ---- *)
Definition prop3 (c1 c2 c3 : option N) : bool :=
  one_ascii c1 c_is_field
  || (one_ascii c1 c_is_field_or_int && one_ascii c2 c_is_field)
  || (one_ascii c1 c_is_field_or_int && one_ascii c2 c_is_field_or_int && one_ascii c3 c_is_field).
Definition arg_propagates (input : bytes) : bool :=
  let '(c1, c2, c3) := first_chars input in prop3 c1 c2 c3.

(* every function name, followed by anything, passes the identifier test *)
Definition fn_names_ok (sch : scheme) : Prop :=
  forall n d rest, In (n, d) (sc_functions sch) -> arg_propagates (n ++ rest) = true.

Lemma char_len_ascii b : is_ascii b = true -> char_len b = 1%nat.
Proof. unfold is_ascii, char_len. intros ->. reflexivity. Qed.

Lemma next_char_ascii_cons b s : is_ascii b = true -> next_char (b :: s) = Some ([b], s).
Proof. intros H. unfold next_char. rewrite (char_len_ascii b H). reflexivity. Qed.

(* sufficient, checkable criteria: a character that can only belong to an identifier
   (a letter outside a-f / A-F, or `_`) among the first three characters of the name,
   preceded by letters, digits or `_` *)
Definition name_ok1 (n : bytes) : bool :=
  match n with b1 :: _ => is_ascii b1 && c_is_field b1 | _ => false end.
Definition name_ok2 (n : bytes) : bool :=
  match n with
  | b1 :: b2 :: _ => is_ascii b1 && c_is_field_or_int b1 && (is_ascii b2 && c_is_field b2)
  | _ => false
  end.
Definition name_ok3 (n : bytes) : bool :=
  match n with
  | b1 :: b2 :: b3 :: _ =>
      is_ascii b1 && c_is_field_or_int b1 && (is_ascii b2 && c_is_field_or_int b2) && (is_ascii b3 && c_is_field b3)
  | _ => false
  end.

Lemma name_ok_propagates n rest : name_ok1 n || name_ok2 n || name_ok3 n = true -> arg_propagates (n ++ rest) = true.
Proof.
  intros H. apply orb_true_iff in H. destruct H as [H|H]; [apply orb_true_iff in H; destruct H as [H|H]|].
  - destruct n as [|b1 n1]; [discriminate|]. cbn [name_ok1] in H. apply andb_true_iff in H. destruct H as [A1 F1].
    unfold arg_propagates, first_chars. cbn [app]. rewrite (next_char_ascii_cons b1 _ A1).
    destruct (next_char (n1 ++ rest)) as [[c2 r2]|]; [destruct (next_char r2) as [[c3 r3]|]|];
      cbn [hd_error]; unfold prop3; cbn [one_ascii]; rewrite A1, F1; reflexivity.
  - destruct n as [|b1 [|b2 n2]]; try discriminate. cbn [name_ok2] in H.
    apply andb_true_iff in H. destruct H as [H H2]. apply andb_true_iff in H. destruct H as [A1 F1].
    apply andb_true_iff in H2. destruct H2 as [A2 F2].
    unfold arg_propagates, first_chars. cbn [app]. rewrite (next_char_ascii_cons b1 _ A1), (next_char_ascii_cons b2 _ A2).
    destruct (next_char (n2 ++ rest)) as [[c3 r3]|]; cbn [hd_error]; unfold prop3; cbn [one_ascii];
      rewrite A1, F1, A2, F2; cbn [andb]; now rewrite orb_true_r.
  - destruct n as [|b1 [|b2 [|b3 n3]]]; try discriminate. cbn [name_ok3] in H.
    apply andb_true_iff in H. destruct H as [H H3]. apply andb_true_iff in H. destruct H as [H H2].
    apply andb_true_iff in H. destruct H as [A1 F1]. apply andb_true_iff in H2. destruct H2 as [A2 F2].
    apply andb_true_iff in H3. destruct H3 as [A3 F3].
    unfold arg_propagates, first_chars. cbn [app].
    rewrite (next_char_ascii_cons b1 _ A1), (next_char_ascii_cons b2 _ A2), (next_char_ascii_cons b3 _ A3).
    cbn [hd_error]. unfold prop3. cbn [one_ascii]. rewrite A1, F1, A2, F2, A3, F3. cbn [andb]. now rewrite !orb_true_r.
Qed.

Lemma fn_names_ok_of_test sch :
  forallb (fun p : bytes * fn_def => name_ok1 (fst p) || name_ok2 (fst p) || name_ok3 (fst p)) (sc_functions sch) = true ->
  fn_names_ok sch.
Proof.
  intros H n d rest Hin. rewrite forallb_forall in H. apply name_ok_propagates. exact (H (n, d) Hin).
Qed.

(* ---- what does not depend on the nesting limit ---- *)
Lemma lbind_ext {A B} (r : lres A) (k1 k2 : A -> bytes -> lres B) :
  (forall a rest, k1 a rest = k2 a rest) -> lbind r k1 = lbind r k2.
Proof. intros H. destruct r; cbn; auto. Qed.

Lemma lex_indexes_st sch st1 st2 fuel : forall input t acc,
  lex_indexes sch st1 fuel input t acc = lex_indexes sch st2 fuel input t acc.
Proof.
  induction fuel as [|f IH]; intros input t acc; [reflexivity|]. cbn [lex_indexes].
  destruct (starts_with [91] input); [|reflexivity].
  apply lbind_ext. intros idx rest1. apply lbind_ext. intros [] rest2.
  destruct (index_step t idx); [apply IH|reflexivity].
Qed.

Lemma with_lhs_st sch st1 st2 f d1 d2 input lhs :
  st_star_limit st1 = st_star_limit st2 ->
  lex_with_lhs sch st1 f d1 input lhs = lex_with_lhs sch st2 f d2 input lhs.
Proof.
  intros H. destruct f as [|f]; [reflexivity|]. cbn [lex_with_lhs]. unfold lex_wildcard. rewrite H. reflexivity.
Qed.

(* an accepted comparison is a comparison on the given left-hand side *)
Lemma with_lhs_shape sch st f d input lhs e rest :
  lex_with_lhs sch st f d input lhs = LOk e rest -> exists op, e = EComparison lhs op.
Proof.
  destruct f as [|f]; [discriminate|]. cbn [lex_with_lhs]. cbv zeta.
  repeat first
    [ match goal with
      | |- LOk (EComparison lhs ?op) _ = LOk e rest -> _ =>
          let Hx := fresh "Hx" in intros Hx; injection Hx as <- _; eexists; reflexivity
      | |- LErr _ _ _ = _ -> _ => discriminate
      | |- LPanic = _ -> _ => discriminate
      | |- LFuel = _ -> _ => discriminate
      | |- lbind ?r ?k = LOk e rest -> _ =>
          let Hy := fresh "Hy" in intros Hy; apply lbind_ok in Hy; destruct Hy as (? & ? & _ & Hy); revert Hy
      | |- (match ?x with _ => _ end) = _ -> _ => destruct x
      | |- (if ?c then _ else _) = _ -> _ => destruct c
      end ].
Qed.

Lemma increase_ok st d at_ d' r : increase st d at_ = LOk d' r -> d' = d + 1 /\ d < st_max_depth st.
Proof. unfold increase. destruct (N.leb_spec (st_max_depth st) d) as [Hle|Hlt]; [discriminate|]. intros H. injection H as <- _. auto. Qed.

Lemma increase_intro st d at_ : d < st_max_depth st -> increase st d at_ = LOk (d + 1) [].
Proof. intros H. unfold increase. destruct (N.leb_spec (st_max_depth st) d) as [Hle|Hlt]; [lia|reflexivity]. Qed.

(* ---- the result of the chain loops contains their left operand ---- *)
Lemma chain_depth sch st f :
  (forall d lhs minp la e r, lex_more sch st f d lhs minp la = LOk e r -> (depth_lexpr lhs <= depth_lexpr e)%nat) /\
  (forall d rhs rest op p r, lex_inner sch st f d rhs rest op = LOk p r -> (depth_lexpr rhs <= depth_lexpr (fst p))%nat).
Proof.
  induction f as [|f [IHm IHi]]; [split; intros; discriminate|]. split.
  - intros d lhs minp [o lrest] e r H. cbn [lex_more fst snd] in H. destruct o as [op|]; [|now injection H as <- _].
    apply lbind_ok in H. destruct H as (rhs & rhs_rest & Hs & H).
    destruct (lex_inner sch st f d rhs rhs_rest op) as [[rhs' la'] rr'|k a n| |] eqn:Ei; try discriminate.
    destruct (ty_lexpr sch lhs); [|discriminate]. destruct (ty_lexpr sch rhs'); [|discriminate].
    destruct (types_combinable _ _); [|discriminate].
    apply IHm in H. rewrite depth_combine in H. lia.
  - intros d rhs rest op p r H. cbn [lex_inner] in H. cbv zeta in H.
    destruct (Nat.leb _ _); [injection H as <- _; cbn; lia|].
    destruct (lex_more sch st f d rhs (fst (lex_combining_op rest)) (lex_combining_op rest)) as [rhs' rest'|k a n| |] eqn:Em;
      try discriminate.
    apply IHm in Em. apply IHi in H. lia.
Qed.

(* the right operand found by the loop is also contained in the result *)
Lemma more_rhs_depth sch st f d lhs minp op lrest e r rhs rhs_rest :
  lex_more sch st (S f) d lhs minp (Some op, lrest) = LOk e r ->
  lex_simple sch st f d lrest = LOk rhs rhs_rest ->
  (depth_lexpr rhs <= depth_lexpr e)%nat.
Proof.
  intros H Hs. cbn [lex_more fst snd] in H. rewrite Hs in H. cbn [lbind] in H.
  destruct (lex_inner sch st f d rhs rhs_rest op) as [[rhs' la'] rr'|k a n| |] eqn:Ei; try discriminate.
  destruct (ty_lexpr sch lhs); [|discriminate]. destruct (ty_lexpr sch rhs'); [|discriminate].
  destruct (types_combinable _ _); [|discriminate].
  apply (proj2 (chain_depth sch st f)) in Ei. apply (proj1 (chain_depth sch st f)) in H. cbn [fst] in Ei.
  rewrite depth_combine in H. lia.
Qed.

(* ---- identifiers that resolve to functions pass the identifier test ---- *)
Lemma find_fn_in name l : forall k i, find_fn name l k = Some i -> exists n d, In (n, d) l /\ bytes_eqb name n = true.
Proof.
  induction l as [|[n d] l IH]; intros k i H; cbn in H; [discriminate|].
  destruct (bytes_eqb name n) eqn:E.
  - exists n, d. split; [now left|exact E].
  - destruct (IH _ _ H) as (n' & d' & Hin & He). exists n', d'. split; [now right|exact He].
Qed.

Lemma bytes_eqb_eq' a : forall b, bytes_eqb a b = true -> a = b.
Proof.
  induction a as [|x a IH]; intros [|y b] H; cbn in H; try discriminate; [reflexivity|].
  apply andb_true_iff in H. destruct H as [H1 H2]. apply N.eqb_eq in H1. subst. f_equal. auto.
Qed.

Lemma lex_ident_name_prefix i name rest : lex_ident_name i = LOk name rest -> i = name ++ rest.
Proof.
  intros H. pose proof (lpost_ok_suffix _ _ _ _ _ (lex_ident_name_post i) H) as [p Hp].
  unfold lex_ident_name in H. apply lbind_ok in H. destruct H as ([] & rest0 & _ & H). injection H as <- <-.
  subst i. unfold span_len. rewrite app_length. replace (length p + length rest0 - length rest0)%nat with (length p) by lia.
  rewrite firstn_app, firstn_all, Nat.sub_diag. cbn. now rewrite app_nil_r.
Qed.

Ltac dsc := (cbv beta iota; discriminate).

Section Limit.
Variable sch : scheme.
Variables st1 st2 : settings.
Hypothesis Hstar : st_star_limit st1 = st_star_limit st2.
Hypothesis Hnames : fn_names_ok sch.
Local Notation M2 := (N.to_nat (st_max_depth st2)).

Lemma index_st_indep f d input :
  arg_propagates input = false -> lex_index_expr sch st1 f d input = lex_index_expr sch st2 f d input.
Proof.
  intros Hp. destruct f as [|f]; [reflexivity|]. cbn [lex_index_expr].
  destruct (lex_ident_name input) as [name rest0|k a n| |] eqn:En; try reflexivity.
  destruct (scheme_get sch name) as [[i|i]|] eqn:Eg; try reflexivity.
  - destruct (field_ty sch i); [|reflexivity]. now rewrite (lex_indexes_st sch st1 st2).
  - exfalso. unfold scheme_get in Eg. destruct (find_field name (sc_fields sch) 0); [discriminate|].
    destruct (find_fn name (sc_functions sch) 0) as [j|] eqn:Ef; [|discriminate].
    destruct (find_fn_in _ _ _ _ Ef) as (n' & d' & Hin & He). apply bytes_eqb_eq' in He. subst n'.
    apply lex_ident_name_prefix in En. subst input.
    rewrite (Hnames name d' rest0 Hin) in Hp. discriminate.
Qed.

Lemma call_args_extends f : forall d input def acc l r,
  lex_call_args sch st1 f d input def acc = LOk l r -> exists more, l = acc ++ more.
Proof.
  induction f as [|f IH]; intros d input def acc l r H; [discriminate H|]. cbn [lex_call_args] in H. cbv zeta in H.
  assert (Hfin : forall i, (if Nat.ltb (length acc) (if fn_variadic_same def then 2%nat else length (fn_params def))
                            then LErr EInvalidArgumentsCount i (length i)
                            else lbind (expect [41] i) (fun _ rest => LOk acc rest)) = LOk l r ->
                           exists more, l = acc ++ more).
  { intros i. destruct (Nat.ltb _ _); [intros Hq; discriminate Hq|]. intros Hx. apply lbind_ok in Hx. destruct Hx as (? & ? & _ & Hx).
    injection Hx as <- _. exists []. now rewrite app_nil_r. }
  assert (Hgo : lbind (if Nat.eqb (length acc) 0 then LOk tt input else expect [44] input)
        (fun _ input1 =>
           match lex_arg sch st1 f d (skip_space input1) with
           | LOk a rest =>
               if Nat.ltb 0 (arg_map_each_count a) && negb (Nat.eqb (length acc) 0)
               then LErr EInvalidMapEachAccess (skip_space input1) (span_len (skip_space input1) rest)
               else if negb (fn_variadic_same def)
                       && Nat.leb (length (fn_params def) + length (fn_opt_params def)) (length acc)
               then LErr EInvalidArgumentsCount (skip_space input1) (length (skip_space input1))
               else
                 match ty_arg sch a with
                 | None => LPanic
                 | Some t =>
                     match check_param sch def acc a t with
                     | PcOk => lex_call_args sch st1 f d (skip_space rest) def (acc ++ [a])
                     | PcKind => LErr EInvalidArgumentKind (skip_space input1) (span_len (skip_space input1) rest)
                     | PcType => LErr EInvalidArgumentType (skip_space input1) (span_len (skip_space input1) rest)
                     | PcUnreachable => LPanic
                     end
                 end
           | LErr k a n => LErr k a n
           | LPanic => LPanic
           | LFuel => LFuel
           end) = LOk l r -> exists more, l = acc ++ more).
  { intros Hx. apply lbind_ok in Hx. destruct Hx as ([] & input1 & _ & Hx).
    revert Hx. destruct (lex_arg sch st1 f d (skip_space input1)) as [a rest|k aa n| |]; try dsc.
    destruct (Nat.ltb 0 (arg_map_each_count a) && _); [dsc|]. destruct (negb (fn_variadic_same def) && _); [dsc|].
    destruct (ty_arg sch a); [|dsc]. destruct (check_param sch def acc a t); try dsc.
    intros Hx. apply IH in Hx. destruct Hx as (more & ->). exists (a :: more). now rewrite <- app_assoc. }
  revert H. destruct input as [|b rr]; [apply Hfin|].
  destruct (N.eq_dec b 41) as [->|N41]; [apply Hfin|].
  other_byte b Hgo.
Qed.

Lemma depth_args_in l a : In a l -> (depth_arg a <= depth_args (args_of_list l))%nat.
Proof.
  induction l as [|x l IH]; intros H; [destruct H|]. cbn [args_of_list depth_args].
  destruct H as [->|H]; [lia|]. specialize (IH H). lia.
Qed.

Tactic Notation "lb" hyp(H) ident(x) ident(rest) ident(Hx) :=
  apply lbind_ok in H; destruct H as (x & rest & Hx & H).

Record LIM (f : nat) : Prop := {
  lim_logical : forall d i e r, lex_logical sch st1 f d i = LOk e r ->
      (N.to_nat d + depth_lexpr e <= M2)%nat -> lex_logical sch st2 f d i = LOk e r;
  lim_more : forall d lhs minp la e r, lex_more sch st1 f d lhs minp la = LOk e r ->
      (N.to_nat d + depth_lexpr e <= M2)%nat -> lex_more sch st2 f d lhs minp la = LOk e r;
  lim_inner : forall d rhs rest op p r, lex_inner sch st1 f d rhs rest op = LOk p r ->
      (N.to_nat d + depth_lexpr (fst p) <= M2)%nat -> lex_inner sch st2 f d rhs rest op = LOk p r;
  lim_simple : forall d i e r, lex_simple sch st1 f d i = LOk e r ->
      (N.to_nat d + depth_lexpr e <= M2)%nat -> lex_simple sch st2 f d i = LOk e r;
  lim_index : forall d i e r, lex_index_expr sch st1 f d i = LOk e r ->
      (N.to_nat d + depth_iexpr e <= M2)%nat -> lex_index_expr sch st2 f d i = LOk e r;
  lim_call : forall d i fn a r, lex_call sch st1 f d i fn = LOk a r ->
      (N.to_nat d + depth_args a <= M2)%nat -> lex_call sch st2 f d i fn = LOk a r;
  lim_call_args : forall d i def acc l r, lex_call_args sch st1 f d i def acc = LOk l r ->
      (forall a, In a l -> (N.to_nat d + depth_arg a <= M2)%nat) -> lex_call_args sch st2 f d i def acc = LOk l r;
  lim_arg : forall d i a r, lex_arg sch st1 f d i = LOk a r ->
      (N.to_nat d + depth_arg a <= M2)%nat -> lex_arg sch st2 f d i = LOk a r;
}.

Lemma LIM_0 : LIM 0.
Proof. constructor; intros; discriminate. Qed.

Lemma lt_of_bound d n : (N.to_nat d + S n <= M2)%nat -> d < st_max_depth st2.
Proof. intros H. lia. Qed.

Lemma succ_bound d n : (N.to_nat d + S n <= M2)%nat -> (N.to_nat (d + 1) + n <= M2)%nat.
Proof. intros H. lia. Qed.

Lemma LIM_S f : LIM f -> LIM (S f).
Proof.
  intros IH. constructor.
  - (* logical *)
    intros d i e r H B. cbn [lex_logical] in H |- *. lb H lhs rest0 Hs.
    pose proof (proj1 (chain_depth sch st1 f) _ _ _ _ _ _ H) as Dl.
    rewrite (lim_simple f IH _ _ _ _ Hs ltac:(lia)). cbn [lbind]. apply (lim_more f IH); assumption.
  - (* more *)
    intros d lhs minp [o lrest] e r H B. pose proof H as H0. cbn [lex_more fst snd] in H |- *.
    destruct o as [op|]; [|exact H]. lb H rhs rhs_rest Hs.
    pose proof (more_rhs_depth sch st1 f d lhs minp op lrest e r rhs rhs_rest H0 Hs) as Dr.
    rewrite (lim_simple f IH _ _ _ _ Hs ltac:(lia)). cbn [lbind].
    destruct (lex_inner sch st1 f d rhs rhs_rest op) as [[rhs' la'] rr'|k a n| |] eqn:Ei; try discriminate H.
    destruct (ty_lexpr sch lhs) as [tl|] eqn:Etl; [|discriminate H]. destruct (ty_lexpr sch rhs') as [tr|] eqn:Etr; [|discriminate H].
    destruct (types_combinable tl tr) eqn:Ecb; [|discriminate H].
    pose proof (proj1 (chain_depth sch st1 f) _ _ _ _ _ _ H) as Dc. rewrite depth_combine in Dc.
    rewrite (lim_inner f IH _ _ _ _ _ _ Ei ltac:(cbn [fst]; lia)). rewrite ?Etl, Etr, Ecb.
    apply (lim_more f IH); assumption.
  - (* inner *)
    intros d rhs rest op p r H B. cbn [lex_inner] in H |- *. cbv zeta in H |- *.
    destruct (Nat.leb _ _); [exact H|].
    destruct (lex_more sch st1 f d rhs (fst (lex_combining_op rest)) (lex_combining_op rest)) as [rhs' rest'|k a n| |] eqn:Em;
      try discriminate H.
    pose proof (proj2 (chain_depth sch st1 f) _ _ _ _ _ _ H) as Di.
    rewrite (lim_more f IH _ _ _ _ _ _ Em ltac:(lia)). apply (lim_inner f IH); assumption.
  - (* simple *)
    intros d i e r H B. cbn [lex_simple] in H |- *.
    destruct (starts_with [40] i) as [r0|].
    { lb H d' x Hi. destruct (increase_ok _ _ _ _ _ Hi) as [-> Hlt1]. clear Hi.
      lb H e1 rest1 Hl. lb H u rest2 He. injection H as <- <-. cbn [depth_lexpr] in B.
      rewrite (increase_intro st2 d i (lt_of_bound _ _ B)). cbn [lbind].
      rewrite (lim_logical f IH _ _ _ _ Hl (succ_bound _ _ B)). cbn [lbind]. rewrite He. reflexivity. }
    destruct (lex_alts unary_ops i) as [[u r0]|].
    { lb H d' x Hi. destruct (increase_ok _ _ _ _ _ Hi) as [-> Hlt1]. clear Hi.
      lb H e1 rest1 Hl. injection H as <- <-. cbn [depth_lexpr] in B.
      rewrite (increase_intro st2 d i (lt_of_bound _ _ B)). cbn [lbind].
      rewrite (lim_simple f IH _ _ _ _ Hl (succ_bound _ _ B)). reflexivity. }
    destruct (lex_quant_call i) as [[q r0]|].
    { lb H d' x Hi. destruct (increase_ok _ _ _ _ _ Hi) as [-> Hlt1]. clear Hi.
      lb H u rest1 He. cbv zeta in H |- *.
      destruct (lex_arg sch st1 f (d + 1) (skip_space rest1)) as [a rest2|k aa n| |] eqn:Ea; try discriminate H.
      assert (Hgoal : forall (Ba : (N.to_nat d + S (depth_arg a) <= M2)%nat),
                lbind (increase st2 d (skip_space r0))
                  (fun d'0 _ => lbind (expect [40] (skip_space r0))
                     (fun _ rest3 =>
                        match lex_arg sch st2 f d'0 (skip_space rest3) with
                        | LOk a0 rest4 =>
                            match a0 with
                            | AIndex ie =>
                                if Nat.ltb 0 (map_each_count (iexpr_idx ie))
                                then LErr EInvalidMapEachAccess (skip_space rest3) (span_len (skip_space rest3) rest4)
                                else
                                  match ty_iexpr sch ie with
                                  | Some (TArray TBool) =>
                                      lbind (expect [41] (skip_space rest4)) (fun _ rest5 => LOk (EQuantIndex q ie) rest5)
                                  | Some _ => LErr ETypeMismatch (skip_space rest3) (span_len (skip_space rest3) rest4)
                                  | None => LPanic
                                  end
                            | ALit _ => LErr ETypeMismatch (skip_space rest3) (span_len (skip_space rest3) rest4)
                            | ALogical le =>
                                match ty_lexpr sch le with
                                | Some (TArray TBool) =>
                                    lbind (expect [41] (skip_space rest4)) (fun _ rest5 => LOk (EQuantLogical q le) rest5)
                                | Some _ => LErr ETypeMismatch (skip_space rest3) (span_len (skip_space rest3) rest4)
                                | None => LPanic
                                end
                            end
                        | LErr k a0 n => LErr k a0 n
                        | LPanic => LPanic
                        | LFuel => LFuel
                        end)) = LOk e r).
      { intros Ba. rewrite (increase_intro st2 d _ (lt_of_bound _ _ Ba)). cbn [lbind]. rewrite He. cbn [lbind].
        rewrite (lim_arg f IH _ _ _ _ Ea (succ_bound _ _ Ba)). exact H. }
      destruct a as [ie|lit|le].
      - apply Hgoal. revert H. destruct (Nat.ltb 0 _); [discriminate|].
        destruct (ty_iexpr sch ie) as [[| | | |[]|]|]; try discriminate. intros H. lb H u2 rest3 He2.
        injection H as <- _. cbn [depth_lexpr depth_arg] in *. exact B.
      - discriminate H.
      - apply Hgoal. revert H. destruct (ty_lexpr sch le) as [[| | | |[]|]|]; try discriminate. intros H. lb H u2 rest3 He2.
        injection H as <- _. cbn [depth_lexpr depth_arg] in *. exact B. }
    lb H lhs rest0 Hi. destruct (with_lhs_shape _ _ _ _ _ _ _ _ H) as (op & ->). cbn [depth_lexpr] in B.
    rewrite (lim_index f IH _ _ _ _ Hi B). cbn [lbind]. rewrite <- (with_lhs_st sch st1 st2 f d d rest0 lhs Hstar). exact H.
  - (* index expression *)
    intros d i e r H B. cbn [lex_index_expr] in H |- *.
    destruct (lex_ident_name i) as [name rest0|k a n| |]; try discriminate H.
    destruct (scheme_get sch name) as [[j|j]|]; [| |discriminate H].
    + destruct (field_ty sch j); [|discriminate H]. rewrite (lex_indexes_st sch st2 st1). exact H.
    + destruct (increase st1 d (skip_space rest0)) as [d' x|k a n| |] eqn:Hi; try discriminate H.
      destruct (increase_ok _ _ _ _ _ Hi) as [-> Hlt1].
      destruct (lex_call sch st1 f (d + 1) rest0 j) as [a rest1|k a n| |] eqn:Ec; try discriminate H.
      destruct (ty_call sch j a) as [t|] eqn:Et; [|discriminate H].
      pose proof H as H0. apply lmap_ok in H0. destruct H0 as (idx & _ & ->). cbn [depth_iexpr] in B.
      rewrite (increase_intro st2 d _ (lt_of_bound _ _ B)).
      rewrite (lim_call f IH _ _ _ _ _ Ec (succ_bound _ _ B)). rewrite Et.
      rewrite (lex_indexes_st sch st2 st1). exact H.
  - (* call *)
    intros d i fn a r H B. cbn [lex_call] in H |- *. destruct (fn_of sch fn) as [def|]; [|discriminate H].
    lb H u rest He. rewrite He. cbn [lbind]. pose proof H as H0. apply lmap_ok in H0. destruct H0 as (l & Hl & ->).
    rewrite (lim_call_args f IH _ _ _ _ _ _ Hl); [reflexivity|].
    intros x Hx. pose proof (depth_args_in l x Hx). lia.
  - (* call arguments *)
    intros d i def acc l r H B. cbn [lex_call_args] in H |- *. cbv zeta in H |- *.
    set (GO := fun (st : settings) (input : bytes) =>
      lbind (if Nat.eqb (length acc) 0 then LOk tt input else expect [44] input)
        (fun _ input1 =>
           match lex_arg sch st f d (skip_space input1) with
           | LOk a rest =>
               if Nat.ltb 0 (arg_map_each_count a) && negb (Nat.eqb (length acc) 0)
               then LErr EInvalidMapEachAccess (skip_space input1) (span_len (skip_space input1) rest)
               else if negb (fn_variadic_same def)
                       && Nat.leb (length (fn_params def) + length (fn_opt_params def)) (length acc)
               then LErr EInvalidArgumentsCount (skip_space input1) (length (skip_space input1))
               else
                 match ty_arg sch a with
                 | None => LPanic
                 | Some t =>
                     match check_param sch def acc a t with
                     | PcOk => lex_call_args sch st f d (skip_space rest) def (acc ++ [a])
                     | PcKind => LErr EInvalidArgumentKind (skip_space input1) (span_len (skip_space input1) rest)
                     | PcType => LErr EInvalidArgumentType (skip_space input1) (span_len (skip_space input1) rest)
                     | PcUnreachable => LPanic
                     end
                 end
           | LErr k a n => LErr k a n
           | LPanic => LPanic
           | LFuel => LFuel
           end)).
    assert (Hgo : forall input, GO st1 input = LOk l r -> GO st2 input = LOk l r).
    { intros input Hx. unfold GO in Hx |- *. lb Hx u input1 Hu. rewrite Hu. cbn [lbind].
      destruct (lex_arg sch st1 f d (skip_space input1)) as [a rest|k aa n| |] eqn:Ea; try discriminate Hx.
      revert Hx. destruct (Nat.ltb 0 (arg_map_each_count a) && _) eqn:C1; [discriminate|].
      destruct (negb (fn_variadic_same def) && _) eqn:C2; [discriminate|].
      destruct (ty_arg sch a) as [t|] eqn:Et; [|discriminate].
      destruct (check_param sch def acc a t) eqn:Ecp; try discriminate. intros Hx.
      destruct (call_args_extends _ _ _ _ _ _ _ Hx) as (more & Hl).
      assert (Ba : (N.to_nat d + depth_arg a <= M2)%nat).
      { apply B. rewrite Hl. apply in_or_app. left. apply in_or_app. right. now left. }
      rewrite (lim_arg f IH _ _ _ _ Ea Ba). cbv beta iota. rewrite ?C1. cbv beta iota. rewrite ?C2. cbv beta iota. rewrite Et, Ecp.
      apply (lim_call_args f IH); assumption. }
    revert H. destruct i as [|b rr]; [exact (fun h => h)|].
    destruct (N.eq_dec b 41) as [->|N41]; [exact (fun h => h)|].
    pose proof (Hgo (b :: rr)) as Hg. unfold GO in Hg. clear Hgo.
    destruct b as [|p]; [exact Hg|].
    repeat (destruct p as [p|p|]; try exact Hg; try contradiction).
  - (* argument *)
    intros d i a r H B. cbn [lex_arg] in H |- *.
    pose proof (eq_refl (arg_propagates i)) as Eprop. unfold arg_propagates at 1 in Eprop.
    destruct (first_chars i) as [[c1 c2] c3]. cbv zeta in H |- *.
    set (LIT := match lex_ip i with
                | LOk a rest => LOk (ALit (RIp a)) rest
                | LPanic => LPanic
                | LFuel => LFuel
                | LErr _ _ _ =>
                    match lex_int i with
                    | LOk z rest => LOk (ALit (RInt z)) rest
                    | LPanic => LPanic
                    | LFuel => LFuel
                    | LErr _ _ _ =>
                        match lex_bytes i with
                        | LOk p rest => LOk (ALit (RBytes (fst p) (snd p))) rest
                        | LPanic => LPanic
                        | LFuel => LFuel
                        | LErr _ _ _ => LErr EEOF i (length i)
                        end
                    end
                end) in *.
    set (IDX := fun (st : settings) (propagate : bool) =>
      match lex_index_expr sch st f d i with
      | LOk lhs rest =>
          match lex_alts comparison_ops (skip_space rest) with
          | Some _ => lmap ALogical (lex_with_lhs sch st f d rest lhs)
          | None => LOk (AIndex lhs) rest
          end
      | LErr k a n => if propagate then LErr k a n else LIT
      | LPanic => LPanic
      | LFuel => LFuel
      end).
    assert (Hidx : forall propagate : bool, (propagate = false -> arg_propagates i = false) ->
              IDX st1 propagate = LOk a r -> IDX st2 propagate = LOk a r).
    { intros propagate Hp Hx. unfold IDX in Hx |- *.
      destruct (lex_index_expr sch st1 f d i) as [lhs rest0|k aa n| |] eqn:Ei; try discriminate Hx.
      - assert (Bl : (N.to_nat d + depth_iexpr lhs <= M2)%nat).
        { destruct (lex_alts comparison_ops (skip_space rest0)).
          - apply lmap_ok in Hx. destruct Hx as (e & Hx & ->). destruct (with_lhs_shape _ _ _ _ _ _ _ _ Hx) as (op & ->).
            exact B.
          - injection Hx as <- _. exact B. }
        rewrite (lim_index f IH _ _ _ _ Ei Bl). rewrite <- (with_lhs_st sch st1 st2 f d d rest0 lhs Hstar). exact Hx.
      - destruct propagate; [discriminate Hx|]. rewrite <- (index_st_indep f d i (Hp eq_refl)), Ei. exact Hx. }
    destruct c1 as [b1|].
    2:{ apply (Hidx false); [intros _; symmetry; exact Eprop|exact H]. }
    destruct ((b1 =? 34) || _); [exact H|].
    destruct (_ || _ || _).
    { pose proof H as H0. apply lmap_ok in H0. destruct H0 as (e & He & ->). cbn [depth_arg] in B.
      rewrite (lim_logical f IH _ _ _ _ He B). reflexivity. }
    unfold prop3 in Eprop. match type of Eprop with ?P = _ => destruct P eqn:EP end.
    + apply (Hidx true); [discriminate|exact H].
    + apply (Hidx false); [intros _; symmetry; exact Eprop|exact H].
Qed.

Theorem limit_exact f : LIM f.
Proof. induction f as [|f IH]; [apply LIM_0|now apply LIM_S]. Qed.

End Limit.

(* ---- closed statements ---- *)
Lemma complete_ok {A} (x : lres A) a r : complete x = LOk a r -> x = LOk a [] /\ r = [].
Proof. destruct x as [a' [|b rest]|k s n| |]; cbn; intros H; try discriminate. injection H as <- <-. auto. Qed.

Theorem parse_filter_limit_exact sch st1 st2 text e r :
  st_star_limit st1 = st_star_limit st2 -> fn_names_ok sch ->
  parse_filter sch st1 text = LOk e r -> (depth_lexpr e <= N.to_nat (st_max_depth st2))%nat ->
  parse_filter sch st2 text = LOk e r.
Proof.
  intros Hs Hn H B. unfold parse_filter in H |- *. apply complete_ok in H. destruct H as [H ->].
  apply lbind_ok in H. destruct H as (e0 & rest0 & Hl & H).
  assert (e0 = e /\ rest0 = []) as [-> ->].
  { destruct (ty_lexpr sch e0) as [[]|]; try discriminate H. injection H as <- <-. auto. }
  rewrite (lim_logical sch st1 st2 _ (limit_exact sch st1 st2 Hs Hn _) _ _ _ _ Hl ltac:(cbn; lia)).
  cbn [lbind]. rewrite H. reflexivity.
Qed.

Theorem parse_value_limit_exact sch st1 st2 text e r :
  st_star_limit st1 = st_star_limit st2 -> fn_names_ok sch ->
  parse_value sch st1 text = LOk e r -> (depth_iexpr e <= N.to_nat (st_max_depth st2))%nat ->
  parse_value sch st2 text = LOk e r.
Proof.
  intros Hs Hn H B. unfold parse_value in H |- *. apply complete_ok in H. destruct H as [H ->].
  apply lbind_ok in H. destruct H as (e0 & rest0 & Hl & H).
  assert (e0 = e /\ rest0 = []) as [-> ->].
  { destruct (Nat.ltb 0 _); [discriminate H|]. injection H as <- <-. auto. }
  rewrite (lim_index sch st1 st2 _ (limit_exact sch st1 st2 Hs Hn _) _ _ _ _ Hl ltac:(cbn; lia)).
  cbn [lbind]. rewrite H. reflexivity.
Qed.
