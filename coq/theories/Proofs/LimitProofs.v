(* C13, exactness: the configured nesting limit acts on parsing ONLY as a
   filter on the nesting depth of the result.  For two parser settings that
   differ in nothing but max_nesting_depth: whatever one of them accepts, with
   a result whose nesting is within the other's limit, the other accepts too,
   with the same AST.  One induction on the fuel over the nine parser
   functions.  The only place where a nesting error could be swallowed is the
   literal fall-back of FunctionCallArgExpr::lex_with, taken when the first
   characters of the argument do not look like an identifier; the scheme
   condition [fn_names_ok] (every function name looks like an identifier to
   that test within its first three characters) excludes it. *)
From Coq Require Import List ZArith NArith Bool Lia Arith.
From WF Require Import Base.Bytes Sem.RangeSet Sem.Matchers Lang.Types Lang.Ast Lang.Context
     Sem.Compile Spec.Typing Spec.C13 Parse.Lex Parse.Parser
     Proofs.TypingProofs Proofs.ParserProofs Proofs.LexFacts Proofs.FuelProofs.
Import ListNotations.
Local Notation length := List.length (only parsing).
Local Open Scope N_scope.
Local Arguments regex_compile : simpl never.
Local Arguments wildcard_compile : simpl never.

(* ---- the identifier test of FunctionCallArgExpr::lex_with on the first three characters ---- *)
Definition prop3 (c1 c2 c3 : option N) : bool :=
  one_ascii c1 c_is_field
  || (one_ascii c1 c_is_field_or_int && one_ascii c2 c_is_field)
  || (one_ascii c1 c_is_field_or_int && one_ascii c2 c_is_field_or_int && one_ascii c3 c_is_field).
Definition arg_propagates (input : bytes) : bool :=
  let '(c1, c2, c3) := first_chars input in prop3 c1 c2 c3.

(* every function name, followed by anything, passes the identifier test *)
Definition fn_names_ok (sch : scheme) : Prop :=
  forall n d rest, In (n, d) (sc_functions sch) -> arg_propagates (n ++ rest) = true.

Lemma char_len_ascii b : is_ascii b = true -> char_len b = 1%nat.
Proof. unfold is_ascii, char_len. intros ->. reflexivity. Qed.

Lemma next_char_ascii_cons b s : is_ascii b = true -> next_char (b :: s) = Some ([b], s).
Proof. intros H. unfold next_char. rewrite (char_len_ascii b H). reflexivity. Qed.

(* sufficient, checkable criteria: a character that can only belong to an identifier
   (a letter outside a-f / A-F, or `_`) among the first three characters of the name,
   preceded by letters, digits or `_` *)
Definition name_ok1 (n : bytes) : bool :=
  match n with b1 :: _ => is_ascii b1 && c_is_field b1 | _ => false end.
Definition name_ok2 (n : bytes) : bool :=
  match n with
  | b1 :: b2 :: _ => is_ascii b1 && c_is_field_or_int b1 && (is_ascii b2 && c_is_field b2)
  | _ => false
  end.
Definition name_ok3 (n : bytes) : bool :=
  match n with
  | b1 :: b2 :: b3 :: _ =>
      is_ascii b1 && c_is_field_or_int b1 && (is_ascii b2 && c_is_field_or_int b2) && (is_ascii b3 && c_is_field b3)
  | _ => false
  end.

Lemma name_ok_propagates n rest : name_ok1 n || name_ok2 n || name_ok3 n = true -> arg_propagates (n ++ rest) = true.
Proof.
  intros H. apply orb_true_iff in H. destruct H as [H|H]; [apply orb_true_iff in H; destruct H as [H|H]|].
  - destruct n as [|b1 n1]; [discriminate|]. cbn [name_ok1] in H. apply andb_true_iff in H. destruct H as [A1 F1].
    unfold arg_propagates, first_chars. cbn [app]. rewrite (next_char_ascii_cons b1 _ A1).
    destruct (next_char (n1 ++ rest)) as [[c2 r2]|]; [destruct (next_char r2) as [[c3 r3]|]|];
      cbn [hd_error]; unfold prop3; cbn [one_ascii]; rewrite A1, F1; reflexivity.
  - destruct n as [|b1 [|b2 n2]]; try discriminate. cbn [name_ok2] in H.
    apply andb_true_iff in H. destruct H as [H H2]. apply andb_true_iff in H. destruct H as [A1 F1].
    apply andb_true_iff in H2. destruct H2 as [A2 F2].
    unfold arg_propagates, first_chars. cbn [app]. rewrite (next_char_ascii_cons b1 _ A1), (next_char_ascii_cons b2 _ A2).
    destruct (next_char (n2 ++ rest)) as [[c3 r3]|]; cbn [hd_error]; unfold prop3; cbn [one_ascii];
      rewrite A1, F1, A2, F2; cbn [andb]; now rewrite orb_true_r.
  - destruct n as [|b1 [|b2 [|b3 n3]]]; try discriminate. cbn [name_ok3] in H.
    apply andb_true_iff in H. destruct H as [H H3]. apply andb_true_iff in H. destruct H as [H H2].
    apply andb_true_iff in H. destruct H as [A1 F1]. apply andb_true_iff in H2. destruct H2 as [A2 F2].
    apply andb_true_iff in H3. destruct H3 as [A3 F3].
    unfold arg_propagates, first_chars. cbn [app].
    rewrite (next_char_ascii_cons b1 _ A1), (next_char_ascii_cons b2 _ A2), (next_char_ascii_cons b3 _ A3).
    cbn [hd_error]. unfold prop3. cbn [one_ascii]. rewrite A1, F1, A2, F2, A3, F3. cbn [andb]. now rewrite !orb_true_r.
Qed.

Lemma fn_names_ok_of_test sch :
  forallb (fun p : bytes * fn_def => name_ok1 (fst p) || name_ok2 (fst p) || name_ok3 (fst p)) (sc_functions sch) = true ->
  fn_names_ok sch.
Proof.
  intros H n d rest Hin. rewrite forallb_forall in H. apply name_ok_propagates. exact (H (n, d) Hin).
Qed.
