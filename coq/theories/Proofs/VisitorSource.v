(* C12, the tie to the source text (soundness half): every field identifier in
   the AST that the parser model returns was read by the identifier lexer at
   some position of the input and resolved to that field by the scheme.  Hence
   uses(name) = true implies that the name is written in the text at a place
   where the identifier lexer reads exactly it.

   One induction on the fuel over the nine mutually recursive functions of
   Parse/Parser.v, in the style of Proofs/ParserProofs.v but without typing:
   [spost w P r] says that a successful result satisfies P and leaves a suffix
   of the whole input w. *)
From Coq Require Import List ZArith NArith Bool Lia Arith.
From WF Require Import Base.Bytes Sem.RangeSet Sem.Matchers Lang.Types Lang.Ast Lang.Context
     Sem.Compile Parse.Lex Parse.Parser Proofs.ParserProofs Proofs.LexFacts Proofs.ParserClosed
     Sem.Visitor Spec.C12 Proofs.VisitorProofs.
Import ListNotations.
Local Notation length := List.length (only parsing).

Definition spost {A} (w : bytes) (P : A -> Prop) (r : lres A) : Prop :=
  match r with
  | LOk a rest => P a /\ suffix rest w
  | _ => True
  end.

Lemma spost_of_lpost {A} w (P : A -> Prop) r : lpost w P r -> spost w P r.
Proof. destruct r as [a rest|k at_ n| |]; cbn; auto. Qed.

Lemma spost_weaken {A} (i w : bytes) (P Q : A -> Prop) r :
  spost i P r -> suffix i w -> (forall a, P a -> Q a) -> spost w Q r.
Proof.
  destruct r as [a rest|k at_ n| |]; cbn; auto.
  intros [H1 H2] Hs HPQ. split; [auto|]. eapply suffix_trans; eauto.
Qed.

Lemma spost_bind {A B} w (P : A -> Prop) (Q : B -> Prop) r k :
  spost w P r -> (forall a rest, P a -> suffix rest w -> spost w Q (k a rest)) -> spost w Q (lbind r k).
Proof. destruct r as [a rest|k0 at_ n| |]; cbn; auto. intros [H1 H2] Hk. now apply Hk. Qed.

Lemma spost_map {A B} w (P : A -> Prop) (Q : B -> Prop) (f : A -> B) r :
  spost w P r -> (forall a, P a -> Q (f a)) -> spost w Q (lmap f r).
Proof. intros H HPQ. unfold lmap. eapply spost_bind; [exact H|]. intros a rest Ha Hs. cbn. auto. Qed.

(* a character-level lexer: only the suffix matters *)
Lemma spost_leaf {A} (i w : bytes) (P : A -> Prop) r :
  lpost i P r -> suffix i w -> spost w (fun _ => True) r.
Proof. intros H Hs. eapply spost_weaken; [apply spost_of_lpost; exact H|exact Hs|auto]. Qed.

(* ---- occurrences in built nodes ---- *)
Lemma lexprs_of_to_list items : lexprs_of_list (lexprs_to_list items) = items.
Proof. induction items as [|e r IH]; cbn; [reflexivity|now rewrite IH]. Qed.

Lemma hit_lexprs_of_list i l :
  hit i (nodes_ls (lexprs_of_list l)) = existsb (fun e => hit i (nodes_l e)) l.
Proof. induction l as [|e r IH]; cbn [lexprs_of_list nodes_ls existsb]; [reflexivity|]. now rewrite hit_app, IH. Qed.

Lemma hit_args_of_list i l :
  hit i (nodes_as (args_of_list l)) = existsb (fun a => hit i (nodes_a a)) l.
Proof. induction l as [|a r IH]; cbn [args_of_list nodes_as existsb]; [reflexivity|]. now rewrite hit_app, IH. Qed.

Section Source.
Variable sch : scheme.
Variable st : settings.
Variable w : bytes.

(* field i is read as an identifier somewhere in w *)
Definition site (i : nat) : Prop :=
  exists sfx name after,
    suffix sfx w /\ lex_ident_name sfx = LOk name after /\ scheme_get sch name = Some (IdField i).

Definition okL (e : lexpr) : Prop := forall i, hit i (nodes_l e) = true -> site i.
Definition okLs (l : lexprs) : Prop := forall i, hit i (nodes_ls l) = true -> site i.
Definition okI (e : iexpr) : Prop := forall i, hit i (nodes_i e) = true -> site i.
Definition okA (a : arg) : Prop := forall i, hit i (nodes_a a) = true -> site i.
Definition okC (a : args) : Prop := forall i, hit i (nodes_as a) = true -> site i.

Lemma okL_cmp lhs op : okI lhs -> okL (EComparison lhs op).
Proof. intros H i Hi. apply H. exact Hi. Qed.
Lemma okL_paren e : okL e -> okL (EParen e).
Proof. intros H i Hi. apply H. exact Hi. Qed.
Lemma okL_not e : okL e -> okL (ENot e).
Proof. intros H i Hi. apply H. exact Hi. Qed.
Lemma okL_qi q a : okI a -> okL (EQuantIndex q a).
Proof. intros H i Hi. apply H. exact Hi. Qed.
Lemma okL_ql q a : okL a -> okL (EQuantLogical q a).
Proof. intros H i Hi. apply H. exact Hi. Qed.
Lemma okL_comb op items : okLs items -> okL (ECombining op items).
Proof. intros H i Hi. apply H. exact Hi. Qed.
Lemma okL_comb_inv op items : okL (ECombining op items) -> okLs items.
Proof. intros H i Hi. apply H. exact Hi. Qed.

Lemma okLs_of_list l : Forall okL l -> okLs (lexprs_of_list l).
Proof.
  intros H i Hi. rewrite hit_lexprs_of_list in Hi. apply existsb_exists in Hi.
  destruct Hi as (e & He & Hh). rewrite Forall_forall in H. exact (H e He i Hh).
Qed.

Lemma okLs_to_list items : okLs items -> Forall okL (lexprs_to_list items).
Proof.
  intros H. apply Forall_forall. intros e He i Hi. apply H.
  rewrite <- (lexprs_of_to_list items), hit_lexprs_of_list. apply existsb_exists. eauto.
Qed.

Lemma okL_combine lhs op rhs : okL lhs -> okL rhs -> okL (combine lhs op rhs).
Proof.
  intros Hl Hr. assert (Hpair : okL (ECombining op (LCons lhs (LCons rhs LNil)))).
  { apply okL_comb. apply (okLs_of_list [lhs; rhs]). repeat constructor; assumption. }
  unfold combine. destruct lhs as [o items| | | | |]; try exact Hpair.
  destruct (same_logop o op); [|exact Hpair].
  apply okL_comb, okLs_of_list, Forall_app. split.
  - apply okLs_to_list. now apply okL_comb_inv in Hl.
  - constructor; [exact Hr|constructor].
Qed.

Lemma okI_call fn a idx : okC a -> okI (ICall fn a idx).
Proof. intros H i Hi. apply H. exact Hi. Qed.
Lemma okC_of_list l : Forall okA l -> okC (args_of_list l).
Proof.
  intros H i Hi. rewrite hit_args_of_list in Hi. apply existsb_exists in Hi.
  destruct Hi as (a & Ha & Hh). rewrite Forall_forall in H. exact (H a Ha i Hh).
Qed.
Lemma okA_index e : okI e -> okA (AIndex e).
Proof. intros H i Hi. apply H. exact Hi. Qed.
Lemma okA_logical e : okL e -> okA (ALogical e).
Proof. intros H i Hi. apply H. exact Hi. Qed.
Lemma okA_lit r : okA (ALit r).
Proof. intros i Hi. discriminate Hi. Qed.

Record IHs (f : nat) : Prop := {
  ih_logical : forall d input, suffix input w -> spost w okL (lex_logical sch st f d input);
  ih_more : forall d lhs minp la, okL lhs -> suffix (snd la) w ->
      spost w okL (lex_more sch st f d lhs minp la);
  ih_inner : forall d rhs rest op, okL rhs -> suffix rest w ->
      spost w (fun p : lexpr * (option logop * bytes) => okL (fst p) /\ suffix (snd (snd p)) w)
            (lex_inner sch st f d rhs rest op);
  ih_simple : forall d input, suffix input w -> spost w okL (lex_simple sch st f d input);
  ih_with_lhs : forall d input lhs, okI lhs -> suffix input w ->
      spost w okL (lex_with_lhs sch st f d input lhs);
  ih_index : forall d input, suffix input w -> spost w okI (lex_index_expr sch st f d input);
  ih_call : forall d input fn, suffix input w -> spost w okC (lex_call sch st f d input fn);
  ih_call_args : forall d input def acc, Forall okA acc -> suffix input w ->
      spost w (Forall okA) (lex_call_args sch st f d input def acc);
  ih_arg : forall d input, suffix input w -> spost w okA (lex_arg sch st f d input);
}.

Lemma IHs_0 : IHs 0.
Proof. constructor; intros; exact I. Qed.

Ltac sfx :=
  repeat first
    [ assumption
    | apply suffix_refl
    | match goal with
      | |- suffix (skip_space _) _ => eapply suffix_trans; [apply skip_space_suffix|]
      | H : starts_with _ ?i = Some ?r |- suffix ?r _ => eapply suffix_trans; [exact (starts_with_suffix _ _ _ H)|]
      | H : lex_alts _ ?i = Some (_, ?r) |- suffix ?r _ => eapply suffix_trans; [exact (lex_alts_suffix _ _ _ _ H)|]
      | H : lex_quant_call ?i = Some (_, ?r) |- suffix ?r _ => eapply suffix_trans; [exact (quant_call_suffix _ _ _ H)|]
      | |- suffix (snd (lex_combining_op _)) _ => eapply suffix_trans; [apply combining_suffix|]
      end ].

Ltac bindS lem :=
  eapply spost_bind; [eapply spost_leaf; [apply lem|sfx]|];
  intros ?x ?rest _ ?Hrest.

Lemma step_logical f : IHs f -> forall d input, suffix input w ->
  spost w okL (lex_logical sch st (S f) d input).
Proof.
  intros H d input Hs. cbn [lex_logical].
  eapply spost_bind; [apply (ih_simple f H); assumption|].
  intros lhs rest Hl Hr. apply (ih_more f H); [assumption|sfx].
Qed.

Lemma step_more f : IHs f -> forall d lhs minp la, okL lhs -> suffix (snd la) w ->
  spost w okL (lex_more sch st (S f) d lhs minp la).
Proof.
  intros H d lhs minp la Hl Hs. cbn [lex_more]. destruct (fst la) as [op|].
  2:{ cbn. split; assumption. }
  eapply spost_bind; [apply (ih_simple f H); assumption|].
  intros rhs rhs_rest Hrhs Hrr.
  pose proof (ih_inner f H d rhs rhs_rest op Hrhs Hrr) as Hin.
  destruct (lex_inner sch st f d rhs rhs_rest op) as [[rhs' la'] rr'|k a n| |]; cbn [spost] in Hin |- *; auto.
  destruct Hin as [[Hrhs' Hla'] Hrr']. cbn [fst snd] in *.
  destruct (ty_lexpr sch lhs) as [tl|]; [|exact I]. destruct (ty_lexpr sch rhs') as [tr|]; [|exact I].
  destruct (types_combinable tl tr); [|exact I].
  apply (ih_more f H); [now apply okL_combine|].
  destruct (Nat.ltb _ _); cbn [snd]; assumption.
Qed.

Lemma step_inner f : IHs f -> forall d rhs rest op, okL rhs -> suffix rest w ->
  spost w (fun p : lexpr * (option logop * bytes) => okL (fst p) /\ suffix (snd (snd p)) w)
        (lex_inner sch st (S f) d rhs rest op).
Proof.
  intros H d rhs rest op Hrhs Hs. cbn [lex_inner]. cbv zeta.
  destruct (Nat.leb _ _).
  - cbn. split; [split; [assumption|sfx]|assumption].
  - pose proof (ih_more f H d rhs (fst (lex_combining_op rest)) (lex_combining_op rest) Hrhs) as Hm.
    destruct (lex_more sch st f d rhs (fst (lex_combining_op rest)) (lex_combining_op rest)) as [rhs' rest'|k a n| |];
      cbn [spost] in Hm |- *; try exact I.
    destruct Hm as [H1 H2]; [sfx|]. apply (ih_inner f H); assumption.
Qed.

Lemma increase_cases d at_ :
  increase st d at_ = LOk (d + 1)%N [] \/ exists k a n, increase st d at_ = LErr k a n.
Proof. unfold increase. destruct (N.leb _ _); [right; eauto|left; reflexivity]. Qed.

Lemma step_simple f : IHs f -> forall d input, suffix input w ->
  spost w okL (lex_simple sch st (S f) d input).
Proof.
  intros H d input Hs. cbn [lex_simple].
  destruct (starts_with [40] input) as [rest|] eqn:E1.
  { destruct (increase_cases d input) as [-> |(k & a & n & ->)]; cbn [lbind]; [|exact I].
    eapply spost_bind; [apply (ih_logical f H); sfx|].
    intros e rest1 He Hr1. bindS expect_post. cbn. split; [now apply okL_paren|assumption]. }
  destruct (lex_alts unary_ops input) as [[u rest]|] eqn:E2.
  { destruct (increase_cases d input) as [-> |(k & a & n & ->)]; cbn [lbind]; [|exact I].
    eapply spost_bind; [apply (ih_simple f H); sfx|].
    intros e rest1 He Hr1. cbn. split; [now apply okL_not|assumption]. }
  destruct (lex_quant_call input) as [[q rest]|] eqn:E3.
  { destruct (increase_cases d (skip_space rest)) as [-> |(k & a & n & ->)]; cbn [lbind]; [|exact I].
    bindS expect_post. cbv zeta.
    assert (Hai : suffix (skip_space rest0) w) by sfx.
    pose proof (ih_arg f H (d + 1)%N (skip_space rest0) Hai) as Ha.
    destruct (lex_arg sch st f (d + 1) (skip_space rest0)) as [a rest2|k at_ n| |]; cbn [spost] in Ha |- *; auto.
    destruct Ha as [Hoka Hr2].
    assert (Hdone : forall e, okL e ->
              spost w okL (lbind (expect [41] (skip_space rest2)) (fun _ rest3 => LOk e rest3))).
    { intros e He. bindS expect_post. cbn. auto. }
    destruct a as [ie|r|le].
    - destruct (Nat.ltb 0 (map_each_count (iexpr_idx ie))); [exact I|].
      destruct (ty_iexpr sch ie) as [[| | | |[]|]|]; try exact I.
      apply Hdone, okL_qi. exact Hoka.
    - exact I.
    - destruct (ty_lexpr sch le) as [[| | | |[]|]|]; try exact I.
      apply Hdone, okL_ql. exact Hoka. }
  eapply spost_bind; [apply (ih_index f H); assumption|].
  intros lhs rest Hl Hr. apply (ih_with_lhs f H); assumption.
Qed.

Lemma lex_indexes_spost t fuel input : suffix input w ->
  spost w (fun _ => True) (lex_indexes sch st fuel input t []).
Proof.
  intros Hs. eapply spost_weaken; [apply spost_of_lpost, (lex_indexes_post lexers_ok sch st w t fuel input t [])| |auto].
  - exact Hs.
  - reflexivity.
  - apply suffix_refl.
Qed.

Lemma step_index f : IHs f -> forall d input, suffix input w ->
  spost w okI (lex_index_expr sch st (S f) d input).
Proof.
  intros H d input Hs. cbn [lex_index_expr].
  pose proof (lex_ident_name_post input) as Hn.
  destruct (lex_ident_name input) as [name rest|k at_ n| |] eqn:En; cbn [lpost] in Hn; try exact I.
  destruct Hn as [_ Hr]. assert (Hrw : suffix rest w) by (eapply suffix_trans; eauto).
  destruct (scheme_get sch name) as [[i|i]|] eqn:Eg; [| |exact I].
  - destruct (field_ty sch i) as [t|]; [|exact I].
    eapply spost_map; [apply lex_indexes_spost; exact Hrw|].
    intros idx _ j Hj. cbn in Hj. rewrite orb_false_r in Hj. apply Nat.eqb_eq in Hj. subst j.
    exists input, name, rest. auto.
  - destruct (increase_cases d (skip_space rest)) as [-> |(k & a & n & ->)]; [|exact I].
    pose proof (ih_call f H (d + 1)%N rest i Hrw) as Hc.
    destruct (lex_call sch st f (d + 1) rest i) as [a rest1|k at_ n| |]; cbn [spost] in Hc |- *; auto.
    destruct Hc as [Hoka Hr1]. destruct (ty_call sch i a) as [t|]; [|exact I].
    eapply spost_map; [apply lex_indexes_spost; exact Hr1|].
    intros idx _. now apply okI_call.
Qed.

Lemma step_call f : IHs f -> forall d input fn, suffix input w ->
  spost w okC (lex_call sch st (S f) d input fn).
Proof.
  intros H d input fn Hs. cbn [lex_call]. destruct (fn_of sch fn) as [def|]; [|exact I].
  bindS expect_post. eapply spost_map.
  { apply (ih_call_args f H d (skip_space rest) def []); [constructor|sfx]. }
  intros l Hl. now apply okC_of_list.
Qed.

Lemma step_call_args f : IHs f -> forall d input def acc, Forall okA acc -> suffix input w ->
  spost w (Forall okA) (lex_call_args sch st (S f) d input def acc).
Proof.
  intros H d input def acc Hacc Hs. cbn [lex_call_args]. cbv zeta.
  assert (Hfin : forall i, suffix i w ->
     spost w (Forall okA)
       (if Nat.ltb (length acc) (if fn_variadic_same def then 2%nat else length (fn_params def))
        then LErr EInvalidArgumentsCount i (length i)
        else lbind (expect [41] i) (fun _ rest => LOk acc rest))).
  { intros i Hi. destruct (Nat.ltb _ _); [exact I|]. bindS expect_post. cbn. auto. }
  assert (Hgo : forall i, suffix i w ->
     spost w (Forall okA)
      (lbind (if Nat.eqb (length acc) 0 then LOk tt i else expect [44] i)
        (fun _ input1 =>
           match lex_arg sch st f d (skip_space input1) with
           | LOk a rest =>
               if Nat.ltb 0 (arg_map_each_count a) && negb (Nat.eqb (length acc) 0)
               then LErr EInvalidMapEachAccess (skip_space input1) (span_len (skip_space input1) rest)
               else if negb (fn_variadic_same def)
                       && Nat.leb (length (fn_params def) + length (fn_opt_params def)) (length acc)
               then LErr EInvalidArgumentsCount (skip_space input1) (length (skip_space input1))
               else
                 match ty_arg sch a with
                 | None => LPanic
                 | Some t =>
                     match check_param sch def acc a t with
                     | PcOk => lex_call_args sch st f d (skip_space rest) def (acc ++ [a])
                     | PcKind => LErr EInvalidArgumentKind (skip_space input1) (span_len (skip_space input1) rest)
                     | PcType => LErr EInvalidArgumentType (skip_space input1) (span_len (skip_space input1) rest)
                     | PcUnreachable => LPanic
                     end
                 end
           | LErr k a n => LErr k a n
           | LPanic => LPanic
           | LFuel => LFuel
           end))).
  { intros i Hi. apply spost_bind with (P := fun _ : unit => True).
    { destruct (Nat.eqb (length acc) 0); [cbn; auto|]. eapply spost_leaf; [apply expect_post|exact Hi]. }
    intros _ input1 _ Hi1. assert (Hi2 : suffix (skip_space input1) w) by sfx.
    pose proof (ih_arg f H d (skip_space input1) Hi2) as Ha.
    destruct (lex_arg sch st f d (skip_space input1)) as [a rest|k at_ n| |]; cbn [spost] in Ha |- *; auto.
    destruct Ha as [Hoka Hr].
    destruct (_ && _); [exact I|]. destruct (_ && _); [exact I|].
    destruct (ty_arg sch a) as [t|]; [|exact I].
    destruct (check_param sch def acc a t); try exact I.
    apply (ih_call_args f H); [|sfx]. apply Forall_app. split; [assumption|]. constructor; [exact Hoka|constructor]. }
  destruct input as [|b r]; [apply Hfin; assumption|].
  destruct (N.eq_dec b 41) as [->|N41]; [apply Hfin; assumption|].
  destruct b as [|p]; [apply Hgo; assumption|].
  repeat (destruct p as [p|p|]; try (apply Hgo; assumption); try contradiction).
Qed.

Local Arguments regex_compile : simpl never.
Local Arguments wparse : simpl never.
Local Arguments wildcard_compile : simpl never.

Lemma step_with_lhs f : IHs f -> forall d input lhs, okI lhs -> suffix input w ->
  spost w okL (lex_with_lhs sch st (S f) d input lhs).
Proof.
  intros H d input lhs Hlhs Hs. cbn [lex_with_lhs]. cbv zeta.
  assert (Hres : forall op rest, suffix rest w -> spost w okL (LOk (EComparison lhs op) rest)).
  { intros op rest Hr. cbn. split; [now apply okL_cmp|assumption]. }
  assert (Hinit : suffix (skip_space input) w) by sfx.
  destruct (ty_iexpr sch lhs) as [t|]; [|exact I].
  assert (Hlist : forall i, suffix i w ->
            spost w okL
              (lbind (lex_list_name i) (fun name rest =>
                 match list_index sch t with
                 | Some li => LOk (EComparison lhs (CInList li name)) rest
                 | None => LErr EUnsupportedOp (skip_space input) (span_len (skip_space input) rest)
                 end))).
  { intros i Hi. bindS lex_list_name_post. destruct (list_index sch t); [now apply Hres|exact I]. }
  destruct t as [| | | |e|e].
  - now apply Hres.
  - destruct (lex_alts comparison_ops (skip_space input)) as [[op after_op]|] eqn:Eop; [|exact I].
    assert (Hao : suffix (skip_space after_op) w) by sfx.
    destruct op; cbn [negb]; try exact I.
    + destruct (starts_with [36] (skip_space after_op)); [now apply Hlist|].
      eapply spost_bind; [apply spost_of_lpost, (brace_list_post (fun _ => True)); [apply lex_bytes_post|assumption]|].
      intros l rest _ Hr. now apply Hres.
    + eapply spost_bind; [eapply spost_leaf; [apply (lex_rhs_post lexers_ok); auto|sfx]|].
      intros r rest _ Hr. now apply Hres.
    + bindS lex_bytes_post. now apply Hres.
    + bindS (lex_regex_post lexers_ok). now apply Hres.
    + bindS (lex_wildcard_post lexers_ok st). now apply Hres.
    + bindS (lex_wildcard_post lexers_ok st). now apply Hres.
  - destruct (lex_alts comparison_ops (skip_space input)) as [[op after_op]|] eqn:Eop; [|exact I].
    assert (Hao : suffix (skip_space after_op) w) by sfx.
    destruct op; cbn [negb]; try exact I.
    + destruct (starts_with [36] (skip_space after_op)); [now apply Hlist|].
      eapply spost_bind; [apply spost_of_lpost, (brace_list_post (fun _ => True)); [apply lex_int_range_post|assumption]|].
      intros l rest _ Hr. now apply Hres.
    + eapply spost_bind; [eapply spost_leaf; [apply (lex_rhs_post lexers_ok); auto|sfx]|].
      intros r rest _ Hr. now apply Hres.
    + bindS lex_int_post. now apply Hres.
  - destruct (lex_alts comparison_ops (skip_space input)) as [[op after_op]|] eqn:Eop; [|exact I].
    assert (Hao : suffix (skip_space after_op) w) by sfx.
    destruct op; cbn [negb]; try exact I.
    + destruct (starts_with [36] (skip_space after_op)); [now apply Hlist|].
      eapply spost_bind; [apply spost_of_lpost; eapply brace_list_post; [apply lex_ip_range_post|assumption]|].
      intros l rest _ Hr. now apply Hres.
    + eapply spost_bind; [eapply spost_leaf; [apply (lex_rhs_post lexers_ok); auto|sfx]|].
      intros r rest _ Hr. now apply Hres.
  - destruct e;
      try (destruct (lex_alts comparison_ops (skip_space input)) as [[op after_op]|] eqn:Eop; [|exact I];
           destruct op; cbn [negb]; exact I).
    destruct (Nat.ltb 0 (map_each_count (iexpr_idx lhs))); [exact I|]. now apply Hres.
  - destruct e;
      try (destruct (lex_alts comparison_ops (skip_space input)) as [[op after_op]|] eqn:Eop; [|exact I];
           destruct op; cbn [negb]; exact I).
    destruct (Nat.ltb 0 (map_each_count (iexpr_idx lhs))); [exact I|]. now apply Hres.
Qed.

Lemma step_arg f : IHs f -> forall d input, suffix input w ->
  spost w okA (lex_arg sch st (S f) d input).
Proof.
  intros H d input Hs. cbn [lex_arg]. destruct (first_chars input) as [[c1 c2] c3]. cbv zeta.
  assert (Hlit : spost w okA
    (match lex_ip input with
     | LOk a rest => LOk (ALit (RIp a)) rest
     | LPanic => LPanic
     | LFuel => LFuel
     | LErr _ _ _ =>
         match lex_int input with
         | LOk z rest => LOk (ALit (RInt z)) rest
         | LPanic => LPanic
         | LFuel => LFuel
         | LErr _ _ _ =>
             match lex_bytes input with
             | LOk p rest => LOk (ALit (RBytes (fst p) (snd p))) rest
             | LPanic => LPanic
             | LFuel => LFuel
             | LErr _ _ _ => LErr EEOF input (length input)
             end
         end
     end)).
  { pose proof (spost_leaf _ w _ _ (lex_ip_post input) Hs) as H1.
    destruct (lex_ip input); cbn [spost] in H1 |- *; auto.
    { destruct H1. split; [apply okA_lit|assumption]. }
    pose proof (spost_leaf _ w _ _ (lex_int_post input) Hs) as H2.
    destruct (lex_int input); cbn [spost] in H2 |- *; auto.
    { destruct H2. split; [apply okA_lit|assumption]. }
    pose proof (spost_leaf _ w _ _ (lex_bytes_post input) Hs) as H3.
    destruct (lex_bytes input); cbn [spost] in H3 |- *; auto.
    destruct H3. split; [apply okA_lit|assumption]. }
  assert (Hidx : forall propagate, spost w okA
    (match lex_index_expr sch st f d input with
     | LOk lhs rest =>
         match lex_alts comparison_ops (skip_space rest) with
         | Some _ => lmap ALogical (lex_with_lhs sch st f d rest lhs)
         | None => LOk (AIndex lhs) rest
         end
     | LErr k a n => if propagate : bool then LErr k a n else
         (match lex_ip input with
          | LOk a rest => LOk (ALit (RIp a)) rest
          | LPanic => LPanic
          | LFuel => LFuel
          | LErr _ _ _ =>
              match lex_int input with
              | LOk z rest => LOk (ALit (RInt z)) rest
              | LPanic => LPanic
              | LFuel => LFuel
              | LErr _ _ _ =>
                  match lex_bytes input with
                  | LOk p rest => LOk (ALit (RBytes (fst p) (snd p))) rest
                  | LPanic => LPanic
                  | LFuel => LFuel
                  | LErr _ _ _ => LErr EEOF input (length input)
                  end
              end
          end)
     | LPanic => LPanic
     | LFuel => LFuel
     end)).
  { intros propagate. pose proof (ih_index f H d input Hs) as Hi.
    destruct (lex_index_expr sch st f d input) as [lhs rest|k a n| |]; cbn [spost] in Hi; auto.
    - destruct Hi as [Hl Hr]. destruct (lex_alts comparison_ops (skip_space rest)).
      + eapply spost_map; [apply (ih_with_lhs f H); assumption|]. intros e He. now apply okA_logical.
      + cbn. split; [now apply okA_index|assumption].
    - destruct propagate; [exact I|exact Hlit]. }
  destruct c1 as [b1|]; [|apply (Hidx false)].
  destruct ((b1 =? 34)%N || _).
  { eapply spost_map; [eapply spost_leaf; [apply lex_bytes_post|assumption]|].
    intros p _. apply okA_lit. }
  destruct (_ || _ || _).
  { eapply spost_map; [apply (ih_logical f H); assumption|]. intros e He. now apply okA_logical. }
  destruct (_ || _ || _); [apply (Hidx true)|apply (Hidx false)].
Qed.

Lemma IHs_S f : IHs f -> IHs (S f).
Proof.
  intros H. constructor.
  - apply step_logical; assumption.
  - apply step_more; assumption.
  - apply step_inner; assumption.
  - apply step_simple; assumption.
  - apply step_with_lhs; assumption.
  - apply step_index; assumption.
  - apply step_call; assumption.
  - apply step_call_args; assumption.
  - apply step_arg; assumption.
Qed.

Theorem parser_sites f : IHs f.
Proof. induction f as [|f IH]; [apply IHs_0|now apply IHs_S]. Qed.

End Source.

(* ---- closed statements ---- *)

Lemma lex_ident_name_split input name after :
  lex_ident_name input = LOk name after -> input = name ++ after.
Proof.
  unfold lex_ident_name. pose proof (ident_go_post input (S (length input)) input (suffix_refl _)) as Hp.
  destruct (ident_go (S (length input)) input) as [u rest|k a n| |]; cbn [lbind]; try discriminate.
  cbn [lpost] in Hp. destruct Hp as [_ [p Hp]]. intros Heq. injection Heq as <- <-.
  unfold span_len. rewrite Hp at 1 2 3. rewrite app_length, Nat.add_sub, firstn_app, Nat.sub_diag, firstn_all.
  cbn [firstn]. now rewrite app_nil_r.
Qed.

Lemma site_written sch w i :
  site sch w i ->
  exists before name after,
    names_field sch name i /\ lex_ident_name (name ++ after) = LOk name after /\ w = before ++ name ++ after.
Proof.
  intros (sfx & name & after & [p Hp] & Hl & Hg).
  pose proof (lex_ident_name_split _ _ _ Hl) as Hsplit. subst sfx.
  exists p, name, after. split; [|split; [exact Hl|exact Hp]].
  apply get_field_some. unfold get_field. now rewrite Hg.
Qed.

Lemma complete_ok {A} (r : lres A) a rest : complete r = LOk a rest -> exists rest', r = LOk a rest'.
Proof.
  destruct r as [a' [|b rest']|k at_ n| |]; cbn; intros Heq; try discriminate.
  injection Heq as <- <-. eauto.
Qed.

Theorem filter_idents_in_source sch st text e rest i :
  parse_filter sch st text = LOk e rest -> occurs i (NL e) ->
  exists before name after,
    names_field sch name i /\ lex_ident_name (name ++ after) = LOk name after /\
    trim text = before ++ name ++ after.
Proof.
  intros Hp Ho. unfold parse_filter in Hp. apply complete_ok in Hp. destruct Hp as [rest' Hp].
  pose proof (ih_logical sch st (trim text) _ (parser_sites sch st (trim text) (8 * length (trim text) + 16))
                0%N (trim text) (suffix_refl _)) as Hs.
  destruct (lex_logical sch st (8 * length (trim text) + 16) 0 (trim text)) as [e' r'|k a n| |];
    cbn [lbind] in Hp; try discriminate.
  cbn [spost] in Hs. destruct Hs as [Hok _].
  destruct (ty_lexpr sch e') as [[]|]; try discriminate. injection Hp as <- _.
  apply site_written, Hok. apply occursb_iff in Ho. exact Ho.
Qed.

Theorem value_idents_in_source sch st text e rest i :
  parse_value sch st text = LOk e rest -> occurs i (NI e) ->
  exists before name after,
    names_field sch name i /\ lex_ident_name (name ++ after) = LOk name after /\
    trim text = before ++ name ++ after.
Proof.
  intros Hp Ho. unfold parse_value in Hp. apply complete_ok in Hp. destruct Hp as [rest' Hp].
  pose proof (ih_index sch st (trim text) _ (parser_sites sch st (trim text) (8 * length (trim text) + 16))
                0%N (trim text) (suffix_refl _)) as Hs.
  destruct (lex_index_expr sch st (8 * length (trim text) + 16) 0 (trim text)) as [e' r'|k a n| |];
    cbn [lbind] in Hp; try discriminate.
  cbn [spost] in Hs. destruct Hs as [Hok _].
  destruct (Nat.ltb 0 (map_each_count (iexpr_idx e'))); try discriminate. injection Hp as <- _.
  apply site_written, Hok. apply occursb_iff in Ho. exact Ho.
Qed.

(* ---- uses = true => the parse depends on the field's name ---- *)
Lemma skipn_nth {A} (l : list A) : forall i x, nth_error l i = Some x -> skipn i l = x :: skipn (S i) l.
Proof.
  induction l as [|y r IH]; intros [|i] x Hx; cbn in Hx; try discriminate.
  - now injection Hx as ->.
  - cbn [skipn]. now apply IH.
Qed.

Lemma rename_nth sch i fresh fd :
  nth_error (sc_fields sch) i = Some fd ->
  nth_error (sc_fields (rename_field sch i fresh)) i =
  Some {| fd_name := fresh; fd_ty := fd_ty fd; fd_optional := fd_optional fd |}.
Proof.
  intros Hn. unfold rename_field. cbn [sc_fields].
  assert (Hlt : (i < length (sc_fields sch))%nat) by (apply nth_error_Some; congruence).
  rewrite nth_error_app2; rewrite firstn_length_le by lia; [|lia].
  rewrite Nat.sub_diag, (skipn_nth _ _ _ Hn). reflexivity.
Qed.

Theorem uses_true_source_mentions sch st text e i fd :
  names_unique sch -> parse_filter sch st text = LOk e [] -> nth_error (sc_fields sch) i = Some fd ->
  filter_uses sch e (fd_name fd) = Some true -> source_mentions sch st text i.
Proof.
  intros Hu Hp Hn Huse fresh Hfresh Heq. rewrite Hp in Heq.
  assert (Hg : get_field sch (fd_name fd) = Some i).
  { apply get_field_complete; [exact Hu|]. exists fd. now split. }
  unfold filter_uses in Huse. rewrite Hg in Huse. cbn [option_map] in Huse. injection Huse as Huse.
  apply uses_filter_spec in Huse.
  destruct (filter_idents_in_source _ _ _ _ _ _ Heq Huse) as (before & name & after & Hnf & _ & Htrim).
  destruct Hnf as (fd' & Hn' & Hname). rewrite (rename_nth _ _ _ _ Hn) in Hn'. injection Hn' as <-.
  cbn [fd_name] in Hname. subst name. apply Hfresh.
  destruct (trim_infix text) as (a & b & Ht). exists (a ++ before), (after ++ b).
  rewrite Ht at 1. rewrite Htrim. now rewrite !app_assoc.
Qed.
