(* Proofs about the panic catcher model (C19).
   Part 1: the interpreter over program trees (one thread).
   Part 2: the step machine computes what the interpreter computes.
   Part 3: two threads; the installation race; the repaired design. *)
From Coq Require Import List NArith Bool Lia Arith.
From WF Require Import Sem.Panic Spec.C19.
Import ListNotations.
Open Scope N_scope.

Scheme step_mut := Induction for step Sort Prop
with prog_mut := Induction for prog Sort Prop.
Combined Scheme step_prog_ind from step_mut, prog_mut.

(* ------------------------------------------------------------------------ *)
(* Part 1 *)

Lemma run_hook_state h ts m ev ts' :
  run_hook h ts m = (ev, Some ts') ->
  level ts' = level ts /\ enabled ts' = enabled ts /\ fb ts' = fb ts /\
  (last ts' = last ts \/ last ts' = Some m).
Proof.
  revert ev ts'. induction h as [| |next IH]; intros ev ts' H; cbn [run_hook] in H.
  - inversion H; subst. auto.
  - inversion H; subst. auto.
  - destruct (0 <? level ts).
    + inversion H; subst. cbn. auto.
    + destruct (fb ts); [eauto|discriminate].
Qed.

Lemma start_catching_some ts c ts1 :
  start_catching ts = Some (c, ts1) ->
  c = enabled ts /\ ts1 = (if c then set_level ts (level ts + 1) else ts).
Proof.
  unfold start_catching. destruct (enabled ts).
  - destruct (level ts <? u64_max); [|discriminate]. intros H; inversion H; auto.
  - intros H; inversion H; auto.
Qed.

Definition not_aborted (o : outcome) : Prop :=
  match o with Aborted _ => False | _ => True end.

(* (a) the nesting level after any step / program is the level before it, on
   the returning and on the panicking path. *)
Lemma level_balanced_mut :
  (forall s g ts ev o ts' g', run_step g ts s = (ev, o, ts', g') -> not_aborted o -> level ts' = level ts) /\
  (forall p g ts ev o ts' g', run_prog g ts p = (ev, o, ts', g') -> not_aborted o -> level ts' = level ts).
Proof.
  apply step_prog_ind.
  - intros g ts ev o ts' g' H _. cbn in H. inversion H; subst. reflexivity.
  - intros g ts ev o ts' g' H _. cbn in H. inversion H; subst. reflexivity.
  - intros g ts ev o ts' g' H _. cbn in H. inversion H; subst. reflexivity.
  - intros f g ts ev o ts' g' H _. cbn in H. inversion H; subst. reflexivity.
  - intros g ts ev o ts' g' H _. cbn in H. inversion H; subst. reflexivity.
  - intros g ts ev o ts' g' H _. cbn in H. inversion H; subst. reflexivity.
  - intros m g ts ev o ts' g' H Hna. cbn [run_step] in H. unfold do_panic in H.
    destruct (run_hook (cur g) ts m) as [ev0 [ts0|]] eqn:Eh.
    + inversion H; subst. apply run_hook_state in Eh. tauto.
    + inversion H; subst. contradiction.
  - intros p IH g ts ev o ts' g' H Hna. cbn [run_step] in H.
    destruct (start_catching ts) as [[c ts1]|] eqn:Es.
    + apply start_catching_some in Es. destruct Es as [Hc Hts1].
      destruct (run_prog g ts1 p) as [[[ev1 o1] ts2] g2] eqn:Er.
      specialize (IH g ts1 ev1 o1 ts2 g2 Er).
      unfold finish_catch in H. destruct c.
      * destruct o1 as [|m1|w1].
        -- unfold stop_catching in H. destruct (level ts2 =? 0) eqn:E0.
           ++ inversion H; subst. contradiction.
           ++ inversion H; subst. cbn. rewrite IH by exact I. cbn. lia.
        -- unfold stop_catching in H. destruct (level ts2 =? 0) eqn:E0.
           ++ inversion H; subst. contradiction.
           ++ inversion H; subst. cbn. rewrite IH by exact I. cbn. lia.
        -- inversion H; subst. contradiction.
      * subst ts1. destruct o1 as [|m1|w1]; inversion H; subst; auto.
    + inversion H; subst. contradiction.
  - intros g ts ev o ts' g' H _. cbn in H. inversion H; subst. reflexivity.
  - intros s IHs p IHp g ts ev o ts' g' H Hna. cbn [run_prog] in H.
    destruct (run_step g ts s) as [[[ev1 o1] ts1] g1] eqn:Es.
    destruct o1 as [|m1|w1].
    + destruct (run_prog g1 ts1 p) as [[[ev2 o2] ts2] g2] eqn:Ep.
      inversion H; subst.
      rewrite (IHp _ _ _ _ _ _ Ep Hna). exact (IHs _ _ _ _ _ _ Es I).
    + inversion H; subst. exact (IHs _ _ _ _ _ _ Es I).
    + inversion H; subst. contradiction.
Qed.

(* The global state changes only through the installation. *)
Lemma install_hook_idem g : install_hook (install_hook g) = install_hook g.
Proof. unfold install_hook. destruct (flag g) eqn:E; cbn; [rewrite E|]; reflexivity. Qed.

Lemma run_gstate_mut :
  (forall s g ts ev o ts' g', run_step g ts s = (ev, o, ts', g') -> g' = g \/ g' = install_hook g) /\
  (forall p g ts ev o ts' g', run_prog g ts p = (ev, o, ts', g') -> g' = g \/ g' = install_hook g).
Proof.
  apply step_prog_ind.
  - intros g ts ev o ts' g' H. cbn in H. inversion H; auto.
  - intros g ts ev o ts' g' H. cbn in H. inversion H; auto.
  - intros g ts ev o ts' g' H. cbn in H. inversion H; auto.
  - intros f g ts ev o ts' g' H. cbn in H. inversion H; auto.
  - intros g ts ev o ts' g' H. cbn in H. inversion H; auto.
  - intros g ts ev o ts' g' H. cbn in H. inversion H; auto.
  - intros m g ts ev o ts' g' H. cbn [run_step] in H. unfold do_panic in H.
    destruct (run_hook (cur g) ts m) as [ev0 [ts0|]]; inversion H; auto.
  - intros p IH g ts ev o ts' g' H. cbn [run_step] in H.
    destruct (start_catching ts) as [[c ts1]|].
    + destruct (run_prog g ts1 p) as [[[ev1 o1] ts2] g2] eqn:Er.
      specialize (IH _ _ _ _ _ _ Er). unfold finish_catch in H.
      destruct c; destruct o1 as [|m1|w1]; try destruct (stop_catching ts2);
        inversion H; subst; exact IH.
    + inversion H; auto.
  - intros g ts ev o ts' g' H. cbn in H. inversion H; auto.
  - intros s IHs p IHp g ts ev o ts' g' H. cbn [run_prog] in H.
    destruct (run_step g ts s) as [[[ev1 o1] ts1] g1] eqn:Es.
    specialize (IHs _ _ _ _ _ _ Es).
    destruct o1 as [|m1|w1].
    + destruct (run_prog g1 ts1 p) as [[[ev2 o2] ts2] g2] eqn:Ep.
      specialize (IHp _ _ _ _ _ _ Ep). inversion H; subst.
      destruct IHs as [-> | ->]; destruct IHp as [-> | ->]; auto.
      right. apply install_hook_idem.
    + inversion H; subst. exact IHs.
    + inversion H; subst. exact IHs.
Qed.

Definition ours (g : gstate) : Prop := exists h, cur g = HOurs h.

Lemma ours_install g : ours g -> ours (install_hook g).
Proof. intros [h Hh]. unfold install_hook. destruct (flag g); [exists h; exact Hh|]. cbn. eexists; reflexivity. Qed.

Lemma installed_install g : installed g -> installed (install_hook g).
Proof.
  unfold installed, install_hook. intros H. destruct (flag g); [exact H|]. cbn.
  destruct (cur g); cbn; tauto.
Qed.

Lemma installed_ours g : installed g -> ours g.
Proof. unfold installed, ours. destruct (cur g) as [| |h]; try contradiction. eauto. Qed.

Lemma run_prog_ours p g ts ev o ts' g' :
  run_prog g ts p = (ev, o, ts', g') -> ours g -> ours g'.
Proof. intros H Ho. destruct (proj2 run_gstate_mut _ _ _ _ _ _ _ H) as [-> | ->]; auto using ours_install. Qed.

Lemma run_step_ours s g ts ev o ts' g' :
  run_step g ts s = (ev, o, ts', g') -> ours g -> ours g'.
Proof. intros H Ho. destruct (proj1 run_gstate_mut _ _ _ _ _ _ _ H) as [-> | ->]; auto using ours_install. Qed.

Lemma run_prog_installed p g ts ev o ts' g' :
  run_prog g ts p = (ev, o, ts', g') -> installed g -> installed g'.
Proof. intros H Ho. destruct (proj2 run_gstate_mut _ _ _ _ _ _ _ H) as [-> | ->]; auto using installed_install. Qed.

(* With our hook current, a panic that escapes a piece of program running at
   level > 0 is the last one recorded. *)
Lemma unwound_records_mut :
  (forall s g ts ev m ts' g', run_step g ts s = (ev, Unwound m, ts', g') ->
     ours g -> 0 < level ts -> last ts' = Some m) /\
  (forall p g ts ev m ts' g', run_prog g ts p = (ev, Unwound m, ts', g') ->
     ours g -> 0 < level ts -> last ts' = Some m).
Proof.
  apply step_prog_ind.
  - intros g ts ev m ts' g' H. cbn in H. inversion H.
  - intros g ts ev m ts' g' H. cbn in H. inversion H.
  - intros g ts ev m ts' g' H. cbn in H. inversion H.
  - intros f g ts ev m ts' g' H. cbn in H. inversion H.
  - intros g ts ev m ts' g' H. cbn in H. inversion H.
  - intros g ts ev m ts' g' H. cbn in H. inversion H.
  - intros m0 g ts ev m ts' g' H [h Hh] Hl. cbn [run_step] in H. unfold do_panic in H.
    rewrite Hh in H. cbn [run_hook] in H.
    apply N.ltb_lt in Hl. rewrite Hl in H. inversion H; subst. reflexivity.
  - intros p IH g ts ev m ts' g' H Ho Hl. cbn [run_step] in H.
    destruct (start_catching ts) as [[c ts1]|] eqn:Es; [|inversion H].
    apply start_catching_some in Es. destruct Es as [Hc Hts1].
    destruct (run_prog g ts1 p) as [[[ev1 o1] ts2] g2] eqn:Er.
    unfold finish_catch in H. destruct c.
    + destruct o1 as [|m1|w1]; try destruct (stop_catching ts2); inversion H.
    + subst ts1. destruct o1 as [|m1|w1]; inversion H; subst.
      exact (IH _ _ _ _ _ _ Er Ho Hl).
  - intros g ts ev m ts' g' H. cbn in H. inversion H.
  - intros s IHs p IHp g ts ev m ts' g' H Ho Hl. cbn [run_prog] in H.
    destruct (run_step g ts s) as [[[ev1 o1] ts1] g1] eqn:Es.
    destruct o1 as [|m1|w1].
    + destruct (run_prog g1 ts1 p) as [[[ev2 o2] ts2] g2] eqn:Ep.
      inversion H; subst.
      apply (IHp _ _ _ _ _ _ Ep).
      * exact (run_step_ours _ _ _ _ _ _ _ Es Ho).
      * rewrite (proj1 level_balanced_mut _ _ _ _ _ _ _ Es I). exact Hl.
    + inversion H; subst. exact (IHs _ _ _ _ _ _ Es Ho Hl).
    + inversion H.
Qed.

(* (b) what catch_panic returns, at any level and for any body. *)
Lemma catch_result_enabled p g ts ev o ts2 g2 :
  ours g -> enabled ts = true -> level ts < u64_max ->
  run_prog g (set_level ts (level ts + 1)) p = (ev, o, ts2, g2) ->
  match o with
  | Returned =>
      run_step g ts (Catch p) = (EEnter :: ev ++ [EExit ROk], Returned, set_level ts2 (level ts), g2)
  | Unwound m =>
      run_step g ts (Catch p) = (EEnter :: ev ++ [EExit (RErr (Some m))], Returned, set_level ts2 (level ts), g2)
      /\ last ts2 = Some m
  | Aborted w =>
      run_step g ts (Catch p) = (EEnter :: ev, Aborted w, ts2, g2)
  end.
Proof.
  intros Ho He Hl Hr. cbn [run_step]. unfold start_catching. rewrite He.
  apply N.ltb_lt in Hl. rewrite Hl. rewrite Hr. unfold finish_catch.
  destruct o as [|m|w]; [| |reflexivity].
  - pose proof (proj2 level_balanced_mut _ _ _ _ _ _ _ Hr I) as Hb. cbn in Hb.
    unfold stop_catching. replace (level ts2 =? 0) with false by (symmetry; apply N.eqb_neq; lia).
    rewrite Hb. replace (level ts + 1 - 1) with (level ts) by lia. reflexivity.
  - pose proof (proj2 level_balanced_mut _ _ _ _ _ _ _ Hr I) as Hb. cbn in Hb.
    assert (Hm : last ts2 = Some m).
    { apply (proj2 unwound_records_mut _ _ _ _ _ _ _ Hr Ho). cbn. lia. }
    unfold stop_catching. replace (level ts2 =? 0) with false by (symmetry; apply N.eqb_neq; lia).
    rewrite Hb. replace (level ts + 1 - 1) with (level ts) by lia. cbn [last set_level].
    rewrite Hm. split; reflexivity.
Qed.

Lemma catch_result_disabled p g ts ev o ts2 g2 :
  enabled ts = false ->
  run_prog g ts p = (ev, o, ts2, g2) ->
  run_step g ts (Catch p) =
    match o with
    | Returned => (EEnter :: ev ++ [EExit ROk], Returned, ts2, g2)
    | _ => (EEnter :: ev, o, ts2, g2)
    end.
Proof.
  intros He Hr. cbn [run_step]. unfold start_catching. rewrite He, Hr.
  unfold finish_catch. destruct o; reflexivity.
Qed.

(* (c) a panic outside catch_panic reaches the previous hook. *)
Lemma run_hook_reaches_prev h ts m :
  reaches_prev h -> level ts = 0 -> fb ts = Continue -> run_hook h ts m = ([EPrev m], Some ts).
Proof.
  intros Hr Hl Hf. induction h as [| |next IH]; cbn in Hr |- *; try contradiction; [reflexivity|].
  rewrite Hl, Hf. cbn. auto.
Qed.

Lemma panic_outside_reaches_prev g ts m :
  installed g -> level ts = 0 -> fb ts = Continue ->
  run_step g ts (Panic m) = ([EPanic m; EPrev m], Unwound m, ts, g).
Proof.
  intros Hi Hl Hf. cbn [run_step]. unfold do_panic.
  assert (Hr : reaches_prev (cur g)).
  { unfold installed in Hi. destruct (cur g); cbn; auto. }
  rewrite (run_hook_reaches_prev _ _ _ Hr Hl Hf). reflexivity.
Qed.

Lemma outside_reaches_previous_hook p g ts ev o ts' g' m :
  installed g -> level ts = 0 ->
  run_prog g ts p = (ev, o, ts', g') -> not_aborted o ->
  installed g' /\ level ts' = 0 /\
  run_prog g' ts' (PCons (SetFallback Continue) (PCons (Panic m) PNil)) =
    ([EFallback (fb ts'); EPanic m; EPrev m], Unwound m, set_fb ts' Continue, g').
Proof.
  intros Hi Hl Hr Hna.
  pose proof (run_prog_installed _ _ _ _ _ _ _ Hr Hi) as Hi'.
  pose proof (proj2 level_balanced_mut _ _ _ _ _ _ _ Hr Hna) as Hb. rewrite Hl in Hb.
  repeat split; try assumption.
  cbn [run_prog]. cbn [run_step].
  change (do_panic g' (set_fb ts' Continue) m) with (run_step g' (set_fb ts' Continue) (Panic m)).
  rewrite panic_outside_reaches_prev by (auto). reflexivity.
Qed.

(* The model equals the specification, for every program, as long as the u64
   counter has room for the program's deepest nesting. *)
Lemma conc_abs ts : conc (level ts) (abs ts) = ts.
Proof. destruct ts; reflexivity. Qed.

Lemma stop_catching_conc l a : stop_catching (conc (l + 1) a) = Some (conc l a).
Proof.
  unfold stop_catching, conc, set_level. cbn.
  replace (l + 1 =? 0) with false by (symmetry; apply N.eqb_neq; lia).
  replace (l + 1 - 1) with l by lia. reflexivity.
Qed.

Lemma model_refines_spec_mut :
  (forall s g ts, installed g -> level ts + step_depth s <= u64_max ->
     forall ev o a', spec_step (level ts) (abs ts) s = (ev, o, a') ->
     exists ts' g', run_step g ts s = (ev, conc_outcome o, ts', g') /\ installed g' /\
                    (o <> SAborted -> ts' = conc (level ts) a')) /\
  (forall p g ts, installed g -> level ts + prog_depth p <= u64_max ->
     forall ev o a', spec_prog (level ts) (abs ts) p = (ev, o, a') ->
     exists ts' g', run_prog g ts p = (ev, conc_outcome o, ts', g') /\ installed g' /\
                    (o <> SAborted -> ts' = conc (level ts) a')).
Proof.
  apply step_prog_ind.
  - intros g ts Hi _ ev o a' H. cbn in H. inversion H; subst. cbn.
    eexists; eexists; split; [reflexivity|]. split; [exact Hi|]. intros _. destruct ts; reflexivity.
  - intros g ts Hi _ ev o a' H. cbn in H. inversion H; subst. cbn.
    eexists; eexists; split; [reflexivity|]. split; [exact Hi|]. intros _. destruct ts; reflexivity.
  - intros g ts Hi _ ev o a' H. cbn in H. inversion H; subst. cbn.
    eexists; eexists; split; [reflexivity|]. split; [exact (installed_install _ Hi)|].
    intros _. destruct ts; reflexivity.
  - intros f g ts Hi _ ev o a' H. cbn in H. inversion H; subst. cbn.
    eexists; eexists; split; [reflexivity|]. split; [exact Hi|]. intros _. destruct ts; reflexivity.
  - intros g ts Hi _ ev o a' H. cbn in H. inversion H; subst. cbn.
    eexists; eexists; split; [reflexivity|]. split; [exact Hi|]. intros _. destruct ts; reflexivity.
  - intros g ts Hi _ ev o a' H. cbn in H. inversion H; subst. cbn.
    eexists; eexists; split; [reflexivity|]. split; [exact Hi|]. intros _. destruct ts; reflexivity.
  - intros m g ts Hi _ ev o a' H. cbn [spec_step] in H. unfold spec_panic in H.
    cbn [run_step]. unfold do_panic.
    pose proof Hi as Hi0. unfold installed in Hi0. destruct (cur g) as [| |next] eqn:Ec; try contradiction.
    cbn [run_hook]. destruct (0 <? level ts) eqn:El.
    + inversion H; subst. cbn. eexists; eexists; split; [reflexivity|]. split; [exact Hi|].
      intros _. destruct ts; reflexivity.
    + apply N.ltb_ge in El. assert (El0 : level ts = 0) by lia.
      cbn [abs a_fb] in H. destruct (fb ts) eqn:Ef.
      * rewrite (run_hook_reaches_prev _ _ _ Hi0 El0 Ef). inversion H; subst. cbn.
        eexists; eexists; split; [reflexivity|]. split; [exact Hi|]. intros _.
        destruct ts; cbn in *; subst; reflexivity.
      * inversion H; subst. cbn. eexists; eexists; split; [reflexivity|]. split; [exact Hi|].
        intros Hc; contradiction.
  - intros p IH g ts Hi Hd ev o a' H. cbn [step_depth] in Hd. cbn [spec_step] in H.
    cbn [abs a_enabled] in H. cbn [run_step]. unfold start_catching.
    destruct (enabled ts) eqn:Ee.
    + replace (level ts <? u64_max) with true by (symmetry; apply N.ltb_lt; lia).
      set (ts1 := set_level ts (level ts + 1)).
      destruct (spec_prog (level ts + 1) (abs ts) p) as [[ev1 o1] a1] eqn:Es.
      assert (Hd1 : level ts1 + prog_depth p <= u64_max) by (cbn; lia).
      destruct (IH g ts1 Hi Hd1 ev1 o1 a1 Es) as (ts2 & g2 & Hr & Hi2 & Hst).
      rewrite Hr. unfold spec_catch in H. unfold finish_catch.
      destruct o1 as [|m1|].
      * inversion H; subst. cbn [conc_outcome].
        rewrite (Hst ltac:(discriminate)). cbn [level ts1 set_level].
        rewrite stop_catching_conc.
        eexists; eexists; split; [reflexivity|]. split; [exact Hi2|]. intros _. reflexivity.
      * inversion H; subst. cbn [conc_outcome].
        pose proof (proj2 unwound_records_mut _ _ _ _ _ _ _ Hr (installed_ours _ Hi)) as Hm.
        specialize (Hm ltac:(cbn; lia)).
        rewrite (Hst ltac:(discriminate)) in Hm |- *. cbn [level ts1 set_level last conc] in Hm |- *.
        rewrite stop_catching_conc. cbn [last conc]. rewrite Hm.
        eexists; eexists; split; [reflexivity|]. split; [exact Hi2|]. intros _. reflexivity.
      * inversion H; subst. cbn [conc_outcome].
        eexists; eexists; split; [reflexivity|]. split; [exact Hi2|]. intros Hc; contradiction.
    + destruct (spec_prog (level ts) (abs ts) p) as [[ev1 o1] a1] eqn:Es.
      assert (Hd1 : level ts + prog_depth p <= u64_max) by lia.
      destruct (IH g ts Hi Hd1 ev1 o1 a1 Es) as (ts2 & g2 & Hr & Hi2 & Hst).
      rewrite Hr. unfold spec_catch in H. unfold finish_catch.
      destruct o1 as [|m1|]; inversion H; subst; cbn [conc_outcome];
        eexists; eexists; (split; [reflexivity|]); (split; [exact Hi2|]); exact Hst.
  - intros g ts Hi _ ev o a' H. cbn in H. inversion H; subst. cbn.
    eexists; eexists; split; [reflexivity|]. split; [exact Hi|]. intros _. symmetry; apply conc_abs.
  - intros s IHs p IHp g ts Hi Hd ev o a' H. cbn [prog_depth] in Hd. cbn [spec_prog] in H.
    destruct (spec_step (level ts) (abs ts) s) as [[ev1 o1] a1] eqn:Es.
    assert (Hd1 : level ts + step_depth s <= u64_max) by lia.
    destruct (IHs g ts Hi Hd1 ev1 o1 a1 Es) as (ts1 & g1 & Hr1 & Hi1 & Hst1).
    cbn [run_prog]. rewrite Hr1.
    destruct o1 as [|m1|].
    + cbn [conc_outcome]. specialize (Hst1 ltac:(discriminate)).
      assert (Hl1 : level ts1 = level ts) by (rewrite Hst1; reflexivity).
      assert (Ha1 : abs ts1 = a1) by (rewrite Hst1; destruct a1; reflexivity).
      destruct (spec_prog (level ts) a1 p) as [[ev2 o2] a2] eqn:Ep.
      rewrite <- Hl1, <- Ha1 in Ep.
      assert (Hd2 : level ts1 + prog_depth p <= u64_max) by lia.
      destruct (IHp g1 ts1 Hi1 Hd2 ev2 o2 a2 Ep) as (ts2 & g2 & Hr2 & Hi2 & Hst2).
      rewrite Hr2. inversion H; subst.
      eexists; eexists; split; [reflexivity|]. split; [exact Hi2|]. rewrite <- Hl1. exact Hst2.
    + inversion H; subst. cbn [conc_outcome].
      eexists; eexists; split; [reflexivity|]. split; [exact Hi1|]. exact Hst1.
    + inversion H; subst. cbn [conc_outcome].
      eexists; eexists; split; [reflexivity|]. split; [exact Hi1|]. exact Hst1.
Qed.

(* ------------------------------------------------------------------------ *)
(* Part 2: the step machine, run alone, computes the interpreter's result. *)

Inductive steps (d : design) : gstate * thread -> gstate * thread -> Prop :=
| steps_refl c : steps d c c
| steps_step g t c : steps d (tstep d g t) c -> steps d (g, t) c.

Lemma steps_trans d c1 c2 c3 : steps d c1 c2 -> steps d c2 c3 -> steps d c1 c3.
Proof.
  intros H12 H23. induction H12 as [c|g t c H IH]; [exact H23|].
  apply steps_step. exact (IH H23).
Qed.

Lemma steps_one d g t : steps d (g, t) (tstep d g t).
Proof. apply steps_step. apply steps_refl. Qed.

Lemma unwind_skip_items m ts p k tr : unwind m ts (items_of p ++ k) tr = unwind m ts k tr.
Proof. induction p as [|s p IH]; [reflexivity|exact IH]. Qed.

Definition status_of (o : outcome) : status :=
  match o with Returned => Running | Unwound m => Dead m | Aborted w => Crashed w end.

(* Where the machine stands after the code whose interpretation is
   (ev, o, ts') has run in front of the continuation k. *)
Definition after (o : outcome) (ts' : tstate) (k : list item) (tr : list event) (t : thread) : Prop :=
  match o with
  | Returned => t = mk_thread ts' k tr Running
  | Unwound m => t = unwind m ts' k tr
  | Aborted w => exists k', t = mk_thread ts' k' tr (Crashed w)
  end.

Ltac one_step := apply steps_step; cbn; apply steps_refl.

Lemma machine_simulates_mut :
  (forall s d g ts k tr ev o ts' g', run_step g ts s = (ev, o, ts', g') ->
     exists t, steps d (g, mk_thread ts (IStep s :: k) tr Running) (g', t) /\ after o ts' k (tr ++ ev) t) /\
  (forall p d g ts k tr ev o ts' g', run_prog g ts p = (ev, o, ts', g') ->
     exists t, steps d (g, mk_thread ts (items_of p ++ k) tr Running) (g', t) /\ after o ts' k (tr ++ ev) t).
Proof.
  apply step_prog_ind.
  - intros d g ts k tr ev o ts' g' H. cbn in H. inversion H; subst.
    eexists; split; [one_step|]. reflexivity.
  - intros d g ts k tr ev o ts' g' H. cbn in H. inversion H; subst.
    eexists; split; [one_step|]. reflexivity.
  - intros d g ts k tr ev o ts' g' H. cbn in H. inversion H; subst.
    destruct d.
    + unfold install_hook. destruct (flag g) eqn:Ef.
      * eexists; split; [apply steps_step; cbn; rewrite Ef; apply steps_refl|]. reflexivity.
      * eexists; split.
        -- apply steps_step. cbn. rewrite Ef. apply steps_step. cbn. one_step.
        -- reflexivity.
    + eexists; split; [one_step|]. reflexivity.
  - intros f d g ts k tr ev o ts' g' H. cbn in H. inversion H; subst.
    eexists; split; [one_step|]. reflexivity.
  - intros d g ts k tr ev o ts' g' H. cbn in H. inversion H; subst.
    eexists; split; [one_step|]. reflexivity.
  - intros d g ts k tr ev o ts' g' H. cbn in H. inversion H; subst.
    eexists; split; [one_step|]. reflexivity.
  - intros m d g ts k tr ev o ts' g' H. cbn [run_step] in H. unfold do_panic in H.
    destruct (run_hook (cur g) ts m) as [ev0 [ts0|]] eqn:Eh; inversion H; subst.
    + eexists; split; [apply steps_step; cbn; rewrite Eh; apply steps_refl|]. reflexivity.
    + eexists; split; [apply steps_step; cbn; rewrite Eh; apply steps_refl|]. eexists; reflexivity.
  - intros p IH d g ts k tr ev o ts' g' H. cbn [run_step] in H.
    destruct (start_catching ts) as [[c ts1]|] eqn:Es.
    + destruct (run_prog g ts1 p) as [[[ev1 o1] ts2] g2] eqn:Er.
      destruct (IH d g ts1 (IExit c :: k) (tr ++ [EEnter]) _ _ _ _ Er) as (t1 & Hs1 & Ha1).
      assert (Hfirst : tstep d g (mk_thread ts (IStep (Catch p) :: k) tr Running)
                       = (g, mk_thread ts1 (items_of p ++ IExit c :: k) (tr ++ [EEnter]) Running)).
      { cbn. rewrite Es. reflexivity. }
      assert (Htr : forall l, (tr ++ [EEnter]) ++ l = tr ++ EEnter :: l).
      { intros l. rewrite <- app_assoc. reflexivity. }
      unfold finish_catch in H. destruct c.
      * destruct o1 as [|m1|w1].
        -- cbn [after] in Ha1. subst t1.
           destruct (stop_catching ts2) as [ts3|] eqn:Est; inversion H; subst.
           ++ eexists; split.
              ** apply steps_step. rewrite Hfirst. eapply steps_trans; [exact Hs1|].
                 apply steps_step; cbn; rewrite Est; apply steps_refl.
              ** cbn. rewrite Htr, <- app_assoc. reflexivity.
           ++ eexists; split.
              ** apply steps_step. rewrite Hfirst. eapply steps_trans; [exact Hs1|].
                 apply steps_step; cbn; rewrite Est; apply steps_refl.
              ** cbn. rewrite Htr. eexists; reflexivity.
        -- cbn [after unwind] in Ha1. subst t1.
           destruct (stop_catching ts2) as [ts3|] eqn:Est; inversion H; subst.
           ++ eexists; split.
              ** apply steps_step. rewrite Hfirst. exact Hs1.
              ** cbn. rewrite Htr, <- app_assoc. reflexivity.
           ++ eexists; split.
              ** apply steps_step. rewrite Hfirst. exact Hs1.
              ** cbn. rewrite Htr. eexists; reflexivity.
        -- inversion H; subst. destruct Ha1 as [k' Hk']. subst t1.
           eexists; split.
           ++ apply steps_step. rewrite Hfirst. exact Hs1.
           ++ cbn. rewrite Htr. eexists; reflexivity.
      * destruct o1 as [|m1|w1]; inversion H; subst.
        -- cbn [after] in Ha1. subst t1. eexists; split.
           ++ apply steps_step. rewrite Hfirst. eapply steps_trans; [exact Hs1|]. one_step.
           ++ cbn. rewrite Htr, <- app_assoc. reflexivity.
        -- cbn [after unwind] in Ha1. subst t1. eexists; split.
           ++ apply steps_step. rewrite Hfirst. exact Hs1.
           ++ cbn. rewrite Htr. reflexivity.
        -- destruct Ha1 as [k' Hk']. subst t1. eexists; split.
           ++ apply steps_step. rewrite Hfirst. exact Hs1.
           ++ cbn. rewrite Htr. eexists; reflexivity.
    + inversion H; subst. eexists; split; [apply steps_step; cbn; rewrite Es; apply steps_refl|].
      cbn. rewrite app_nil_r. eexists; reflexivity.
  - intros d g ts k tr ev o ts' g' H. cbn in H. inversion H; subst.
    eexists; split; [apply steps_refl|]. cbn. rewrite app_nil_r. reflexivity.
  - intros s IHs p IHp d g ts k tr ev o ts' g' H. cbn [run_prog] in H.
    destruct (run_step g ts s) as [[[ev1 o1] ts1] g1] eqn:Es.
    destruct (IHs d g ts (items_of p ++ k) tr _ _ _ _ Es) as (t1 & Hs1 & Ha1).
    cbn [items_of app].
    destruct o1 as [|m1|w1].
    + destruct (run_prog g1 ts1 p) as [[[ev2 o2] ts2] g2] eqn:Ep.
      inversion H; subst. cbn [after] in Ha1. subst t1.
      destruct (IHp d g1 ts1 k (tr ++ ev1) _ _ _ _ Ep) as (t2 & Hs2 & Ha2).
      exists t2. split; [eapply steps_trans; eassumption|].
      rewrite app_assoc. exact Ha2.
    + inversion H; subst. cbn [after] in Ha1. rewrite unwind_skip_items in Ha1.
      exists t1. split; assumption.
    + inversion H; subst. exists t1. split; assumption.
Qed.

(* steps = some number of solo steps *)
Lemma steps_solo d c1 c2 : steps d c1 c2 -> exists n, solo d n (fst c1) (snd c1) = c2.
Proof.
  intros H. induction H as [[g t]|g t c H [n IH]].
  - exists O. reflexivity.
  - exists (S n). cbn [solo fst snd]. destruct (tstep d g t) as [g1 t1]. exact IH.
Qed.

Lemma finished_stuck d g t : finished t = true -> tstep d g t = (g, t).
Proof.
  unfold finished, tstep. destruct (st t); [|reflexivity|reflexivity].
  destruct (code t); [reflexivity|discriminate].
Qed.

Lemma solo_finished d n g t : finished t = true -> solo d n g t = (g, t).
Proof. intros Hf. induction n as [|n IH]; [reflexivity|]. cbn [solo]. rewrite finished_stuck by exact Hf. exact IH. Qed.

Lemma solo_add d n1 n2 g t :
  solo d (n1 + n2) g t = solo d n2 (fst (solo d n1 g t)) (snd (solo d n1 g t)).
Proof.
  revert g t. induction n1 as [|n1 IH]; intros g t; [reflexivity|].
  cbn [solo plus]. destruct (tstep d g t) as [g1 t1]. apply IH.
Qed.

(* Two finished configurations reached from the same start are the same. *)
Lemma solo_deterministic d n1 n2 g t :
  finished (snd (solo d n1 g t)) = true -> finished (snd (solo d n2 g t)) = true ->
  solo d n1 g t = solo d n2 g t.
Proof.
  intros H1 H2. destruct (Nat.le_ge_cases n1 n2) as [Hle|Hle].
  - replace n2 with (n1 + (n2 - n1))%nat by lia. rewrite solo_add.
    rewrite (solo_finished d (n2 - n1) _ _ H1). destruct (solo d n1 g t); reflexivity.
  - replace n1 with (n2 + (n1 - n2))%nat by lia. rewrite solo_add.
    rewrite (solo_finished d (n1 - n2) _ _ H2). destruct (solo d n2 g t); reflexivity.
Qed.

(* A thread "agrees with" an interpreter result. *)
Definition final_of (r : result) (t : thread) : Prop :=
  let '(ev, o, ts, _) := r in
  trace t = ev /\ tst t = ts /\ st t = status_of o /\ (not_aborted o -> code t = []).

Lemma unwind_nil m ts tr : unwind m ts [] tr = mk_thread ts [] tr (Dead m).
Proof. reflexivity. Qed.

(* Whenever a thread started on program p and run alone has finished, it holds
   exactly the interpreter's result. *)
Lemma alone_is_run_prog d n g ts p :
  finished (snd (solo d n g (thread_of ts p))) = true ->
  final_of (run_prog g ts p) (snd (solo d n g (thread_of ts p))) /\
  fst (solo d n g (thread_of ts p)) = snd (run_prog g ts p).
Proof.
  intros Hf. destruct (run_prog g ts p) as [[[ev o] ts'] g'] eqn:Er.
  destruct (proj2 machine_simulates_mut p d g ts [] [] _ _ _ _ Er) as (t & Hs & Ha).
  rewrite app_nil_r in Hs. change (mk_thread ts (items_of p) [] Running) with (thread_of ts p) in Hs.
  destruct (steps_solo _ _ _ Hs) as [n' Hn']. cbn [fst snd] in Hn'.
  assert (Hft : finished t = true /\ final_of (ev, o, ts', g') t).
  { cbn [app] in Ha. destruct o as [|m|w]; cbn [after] in Ha.
    - subst t. split; [reflexivity|]. cbn. auto.
    - subst t. rewrite unwind_nil. split; [reflexivity|]. cbn. auto.
    - destruct Ha as [k' ->]. split; [reflexivity|]. cbn. repeat split; auto. contradiction. }
  destruct Hft as [Hft Hfin].
  assert (Heq : solo d n g (thread_of ts p) = solo d n' g (thread_of ts p)).
  { apply solo_deterministic; [exact Hf|]. rewrite Hn'. exact Hft. }
  rewrite Heq, Hn'. cbn [fst snd]. split; [exact Hfin|reflexivity].
Qed.

(* ------------------------------------------------------------------------ *)
(* Part 3: two threads. *)

(* (d1) frame: a step of one thread leaves the other thread's record (its
   thread-locals, its remaining code, its observations) untouched; the only
   channel is the global hook state. *)
Lemma thread_frame_step d w g a b g' a' b' :
  interleave d [w] g a b = (g', a', b') -> if w then b' = b else a' = a.
Proof.
  cbn [interleave]. destruct (crashed a || crashed b).
  - destruct w; intros H; inversion H; reflexivity.
  - destruct w.
    + destruct (tstep d g a) as [g1 a1]. intros H; inversion H; reflexivity.
    + destruct (tstep d g b) as [g1 b1]. intros H; inversion H; reflexivity.
Qed.

(* No half-done installation in a thread's remaining code. *)
Definition plain_item (i : item) : Prop :=
  match i with ITake | ISet _ => False | _ => True end.
Definition plain (t : thread) : Prop := Forall plain_item (code t).

Lemma plain_items_of p : Forall plain_item (items_of p).
Proof. induction p as [|s p IH]; constructor; [exact I|exact IH]. Qed.

Lemma plain_thread_of ts p : plain (thread_of ts p).
Proof. apply plain_items_of. Qed.

Lemma plain_unwind m ts k tr : Forall plain_item k -> plain (unwind m ts k tr).
Proof.
  intros H. induction H as [|i k Hi Hk IH]; [constructor|].
  cbn [unwind]. destruct i as [s|c| |h]; try exact IH.
  destruct c; [|exact IH]. destruct (stop_catching ts); exact Hk.
Qed.

(* With the flag already set, or in the repaired design, a plain thread's step
   maps the global state g to [install_hook g] or g, and stays plain. *)
Lemma tstep_plain d g t :
  plain t -> (d = Once \/ flag g = true) ->
  plain (snd (tstep d g t)) /\ (fst (tstep d g t) = g \/ fst (tstep d g t) = install_hook g).
Proof.
  intros Hp Hd. unfold tstep. destruct (st t); [|auto|auto].
  unfold plain in Hp. destruct (code t) as [|i k] eqn:Ec; [rewrite <- Ec in Hp; auto|].
  inversion Hp as [|i0 k0 Hi Hk]; subst.
  destruct i as [s|c| |h]; try contradiction.
  - destruct s as [| | |f| | |m|p]; cbn [fst snd]; try (split; [exact Hk|auto]).
    + destruct d.
      * destruct Hd as [Hd|Hd]; [discriminate|]. rewrite Hd. split; [exact Hk|auto].
      * split; [exact Hk|auto].
    + destruct (run_hook (cur g) (tst t) m) as [ev [ts'|]]; cbn [fst snd].
      * split; [apply plain_unwind; exact Hk|auto].
      * split; [exact Hk|auto].
    + destruct (start_catching (tst t)) as [[c ts1]|]; cbn [fst snd].
      * split; [|auto]. unfold plain. cbn [code]. apply Forall_app. split; [apply plain_items_of|].
        constructor; [exact I|exact Hk].
      * split; [exact Hk|auto].
  - destruct c.
    + destruct (stop_catching (tst t)); cbn [fst snd]; (split; [exact Hk|auto]).
    + cbn [fst snd]. split; [exact Hk|auto].
Qed.

Lemma install_hook_flag g : flag g = true -> install_hook g = g.
Proof. unfold install_hook. intros ->. reflexivity. Qed.

Lemma tstep_flag_set d g t :
  plain t -> flag g = true -> plain (snd (tstep d g t)) /\ fst (tstep d g t) = g.
Proof.
  intros Hp Hf. destruct (tstep_plain d g t Hp (or_intror Hf)) as [Hp' Hg].
  split; [exact Hp'|]. rewrite install_hook_flag in Hg by exact Hf. tauto.
Qed.

Lemma solo_flag_set d n g t :
  plain t -> flag g = true -> plain (snd (solo d n g t)) /\ fst (solo d n g t) = g.
Proof.
  revert t. induction n as [|n IH]; intros t Hp Hf; [auto|].
  cbn [solo]. destruct (tstep_flag_set d g t Hp Hf) as [Hp' Hg].
  destruct (tstep d g t) as [g1 t1]. cbn [fst snd] in *. subst g1. apply IH; assumption.
Qed.

Definition ticks (w : bool) (sched : list bool) : nat := length (filter (Bool.eqb w) sched).

(* (d2) Once the hook is installed, any interleaving gives each thread exactly
   its own solo run: as many of its own steps as the schedule gave it (all of
   them unless the process aborted), the global state untouched. *)
Lemma interleaving_independent d sched : forall g a b,
  flag g = true -> plain a -> plain b ->
  exists na nb,
    interleave d sched g a b = (g, snd (solo d na g a), snd (solo d nb g b)) /\
    (na <= ticks true sched)%nat /\ (nb <= ticks false sched)%nat /\
    (crashed (snd (solo d na g a)) || crashed (snd (solo d nb g b)) = false ->
     na = ticks true sched /\ nb = ticks false sched).
Proof.
  induction sched as [|w sched IH]; intros g a b Hf Ha Hb.
  - exists O, O. cbn. auto.
  - cbn [interleave]. destruct (crashed a || crashed b) eqn:Ecr.
    + exists O, O. cbn [solo snd]. split; [reflexivity|]. split; [apply Nat.le_0_l|].
      split; [apply Nat.le_0_l|]. intros Hc. rewrite Hc in Ecr. discriminate.
    + destruct w.
      * destruct (tstep_flag_set d g a Ha Hf) as [Ha' Hg].
        destruct (tstep d g a) as [g1 a1] eqn:Et. cbn [fst snd] in *. subst g1.
        destruct (IH g a1 b Hf Ha' Hb) as (na & nb & Hi & Hla & Hlb & Hex).
        exists (S na), nb. cbn [solo]. rewrite Et. unfold ticks in *. cbn [filter Bool.eqb length].
        split; [exact Hi|]. split; [lia|]. split; [exact Hlb|]. intros Hc. destruct (Hex Hc). lia.
      * destruct (tstep_flag_set d g b Hb Hf) as [Hb' Hg].
        destruct (tstep d g b) as [g1 b1] eqn:Et. cbn [fst snd] in *. subst g1.
        destruct (IH g a b1 Hf Ha Hb') as (na & nb & Hi & Hla & Hlb & Hex).
        exists na, (S nb). cbn [solo]. rewrite Et. unfold ticks in *. cbn [filter Bool.eqb length].
        split; [exact Hi|]. split; [exact Hla|]. split; [lia|]. intros Hc. destruct (Hex Hc). lia.
Qed.

(* ... hence each thread that has finished observed what the interpreter says
   it observes alone. *)
Lemma interleaving_matches_alone d sched g pa pb tsa tsb g' a' b' :
  flag g = true ->
  interleave d sched g (thread_of tsa pa) (thread_of tsb pb) = (g', a', b') ->
  g' = g /\
  (finished a' = true -> final_of (run_prog g tsa pa) a') /\
  (finished b' = true -> final_of (run_prog g tsb pb) b').
Proof.
  intros Hf Hi.
  destruct (interleaving_independent d sched g _ _ Hf (plain_thread_of tsa pa) (plain_thread_of tsb pb))
    as (na & nb & Hi' & _).
  rewrite Hi in Hi'. inversion Hi'; subst. split; [reflexivity|].
  split; intros Hfin; apply alone_is_run_prog; exact Hfin.
Qed.

(* ------------------------------------------------------------------------ *)
(* Any number of threads.  [sched] names the thread that moves next; a number
   that names no thread moves nothing.  process::abort() on any thread ends the
   process. *)
Fixpoint set_nth (l : list thread) (i : nat) (x : thread) : list thread :=
  match l, i with
  | [], _ => []
  | _ :: l', O => x :: l'
  | y :: l', S i' => y :: set_nth l' i' x
  end.

Fixpoint interleave_n (d : design) (sched : list nat) (g : gstate) (ts : list thread)
  : gstate * list thread :=
  match sched with
  | [] => (g, ts)
  | i :: sched' =>
      if existsb crashed ts then (g, ts)
      else match nth_error ts i with
           | Some t => let '(g', t') := tstep d g t in interleave_n d sched' g' (set_nth ts i t')
           | None => interleave_n d sched' g ts
           end
  end.

(* t' is what t becomes after some number of its own steps, alone *)
Definition solo_image (d : design) (g : gstate) (t t' : thread) : Prop :=
  exists n, t' = snd (solo d n g t).

Lemma solo_image_refl d g t : solo_image d g t t.
Proof. exists O. reflexivity. Qed.

Lemma Forall2_solo_refl d g ts : Forall2 (solo_image d g) ts ts.
Proof. induction ts as [|t ts IH]; constructor; [apply solo_image_refl|exact IH]. Qed.

Lemma set_nth_plain ts i t' : Forall plain ts -> plain t' -> Forall plain (set_nth ts i t').
Proof.
  revert i. induction ts as [|t ts IH]; intros i Hts Ht'; [constructor|].
  inversion Hts as [|t0 ts0 Ht Hr]; subst. destruct i as [|i]; cbn [set_nth].
  - constructor; assumption.
  - constructor; [exact Ht|]. apply IH; assumption.
Qed.

(* one step of thread i, then solo images of the updated list, are solo images of the original list *)
Lemma Forall2_solo_step d g ts i t t1 ts' :
  nth_error ts i = Some t -> tstep d g t = (g, t1) ->
  Forall2 (solo_image d g) (set_nth ts i t1) ts' -> Forall2 (solo_image d g) ts ts'.
Proof.
  revert i ts'. induction ts as [|t0 ts IH]; intros i ts' Hn Et HF; [destruct i; discriminate|].
  destruct i as [|i]; cbn [nth_error set_nth] in *.
  - injection Hn as ->. inversion HF as [|x y l l' Hxy Hl]; subst. constructor; [|exact Hl].
    destruct Hxy as [n ->]. exists (S n). cbn [solo]. rewrite Et. reflexivity.
  - inversion HF as [|x y l l' Hxy Hl]; subst. constructor; [exact Hxy|]. eapply IH; eassumption.
Qed.

(* Once the hook is installed, under any schedule of any number of threads each
   thread is one of its own solo runs and the global state never changes. *)
Lemma interleaving_n_independent d sched : forall g ts,
  flag g = true -> Forall plain ts ->
  exists ts', interleave_n d sched g ts = (g, ts') /\ Forall2 (solo_image d g) ts ts'.
Proof.
  induction sched as [|i sched IH]; intros g ts Hf Hp.
  - exists ts. split; [reflexivity|apply Forall2_solo_refl].
  - cbn [interleave_n]. destruct (existsb crashed ts).
    + exists ts. split; [reflexivity|apply Forall2_solo_refl].
    + destruct (nth_error ts i) as [t|] eqn:En; [|apply IH; assumption].
      assert (Ht : plain t).
      { apply nth_error_In in En. rewrite Forall_forall in Hp. apply Hp. exact En. }
      destruct (tstep_flag_set d g t Ht Hf) as [Hp1 Hg].
      destruct (tstep d g t) as [g1 t1] eqn:Et. cbn [fst snd] in *. subst g1.
      destruct (IH g (set_nth ts i t1) Hf (set_nth_plain ts i t1 Hp Hp1)) as (ts' & Hi & HF).
      exists ts'. split; [exact Hi|]. eapply Forall2_solo_step; eassumption.
Qed.

Lemma Forall2_nth_error {A B} (R : A -> B -> Prop) l l' i y :
  Forall2 R l l' -> nth_error l' i = Some y -> exists x, nth_error l i = Some x /\ R x y.
Proof.
  intros HF. revert i. induction HF as [|a b l l' Hab HF IH]; intros i Hn; [destruct i; discriminate|].
  destruct i as [|i]; cbn [nth_error] in *.
  - injection Hn as <-. exists a. split; [reflexivity|exact Hab].
  - apply IH. exact Hn.
Qed.

(* ... hence every thread that has finished observed what the interpreter says
   it observes alone, whatever the other threads did and however the steps were
   interleaved. *)
Lemma interleaving_n_matches_alone d sched g (ps : list (tstate * prog)) g' ts' :
  flag g = true ->
  interleave_n d sched g (map (fun tp => thread_of (fst tp) (snd tp)) ps) = (g', ts') ->
  g' = g /\
  forall i t', nth_error ts' i = Some t' -> finished t' = true ->
    exists tsi p, nth_error ps i = Some (tsi, p) /\ final_of (run_prog g tsi p) t'.
Proof.
  intros Hf Hi.
  assert (Hp : Forall plain (map (fun tp => thread_of (fst tp) (snd tp)) ps)).
  { rewrite Forall_map. rewrite Forall_forall. intros [tsi p] _. apply plain_thread_of. }
  destruct (interleaving_n_independent d sched g _ Hf Hp) as (ts2 & Hi2 & HF).
  rewrite Hi in Hi2. injection Hi2 as -> ->. split; [reflexivity|].
  intros i t' Hn Hfin.
  destruct (Forall2_nth_error _ _ _ _ _ HF Hn) as (t0 & Hn0 & [n ->]).
  rewrite nth_error_map in Hn0. destruct (nth_error ps i) as [[tsi p]|] eqn:Ep; [|discriminate].
  cbn [option_map fst snd] in Hn0. injection Hn0 as <-.
  exists tsi, p. split; [reflexivity|]. apply alone_is_run_prog. exact Hfin.
Qed.

(* ------------------------------------------------------------------------ *)
(* The first installation, raced.  Both threads begin with
   panic_catcher_set_hook(); the flag is not set yet and [h] is the hook the
   application installed before. *)

Definition g_fresh (h : hook) : gstate := mk_gstate false h.

(* The intended statement: whatever the schedule, a thread that has finished
   observed what it observes alone, and when both have finished the hook is
   ours with the previous hook behind it. *)
Definition install_race_benign (d : design) : Prop :=
  forall h pa pb tsa tsb sched g' a' b',
    interleave d sched (g_fresh h)
      (thread_of tsa (PCons InstallHook pa)) (thread_of tsb (PCons InstallHook pb)) = (g', a', b') ->
    (finished a' = true -> final_of (run_prog (g_fresh h) tsa (PCons InstallHook pa)) a') /\
    (finished b' = true -> final_of (run_prog (g_fresh h) tsb (PCons InstallHook pb)) b') /\
    (finished a' = true -> finished b' = true -> g' = mk_gstate true (HOurs h)).

(* Witness 1.  B passes the flag test; A installs completely, enables catching
   and enters catch_panic; B runs take_hook() (std's default hook is now
   current); A panics inside catch_panic: the default hook runs, nothing is
   recorded, catch_panic returns the "<unknown>" text (or, with an earlier
   caught panic, that earlier panic's text); B runs set_hook(). *)
Definition race1_a : prog :=
  PCons InstallHook (PCons Enable (PCons (Catch (PCons (Panic 1) PNil)) PNil)).
Definition race1_b : prog := PCons InstallHook PNil.
Definition race1_sched : list bool :=
  [false; true; true; true; true; true; false; true; false].

Lemma install_race_unknown_message :
  exists g' a' b',
    interleave Racy race1_sched (g_fresh HPrev)
      (thread_of init_tstate race1_a) (thread_of init_tstate race1_b) = (g', a', b') /\
    finished a' = true /\ finished b' = true /\
    trace a' = [EUnit; EUnit; EEnter; EPanic 1; EDefault 1; EExit (RErr None)] /\
    fst (fst (fst (run_prog (g_fresh HPrev) init_tstate race1_a)))
      = [EUnit; EUnit; EEnter; EPanic 1; EExit (RErr (Some 1))].
Proof. eexists; eexists; eexists. vm_compute. repeat split. Qed.

Definition race1s_a : prog :=
  PCons InstallHook (PCons Enable (PCons (Catch (PCons (Panic 7) PNil))
    (PCons (Catch (PCons (Panic 1) PNil)) PNil))).
Definition race1s_sched : list bool :=
  [false; true; true; true; true; true; true; true; false; true; false].

Lemma install_race_stale_message :
  exists g' a' b',
    interleave Racy race1s_sched (g_fresh HPrev)
      (thread_of init_tstate race1s_a) (thread_of init_tstate race1_b) = (g', a', b') /\
    finished a' = true /\ finished b' = true /\
    trace a' = [EUnit; EUnit; EEnter; EPanic 7; EExit (RErr (Some 7));
                EEnter; EPanic 1; EDefault 1; EExit (RErr (Some 7))] /\
    fst (fst (fst (run_prog (g_fresh HPrev) init_tstate race1s_a)))
      = [EUnit; EUnit; EEnter; EPanic 7; EExit (RErr (Some 7)); EEnter; EPanic 1; EExit (RErr (Some 1))].
Proof. eexists; eexists; eexists. vm_compute. repeat split. Qed.

(* Witness 2.  Both pass the flag test, both run take_hook() (the second one
   takes std's default hook), both run set_hook(): the hook that stays is ours
   with the DEFAULT hook behind it; the previous hook is lost for good, a panic
   outside catch_panic no longer reaches it. *)
Definition race2_a : prog := PCons InstallHook (PCons (Panic 1) PNil).
Definition race2_sched : list bool := [true; false; true; false; true; false; true].

Lemma install_race_loses_previous_hook :
  exists a' b',
    interleave Racy race2_sched (g_fresh HPrev)
      (thread_of init_tstate race2_a) (thread_of init_tstate race1_b)
      = (mk_gstate true (HOurs HDefault), a', b') /\
    finished a' = true /\ finished b' = true /\
    trace a' = [EUnit; EPanic 1; EDefault 1] /\
    fst (fst (fst (run_prog (g_fresh HPrev) init_tstate race2_a))) = [EUnit; EPanic 1; EPrev 1].
Proof. eexists; eexists. vm_compute. repeat split. Qed.

Lemma install_race_refuted : ~ install_race_benign Racy.
Proof.
  intros H.
  destruct install_race_unknown_message as (g' & a' & b' & Hi & Hfa & Hfb & Htr & Hal).
  destruct (H HPrev _ _ _ _ _ _ _ _ Hi) as (Ha & _ & _).
  specialize (Ha Hfa). unfold final_of in Ha.
  destruct (run_prog (g_fresh HPrev) init_tstate (PCons InstallHook (PCons Enable (PCons (Catch (PCons (Panic 1) PNil)) PNil))))
    as [[[ev o] ts] g1] eqn:Er.
  destruct Ha as (Ht & _). unfold race1_a in Hal. rewrite Er in Hal. cbn [fst] in Hal.
  rewrite Htr, Hal in Ht. discriminate.
Qed.

Section Fixed.
(* The repaired design: the installation runs under std::sync::Once, i.e. as
   one indivisible step that has an effect at most once. *)

Lemma once_first_step ts p g h :
  g = g_fresh h \/ g = mk_gstate true (HOurs h) ->
  tstep Once g (thread_of ts (PCons InstallHook p))
  = (mk_gstate true (HOurs h), mk_thread ts (items_of p) [EUnit] Running).
Proof. intros [-> | ->]; reflexivity. Qed.

Lemma once_solo_same_start ts p h n :
  solo Once (S n) (g_fresh h) (thread_of ts (PCons InstallHook p))
  = solo Once (S n) (mk_gstate true (HOurs h)) (thread_of ts (PCons InstallHook p)).
Proof.
  cbn [solo]. rewrite (once_first_step ts p (g_fresh h) h) by auto.
  rewrite (once_first_step ts p (mk_gstate true (HOurs h)) h) by auto. reflexivity.
Qed.

Lemma not_finished_start ts p : finished (thread_of ts (PCons InstallHook p)) = false.
Proof. reflexivity. Qed.

Lemma once_after_first h sched ts1 p1 ts2 p2 g' t1' t2' n0 :
  let g1 := mk_gstate true (HOurs h) in
  forall (t1 : thread),
  plain t1 ->
  (g1, t1) = solo Once n0 (g_fresh h) (thread_of ts1 p1) ->
  (interleave Once sched g1 t1 (thread_of ts2 (PCons InstallHook p2)) = (g', t1', t2') \/
   interleave Once sched g1 (thread_of ts2 (PCons InstallHook p2)) t1 = (g', t2', t1')) ->
  g' = g1 /\
  (finished t1' = true -> final_of (run_prog (g_fresh h) ts1 p1) t1') /\
  (finished t2' = true -> final_of (run_prog (g_fresh h) ts2 (PCons InstallHook p2)) t2').
Proof.
  intros g1 t1 Hp1 Hsolo Hi.
  assert (Hf : flag g1 = true) by reflexivity.
  assert (Hp2 : plain (thread_of ts2 (PCons InstallHook p2))) by apply plain_thread_of.
  assert (Hkey : exists n1 n2, g' = g1 /\ t1' = snd (solo Once n1 g1 t1) /\
            t2' = snd (solo Once n2 g1 (thread_of ts2 (PCons InstallHook p2)))).
  { destruct Hi as [Hi|Hi].
    - destruct (interleaving_independent Once sched g1 _ _ Hf Hp1 Hp2) as (n1 & n2 & Hi' & _).
      rewrite Hi in Hi'. inversion Hi'; subst. exists n1, n2. auto.
    - destruct (interleaving_independent Once sched g1 _ _ Hf Hp2 Hp1) as (n2 & n1 & Hi' & _).
      rewrite Hi in Hi'. inversion Hi'; subst. exists n1, n2. auto. }
  destruct Hkey as (n1 & n2 & -> & -> & ->). split; [reflexivity|]. split.
  - intros Hfin.
    assert (Heq : solo Once n1 g1 t1 = solo Once (n0 + n1) (g_fresh h) (thread_of ts1 p1)).
    { rewrite solo_add. rewrite <- Hsolo. reflexivity. }
    rewrite Heq in Hfin |- *. apply alone_is_run_prog. exact Hfin.
  - intros Hfin. destruct n2 as [|n2].
    + cbn [solo snd] in Hfin. rewrite not_finished_start in Hfin. discriminate.
    + fold g1 in Hfin. unfold g1 in Hfin |- *.
      rewrite <- once_solo_same_start in Hfin |- *. apply alone_is_run_prog. exact Hfin.
Qed.

Lemma install_once_benign : install_race_benign Once.
Proof.
  intros h pa pb tsa tsb sched g' a' b' Hi.
  destruct sched as [|w sched].
  - cbn in Hi. inversion Hi; subst. rewrite !not_finished_start.
    repeat split; intros; discriminate.
  - cbn [interleave] in Hi.
    change (crashed (thread_of tsa (PCons InstallHook pa)) || crashed (thread_of tsb (PCons InstallHook pb)))
      with false in Hi. cbv iota in Hi.
    destruct w.
    + rewrite (once_first_step tsa pa (g_fresh h) h) in Hi by auto.
      destruct (once_after_first h sched tsa (PCons InstallHook pa) tsb pb g' a' b' 1
                  (mk_thread tsa (items_of pa) [EUnit] Running)) as (Hg & Ha & Hb).
      * apply plain_items_of.
      * cbn [solo]. rewrite (once_first_step tsa pa (g_fresh h) h) by auto. reflexivity.
      * left. exact Hi.
      * repeat split; auto.
    + rewrite (once_first_step tsb pb (g_fresh h) h) in Hi by auto.
      destruct (once_after_first h sched tsb (PCons InstallHook pb) tsa pa g' b' a' 1
                  (mk_thread tsb (items_of pb) [EUnit] Running)) as (Hg & Hb & Ha).
      * apply plain_items_of.
      * cbn [solo]. rewrite (once_first_step tsb pb (g_fresh h) h) by auto. reflexivity.
      * right. exact Hi.
      * repeat split; auto.
Qed.

End Fixed.
