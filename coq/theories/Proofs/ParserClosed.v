(* Closed statements about parse_filter / parse_value / ParseError::new. *)
From Coq Require Import List ZArith NArith Bool Lia Arith.
From WF Require Import Base.Bytes Base.Sexp Sem.RangeSet Sem.Matchers Lang.Types Lang.Ast Lang.Context
     Sem.Compile Spec.Typing Spec.C13 Parse.Lex Parse.Parser
     Proofs.TypingProofs Proofs.ParserProofs Proofs.LexFacts Run.Lang.
Import ListNotations.
Local Notation length := List.length (only parsing).

(* what a parse result must satisfy: an accepted AST meets [P] and the whole
   (trimmed) input was consumed; an error span lies inside the trimmed input;
   no panic *)
Definition parse_post {A} (text : bytes) (P : A -> Prop) (r : lres A) : Prop :=
  match r with
  | LOk a rest => P a /\ rest = []
  | LErr _ at_ n => suffix at_ (trim text) /\ (n <= length at_)%nat
  | LPanic => False
  | LFuel => True
  end.

Lemma complete_post {A} w (P : A -> Prop) r :
  lpost w P r ->
  match complete r with
  | LOk a rest => P a /\ rest = []
  | LErr _ at_ n => suffix at_ w /\ (n <= length at_)%nat
  | LPanic => False
  | LFuel => True
  end.
Proof.
  destruct r as [a [|b rest]|k at_ n| |]; cbn; auto.
  - intros [H1 H2]. auto.
  - intros [H1 H2]. split; [assumption|lia].
Qed.

Theorem parse_filter_post sch st text :
  parse_post text (fun e => wt_filter sch e = true /\ (depth_lexpr e <= N.to_nat (st_max_depth st))%nat)
             (parse_filter sch st text).
Proof.
  unfold parse_filter, parse_post. apply complete_post.
  eapply lpost_bind.
  { apply (ih_logical sch st (trim text) _ (parser_post sch st (trim text) lexers_ok _)); [lia|apply suffix_refl]. }
  intros e rest [[t Ht] Hd] Hr. rewrite (wt_ty_lexpr sch e t Ht).
  destruct t; cbn; try (split; [assumption|lia]).
  split; [|assumption]. split; [unfold wt_filter; now rewrite Ht|].
  change (N.to_nat 0) with 0%nat in Hd. lia.
Qed.

Theorem parse_value_post sch st text :
  parse_post text (fun e => (exists t, wt_value sch e = Some t) /\ (depth_iexpr e <= N.to_nat (st_max_depth st))%nat)
             (parse_value sch st text).
Proof.
  unfold parse_value, parse_post. apply complete_post.
  eapply lpost_bind.
  { apply (ih_index sch st (trim text) _ (parser_post sch st (trim text) lexers_ok _)); [lia|apply suffix_refl]. }
  intros e rest [[t Ht] Hd] Hr.
  destruct (Nat.ltb 0 (map_each_count (iexpr_idx e))) eqn:Em; cbn.
  - split; [apply suffix_refl|lia].
  - split; [|assumption]. split.
    + exists t. unfold wt_value. rewrite Ht. apply Nat.ltb_ge in Em.
      assert (E0 : map_each_count (iexpr_idx e) = 0%nat) by lia. rewrite E0. reflexivity.
    + change (N.to_nat 0) with 0%nat in Hd. lia.
Qed.

(* ---- the trimmed input is a slice of the text ---- *)
Lemma ws_prefix_suffix x r : ws_prefix x = Some r -> suffix r x.
Proof.
  unfold ws_prefix. destruct x as [|b [|c [|d r3]]]; try discriminate.
  - destruct (is_ws_ascii b); [|discriminate]. intros H. injection H as <-. apply suffix_cons.
  - destruct (is_ws_ascii b); [intros H; injection H as <-; apply suffix_cons|].
    destruct ((b =? 194)%N && _); [|discriminate]. intros H. injection H as <-. now exists [b; c].
  - destruct (is_ws_ascii b); [intros H; injection H as <-; apply suffix_cons|].
    destruct ((b =? 194)%N && _); [intros H; injection H as <-; now exists [b; c]|].
    repeat match goal with |- (if ?c then _ else _) = _ -> _ => destruct c end;
      intros H; try discriminate H; injection H as <-; now exists [b; c; d].
Qed.

Lemma ws_suffix_rev_suffix x r : ws_suffix_rev x = Some r -> suffix r x.
Proof.
  unfold ws_suffix_rev. destruct x as [|b [|c [|d r3]]]; try discriminate.
  - destruct (is_ws_ascii b); [|discriminate]. intros H. injection H as <-. apply suffix_cons.
  - destruct (is_ws_ascii b); [intros H; injection H as <-; apply suffix_cons|].
    destruct ((c =? 194)%N && _); [|discriminate]. intros H. injection H as <-. now exists [b; c].
  - destruct (is_ws_ascii b); [intros H; injection H as <-; apply suffix_cons|].
    destruct ((c =? 194)%N && _); [intros H; injection H as <-; now exists [b; c]|].
    repeat match goal with |- (if ?c then _ else _) = _ -> _ => destruct c end;
      intros H; try discriminate H; injection H as <-; now exists [b; c; d].
Qed.

Lemma drop_while_some_suffix step :
  (forall x r, step x = Some r -> suffix r x) ->
  forall fuel x, suffix (drop_while_some step fuel x) x.
Proof.
  intros Hs. induction fuel as [|f IH]; intros x; cbn [drop_while_some]; [apply suffix_refl|].
  destruct (step x) as [r|] eqn:E; [|apply suffix_refl].
  eapply suffix_trans; [apply IH|apply Hs; exact E].
Qed.

Lemma trim_start_suffix x : suffix (trim_start x) x.
Proof. unfold trim_start. apply drop_while_some_suffix. exact ws_prefix_suffix. Qed.

Lemma trim_infix text : exists a b, text = a ++ trim text ++ b.
Proof.
  unfold trim. destruct (trim_start_suffix text) as [a Ha].
  destruct (drop_while_some_suffix ws_suffix_rev ws_suffix_rev_suffix
              (List.length (trim_start text)) (rev (trim_start text))) as [b Hb].
  exists a, (rev b).
  assert (E : trim_start text =
              rev (drop_while_some ws_suffix_rev (List.length (trim_start text)) (rev (trim_start text))) ++ rev b).
  { rewrite <- rev_app_distr, <- Hb. now rewrite rev_involutive. }
  cbv zeta. rewrite <- E. exact Ha.
Qed.

(* ---- ParseError::new: the reported line is a line of the input and the
   column range lies inside it; the usize subtraction line_end - span_start
   cannot underflow ---- *)
Definition nl_free (l : bytes) : Prop := Forall (fun b => b <> 10%N) l.
Definition count_nl (l : bytes) : nat := length (filter (N.eqb 10) l).

Lemma lls_spec l : forall pos upto line start, (upto <= length l)%nat ->
  exists k, (k <= upto)%nat /\
    last_line_start l pos upto line start =
      ((line + count_nl (firstn upto l))%nat, if Nat.eqb k 0 then start else (pos + k)%nat) /\
    nl_free (skipn k (firstn upto l)) /\
    (0 < k -> nth_error l (k - 1) = Some 10%N)%nat.
Proof.
  induction l as [|b r IH]; intros pos upto line start Hu.
  - cbn in Hu. assert (upto = 0%nat) by lia. subst. exists 0%nat. cbn.
    split; [lia|]. split; [f_equal; lia|]. split; [constructor|lia].
  - destruct upto as [|u].
    + exists 0%nat. cbn. split; [lia|]. split; [f_equal; lia|]. split; [constructor|lia].
    + cbn [length] in Hu. cbn [last_line_start firstn].
      destruct (N.eqb_spec b 10) as [->|Hb].
      * destruct (IH (S pos) u (S line) (S pos) ltac:(lia)) as (k & Hk & -> & Hfree & Hnth).
        assert (Ec : count_nl (10%N :: firstn u r) = S (count_nl (firstn u r))) by reflexivity.
        rewrite Ec. destruct k as [|k'].
        -- exists 1%nat. cbn [Nat.eqb skipn]. split; [lia|]. split; [f_equal; lia|]. split; [exact Hfree|].
           intros _. reflexivity.
        -- exists (S (S k')). cbn [Nat.eqb skipn]. split; [lia|]. split; [f_equal; lia|]. split; [exact Hfree|].
           intros _. cbn. replace (k' - 0)%nat with k' by lia.
           replace k' with (S k' - 1)%nat by lia. apply Hnth. lia.
      * destruct (IH (S pos) u line start ltac:(lia)) as (k & Hk & -> & Hfree & Hnth).
        assert (Ec : count_nl (b :: firstn u r) = count_nl (firstn u r)).
        { unfold count_nl. cbn [filter]. destruct (N.eqb_spec 10 b) as [E|_]; [congruence|reflexivity]. }
        rewrite Ec. destruct k as [|k'].
        -- exists 0%nat. cbn [Nat.eqb skipn]. split; [lia|]. split; [reflexivity|]. split; [|lia].
           constructor; assumption.
        -- exists (S (S k')). cbn [Nat.eqb skipn]. split; [lia|]. split; [f_equal; lia|]. split; [exact Hfree|].
           intros _. cbn. replace (k' - 0)%nat with k' by lia.
           replace k' with (S k' - 1)%nat by lia. apply Hnth. lia.
Qed.

Lemma find_nl_spec l : forall i,
  match find_nl l i with
  | Some j => (i <= j)%nat /\ nl_free (firstn (j - i) l) /\ exists q, skipn (j - i) l = 10%N :: q
  | None => nl_free l
  end.
Proof.
  induction l as [|b r IH]; intros i; cbn [find_nl]; [constructor|].
  destruct (N.eqb_spec b 10) as [->|Hb].
  - rewrite Nat.sub_diag. cbn. split; [lia|]. split; [constructor|eauto].
  - specialize (IH (S i)). destruct (find_nl r (S i)) as [j|].
    + destruct IH as (H1 & H2 & q & H3). split; [lia|]. replace (j - i)%nat with (S (j - S i)) by lia.
      cbn. split; [constructor; assumption|eauto].
    + constructor; assumption.
Qed.

Lemma count_nl_app a b : count_nl (a ++ b) = (count_nl a + count_nl b)%nat.
Proof. unfold count_nl. now rewrite filter_app, app_length. Qed.

Lemma count_nl_free l : nl_free l -> count_nl l = 0%nat.
Proof.
  unfold count_nl. induction 1 as [|b l Hb _ IH]; [reflexivity|]. cbn [filter].
  destruct (N.eqb_spec 10 b); [congruence|exact IH].
Qed.

Lemma nl_free_app_first a b j :
  nl_free a -> nl_free (firstn j (a ++ b)) -> skipn j (a ++ b) <> [] ->
  (forall q, skipn j (a ++ b) = 10%N :: q -> (length a <= j)%nat).
Proof.
  intros Ha _ _ q Hq. destruct (Nat.le_gt_cases (length a) j) as [|Hlt]; [assumption|exfalso].
  rewrite skipn_app in Hq. replace (j - length a)%nat with 0%nat in Hq by lia. cbn in Hq.
  assert (Hin : In 10%N a).
  { rewrite <- (firstn_skipn j a). apply in_or_app. right.
    destruct (skipn j a) as [|x t] eqn:E.
    - exfalso. apply (f_equal (@List.length N)) in E. rewrite skipn_length in E. cbn in E. lia.
    - cbn in Hq. injection Hq as -> _. now left. }
  unfold nl_free in Ha. rewrite Forall_forall in Ha. now apply (Ha _ Hin).
Qed.

Theorem parse_error_new_spec orig abs len :
  (abs + len <= length orig)%nat ->
  let '(line, col, len') := parse_error_new orig abs len in
  exists pre l post,
    orig = pre ++ l ++ post /\
    (pre = [] \/ exists p, pre = p ++ [10%N]) /\
    (post = [] \/ exists q, post = 10%N :: q) /\
    nl_free l /\ line = count_nl pre /\
    (col + len' <= length l)%nat /\ (len' <= len)%nat /\
    match find_nl (skipn (length pre) orig) 0 with Some e => (col <= e)%nat | None => True end.
Proof.
  intros Hlen. unfold parse_error_new.
  destruct (lls_spec orig 0 abs 0 0 ltac:(lia)) as (k & Hk & -> & Hfree & Hnth).
  assert (Els : (if Nat.eqb k 0 then 0 else 0 + k)%nat = k) by (destruct k; cbn; lia).
  rewrite Els. clear Els. cbn [Nat.add].
  (* the text between the line start and the span start has no newline *)
  set (mid := skipn k (firstn abs orig)) in *.
  assert (Hmid_len : length mid = (abs - k)%nat) by (unfold mid; rewrite skipn_length, firstn_length; lia).
  assert (Hrest : skipn k orig = mid ++ skipn abs orig).
  { unfold mid. rewrite <- (firstn_skipn abs orig) at 1. rewrite skipn_app, firstn_length.
    replace (k - Nat.min abs (length orig))%nat with 0%nat by lia. reflexivity. }
  assert (Hpre : firstn abs orig = firstn k orig ++ mid).
  { unfold mid. rewrite <- (firstn_skipn k (firstn abs orig)) at 1. f_equal.
    rewrite firstn_firstn. f_equal. lia. }
  assert (Hcount : count_nl (firstn abs orig) = count_nl (firstn k orig)).
  { rewrite Hpre, count_nl_app, (count_nl_free mid Hfree). lia. }
  assert (Hprefix : firstn k orig = [] \/ exists p, firstn k orig = p ++ [10%N]).
  { destruct k as [|k']; [left; reflexivity|right]. specialize (Hnth ltac:(lia)).
    replace (S k' - 1)%nat with k' in Hnth by lia. exists (firstn k' orig).
    rewrite (firstn_S_nth _ _ _ Hnth). reflexivity. }
  assert (Hlk : length (firstn k orig) = k) by (rewrite firstn_length; lia).
  pose proof (find_nl_spec (skipn k orig) 0) as Hf.
  destruct (find_nl (skipn k orig) 0) as [e|] eqn:Ef.
  - destruct Hf as (_ & Hf1 & q & Hf2). rewrite Nat.sub_0_r in Hf1, Hf2.
    assert (Hcol : (abs - k <= e)%nat).
    { rewrite <- Hmid_len. rewrite Hrest in Hf1, Hf2.
      eapply nl_free_app_first; eauto. rewrite Hf2. discriminate. }
    exists (firstn k orig), (firstn e (skipn k orig)), (skipn e (skipn k orig)).
    repeat split.
    + now rewrite firstn_skipn, firstn_skipn.
    + exact Hprefix.
    + right. eauto.
    + exact Hf1.
    + lia.
    + rewrite firstn_length. assert (e <= length (skipn k orig))%nat.
      { destruct (Nat.le_gt_cases e (length (skipn k orig))); [assumption|].
        rewrite skipn_all2 in Hf2 by lia. discriminate. }
      lia.
    + lia.
    + rewrite Hlk, Ef. exact Hcol.
  - exists (firstn k orig), (skipn k orig), [].
    repeat split.
    + now rewrite app_nil_r, firstn_skipn.
    + exact Hprefix.
    + now left.
    + exact Hf.
    + lia.
    + rewrite skipn_length. lia.
    + lia.
    + rewrite Hlk, Ef. exact I.
Qed.

(* ---- absolute offset of an error span, as FilterParser::parse hands it to
   ParseError::new (pointer difference between the span and the original input) ---- *)
Definition span_abs_start (orig at_ : bytes) : nat :=
  let trimmed := trim orig in
  let lead := match trimmed with [] => O | _ => (length orig - length (trim_start orig))%nat end in
  (lead + (length trimmed - length at_))%nat.

Lemma span_offsets_inside orig at_ n :
  suffix at_ (trim orig) -> (n <= length at_)%nat -> (span_abs_start orig at_ + n <= length orig)%nat.
Proof.
  intros Hs Hn. unfold span_abs_start. apply suffix_length in Hs.
  assert (H1 : (length (trim orig) <= length (trim_start orig))%nat).
  { unfold trim. cbv zeta. rewrite rev_length.
    pose proof (suffix_length _ _ (drop_while_some_suffix ws_suffix_rev ws_suffix_rev_suffix
                                     (List.length (trim_start orig)) (rev (trim_start orig)))) as H.
    now rewrite rev_length in H. }
  pose proof (suffix_length _ _ (trim_start_suffix orig)) as H2.
  destruct (trim orig); cbn [length] in *; lia.
Qed.
