(* The character-level lexers never panic, and every rest / error span they
   return lies inside their input ([lex_facts] of Proofs/ParserProofs.v);
   CIDR literals come out well-formed. *)
From Coq Require Import List ZArith NArith Bool Lia Arith.
From WF Require Import Base.Bytes Sem.RangeSet Lang.Types Lang.Ast Spec.Typing Parse.Lex Parse.Parser
     Proofs.ParserProofs.
Import ListNotations.
Local Notation length := List.length (only parsing).

Ltac other_byte b Hdef :=
  destruct b as [|?p]; [exact Hdef|];
  repeat (match goal with p : positive |- _ => destruct p as [p|p|] end; try exact Hdef; try contradiction).

Definition T {A} : A -> Prop := fun _ => True.

Lemma lpost_T {A} i (P : A -> Prop) r : lpost i P r -> lpost i T r.
Proof. intros H. eapply lpost_weaken; [exact H|apply suffix_refl|]. intros; exact I. Qed.

Lemma suffix_app p x : suffix x (p ++ x).
Proof. now exists p. Qed.

(* ---- take_while / take ---- *)
Lemma take_while_go_app f s : forall t rest, take_while_go f s = (t, rest) -> s = t ++ rest.
Proof.
  induction s as [|b r IH]; intros t rest H; cbn in H.
  - now injection H as <- <-.
  - destruct (is_ascii b && f b).
    + destruct (take_while_go f r) as [t' rest'] eqn:E. injection H as <- <-. cbn. f_equal. now apply IH.
    + now injection H as <- <-.
Qed.

Lemma take_while_ok f i t rest : take_while f i = LOk t rest -> i = t ++ rest.
Proof.
  unfold take_while. destruct (take_while_go f i) as [t' rest'] eqn:E. destruct t'; [discriminate|].
  intros H. injection H as <- <-. now apply take_while_go_app in E.
Qed.

Lemma take_while_post f i : lpost i T (take_while f i).
Proof.
  destruct (take_while f i) as [t rest|k a n| |] eqn:E; cbn.
  - split; [exact I|]. apply take_while_ok in E. subst i. apply suffix_app.
  - unfold take_while in E. destruct (take_while_go f i) as [t' rest']. destruct t'; [|discriminate].
    injection E as <- <- <-. split; [apply suffix_refl|lia].
  - unfold take_while in E. destruct (take_while_go f i) as [t' rest']. destruct t'; discriminate.
  - exact I.
Qed.

Lemma next_char_app s c r : next_char s = Some (c, r) -> s = c ++ r.
Proof.
  unfold next_char. destruct s as [|b s']; [discriminate|]. intros H. injection H as <- <-.
  now rewrite firstn_skipn.
Qed.

Lemma take_chars_app n : forall s t rest, take_chars n s = Some (t, rest) -> s = t ++ rest.
Proof.
  induction n as [|n IH]; intros s t rest H; cbn [take_chars] in H.
  - now injection H as <- <-.
  - destruct (next_char s) as [[c r]|] eqn:E; [|discriminate].
    destruct (take_chars n r) as [[t' rest']|] eqn:E2; [|discriminate]. injection H as <- <-.
    apply next_char_app in E. apply IH in E2. subst. now rewrite app_assoc.
Qed.

Lemma take_ok n i t rest : take n i = LOk t rest -> i = t ++ rest.
Proof.
  unfold take. destruct (take_chars n i) as [[t' rest']|] eqn:E; [|discriminate].
  intros H. injection H as <- <-. now apply take_chars_app in E.
Qed.

Lemma take_post n i : lpost i T (take n i).
Proof.
  unfold take. destruct (take_chars n i) as [[t rest]|] eqn:E; cbn.
  - split; [exact I|]. apply take_chars_app in E. subst. apply suffix_app.
  - split; [apply suffix_refl|lia].
Qed.

(* ---- integers ---- *)
Lemma parse_number_post w at_ ds rest radix :
  suffix at_ w -> (length ds <= length at_)%nat -> suffix rest w -> lpost w T (parse_number at_ ds rest radix).
Proof.
  intros H1 H2 H3. unfold parse_number. destruct (i64_from_str_radix ds radix); cbn; auto. split; [exact I|assumption].
Qed.

Lemma lex_digits_bind w i (k : bytes -> bytes -> lres Z) :
  suffix i w ->
  (forall ds rest, i = ds ++ rest -> lpost w T (k ds rest)) ->
  lpost w T (lbind (lex_digits i) k).
Proof.
  intros Hs Hk. unfold lex_digits. pose proof (take_while_post is_hexdigit i) as Hp.
  destruct (take_while is_hexdigit i) as [t rest|kk a n| |] eqn:E; cbn [lbind lpost] in *; auto.
  - apply Hk. now apply take_while_ok in E.
  - destruct Hp. split; [eapply suffix_trans; eauto|assumption].
Qed.

Lemma lex_int_post i : lpost i T (lex_int i).
Proof.
  unfold lex_int. destruct (starts_with [48; 120] i) as [after|] eqn:E1.
  { pose proof (starts_with_suffix _ _ _ E1) as Ha. apply lex_digits_bind; [exact Ha|].
    intros ds rest ->. apply parse_number_post; [exact Ha|rewrite app_length; lia|].
    eapply suffix_trans; [apply suffix_app|exact Ha]. }
  assert (Hdec : lpost i T
     (lbind (lex_digits match starts_with [45] i with Some r => r | None => i end)
        (fun _ rest => parse_number i (firstn (span_len i rest) i) rest 10))).
  { assert (Hwn : suffix (match starts_with [45] i with Some r => r | None => i end) i).
    { destruct (starts_with [45] i) eqn:E; [eapply starts_with_suffix; eauto|apply suffix_refl]. }
    apply lex_digits_bind; [exact Hwn|]. intros ds rest Heq.
    apply parse_number_post; [apply suffix_refl|rewrite firstn_length; lia|].
    eapply suffix_trans; [|exact Hwn]. rewrite Heq. apply suffix_app. }
  destruct i as [|b r]; [exact Hdec|].
  destruct (N.eq_dec b 48) as [->|N48].
  { apply lex_digits_bind; [apply suffix_refl|]. intros ds rest Heq.
    apply parse_number_post; [apply suffix_refl|rewrite Heq, app_length; lia|rewrite Heq; apply suffix_app]. }
  other_byte b Hdec.
Qed.

Lemma lex_int_range_post i : lpost i T (lex_int_range i).
Proof.
  unfold lex_int_range. eapply lpost_bind; [apply lex_int_post|].
  intros first rest1 _ Hr1. destruct (starts_with [46; 46] rest1) as [after|] eqn:E.
  - assert (Ha : suffix after i) by (eapply suffix_trans; [eapply starts_with_suffix; eauto|exact Hr1]).
    eapply lpost_bind; [eapply lpost_weaken; [apply lex_int_post|exact Ha|intros a Hx; exact Hx]|].
    intros last rest2 _ Hr2. destruct (last <? first)%Z; cbn.
    + split; [apply suffix_refl|apply span_len_le].
    + split; [exact I|assumption].
  - cbn. split; [exact I|assumption].
Qed.

(* ---- byte strings ---- *)
Lemma fixed_byte_post n radix i : lpost i T (fixed_byte n radix i).
Proof.
  unfold fixed_byte. pose proof (take_post n i) as Hp.
  destruct (take n i) as [ds rest|k a m| |] eqn:E; cbn [lbind lpost] in *; auto.
  apply take_ok in E. destruct (u8_from_digits ds radix); cbn.
  - split; [exact I|]. subst. apply suffix_app.
  - split; [apply suffix_refl|]. subst. rewrite app_length. lia.
Qed.

Lemma next_char_nonempty s c r : next_char s = Some (c, r) -> (1 <= length s)%nat.
Proof. destruct s; [discriminate|]. cbn. lia. Qed.

Lemma next_char_len s c r : next_char s = Some (c, r) -> (length c <= length s)%nat.
Proof. intros H. apply next_char_app in H. subst. rewrite app_length. lia. Qed.

Lemma quoted_go_post w full fuel : forall s acc,
  suffix full w -> suffix s full -> lpost w T (quoted_go fuel full s acc).
Proof.
  induction fuel as [|f IH]; intros s acc Hf Hs; cbn [quoted_go]; [exact I|].
  assert (Hmiss : lpost w (@T bytes) (LErr EMissingEndingQuote full (length full))) by (cbn; split; [assumption|lia]).
  destruct (next_char s) as [[c r]|] eqn:E; [|exact Hmiss].
  pose proof (suffix_trans _ _ _ (next_char_suffix _ _ _ E) Hs) as Hr.
  assert (Hrw : suffix r w) by (eapply suffix_trans; eauto).
  assert (Hdef : forall acc', lpost w T (quoted_go f full r acc')) by (intros; apply IH; auto).
  destruct c as [|b t]; [apply Hdef|].
  destruct (N.eq_dec b 92) as [->|N92].
  { destruct t; [|apply Hdef].
    destruct (next_char r) as [[c2 r2]|] eqn:E2; [|exact Hmiss].
    pose proof (suffix_trans _ _ _ (next_char_suffix _ _ _ E2) Hr) as Hr2.
    assert (Hdef2 : forall acc', lpost w T (quoted_go f full r2 acc')) by (intros; apply IH; auto).
    assert (Hesc : lpost w (@T bytes) (LErr EInvalidCharacterEscape r (length c2))).
    { cbn. split; [assumption|]. eapply next_char_len; eauto. }
    assert (Hbyte : forall n radix i, suffix i full ->
              lpost w T match fixed_byte n radix i with
                        | LOk b rest => quoted_go f full rest (acc ++ [b])
                        | LErr k s' n => LErr k s' n
                        | LPanic => LPanic
                        | LFuel => LFuel
                        end).
    { intros n radix i Hi. pose proof (fixed_byte_post n radix i) as Hp.
      destruct (fixed_byte n radix i) as [b' rest|k a m| |]; cbn [lpost] in Hp |- *; auto.
      - destruct Hp as [_ Hp]. apply IH; [assumption|eapply suffix_trans; eauto].
      - destruct Hp. split; [|assumption]. eapply suffix_trans; [eassumption|]. eapply suffix_trans; eauto. }
    destruct c2 as [|d t2]; [exact Hesc|].
    destruct t2 as [|d2 t2'].
    2:{ (* a multi-byte character after the backslash *)
        destruct d as [|p]; [exact Hesc|].
        repeat (destruct p as [p|p|]; try exact Hesc). }
    destruct (N.eq_dec d 34) as [->|N34]; [apply Hdef2|].
    destruct (N.eq_dec d 92) as [->|N92]; [apply Hdef2|].
    destruct (N.eq_dec d 120) as [->|N120]; [apply (Hbyte 2%nat 16%Z r2 Hr2)|].
    assert (Hoct : lpost w T
       (if (48 <=? d)%N && (d <=? 55)%N
        then match oct_byte r with
             | LOk b rest => quoted_go f full rest (acc ++ [b])
             | LErr k s' n => LErr k s' n
             | LPanic => LPanic
             | LFuel => LFuel
             end
        else LErr EInvalidCharacterEscape r 1%nat)).
    { destruct ((48 <=? d)%N && (d <=? 55)%N); [apply (Hbyte 3%nat 8%Z r Hr)|].
      cbn. split; [assumption|]. eapply next_char_nonempty; eauto. }
    other_byte d Hoct. }
  destruct (N.eq_dec b 34) as [->|N34].
  { destruct t; [|apply Hdef]. cbn. split; [exact I|assumption]. }
  destruct b as [|p]; [apply Hdef|].
  repeat (destruct p as [p|p|]; try apply Hdef; try contradiction).
Qed.

Lemma lex_quoted_post w i : suffix i w -> lpost w T (lex_quoted_string_as_vec i).
Proof. intros H. unfold lex_quoted_string_as_vec. apply quoted_go_post; [assumption|apply suffix_refl]. Qed.

Lemma lex_byte_sep_post i : lpost i T (lex_byte_sep i).
Proof.
  unfold lex_byte_sep. pose proof (take_post 1 i) as Hp.
  destruct (take 1 i) as [sep rest|k a m| |] eqn:E; cbn [lbind lpost] in *; auto.
  apply take_ok in E.
  assert (Hok : lpost i (@T unit) (LOk tt rest)) by (cbn; split; [exact I|subst; apply suffix_app]).
  assert (Herr : lpost i (@T unit) (LErr EExpectedName i (length sep))).
  { cbn. split; [apply suffix_refl|]. subst. rewrite app_length. lia. }
  destruct sep as [|b t]; [exact Herr|].
  destruct (N.eq_dec b 58) as [->|N58]; [destruct t; [exact Hok|exact Herr]|].
  destruct (N.eq_dec b 45) as [->|N45]; [destruct t; [exact Hok|exact Herr]|].
  destruct (N.eq_dec b 46) as [->|N46]; [destruct t; [exact Hok|exact Herr]|].
  other_byte b Herr.
Qed.

Lemma byte_string_go_post w fuel : forall s acc, suffix s w -> lpost w T (byte_string_go fuel s acc).
Proof.
  induction fuel as [|f IH]; intros s acc Hs; cbn [byte_string_go]; [exact I|].
  eapply lpost_bind; [eapply lpost_weaken; [apply (fixed_byte_post 2 16%Z)|exact Hs|intros a Hx; exact Hx]|].
  intros b rest _ Hr. pose proof (lex_byte_sep_post rest) as Hp.
  destruct (lex_byte_sep rest) as [u rest'|k a m| |]; cbn [lpost] in Hp |- *; try (split; [exact I|assumption]).
  apply IH. destruct Hp. eapply suffix_trans; eauto.
Qed.

Lemma lex_byte_string_post i : lpost i T (lex_byte_string i).
Proof.
  unfold lex_byte_string. eapply lpost_bind; [apply (fixed_byte_post 2 16%Z)|].
  intros b rest _ Hr. eapply lpost_bind; [eapply lpost_weaken; [apply lex_byte_sep_post|exact Hr|intros a Hx; exact Hx]|].
  intros _ rest' _ Hr'. now apply byte_string_go_post.
Qed.

(* ---- raw strings ---- *)
Lemma raw_go_suffix fuel n : forall s body b rest, raw_go fuel n s body = Some (b, rest) -> suffix rest s.
Proof.
  induction fuel as [|f IH]; intros s body b rest H; cbn [raw_go] in H; [discriminate|].
  destruct (next_char s) as [[c r]|] eqn:E; [|discriminate].
  pose proof (next_char_suffix _ _ _ E) as Hr.
  assert (Hdef : forall body', raw_go f n r body' = Some (b, rest) -> suffix rest s).
  { intros body' H'. eapply suffix_trans; [eapply IH; eauto|exact Hr]. }
  destruct c as [|x t]; [eapply Hdef; eauto|].
  destruct (N.eq_dec x 34) as [->|N34].
  { destruct t; [|eapply Hdef; eauto].
    destruct (Nat.leb n (count_hashes r)).
    - injection H as <- <-. eapply suffix_trans; [apply suffix_skipn|exact Hr].
    - eapply suffix_trans; [eapply IH; eauto|]. eapply suffix_trans; [apply suffix_skipn|exact Hr]. }
  revert H. generalize (Hdef (body ++ x :: t)). clear Hdef.
  destruct x as [|p]; [auto|].
  repeat (destruct p as [p|p|]; try (intros Hd; exact Hd); try contradiction).
Qed.

Lemma lex_raw_post i : lpost i T (lex_raw_string_as_str i).
Proof.
  unfold lex_raw_string_as_str. destruct (Nat.ltb 255 (count_hashes i)); [cbn; split; [apply suffix_refl|lia]|].
  pose proof (suffix_skipn (count_hashes i) i) as Hsk.
  destruct (skipn (count_hashes i) i) as [|b after] eqn:E; [cbn; split; [assumption|lia]|].
  assert (Herr : lpost i (@T (bytes * N)) (LErr EExpectedName (b :: after) (length (b :: after)))) by (cbn; split; [assumption|lia]).
  destruct (N.eq_dec b 34) as [->|N34].
  { destruct (raw_go (S (length after)) (count_hashes i) after []) as [[body rest]|] eqn:Er; cbn.
    - split; [exact I|]. eapply suffix_trans; [eapply raw_go_suffix; eauto|].
      eapply suffix_trans; [apply suffix_cons|exact Hsk].
    - split; [apply suffix_refl|lia]. }
  other_byte b Herr.
Qed.

Lemma lex_quoted_or_raw_post i : lpost i T (lex_quoted_or_raw_string i).
Proof.
  unfold lex_quoted_or_raw_string. destruct i as [|b r]; [cbn; split; [apply suffix_refl|lia]|].
  assert (Herr : lpost (b :: r) (@T (bytes * bytes_format)) (LErr EExpectedName (b :: r) (length (b :: r))))
    by (cbn; split; [apply suffix_refl|lia]).
  destruct (N.eq_dec b 34) as [->|N34].
  { eapply lpost_map; [apply lex_quoted_post; apply suffix_cons|]. intros; exact I. }
  destruct (N.eq_dec b 114) as [->|N114].
  { eapply lpost_map; [eapply lpost_weaken; [apply lex_raw_post|apply suffix_cons|intros a Hx; exact Hx]|]. intros; exact I. }
  other_byte b Herr.
Qed.

Lemma lex_bytes_post i : lpost i T (lex_bytes i).
Proof.
  unfold lex_bytes. destruct i as [|b r]; [cbn; split; [apply suffix_refl|lia]|].
  assert (Hbs : lpost (b :: r) T (lmap (fun x : bytes => (x, FByte)) (lex_byte_string (b :: r)))).
  { eapply lpost_map; [apply lex_byte_string_post|]. intros; exact I. }
  destruct (N.eq_dec b 34) as [->|N34]; [apply lex_quoted_or_raw_post|].
  destruct (N.eq_dec b 114) as [->|N114]; [apply lex_quoted_or_raw_post|].
  other_byte b Hbs.
Qed.

(* ---- names ---- *)
Lemma lex_list_name_post i : lpost i T (lex_list_name i).
Proof.
  unfold lex_list_name. destruct (starts_with [36] i) as [after|] eqn:E; [|cbn; split; [apply suffix_refl|lia]].
  pose proof (starts_with_suffix _ _ _ E) as Ha.
  destruct (take_while_go is_listname_char after) as [name rest] eqn:Et.
  apply take_while_go_app in Et.
  destruct name as [|x name']; [cbn; split; [assumption|lia]|].
  destruct ((hd 0%N (x :: name') =? 46)%N || (last (x :: name') 0%N =? 46)%N); cbn.
  - split; [assumption|lia].
  - split; [exact I|]. eapply suffix_trans; [|exact Ha]. rewrite Et. apply suffix_app.
Qed.

Lemma ident_go_post w fuel : forall s, suffix s w -> lpost w T (ident_go fuel s).
Proof.
  induction fuel as [|f IH]; intros s Hs; cbn [ident_go]; [exact I|].
  destruct (take_while_go is_ident_char s) as [seg rest] eqn:Et. apply take_while_go_app in Et.
  destruct seg as [|x seg']; [cbn; split; [assumption|lia]|].
  assert (Hr : suffix rest w) by (eapply suffix_trans; [|exact Hs]; rewrite Et; apply suffix_app).
  assert (Hok : lpost w (@T unit) (LOk tt rest)) by (cbn; split; [exact I|assumption]).
  destruct rest as [|b rest']; [exact Hok|].
  destruct (N.eq_dec b 46) as [->|N46]; [apply IH; eapply suffix_trans; [apply suffix_cons|exact Hr]|].
  other_byte b Hok.
Qed.

Lemma lex_ident_name_post i : lpost i (fun n => (length n <= length i)%nat) (lex_ident_name i).
Proof.
  unfold lex_ident_name. eapply lpost_bind; [apply ident_go_post; apply suffix_refl|].
  intros _ rest _ Hr. cbn. split; [rewrite firstn_length; lia|assumption].
Qed.

(* ---- IP addresses ---- *)
Lemma lex_ip_post i : lpost i T (lex_ip i).
Proof.
  unfold lex_ip, match_addr_or_cidr. pose proof (take_while_post is_ip_char i) as Hp.
  destruct (take_while is_ip_char i) as [chunk rest|k a n| |] eqn:E; cbn [lbind lpost] in *; auto.
  apply take_while_ok in E. destruct (parse_addr chunk); cbn.
  - split; [exact I|]. subst. apply suffix_app.
  - split; [apply suffix_refl|]. subst. rewrite app_length. lia.
Qed.

Lemma digits_val_nonneg radix s : forall acc v, (0 <= radix)%Z -> (0 <= acc)%Z -> digits_val radix s acc = Some v -> (0 <= v)%Z.
Proof.
  induction s as [|b r IH]; intros acc v Hr Ha H; cbn [digits_val] in H.
  - injection H as <-. exact Ha.
  - destruct (Z.of_N (hexval b) <? radix)%Z; [|discriminate]. eapply IH; [exact Hr| |exact H]. nia.
Qed.

Lemma parse_prefix_len_nonneg s n : parse_prefix_len s = Some n -> (0 <= n)%Z.
Proof.
  unfold parse_prefix_len. destruct s as [|b r]; [discriminate|].
  destruct (forallb is_digit (b :: r)); [|discriminate].
  destruct (digits_val 10 (b :: r) 0%Z) as [v|] eqn:E; [|discriminate].
  destruct (v <? 256)%Z; [|discriminate]. intros H. injection H as <-.
  eapply digits_val_nonneg; [| |exact E]; lia.
Qed.

Lemma parse_cidr_wf chunk it : parse_cidr chunk = inl it -> ip_item_wfb it = true.
Proof.
  unfold parse_cidr. destruct (rfind_byte 47 chunk 0 None) as [i|].
  - destruct (parse_loose_ip (firstn i chunk)) as [a|]; [|discriminate].
    destruct (parse_prefix_len (skipn (S i) chunk)) as [n|] eqn:En; [|discriminate].
    apply parse_prefix_len_nonneg in En.
    destruct a as [v|v].
    + destruct (Z.ltb_spec 32 n) as [Hgt|Hle]; [discriminate|].
      destruct (v mod 2 ^ (32 - n) =? 0)%Z eqn:Em; [|discriminate]. intros H. injection H as <-.
      cbn [ip_item_wfb]. rewrite Em. replace (0 <=? n)%Z with true by lia. replace (n <=? 32)%Z with true by lia. reflexivity.
    + destruct (Z.ltb_spec 128 n) as [Hgt|Hle]; [discriminate|].
      destruct (v mod 2 ^ (128 - n) =? 0)%Z eqn:Em; [|discriminate]. intros H. injection H as <-.
      cbn [ip_item_wfb]. rewrite Em. replace (0 <=? n)%Z with true by lia. replace (n <=? 128)%Z with true by lia. reflexivity.
  - destruct (parse_loose_ip chunk) as [[v|v]|]; [| |discriminate]; intros H; injection H as <-; cbn [ip_item_wfb].
    + rewrite Z.sub_diag. cbn. now rewrite Z.mod_1_r.
    + rewrite Z.sub_diag. cbn. now rewrite Z.mod_1_r.
Qed.

Lemma find_sub_le p : forall s i j, find_sub p s i = Some j -> (j <= i + length s)%nat.
Proof.
  induction s as [|b r IH]; intros i j H; cbn [find_sub] in H.
  - destruct (starts_with p []); [|discriminate]. injection H as <-. lia.
  - destruct (starts_with p (b :: r)).
    + injection H as <-. lia.
    + apply IH in H. cbn [length]. lia.
Qed.

Lemma skipn_app_suffix {A} n (a b : list A) : (n <= length a)%nat -> skipn n (a ++ b) = skipn n a ++ b.
Proof. intros H. rewrite skipn_app. replace (n - length a)%nat with 0%nat by lia. reflexivity. Qed.

Lemma lex_ip_range_post i : lpost i (fun x => ip_item_wfb x = true) (lex_ip_range i).
Proof.
  unfold lex_ip_range, match_addr_or_cidr. pose proof (take_while_post is_ip_char i) as Hp.
  destruct (take_while is_ip_char i) as [chunk rest|k a n| |] eqn:E; cbn [lbind lpost] in *; auto.
  apply take_while_ok in E. clear Hp.
  assert (Hrest : suffix rest i) by (subst; apply suffix_app).
  assert (Hlen : (length chunk <= length i)%nat) by (subst; rewrite app_length; lia).
  assert (Hfull : lpost i (fun x => ip_item_wfb x = true) (LErr EIncompatibleRangeBounds i (length chunk)))
    by (cbn; split; [apply suffix_refl|assumption]).
  destruct (find_sub [46; 46] chunk 0) as [j|] eqn:Ef.
  - apply find_sub_le in Ef. cbn in Ef.
    destruct (parse_addr (firstn j chunk)) as [first|]; [|cbn; split; [apply suffix_refl|lia]].
    destruct (parse_addr (skipn (j + 2) chunk)) as [last|].
    2:{ cbn. split; [apply suffix_skipn|]. rewrite !skipn_length. lia. }
    destruct first as [a|a], last as [b|b]; try exact Hfull.
    + destruct (a <=? b)%Z; [|exact Hfull]. cbn. auto.
    + destruct (a <=? b)%Z; [|exact Hfull]. cbn. auto.
  - destruct (parse_cidr chunk) as [it|e] eqn:Ec.
    + cbn. split; [eapply parse_cidr_wf; eauto|assumption].
    + assert (Hsp : (match find_sub [47%N] chunk 0 with Some x => x | None => length chunk end <= length chunk)%nat).
      { destruct (find_sub [47%N] chunk 0) eqn:E7; [apply find_sub_le in E7; cbn in E7; lia|lia]. }
      destruct e; cbn [lpost]; try (split; [apply suffix_refl|lia]).
      split; [apply suffix_skipn|]. rewrite skipn_length. lia.
Qed.

(* ---- index literals ---- *)
Lemma lex_field_index_post i : lpost i T (lex_field_index i).
Proof.
  unfold lex_field_index. destruct (starts_with [42] i) as [rest|] eqn:E.
  { cbn. split; [exact I|]. eapply starts_with_suffix; eauto. }
  assert (Herr : lpost i (@T raw_index) (LErr EExpectedLiteral i (length i))) by (cbn; split; [apply suffix_refl|lia]).
  assert (Hint : lpost i T
     match lex_int i with
     | LOk v rest =>
         if (0 <=? v)%Z && (v <? 4294967296)%Z then LOk (RIArr (Z.to_N v)) rest
         else LErr EExpectedLiteral i (length i)
     | LErr _ _ _ => LErr EExpectedLiteral i (length i)
     | LPanic => LPanic
     | LFuel => LFuel
     end).
  { pose proof (lex_int_post i) as Hp. destruct (lex_int i) as [v rest|k a n| |]; cbn [lpost] in Hp |- *; auto.
    destruct ((0 <=? v)%Z && (v <? 4294967296)%Z); [|exact Herr]. cbn. destruct Hp. auto. }
  destruct i as [|b r]; [exact Hint|].
  destruct (N.eq_dec b 34) as [->|N34].
  { pose proof (lex_bytes_post (34 :: r)) as Hp.
    destruct (lex_bytes (34 :: r)) as [[x fmt] rest|k a n| |]; cbn [lpost] in Hp |- *; auto.
    destruct (utf8_valid x); [|exact Herr]. cbn. destruct Hp. auto. }
  other_byte b Hint.
Qed.

Theorem lexers_ok : lex_facts.
Proof.
  constructor.
  - apply lex_int_post.
  - apply lex_bytes_post.
  - apply lex_ip_post.
  - apply lex_int_range_post.
  - apply lex_ip_range_post.
  - apply lex_list_name_post.
  - apply lex_ident_name_post.
  - apply lex_field_index_post.
  - apply lex_raw_post.
  - apply lex_quoted_or_raw_post.
Qed.
