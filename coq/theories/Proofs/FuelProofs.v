(* Termination of the parser model: the fuel handed to the recursive descent
   by parse_filter / parse_value (8 * length + 16) always suffices - the model
   never answers LFuel.  Every recursive call either works on a strictly
   shorter input or belongs to a chain of at most five calls on the same input
   (call arguments -> argument -> logical -> simple -> index expression). *)
From Coq Require Import List ZArith NArith Bool Lia Arith.
From WF Require Import Base.Bytes Sem.RangeSet Sem.Matchers Lang.Types Lang.Ast Lang.Context
     Sem.Compile Spec.Typing Spec.C13 Parse.Lex Parse.Parser
     Proofs.TypingProofs Proofs.ParserProofs Proofs.LexFacts Proofs.LexBase Proofs.LexSafeProofs.
Import ListNotations.
Local Notation length := List.length (only parsing).
Local Open Scope N_scope.
Local Arguments regex_compile : simpl never.
Local Arguments wildcard_compile : simpl never.

Definition nf {A} (r : lres A) : Prop := r <> LFuel.

Lemma safe_nf {A} (r : lres A) : safe r -> nf r.
Proof. intros [_ H]. exact H. Qed.

Lemma nf_bind {A B} (r : lres A) (k : A -> bytes -> lres B) :
  nf r -> (forall a rest, r = LOk a rest -> nf (k a rest)) -> nf (lbind r k).
Proof. destruct r as [a rest|kk s n| |]; cbn; intros H Hk; try discriminate; [now apply Hk|contradiction]. Qed.

Lemma nf_map {A B} (f : A -> B) (r : lres A) : nf r -> nf (lmap f r).
Proof. intros H. unfold lmap. apply nf_bind; [exact H|]. intros; discriminate. Qed.

Lemma nf_err {A} k s n : nf (@LErr A k s n). Proof. discriminate. Qed.
Lemma nf_ok {A} (a : A) rest : nf (LOk a rest). Proof. discriminate. Qed.

(* rest of an accepted result, from the span postcondition *)
Lemma lpost_ok_le {A} i (P : A -> Prop) r a rest :
  lpost i P r -> r = LOk a rest -> (length rest <= length i)%nat.
Proof. intros H ->. destruct H as [_ H]. now apply suffix_length. Qed.
Lemma lpost_ok_P {A} i (P : A -> Prop) r a rest : lpost i P r -> r = LOk a rest -> P a.
Proof. intros H ->. exact (proj1 H). Qed.
Lemma lpost_ok_suffix {A} i (P : A -> Prop) r a rest : lpost i P r -> r = LOk a rest -> suffix rest i.
Proof. intros H ->. exact (proj2 H). Qed.

Lemma lbind_ok {A B} (r : lres A) (k : A -> bytes -> lres B) b rest :
  lbind r k = LOk b rest -> exists a rest0, r = LOk a rest0 /\ k a rest0 = LOk b rest.
Proof. destruct r as [a rest0|kk s n| |]; cbn; intros H; try discriminate. eauto. Qed.

Lemma lmap_ok {A B} (f : A -> B) (r : lres A) b rest :
  lmap f r = LOk b rest -> exists a, r = LOk a rest /\ b = f a.
Proof. unfold lmap. intros H. apply lbind_ok in H. destruct H as (a & rest0 & -> & H). injection H as <- <-. eauto. Qed.

(* ---- the lexers consume at least one byte when they succeed ---- *)
Lemma starts_with_length p s r : starts_with p s = Some r -> length s = (length p + length r)%nat.
Proof. intros H. apply ParserProofs.starts_with_app in H. subst. now rewrite app_length. Qed.

Lemma take_while_strict f i t rest : take_while f i = LOk t rest -> (length rest < length i)%nat.
Proof.
  unfold take_while. destruct (take_while_go f i) as [t' rest'] eqn:E. destruct t' as [|x t']; [discriminate|].
  intros H. injection H as <- <-. apply LexFacts.take_while_go_app in E. subst. cbn. rewrite app_length. lia.
Qed.

Lemma parse_number_ok a d r radix v rest : parse_number a d r radix = LOk v rest -> rest = r.
Proof. unfold parse_number. destruct (i64_from_str_radix d radix); intros H; [now injection H as _ <-|discriminate]. Qed.

Lemma lex_int_strict i v rest : lex_int i = LOk v rest -> (length rest < length i)%nat.
Proof.
  unfold lex_int. destruct (starts_with [48; 120] i) as [after|] eqn:E1.
  { intros H. apply lbind_ok in H. destruct H as (ds & rest0 & Hd & Hp). apply parse_number_ok in Hp. subst rest0.
    apply take_while_strict in Hd. apply starts_with_length in E1. cbn in E1. lia. }
  assert (Hdec : lbind (lex_digits match starts_with [45] i with Some r => r | None => i end)
                   (fun _ rest => parse_number i (firstn (span_len i rest) i) rest 10%Z) = LOk v rest ->
                 (length rest < length i)%nat).
  { intros H. apply lbind_ok in H. destruct H as (ds & rest0 & Hd & Hp). apply parse_number_ok in Hp. subst rest0.
    apply take_while_strict in Hd. destruct (starts_with [45] i) eqn:E; [apply starts_with_length in E; cbn in E; lia|lia]. }
  destruct i as [|b r]; [exact Hdec|].
  destruct (N.eq_dec b 48) as [->|N48].
  { intros H. apply lbind_ok in H. destruct H as (ds & rest0 & Hd & Hp). apply parse_number_ok in Hp. subst rest0.
    now apply take_while_strict in Hd. }
  other_byte b Hdec.
Qed.

Lemma lex_ip_strict i v rest : lex_ip i = LOk v rest -> (length rest < length i)%nat.
Proof.
  unfold lex_ip, match_addr_or_cidr. intros H. apply lbind_ok in H. destruct H as (c & rest0 & Hc & Hp).
  apply take_while_strict in Hc. destruct (parse_addr c); [|discriminate]. injection Hp as _ <-. exact Hc.
Qed.

Lemma lex_ip_range_strict i v rest : lex_ip_range i = LOk v rest -> (length rest < length i)%nat.
Proof.
  unfold lex_ip_range, match_addr_or_cidr. intros H. apply lbind_ok in H. destruct H as (c & rest0 & Hc & Hp).
  apply take_while_strict in Hc.
  assert (rest = rest0); [|subst; exact Hc].
  revert Hp. repeat match goal with
                    | |- context [match ?x with _ => _ end] => destruct x
                    end; intros Hp; try discriminate Hp; now injection Hp as _ <-.
Qed.

Lemma lex_int_range_strict i v rest : lex_int_range i = LOk v rest -> (length rest < length i)%nat.
Proof.
  unfold lex_int_range. intros H. apply lbind_ok in H. destruct H as (first & rest1 & H1 & H2).
  apply lex_int_strict in H1. destruct (starts_with [46; 46] rest1) as [after|] eqn:E.
  - apply lbind_ok in H2. destruct H2 as (last & rest2 & H3 & H4). apply lex_int_strict in H3.
    apply starts_with_length in E. destruct (last <? first)%Z; [discriminate|]. injection H4 as _ <-. lia.
  - injection H2 as _ <-. exact H1.
Qed.

Lemma lex_bytes_strict i v rest : lex_bytes i = LOk v rest -> (length rest < length i)%nat.
Proof.
  unfold lex_bytes. destruct i as [|b r]; [discriminate|].
  assert (Hqr : lex_quoted_or_raw_string (b :: r) = LOk v rest -> (length rest < length (b :: r))%nat).
  { unfold lex_quoted_or_raw_string.
    assert (Herr : @LErr (bytes * bytes_format) EExpectedName (b :: r) (length (b :: r)) = LOk v rest ->
                   (length rest < length (b :: r))%nat) by discriminate.
    destruct (N.eq_dec b 34) as [->|N34].
    { intros H. apply lmap_ok in H. destruct H as (x & H & _).
      pose proof (lpost_ok_le _ _ _ _ _ (lex_quoted_post r r (suffix_refl r)) H). cbn. lia. }
    destruct (N.eq_dec b 114) as [->|N114].
    { intros H. apply lmap_ok in H. destruct H as (x & H & _).
      pose proof (lpost_ok_le _ _ _ _ _ (lex_raw_post r) H). cbn. lia. }
    other_byte b Herr. }
  assert (Hbs : lmap (fun x : bytes => (x, FByte)) (lex_byte_string (b :: r)) = LOk v rest ->
                (length rest < length (b :: r))%nat).
  { intros H. apply lmap_ok in H. destruct H as (x & H & _). unfold lex_byte_string in H.
    apply lbind_ok in H. destruct H as (hb & rest0 & H0 & H). unfold hex_byte in H0.
    pose proof (fixed_byte_shorter _ _ _ _ _ H0) as Hl.
    apply lbind_ok in H. destruct H as (u & rest1 & H1 & H).
    pose proof (lpost_ok_le _ _ _ _ _ (lex_byte_sep_post rest0) H1).
    pose proof (lpost_ok_le _ _ _ _ _ (byte_string_go_post rest1 _ rest1 [hb] (suffix_refl _)) H). lia. }
  destruct (N.eq_dec b 34) as [->|N34]; [exact Hqr|].
  destruct (N.eq_dec b 114) as [->|N114]; [exact Hqr|].
  other_byte b Hbs.
Qed.

Lemma ident_go_strict fuel : forall s rest, ident_go fuel s = LOk tt rest -> (length rest < length s)%nat.
Proof.
  induction fuel as [|f IH]; intros s rest H; cbn [ident_go] in H; [discriminate|].
  destruct (take_while_go is_ident_char s) as [seg r] eqn:Et. apply LexFacts.take_while_go_app in Et.
  destruct seg as [|x seg']; [discriminate|].
  assert (Hr : (length r < length s)%nat) by (subst s; cbn; rewrite app_length; lia).
  assert (Hok : LOk tt r = LOk tt rest -> (length rest < length s)%nat) by (intros E; now injection E as <-).
  destruct r as [|b r']; [exact (Hok H)|].
  destruct (N.eq_dec b 46) as [->|N46]; [apply IH in H; cbn in Hr; lia|].
  revert H. other_byte b Hok.
Qed.

Lemma lex_ident_name_strict i name rest : lex_ident_name i = LOk name rest -> (length rest < length i)%nat.
Proof.
  unfold lex_ident_name. intros H. apply lbind_ok in H. destruct H as ([] & rest0 & H0 & H).
  injection H as _ <-. eapply ident_go_strict; eauto.
Qed.

(* ---- the loops of Parse/Parser.v that run on their own fuel ---- *)
Lemma expect_nf s i : nf (expect s i).
Proof. unfold expect. destruct (starts_with s i); discriminate. Qed.

Lemma skip_space_le s : (length (skip_space s) <= length s)%nat.
Proof. apply suffix_length, skip_space_suffix. Qed.

Lemma brace_items_nf {A} (lex1 : bytes -> lres A) :
  (forall i, nf (lex1 i)) ->
  (forall i a rest, lex1 i = LOk a rest -> (length rest < length i)%nat) ->
  forall fuel input acc, (length input < fuel)%nat -> nf (brace_items fuel lex1 input acc).
Proof.
  intros Hnf Hst. induction fuel as [|f IH]; intros input acc Hf; [lia|]. cbn [brace_items].
  destruct (starts_with [125] (skip_space input)); [discriminate|].
  apply nf_bind; [apply Hnf|]. intros x rest Hx. apply IH. apply Hst in Hx.
  pose proof (skip_space_le input). lia.
Qed.

Lemma brace_list_nf {A} (lex1 : bytes -> lres A) input :
  (forall i, nf (lex1 i)) ->
  (forall i a rest, lex1 i = LOk a rest -> (length rest < length i)%nat) ->
  nf (lex_brace_list lex1 input).
Proof.
  intros Hnf Hst. unfold lex_brace_list. apply nf_bind; [apply expect_nf|].
  intros [] rest H. apply brace_items_nf; auto.
  unfold expect in H. destruct (starts_with [123] input) eqn:E; [|discriminate]. injection H as <-.
  apply starts_with_length in E. cbn in E. lia.
Qed.

Lemma lex_indexes_nf sch st fuel : forall input t acc, (length input < fuel)%nat -> nf (lex_indexes sch st fuel input t acc).
Proof.
  induction fuel as [|f IH]; intros input t acc Hf; [lia|]. cbn [lex_indexes].
  destruct (starts_with [91] input) as [rest|] eqn:E; [|discriminate].
  apply starts_with_length in E. cbn in E.
  apply nf_bind; [apply safe_nf, lex_field_index_safe|]. intros idx rest1 H1.
  pose proof (lpost_ok_le _ _ _ _ _ (lex_field_index_post _) H1) as L1. pose proof (skip_space_le rest) as L0.
  apply nf_bind; [apply expect_nf|]. intros [] rest2 H2.
  pose proof (lpost_ok_le _ _ _ _ _ (expect_post _ _) H2) as L2. pose proof (skip_space_le rest1) as L3.
  destruct (index_step t idx); [|discriminate]. apply IH. lia.
Qed.

Lemma lex_regex_nf i : nf (lex_regex i).
Proof.
  unfold lex_regex. destruct i as [|b r]; [discriminate|].
  assert (Hdef : nf (@LErr (bytes * option N) EExpectedName (b :: r) (length (b :: r)))) by discriminate.
  destruct (N.eq_dec b 34) as [->|N34].
  { destruct (regex_scan_go r false) as [[pat rest]|]; [|discriminate]. destruct (regex_compile pat); discriminate. }
  destruct (N.eq_dec b 114) as [->|N114].
  { apply nf_bind; [apply safe_nf, lex_raw_safe|]. intros p rest _. destruct (regex_compile (fst p)); discriminate. }
  other_byte b Hdef.
Qed.

Lemma lex_wildcard_nf st i : nf (lex_wildcard st i).
Proof.
  unfold lex_wildcard. apply nf_bind; [apply safe_nf, lex_quoted_or_raw_safe|].
  intros p rest _. destruct (wildcard_compile (st_star_limit st) (fst p)); discriminate.
Qed.

Lemma lex_rhs_nf t i : nf (lex_rhs t i).
Proof.
  unfold lex_rhs. destruct t; try discriminate.
  - apply nf_map, safe_nf, lex_bytes_safe.
  - apply nf_map, safe_nf, lex_int_safe.
  - apply nf_map, safe_nf, lex_ip_safe.
Qed.

(* ================= the parser ================= *)
Section Fuel.
Variable sch : scheme.
Variable st : settings.
Local Notation maxd := (st_max_depth st).
Local Notation PP := (fun w f => parser_post sch st w lexers_ok f).

Ltac nfauto :=
  repeat first
    [ discriminate
    | match goal with
      | |- nf (lbind (lex_list_name _) _) => apply nf_bind; [apply safe_nf, lex_list_name_safe|intros ? ? _]
      | |- nf (lbind (lex_int _) _) => apply nf_bind; [apply safe_nf, lex_int_safe|intros ? ? _]
      | |- nf (lbind (lex_bytes _) _) => apply nf_bind; [apply safe_nf, lex_bytes_safe|intros ? ? _]
      | |- nf (lbind (lex_rhs _ _) _) => apply nf_bind; [apply lex_rhs_nf|intros ? ? _]
      | |- nf (lbind (lex_regex _) _) => apply nf_bind; [apply lex_regex_nf|intros ? ? _]
      | |- nf (lbind (lex_wildcard _ _) _) => apply nf_bind; [apply lex_wildcard_nf|intros ? ? _]
      | |- nf (lbind (lex_brace_list lex_int_range _) _) =>
          apply nf_bind; [apply brace_list_nf; [intros; apply safe_nf, lex_int_range_safe|exact lex_int_range_strict]|intros ? ? _]
      | |- nf (lbind (lex_brace_list lex_ip_range _) _) =>
          apply nf_bind; [apply brace_list_nf; [intros; apply safe_nf, lex_ip_range_safe|exact lex_ip_range_strict]|intros ? ? _]
      | |- nf (lbind (lex_brace_list lex_bytes _) _) =>
          apply nf_bind; [apply brace_list_nf; [intros; apply safe_nf, lex_bytes_safe|exact lex_bytes_strict]|intros ? ? _]
      | |- nf (match ?x with _ => _ end) => destruct x
      | |- nf (if ?c then _ else _) => destruct c
      end ].

Lemma with_lhs_nf f d input lhs : nf (lex_with_lhs sch st (S f) d input lhs).
Proof. cbn [lex_with_lhs]. cbv zeta. nfauto. Qed.

Lemma okL_combine d lhs op rhs tl tr :
  okL sch st d lhs -> okL sch st d rhs -> ty_lexpr sch lhs = Some tl -> ty_lexpr sch rhs = Some tr ->
  types_combinable tl tr = true -> okL sch st d (combine lhs op rhs).
Proof.
  intros [[t1 H1] D1] [[t2 H2] D2] E1 E2 Hc.
  rewrite (wt_ty_lexpr sch lhs t1 H1) in E1. injection E1 as <-.
  rewrite (wt_ty_lexpr sch rhs t2 H2) in E2. injection E2 as <-.
  apply combinable_eq in Hc; [|eapply wt_lres; eauto|eapply wt_lres; eauto]. subst t2.
  split; [exists t1; now apply wt_combine|rewrite depth_combine; lia].
Qed.

Lemma combining_le i : (length (snd (lex_combining_op i)) <= length i)%nat.
Proof. apply suffix_length, combining_suffix. Qed.

Lemma lex_alts_strict {A} (alts : list (bytes * A)) :
  Forall (fun p => fst p <> []) alts ->
  forall i a r, lex_alts alts i = Some (a, r) -> (length r < length i)%nat.
Proof.
  induction 1 as [|[t x] alts Ht _ IH]; intros i a r H; cbn in H; [discriminate|].
  destruct (starts_with t i) eqn:E.
  - injection H as <- <-. apply starts_with_length in E. cbn in Ht. destruct t; [contradiction|]. cbn in E. lia.
  - eauto.
Qed.

Lemma combining_strict i op : fst (lex_combining_op i) = Some op -> (length (snd (lex_combining_op i)) < length i)%nat.
Proof.
  unfold lex_combining_op. destruct (lex_alts logical_ops (skip_space i)) as [[o r]|] eqn:E; cbn; [|discriminate].
  intros _. apply lex_alts_strict in E; [|repeat constructor; discriminate].
  pose proof (skip_space_le i). pose proof (skip_space_le r). lia.
Qed.

(* ---- accepted results are strictly shorter than the input ---- *)
Lemma index_strict f d input e rest : (d <= maxd)%N ->
  lex_index_expr sch st f d input = LOk e rest -> (length rest < length input)%nat.
Proof.
  intros Hd H. destruct f as [|f]; [discriminate|]. cbn [lex_index_expr] in H.
  destruct (lex_ident_name input) as [name rest0|k a n| |] eqn:En; try discriminate.
  apply lex_ident_name_strict in En.
  destruct (scheme_get sch name) as [[i|i]|] eqn:Eg; [| |discriminate].
  - destruct (field_ty sch i) as [t|]; [|discriminate]. apply lmap_ok in H. destruct H as (idx & H & _).
    pose proof (lpost_ok_le _ _ _ _ _
      (lex_indexes_post lexers_ok sch st rest0 t _ rest0 t [] (suffix_refl _) eq_refl) H). lia.
  - unfold increase in H. destruct (N.leb_spec maxd d) as [|Hlt]; [discriminate|].
    destruct (lex_call sch st f (d + 1) rest0 i) as [a rest1|k a n| |] eqn:Ec; try discriminate.
    pose proof (ih_call sch st rest0 f (PP rest0 f) (d + 1)%N rest0 i ltac:(lia) (scheme_get_fn _ _ _ Eg)
                  (suffix_refl _)) as Hc.
    pose proof (lpost_ok_le _ _ _ _ _ Hc Ec) as L1.
    destruct (ty_call sch i a) as [t'|]; [|discriminate]. apply lmap_ok in H. destruct H as (idx & H & _).
    pose proof (lpost_ok_le _ _ _ _ _
      (lex_indexes_post lexers_ok sch st rest1 t' _ rest1 t' [] (suffix_refl _) eq_refl) H). lia.
Qed.

Lemma with_lhs_le f d input lhs e rest : okI sch st d lhs ->
  lex_with_lhs sch st f d input lhs = LOk e rest -> (length rest <= length input)%nat.
Proof.
  intros Hl H. exact (lpost_ok_le _ _ _ _ _ (ih_with_lhs sch st input f (PP input f) d input lhs Hl (suffix_refl _)) H).
Qed.

Lemma simple_strict f d input e rest : (d <= maxd)%N ->
  lex_simple sch st f d input = LOk e rest -> (length rest < length input)%nat.
Proof.
  intros Hd H. destruct f as [|f]; [discriminate|]. cbn [lex_simple] in H.
  destruct (starts_with [40] input) as [r0|] eqn:E1.
  { apply starts_with_length in E1. cbn in E1.
    apply lbind_ok in H. destruct H as (d' & x & Hi & H). unfold increase in Hi.
    destruct (N.leb_spec maxd d) as [|Hlt]; [discriminate|]. injection Hi as <- <-.
    apply lbind_ok in H. destruct H as (e1 & rest1 & H1 & H).
    pose proof (lpost_ok_le _ _ _ _ _ (ih_logical sch st _ f (PP (skip_space r0) f) (d + 1)%N (skip_space r0)
                                         ltac:(lia) (suffix_refl _)) H1) as L1.
    apply lbind_ok in H. destruct H as ([] & rest2 & H2 & H). injection H as _ <-.
    pose proof (lpost_ok_le _ _ _ _ _ (expect_post _ _) H2).
    pose proof (skip_space_le r0). pose proof (skip_space_le rest1). lia. }
  destruct (lex_alts unary_ops input) as [[u r0]|] eqn:E2.
  { apply lex_alts_strict in E2; [|repeat constructor; discriminate].
    apply lbind_ok in H. destruct H as (d' & x & Hi & H). unfold increase in Hi.
    destruct (N.leb_spec maxd d) as [|Hlt]; [discriminate|]. injection Hi as <- <-.
    apply lbind_ok in H. destruct H as (e1 & rest1 & H1 & H). injection H as _ <-.
    pose proof (lpost_ok_le _ _ _ _ _ (ih_simple sch st _ f (PP (skip_space r0) f) (d + 1)%N (skip_space r0)
                                         ltac:(lia) (suffix_refl _)) H1) as L1.
    pose proof (skip_space_le r0). lia. }
  destruct (lex_quant_call input) as [[q r0]|] eqn:E3.
  { pose proof (suffix_length _ _ (quant_call_suffix _ _ _ E3)) as L0.
    apply lbind_ok in H. destruct H as (d' & x & Hi & H). unfold increase in Hi.
    destruct (N.leb_spec maxd d) as [|Hlt]; [discriminate|]. injection Hi as <- <-.
    apply lbind_ok in H. destruct H as ([] & rest1 & H1 & H).
    unfold expect in H1. destruct (starts_with [40] (skip_space r0)) eqn:Ep; [|discriminate]. injection H1 as ->.
    apply starts_with_length in Ep. cbn in Ep. cbv zeta in H.
    destruct (lex_arg sch st f (d + 1) (skip_space rest1)) as [a rest2|k aa n| |] eqn:Ea; try discriminate.
    pose proof (lpost_ok_le _ _ _ _ _ (ih_arg sch st _ f (PP (skip_space rest1) f) (d + 1)%N (skip_space rest1)
                                         ltac:(lia) (suffix_refl _)) Ea) as L2.
    assert (Hdone : forall e0, lbind (expect [41] (skip_space rest2)) (fun _ rest3 => LOk e0 rest3) = LOk e rest ->
                               (length rest < length input)%nat).
    { intros e0 Hx. apply lbind_ok in Hx. destruct Hx as ([] & rest3 & H3 & Hx). injection Hx as _ <-.
      pose proof (lpost_ok_le _ _ _ _ _ (expect_post _ _) H3).
      pose proof (skip_space_le r0). pose proof (skip_space_le rest1). pose proof (skip_space_le rest2). lia. }
    destruct a as [ie|r|le].
    - destruct (Nat.ltb 0 (map_each_count (iexpr_idx ie))); [discriminate|].
      destruct (ty_iexpr sch ie) as [[| | | |[]|]|]; try discriminate. eapply Hdone; eauto.
    - discriminate.
    - destruct (ty_lexpr sch le) as [[| | | |[]|]|]; try discriminate. eapply Hdone; eauto. }
  apply lbind_ok in H. destruct H as (lhs & rest0 & H0 & H).
  pose proof (index_strict _ _ _ _ _ Hd H0) as L0.
  pose proof (lpost_ok_P _ _ _ _ _ (ih_index sch st input f (PP input f) d input Hd (suffix_refl _)) H0) as Hl.
  pose proof (with_lhs_le _ _ _ _ _ _ Hl H). lia.
Qed.

Lemma more_le f d lhs minp la e rest : (d <= maxd)%N -> okL sch st d lhs ->
  lex_more sch st f d lhs minp la = LOk e rest -> (length rest <= length (snd la))%nat.
Proof.
  intros Hd Hl H.
  exact (lpost_ok_le _ _ _ _ _ (ih_more sch st (snd la) f (PP (snd la) f) d lhs minp la Hd Hl (suffix_refl _)) H).
Qed.

Lemma logical_strict f d input e rest : (d <= maxd)%N ->
  lex_logical sch st f d input = LOk e rest -> (length rest < length input)%nat.
Proof.
  intros Hd H. destruct f as [|f]; [discriminate|]. cbn [lex_logical] in H.
  apply lbind_ok in H. destruct H as (lhs & rest0 & H0 & H).
  pose proof (simple_strict _ _ _ _ _ Hd H0) as L0.
  pose proof (lpost_ok_P _ _ _ _ _ (ih_simple sch st input f (PP input f) d input Hd (suffix_refl _)) H0) as Hl.
  pose proof (more_le _ _ _ _ _ _ _ Hd Hl H). pose proof (combining_le rest0). lia.
Qed.

Lemma arg_strict f d input a rest : (d <= maxd)%N ->
  lex_arg sch st f d input = LOk a rest -> (length rest < length input)%nat.
Proof.
  intros Hd H. destruct f as [|f]; [discriminate|]. cbn [lex_arg] in H.
  destruct (first_chars input) as [[c1 c2] c3]. cbv zeta in H.
  assert (Hlit : forall r : lres arg,
     r = (match lex_ip input with
          | LOk a rest => LOk (ALit (RIp a)) rest
          | LPanic => LPanic
          | LFuel => LFuel
          | LErr _ _ _ =>
              match lex_int input with
              | LOk z rest => LOk (ALit (RInt z)) rest
              | LPanic => LPanic
              | LFuel => LFuel
              | LErr _ _ _ =>
                  match lex_bytes input with
                  | LOk p rest => LOk (ALit (RBytes (fst p) (snd p))) rest
                  | LPanic => LPanic
                  | LFuel => LFuel
                  | LErr _ _ _ => LErr EEOF input (length input)
                  end
              end
          end) -> r = LOk a rest -> (length rest < length input)%nat).
  { intros r -> Hr.
    destruct (lex_ip input) eqn:E1; try discriminate; [injection Hr as _ <-; eapply lex_ip_strict; eauto|].
    destruct (lex_int input) eqn:E2; try discriminate; [injection Hr as _ <-; eapply lex_int_strict; eauto|].
    destruct (lex_bytes input) eqn:E3; try discriminate. injection Hr as _ <-. eapply lex_bytes_strict; eauto. }
  assert (Hidx : forall propagate : bool,
     (match lex_index_expr sch st f d input with
      | LOk lhs rest =>
          match lex_alts comparison_ops (skip_space rest) with
          | Some _ => lmap ALogical (lex_with_lhs sch st f d rest lhs)
          | None => LOk (AIndex lhs) rest
          end
      | LErr k a n => if propagate then LErr k a n else
          (match lex_ip input with
           | LOk a rest => LOk (ALit (RIp a)) rest
           | LPanic => LPanic
           | LFuel => LFuel
           | LErr _ _ _ =>
               match lex_int input with
               | LOk z rest => LOk (ALit (RInt z)) rest
               | LPanic => LPanic
               | LFuel => LFuel
               | LErr _ _ _ =>
                   match lex_bytes input with
                   | LOk p rest => LOk (ALit (RBytes (fst p) (snd p))) rest
                   | LPanic => LPanic
                   | LFuel => LFuel
                   | LErr _ _ _ => LErr EEOF input (length input)
                   end
               end
           end)
      | LPanic => LPanic
      | LFuel => LFuel
      end) = LOk a rest -> (length rest < length input)%nat).
  { intros propagate Hr.
    destruct (lex_index_expr sch st f d input) as [lhs rest0|k aa n| |] eqn:Ei; try discriminate.
    - pose proof (index_strict _ _ _ _ _ Hd Ei) as L0.
      pose proof (lpost_ok_P _ _ _ _ _ (ih_index sch st input f (PP input f) d input Hd (suffix_refl _)) Ei) as Hl.
      destruct (lex_alts comparison_ops (skip_space rest0)).
      + apply lmap_ok in Hr. destruct Hr as (e & Hr & _). pose proof (with_lhs_le _ _ _ _ _ _ Hl Hr). lia.
      + injection Hr as _ <-. exact L0.
    - destruct propagate; [discriminate|]. eapply Hlit; [reflexivity|exact Hr]. }
  destruct c1 as [b1|]; [|exact (Hidx false H)].
  destruct ((b1 =? 34)%N || _).
  { apply lmap_ok in H. destruct H as (p & H & _). eapply lex_bytes_strict; eauto. }
  destruct (_ || _ || _).
  { apply lmap_ok in H. destruct H as (e & H & _). eapply logical_strict; eauto. }
  destruct (_ || _ || _); [exact (Hidx true H)|exact (Hidx false H)].
Qed.

(* ---- the fuel suffices ---- *)
Record NF (f : nat) : Prop := {
  nf_logical : forall d input, (d <= maxd)%N -> (8 * length input + 4 <= f)%nat ->
      nf (lex_logical sch st f d input);
  nf_more : forall d lhs minp la, (d <= maxd)%N -> okL sch st d lhs -> (8 * length (snd la) + 4 <= f)%nat ->
      nf (lex_more sch st f d lhs minp la);
  nf_inner : forall d rhs rest op, (d <= maxd)%N -> okL sch st d rhs -> (8 * length rest + 4 <= f)%nat ->
      nf (lex_inner sch st f d rhs rest op);
  nf_simple : forall d input, (d <= maxd)%N -> (8 * length input + 3 <= f)%nat ->
      nf (lex_simple sch st f d input);
  nf_index : forall d input, (d <= maxd)%N -> (8 * length input + 2 <= f)%nat ->
      nf (lex_index_expr sch st f d input);
  nf_call : forall d input fn, (d <= maxd)%N -> (8 * length input + 2 <= f)%nat ->
      nf (lex_call sch st f d input fn);
  nf_call_args : forall d input def acc, (d <= maxd)%N -> (8 * length input + 6 <= f)%nat ->
      nf (lex_call_args sch st f d input def acc);
  nf_arg : forall d input, (d <= maxd)%N -> (8 * length input + 5 <= f)%nat ->
      nf (lex_arg sch st f d input);
}.

Ltac blia := unfold bytes in *; lia.
Ltac dis := (cbv beta iota delta [nf]; discriminate).

Lemma NF_0 : NF 0.
Proof. constructor; intros; lia. Qed.

Lemma increase_nf d at_ {B} (k : N -> bytes -> lres B) :
  (forall d', d' = (d + 1)%N -> (d < maxd)%N -> nf (k d' [])) -> nf (lbind (increase st d at_) k).
Proof.
  intros H. unfold increase. destruct (N.leb_spec maxd d); cbn; [discriminate|]. now apply H.
Qed.

Lemma NF_S f : NF f -> NF (S f).
Proof.
  intros H. constructor.
  - (* logical *)
    intros d input Hd Hf. cbn [lex_logical]. apply nf_bind; [apply (nf_simple f H); [assumption|blia]|].
    intros lhs rest H0. pose proof (simple_strict _ _ _ _ _ Hd H0) as L0.
    pose proof (lpost_ok_P _ _ _ _ _ (ih_simple sch st input f (PP input f) d input Hd (suffix_refl _)) H0) as Hl.
    apply (nf_more f H); [assumption|assumption|]. pose proof (combining_le rest). blia.
  - (* more *)
    intros d lhs minp [o lrest] Hd Hl Hf. cbn [lex_more fst snd] in *. destruct o as [op|]; [|dis].
    apply nf_bind; [apply (nf_simple f H); [assumption|blia]|].
    intros rhs rhs_rest H0. pose proof (simple_strict _ _ _ _ _ Hd H0) as L0.
    pose proof (lpost_ok_P _ _ _ _ _ (ih_simple sch st _ f (PP lrest f) d lrest Hd (suffix_refl _)) H0) as Hrhs.
    pose proof (nf_inner f H d rhs rhs_rest op Hd Hrhs ltac:(blia)) as Hin.
    pose proof (ih_inner sch st rhs_rest f (PP rhs_rest f) d rhs rhs_rest op Hd Hrhs (suffix_refl _)) as Pin.
    destruct (lex_inner sch st f d rhs rhs_rest op) as [[rhs' la'] rr'|k a n| |]; try dis; [|contradiction].
    cbn [lpost fst snd] in Pin. destruct Pin as [[Hrhs' Sla'] Srr']. apply suffix_length in Sla', Srr'.
    destruct (ty_lexpr sch lhs) as [tl|] eqn:Etl; [|dis].
    destruct (ty_lexpr sch rhs') as [tr|] eqn:Etr; [|dis].
    destruct (types_combinable tl tr) eqn:Ec; [|dis].
    apply (nf_more f H); [assumption|eapply okL_combine; eauto|].
    destruct (Nat.ltb _ _); cbn [snd]; blia.
  - (* inner *)
    intros d rhs rest op Hd Hrhs Hf. cbn [lex_inner]. cbv zeta.
    destruct (Nat.leb _ _) eqn:El; [dis|].
    assert (Hop : exists o, fst (lex_combining_op rest) = Some o).
    { destruct (fst (lex_combining_op rest)) as [o|]; [eauto|]. cbn in El. dis. }
    destruct Hop as (o & Ho). pose proof (combining_strict rest o Ho) as Ls.
    pose proof (nf_more f H d rhs (fst (lex_combining_op rest)) (lex_combining_op rest) Hd Hrhs ltac:(blia)) as Hm.
    pose proof (ih_more sch st _ f (PP (snd (lex_combining_op rest)) f) d rhs (fst (lex_combining_op rest))
                  (lex_combining_op rest) Hd Hrhs (suffix_refl _)) as Pm.
    destruct (lex_more sch st f d rhs (fst (lex_combining_op rest)) (lex_combining_op rest)) as [rhs' rest'|k a n| |];
      try dis; [|contradiction].
    cbn [lpost] in Pm. destruct Pm as [Hrhs' Sr]. apply suffix_length in Sr.
    apply (nf_inner f H); [assumption|assumption|blia].
  - (* simple *)
    intros d input Hd Hf. cbn [lex_simple].
    destruct (starts_with [40] input) as [r0|] eqn:E1.
    { apply starts_with_length in E1. cbn in E1. apply increase_nf. intros d' -> Hlt.
      apply nf_bind; [apply (nf_logical f H); [lia|pose proof (skip_space_le r0); blia]|].
      intros e rest1 _. apply nf_bind; [apply expect_nf|]. intros; dis. }
    destruct (lex_alts unary_ops input) as [[u r0]|] eqn:E2.
    { apply lex_alts_strict in E2; [|repeat constructor; dis]. apply increase_nf. intros d' -> Hlt.
      apply nf_bind; [apply (nf_simple f H); [lia|pose proof (skip_space_le r0); blia]|]. intros; dis. }
    destruct (lex_quant_call input) as [[q r0]|] eqn:E3.
    { assert (L0 : (length r0 < length input)%nat).
      { unfold lex_quant_call in E3. destruct (lex_alts quant_ops input) as [[q' r']|] eqn:Eq; [|dis].
        destruct (starts_with [40] (skip_space r')); [|dis]. injection E3 as <- <-.
        eapply lex_alts_strict; [|exact Eq]. repeat constructor; dis. }
      apply increase_nf. intros d' -> Hlt.
      apply nf_bind; [apply expect_nf|]. intros [] rest1 H1. cbv zeta.
      assert (L1 : (length rest1 < length (skip_space r0))%nat).
      { unfold expect in H1. destruct (starts_with [40] (skip_space r0)) eqn:Ep; [|dis]. injection H1 as ->.
        apply starts_with_length in Ep. cbn in Ep. lia. }
      pose proof (skip_space_le r0). pose proof (skip_space_le rest1).
      pose proof (nf_arg f H (d + 1)%N (skip_space rest1) ltac:(blia) ltac:(blia)) as Ha.
      destruct (lex_arg sch st f (d + 1) (skip_space rest1)) as [a rest2|k aa n| |]; try dis; [|contradiction].
      assert (Hdone : forall e0 : lexpr, nf (lbind (expect [41] (skip_space rest2)) (fun _ rest3 => LOk e0 rest3))).
      { intros e0. apply nf_bind; [apply expect_nf|]. intros; dis. }
      destruct a as [ie|r|le]; nfauto; apply Hdone. }
    apply nf_bind; [apply (nf_index f H); [assumption|blia]|].
    intros lhs rest _. destruct f as [|f']; [lia|]. apply with_lhs_nf.
  - (* index expression *)
    intros d input Hd Hf. cbn [lex_index_expr].
    pose proof (safe_nf _ (lex_ident_name_safe input)) as Hn.
    destruct (lex_ident_name input) as [name rest0|k a n| |] eqn:En; try dis; [|contradiction].
    apply lex_ident_name_strict in En.
    destruct (scheme_get sch name) as [[i|i]|]; [| |dis].
    + destruct (field_ty sch i); [|dis]. apply nf_map. apply lex_indexes_nf. blia.
    + unfold increase. destruct (N.leb_spec maxd d) as [|Hlt]; [dis|].
      pose proof (nf_call f H (d + 1)%N rest0 i ltac:(blia) ltac:(blia)) as Hc.
      destruct (lex_call sch st f (d + 1) rest0 i) as [a rest1|k a n| |]; try dis; [|contradiction].
      destruct (ty_call sch i a); [|dis]. apply nf_map. apply lex_indexes_nf. blia.
  - (* call *)
    intros d input fn Hd Hf. cbn [lex_call]. destruct (fn_of sch fn) as [def|]; [|dis].
    apply nf_bind; [apply expect_nf|]. intros [] rest H1.
    unfold expect in H1. destruct (starts_with [40] (skip_space input)) eqn:Ep; [|dis]. injection H1 as ->.
    apply starts_with_length in Ep. cbn in Ep. pose proof (skip_space_le input). pose proof (skip_space_le rest).
    apply nf_map. apply (nf_call_args f H); [assumption|blia].
  - (* call arguments *)
    intros d input def acc Hd Hf. cbn [lex_call_args]. cbv zeta.
    assert (Hfin : forall i, nf (if Nat.ltb (length acc) (if fn_variadic_same def then 2%nat else length (fn_params def))
                                 then LErr EInvalidArgumentsCount i (length i)
                                 else lbind (expect [41] i) (fun _ rest => LOk acc rest))).
    { intros i. destruct (Nat.ltb _ _); [dis|]. apply nf_bind; [apply expect_nf|]. intros; dis. }
    assert (Hgo : nf
      (lbind (if Nat.eqb (length acc) 0 then LOk tt input else expect [44] input)
        (fun _ input1 =>
           match lex_arg sch st f d (skip_space input1) with
           | LOk a rest =>
               if Nat.ltb 0 (arg_map_each_count a) && negb (Nat.eqb (length acc) 0)
               then LErr EInvalidMapEachAccess (skip_space input1) (span_len (skip_space input1) rest)
               else if negb (fn_variadic_same def)
                       && Nat.leb (length (fn_params def) + length (fn_opt_params def)) (length acc)
               then LErr EInvalidArgumentsCount (skip_space input1) (length (skip_space input1))
               else
                 match ty_arg sch a with
                 | None => LPanic
                 | Some t =>
                     match check_param sch def acc a t with
                     | PcOk => lex_call_args sch st f d (skip_space rest) def (acc ++ [a])
                     | PcKind => LErr EInvalidArgumentKind (skip_space input1) (span_len (skip_space input1) rest)
                     | PcType => LErr EInvalidArgumentType (skip_space input1) (span_len (skip_space input1) rest)
                     | PcUnreachable => LPanic
                     end
                 end
           | LErr k a n => LErr k a n
           | LPanic => LPanic
           | LFuel => LFuel
           end))).
    { apply nf_bind; [destruct (Nat.eqb _ 0); [dis|apply expect_nf]|].
      intros [] input1 H1.
      assert (L1 : (length input1 <= length input)%nat).
      { destruct (Nat.eqb _ 0); [now injection H1 as ->|]. exact (lpost_ok_le _ _ _ _ _ (expect_post _ _) H1). }
      pose proof (skip_space_le input1) as L2.
      pose proof (nf_arg f H d (skip_space input1) Hd ltac:(blia)) as Ha.
      destruct (lex_arg sch st f d (skip_space input1)) as [a rest|k aa n| |] eqn:Ea; try dis; [|contradiction].
      pose proof (arg_strict _ _ _ _ _ Hd Ea) as L3. pose proof (skip_space_le rest) as L4.
      destruct (_ && _); [dis|]. destruct (_ && _); [dis|].
      destruct (ty_arg sch a); [|dis].
      destruct (check_param sch def acc a t); try dis.
      apply (nf_call_args f H); [assumption|blia]. }
    destruct input as [|b r]; [apply Hfin|].
    destruct (N.eq_dec b 41) as [->|N41]; [apply Hfin|].
    other_byte b Hgo.
  - (* argument *)
    intros d input Hd Hf. cbn [lex_arg]. destruct (first_chars input) as [[c1 c2] c3]. cbv zeta.
    assert (Hlit : nf
      (match lex_ip input with
       | LOk a rest => LOk (ALit (RIp a)) rest
       | LPanic => LPanic
       | LFuel => LFuel
       | LErr _ _ _ =>
           match lex_int input with
           | LOk z rest => LOk (ALit (RInt z)) rest
           | LPanic => LPanic
           | LFuel => LFuel
           | LErr _ _ _ =>
               match lex_bytes input with
               | LOk p rest => LOk (ALit (RBytes (fst p) (snd p))) rest
               | LPanic => LPanic
               | LFuel => LFuel
               | LErr _ _ _ => LErr EEOF input (length input)
               end
           end
       end)).
    { pose proof (safe_nf _ (lex_ip_safe input)) as H1. destruct (lex_ip input); try dis; [|contradiction].
      pose proof (safe_nf _ (lex_int_safe input)) as H2. destruct (lex_int input); try dis; [|contradiction].
      pose proof (safe_nf _ (lex_bytes_safe input)) as H3. destruct (lex_bytes input); try dis; contradiction. }
    assert (Hidx : forall propagate : bool, nf
      (match lex_index_expr sch st f d input with
       | LOk lhs rest =>
           match lex_alts comparison_ops (skip_space rest) with
           | Some _ => lmap ALogical (lex_with_lhs sch st f d rest lhs)
           | None => LOk (AIndex lhs) rest
           end
       | LErr k a n => if propagate then LErr k a n else
           (match lex_ip input with
            | LOk a rest => LOk (ALit (RIp a)) rest
            | LPanic => LPanic
            | LFuel => LFuel
            | LErr _ _ _ =>
                match lex_int input with
                | LOk z rest => LOk (ALit (RInt z)) rest
                | LPanic => LPanic
                | LFuel => LFuel
                | LErr _ _ _ =>
                    match lex_bytes input with
                    | LOk p rest => LOk (ALit (RBytes (fst p) (snd p))) rest
                    | LPanic => LPanic
                    | LFuel => LFuel
                    | LErr _ _ _ => LErr EEOF input (length input)
                    end
                end
            end)
       | LPanic => LPanic
       | LFuel => LFuel
       end)).
    { intros propagate. pose proof (nf_index f H d input Hd ltac:(blia)) as Hi.
      destruct (lex_index_expr sch st f d input) as [lhs rest0|k aa n| |]; try dis; [| |contradiction].
      - destruct (lex_alts comparison_ops (skip_space rest0)); [|dis].
        apply nf_map. destruct f as [|f']; [lia|]. apply with_lhs_nf.
      - destruct propagate; [dis|exact Hlit]. }
    destruct c1 as [b1|]; [|apply (Hidx false)].
    destruct ((b1 =? 34)%N || _); [apply nf_map, safe_nf, lex_bytes_safe|].
    destruct (_ || _ || _); [apply nf_map; apply (nf_logical f H); [assumption|blia]|].
    destruct (_ || _ || _); [apply (Hidx true)|apply (Hidx false)].
Qed.

Theorem parser_fuel f : NF f.
Proof. induction f as [|f IH]; [apply NF_0|now apply NF_S]. Qed.

End Fuel.

(* ---- closed statements ---- *)
Lemma complete_nf {A} (r : lres A) : nf r -> nf (complete r).
Proof. destruct r as [a [|b rest]|k s n| |]; cbn; intros H; try discriminate; exact H. Qed.

Theorem parse_filter_terminates sch st text : parse_filter sch st text <> LFuel.
Proof.
  unfold parse_filter. apply complete_nf. apply nf_bind.
  - apply (nf_logical sch st _ (parser_fuel sch st _)); lia.
  - intros e rest _. destruct (ty_lexpr sch e) as [[]|]; discriminate.
Qed.

Theorem parse_value_terminates sch st text : parse_value sch st text <> LFuel.
Proof.
  unfold parse_value. apply complete_nf. apply nf_bind.
  - apply (nf_index sch st _ (parser_fuel sch st _)); lia.
  - intros e rest _. destruct (Nat.ltb _ _); discriminate.
Qed.
