(* Proofs for C20: the CString buffer (every operation sequence), the last-error
   protocol (every call history; refinement of Spec/C20.v), thread isolation (frame
   and interleaving independence), the panic status, and the refutation of the
   protocol for the code as it stands (F8). *)
From Coq Require Import List NArith Bool Arith Lia.
From WF Require Import Base.Bytes Sem.CString Sem.FfiProto Spec.C20.
Import ListNotations.
Open Scope N_scope.

(* ------------------------------------------------------------------ CString *)

Lemma subst_is_spec_text : forall m, map subst_byte m = spec_text m.
Proof. reflexivity. Qed.

Lemma spec_text_app : forall a b, spec_text (a ++ b) = spec_text a ++ spec_text b.
Proof. intros a b. unfold spec_text. apply map_app. Qed.

Lemma spec_text_no_nul : forall m, ~ In 0 (spec_text m).
Proof.
  induction m as [|a m IH]; simpl; intros H; [exact H|].
  destruct H as [H|H]; [|exact (IH H)].
  destruct (N.eqb_spec a 0) as [E|E]; [discriminate H|exact (E H)].
Qed.

Lemma spec_text_nil_iff : forall m, spec_text m = [] <-> m = [].
Proof. intros m. destruct m; simpl; split; intros H; try reflexivity; discriminate H. Qed.

(* append, as one expression *)
Lemma cs_append_simpl : forall s buf,
  cs_append s buf = removelast s ++ spec_text buf ++ [0].
Proof.
  intros s buf. unfold cs_append, vec_pop.
  rewrite firstn_app, Nat.sub_diag, firstn_all, firstn_O, app_nil_r.
  rewrite skipn_app, Nat.sub_diag, skipn_all, skipn_O. cbn [app].
  rewrite subst_is_spec_text, <- app_assoc. reflexivity.
Qed.

(* two appends without a clear in between: the second continues the first *)
Lemma cs_append_twice : forall s a b,
  cs_append (cs_append s a) b = cs_append s (a ++ b).
Proof.
  intros s a b. rewrite !cs_append_simpl.
  replace (removelast s ++ spec_text a ++ [0]) with ((removelast s ++ spec_text a) ++ [0])
    by (rewrite <- app_assoc; reflexivity).
  rewrite removelast_last, spec_text_app, <- !app_assoc. reflexivity.
Qed.

Lemma c_read_snoc : forall m, ~ In 0 m -> c_read (m ++ [0]) = Some m.
Proof.
  induction m as [|a m IH]; intros Hn; [reflexivity|].
  cbn [app c_read].
  assert (Ha : (a =? 0) = false) by (apply N.eqb_neq; intros E; apply Hn; left; exact E).
  rewrite Ha, IH; [reflexivity|]. intros H. apply Hn. right. exact H.
Qed.

Lemma cs_wf_snoc : forall m, ~ In 0 m -> cs_wf_nonempty (m ++ [0]) = true.
Proof.
  induction m as [|a m IH]; intros Hn; [reflexivity|].
  assert (Ha : (a =? 0) = false) by (apply N.eqb_neq; intros E; apply Hn; left; exact E).
  assert (IH' : cs_wf_nonempty (m ++ [0]) = true) by (apply IH; intros H; apply Hn; right; exact H).
  cbn [app]. revert IH'. destruct (m ++ [0]) as [|x xs] eqn:E; [destruct m; discriminate E|].
  intros IH'. cbn [cs_wf_nonempty]. rewrite Ha. exact IH'.
Qed.

Lemma cs_view_snoc : forall m, ~ In 0 m -> cs_view (m ++ [0]) = VStr m.
Proof.
  intros m Hn. unfold cs_view.
  destruct (m ++ [0]) as [|x xs] eqn:E; [destruct m; discriminate E|].
  rewrite <- E, cs_wf_snoc by exact Hn. rewrite removelast_last. reflexivity.
Qed.

Lemma cs_as_c_str_snoc : forall m, cs_as_c_str (m ++ [0]) = Some (m ++ [0]).
Proof. intros m. destruct m; reflexivity. Qed.

(* the buffer after a sequence, given what was pending before it *)
Definition repr (s : cstring) (acc : option bytes) : Prop :=
  s = match acc with None => [] | Some m => spec_text m ++ [0] end.

Lemma spec_pending_cons : forall acc o ops,
  spec_pending acc (o :: ops) = spec_pending (spec_pending acc [o]) ops.
Proof. intros acc o ops. destruct o; reflexivity. Qed.

Lemma cs_step_repr : forall s acc o, repr s acc -> repr (cs_step s o) (spec_pending acc [o]).
Proof.
  intros s acc o H. unfold repr in *. destruct o as [buf|]; cbn [cs_step spec_pending cs_clear]; [|reflexivity].
  rewrite cs_append_simpl. subst s. destruct acc as [a|].
  - rewrite removelast_last, spec_text_app, <- app_assoc. reflexivity.
  - reflexivity.
Qed.

Lemma cs_run_repr : forall ops s acc, repr s acc -> repr (cs_run s ops) (spec_pending acc ops).
Proof.
  induction ops as [|o ops IH]; intros s acc H; [exact H|].
  rewrite spec_pending_cons. unfold cs_run. cbn [fold_left].
  apply (IH (cs_step s o)). apply cs_step_repr. exact H.
Qed.

Lemma cstring_inv : forall ops : list cs_op,
  match spec_pending None ops with
  | None => cs_run cs_new ops = [] /\ cs_as_c_str (cs_run cs_new ops) = None
  | Some m =>
      is_c_string (cs_run cs_new ops) (spec_text m) /\
      cs_as_c_str (cs_run cs_new ops) = Some (cs_run cs_new ops) /\
      c_read (cs_run cs_new ops) = Some (spec_text m) /\
      cs_view (cs_run cs_new ops) = VStr (spec_text m)
  end.
Proof.
  intros ops. assert (H := cs_run_repr ops cs_new None eq_refl). unfold repr in H.
  destruct (spec_pending None ops) as [m|]; rewrite H.
  - repeat split.
    + apply spec_text_no_nul.
    + apply cs_as_c_str_snoc.
    + apply c_read_snoc, spec_text_no_nul.
    + apply cs_view_snoc, spec_text_no_nul.
  - split; reflexivity.
Qed.

(* the invariant does not depend on where the buffer started: a clear resets it *)
Lemma cs_run_app : forall s a b, cs_run s (a ++ b) = cs_run (cs_run s a) b.
Proof. intros s a b. unfold cs_run. apply fold_left_app. Qed.

Lemma cstring_clear_resets : forall s0 ops1 ops2,
  cs_run s0 (ops1 ++ CsClear :: ops2) = cs_run cs_new ops2.
Proof. intros s0 ops1 ops2. rewrite cs_run_app. reflexivity. Qed.

(* write!(buffer, ..): the fragments are concatenated; an empty text writes nothing *)
Lemma cs_write_fmt_gen : forall msg m s,
  s = match m with [] => [] | _ => spec_text m ++ [0] end ->
  cs_write_fmt s msg = match m ++ concat msg with [] => [] | m' => spec_text m' ++ [0] end.
Proof.
  induction msg as [|b msg IH]; intros m s Hs.
  - cbn [concat]. rewrite app_nil_r. unfold cs_write_fmt. cbn [filter fold_left].
    rewrite Hs. destruct m; reflexivity.
  - destruct b as [|x b].
    + cbn [concat app]. apply (IH m s Hs).
    + unfold cs_write_fmt. cbn [filter nonempty fold_left].
      change (fold_left cs_append (filter nonempty msg) (cs_append s (x :: b)))
        with (cs_write_fmt (cs_append s (x :: b)) msg).
      rewrite (IH (m ++ x :: b)).
      * cbn [concat]. rewrite <- app_assoc. reflexivity.
      * rewrite cs_append_simpl. subst s. destruct m as [|y m].
        -- reflexivity.
        -- rewrite removelast_last, spec_text_app, <- app_assoc.
           destruct ((y :: m) ++ x :: b) eqn:E; [discriminate E|]. reflexivity.
Qed.

Lemma cs_write_fmt_new : forall msg,
  cs_write_fmt [] msg = match concat msg with [] => [] | m => spec_text m ++ [0] end.
Proof. intros msg. apply (cs_write_fmt_gen msg [] []). reflexivity. Qed.

(* ------------------------------------------------------------------ one thread *)

Lemma rel_view : forall st a, rel st a -> cs_view (t_err st) = view_of (a_err a).
Proof.
  intros st a [_ H]. destruct (a_err a) as [m|]; cbn [view_of].
  - destruct H as [E Hn]. rewrite E. apply cs_view_snoc. exact Hn.
  - rewrite H. reflexivity.
Qed.

Lemma write_rel : forall st a msg,
  t_enabled st = a_enabled a ->
  rel (write_last_error st msg) (mk_astate (spec_message msg) (a_enabled a)).
Proof.
  intros st a msg He. unfold rel, write_last_error, spec_message. cbn [t_enabled t_err a_enabled a_err cs_clear].
  split; [exact He|]. rewrite cs_write_fmt_new.
  destruct (concat msg) as [|x m]; [reflexivity|].
  split; [reflexivity|apply spec_text_no_nul].
Qed.

Lemma writes_intended : forall f site, writes false f site = true.
Proof. intros f site. destruct site; reflexivity. Qed.

(* one call: the model (intended protocol) does what the specification says *)
Lemma step_refines : forall p st a c, rel st a ->
  exists a1,
    spec_step p a c = (fst (fst (step false p st c)), a1, snd (step false p st c)) /\
    rel (snd (fst (step false p st c))) a1.
Proof.
  intros p st a c Hrel. unfold step, spec_step.
  destruct (p_dead p) eqn:Hd; [exists a; split; [reflexivity|exact Hrel]|].
  destruct c as [f o]. destruct o as [|site msg|pre payload post].
  - (* Success *)
    destruct Hrel as [He Herr].
    destruct f; try (exists a; split; [reflexivity|split; assumption]).
    + (* get_last_error *)
      exists a. split; [|split; assumption]. cbn [fst snd].
      destruct (a_err a) as [m|]; cbn [option_map].
      * destruct Herr as [E _]. rewrite E, cs_as_c_str_snoc. reflexivity.
      * rewrite Herr. reflexivity.
    + (* clear_last_error *)
      exists (mk_astate None (a_enabled a)). split; [reflexivity|]. split; [exact He|reflexivity].
    + (* enable *)
      exists (mk_astate (a_err a) true). split; [reflexivity|]. split; [reflexivity|exact Herr].
    + (* disable *)
      exists (mk_astate (a_err a) false). split; [reflexivity|]. split; [reflexivity|exact Herr].
  - (* Failure *)
    rewrite writes_intended. exists (mk_astate (spec_message msg) (a_enabled a)).
    split; [reflexivity|]. apply write_rel. exact (proj1 Hrel).
  - (* Panicked *)
    rewrite (proj1 Hrel). destruct (catches f && a_enabled a).
    + exists (mk_astate (spec_panic_message (p_hook p) pre payload post) (a_enabled a)).
      split; [reflexivity|]. apply write_rel. exact (proj1 Hrel).
    + exists a. split; [reflexivity|exact Hrel].
Qed.

(* every history: observations, process state and final thread state agree *)
Lemma run_refines : forall h p st a, rel st a ->
  map abs_obs (fst (fst (run false p st h))) = fst (fst (spec_run p a h)) /\
  snd (fst (run false p st h)) = snd (fst (spec_run p a h)) /\
  rel (snd (run false p st h)) (snd (spec_run p a h)).
Proof.
  induction h as [|c h IH]; intros p st a Hrel.
  - cbn [run spec_run fst snd map]. split; [reflexivity|split; [reflexivity|exact Hrel]].
  - destruct (step_refines p st a c Hrel) as [a1 [Hs Hr1]].
    cbn [run spec_run]. rewrite Hs.
    destruct (step false p st c) as [[p1 st1] r] eqn:Es. cbn [fst snd] in *.
    specialize (IH p1 st1 a1 Hr1).
    destruct (run false p1 st1 h) as [[os p2] st2].
    destruct (spec_run p1 a1 h) as [[os' p2'] a2]. cbn [fst snd] in *.
    destruct IH as [Ho [Hp Hr]]. split; [|split].
    + cbn [map]. rewrite Ho. unfold abs_obs. cbn [fst snd]. rewrite (rel_view _ _ Hr1). reflexivity.
    + exact Hp.
    + exact Hr.
Qed.

Lemma init_rel : rel init_tstate init_astate.
Proof. split; reflexivity. Qed.

(* ---- the clauses of the protocol, from ANY thread state ---- *)

(* a failing call: get_last_error is exactly that call's text, as a C string *)
Lemma failing_call_sets_message : forall p st f site msg,
  p_dead p = false -> concat msg <> [] ->
  exists st',
    step false p st (Call f (Failure site msg)) = (p, st', ret_failure f) /\
    t_enabled st' = t_enabled st /\
    is_c_string (t_err st') (spec_text (concat msg)) /\
    step false p st' (Call F_get_last_error Success)
      = (p, st', RErrPtr (Some (spec_text (concat msg) ++ [0]))) /\
    c_read (spec_text (concat msg) ++ [0]) = Some (spec_text (concat msg)).
Proof.
  intros p st f site msg Hd Hm.
  exists (write_last_error st msg).
  assert (He : t_err (write_last_error st msg) = spec_text (concat msg) ++ [0]).
  { cbn [write_last_error t_err cs_clear]. rewrite cs_write_fmt_new.
    destruct (concat msg); [exfalso; apply Hm; reflexivity|reflexivity]. }
  split; [unfold step; rewrite Hd, writes_intended; reflexivity|].
  split; [reflexivity|].
  split; [split; [exact He|apply spec_text_no_nul]|].
  split.
  - unfold step. rewrite Hd, He, cs_as_c_str_snoc. reflexivity.
  - apply c_read_snoc, spec_text_no_nul.
Qed.

(* a succeeding call (other than clear) leaves the last error unchanged *)
Lemma succeeding_call_keeps_message : forall coded p st f,
  f <> F_clear_last_error ->
  t_err (snd (fst (step coded p st (Call f Success)))) = t_err st.
Proof.
  intros coded p st f Hf. unfold step. destruct (p_dead p); [reflexivity|].
  destruct f; try reflexivity. exfalso. apply Hf. reflexivity.
Qed.

(* clear empties it: get_last_error is NULL afterwards *)
Lemma clear_empties : forall coded p st, p_dead p = false ->
  exists st',
    step coded p st (Call F_clear_last_error Success) = (p, st', RUnit) /\
    t_err st' = [] /\
    step coded p st' (Call F_get_last_error Success) = (p, st', RErrPtr None).
Proof.
  intros coded p st Hd. unfold step. rewrite Hd. eexists. split; [reflexivity|]. split; reflexivity.
Qed.

(* ------------------------------------------------------------------ two threads *)

Lemma gstep_frame : forall coded g c,
  g_b (fst (gstep coded g TA c)) = g_b g /\ g_a (fst (gstep coded g TB c)) = g_a g.
Proof.
  intros coded g c. unfold gstep. cbn [g_thread].
  destruct (step coded (g_p g) (g_a g) c) as [[p1 st1] r].
  destruct (step coded (g_p g) (g_b g) c) as [[p2 st2] r2]. split; reflexivity.
Qed.

Lemma step_dead : forall coded p st c, p_dead p = true -> step coded p st c = (p, st, RNotRun).
Proof. intros coded p st c H. unfold step. rewrite H. reflexivity. Qed.

Lemma step_hook_alive : forall coded p st c p1 st1 r,
  step coded p st c = (p1, st1, r) -> p_hook p = true -> p_dead p1 = false ->
  p1 = p /\ p_dead p = false.
Proof.
  intros coded p st c p1 st1 r Hs Hh Hd1. unfold step in Hs.
  destruct (p_dead p) eqn:Hd.
  - injection Hs as <- _ _. rewrite Hd in Hd1. discriminate Hd1.
  - split; [|reflexivity]. destruct c as [f o]. destruct o as [|site msg|pre payload post].
    + destruct f; try (injection Hs as <- _ _; reflexivity).
      injection Hs as <- _ _. destruct p as [hk dd]. cbn in *. subst. reflexivity.
    + injection Hs as <- _ _. reflexivity.
    + destruct (catches f && t_enabled st).
      * injection Hs as <- _ _. reflexivity.
      * injection Hs as <- _ _. cbn in Hd1. discriminate Hd1.
Qed.

Lemma interleave_dead_mono : forall sched coded g ha hb oa ob g' ra rb,
  interleave coded sched g ha hb = (oa, ob, g', ra, rb) ->
  p_dead (g_p g) = true -> p_dead (g_p g') = true.
Proof.
  induction sched as [|t sched IH]; intros coded g ha hb oa ob g' ra rb Hi Hd.
  - cbn in Hi. injection Hi as _ _ <- _ _. exact Hd.
  - destruct t; cbn [interleave] in Hi.
    + destruct ha as [|c ha']; [exact (IH _ _ _ _ _ _ _ _ _ Hi Hd)|].
      unfold gstep in Hi. cbn [g_thread] in Hi. rewrite (step_dead coded _ _ c Hd) in Hi.
      destruct (interleave coded sched (mk_gstate (g_p g) (g_a g) (g_b g)) ha' hb)
        as [[[[oa' ob'] g2] ra'] rb'] eqn:Ei.
      injection Hi as _ _ <- _ _. exact (IH _ _ _ _ _ _ _ _ _ Ei Hd).
    + destruct hb as [|c hb']; [exact (IH _ _ _ _ _ _ _ _ _ Hi Hd)|].
      unfold gstep in Hi. cbn [g_thread] in Hi. rewrite (step_dead coded _ _ c Hd) in Hi.
      destruct (interleave coded sched (mk_gstate (g_p g) (g_a g) (g_b g)) ha hb')
        as [[[[oa' ob'] g2] ra'] rb'] eqn:Ei.
      injection Hi as _ _ <- _ _. exact (IH _ _ _ _ _ _ _ _ _ Ei Hd).
Qed.

(* Interleaving independence: with the hook installed and no abort, under every
   schedule that lets both threads finish, each thread observes exactly what it
   observes when it runs alone. *)
Lemma interleave_independent : forall sched coded g ha hb oa ob g',
  interleave coded sched g ha hb = (oa, ob, g', [], []) ->
  p_hook (g_p g) = true -> p_dead (g_p g') = false ->
  oa = fst (fst (run coded (g_p g) (g_a g) ha)) /\
  ob = fst (fst (run coded (g_p g) (g_b g) hb)).
Proof.
  induction sched as [|t sched IH]; intros coded g ha hb oa ob g' Hi Hh Hd.
  - cbn in Hi. injection Hi as <- <- _ -> ->. split; reflexivity.
  - destruct t; cbn [interleave] in Hi.
    + destruct ha as [|c ha']; [exact (IH _ _ _ _ _ _ _ Hi Hh Hd)|].
      unfold gstep in Hi. cbn [g_thread] in Hi.
      destruct (step coded (g_p g) (g_a g) c) as [[p1 st1] r] eqn:Es.
      destruct (interleave coded sched (mk_gstate p1 st1 (g_b g)) ha' hb)
        as [[[[oa' ob'] g2] ra'] rb'] eqn:Ei.
      injection Hi as <- <- <- -> ->.
      assert (Hd1 : p_dead p1 = false).
      { destruct (p_dead p1) eqn:E; [|reflexivity].
        rewrite (interleave_dead_mono _ _ _ _ _ _ _ _ _ _ Ei E) in Hd. discriminate Hd. }
      destruct (step_hook_alive _ _ _ _ _ _ _ Es Hh Hd1) as [-> _].
      destruct (IH _ _ _ _ _ _ _ Ei Hh Hd) as [Ha Hb]. cbn [g_p g_a g_b] in Ha, Hb.
      split; [|exact Hb]. cbn [run]. rewrite Es.
      destruct (run coded (g_p g) st1 ha') as [[os p2] st2]. cbn [fst] in *. rewrite Ha. reflexivity.
    + destruct hb as [|c hb']; [exact (IH _ _ _ _ _ _ _ Hi Hh Hd)|].
      unfold gstep in Hi. cbn [g_thread] in Hi.
      destruct (step coded (g_p g) (g_b g) c) as [[p1 st1] r] eqn:Es.
      destruct (interleave coded sched (mk_gstate p1 (g_a g) st1) ha hb')
        as [[[[oa' ob'] g2] ra'] rb'] eqn:Ei.
      injection Hi as <- <- <- -> ->.
      assert (Hd1 : p_dead p1 = false).
      { destruct (p_dead p1) eqn:E; [|reflexivity].
        rewrite (interleave_dead_mono _ _ _ _ _ _ _ _ _ _ Ei E) in Hd. discriminate Hd. }
      destruct (step_hook_alive _ _ _ _ _ _ _ Es Hh Hd1) as [-> _].
      destruct (IH _ _ _ _ _ _ _ Ei Hh Hd) as [Ha Hb]. cbn [g_p g_a g_b] in Ha, Hb.
      split; [exact Ha|]. cbn [run]. rewrite Es.
      destruct (run coded (g_p g) st1 hb') as [[os p2] st2]. cbn [fst] in *. rewrite Hb. reflexivity.
Qed.

(* ------------------------------------------------------------------ panics *)

Lemma panic_status_spec : forall coded p st f pre payload post,
  p_dead p = false -> p_hook p = true -> t_enabled st = true ->
  f = F_parse_filter \/ f = F_compile_filter \/ f = F_match \/ f = F_filter_uses_list ->
  pre ++ payload ++ post <> [] ->
  exists st',
    step coded p st (Call f (Panicked pre payload post)) = (p, st', RStatus StPanic) /\
    t_enabled st' = true /\
    is_c_string (t_err st') (spec_text pre ++ spec_text payload ++ spec_text post).
Proof.
  intros coded p st f pre payload post Hd Hh He Hf Hne. unfold step. rewrite Hd, He, Hh.
  assert (Hc : catches f && true = true /\ panic_status f = StPanic).
  { destruct Hf as [->|[->|[->| ->]]]; split; reflexivity. }
  destruct Hc as [Hc Hps]. rewrite Hc, Hps. eexists. split; [reflexivity|].
  cbn [write_last_error t_enabled t_err cs_clear panic_text]. split; [exact He|].
  rewrite cs_write_fmt_new. cbn [concat]. rewrite app_nil_r.
  destruct (pre ++ payload ++ post) as [|x m] eqn:E; [exfalso; apply Hne; reflexivity|].
  rewrite <- E, !spec_text_app. split; [reflexivity|].
  rewrite <- !spec_text_app. apply spec_text_no_nul.
Qed.

(* a panic that nothing catches reaches the extern "C" boundary *)
Lemma panic_uncaught_aborts : forall coded p st f pre payload post,
  p_dead p = false -> catches f = false \/ t_enabled st = false ->
  step coded p st (Call f (Panicked pre payload post)) = (mk_pstate (p_hook p) true, st, RAbort).
Proof.
  intros coded p st f pre payload post Hd H. unfold step. rewrite Hd.
  destruct H as [H|H]; rewrite H; [reflexivity|]. rewrite andb_false_r. reflexivity.
Qed.

(* ------------------------------------------------------------------ the code as it stands (F8) *)

Definition f8_call (c : call) : bool :=
  match c with
  | Call f (Failure AtEngine _) => is_ok_fn f
  | _ => false
  end.

Lemma step_coded_eq : forall p st c, f8_call c = false -> step true p st c = step false p st c.
Proof.
  intros p st c H. unfold step. destruct (p_dead p); [reflexivity|].
  destruct c as [f o]. destruct o as [|site msg|pre payload post]; try reflexivity.
  destruct site; [reflexivity|]. cbn [f8_call] in H. unfold writes. rewrite H. reflexivity.
Qed.

(* histories without such a failure: the code follows the intended protocol *)
Lemma run_coded_eq : forall h p st, forallb (fun c => negb (f8_call c)) h = true ->
  run true p st h = run false p st h.
Proof.
  induction h as [|c h IH]; intros p st H; [reflexivity|].
  cbn [forallb] in H. apply andb_true_iff in H. destruct H as [Hc Hh].
  apply negb_true_iff in Hc. cbn [run]. rewrite (step_coded_eq p st c Hc).
  destruct (step false p st c) as [[p1 st1] r]. rewrite (IH p1 st1 Hh). reflexivity.
Qed.

(* ... and with one: the failure is returned but no message is written *)
Lemma coded_is_ok_failure_keeps_message : forall p st f msg,
  p_dead p = false -> is_ok_fn f = true ->
  step true p st (Call f (Failure AtEngine msg)) = (p, st, RBool false).
Proof.
  intros p st f msg Hd Hf. unfold step. rewrite Hd. unfold writes. rewrite Hf. cbn [andb negb].
  destruct f; try discriminate Hf; reflexivity.
Qed.
