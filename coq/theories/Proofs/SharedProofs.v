(* C18 - proofs: every schedule of the machine of Sem/Shared.v gives every
   thread the sequential results (induction over the schedule with an
   invariant), the engines of Sem/Shared.v satisfy [engine_ok], compile is a
   function, and the two excluded designs are refuted by computation. *)
From Coq Require Import List NArith Arith Bool Lia.
From WF Require Import Base.Bytes Lang.Types Lang.Ast Lang.Context Sem.Matchers Sem.Compile Sem.Searcher
     Spec.Denote Spec.Typing Spec.C10 Proofs.SearcherProofs Proofs.CallProofs Proofs.FullProofs Sem.Shared Spec.C18.
Import ListNotations.
Open Scope nat_scope.

Lemma upd_same {A} (f : nat -> A) i a : upd f i a i = a.
Proof. unfold upd. rewrite Nat.eqb_refl. reflexivity. Qed.

Lemma upd_other {A} (f : nat -> A) i a j : j <> i -> upd f i a j = f j.
Proof. intros H. unfold upd. destruct (Nat.eqb_spec j i); [contradiction | reflexivity]. Qed.

Section Invariant.
  Context {F C K Sc R V : Type}.
  Variable E : engine F C K Sc R V.
  Variable seq_result : F -> C -> R.
  Variable v0 : nat -> V.
  Variable Inv : nat -> Sc -> Prop.
  Hypothesis OK : engine_ok E seq_result v0 Inv.
  Variable progs : nat -> list op.

  Definition isset (g : @global Sc V) (x : nat) : Prop := cells g x <> None.

  Definition needs_of (o : op) : list nat :=
    match getf E (op_fid o) with Some f => e_needs E f | None => [] end.

  (* the cells [o] needs are set, except perhaps those of [rest] *)
  Definition forced (g : @global Sc V) (o : op) (rest : list nat) : Prop :=
    forall x, In x (needs_of o) -> In x rest \/ isset g x.

  Definition phase_ok (g : @global Sc V) (o : op) (p : @phase Sc R V) : Prop :=
    match p with
    | PIdle => True
    | PCells rest => forced g o rest /\ incl rest (needs_of o)
    | PPublish c v rest =>
        forced g o (c :: rest) /\ incl (c :: rest) (needs_of o) /\ v = v0 c
    | PPut r s =>
        forced g o [] /\ r = seq_obs E seq_result o /\
        (op_recompile o = false -> Inv (e_pool E (op_fid o)) s)
    end.

  Definition thread_ok (g : @global Sc V) (t : nat) (th : @thread K Sc R V) : Prop :=
    exists done,
      progs t = done ++ todo th /\
      log th = seq_log E seq_result done /\
      (forall o, In o done -> forced g o []) /\
      match todo th with
      | [] => True
      | o :: _ => phase_ok g o (ph th)
      end.

  Definition global_ok (g : @global Sc V) : Prop :=
    (forall c v, cells g c = Some v -> v = v0 c /\ needed E progs c) /\
    (forall p s, In s (pools g p) -> Inv p s).

  Definition inv (m : @machine K Sc R V) : Prop :=
    global_ok (glob m) /\ forall t, thread_ok (glob m) t (threads m t).

  Definition mono (g g' : @global Sc V) : Prop := forall x, isset g x -> isset g' x.

  Lemma mono_refl g : mono g g.
  Proof. intros x Hx. exact Hx. Qed.

  Lemma forced_mono g g' o rest : mono g g' -> forced g o rest -> forced g' o rest.
  Proof.
    intros Hm Hf x Hx. destruct (Hf x Hx) as [Hin | Hs]; [left; exact Hin | right; apply Hm; exact Hs].
  Qed.

  Lemma phase_ok_mono g g' o p : mono g g' -> phase_ok g o p -> phase_ok g' o p.
  Proof.
    intros Hm. destruct p as [|rest|c v rest|r s]; cbn [phase_ok].
    - trivial.
    - intros [Hf Hi]. split; [eapply forced_mono; eassumption | exact Hi].
    - intros [Hf Hr]. split; [eapply forced_mono; eassumption | exact Hr].
    - intros [Hf Hr]. split; [eapply forced_mono; eassumption | exact Hr].
  Qed.

  Lemma thread_ok_mono g g' t th : mono g g' -> thread_ok g t th -> thread_ok g' t th.
  Proof.
    intros Hm (done & Hp & Hl & Hd & Hph). exists done. split; [exact Hp|]. split; [exact Hl|]. split.
    - intros o Ho. eapply forced_mono; [exact Hm | apply Hd; exact Ho].
    - destruct (todo th) as [|o later]; [exact I | eapply phase_ok_mono; eassumption].
  Qed.

  Lemma forced_drop_set g o c rest : cells g c <> None -> forced g o (c :: rest) -> forced g o rest.
  Proof.
    intros Hc Hf x Hx. destruct (Hf x Hx) as [[-> | Hin] | Hs].
    - right. exact Hc.
    - left. exact Hin.
    - right. exact Hs.
  Qed.

  Lemma needs_of_some o c : In c (needs_of o) -> exists f, getf E (op_fid o) = Some f /\ In c (e_needs E f).
  Proof.
    unfold needs_of. destruct (getf E (op_fid o)) as [f|]; [|intros []].
    intros H. exists f. split; [reflexivity | exact H].
  Qed.

  (* the needed cells of a forced operation read the single-threaded value *)
  Lemma forced_view g o f : global_ok g -> forced g o [] -> getf E (op_fid o) = Some f ->
    forall x, In x (e_needs E f) -> cells g x = Some (v0 x).
  Proof.
    intros [Hc _] Hf Hg x Hx.
    destruct (Hf x) as [[] | Hs].
    - unfold needs_of. rewrite Hg. exact Hx.
    - unfold isset in Hs. destruct (cells g x) as [v|] eqn:Ev; [|contradiction].
      destruct (Hc x v Ev) as [-> _]. reflexivity.
  Qed.

  Lemma step_thread_ok g t th :
    global_ok g -> thread_ok g t th ->
    global_ok (fst (step_thread E t g th)) /\ mono g (fst (step_thread E t g th)) /\
    thread_ok (fst (step_thread E t g th)) t (snd (step_thread E t g th)).
  Proof.
    intros Hg Hth. pose proof Hth as (done & Hp & Hl & Hd & Hph).
    unfold step_thread. destruct (todo th) as [|o later] eqn:Etodo.
    { cbn [fst snd]. split; [exact Hg|]. split; [apply mono_refl | exact Hth]. }
    destruct (ph th) as [|rest|c v rest|r s] eqn:Eph; cbn [phase_ok] in Hph.
    - (* PIdle: start the operation *)
      cbn [fst snd]. split; [exact Hg|]. split; [apply mono_refl|].
      exists done. cbn [set_ph todo log ph]. rewrite ?Etodo. split; [exact Hp|]. split; [exact Hl|].
      split; [exact Hd|]. cbn [phase_ok]. fold (needs_of o). split.
      + intros x Hx. left. exact Hx.
      + apply incl_refl.
    - destruct Hph as [Hf Hi]. destruct rest as [|c cs].
      + (* PCells []: take a scratch value and run *)
        destruct (getf E (op_fid o)) as [f|] eqn:Egf; [destruct (getc E (op_cid o)) as [c|] eqn:Egc|].
        * destruct (op_recompile o) eqn:Erc; cbn [fst snd].
          -- split; [exact Hg|]. split; [apply mono_refl|].
             exists done. cbn [todo log ph]. rewrite ?Etodo. split; [exact Hp|]. split; [exact Hl|].
             split; [exact Hd|]. cbn [phase_ok]. split; [exact Hf|]. split.
             ++ unfold seq_obs. rewrite Egf, Egc. f_equal.
                apply (ok_run _ _ _ _ OK (cells g) _ (e_fresh E) (op_fid o) f c Egf).
                ** eapply forced_view; eassumption.
                ** apply (ok_fresh _ _ _ _ OK).
             ++ intros Habs. rewrite Erc in Habs. discriminate Habs.
          -- assert (Hview : forall x, In x (e_needs E f) -> cells g x = Some (v0 x))
               by (eapply forced_view; eassumption).
             assert (Htake : Inv (e_pool E (op_fid o)) (fst (take E g (e_pool E (op_fid o)))) /\
                             global_ok (snd (take E g (e_pool E (op_fid o)))) /\
                             cells (snd (take E g (e_pool E (op_fid o)))) = cells g).
             { unfold take. destruct (pools g (e_pool E (op_fid o))) as [|s r] eqn:Epool; cbn [fst snd].
               - split; [apply (ok_fresh _ _ _ _ OK)|]. split; [exact Hg | reflexivity].
               - destruct Hg as [Hgc Hgp]. split; [apply Hgp; rewrite Epool; left; reflexivity|].
                 split; [|reflexivity]. split; [exact Hgc|].
                 intros p s' Hin. cbn [set_pool pools] in Hin. unfold upd in Hin.
                 destruct (Nat.eqb_spec p (e_pool E (op_fid o))) as [-> | Hne].
                 + apply Hgp. rewrite Epool. right. exact Hin.
                 + apply Hgp. exact Hin. }
             destruct Htake as (Hs & Hg' & Hcells).
             split; [exact Hg'|]. split.
             { intros x Hx. unfold isset in *. rewrite Hcells. exact Hx. }
             assert (Hm : mono g (snd (take E g (e_pool E (op_fid o)))))
               by (intros x Hx; unfold isset in *; rewrite Hcells; exact Hx).
             exists done. cbn [set_ph todo log ph]. rewrite ?Etodo. split; [exact Hp|]. split; [exact Hl|].
             split; [intros o' Ho'; eapply forced_mono; [exact Hm | apply Hd; exact Ho']|].
             cbn [phase_ok]. split; [eapply forced_mono; eassumption|].
             destruct (ok_run _ _ _ _ OK (cells g) (e_knob E f) _ (op_fid o) f c Egf Hview Hs) as [Hres Hinv].
             split.
             ++ unfold seq_obs. rewrite Egf, Egc. f_equal. exact Hres.
             ++ intros _. exact Hinv.
        * cbn [fst snd]. split; [exact Hg|]. split; [apply mono_refl|].
          exists done. cbn [set_ph todo log ph]. rewrite ?Etodo. split; [exact Hp|]. split; [exact Hl|].
          split; [exact Hd|]. cbn [phase_ok]. split; [exact Hf|]. split.
          -- unfold seq_obs. rewrite Egf, Egc. reflexivity.
          -- intros _. apply (ok_fresh _ _ _ _ OK).
        * cbn [fst snd]. split; [exact Hg|]. split; [apply mono_refl|].
          exists done. cbn [set_ph todo log ph]. rewrite ?Etodo. split; [exact Hp|]. split; [exact Hl|].
          split; [exact Hd|]. cbn [phase_ok]. split; [exact Hf|]. split.
          -- unfold seq_obs. rewrite Egf. reflexivity.
          -- intros _. apply (ok_fresh _ _ _ _ OK).
      + (* PCells (c :: cs): look at cell c *)
        destruct (cells g c) as [v|] eqn:Ec; cbn [fst snd].
        * split; [exact Hg|]. split; [apply mono_refl|].
          exists done. cbn [set_ph todo log ph]. rewrite ?Etodo. split; [exact Hp|]. split; [exact Hl|].
          split; [exact Hd|]. cbn [phase_ok]. split.
          -- apply (forced_drop_set g o c cs); [rewrite Ec; discriminate | exact Hf].
          -- intros x Hx. apply Hi. right. exact Hx.
        * split; [exact Hg|]. split; [apply mono_refl|].
          exists done. cbn [set_ph todo log ph]. rewrite ?Etodo. split; [exact Hp|]. split; [exact Hl|].
          split; [exact Hd|]. cbn [phase_ok]. split; [exact Hf|]. split; [exact Hi|].
          apply (ok_init _ _ _ _ OK).
    - (* PPublish: store the value unless somebody else was faster *)
      destruct Hph as (Hf & Hi & Hv).
      destruct (cells g c) as [v'|] eqn:Ec; cbn [fst snd].
      + split; [exact Hg|]. split; [apply mono_refl|].
        exists done. cbn [set_ph todo log ph]. rewrite ?Etodo. split; [exact Hp|]. split; [exact Hl|].
        split; [exact Hd|]. cbn [phase_ok]. split.
        * apply (forced_drop_set g o c rest); [rewrite Ec; discriminate | exact Hf].
        * intros x Hx. apply Hi. right. exact Hx.
      + assert (Hm : mono g (set_cell g c v)).
        { intros x Hx. unfold isset in *. cbn [set_cell cells]. unfold upd.
          destruct (Nat.eqb x c); [discriminate | exact Hx]. }
        split; [|split; [exact Hm|]].
        * destruct Hg as [Hgc Hgp]. split; [|exact Hgp].
          intros c' w Hw. cbn [set_cell cells] in Hw. unfold upd in Hw.
          destruct (Nat.eqb_spec c' c) as [-> | Hne]; [|apply Hgc; exact Hw].
          injection Hw as <-. split; [exact Hv|].
          destruct (needs_of_some o c) as (f & Hgf & Hin); [apply Hi; left; reflexivity|].
          exists t, o, f. split; [|split; assumption].
          rewrite Hp. apply in_or_app. right. left. reflexivity.
        * exists done. cbn [set_ph todo log ph]. rewrite ?Etodo. split; [exact Hp|]. split; [exact Hl|].
          split; [intros o' Ho'; eapply forced_mono; [exact Hm | apply Hd; exact Ho']|].
          cbn [phase_ok]. split.
          -- apply (forced_drop_set _ o c rest).
             ++ cbn [set_cell cells]. rewrite upd_same. discriminate.
             ++ eapply forced_mono; eassumption.
          -- intros x Hx. apply Hi. right. exact Hx.
    - (* PPut: give the scratch back, log the result *)
      destruct Hph as (Hf & Hr & Hs). cbn [fst snd].
      assert (Hg' : global_ok (if op_recompile o then g else put g (e_pool E (op_fid o)) s) /\
                    cells (if op_recompile o then g else put g (e_pool E (op_fid o)) s) = cells g).
      { destruct (op_recompile o); [split; [exact Hg | reflexivity]|].
        split; [|reflexivity]. destruct Hg as [Hgc Hgp]. split; [exact Hgc|].
        intros p s' Hin. cbn [put set_pool pools] in Hin. unfold upd in Hin.
        destruct (Nat.eqb_spec p (e_pool E (op_fid o))) as [-> | Hne].
        - destruct Hin as [<- | Hin]; [apply Hs; reflexivity | apply Hgp; exact Hin].
        - apply Hgp. exact Hin. }
      destruct Hg' as [Hg' Hcells].
      assert (Hm : mono g (if op_recompile o then g else put g (e_pool E (op_fid o)) s))
        by (intros x Hx; unfold isset in *; rewrite Hcells; exact Hx).
      split; [exact Hg'|]. split; [exact Hm|].
      exists (done ++ [o]). cbn [todo log ph]. split; [rewrite <- app_assoc; exact Hp|]. split.
      + rewrite Hl, Hr. unfold seq_log. rewrite map_app. reflexivity.
      + split.
        * intros o' Ho'. apply in_app_or in Ho'. eapply forced_mono; [exact Hm|].
          destruct Ho' as [Ho' | [<- | []]]; [apply Hd; exact Ho' | exact Hf].
        * destruct later; exact I.
  Qed.

  Lemma step_inv m t : inv m -> inv (step E m t).
  Proof.
    intros [Hg Hth]. destruct (step_thread_ok (glob m) t (threads m t) Hg (Hth t)) as (Hg' & Hm & Ht').
    unfold step. split; cbn [glob threads]; [exact Hg'|].
    intros u. unfold upd. destruct (Nat.eqb_spec u t) as [-> | Hne]; [exact Ht'|].
    eapply thread_ok_mono; [exact Hm | apply Hth].
  Qed.

  Lemma start_inv ks : inv (start progs ks).
  Proof.
    split; cbn [start glob threads].
    - split.
      + intros c v Hv. discriminate Hv.
      + intros p s [].
    - intros t. exists []. cbn [start_thread todo log ph app]. split; [reflexivity|]. split; [reflexivity|].
      split; [intros o []|]. destruct (progs t); exact I.
  Qed.

  Lemma run_sched_inv sched : forall m, inv m -> inv (run_sched E sched m).
  Proof.
    induction sched as [|t sched IH]; intros m Hm; [exact Hm|].
    cbn [run_sched fold_left]. apply IH. apply step_inv. exact Hm.
  Qed.

  Lemma inv_observes m : inv m -> observes_sequential E seq_result progs m.
  Proof.
    intros [_ Hth] t. destruct (Hth t) as (done & Hp & Hl & _). exists done. split; assumption.
  Qed.

  Lemma inv_finished m : inv m -> finished m ->
    (forall t, log (threads m t) = seq_log E seq_result (progs t)) /\ cells_final E v0 progs m.
  Proof.
    intros [Hg Hth] Hfin. split.
    - intros t. destruct (Hth t) as (done & Hp & Hl & _). rewrite (Hfin t), app_nil_r in Hp.
      rewrite Hp. exact Hl.
    - intros c. split.
      + intros (t & o & f & Ho & Hgf & Hc).
        destruct (Hth t) as (done & Hp & _ & Hd & _). rewrite (Hfin t), app_nil_r in Hp. rewrite Hp in Ho.
        eapply forced_view; [exact Hg | apply Hd; exact Ho | exact Hgf | exact Hc].
      + intros Hn. destruct (cells (glob m) c) as [v|] eqn:Ec; [|reflexivity].
        destruct Hg as [Hgc _]. destruct (Hgc c v Ec) as [_ Hneeded]. contradiction.
  Qed.
End Invariant.

(* ------------------------------------------------------------------ *)
(* (a) every schedule, any number of threads and steps *)

Theorem machine_schedule_independent {F C K Sc R V : Type} (E : engine F C K Sc R V)
        (seq_result : F -> C -> R) (v0 : nat -> V) (Inv : nat -> Sc -> Prop) :
  engine_ok E seq_result v0 Inv -> schedule_independent E seq_result v0.
Proof.
  intros OK progs ks sched m.
  assert (Hinv : inv E seq_result v0 Inv progs m)
    by (apply run_sched_inv; [exact OK | apply start_inv]).
  split; [eapply inv_observes; exact Hinv | intros Hfin; eapply inv_finished; eassumption].
Qed.

(* two complete schedules: same logs, same globals *)
Theorem machine_two_schedules {F C K Sc R V : Type} (E : engine F C K Sc R V)
        (seq_result : F -> C -> R) (v0 : nat -> V) (Inv : nat -> Sc -> Prop) :
  engine_ok E seq_result v0 Inv ->
  forall progs ks1 ks2 s1 s2,
    let m1 := run_sched E s1 (start progs ks1) in
    let m2 := run_sched E s2 (start progs ks2) in
    finished m1 -> finished m2 ->
    (forall t, log (threads m1 t) = log (threads m2 t)) /\
    (forall c, cells (glob m1) c = cells (glob m2) c).
Proof.
  intros OK progs ks1 ks2 s1 s2 m1 m2 H1 H2.
  assert (I1 : inv E seq_result v0 Inv progs m1) by (apply run_sched_inv; [exact OK | apply start_inv]).
  assert (I2 : inv E seq_result v0 Inv progs m2) by (apply run_sched_inv; [exact OK | apply start_inv]).
  clearbody m1 m2.
  destruct (inv_finished _ _ _ _ _ _ I1 H1) as [Hl1 Hc1].
  destruct (inv_finished _ _ _ _ _ _ I2 H2) as [Hl2 Hc2].
  split.
  - intros t. rewrite Hl1, Hl2. reflexivity.
  - intros c. destruct (Hc1 c) as [Hn1 _]. destruct (Hc2 c) as [Hn2 _].
    destruct I1 as [[Hg1 _] _]. destruct I2 as [[Hg2 _] _].
    destruct (cells (glob m1) c) as [v|] eqn:E1.
    + destruct (Hg1 c v E1) as [Hv Hn]. rewrite (Hn2 Hn), Hv. reflexivity.
    + destruct (cells (glob m2) c) as [w|] eqn:E2; [|reflexivity].
      destruct (Hg2 c w E2) as [_ Hn]. discriminate (Hn1 Hn).
Qed.

(* ------------------------------------------------------------------ *)
(* Instance A: whole compiled filters *)

Lemma closure_run_is_run_filter sch e c : closure_run (compile_lexpr sch e) c = run_filter sch e c.
Proof. unfold closure_run, run_filter. destruct (compile_lexpr sch e) as [[g|g]|]; reflexivity. Qed.

Lemma filter_engine_ok sch es cs :
  engine_ok (filter_engine sch es cs) closure_run (fun _ => tt) (fun _ _ => True).
Proof.
  constructor.
  - intros t c. reflexivity.
  - intros p. exact I.
  - intros view k s i f c _ _ _. cbn. split; [reflexivity | exact I].
Qed.

Theorem filters_schedule_independent sch es cs :
  schedule_independent (filter_engine sch es cs) closure_run (fun _ => tt).
Proof. eapply machine_schedule_independent. apply filter_engine_ok. Qed.

(* what is logged for filter number i on context number j is run_filter, and
   for a well-typed filter on a well-formed context the denotation *)
Lemma filter_engine_obs sch es cs o e c :
  nth_error es (op_fid o) = Some e -> nth_error cs (op_cid o) = Some c ->
  seq_obs (filter_engine sch es cs) closure_run o = Some (run_filter sch e c).
Proof.
  intros He Hc. unfold seq_obs, getf, getc. cbn [filter_engine e_filters e_ctxs].
  rewrite nth_error_map, He, Hc. cbn [option_map]. rewrite closure_run_is_run_filter. reflexivity.
Qed.

Theorem filter_engine_obs_denote sch es cs o e c :
  nth_error es (op_fid o) = Some e -> nth_error cs (op_cid o) = Some c ->
  wt_filter sch e = true -> ctx_ok sch c = true -> fns_ok sch ->
  exists b, seq_obs (filter_engine sch es cs) closure_run o = Some (Some b) /\
            denote_filter sch e c = Some b.
Proof.
  intros He Hc Hwt Hctx Hf. destruct (filter_exec_is_denote sch e c Hwt Hctx Hf) as (b & Hr & Hd).
  exists b. split; [|exact Hd]. rewrite (filter_engine_obs sch es cs o e c He Hc), Hr. reflexivity.
Qed.

(* (b) recompilation: compile is a function, so two compilations of one
   filter are closures that agree on every context, with each other and with
   compile-then-execute in one go *)
Theorem recompilation_agrees sch e :
  forall f1 f2, f1 = compile_lexpr sch e -> f2 = compile_lexpr sch e ->
  forall c, closure_run f1 c = closure_run f2 c /\ closure_run f1 c = run_filter sch e c.
Proof.
  intros f1 f2 -> -> c. split; [reflexivity | apply closure_run_is_run_filter].
Qed.

(* ------------------------------------------------------------------ *)
(* Instance B: leaf matchers with latch, knob and cache *)

Definition leaf_seq (f : leaf * nat) (hay : bytes) : option bool :=
  match fst f with
  | LContains needle => Some (occurs needle hay)
  | LMatches r => Some (regex_run r hay)
  end.

Definition leaf_v0 (env : penv) (c : nat) : nat := leaf_init env 0 c.

Definition cache_valid (r : regex_ast) (s : cache) : Prop :=
  forall h v, cache_find h s = Some v -> v = regex_run r h.

Definition leaf_inv (fs : list (leaf * nat)) (p : nat) (s : cache) : Prop :=
  forall f r, nth_error fs p = Some f -> fst f = LMatches r -> cache_valid r s.

Lemma anchor_of_lt k needle : 2 <= length needle -> anchor_of k needle < length needle.
Proof.
  intros H. unfold anchor_of.
  assert (k mod (length needle - 1) < length needle - 1) by (apply Nat.mod_upper_bound; lia). lia.
Qed.

Lemma existsb_is_occurs b hay : existsb (N.eqb b) hay = occurs [b] hay.
Proof.
  assert (H := single_byte_spec false 0 b hay).
  rewrite (dispatch_spec false 0 [b] hay) in H by (cbn [length]; lia).
  injection H as H. symmetry. exact H.
Qed.

Lemma memchr_via_spec impl b hay : memchr_via impl b hay = occurs [b] hay.
Proof.
  unfold memchr_via. destruct impl as [[|n]|]; [apply existsb_is_occurs | |]; apply memchr_search_spec.
Qed.

Lemma leaf_contains_spec view k s needle hay :
  leaf_run view k s (LContains needle) hay = (Some (occurs needle hay), s).
Proof.
  destruct needle as [|b [|c t]]; cbn [leaf_run].
  - rewrite dispatch_spec by (cbn [length]; lia). reflexivity.
  - rewrite memchr_via_spec. reflexivity.
  - rewrite dispatch_spec; [reflexivity|]. intros H. apply anchor_of_lt. exact H.
Qed.

Lemma cache_valid_nil r : cache_valid r [].
Proof. intros h v H. discriminate H. Qed.

Lemma leaf_matches_spec view k s r hay : cache_valid r s ->
  fst (leaf_run view k s (LMatches r) hay) = Some (regex_run r hay) /\
  cache_valid r (snd (leaf_run view k s (LMatches r) hay)).
Proof.
  intros Hs. cbn [leaf_run]. destruct (cache_find hay s) as [v|] eqn:Ef; cbn [fst snd].
  - split; [f_equal; apply Hs; exact Ef | exact Hs].
  - split; [reflexivity|]. intros h v Hv. cbn [cache_find] in Hv.
    destruct (bytes_eqb hay h) eqn:Eq.
    + apply bytes_eqb_eq in Eq. subst h. injection Hv as <-. reflexivity.
    + apply Hs. exact Hv.
Qed.

Lemma leaf_engine_ok env fs hs :
  engine_ok (leaf_engine env fs hs) leaf_seq (leaf_v0 env) (leaf_inv fs).
Proof.
  constructor.
  - intros t c. reflexivity.
  - intros p f r _ _. apply cache_valid_nil.
  - intros view k s i [l k0] hay Hgf _ Hinv. cbn [leaf_engine e_run e_pool fst].
    unfold leaf_seq. cbn [fst]. destruct l as [needle | r].
    + rewrite leaf_contains_spec. cbn [fst snd]. split; [reflexivity | exact Hinv].
    + assert (Hs : cache_valid r s) by (apply (Hinv (LMatches r, k0) r); [exact Hgf | reflexivity]).
      destruct (leaf_matches_spec view k s r hay Hs) as [Hres Hval]. split; [exact Hres|].
      intros f' r' Hf' Hr'. unfold getf in Hgf. cbn [leaf_engine e_filters] in Hgf.
      rewrite Hgf in Hf'. injection Hf' as <-. cbn [fst] in Hr'. injection Hr' as <-. exact Hval.
Qed.

Theorem leaves_schedule_independent env fs hs :
  schedule_independent (leaf_engine env fs hs) leaf_seq (leaf_v0 env).
Proof. eapply machine_schedule_independent. apply leaf_engine_ok. Qed.

(* the same filter compiled in two processes with different CPUs / settings,
   with two anchors and two valid caches: same answer *)
Theorem leaf_recompilation_agrees f hay view1 view2 k1 k2 s1 s2 :
  (forall r, f = LMatches r -> cache_valid r s1 /\ cache_valid r s2) ->
  fst (leaf_run view1 k1 s1 f hay) = fst (leaf_run view2 k2 s2 f hay).
Proof.
  intros Hs. destruct f as [needle | r].
  - rewrite !leaf_contains_spec. reflexivity.
  - destruct (Hs r eq_refl) as [H1 H2].
    destruct (leaf_matches_spec view1 k1 s1 r hay H1) as [-> _].
    destruct (leaf_matches_spec view2 k2 s2 r hay H2) as [-> _]. reflexivity.
Qed.

(* ------------------------------------------------------------------ *)
(* (c) the hypotheses are needed *)

Definition two_threads (p0 p1 : list op) : nat -> list op :=
  fun t => match t with 0 => p0 | 1 => p1 | _ => [] end.

(* a global whose initial value depends on who computes it: thread 1 wins the
   publication race and thread 0, which computed 0 itself, observes 1 *)
Definition bad_init_progs : nat -> list op := two_threads [Exec 0 0] [Exec 0 0].
Definition bad_init_sched_race : list nat := [0; 0; 1; 1; 1; 0; 0; 0; 1; 1].
Definition bad_init_sched_seq : list nat := [0; 0; 0; 0; 0; 1; 1; 1; 1].

Lemma bad_init_sequentially_correct : sequentially_correct bad_init_engine (fun _ _ => 0).
Proof.
  intros fid cid f c ks Hf Hc. destruct fid as [|[|fid]]; try discriminate Hf.
  destruct cid as [|[|cid]]; try discriminate Hc. vm_compute. reflexivity.
Qed.

Lemma bad_init_race_observed :
  let m := run_sched bad_init_engine bad_init_sched_race (start bad_init_progs (fun _ => [])) in
  finished m /\ log (threads m 0) = [(Exec 0 0, Some 1)].
Proof.
  split.
  - intros [|[|t]]; vm_compute; reflexivity.
  - vm_compute. reflexivity.
Qed.

Lemma bad_init_seq_observed :
  let m := run_sched bad_init_engine bad_init_sched_seq (start bad_init_progs (fun _ => [])) in
  finished m /\ log (threads m 0) = [(Exec 0 0, Some 0)].
Proof.
  split.
  - intros [|[|t]]; vm_compute; reflexivity.
  - vm_compute. reflexivity.
Qed.

Theorem full_refuted : ~ C18_full.
Proof.
  intros H.
  destruct (H _ _ _ _ _ _ bad_init_engine (fun _ _ => 0) bad_init_sequentially_correct
              bad_init_progs (fun _ => []) bad_init_sched_race) as [_ Hfin].
  destruct bad_init_race_observed as [Hf Hl]. specialize (Hfin Hf 0). rewrite Hl in Hfin.
  vm_compute in Hfin. discriminate Hfin.
Qed.

(* one cache for all compiled regexes, keyed by the haystack: /a/ fills it,
   /b/ then reads /a/'s answer for the same haystack *)
Definition rx_a : regex_ast := RLit 97.
Definition rx_b : regex_ast := RLit 98.
Definition bad_cache_E : engine (leaf * nat) bytes nat cache (option bool) nat :=
  bad_cache_engine {| env_avx2 := true; env_memchr := 2 |} [(LMatches rx_a, 0); (LMatches rx_b, 0)] [[97%N]].
Definition bad_cache_progs : nat -> list op := two_threads [Exec 0 0] [Exec 1 0].
Definition sched_0_then_1 : list nat := repeat 0 5 ++ repeat 1 5.
Definition sched_1_then_0 : list nat := repeat 1 5 ++ repeat 0 5.

Lemma bad_cache_sequentially_correct : sequentially_correct bad_cache_E leaf_seq.
Proof.
  intros fid cid f c ks Hf Hc. destruct fid as [|[|[|fid]]]; try discriminate Hf;
    (destruct cid as [|[|cid]]; try discriminate Hc); injection Hf as <-; injection Hc as <-;
    vm_compute; reflexivity.
Qed.

Lemma bad_cache_observed :
  let m1 := run_sched bad_cache_E sched_0_then_1 (start bad_cache_progs (fun _ => [])) in
  let m2 := run_sched bad_cache_E sched_1_then_0 (start bad_cache_progs (fun _ => [])) in
  finished m1 /\ finished m2 /\
  log (threads m1 1) = [(Exec 1 0, Some (Some true))] /\
  log (threads m2 1) = [(Exec 1 0, Some (Some false))] /\
  log (threads m1 0) = [(Exec 0 0, Some (Some true))] /\
  log (threads m2 0) = [(Exec 0 0, Some (Some false))] /\
  regex_run rx_a [97%N] = true /\ regex_run rx_b [97%N] = false.
Proof.
  repeat split; try (intros [|[|t]]; vm_compute; reflexivity); vm_compute; reflexivity.
Qed.

(* ------------------------------------------------------------------ *)
(* non-vacuity: a run of the good leaf engine in which the publication race
   happens (thread 0 loses it), the regex cache is reused by another thread,
   a recompilation draws another anchor, and everything agrees *)
Definition demo_E (avx2 : bool) : engine (leaf * nat) bytes nat cache (option bool) nat :=
  leaf_engine {| env_avx2 := avx2; env_memchr := 2 |}
              [(LContains [108; 108; 111]%N, 0); (LMatches (RSeq (RLit 108) (RLit 111)), 0); (LContains [111]%N, 0)]
              [[104; 101; 108; 108; 111]%N; [104; 101; 108; 112]%N].
Definition demo_progs : nat -> list op :=
  two_threads [Exec 0 0; Exec 1 0; Recompile 0 1; Exec 2 0] [Exec 0 0; Exec 1 0; Recompile 0 0; Exec 1 1].
Definition demo_sched : list nat :=
  [0; 0; 1; 1; 1; 0] ++ round_robin 2 40.
