(* The harness function library satisfies the assumptions the main theorem makes
   about user functions ([fn_ok]); the built-in concat meets its specification. *)
From Coq Require Import List ZArith NArith Bool Lia Arith String.
From WF Require Import Base.Bytes Base.Sexp Sem.RangeSet Lang.Types Lang.Ast Lang.Context
     Sem.Funs Sem.Compile Spec.Denote Spec.Typing Proofs.ScalarProofs Proofs.ValueProofs
     Proofs.ExecProofs Proofs.CallProofs.
Import ListNotations.

(* ---- concat ---- *)
Definition present_bytes (l : list vres) : list bytes :=
  flat_map (fun r => match r with VOk (VBytes b) => [b] | _ => [] end) l.
Definition present_arrays (l : list vres) : list (list value) :=
  flat_map (fun r => match r with VOk (VArray _ x) => [x] | _ => [] end) l.

Lemma concat_bytes_spec l : forall acc,
  Forall (fun r => vres_typed r TBytes = true) l ->
  concat_bytes acc l = acc ++ List.concat (present_bytes l).
Proof.
  induction l as [|r l IH]; intros acc H; cbn; [now rewrite app_nil_r|].
  inversion H as [|? ? Hr Hl]; subst. destruct r as [v|t]; [|now apply IH].
  cbn in Hr. apply has_type_prim_inv in Hr. destruct Hr as (b & ->). cbn.
  rewrite IH by exact Hl. now rewrite app_assoc.
Qed.

(* bytes: the present arguments joined in order, absent iff all are absent *)
Theorem concat_bytes_args l :
  Forall (fun r => vres_typed r TBytes = true) l ->
  concat_impl l = Some (match present_bytes l with
                        | [] => None
                        | _ => Some (VBytes (List.concat (present_bytes l)))
                        end).
Proof.
  induction l as [|r l IH]; intros H; [reflexivity|].
  inversion H as [|? ? Hr Hl]; subst. destruct r as [v|t]; cbn [concat_impl].
  - cbn in Hr. apply has_type_prim_inv in Hr. destruct Hr as (b & ->).
    rewrite concat_bytes_spec by exact Hl. reflexivity.
  - rewrite IH by exact Hl. reflexivity.
Qed.

Lemma concat_array_spec t l : forall acc,
  Forall (fun r => vres_typed r (TArray t) = true) l ->
  concat_array acc l = Some (acc ++ List.concat (present_arrays l)).
Proof.
  induction l as [|r l IH]; intros acc H; cbn; [now rewrite app_nil_r|].
  inversion H as [|? ? Hr Hl]; subst. destruct r as [v|t']; [|now apply IH].
  cbn in Hr. destruct (has_type_array _ _ Hr) as (x & -> & _). cbn.
  rewrite IH by exact Hl. now rewrite app_assoc.
Qed.

Lemma present_arrays_typed t l :
  Forall (fun r => vres_typed r (TArray t) = true) l ->
  Forall (fun v => has_type v t = true) (List.concat (present_arrays l)).
Proof.
  induction 1 as [|r l Hr _ IH]; [constructor|]. destruct r as [v|t']; [|exact IH].
  cbn in Hr. destruct (has_type_array _ _ Hr) as (x & -> & Hx). cbn. apply Forall_app. split; [exact Hx|]. exact IH.
Qed.

Theorem concat_array_args t l :
  Forall (fun r => vres_typed r (TArray t) = true) l ->
  concat_impl l = Some (match present_arrays l with
                        | [] => None
                        | _ => Some (VArray t (List.concat (present_arrays l)))
                        end).
Proof.
  induction l as [|r l IH]; intros H; [reflexivity|].
  inversion H as [|? ? Hr Hl]; subst. destruct r as [v|t']; cbn [concat_impl].
  - cbn in Hr. destruct (has_type_array _ _ Hr) as (x & -> & Hx).
    rewrite (concat_array_spec t l x Hl).
    assert (Hall : Forall (fun v => has_type v t = true) (x ++ List.concat (present_arrays l))).
    { apply Forall_app. split; [exact Hx|]. now apply present_arrays_typed. }
    assert (E : forallb (fun v => ty_eqb (type_of v) t) (x ++ List.concat (present_arrays l)) = true).
    { apply forallb_forall. intros y Hy. rewrite Forall_forall in Hall. specialize (Hall y Hy).
      unfold has_type in Hall. apply andb_true_iff in Hall. tauto. }
    rewrite E. cbn. reflexivity.
  - rewrite IH by exact Hl. reflexivity.
Qed.

Lemma concat_fn_ok d : fn_variadic_same d = true -> fn_impl d = concat_impl -> fn_opt_params d = [] -> fn_ok d.
Proof.
  intros Hv Hi Ho. unfold fn_ok. rewrite Hv, Hi, Ho. split; [constructor|].
  intros t vs Ht Hall. destruct t; try destruct Ht.
  - rewrite concat_bytes_args by exact Hall. eexists; split; [reflexivity|].
    destruct (present_bytes vs); [exact I|]. reflexivity.
  - rewrite (concat_array_args t vs Hall). eexists; split; [reflexivity|].
    destruct (present_arrays vs) eqn:E; [exact I|]. rewrite <- E.
    apply has_type_array_intro. now apply present_arrays_typed.
Qed.

(* ---- simple library functions: each returns its declared type and never panics on typed arguments ---- *)
Ltac inv_args H :=
  repeat match type of H with
         | Forall2 _ _ [] => inversion H; subst; clear H
         | Forall2 _ _ (_ :: _) =>
             let Hh := fresh "Hh" in let Ht := fresh "Ht" in
             inversion H as [|? ? ? ? Hh Ht]; subst; clear H; rename Ht into H
         end.

Ltac fin := (eexists; split; [reflexivity|]; cbn; auto).

Lemma first_ok_typed t vs rest :
  Forall2 (fun r (kt : arg_kind * ty) => vres_typed r (snd kt) = true) vs ((KField, t) :: rest) \/
  Forall2 (fun r (kt : arg_kind * ty) => vres_typed r (snd kt) = true) vs ((KBoth, t) :: rest) \/
  Forall2 (fun r (kt : arg_kind * ty) => vres_typed r (snd kt) = true) vs ((KLiteral, t) :: rest) ->
  exists r, first_ok vs = Some r /\ match r with Some v => has_type v t = true | None => True end.
Proof.
  intros [H|[H|H]]; inversion H as [|r ? ? ? Hr _]; subst; destruct r as [v|t']; cbn in *;
    (eexists; split; [reflexivity|]); cbn; auto.
Qed.

Theorem lib_fn_ok name d : lib_fn name = Some d -> name <> bytes_of_string "boom" -> fn_ok d.
Proof.
  unfold lib_fn. intros H Hnb.
  repeat match type of H with
         | (if ?c then _ else _) = _ => destruct c eqn:?; [injection H as <-|]
         end; try discriminate H;
    try (apply concat_fn_ok; reflexivity);
    unfold fn_ok, simple, sig_of; cbn [fn_opt_params fn_params fn_variadic_same fn_impl fn_ret map app];
    (split; [repeat constructor|]); intros vs Hvs.
  - apply (first_ok_typed TBytes vs []). left; exact Hvs.
  - inv_args Hvs. destruct x as [v|t]; [|fin]. cbn in Hh. apply has_type_prim_inv in Hh. destruct Hh as (b & ->). fin.
  - inv_args Hvs. destruct x as [v|t]; [|fin]. cbn in Hh. apply has_type_prim_inv in Hh. destruct Hh as (b & ->). fin.
  - apply (first_ok_typed TInt vs []). right; left; exact Hvs.
  - apply (first_ok_typed TIp vs []). right; left; exact Hvs.
  - inv_args Hvs. destruct x as [v|t]; [|fin]. cbn in Hh. apply has_type_prim_inv in Hh. destruct Hh as (b & ->).
    destruct b; fin.
  - eexists; split; [reflexivity|]. reflexivity.
  - apply (first_ok_typed TInt vs []). right; right; exact Hvs.
  - apply (first_ok_typed (TArray TBool) vs []). left; exact Hvs.
  - apply (first_ok_typed (TMap TBool) vs []). left; exact Hvs.
  - apply (first_ok_typed TBool vs []). left; exact Hvs.
  - inv_args Hvs. destruct x as [v|t]; [|fin]. cbn in Hh. apply has_type_prim_inv in Hh. destruct Hh as (b & ->).
    destruct b; fin.
  - inv_args Hvs. destruct x as [v|t]; [|fin]. cbn in Hh. destruct (has_type_array _ _ Hh) as (l & -> & _). fin.
  - inv_args Hvs. destruct x as [v|t]; [|fin]. cbn in Hh. apply has_type_prim_inv in Hh. destruct Hh as (b & ->).
    destruct x0 as [v0|t0]; [|fin]. cbn in Hh0. apply has_type_prim_inv in Hh0. destruct Hh0 as (b0 & ->). fin.
  - inv_args Hvs. destruct x as [v|t]; [|fin]. cbn in Hh. apply has_type_prim_inv in Hh. destruct Hh as (b & ->). fin.
  - eexists; split; [reflexivity|]. reflexivity.
  - (* boom is excluded *)
    exfalso. apply Hnb.
    match goal with E : bytes_eqb name _ = true |- _ => revert E end. clear.
    generalize (bytes_of_string "boom"). induction name as [|x n IH]; intros [|y l] E; cbn in E; try discriminate; auto.
    apply andb_true_iff in E. destruct E as [E1 E2]. apply N.eqb_eq in E1. subst. f_equal. auto.
Qed.
