(* C17, whole-parser part: every `in $name` node of every filter the parser
   model accepts carries a permitted list name.  One induction on the fuel
   over the nine mutually recursive functions of Parse/Parser.v; the only
   place a name enters an AST is the `in $` branch of lex_with_lhs, through
   lex_list_name (characterised in Proofs/ListProofs.v). *)
From Coq Require Import List ZArith NArith Bool Lia Arith.
From WF Require Import Base.Bytes Sem.RangeSet Lang.Types Lang.Ast Lang.Context Sem.Compile Spec.Typing
     Parse.Lex Parse.Parser Sem.ListState Spec.C17 Proofs.ListProofs.
Import ListNotations.
Local Notation length := List.length (only parsing).

Lemma lbind_ok {A B} (r : lres A) (k : A -> bytes -> lres B) b rest :
  lbind r k = LOk b rest -> exists a r0, r = LOk a r0 /\ k a r0 = LOk b rest.
Proof. destruct r as [a r0|e s n| |]; cbn; intros H; try discriminate H. eauto. Qed.

Lemma lmap_ok {A B} (f : A -> B) (r : lres A) b rest :
  lmap f r = LOk b rest -> exists a, r = LOk a rest /\ b = f a.
Proof.
  unfold lmap. intros H. apply lbind_ok in H. destruct H as (a & r0 & -> & H). injection H as <- <-. eauto.
Qed.

Lemma names_ok_args_of_list l : names_ok_args (args_of_list l) = forallb names_ok_arg l.
Proof. induction l as [|x l IH]; cbn; [reflexivity|]. now rewrite IH. Qed.

Lemma names_ok_lexprs_of_list l : names_ok_lexprs (lexprs_of_list l) = forallb names_ok_lexpr l.
Proof. induction l as [|x l IH]; cbn; [reflexivity|]. now rewrite IH. Qed.

Lemma names_ok_lexprs_to_list l : forallb names_ok_lexpr (lexprs_to_list l) = names_ok_lexprs l.
Proof. induction l as [|x l IH]; cbn; [reflexivity|]. now rewrite IH. Qed.

Lemma names_ok_combine lhs op rhs :
  names_ok_lexpr lhs = true -> names_ok_lexpr rhs = true -> names_ok_lexpr (combine lhs op rhs) = true.
Proof.
  intros Hl Hr. unfold combine.
  assert (Hpair : names_ok_lexpr (ECombining op (LCons lhs (LCons rhs LNil))) = true).
  { cbn. now rewrite Hl, Hr. }
  destruct lhs as [o items| | | | |]; try exact Hpair.
  destruct (same_logop o op); [|exact Hpair].
  cbn [names_ok_lexpr] in *. rewrite names_ok_lexprs_of_list, forallb_app, names_ok_lexprs_to_list, Hl. cbn. now rewrite Hr.
Qed.

Lemma list_name_permitted i name rest : lex_list_name i = LOk name rest -> permitted_name name = true.
Proof. intros H. apply lex_list_name_accepts in H. destruct H as (s & _ & _ & H). exact H. Qed.

Section Names.
Variable sch : scheme.
Variable st : settings.

Record NI (f : nat) : Prop := {
  n_logical : forall d i e r, lex_logical sch st f d i = LOk e r -> names_ok_lexpr e = true;
  n_more : forall d lhs minp la e r, names_ok_lexpr lhs = true ->
      lex_more sch st f d lhs minp la = LOk e r -> names_ok_lexpr e = true;
  n_inner : forall d rhs rr op x r, names_ok_lexpr rhs = true ->
      lex_inner sch st f d rhs rr op = LOk x r -> names_ok_lexpr (fst x) = true;
  n_simple : forall d i e r, lex_simple sch st f d i = LOk e r -> names_ok_lexpr e = true;
  n_with_lhs : forall d i lhs e r, names_ok_iexpr lhs = true ->
      lex_with_lhs sch st f d i lhs = LOk e r -> names_ok_lexpr e = true;
  n_index : forall d i e r, lex_index_expr sch st f d i = LOk e r -> names_ok_iexpr e = true;
  n_call : forall d i fn a r, lex_call sch st f d i fn = LOk a r -> names_ok_args a = true;
  n_call_args : forall d i def acc l r, forallb names_ok_arg acc = true ->
      lex_call_args sch st f d i def acc = LOk l r -> forallb names_ok_arg l = true;
  n_arg : forall d i a r, lex_arg sch st f d i = LOk a r -> names_ok_arg a = true;
}.

Lemma NI_0 : NI 0.
Proof. constructor; intros; cbn in *; discriminate. Qed.

(* destructs whatever an equation `... = LOk _ _` is stuck on *)
Ltac crush H :=
  repeat match type of H with
         | LOk _ _ = LOk _ _ => injection H as ? ?; subst
         | lbind ?x _ = LOk _ _ =>
             let E := fresh "E" in destruct x eqn:E; cbn [lbind] in H; try discriminate H
         | lmap _ _ = LOk _ _ => unfold lmap in H
         | (match ?x with _ => _ end) = LOk _ _ =>
             let E := fresh "E" in destruct x eqn:E; try discriminate H
         end.

Lemma step_logical f : NI f -> forall d i e r, lex_logical sch st (S f) d i = LOk e r -> names_ok_lexpr e = true.
Proof.
  intros N d i e r H. cbn [lex_logical] in H. apply lbind_ok in H. destruct H as (lhs & rest & H1 & H2).
  eapply (n_more f N); [|exact H2]. eapply (n_simple f N); exact H1.
Qed.

Lemma step_more f : NI f -> forall d lhs minp la e r, names_ok_lexpr lhs = true ->
  lex_more sch st (S f) d lhs minp la = LOk e r -> names_ok_lexpr e = true.
Proof.
  intros N d lhs minp la e r Hl H. cbn [lex_more] in H. destruct (fst la) as [op|].
  - apply lbind_ok in H. destruct H as (rhs & rr & H1 & H2).
    pose proof (n_simple f N _ _ _ _ H1) as Hr.
    destruct (lex_inner sch st f d rhs rr op) as [[rhs' la'] rr'|k a n| |] eqn:Ei; try discriminate H2.
    pose proof (n_inner f N _ _ _ _ _ _ Hr Ei) as Hr'. cbn [fst] in Hr'.
    destruct (ty_lexpr sch lhs) as [tl|]; [|discriminate H2].
    destruct (ty_lexpr sch rhs') as [tr|]; [|discriminate H2].
    destruct (types_combinable tl tr); [|discriminate H2].
    eapply (n_more f N); [|exact H2]. now apply names_ok_combine.
  - injection H as <- _. exact Hl.
Qed.

Lemma step_inner f : NI f -> forall d rhs rr op x r, names_ok_lexpr rhs = true ->
  lex_inner sch st (S f) d rhs rr op = LOk x r -> names_ok_lexpr (fst x) = true.
Proof.
  intros N d rhs rr op x r Hr H. cbn [lex_inner] in H. cbv zeta in H.
  destruct (Nat.leb (lvl (fst (lex_combining_op rr))) (lvl (Some op))).
  - injection H as <- _. exact Hr.
  - destruct (lex_more sch st f d rhs (fst (lex_combining_op rr)) (lex_combining_op rr)) as [rhs' rest'|k a n| |] eqn:Em;
      try discriminate H.
    eapply (n_inner f N); [|exact H]. eapply (n_more f N); [exact Hr|exact Em].
Qed.

Lemma step_simple f : NI f -> forall d i e r, lex_simple sch st (S f) d i = LOk e r -> names_ok_lexpr e = true.
Proof.
  intros N d i e r H. cbn [lex_simple] in H.
  destruct (starts_with [40]%N i) as [rest|].
  { apply lbind_ok in H. destruct H as (d' & r0 & _ & H). apply lbind_ok in H. destruct H as (e1 & r1 & H1 & H).
    apply lbind_ok in H. destruct H as (u & r2 & _ & H). injection H as <- _. cbn. eapply (n_logical f N); exact H1. }
  destruct (lex_alts unary_ops i) as [[u rest]|].
  { apply lbind_ok in H. destruct H as (d' & r0 & _ & H). apply lbind_ok in H. destruct H as (a1 & r1 & H1 & H).
    injection H as <- _. cbn. eapply (n_simple f N); exact H1. }
  destruct (lex_quant_call i) as [[q rest]|].
  { apply lbind_ok in H. destruct H as (d' & r0 & _ & H). apply lbind_ok in H. destruct H as (u & r1 & _ & H).
    destruct (lex_arg sch st f d' (skip_space r1)) as [a rest2|k a n| |] eqn:Ea; try discriminate H.
    pose proof (n_arg f N _ _ _ _ Ea) as Ha. cbv zeta in H.
    destruct a as [ie|lit|le]; cbn [names_ok_arg] in Ha.
    - destruct (Nat.ltb 0 (map_each_count (iexpr_idx ie))); [discriminate H|].
      destruct (ty_iexpr sch ie) as [[| | | |[]|]|]; try discriminate H.
      apply lbind_ok in H. destruct H as (u' & r3 & _ & H). injection H as <- _. exact Ha.
    - discriminate H.
    - destruct (ty_lexpr sch le) as [[| | | |[]|]|]; try discriminate H.
      apply lbind_ok in H. destruct H as (u' & r3 & _ & H). injection H as <- _. exact Ha. }
  apply lbind_ok in H. destruct H as (lhs & rest & H1 & H2).
  eapply (n_with_lhs f N); [|exact H2]. eapply (n_index f N); exact H1.
Qed.

Lemma step_with_lhs f : NI f -> forall d i lhs e r, names_ok_iexpr lhs = true ->
  lex_with_lhs sch st (S f) d i lhs = LOk e r -> names_ok_lexpr e = true.
Proof.
  intros _ d i lhs e r Hl H. cbn [lex_with_lhs] in H. cbv zeta in H.
  crush H; cbn [names_ok_lexpr]; rewrite Hl; cbn [andb]; try reflexivity.
  all: eapply list_name_permitted; eassumption.
Qed.

Lemma step_index f : NI f -> forall d i e r, lex_index_expr sch st (S f) d i = LOk e r -> names_ok_iexpr e = true.
Proof.
  intros N d i e r H. cbn [lex_index_expr] in H.
  destruct (lex_ident_name i) as [name rest|k a n| |]; try discriminate H.
  destruct (scheme_get sch name) as [[fi|fn]|]; try discriminate H.
  - destruct (field_ty sch fi) as [t|]; [|discriminate H].
    apply lmap_ok in H. destruct H as (idx & _ & ->). reflexivity.
  - destruct (increase st d (skip_space rest)) as [d' r0|k a n| |]; try discriminate H.
    destruct (lex_call sch st f d' rest fn) as [a rest1|k a n| |] eqn:Ec; try discriminate H.
    destruct (ty_call sch fn a) as [t|]; [|discriminate H].
    apply lmap_ok in H. destruct H as (idx & _ & ->). cbn. eapply (n_call f N); exact Ec.
Qed.

Lemma step_call f : NI f -> forall d i fn a r, lex_call sch st (S f) d i fn = LOk a r -> names_ok_args a = true.
Proof.
  intros N d i fn a r H. cbn [lex_call] in H. destruct (fn_of sch fn) as [def|]; [|discriminate H].
  apply lbind_ok in H. destruct H as (u & r0 & _ & H). apply lmap_ok in H. destruct H as (l & H & ->).
  rewrite names_ok_args_of_list. eapply (n_call_args f N); [|exact H]. reflexivity.
Qed.

Lemma step_call_args f : NI f -> forall d i def acc l r, forallb names_ok_arg acc = true ->
  lex_call_args sch st (S f) d i def acc = LOk l r -> forallb names_ok_arg l = true.
Proof.
  intros N d i def acc l r Hacc H. cbn [lex_call_args] in H. cbv zeta in H.
  assert (Hfin : forall inp,
            (if Nat.ltb (length acc) (if fn_variadic_same def then 2%nat else length (fn_params def))
             then LErr EInvalidArgumentsCount inp (length inp)
             else lbind (expect [41]%N inp) (fun _ rest => LOk acc rest)) = LOk l r ->
            forallb names_ok_arg l = true).
  { intros inp H'. destruct (Nat.ltb _ _); [discriminate H'|].
    apply lbind_ok in H'. destruct H' as (u & r0 & _ & H'). injection H' as <- _. exact Hacc. }
  assert (Hgo : lbind (if Nat.eqb (length acc) 0 then LOk tt i else expect [44]%N i)
                  (fun _ input1 =>
                     match lex_arg sch st f d (skip_space input1) with
                     | LOk a rest =>
                         if Nat.ltb 0 (arg_map_each_count a) && negb (Nat.eqb (length acc) 0)
                         then LErr EInvalidMapEachAccess (skip_space input1) (span_len (skip_space input1) rest)
                         else if negb (fn_variadic_same def)
                                 && Nat.leb (length (fn_params def) + length (fn_opt_params def)) (length acc)
                         then LErr EInvalidArgumentsCount (skip_space input1) (length (skip_space input1))
                         else
                           match ty_arg sch a with
                           | None => LPanic
                           | Some t =>
                               match check_param sch def acc a t with
                               | PcOk => lex_call_args sch st f d (skip_space rest) def (acc ++ [a])
                               | PcKind => LErr EInvalidArgumentKind (skip_space input1) (span_len (skip_space input1) rest)
                               | PcType => LErr EInvalidArgumentType (skip_space input1) (span_len (skip_space input1) rest)
                               | PcUnreachable => LPanic
                               end
                           end
                     | LErr k a n => LErr k a n
                     | LPanic => LPanic
                     | LFuel => LFuel
                     end) = LOk l r -> forallb names_ok_arg l = true).
  { intros H'. apply lbind_ok in H'. destruct H' as (u & input1 & _ & H').
    destruct (lex_arg sch st f d (skip_space input1)) as [a rest|k a n| |] eqn:Ea; try discriminate H'.
    pose proof (n_arg f N _ _ _ _ Ea) as Ha.
    destruct (Nat.ltb 0 (arg_map_each_count a) && negb (Nat.eqb (length acc) 0)); [discriminate H'|].
    destruct (negb (fn_variadic_same def) && _); [discriminate H'|].
    destruct (ty_arg sch a) as [t|]; [|discriminate H'].
    destruct (check_param sch def acc a t); try discriminate H'.
    eapply (n_call_args f N); [|exact H']. rewrite forallb_app, Hacc. cbn. now rewrite Ha. }
  destruct i as [|b i']; [exact (Hfin _ H)|].
  destruct (N.eq_dec b 41) as [->|N41]; [exact (Hfin _ H)|].
  destruct b as [|p]; [exact (Hgo H)|].
  repeat (destruct p as [p|p|]; try exact (Hgo H); try contradiction).
Qed.

Lemma step_arg f : NI f -> forall d i a r, lex_arg sch st (S f) d i = LOk a r -> names_ok_arg a = true.
Proof.
  intros N d i a r H. cbn [lex_arg] in H. destruct (first_chars i) as [[c1 c2] c3]. cbv zeta in H.
  crush H; cbn [names_ok_arg];
    try reflexivity;
    try (eapply (n_index f N); eassumption);
    try (eapply (n_logical f N); eassumption);
    try (eapply (n_with_lhs f N); [eapply (n_index f N); eassumption|eassumption]).
Qed.

Lemma NI_S f : NI f -> NI (S f).
Proof.
  intros N. constructor.
  - now apply step_logical.
  - now apply step_more.
  - now apply step_inner.
  - now apply step_simple.
  - now apply step_with_lhs.
  - now apply step_index.
  - now apply step_call.
  - now apply step_call_args.
  - now apply step_arg.
Qed.

Theorem names_post f : NI f.
Proof. induction f as [|f IH]; [apply NI_0|now apply NI_S]. Qed.

End Names.

(* every `in $name` node of an accepted filter carries a permitted name *)
Theorem parsed_names_permitted sch st text e rest :
  parse_filter sch st text = LOk e rest -> names_ok_lexpr e = true.
Proof.
  unfold parse_filter, complete. intros H.
  destruct (lbind (lex_logical sch st (8 * length (trim text) + 16) 0 (trim text)) _) as [e0 r0|k a n| |] eqn:E;
    try discriminate H.
  destruct r0; [|discriminate H]. injection H as <- _.
  apply lbind_ok in E. destruct E as (e1 & r1 & E1 & E2).
  destruct (ty_lexpr sch e1) as [[| | | | |]|]; try discriminate E2. injection E2 as <- _.
  eapply (n_logical sch st _ (names_post sch st _)); exact E1.
Qed.
