(* C06: array indexes, map keys, list names; UTF-8 acceptance. *)
From Coq Require Import List ZArith NArith Bool Lia Arith.
From Coq Require Import ZifyBool.
From WF Require Import Base.Bytes Sem.RangeSet Lang.Ast Parse.Lex Spec.C06 Proofs.LexBase Proofs.LexIntProofs
  Proofs.LexBytesProofs.
Import ListNotations.
Open Scope Z_scope.

(* ================= indexes ================= *)
Lemma lfi_int : forall c s, c <> 42%N -> c <> 34%N ->
  lex_field_index (c :: s) =
  match lex_int (c :: s) with
  | LOk i rest =>
      if (0 <=? i) && (i <? 4294967296) then LOk (RIArr (Z.to_N i)) rest
      else LErr EExpectedLiteral (c :: s) (length (c :: s))
  | LErr _ _ _ => LErr EExpectedLiteral (c :: s) (length (c :: s))
  | LPanic => LPanic
  | LFuel => LFuel
  end.
Proof.
  intros c s H1 H2. unfold lex_field_index. rewrite starts_with_cons. replace (42 =? c)%N with false by lia.
  destruct c as [|p]; [reflexivity|].
  do 6 (try (destruct p as [p|p|]); try reflexivity); congruence.
Qed.

Lemma print_int_head : forall f v, int_form_ok f v ->
  exists c t, print_int f v = c :: t /\ c <> 42%N /\ c <> 34%N.
Proof.
  intros f v Hok. destruct f as [|u pad|pad]; cbn [print_int app].
  - unfold print_dec. destruct (v <? 0) eqn:E.
    + eexists _, _. split; [reflexivity|split; discriminate].
    + assert (Hv : 0 <= v) by lia.
      destruct (print_radix_spec 10 false v ltac:(lia) Hv) as (_ & _ & _ & Hhd & H0).
      destruct (Z.eq_dec v 0) as [->|Hn].
      * rewrite (H0 eq_refl). eexists _, _. split; [reflexivity|split; discriminate].
      * destruct (Hhd ltac:(lia)) as (d & t & Ed & Hd). rewrite Ed. eexists _, _. split; [reflexivity|].
        split; apply (digit_char_not false d); lia.
  - eexists _, _. split; [reflexivity|split; discriminate].
  - eexists _, _. split; [reflexivity|split; discriminate].
Qed.

Theorem index_lex : forall f n rest, int_form_ok f n -> int_follow_ok rest ->
  lex_field_index (print_int f n ++ rest) =
  if (0 <=? n) && (n <? 4294967296) then LOk (RIArr (Z.to_N n)) rest
  else LErr EExpectedLiteral (print_int f n ++ rest) (length (print_int f n ++ rest)).
Proof.
  intros f n rest Hok Hf. destruct (print_int_head f n Hok) as (c & t & E & H42 & H34).
  assert (E2 : print_int f n ++ rest = c :: t ++ rest) by (rewrite E; reflexivity).
  rewrite E2 at 1. rewrite lfi_int by assumption. rewrite <- E2.
  destruct (Z_le_dec i64_min n) as [Hlo|Hlo]; [destruct (Z_le_dec n i64_max) as [Hhi|Hhi]|].
  - rewrite int_roundtrip by (assumption || (split; assumption)). reflexivity.
  - destruct (int_out_of_range f n rest) as (a & l & Ee); try assumption.
    { unfold in_i64; lia. }
    rewrite Ee. unfold i64_max in Hhi. replace ((0 <=? n) && (n <? 4294967296)) with false by lia. reflexivity.
  - destruct (int_out_of_range f n rest) as (a & l & Ee); try assumption.
    { unfold in_i64; lia. }
    rewrite Ee. unfold i64_min in Hlo. replace ((0 <=? n) && (n <? 4294967296)) with false by lia. reflexivity.
Qed.

(* ================= map keys ================= *)
Theorem map_key_lex : forall l rest, styles_ok l ->
  lex_field_index (print_quoted l ++ rest) =
  if utf8_valid (map snd l) then LOk (RIKey (map snd l)) rest
  else LErr EExpectedLiteral (print_quoted l ++ rest) (length (print_quoted l ++ rest)).
Proof.
  intros l rest Hok. pose proof (quoted_lex_bytes l rest Hok) as E.
  unfold print_quoted in *. cbn [app] in *. unfold lex_field_index.
  rewrite starts_with_cons. change (42 =? 34)%N with false. cbv iota.
  rewrite E. reflexivity.
Qed.

(* the acceptance automaton only accepts sequences of well-formed characters *)
Lemma utf8_valid_go_chars : forall fuel s, utf8_valid_go fuel s = true -> utf8_chars s.
Proof.
  induction fuel as [|f IH]; intros s H; [discriminate|].
  destruct s as [|b r]; [constructor|]. cbn [utf8_valid_go] in H. cbv zeta beta in H.
  destruct (b <? 128)%N eqn:E1; [apply U8one; [lia|apply IH; exact H]|].
  destruct ((194 <=? b) && (b <=? 223))%N eqn:E2.
  { destruct r as [|c1 r]; [discriminate|]. apply andb_prop in H. destruct H as [H1 H2].
    apply U8two; [lia|unfold cont_byte; lia|apply IH; exact H2]. }
  destruct (b =? 224)%N eqn:E3.
  { destruct r as [|c1 [|c2 r]]; try discriminate.
    apply andb_prop in H. destruct H as [H H3]. apply andb_prop in H. destruct H as [H H2].
    apply U8three; [lia|unfold cont_byte; lia|unfold cont_byte; lia|apply IH; exact H3]. }
  destruct (((225 <=? b) && (b <=? 236)) || (b =? 238) || (b =? 239))%N eqn:E4.
  { destruct r as [|c1 [|c2 r]]; try discriminate.
    apply andb_prop in H. destruct H as [H H3]. apply andb_prop in H. destruct H as [H1 H2].
    apply U8three; [lia|unfold cont_byte; lia|unfold cont_byte; lia|apply IH; exact H3]. }
  destruct (b =? 237)%N eqn:E5.
  { destruct r as [|c1 [|c2 r]]; try discriminate.
    apply andb_prop in H. destruct H as [H H3]. apply andb_prop in H. destruct H as [H H2].
    apply U8three; [lia|unfold cont_byte; lia|unfold cont_byte; lia|apply IH; exact H3]. }
  destruct (b =? 240)%N eqn:E6.
  { destruct r as [|c1 [|c2 [|c3 r]]]; try discriminate.
    apply andb_prop in H. destruct H as [H H4]. apply andb_prop in H. destruct H as [H H3].
    apply andb_prop in H. destruct H as [H H2].
    apply U8four; [lia|unfold cont_byte; lia|unfold cont_byte; lia|unfold cont_byte; lia|apply IH; exact H4]. }
  destruct ((241 <=? b) && (b <=? 243))%N eqn:E7.
  { destruct r as [|c1 [|c2 [|c3 r]]]; try discriminate.
    apply andb_prop in H. destruct H as [H H4]. apply andb_prop in H. destruct H as [H H3].
    apply andb_prop in H. destruct H as [H1 H2].
    apply U8four; [lia|unfold cont_byte; lia|unfold cont_byte; lia|unfold cont_byte; lia|apply IH; exact H4]. }
  destruct (b =? 244)%N eqn:E8; [|discriminate].
  { destruct r as [|c1 [|c2 [|c3 r]]]; try discriminate.
    apply andb_prop in H. destruct H as [H H4]. apply andb_prop in H. destruct H as [H H3].
    apply andb_prop in H. destruct H as [H H2].
    apply U8four; [lia|unfold cont_byte; lia|unfold cont_byte; lia|unfold cont_byte; lia|apply IH; exact H4]. }
Qed.

Theorem utf8_valid_chars : forall s, utf8_valid s = true -> utf8_chars s.
Proof. intros s H. eapply utf8_valid_go_chars. exact H. Qed.

(* ================= list names ================= *)
Lemma listname_char_spec : forall b, is_listname_char b = listname_byte b.
Proof. reflexivity. Qed.
Lemma listname_ascii : forall b, listname_byte b = true -> is_ascii b && is_listname_char b = true.
Proof. intros b H. unfold listname_byte, is_listname_char, Lex.is_digit, is_ascii in *. lia. Qed.
Lemma listname_follow_stops : forall rest, listname_follow_ok rest -> stops is_listname_char rest.
Proof.
  intros [|b r] H; [exact I|]. cbn in *. rewrite listname_char_spec, H. apply andb_false_r.
Qed.

Lemma starts_with_single : forall x input after, starts_with [x] input = Some after <-> input = x :: after.
Proof.
  intros x input after. destruct input as [|y s]; cbn [starts_with].
  - split; discriminate.
  - destruct (x =? y)%N eqn:E; rewrite ?starts_with_nil; split; intro H; inversion H; subst; try reflexivity;
      try (f_equal; lia); try lia.
Qed.

Definition list_name_verdict (name rest : bytes) : lres bytes :=
  match name with
  | [] => LErr EInvalidListName (name ++ rest) (length (name ++ rest))
  | _ => if (hd 0%N name =? 46)%N || (last name 0%N =? 46)%N
         then LErr EInvalidListName (name ++ rest) (length (name ++ rest))
         else LOk name rest
  end.

Lemma lex_list_name_run : forall name rest,
  Forall (fun b => listname_byte b = true) name -> listname_follow_ok rest ->
  lex_list_name (36%N :: name ++ rest) = list_name_verdict name rest.
Proof.
  intros name rest Hn Hr. unfold lex_list_name. rewrite starts_with_cons, N.eqb_refl, starts_with_nil.
  rewrite take_while_go_app.
  - reflexivity.
  - eapply Forall_impl; [|exact Hn]. intros b Hb. apply listname_ascii. exact Hb.
  - apply listname_follow_stops. exact Hr.
Qed.

Theorem list_name_accept : forall name rest, good_list_name name -> listname_follow_ok rest ->
  lex_list_name (36%N :: name ++ rest) = LOk name rest.
Proof.
  intros name rest (Hne & Hc & Hh & Hl) Hr. rewrite lex_list_name_run by assumption.
  unfold list_name_verdict. destruct name as [|b t]; [contradiction|].
  replace (hd 0%N (b :: t) =? 46)%N with false by lia. replace (last (b :: t) 0%N =? 46)%N with false by lia.
  reflexivity.
Qed.

Theorem list_name_reject : forall name rest,
  Forall (fun b => listname_byte b = true) name -> listname_follow_ok rest -> ~ good_list_name name ->
  lex_list_name (36%N :: name ++ rest) = LErr EInvalidListName (name ++ rest) (length (name ++ rest)).
Proof.
  intros name rest Hc Hr Hbad. rewrite lex_list_name_run by assumption.
  unfold list_name_verdict. destruct name as [|b t]; [reflexivity|].
  destruct ((hd 0%N (b :: t) =? 46)%N || (last (b :: t) 0%N =? 46)%N) eqn:E; [reflexivity|].
  exfalso. apply Hbad. split; [discriminate|]. split; [assumption|]. split; lia.
Qed.

Theorem list_name_no_dollar : forall input, (forall r, input <> 36%N :: r) ->
  lex_list_name input = LErr EExpectedLiteral input (length input).
Proof.
  intros input H. unfold lex_list_name. destruct (starts_with [36%N] input) as [after|] eqn:E; [|reflexivity].
  apply starts_with_single in E. exfalso. exact (H _ E).
Qed.

Theorem list_name_inv : forall input v rest, lex_list_name input = LOk v rest ->
  input = 36%N :: v ++ rest /\ good_list_name v /\ listname_follow_ok rest.
Proof.
  intros input v rest H. unfold lex_list_name in H.
  destruct (starts_with [36%N] input) as [after|] eqn:E; [|discriminate].
  apply starts_with_single in E. subst input.
  destruct (take_while_go is_listname_char after) as [name r] eqn:Et.
  pose proof (take_while_go_split _ _ _ _ Et) as Es. destruct (take_while_go_all _ _ _ _ Et) as [Ha Hs].
  destruct name as [|b t]; [discriminate|].
  destruct ((hd 0%N (b :: t) =? 46)%N || (last (b :: t) 0%N =? 46)%N) eqn:Eh; [discriminate|].
  inversion H; subst. split; [reflexivity|]. split.
  - split; [discriminate|]. split; [|split; lia].
    eapply Forall_impl; [|exact Ha]. intros x Hx. cbn beta in Hx. rewrite listname_char_spec in Hx. lia.
  - destruct rest as [|x r']; [exact I|]. cbn in *. rewrite listname_char_spec in Hs.
    destruct (listname_byte x) eqn:Ex; [|reflexivity]. exfalso.
    assert (is_ascii x = true) by (unfold listname_byte, is_ascii in *; lia). lia.
Qed.

Theorem list_name_iff : forall input,
  (exists v rest, lex_list_name input = LOk v rest) <->
  (exists name rest, input = 36%N :: name ++ rest /\ good_list_name name /\ listname_follow_ok rest).
Proof.
  intros input. split.
  - intros (v & rest & H). exists v, rest. apply list_name_inv. exact H.
  - intros (name & rest & -> & Hg & Hr). exists name, rest. apply list_name_accept; assumption.
Qed.
