(* C14: proofs about the JSON form of values and execution contexts
   (Sem/CtxSerde.v) against Spec/C14.v: every Rust value and every well-formed
   context comes back from its JSON form; whatever the document, a successful
   read stores only values of the declared types and no step of the reader can
   panic; the reader equals the state-free specification [spec_ctx_of_json]; a
   document without repeated keys is read the same way from a value tree. *)
From Coq Require Import List NArith ZArith Bool Lia Arith Permutation.
From WF Require Import Base.Bytes Base.Sexp Sem.RangeSet Lang.Types Lang.Ast Lang.Context Spec.Typing
     Sem.TypeCodec Sem.CtxApi Sem.CtxSerde Sem.Compile Parse.Lex Spec.C15 Spec.C14
     Proofs.ScalarProofs Proofs.CtxApiProofs Proofs.TypeCodecProofs Proofs.IpTextProofs.
Import ListNotations.
Open Scope nat_scope.

(* ------------------------------------------------------------------ *)
(* induction on values                                                  *)

Section ValueInd.
  Variable P : value -> Prop.
  Hypothesis Hbool : forall b, P (VBool b).
  Hypothesis Hbytes : forall b, P (VBytes b).
  Hypothesis Hint : forall z, P (VInt z).
  Hypothesis Hip : forall a, P (VIp a).
  Hypothesis Harr : forall t l, Forall P l -> P (VArray t l).
  Hypothesis Hmap : forall t l, Forall (fun kv : bytes * value => P (snd kv)) l -> P (VMap t l).

  Fixpoint value_ind' (v : value) : P v :=
    match v with
    | VBool b => Hbool b
    | VBytes b => Hbytes b
    | VInt z => Hint z
    | VIp a => Hip a
    | VArray t l =>
        Harr t l ((fix go (l : list value) : Forall P l :=
                     match l with
                     | [] => Forall_nil P
                     | x :: r => Forall_cons x (value_ind' x) (go r)
                     end) l)
    | VMap t l =>
        Hmap t l ((fix go (l : list (bytes * value)) : Forall (fun kv : bytes * value => P (snd kv)) l :=
                     match l with
                     | [] => Forall_nil _
                     | kv :: r => Forall_cons kv (value_ind' (snd kv)) (go r)
                     end) l)
    end.
End ValueInd.

(* ------------------------------------------------------------------ *)
(* sorted association lists                                             *)

Definition key_lt {A} (a b : bytes * A) : Prop := bytes_compare (fst a) (fst b) = Lt.

Fixpoint ssorted {A} (l : list (bytes * A)) : Prop :=
  match l with
  | [] => True
  | x :: r => Forall (key_lt x) r /\ ssorted r
  end.

Lemma names_ascending_cons {A} k (v : A) l :
  names_ascending ((k, v) :: l) = true <->
  (match l with [] => True | (k2, _) :: _ => bytes_compare k k2 = Lt end /\ names_ascending l = true).
Proof.
  cbn [names_ascending]. destruct l as [|[k2 v2] r].
  - split; [intros _; split; [exact I|reflexivity]|reflexivity].
  - destruct (bytes_compare k k2); split; try discriminate; try (intros [H _]; discriminate).
    + intros H. split; [reflexivity|exact H].
    + intros [_ H]. exact H.
Qed.

Lemma names_ascending_ssorted {A} (l : list (bytes * A)) : names_ascending l = true -> ssorted l.
Proof.
  induction l as [|[k v] l IH]; intros H; [exact I|].
  apply names_ascending_cons in H. destruct H as [Hhd Hr]. specialize (IH Hr). split; [|exact IH].
  destruct l as [|[k2 v2] r]; [constructor|]. cbn [ssorted] in IH. destruct IH as [IH1 IH2].
  constructor; [exact Hhd|]. eapply Forall_impl; [|exact IH1].
  intros [k3 v3] H3. unfold key_lt in *. cbn [fst] in *. eapply bytes_compare_lt_trans; eassumption.
Qed.

Lemma keys_ascending_names (l : list (bytes * value)) : keys_ascending l = names_ascending l.
Proof.
  induction l as [|[k v] l IH]; [reflexivity|]. cbn [keys_ascending names_ascending].
  destruct l as [|[k2 v2] r]; [reflexivity|]. destruct (bytes_compare k k2); try reflexivity. exact IH.
Qed.

Lemma ssorted_app_lt {A} (m : list (bytes * A)) x r : ssorted (m ++ x :: r) -> Forall (fun y => key_lt y x) m.
Proof.
  induction m as [|y m IH]; intros H; [constructor|]. cbn [app ssorted] in H. destruct H as [H1 H2].
  constructor; [|apply IH; exact H2]. apply Forall_app in H1. destruct H1 as [_ H1]. inversion H1; assumption.
Qed.

Lemma bt_insert_last {A} k (v : A) : forall m, Forall (fun y => key_lt y (k, v)) m -> bt_insert k v m = m ++ [(k, v)].
Proof.
  induction m as [|[k' v'] m IH]; intros H; [reflexivity|].
  inversion H as [|? ? Hy Hr]; subst. unfold key_lt in Hy. cbn [fst] in Hy.
  cbn [bt_insert app]. rewrite (bytes_compare_antisym k' k), Hy. cbn [CompOpp]. f_equal. apply IH. exact Hr.
Qed.

Lemma bt_insert_map_insert k v : forall m, bt_insert k v m = map_insert k v m.
Proof.
  induction m as [|[k' v'] m IH]; [reflexivity|]. cbn [bt_insert map_insert].
  destruct (bytes_compare k k'); try reflexivity. now rewrite IH.
Qed.

Lemma bt_insert_In {A} k (v : A) kv : forall m, In kv (bt_insert k v m) -> kv = (k, v) \/ In kv m.
Proof.
  induction m as [|[k' v'] m IH]; cbn [bt_insert]; intros H.
  - destruct H as [H|[]]. left. now symmetry.
  - destruct (bytes_compare k k').
    + destruct H as [H|H]; [left; now symmetry|right; right; exact H].
    + destruct H as [H|H]; [left; now symmetry|right; exact H].
    + destruct H as [H|H]; [right; left; exact H|]. destruct (IH H) as [H'|H']; [left; exact H'|right; right; exact H'].
Qed.

(* ------------------------------------------------------------------ *)
(* primitives                                                           *)

Lemma all_ok_map {A B} (f : A -> result B) (g : B -> A) (l : list B) :
  Forall (fun y => f (g y) = Ok y) l -> all_ok f (map g l) = Ok l.
Proof.
  induction l as [|y l IH]; intros H; [reflexivity|]. inversion H as [|? ? Hy Hr]; subst.
  cbn [map all_ok]. now rewrite Hy, (IH Hr).
Qed.

Lemma u8_roundtrip x : (x < 256)%N -> u8_of_json (JNum (Z.of_N x)) = Ok x.
Proof.
  intros H. unfold u8_of_json.
  destruct (Z.leb_spec 0 (Z.of_N x)); [|lia]. destruct (Z.ltb_spec (Z.of_N x) 256); [|lia].
  cbn [andb]. now rewrite N2Z.id.
Qed.

Lemma nums_roundtrip b : are_bytes b = true -> all_ok u8_of_json (map (fun x => JNum (Z.of_N x)) b) = Ok b.
Proof.
  intros H. apply all_ok_map. unfold are_bytes in H. rewrite forallb_forall in H. apply Forall_forall.
  intros x Hx. apply u8_roundtrip. specialize (H x Hx). unfold is_byte in H. now apply N.ltb_lt in H.
Qed.

Lemma bytes_roundtrip b : are_bytes b = true -> bytes_of_json (bytes_to_json b) = Ok b.
Proof.
  intros H. unfold bytes_to_json. destruct (utf8_valid b); [reflexivity|].
  unfold nums. cbn [bytes_of_json]. apply nums_roundtrip. exact H.
Qed.

Lemma ip_roundtrip a : ip_rust a = true -> ip_of_json (JStr (show_ip a)) = Ok a.
Proof.
  intros H. unfold ip_of_json. rewrite parse_show_ip; [reflexivity|].
  destruct a as [x|x]; cbn [ip_rust] in H; apply andb_true_iff in H; destruct H as [H1 H2];
    apply Z.leb_le in H1; apply Z.ltb_lt in H2; split; assumption.
Qed.

Lemma int_roundtrip z : (I64_LO <=? z)%Z && (z <=? I64_HI)%Z = true -> int_of_json (JNum z) = Ok z.
Proof. intros H. unfold int_of_json. now rewrite H. Qed.

(* ------------------------------------------------------------------ *)
(* the reader of values, unfolded                                       *)

Definition arr_go (e : ty) : list json -> result (list value) :=
  fix go (l : list json) : result (list value) :=
    match l with
    | [] => Ok []
    | x :: r =>
        match elem_checked e (value_of_json e x) with
        | Ok v => match go r with Ok vs => Ok (v :: vs) | Err => Err end
        | Err => Err
        end
    end.

Definition obj_go (e : ty) : list (bytes * json) -> list (bytes * value) -> result (list (bytes * value)) :=
  fix go (es : list (bytes * json)) (m : list (bytes * value)) : result (list (bytes * value)) :=
    match es with
    | [] => Ok m
    | (k, x) :: r =>
        match elem_checked e (value_of_json e x) with
        | Ok v => go r (bt_insert k v m)
        | Err => Err
        end
    end.

Definition pairs_go (e : ty) : list json -> list (bytes * value) -> result (list (bytes * value)) :=
  fix go (ps : list json) (m : list (bytes * value)) : result (list (bytes * value)) :=
    match ps with
    | [] => Ok m
    | JArr [jk; x] :: r =>
        match bytes_of_json jk with
        | Ok k =>
            match elem_checked e (value_of_json e x) with
            | Ok v => go r (bt_insert k v m)
            | Err => Err
            end
        | Err => Err
        end
    | _ :: _ => Err
    end.

Lemma value_of_json_bool j :
  value_of_json TBool j = match bool_of_json j with Ok b => Ok (VBool b) | Err => Err end.
Proof. destruct j; reflexivity. Qed.
Lemma value_of_json_int j :
  value_of_json TInt j = match int_of_json j with Ok z => Ok (VInt z) | Err => Err end.
Proof. destruct j; reflexivity. Qed.
Lemma value_of_json_bytes j :
  value_of_json TBytes j = match bytes_of_json j with Ok b => Ok (VBytes b) | Err => Err end.
Proof. destruct j; reflexivity. Qed.
Lemma value_of_json_ip j :
  value_of_json TIp j = match ip_of_json j with Ok a => Ok (VIp a) | Err => Err end.
Proof. destruct j; reflexivity. Qed.

Lemma value_of_json_arr e l :
  value_of_json (TArray e) (JArr l) = match arr_go e l with Ok vs => Ok (VArray e vs) | Err => Err end.
Proof. reflexivity. Qed.

Lemma value_of_json_obj e es :
  value_of_json (TMap e) (JObj es) = match obj_go e es [] with Ok m => Ok (VMap e m) | Err => Err end.
Proof. reflexivity. Qed.

Lemma value_of_json_pairs e ps :
  value_of_json (TMap e) (JArr ps) = match pairs_go e ps [] with Ok m => Ok (VMap e m) | Err => Err end.
Proof. reflexivity. Qed.

(* ------------------------------------------------------------------ *)
(* C14_value_roundtrip                                                  *)

Lemma has_type_inv v t : has_type v t = true -> type_of v = t /\ value_wf v = true.
Proof.
  unfold has_type. intros H. apply andb_true_iff in H. destruct H as [H1 H2]. split; [|exact H2].
  now apply ty_eqb_eq.
Qed.

Lemma has_type_self v : value_wf v = true -> has_type v (type_of v) = true.
Proof. intros H. unfold has_type. now rewrite ty_eqb_refl, H. Qed.

Definition rt (v : value) : Prop :=
  value_wf v = true -> value_rust v = true -> value_of_json (type_of v) (value_to_json v) = Ok v.

Lemma typed_ok e v : type_of v = e -> elem_checked e (Ok v) = Ok v.
Proof. intros <-. unfold elem_checked. now rewrite ty_eqb_refl. Qed.

Lemma arr_go_roundtrip e (l : list value) :
  Forall (fun x => type_of x = e /\ value_of_json e (value_to_json x) = Ok x) l ->
  arr_go e (map value_to_json l) = Ok l.
Proof.
  induction l as [|x l IH]; intros H; [reflexivity|]. inversion H as [|? ? [Ht Hx] Hr]; subst.
  cbn [map arr_go]. rewrite Hx, (typed_ok _ _ eq_refl). fold (arr_go (type_of x)). now rewrite (IH Hr).
Qed.

Lemma obj_go_roundtrip e (l : list (bytes * value)) : forall m,
  Forall (fun kv => type_of (snd kv) = e /\ value_of_json e (value_to_json (snd kv)) = Ok (snd kv)) l ->
  ssorted (m ++ l) ->
  obj_go e (map (fun kv : bytes * value => (fst kv, value_to_json (snd kv))) l) m = Ok (m ++ l).
Proof.
  induction l as [|[k v] l IH]; intros m H Hs; [cbn; now rewrite app_nil_r|].
  inversion H as [|? ? [Ht Hx] Hr]; subst. cbn [fst snd] in *.
  cbn [map obj_go fst snd]. rewrite Hx, (typed_ok _ _ eq_refl). fold (obj_go (type_of v)).
  rewrite (bt_insert_last k v m (ssorted_app_lt m (k, v) l Hs)).
  rewrite (IH (m ++ [(k, v)]) Hr); rewrite <- app_assoc; [reflexivity|exact Hs].
Qed.

Lemma pairs_go_roundtrip e (l : list (bytes * value)) : forall m,
  Forall (fun kv => are_bytes (fst kv) = true /\ type_of (snd kv) = e
                    /\ value_of_json e (value_to_json (snd kv)) = Ok (snd kv)) l ->
  ssorted (m ++ l) ->
  pairs_go e (map (fun kv : bytes * value => JArr [bytes_to_json (fst kv); value_to_json (snd kv)]) l) m = Ok (m ++ l).
Proof.
  induction l as [|[k v] l IH]; intros m H Hs; [cbn; now rewrite app_nil_r|].
  inversion H as [|? ? (Hb & Ht & Hx) Hr]; subst. cbn [fst snd] in *.
  cbn [map pairs_go fst snd]. rewrite (bytes_roundtrip k Hb), Hx, (typed_ok _ _ eq_refl). fold (pairs_go (type_of v)).
  rewrite (bt_insert_last k v m (ssorted_app_lt m (k, v) l Hs)).
  rewrite (IH (m ++ [(k, v)]) Hr); rewrite <- app_assoc; [reflexivity|exact Hs].
Qed.

Lemma value_roundtrip_self : forall v, rt v.
Proof.
  apply value_ind'; unfold rt.
  - reflexivity.
  - intros b _ Hr. cbn [type_of value_to_json]. rewrite value_of_json_bytes. cbn [value_rust] in Hr.
    now rewrite (bytes_roundtrip b Hr).
  - intros z _ Hr. cbn [type_of value_to_json]. rewrite value_of_json_int. cbn [value_rust] in Hr.
    now rewrite (int_roundtrip z Hr).
  - intros a _ Hr. cbn [type_of value_to_json]. rewrite value_of_json_ip. cbn [value_rust] in Hr.
    now rewrite (ip_roundtrip a Hr).
  - intros t l IH Hwf Hr. cbn [type_of value_to_json]. rewrite value_of_json_arr.
    cbn [value_wf] in Hwf. cbn [value_rust] in Hr. rewrite forallb_forall in Hwf, Hr.
    rewrite arr_go_roundtrip; [reflexivity|]. rewrite Forall_forall in IH |- *. intros x Hx.
    specialize (Hwf x Hx). apply andb_true_iff in Hwf. destruct Hwf as [Ht Hw]. apply ty_eqb_eq in Ht.
    split; [exact Ht|]. rewrite <- Ht. apply IH; [exact Hx|exact Hw|apply Hr; exact Hx].
  - intros t l IH Hwf Hr. cbn [type_of value_to_json].
    cbn [value_wf] in Hwf. apply andb_true_iff in Hwf. destruct Hwf as [Hwf Hasc].
    cbn [value_rust] in Hr. rewrite forallb_forall in Hwf, Hr.
    rewrite keys_ascending_names in Hasc. apply names_ascending_ssorted in Hasc.
    assert (Hall : Forall (fun kv : bytes * value => are_bytes (fst kv) = true /\ type_of (snd kv) = t
                            /\ value_of_json t (value_to_json (snd kv)) = Ok (snd kv)) l).
    { rewrite Forall_forall in IH |- *. intros kv Hkv.
      specialize (Hwf kv Hkv). apply andb_true_iff in Hwf. destruct Hwf as [Ht Hw]. apply ty_eqb_eq in Ht.
      specialize (Hr kv Hkv). apply andb_true_iff in Hr. destruct Hr as [Hb Hv].
      split; [exact Hb|]. split; [exact Ht|]. rewrite <- Ht. apply IH; assumption. }
    destruct (forallb (fun kv : bytes * value => utf8_valid (fst kv)) l).
    + rewrite value_of_json_obj. rewrite (obj_go_roundtrip t l []); [reflexivity| |exact Hasc].
      eapply Forall_impl; [|exact Hall]. intros kv (_ & H1 & H2). split; assumption.
    + rewrite value_of_json_pairs. rewrite (pairs_go_roundtrip t l []); [reflexivity|exact Hall|exact Hasc].
Qed.

Theorem value_roundtrip v t :
  has_type v t = true -> value_rust v = true -> value_of_json t (value_to_json v) = Ok v.
Proof.
  intros H Hr. apply has_type_inv in H. destruct H as [<- Hw]. now apply value_roundtrip_self.
Qed.

(* ------------------------------------------------------------------ *)
(* what a successful read yields has the requested type                 *)

Lemma typed_inv e r v : elem_checked e r = Ok v -> r = Ok v /\ type_of v = e.
Proof.
  unfold elem_checked. destruct r as [v'|]; [|discriminate]. destruct (ty_eqb (type_of v') e) eqn:E; [|discriminate].
  intros H. injection H as ->. split; [reflexivity|now apply ty_eqb_eq].
Qed.

Lemma arr_go_sound e (P : value -> Prop) :
  (forall x v, value_of_json e x = Ok v -> P v) ->
  forall l vs, arr_go e l = Ok vs -> Forall (fun v => type_of v = e /\ P v) vs.
Proof.
  intros HP. induction l as [|x l IH]; intros vs H; cbn [arr_go] in H.
  - injection H as <-. constructor.
  - fold (arr_go e) in H. destruct (elem_checked e (value_of_json e x)) as [v|] eqn:Ev; [|discriminate].
    destruct (arr_go e l) as [vs'|] eqn:El; [|discriminate]. injection H as <-.
    apply typed_inv in Ev. destruct Ev as [Ev Et]. constructor; [split; [exact Et|eapply HP; exact Ev]|].
    apply IH. reflexivity.
Qed.

Definition entries_ok (e : ty) (P : value -> Prop) (m : list (bytes * value)) : Prop :=
  keys_ascending m = true /\ Forall (fun kv => type_of (snd kv) = e /\ P (snd kv)) m.

Lemma entries_ok_insert e P k v m :
  entries_ok e P m -> type_of v = e -> P v -> entries_ok e P (bt_insert k v m).
Proof.
  intros [Ha Hf] Ht Hp. split.
  - rewrite bt_insert_map_insert. apply map_insert_ascending. exact Ha.
  - rewrite Forall_forall in Hf |- *. intros kv Hkv. apply bt_insert_In in Hkv.
    destruct Hkv as [->|Hkv]; [split; assumption|apply Hf; exact Hkv].
Qed.

Lemma obj_go_sound e (P : value -> Prop) :
  (forall x v, value_of_json e x = Ok v -> P v) ->
  forall es m m', entries_ok e P m -> obj_go e es m = Ok m' -> entries_ok e P m'.
Proof.
  intros HP. induction es as [|[k x] es IH]; intros m m' Hm H; cbn [obj_go] in H.
  - injection H as <-. exact Hm.
  - fold (obj_go e) in H. destruct (elem_checked e (value_of_json e x)) as [v|] eqn:Ev; [|discriminate].
    apply typed_inv in Ev. destruct Ev as [Ev Et]. eapply IH; [|exact H].
    apply entries_ok_insert; [exact Hm|exact Et|eapply HP; exact Ev].
Qed.

Lemma pairs_go_sound e (P : value -> Prop) :
  (forall x v, value_of_json e x = Ok v -> P v) ->
  forall ps m m', entries_ok e P m -> pairs_go e ps m = Ok m' -> entries_ok e P m'.
Proof.
  intros HP. induction ps as [|p ps IH]; intros m m' Hm H; cbn [pairs_go] in H.
  - injection H as <-. exact Hm.
  - fold (pairs_go e) in H. destruct p as [| | | |[|jk [|x [|]]]|]; try discriminate.
    destruct (bytes_of_json jk) as [k|]; [|discriminate].
    destruct (elem_checked e (value_of_json e x)) as [v|] eqn:Ev; [|discriminate].
    apply typed_inv in Ev. destruct Ev as [Ev Et]. eapply IH; [|exact H].
    apply entries_ok_insert; [exact Hm|exact Et|eapply HP; exact Ev].
Qed.

Theorem value_of_json_typed : forall t j v, value_of_json t j = Ok v -> has_type v t = true.
Proof.
  induction t as [| | | |e IH|e IH]; intros j v H.
  - rewrite value_of_json_bool in H. destruct (bool_of_json j); [|discriminate]. now injection H as <-.
  - rewrite value_of_json_bytes in H. destruct (bytes_of_json j); [|discriminate]. now injection H as <-.
  - rewrite value_of_json_int in H. destruct (int_of_json j); [|discriminate]. now injection H as <-.
  - rewrite value_of_json_ip in H. destruct (ip_of_json j); [|discriminate]. now injection H as <-.
  - destruct j as [| | | |l|es]; try discriminate H. rewrite value_of_json_arr in H.
    destruct (arr_go e l) as [vs|] eqn:E; [|discriminate]. injection H as <-.
    pose proof (arr_go_sound e (fun v => has_type v e = true) IH l vs E) as Hs.
    unfold has_type. cbn [type_of value_wf]. rewrite ty_eqb_refl. cbn [andb].
    apply forallb_forall. intros x Hx. rewrite Forall_forall in Hs. destruct (Hs x Hx) as [Ht Hh].
    apply has_type_inv in Hh. destruct Hh as [_ Hw]. rewrite Ht, ty_eqb_refl, Hw. reflexivity.
  - assert (Hfin : forall m, entries_ok e (fun v => has_type v e = true) m -> has_type (VMap e m) (TMap e) = true).
    { intros m [Ha Hf]. unfold has_type. cbn [type_of value_wf]. rewrite ty_eqb_refl, Ha. cbn [andb].
      rewrite andb_true_r. apply forallb_forall. intros kv Hkv. rewrite Forall_forall in Hf.
      destruct (Hf kv Hkv) as [Ht Hh]. apply has_type_inv in Hh. destruct Hh as [_ Hw].
      rewrite Ht, ty_eqb_refl, Hw. reflexivity. }
    assert (H0 : entries_ok e (fun v => has_type v e = true) []) by (split; [reflexivity|constructor]).
    destruct j as [| | | |ps|es]; try discriminate H.
    + rewrite value_of_json_pairs in H. destruct (pairs_go e ps []) as [m|] eqn:E; [|discriminate].
      injection H as <-. apply Hfin. eapply pairs_go_sound; [exact IH|exact H0|exact E].
    + rewrite value_of_json_obj in H. destruct (obj_go e es []) as [m|] eqn:E; [|discriminate].
      injection H as <-. apply Hfin. eapply obj_go_sound; [exact IH|exact H0|exact E].
Qed.

Lemma value_of_json_type_of t j v : value_of_json t j = Ok v -> type_of v = t.
Proof. intros H. apply value_of_json_typed in H. apply has_type_inv in H. exact (proj1 H). Qed.

(* ------------------------------------------------------------------ *)
(* slices, lookups                                                      *)

Lemma store_app {A} (pre : list A) x y r : store (pre ++ x :: r) (length pre) y = Some (pre ++ y :: r).
Proof. induction pre as [|z pre IH]; [reflexivity|]. cbn [app length store]. now rewrite IH. Qed.

Lemma store_length {A} : forall (l : list A) n x l', store l n x = Some l' -> length l' = length l.
Proof.
  induction l as [|y l IH]; intros [|n] x l' H; cbn [store] in H; try discriminate.
  - injection H as <-. reflexivity.
  - destruct (store l n x) as [r'|] eqn:E; [|discriminate]. injection H as <-. cbn [length]. f_equal. eapply IH. exact E.
Qed.

Lemma store_some {A} : forall (l : list A) n x, n < length l -> exists l', store l n x = Some l'.
Proof.
  induction l as [|y l IH]; intros [|n] x H; cbn [length] in H; try lia.
  - eexists. reflexivity.
  - destruct (IH n x ltac:(lia)) as [r' E]. cbn [store]. rewrite E. eexists. reflexivity.
Qed.

Lemma store_nth {A} : forall (l : list A) n x l', store l n x = Some l' ->
  forall m, nth_error l' m = if Nat.eqb m n then Some x else nth_error l m.
Proof.
  induction l as [|y l IH]; intros [|n] x l' H m; cbn [store] in H; try discriminate.
  - injection H as <-. destruct m; reflexivity.
  - destruct (store l n x) as [r'|] eqn:E; [|discriminate]. injection H as <-.
    destruct m as [|m]; [reflexivity|]. cbn [nth_error Nat.eqb]. eapply IH. exact E.
Qed.

Lemma bytes_eqb_sym a : forall b, bytes_eqb a b = bytes_eqb b a.
Proof.
  induction a as [|x a IH]; intros [|y b]; cbn [bytes_eqb]; try reflexivity. now rewrite N.eqb_sym, IH.
Qed.

Lemma lookup_from_app name fd r : forall pre i,
  bytes_eqb name (fd_name fd) = true ->
  (forall g, In g pre -> bytes_eqb name (fd_name g) = false) ->
  lookup_field_from (pre ++ fd :: r) name i = Some (i + length pre, fd).
Proof.
  induction pre as [|g pre IH]; intros i Hfd Hpre; cbn [app lookup_field_from length].
  - rewrite Hfd. f_equal. f_equal. lia.
  - rewrite (Hpre g (or_introl eq_refl)). rewrite IH; [f_equal; f_equal; lia|exact Hfd|].
    intros g' Hg'. apply Hpre. now right.
Qed.

Lemma lookup_from_bound : forall fds name i j fd,
  lookup_field_from fds name i = Some (j, fd) ->
  i <= j /\ nth_error fds (j - i) = Some fd /\ bytes_eqb name (fd_name fd) = true.
Proof.
  induction fds as [|g fds IH]; intros name i j fd H; cbn [lookup_field_from] in H; [discriminate|].
  destruct (bytes_eqb name (fd_name g)) eqn:E.
  - injection H as <- <-. rewrite Nat.sub_diag. repeat split; [lia|exact E].
  - apply IH in H. destruct H as (H1 & H2 & H3). split; [lia|]. split; [|exact H3].
    replace (j - i) with (S (j - S i)) by lia. exact H2.
Qed.

Lemma list_index_from_app t k r : forall pre i,
  (forall l, In l pre -> ty_eqb t (fst l) = false) ->
  list_index_from (pre ++ (t, k) :: r) t i = Some (i + length pre).
Proof.
  induction pre as [|[t' k'] pre IH]; intros i Hpre; cbn [app list_index_from length].
  - rewrite ty_eqb_refl. f_equal. lia.
  - pose proof (Hpre (t', k') (or_introl eq_refl)) as E. cbn [fst] in E. rewrite E.
    rewrite IH; [f_equal; lia|]. intros l Hl. apply Hpre. now right.
Qed.

Lemma list_index_from_bound : forall l t i j, list_index_from l t i = Some j -> i <= j < i + length l.
Proof.
  induction l as [|[t' k'] l IH]; intros t i j H; cbn [list_index_from] in H; [discriminate|].
  destruct (ty_eqb t t').
  - injection H as <-. cbn [length]. lia.
  - apply IH in H. cbn [length]. lia.
Qed.

(* ------------------------------------------------------------------ *)
(* matcher states                                                       *)

Lemma setval_roundtrip v : setval_rust v = true -> setval_of_json (setval_to_json v) = Ok v.
Proof.
  destruct v as [b|b|z|a|t l|t l]; cbn [setval_rust value_rust]; intros H; try discriminate.
  - cbn [setval_to_json setval_of_json]. change (bytes_eqb n_B n_I) with false. change (bytes_eqb n_B n_B) with true.
    cbn iota. unfold nums. now rewrite (nums_roundtrip b H).
  - cbn [setval_to_json setval_of_json]. change (bytes_eqb n_I n_I) with true. cbn iota. now rewrite (int_roundtrip z H).
  - cbn [setval_to_json setval_of_json]. change (bytes_eqb n_Ip n_I) with false. change (bytes_eqb n_Ip n_B) with false.
    change (bytes_eqb n_Ip n_Ip) with true. cbn iota. now rewrite (ip_roundtrip a H).
Qed.

Lemma sets_roundtrip (sets : list (bytes * list value)) : forall m,
  Forall (fun s => forallb setval_rust (snd s) = true) sets -> ssorted (m ++ sets) ->
  sets_of_entries (map (fun s : bytes * list value => (fst s, JArr (map setval_to_json (snd s)))) sets) m
  = Ok (m ++ sets).
Proof.
  induction sets as [|[k vs] sets IH]; intros m H Hs; [cbn; now rewrite app_nil_r|].
  inversion H as [|? ? Hv Hr]; subst. cbn [fst snd] in *. cbn [map sets_of_entries fst snd].
  rewrite (all_ok_map setval_of_json setval_to_json vs).
  - rewrite (bt_insert_last k vs m (ssorted_app_lt m (k, vs) sets Hs)).
    rewrite (IH (m ++ [(k, vs)]) Hr); rewrite <- app_assoc; [reflexivity|exact Hs].
  - rewrite forallb_forall in Hv. apply Forall_forall. intros v Hin. apply setval_roundtrip. now apply Hv.
Qed.

Lemma matcher_roundtrip k m : matcher_rust k m = true -> matcher_of_json k (matcher_to_json m) = Ok m.
Proof.
  destruct k, m as [| |sets]; cbn [matcher_rust]; intros H; try discriminate; try reflexivity.
  apply andb_true_iff in H. destruct H as [Ha Hv].
  cbn [matcher_to_json matcher_of_json setmatcher_of_entries]. change (bytes_eqb n_sets n_sets) with true. cbn iota.
  cbn [sets_of_json]. rewrite (sets_roundtrip sets []); [reflexivity| |apply names_ascending_ssorted; exact Ha].
  rewrite forallb_forall in Hv. apply Forall_forall. exact Hv.
Qed.

(* ------------------------------------------------------------------ *)
(* C14_ctx_roundtrip                                                    *)

Lemma ctx_entries_app sch a : forall b c,
  ctx_entries_of_json sch (a ++ b) c =
  match ctx_entries_of_json sch a c with
  | Done c' => ctx_entries_of_json sch b c'
  | Refused => Refused
  | Panicked => Panicked
  end.
Proof.
  induction a as [|[k x] a IH]; intros b c; [reflexivity|]. cbn [app ctx_entries_of_json].
  destruct (ctx_entry_of_json sch k x c); try reflexivity. apply IH.
Qed.

Lemma names_ok_inv fds pre fd r :
  names_ok fds = true -> fds = pre ++ fd :: r ->
  bytes_eqb (fd_name fd) n_lists = false /\ (forall g, In g pre -> bytes_eqb (fd_name fd) (fd_name g) = false).
Proof.
  intros H ->. unfold names_ok in H. apply andb_true_iff in H. destruct H as [Hd Hl]. split.
  - apply negb_true_iff in Hl. rewrite bytes_eqb_sym.
    destruct (bytes_eqb n_lists (fd_name fd)) eqn:E; [|reflexivity].
    assert (existsb (bytes_eqb n_lists) (map fd_name (pre ++ fd :: r)) = true); [|congruence].
    apply existsb_exists. exists (fd_name fd). split; [|exact E]. apply in_map. apply in_or_app. right. now left.
  - intros g Hg. apply distinctb_NoDup in Hd. rewrite map_app in Hd. cbn [map] in Hd.
    apply NoDup_remove_2 in Hd. destruct (bytes_eqb (fd_name fd) (fd_name g)) eqn:E; [|reflexivity].
    apply bytes_eqb_eq in E. exfalso. apply Hd. apply in_or_app. left. rewrite E. now apply in_map.
Qed.

Lemma fields_roundtrip sch : names_ok (sc_fields sch) = true ->
  forall fds vals pre vals_pre lists,
    sc_fields sch = pre ++ fds -> length vals_pre = length pre ->
    slots_typed fds vals = true ->
    forallb (fun o : option value => match o with Some v => value_rust v | None => true end) vals = true ->
    ctx_entries_of_json sch (field_entries fds vals)
      {| cx_vals := vals_pre ++ map (fun _ => None) fds; cx_lists := lists |}
    = Done {| cx_vals := vals_pre ++ vals; cx_lists := lists |}.
Proof.
  intros Hn. induction fds as [|fd fds IH]; intros vals pre vals_pre lists Hsch Hlen Ht Hr.
  - destruct vals; [reflexivity|discriminate].
  - destruct vals as [|o vals]; [discriminate|]. cbn [slots_typed] in Ht. apply andb_true_iff in Ht.
    destruct Ht as [Ho Ht]. cbn [forallb] in Hr. apply andb_true_iff in Hr. destruct Hr as [Hov Hr].
    assert (Hsch' : sc_fields sch = (pre ++ [fd]) ++ fds) by (rewrite <- app_assoc; exact Hsch).
    assert (Hlen' : forall o', length (vals_pre ++ [o']) = length (pre ++ [fd])) by (intros; rewrite !app_length; cbn; lia).
    destruct o as [v|].
    + cbn [field_entries ctx_entries_of_json]. unfold ctx_entry_of_json.
      destruct (names_ok_inv _ pre fd fds Hn Hsch) as [Hl Hpre]. rewrite Hl.
      unfold lookup_field. rewrite Hsch. rewrite (lookup_from_app (fd_name fd) fd fds pre 0 (bytes_eqb_refl _) Hpre).
      cbn [slot_typed] in Ho. rewrite (value_roundtrip v (fd_ty fd) Ho Hov).
      apply has_type_inv in Ho. destruct Ho as [Hty _]. rewrite Hty, ty_eqb_refl.
      cbn [plus cx_vals map]. rewrite <- Hlen. rewrite store_app. cbn [cx_lists].
      replace (vals_pre ++ Some v :: map (fun _ : field_def => None) fds)
        with ((vals_pre ++ [Some v]) ++ map (fun _ : field_def => @None value) fds) by (rewrite <- app_assoc; reflexivity).
      rewrite (IH vals (pre ++ [fd]) (vals_pre ++ [Some v]) lists Hsch' (Hlen' _) Ht Hr).
      rewrite <- app_assoc. reflexivity.
    + cbn [field_entries map].
      replace (vals_pre ++ None :: map (fun _ : field_def => None) fds)
        with ((vals_pre ++ [None]) ++ map (fun _ : field_def => @None value) fds) by (rewrite <- app_assoc; reflexivity).
      rewrite (IH vals (pre ++ [fd]) (vals_pre ++ [None]) lists Hsch' (Hlen' _) Ht Hr).
      rewrite <- app_assoc. reflexivity.
Qed.

Lemma types_distinct_inv (ls pre : list (ty * list_kind)) t k r :
  types_distinct (map fst ls) = true -> ls = pre ++ (t, k) :: r ->
  forall l, In l pre -> ty_eqb t (fst l) = false.
Proof.
  intros H ->. induction pre as [|[t' k'] pre IH]; intros l Hl; [destruct Hl|].
  cbn [app map fst types_distinct] in H. apply andb_true_iff in H. destruct H as [H1 H2].
  destruct Hl as [<-|Hl]; [|apply IH; assumption]. cbn [fst].
  apply negb_true_iff in H1. destruct (ty_eqb t t') eqn:E; [|reflexivity].
  apply ty_eqb_eq in E. subst t'.
  assert (existsb (ty_eqb t) (map fst (pre ++ (t, k) :: r)) = true); [|congruence].
  apply existsb_exists. exists t. split; [|apply ty_eqb_refl].
  rewrite map_app. apply in_or_app. right. now left.
Qed.

Lemma lists_roundtrip sch : lists_ok (sc_lists sch) = true ->
  forall ls ms pre ms_pre,
    sc_lists sch = pre ++ ls -> length ms_pre = length pre -> matchers_rust ls ms = true ->
    list_entries_of_json sch (list_entries ls ms) (ms_pre ++ map (fun l => new_matcher (snd l)) ls)
    = Done (ms_pre ++ ms).
Proof.
  intros Hok. unfold lists_ok in Hok. apply andb_true_iff in Hok. destruct Hok as [Hd Hdep].
  induction ls as [|[t k] ls IH]; intros ms pre ms_pre Hsch Hlen Hm.
  - destruct ms; [reflexivity|discriminate].
  - destruct ms as [|m ms]; [discriminate|]. cbn [matchers_rust snd] in Hm. apply andb_true_iff in Hm.
    destruct Hm as [Hm Hms].
    cbn [list_entries list_entries_of_json]. unfold list_entry, list_entry_of_json.
    change (bytes_eqb n_type n_type) with true. cbn iota.
    assert (Hdt : (depth t <= 33)%nat).
    { rewrite forallb_forall in Hdep. specialize (Hdep (t, k)). cbn [fst] in Hdep. apply Nat.leb_le. apply Hdep.
      rewrite Hsch. apply in_or_app. right. now left. }
    rewrite (type_json_roundtrip t Hdt).
    unfold list_index. rewrite Hsch.
    rewrite (list_index_from_app t k ls pre 0 (types_distinct_inv _ pre t k ls Hd Hsch)). cbn [plus].
    change (bytes_eqb n_data n_data) with true. cbn iota.
    rewrite nth_error_app2 by lia. rewrite Nat.sub_diag. cbn [nth_error].
    rewrite (matcher_roundtrip k m Hm). cbn [map snd]. rewrite <- Hlen, store_app.
    replace (ms_pre ++ m :: map (fun l : ty * list_kind => new_matcher (snd l)) ls)
      with ((ms_pre ++ [m]) ++ map (fun l : ty * list_kind => new_matcher (snd l)) ls) by (rewrite <- app_assoc; reflexivity).
    rewrite (IH ms (pre ++ [(t, k)]) (ms_pre ++ [m])).
    + rewrite <- app_assoc. reflexivity.
    + rewrite <- app_assoc. exact Hsch.
    + rewrite !app_length. cbn. lia.
    + exact Hms.
Qed.

Lemma matchers_rust_length : forall ls ms, matchers_rust ls ms = true -> length ms = length ls.
Proof.
  induction ls as [|l ls IH]; intros [|m ms] H; cbn [matchers_rust] in H; try discriminate; [reflexivity|].
  apply andb_true_iff in H. cbn [length]. f_equal. apply IH. exact (proj2 H).
Qed.

Theorem ctx_roundtrip sch c :
  scheme_ok sch = true -> ctx_typed sch c = true -> ctx_rust sch c = true ->
  ctx_decode sch (ctx_to_json sch c) = Done c.
Proof.
  intros Hs Ht Hr. unfold scheme_ok in Hs. apply andb_true_iff in Hs. destruct Hs as [Hn Hl].
  unfold ctx_typed in Ht. apply andb_true_iff in Ht. destruct Ht as [Ht _].
  unfold ctx_rust in Hr. apply andb_true_iff in Hr. destruct Hr as [Hrv Hrm].
  unfold ctx_decode, ctx_decode_into, ctx_to_json. rewrite ctx_entries_app.
  unfold fresh_ctx.
  pose proof (fields_roundtrip sch Hn (sc_fields sch) (cx_vals c) [] []
                (map (fun l => new_matcher (snd l)) (sc_lists sch)) eq_refl eq_refl Ht Hrv) as Hf.
  cbn [app] in Hf. rewrite Hf. clear Hf. pose proof (matchers_rust_length _ _ Hrm) as Hlen.
  destruct c as [vals ms]. cbn [cx_vals cx_lists] in *.
  destruct ms as [|m ms].
  - destruct (sc_lists sch); [reflexivity|discriminate].
  - cbn [ctx_entries_of_json]. unfold ctx_entry_of_json. change (bytes_eqb n_lists n_lists) with true. cbn iota.
    cbn [lists_of_json cx_lists].
    pose proof (lists_roundtrip sch Hl (sc_lists sch) (m :: ms) [] [] eq_refl eq_refl Hrm) as Hf.
    cbn [app] in Hf. rewrite Hf. reflexivity.
Qed.

Lemma slots_ok_typed : forall fds vals, slots_ok fds vals = true -> slots_typed fds vals = true.
Proof.
  induction fds as [|fd fds IH]; intros [|o vals] H; cbn [slots_ok slots_typed] in *; try discriminate; [reflexivity|].
  apply andb_true_iff in H. destruct H as [H1 H2]. rewrite (IH vals H2), andb_true_r.
  destruct o; [exact H1|reflexivity].
Qed.

Lemma ctx_ok_typed sch c : ctx_ok sch c = true -> ctx_typed sch c = true.
Proof.
  unfold ctx_ok, ctx_typed. intros H. apply andb_true_iff in H. destruct H as [H1 H2].
  now rewrite (slots_ok_typed _ _ H1), H2.
Qed.

(* ------------------------------------------------------------------ *)
(* C14_decode_never_panics, C14_decode_type_safe                        *)

Lemma slots_typed_length : forall fds vals, slots_typed fds vals = true -> length vals = length fds.
Proof.
  induction fds as [|fd fds IH]; intros [|o vals] H; cbn [slots_typed] in H; try discriminate; [reflexivity|].
  apply andb_true_iff in H. cbn [length]. f_equal. apply IH. exact (proj2 H).
Qed.

Lemma slots_typed_store : forall fds vals i fd v vals',
  slots_typed fds vals = true -> nth_error fds i = Some fd -> has_type v (fd_ty fd) = true ->
  store vals i (Some v) = Some vals' -> slots_typed fds vals' = true.
Proof.
  induction fds as [|g fds IH]; intros [|o vals] i fd v vals' Ht Hn Hv Hs; cbn [slots_typed] in Ht; try discriminate.
  apply andb_true_iff in Ht. destruct Ht as [Ho Ht]. destruct i as [|i]; cbn [store nth_error] in *.
    + injection Hn as ->. injection Hs as <-. cbn [slots_typed slot_typed]. now rewrite Hv, Ht.
    + destruct (store vals i (Some v)) as [r'|] eqn:E; [|discriminate]. injection Hs as <-.
      cbn [slots_typed]. rewrite Ho. cbn [andb]. eapply IH; eassumption.
Qed.

Lemma slots_typed_fresh fds : slots_typed fds (map (fun _ => None) fds) = true.
Proof. induction fds as [|fd fds IH]; [reflexivity|]. cbn [map slots_typed slot_typed andb]. exact IH. Qed.

Lemma list_entry_safe sch j ms : length ms = length (sc_lists sch) ->
  match list_entry_of_json sch j ms with
  | Done ms' => length ms' = length ms
  | Refused => True
  | Panicked => False
  end.
Proof.
  intros Hlen. unfold list_entry_of_json.
  destruct j as [| | | | |[|[k1 tj] rest]]; try exact I.
  destruct (bytes_eqb k1 n_type); [|exact I]. destruct (type_of_json tj) as [t|]; [|exact I].
  destruct (list_index sch t) as [i|] eqn:Ei; [|exact I].
  destruct rest as [|[k2 dj] rest']; [exact I|]. destruct (bytes_eqb k2 n_data); [|exact I].
  unfold list_index in Ei. apply list_index_from_bound in Ei.
  destruct (nth_error (sc_lists sch) i) as [[t' kind]|] eqn:En.
  - destruct (matcher_of_json kind dj) as [m|]; [|exact I].
    destruct (store_some ms i m ltac:(lia)) as [ms' Es]. rewrite Es.
    destruct rest'; [|exact I]. eapply store_length. exact Es.
  - apply nth_error_None in En. lia.
Qed.

Lemma list_entries_safe sch : forall l ms, length ms = length (sc_lists sch) ->
  match list_entries_of_json sch l ms with
  | Done ms' => length ms' = length ms
  | Refused => True
  | Panicked => False
  end.
Proof.
  induction l as [|x l IH]; intros ms Hlen; cbn [list_entries_of_json]; [reflexivity|].
  pose proof (list_entry_safe sch x ms Hlen) as Hx. destruct (list_entry_of_json sch x ms) as [ms'| |]; try exact Hx.
  specialize (IH ms' ltac:(lia)). destruct (list_entries_of_json sch l ms'); try exact IH. lia.
Qed.

Lemma ctx_entry_safe sch k x c : ctx_typed sch c = true ->
  match ctx_entry_of_json sch k x c with
  | Done c' => ctx_typed sch c' = true
  | Refused => True
  | Panicked => False
  end.
Proof.
  intros Ht. unfold ctx_typed in Ht. apply andb_true_iff in Ht. destruct Ht as [Hv Hl]. apply Nat.eqb_eq in Hl.
  unfold ctx_entry_of_json. destruct (bytes_eqb k n_lists).
  - unfold lists_of_json. destruct x as [| | | |l|]; try exact I.
    pose proof (list_entries_safe sch l (cx_lists c) Hl) as Hs.
    destruct (list_entries_of_json sch l (cx_lists c)) as [ms| |]; try exact Hs.
    unfold ctx_typed. cbn [cx_vals cx_lists]. rewrite Hv. cbn [andb]. apply Nat.eqb_eq. lia.
  - destruct (lookup_field sch k) as [[i fd]|] eqn:El; [|exact I].
    unfold lookup_field in El. apply lookup_from_bound in El. destruct El as (_ & Hn & _). rewrite Nat.sub_0_r in Hn.
    destruct (value_of_json (fd_ty fd) x) as [v|] eqn:Ev; [|exact I].
    destruct (ty_eqb (fd_ty fd) (type_of v)); [|exact I].
    assert (Hi : i < length (cx_vals c)).
    { rewrite (slots_typed_length _ _ Hv). apply nth_error_Some. congruence. }
    destruct (store_some (cx_vals c) i (Some v) Hi) as [vals' Es]. rewrite Es.
    unfold ctx_typed. cbn [cx_vals cx_lists].
    rewrite (slots_typed_store _ _ _ _ _ _ Hv Hn (value_of_json_typed _ _ _ Ev) Es). cbn [andb].
    now apply Nat.eqb_eq.
Qed.

Lemma ctx_entries_safe sch : forall es c, ctx_typed sch c = true ->
  match ctx_entries_of_json sch es c with
  | Done c' => ctx_typed sch c' = true
  | Refused => True
  | Panicked => False
  end.
Proof.
  induction es as [|[k x] es IH]; intros c Ht; cbn [ctx_entries_of_json]; [exact Ht|].
  pose proof (ctx_entry_safe sch k x c Ht) as Hs. destruct (ctx_entry_of_json sch k x c) as [c'| |]; try exact Hs.
  apply IH. exact Hs.
Qed.

Lemma fresh_ctx_typed sch : ctx_typed sch (fresh_ctx sch) = true.
Proof.
  unfold ctx_typed, fresh_ctx. cbn [cx_vals cx_lists]. rewrite slots_typed_fresh, map_length, Nat.eqb_refl. reflexivity.
Qed.

Theorem decode_into_safe sch c j : ctx_typed sch c = true ->
  match ctx_decode_into sch c j with
  | Done c' => ctx_typed sch c' = true
  | Refused => True
  | Panicked => False
  end.
Proof.
  intros Ht. unfold ctx_decode_into. destruct j; try exact I. apply ctx_entries_safe. exact Ht.
Qed.

Theorem decode_never_panics sch j : ctx_decode sch j <> Panicked.
Proof.
  unfold ctx_decode. pose proof (decode_into_safe sch (fresh_ctx sch) j (fresh_ctx_typed sch)) as H.
  destruct (ctx_decode_into sch (fresh_ctx sch) j); [discriminate|discriminate|contradiction].
Qed.

Theorem decode_type_safe sch j c : ctx_of_json sch j = Ok c -> ctx_typed sch c = true.
Proof.
  unfold ctx_of_json, ctx_decode. pose proof (decode_into_safe sch (fresh_ctx sch) j (fresh_ctx_typed sch)) as H.
  destruct (ctx_decode_into sch (fresh_ctx sch) j) as [c'| |]; try discriminate. intros E. injection E as <-. exact H.
Qed.

Theorem decode_total sch j :
  ctx_of_json sch j = Err \/ exists c, ctx_of_json sch j = Ok c /\ ctx_decode sch j = Done c /\ ctx_typed sch c = true.
Proof.
  pose proof (decode_never_panics sch j) as Hp. unfold ctx_of_json.
  pose proof (decode_type_safe sch j) as Ht. unfold ctx_of_json in Ht.
  destruct (ctx_decode sch j) as [c| |]; [right|left; reflexivity|contradiction].
  exists c. repeat split. apply Ht. reflexivity.
Qed.

(* a type descriptor deeper than a `Type` can be, in the list section: refused *)
Theorem deep_list_type_refused sch t d rest more :
  33 < depth t ->
  ctx_decode sch (JObj [(n_lists, JArr (JObj ((n_type, type_to_json t) :: (n_data, d) :: rest) :: more))]) = Refused.
Proof.
  intros H. unfold ctx_decode, ctx_decode_into. cbn [ctx_entries_of_json]. unfold ctx_entry_of_json.
  change (bytes_eqb n_lists n_lists) with true. cbn iota. cbn [lists_of_json list_entries_of_json].
  unfold list_entry_of_json. change (bytes_eqb n_type n_type) with true. cbn iota.
  rewrite (too_deep_rejected t H). reflexivity.
Qed.

(* the round trip, in the caller's terms *)
Theorem ctx_roundtrip_result sch c :
  scheme_ok sch = true -> ctx_typed sch c = true -> ctx_rust sch c = true ->
  ctx_of_json sch (ctx_to_json sch c) = Ok c.
Proof. intros Hs Ht Hr. unfold ctx_of_json. now rewrite (ctx_roundtrip sch c Hs Ht Hr). Qed.

(* ------------------------------------------------------------------ *)
(* value trees: BTreeMap order of object keys                           *)

Lemma bt_insert_head {A} k (v : A) l :
  match bt_insert k v l with
  | [] => False
  | (k0, _) :: _ => k0 = k \/ match l with [] => False | (k1, _) :: _ => k0 = k1 /\ bytes_compare k1 k = Lt end
  end.
Proof.
  destruct l as [|[k1 v1] r]; cbn [bt_insert]; [left; reflexivity|].
  destruct (bytes_compare k k1) eqn:Hc; [left; reflexivity|left; reflexivity|].
  right. split; [reflexivity|]. apply bytes_compare_gt_lt. exact Hc.
Qed.

Lemma bt_insert_ascending {A} k (v : A) : forall l, names_ascending l = true -> names_ascending (bt_insert k v l) = true.
Proof.
  induction l as [|[k1 v1] r IH]; intros Hasc; [reflexivity|].
  cbn [bt_insert]. destruct (bytes_compare k k1) eqn:Hc.
  - apply TypeCodecProofs.bytes_compare_eq in Hc. subst k1.
    apply names_ascending_cons in Hasc. apply names_ascending_cons. exact Hasc.
  - apply names_ascending_cons. split; [exact Hc|exact Hasc].
  - apply names_ascending_cons in Hasc. destruct Hasc as [Hhd Hr].
    apply names_ascending_cons. split; [|apply IH; exact Hr].
    pose proof (bt_insert_head k v r) as Hh.
    destruct (bt_insert k v r) as [|[k0 v0] r0]; [exact I|].
    destruct Hh as [Hk|Hk].
    + subst k0. apply bytes_compare_gt_lt. exact Hc.
    + destruct r as [|[k2 v2] r2]; [contradiction|]. destruct Hk as [Hk _]. subst k0. exact Hhd.
Qed.

Lemma bt_fold_ascending {A} (l : list (bytes * A)) : forall m,
  names_ascending m = true -> names_ascending (fold_left (fun m kv => bt_insert (fst kv) (snd kv) m) l m) = true.
Proof. induction l as [|[k v] l IH]; intros m Hm; cbn; [exact Hm|]. apply IH. apply bt_insert_ascending. exact Hm. Qed.

Lemma bt_of_list_ascending {A} (l : list (bytes * A)) : names_ascending (bt_of_list l) = true.
Proof. unfold bt_of_list. apply bt_fold_ascending. reflexivity. Qed.

Lemma bt_fold_sorted {A} (l : list (bytes * A)) : forall m,
  ssorted (m ++ l) -> fold_left (fun m kv => bt_insert (fst kv) (snd kv) m) l m = m ++ l.
Proof.
  induction l as [|[k v] l IH]; intros m Hs; cbn [fold_left fst snd]; [now rewrite app_nil_r|].
  rewrite (bt_insert_last k v m (ssorted_app_lt m (k, v) l Hs)).
  rewrite (IH (m ++ [(k, v)])); rewrite <- app_assoc; [reflexivity|exact Hs].
Qed.

Lemma bt_of_list_sorted {A} (l : list (bytes * A)) : ssorted l -> bt_of_list l = l.
Proof. intros H. unfold bt_of_list. exact (bt_fold_sorted l [] H). Qed.

Lemma bt_fold_In1 {A} (l : list (bytes * A)) : forall m kv,
  In kv (fold_left (fun m kv => bt_insert (fst kv) (snd kv) m) l m) -> In kv l \/ In kv m.
Proof.
  induction l as [|[k v] l IH]; intros m kv H; cbn [fold_left fst snd] in H; [right; exact H|].
  apply IH in H. destruct H as [H|H]; [left; right; exact H|]. apply bt_insert_In in H.
  destruct H as [->|H]; [left; left; reflexivity|right; exact H].
Qed.

Lemma bt_of_list_In1 {A} (l : list (bytes * A)) kv : In kv (bt_of_list l) -> In kv l.
Proof. intros H. apply bt_fold_In1 in H. destruct H as [H|[]]. exact H. Qed.

Lemma bt_insert_has {A} k (v : A) : forall m, In (k, v) (bt_insert k v m).
Proof.
  induction m as [|[k' v'] m IH]; cbn [bt_insert]; [now left|].
  destruct (bytes_compare k k'); [now left|now left|right; exact IH].
Qed.

Lemma bt_insert_keeps {A} k (v : A) k' v' : forall m, k' <> k -> In (k', v') m -> In (k', v') (bt_insert k v m).
Proof.
  induction m as [|[k1 v1] m IH]; intros Hne H; [destruct H|]. cbn [bt_insert].
  destruct (bytes_compare k k1) eqn:E.
  - apply TypeCodecProofs.bytes_compare_eq in E. subst k1. destruct H as [H|H]; [congruence|right; exact H].
  - right. exact H.
  - destruct H as [H|H]; [left; exact H|right; apply IH; assumption].
Qed.

Lemma bt_fold_In2 {A} (l : list (bytes * A)) : forall m kv,
  NoDup (map fst l) -> (In kv l \/ (In kv m /\ ~ In (fst kv) (map fst l))) ->
  In kv (fold_left (fun m kv => bt_insert (fst kv) (snd kv) m) l m).
Proof.
  induction l as [|[k v] l IH]; intros m [k0 v0] Hnd H; cbn [fold_left fst snd].
  - destruct H as [[]|[H _]]. exact H.
  - cbn [map fst] in Hnd. inversion Hnd as [|? ? Hk Hnd']; subst. apply IH; [exact Hnd'|].
    destruct H as [[H|H]|[H Hn]].
    + injection H as <- <-. right. split; [apply bt_insert_has|exact Hk].
    + left. exact H.
    + right. cbn [map fst In] in Hn. split; [|tauto]. apply bt_insert_keeps; [|exact H]. cbn [fst] in Hn. intros E. apply Hn. left. now symmetry.
Qed.

Lemma bt_of_list_In2 {A} (l : list (bytes * A)) kv : NoDup (map fst l) -> In kv l -> In kv (bt_of_list l).
Proof. intros Hnd H. apply bt_fold_In2; [exact Hnd|left; exact H]. Qed.

Definition on_snd {A B} (f : A -> B) (kv : bytes * A) : bytes * B := (fst kv, f (snd kv)).

Lemma bt_insert_map {A B} (f : A -> B) k v : forall m,
  map (on_snd f) (bt_insert k v m) = bt_insert k (f v) (map (on_snd f) m).
Proof.
  induction m as [|[k' v'] m IH]; [reflexivity|]. cbn [bt_insert map on_snd fst snd].
  destruct (bytes_compare k k'); cbn [map on_snd fst snd]; try reflexivity. now rewrite IH.
Qed.

Lemma bt_fold_map {A B} (f : A -> B) (l : list (bytes * A)) : forall m,
  map (on_snd f) (fold_left (fun m kv => bt_insert (fst kv) (snd kv) m) l m)
  = fold_left (fun m kv => bt_insert (fst kv) (snd kv) m) (map (on_snd f) l) (map (on_snd f) m).
Proof.
  induction l as [|[k v] l IH]; intros m; [reflexivity|]. cbn [fold_left map on_snd fst snd].
  rewrite IH, bt_insert_map. reflexivity.
Qed.

Lemma bt_of_list_map {A B} (f : A -> B) (l : list (bytes * A)) :
  map (on_snd f) (bt_of_list l) = bt_of_list (map (on_snd f) l).
Proof. unfold bt_of_list. now rewrite bt_fold_map. Qed.

Lemma json_as_value_obj es :
  json_as_value (JObj es) = JObj (bt_of_list (map (on_snd json_as_value) es)).
Proof.
  cbn [json_as_value]. f_equal. f_equal. apply map_ext. intros [k v]. reflexivity.
Qed.

(* ------------------------------------------------------------------ *)
(* values are read the same way from a value tree                       *)

Lemma all_ok_ext {A B} (f g : A -> result B) (l : list A) :
  (forall x, In x l -> f x = g x) -> all_ok f l = all_ok g l.
Proof.
  induction l as [|x l IH]; intros H; [reflexivity|]. cbn [all_ok]. rewrite (H x (or_introl eq_refl)).
  rewrite IH; [reflexivity|]. intros y Hy. apply H. now right.
Qed.

Lemma u8_as_value x : u8_of_json (json_as_value x) = u8_of_json x.
Proof. destruct x; reflexivity. Qed.

Lemma bytes_as_value j : bytes_of_json (json_as_value j) = bytes_of_json j.
Proof.
  destruct j as [| | | |l|es]; try reflexivity. cbn [json_as_value bytes_of_json].
  induction l as [|x l IH]; [reflexivity|]. cbn [map all_ok]. now rewrite u8_as_value, IH.
Qed.

(* the object reader, as a whole: all members must be readable; then the map *)
Definition dec_member (e : ty) (kv : bytes * json) : result (bytes * value) :=
  match elem_checked e (value_of_json e (snd kv)) with Ok v => Ok (fst kv, v) | Err => Err end.

Lemma obj_go_all e : forall es m,
  obj_go e es m =
  match all_ok (dec_member e) es with
  | Ok kvs => Ok (fold_left (fun m kv => bt_insert (fst kv) (snd kv) m) kvs m)
  | Err => Err
  end.
Proof.
  induction es as [|[k x] es IH]; intros m; [reflexivity|]. cbn [obj_go all_ok]. fold (obj_go e).
  unfold dec_member at 1. cbn [fst snd]. destruct (elem_checked e (value_of_json e x)) as [v|]; [|reflexivity].
  rewrite IH. destruct (all_ok (dec_member e) es); reflexivity.
Qed.

Lemma all_ok_Err_iff {A B} (f : A -> result B) (l : list A) :
  all_ok f l = Err <-> exists x, In x l /\ f x = Err.
Proof.
  induction l as [|x l IH]; cbn [all_ok].
  - split; [discriminate|intros (x & [] & _)].
  - destruct (f x) as [y|] eqn:E.
    + destruct (all_ok f l) as [ys|] eqn:El.
      * split; [discriminate|]. intros (z & [<-|Hz] & Hf); [congruence|].
        assert (@Err (list B) = Err) as _ by reflexivity. apply proj2 in IH. specialize (IH (ex_intro _ z (conj Hz Hf))). discriminate.
      * split; [intros _|reflexivity]. destruct (proj1 IH eq_refl) as (z & Hz & Hf). exists z. split; [now right|exact Hf].
    + split; [intros _|reflexivity]. exists x. split; [now left|exact E].
Qed.

Lemma all_ok_total {A B} (f : A -> result B) (d : A -> B) (l : list A) :
  (forall x, In x l -> f x = Ok (d x)) -> all_ok f l = Ok (map d l).
Proof.
  induction l as [|x l IH]; intros H; [reflexivity|]. cbn [all_ok map]. rewrite (H x (or_introl eq_refl)).
  rewrite IH; [reflexivity|]. intros y Hy. apply H. now right.
Qed.

Definition dec_value_or (e : ty) (x : json) : value :=
  match elem_checked e (value_of_json e x) with Ok v => v | Err => VBool false end.

Lemma obj_go_as_value e es :
  distinctb (map fst es) = true ->
  (forall kv, In kv es -> value_of_json e (json_as_value (snd kv)) = value_of_json e (snd kv)) ->
  obj_go e (bt_of_list (map (on_snd json_as_value) es)) [] = obj_go e es [].
Proof.
  intros Hd Hext. apply distinctb_NoDup in Hd.
  set (es' := bt_of_list (map (on_snd json_as_value) es)).
  assert (Hdec : forall kv, In kv es -> dec_member e (on_snd json_as_value kv) = dec_member e kv).
  { intros [k x] Hin. unfold dec_member, on_snd. cbn [fst snd]. pose proof (Hext (k, x) Hin) as E. cbn [snd] in E. now rewrite E. }
  assert (Hnd' : NoDup (map fst (map (on_snd json_as_value) es))).
  { rewrite map_map. cbn [on_snd fst]. exact Hd. }
  rewrite !obj_go_all.
  destruct (all_ok (dec_member e) es) as [kvs|] eqn:Eall.
  - (* every member is readable *)
    assert (Hok : forall kv, In kv es -> dec_member e kv = Ok (on_snd (dec_value_or e) kv)).
    { intros kv Hin. destruct (dec_member e kv) as [r|] eqn:E.
      - unfold dec_member in E. unfold on_snd, dec_value_or.
        destruct (elem_checked e (value_of_json e (snd kv))); [|discriminate]. now symmetry.
      - exfalso. assert (all_ok (dec_member e) es = Err) by (apply all_ok_Err_iff; exists kv; split; assumption). congruence. }
    rewrite (all_ok_total _ _ es Hok) in Eall. injection Eall as <-.
    assert (Hok' : forall kv, In kv es' -> dec_member e kv = Ok (on_snd (dec_value_or e) kv)).
    { intros kv Hin. apply bt_of_list_In1 in Hin. apply in_map_iff in Hin. destruct Hin as (kv0 & <- & Hin0).
      rewrite (Hdec kv0 Hin0), (Hok kv0 Hin0). unfold on_snd, dec_value_or. cbn [fst snd].
      destruct kv0 as [k x]. cbn [fst snd]. pose proof (Hext (k, x) Hin0) as E. cbn [snd] in E. now rewrite E. }
    rewrite (all_ok_total _ _ es' Hok'). f_equal.
    change (fold_left (fun m kv => bt_insert (fst kv) (snd kv) m) (map (on_snd (dec_value_or e)) es') [])
      with (bt_of_list (map (on_snd (dec_value_or e)) es')).
    change (fold_left (fun m kv => bt_insert (fst kv) (snd kv) m) (map (on_snd (dec_value_or e)) es) [])
      with (bt_of_list (map (on_snd (dec_value_or e)) es)).
    unfold es'. rewrite (bt_of_list_map (dec_value_or e) (map (on_snd json_as_value) es)).
    rewrite (bt_of_list_sorted (bt_of_list (map (on_snd (dec_value_or e)) (map (on_snd json_as_value) es))))
      by (apply names_ascending_ssorted; apply bt_of_list_ascending).
    f_equal. rewrite map_map. apply map_ext_in. intros [k x] Hin.
    unfold on_snd, dec_value_or. cbn [fst snd]. pose proof (Hext (k, x) Hin) as E. cbn [snd] in E. now rewrite E.
  - (* some member is not *)
    apply all_ok_Err_iff in Eall. destruct Eall as (kv & Hin & Hf).
    assert (all_ok (dec_member e) es' = Err) as ->; [|reflexivity].
    apply all_ok_Err_iff. exists (on_snd json_as_value kv). split.
    + apply bt_of_list_In2; [exact Hnd'|]. now apply in_map.
    + now rewrite (Hdec kv Hin).
Qed.

Theorem value_as_value : forall t j, no_dup_keys j = true -> value_of_json t (json_as_value j) = value_of_json t j.
Proof.
  induction t as [| | | |e IH|e IH]; intros j Hnd.
  - rewrite !value_of_json_bool. destruct j; reflexivity.
  - rewrite !value_of_json_bytes. now rewrite bytes_as_value.
  - rewrite !value_of_json_int. destruct j; reflexivity.
  - rewrite !value_of_json_ip. destruct j; reflexivity.
  - destruct j as [| | | |l|es]; try reflexivity.
    cbn [json_as_value]. rewrite !value_of_json_arr. cbn [no_dup_keys] in Hnd. rewrite forallb_forall in Hnd.
    assert (E : arr_go e (map json_as_value l) = arr_go e l); [|now rewrite E].
    induction l as [|x l IHl]; [reflexivity|]. cbn [map arr_go]. fold (arr_go e).
    rewrite (IH x (Hnd x (or_introl eq_refl))). rewrite IHl; [reflexivity|]. intros y Hy. apply Hnd. now right.
  - destruct j as [| | | |ps|es]; try reflexivity.
    + cbn [json_as_value]. rewrite !value_of_json_pairs. cbn [no_dup_keys] in Hnd. rewrite forallb_forall in Hnd.
      assert (E : forall m, pairs_go e (map json_as_value ps) m = pairs_go e ps m); [|now rewrite E].
      induction ps as [|p ps IHp]; intros m; [reflexivity|].
      assert (Hps : forall y, In y ps -> no_dup_keys y = true) by (intros y Hy; apply Hnd; now right).
      specialize (IHp Hps). pose proof (Hnd p (or_introl eq_refl)) as Hp.
      cbn [map pairs_go]. fold (pairs_go e).
      destruct p as [| | | |[|jk [|x [|y r]]]|es']; try reflexivity.
      cbn [json_as_value map]. rewrite bytes_as_value.
      cbn [no_dup_keys forallb] in Hp. apply andb_true_iff in Hp. destruct Hp as [_ Hp].
      apply andb_true_iff in Hp. destruct Hp as [Hx _]. rewrite (IH x Hx).
      destruct (bytes_of_json jk); [|reflexivity]. destruct (elem_checked e (value_of_json e x)); [|reflexivity]. apply IHp.
    + rewrite json_as_value_obj. rewrite !value_of_json_obj. cbn [no_dup_keys] in Hnd.
      apply andb_true_iff in Hnd. destruct Hnd as [Hd Hvs]. rewrite forallb_forall in Hvs.
      rewrite (obj_go_as_value e es Hd); [reflexivity|]. intros [k x] Hin. cbn [snd]. apply IH.
      exact (Hvs (k, x) Hin).
Qed.

(* ------------------------------------------------------------------ *)
(* the reader is the state-free specification                           *)

Fixpoint apply_ops {A} (ops : list (nat * A)) (l : list A) : option (list A) :=
  match ops with
  | [] => Some l
  | (i, a) :: r => match store l i a with Some l' => apply_ops r l' | None => None end
  end.

Lemma last_some_cons {A} (x : option A) r :
  last_some (x :: r) = match last_some r with Some y => Some y | None => x end.
Proof. reflexivity. Qed.

Lemma last_some_app {A} (a b : list (option A)) :
  last_some (a ++ b) = match last_some b with Some y => Some y | None => last_some a end.
Proof.
  induction a as [|x a IH]; cbn [app].
  - destruct (last_some b); reflexivity.
  - rewrite !last_some_cons, IH. destruct (last_some b); reflexivity.
Qed.

Lemma apply_ops_nth {A} (ops : list (nat * A)) : forall l l', apply_ops ops l = Some l' ->
  length l' = length l /\
  forall n, nth_error l' n = match last_some (map (pick n) ops) with Some a => Some a | None => nth_error l n end.
Proof.
  induction ops as [|[i a] ops IH]; intros l l' H; cbn [apply_ops] in H.
  - injection H as <-. split; [reflexivity|]. intros n. reflexivity.
  - destruct (store l i a) as [l1|] eqn:Es; [|discriminate]. destruct (IH l1 l' H) as [Hlen Hn].
    split; [rewrite Hlen; eapply store_length; exact Es|]. intros n. rewrite Hn. cbn [map]. rewrite last_some_cons.
    destruct (last_some (map (pick n) ops)); [reflexivity|]. rewrite (store_nth l i a l1 Es n).
    unfold pick. cbn [fst snd]. rewrite (Nat.eqb_sym i n). destruct (Nat.eqb n i); reflexivity.
Qed.

Lemma apply_ops_app {A} (a b : list (nat * A)) : forall l,
  apply_ops (a ++ b) l = match apply_ops a l with Some l' => apply_ops b l' | None => None end.
Proof.
  induction a as [|[i x] a IH]; intros l; [reflexivity|]. cbn [app apply_ops].
  destruct (store l i x); [apply IH|reflexivity].
Qed.

Lemma list_entry_eq sch j ms : length ms = length (sc_lists sch) ->
  match spec_list_entry sch j with
  | Some (i, m) => exists ms', store ms i m = Some ms' /\ list_entry_of_json sch j ms = Done ms'
  | None => list_entry_of_json sch j ms = Refused
  end.
Proof.
  intros Hlen. pose proof (list_entry_safe sch j ms Hlen) as Hsafe.
  unfold spec_list_entry, list_entry_of_json in *.
  destruct j as [| | | | |[|[k1 tj] rest]]; try reflexivity.
  destruct (bytes_eqb k1 n_type) eqn:E1.
  2:{ destruct rest as [|[k2 dj] [|]]; reflexivity. }
  destruct (type_of_json tj) as [t|] eqn:Et.
  2:{ destruct rest as [|[k2 dj] [|]]; cbn [andb]; try reflexivity. destruct (bytes_eqb k2 n_data); reflexivity. }
  destruct (list_index sch t) as [i|] eqn:Ei.
  2:{ destruct rest as [|[k2 dj] [|]]; cbn [andb]; try reflexivity. destruct (bytes_eqb k2 n_data); reflexivity. }
  destruct rest as [|[k2 dj] rest']; [reflexivity|].
  destruct (bytes_eqb k2 n_data) eqn:E2.
  2:{ destruct rest'; reflexivity. }
  cbn [andb].
  destruct (nth_error (sc_lists sch) i) as [[t' kind]|] eqn:En.
  2:{ destruct rest'; [contradiction|contradiction]. }
  destruct (matcher_of_json kind dj) as [m|] eqn:Em.
  2:{ destruct rest'; reflexivity. }
  destruct (store ms i m) as [ms'|] eqn:Es; [|contradiction].
  destruct rest'; [|reflexivity]. cbn [option_map result_opt]. exists ms'. split; [exact Es|reflexivity].
Qed.

Lemma list_entries_eq sch : forall l ms, length ms = length (sc_lists sch) ->
  match option_map_all (spec_list_entry sch) l with
  | Some ops => exists ms', apply_ops ops ms = Some ms' /\ list_entries_of_json sch l ms = Done ms'
  | None => list_entries_of_json sch l ms = Refused
  end.
Proof.
  induction l as [|x l IH]; intros ms Hlen; cbn [option_map_all list_entries_of_json].
  - exists ms. split; reflexivity.
  - pose proof (list_entry_eq sch x ms Hlen) as Hx. destruct (spec_list_entry sch x) as [[i m]|].
    + destruct Hx as (ms1 & Es & Ex). rewrite Ex.
      assert (Hlen1 : length ms1 = length (sc_lists sch)) by (rewrite (store_length _ _ _ _ Es); exact Hlen).
      specialize (IH ms1 Hlen1). destruct (option_map_all (spec_list_entry sch) l) as [ops|].
      * destruct IH as (ms' & Ea & El). exists ms'. split; [|exact El]. cbn [apply_ops]. now rewrite Es.
      * exact IH.
    + now rewrite Hx.
Qed.

Lemma spec_field_member_lists sch k x : bytes_eqb k n_lists = true -> spec_field_member sch (k, x) = None.
Proof. intros H. unfold spec_field_member. cbn [fst]. now rewrite H. Qed.

Lemma ctx_entry_eq sch k x c : ctx_typed sch c = true ->
  if bytes_eqb k n_lists then
    match spec_section sch x with
    | Some ops => exists ms', apply_ops ops (cx_lists c) = Some ms'
                              /\ ctx_entry_of_json sch k x c = Done {| cx_vals := cx_vals c; cx_lists := ms' |}
    | None => ctx_entry_of_json sch k x c = Refused
    end
  else
    match spec_field_member sch (k, x) with
    | Some (i, v) => exists vals', store (cx_vals c) i (Some v) = Some vals'
                                   /\ ctx_entry_of_json sch k x c = Done {| cx_vals := vals'; cx_lists := cx_lists c |}
    | None => ctx_entry_of_json sch k x c = Refused
    end.
Proof.
  intros Ht. pose proof (ctx_entry_safe sch k x c Ht) as Hsafe.
  unfold ctx_typed in Ht. apply andb_true_iff in Ht. destruct Ht as [Hv Hl]. apply Nat.eqb_eq in Hl.
  unfold ctx_entry_of_json, spec_field_member in *. cbn [fst snd]. destruct (bytes_eqb k n_lists).
  - unfold spec_section, lists_of_json. destruct x as [| | | |l|]; try reflexivity.
    pose proof (list_entries_eq sch l (cx_lists c) Hl) as He.
    destruct (option_map_all (spec_list_entry sch) l) as [ops|].
    + destruct He as (ms' & Ea & El). rewrite El. exists ms'. split; [exact Ea|reflexivity].
    + now rewrite He.
  - destruct (lookup_field sch k) as [[i fd]|]; [|reflexivity].
    destruct (value_of_json (fd_ty fd) x) as [v|] eqn:Ev; [|reflexivity]. cbn [result_opt option_map].
    rewrite (value_of_json_type_of _ _ _ Ev), ty_eqb_refl in *.
    destruct (store (cx_vals c) i (Some v)) as [vals'|]; [|contradiction].
    exists vals'. split; reflexivity.
Qed.

Lemma spec_member_ok_eq sch k x :
  spec_member_ok sch (k, x) =
  if bytes_eqb k n_lists then match spec_section sch x with Some _ => true | None => false end
  else match spec_field_member sch (k, x) with Some _ => true | None => false end.
Proof. reflexivity. Qed.

Lemma ctx_entries_eq sch : forall es c, ctx_typed sch c = true ->
  if forallb (spec_member_ok sch) es then
    exists c', ctx_entries_of_json sch es c = Done c' /\
      (forall n, nth_error (cx_vals c') n =
                 match spec_field_at sch es n with Some v => Some (Some v) | None => nth_error (cx_vals c) n end) /\
      (forall n, nth_error (cx_lists c') n =
                 match last_some (map (pick n) (spec_all_entries sch es)) with
                 | Some m => Some m
                 | None => nth_error (cx_lists c) n
                 end)
  else ctx_entries_of_json sch es c = Refused.
Proof.
  induction es as [|[k x] es IH]; intros c Ht.
  - cbn [forallb]. exists c. repeat split.
  - cbn [forallb ctx_entries_of_json]. rewrite spec_member_ok_eq.
    pose proof (ctx_entry_eq sch k x c Ht) as He. pose proof (ctx_entry_safe sch k x c Ht) as Hs.
    unfold spec_field_at, spec_all_entries. cbn [map flat_map fst snd].
    destruct (bytes_eqb k n_lists) eqn:Ek.
    + destruct (spec_section sch x) as [ops|]; [|now rewrite He].
      destruct He as (ms' & Ea & Ee). rewrite Ee in *. cbn [andb].
      specialize (IH _ Hs). destruct (forallb (spec_member_ok sch) es); [|exact IH].
      destruct IH as (c' & Hc' & Hv & Hl). exists c'. split; [exact Hc'|]. split.
      * intros n. rewrite (Hv n). rewrite (spec_field_member_lists sch k x Ek). rewrite last_some_cons.
        unfold spec_field_at. destruct (last_some _); reflexivity.
      * intros n. rewrite (Hl n). rewrite map_app, last_some_app. unfold spec_all_entries.
        destruct (last_some (map (pick n) (flat_map _ es))); [reflexivity|].
        cbn [cx_lists]. exact (proj2 (apply_ops_nth ops _ _ Ea) n).
    + destruct (spec_field_member sch (k, x)) as [[i v]|]; [|now rewrite He].
      destruct He as (vals' & Es & Ee). rewrite Ee in *. cbn [andb].
      specialize (IH _ Hs). destruct (forallb (spec_member_ok sch) es); [|exact IH].
      destruct IH as (c' & Hc' & Hv & Hl). exists c'. split; [exact Hc'|]. split.
      * intros n. rewrite (Hv n). rewrite last_some_cons. unfold spec_field_at.
        destruct (last_some _); [reflexivity|]. cbn [cx_vals]. rewrite (store_nth _ _ _ _ Es n).
        unfold pick. cbn [fst snd]. rewrite (Nat.eqb_sym i n). destruct (Nat.eqb n i); reflexivity.
      * intros n. rewrite (Hl n). cbn [app cx_lists]. reflexivity.
Qed.

Lemma nth_error_ext_len {A} : forall (l1 l2 : list A),
  length l1 = length l2 -> (forall n, n < length l1 -> nth_error l1 n = nth_error l2 n) -> l1 = l2.
Proof.
  induction l1 as [|x l1 IH]; intros [|y l2] Hlen H; cbn [length] in Hlen; try discriminate; [reflexivity|].
  pose proof (H 0 ltac:(cbn; lia)) as H0. cbn in H0. injection H0 as ->. f_equal. apply IH; [lia|].
  intros n Hn. apply (H (S n)). cbn [length]. lia.
Qed.

Lemma spec_matchers_nth entries : forall ls i0 n,
  nth_error (spec_matchers entries ls i0) n =
  option_map (fun l => spec_matcher_at entries (i0 + n) (snd l)) (nth_error ls n).
Proof.
  induction ls as [|l ls IH]; intros i0 n; [destruct n; reflexivity|]. destruct n as [|n]; cbn [spec_matchers nth_error option_map].
  - now rewrite Nat.add_0_r.
  - rewrite IH. now rewrite Nat.add_succ_r.
Qed.

Lemma spec_matchers_length entries : forall ls i0, length (spec_matchers entries ls i0) = length ls.
Proof. induction ls as [|l ls IH]; intros i0; [reflexivity|]. cbn [spec_matchers length]. now rewrite IH. Qed.

Lemma nth_error_map' {A B} (f : A -> B) : forall l n, nth_error (map f l) n = option_map f (nth_error l n).
Proof. induction l as [|x l IH]; intros [|n]; cbn; try reflexivity. apply IH. Qed.

Lemma nth_error_seq' : forall N a n, n < N -> nth_error (seq a N) n = Some (a + n).
Proof.
  induction N as [|N IH]; intros a n H; [lia|]. destruct n as [|n]; cbn [seq nth_error].
  - now rewrite Nat.add_0_r.
  - rewrite IH by lia. f_equal. lia.
Qed.

Theorem ctx_of_json_spec sch j : ctx_of_json sch j = spec_ctx_of_json sch j.
Proof.
  unfold ctx_of_json, ctx_decode, ctx_decode_into, spec_ctx_of_json. destruct j as [| | | | |es]; try reflexivity.
  pose proof (ctx_entries_eq sch es (fresh_ctx sch) (fresh_ctx_typed sch)) as H.
  pose proof (ctx_entries_safe sch es (fresh_ctx sch) (fresh_ctx_typed sch)) as Hs.
  destruct (forallb (spec_member_ok sch) es); [|now rewrite H].
  destruct H as (c' & Hc' & Hv & Hl). rewrite Hc' in *. f_equal.
  unfold ctx_typed in Hs. apply andb_true_iff in Hs. destruct Hs as [Hsv Hsl]. apply Nat.eqb_eq in Hsl.
  apply slots_typed_length in Hsv. destruct c' as [vals ms]. cbn [cx_vals cx_lists fresh_ctx] in *. f_equal.
  - apply nth_error_ext_len; [now rewrite map_length, seq_length|]. intros n Hn. rewrite Hsv in Hn.
    rewrite (Hv n). rewrite (nth_error_map' (spec_field_at sch es) (seq 0 (length (sc_fields sch))) n).
    rewrite (nth_error_seq' _ 0 n Hn). cbn [plus option_map].
    destruct (spec_field_at sch es n); [reflexivity|]. rewrite nth_error_map'.
    destruct (nth_error (sc_fields sch) n) eqn:E; [reflexivity|]. apply nth_error_None in E. lia.
  - apply nth_error_ext_len; [now rewrite spec_matchers_length|]. intros n Hn.
    rewrite (Hl n), spec_matchers_nth. cbn [plus]. unfold spec_matcher_at.
    rewrite (nth_error_map' (fun l : ty * list_kind => new_matcher (snd l)) (sc_lists sch) n).
    destruct (nth_error (sc_lists sch) n) eqn:E; [|apply nth_error_None in E; lia]. cbn [option_map].
    destruct (last_some (map (pick n) (spec_all_entries sch es))); reflexivity.
Qed.

(* ------------------------------------------------------------------ *)
(* C14_entry_point_independent                                          *)

Lemma last_some_In {A} (l : list (option A)) a : last_some l = Some a -> In (Some a) l.
Proof.
  induction l as [|x l IH]; [discriminate|]. rewrite last_some_cons.
  destruct (last_some l) as [y|].
  - intros H. injection H as ->. right. now apply IH.
  - intros ->. now left.
Qed.

Lemma last_some_None {A} (l : list (option A)) : (forall x, In x l -> x = None) -> last_some l = None.
Proof.
  induction l as [|x l IH]; intros H; [reflexivity|]. rewrite last_some_cons.
  rewrite IH by (intros y Hy; apply H; now right). apply H. now left.
Qed.

Lemma last_some_unique {A} (l : list (option A)) a :
  (forall b, In (Some b) l -> b = a) -> In (Some a) l -> last_some l = Some a.
Proof.
  intros Hu Hin. destruct (last_some l) as [b|] eqn:E.
  - f_equal. apply Hu. now apply last_some_In.
  - exfalso. induction l as [|x l IH]; [destruct Hin|]. rewrite last_some_cons in E.
    destruct (last_some l) eqn:El; [discriminate|]. subst x. destruct Hin as [H|H]; [discriminate|].
    apply IH; [intros b Hb; apply Hu; now right|exact H|reflexivity].
Qed.

Lemma NoDup_fst_inj {A} (l : list (bytes * A)) k v1 v2 :
  NoDup (map fst l) -> In (k, v1) l -> In (k, v2) l -> v1 = v2.
Proof.
  induction l as [|[k' v'] l IH]; intros Hnd H1 H2; [destruct H1|]. cbn [map fst] in Hnd.
  inversion Hnd as [|? ? Hk Hnd']; subst.
  destruct H1 as [H1|H1], H2 as [H2|H2].
  - congruence.
  - injection H1 as -> ->. exfalso. apply Hk. change k with (fst (k, v2)). now apply in_map.
  - injection H2 as -> ->. exfalso. apply Hk. change k with (fst (k, v1)). now apply in_map.
  - now apply IH.
Qed.

Lemma spec_field_member_as_value sch kv :
  no_dup_keys (snd kv) = true -> spec_field_member sch (on_snd json_as_value kv) = spec_field_member sch kv.
Proof.
  intros H. unfold spec_field_member, on_snd. cbn [fst snd]. destruct (bytes_eqb (fst kv) n_lists); [reflexivity|].
  destruct (lookup_field sch (fst kv)) as [[i fd]|]; [|reflexivity]. now rewrite (value_as_value _ _ H).
Qed.

Definition member_plain (kv : bytes * json) : bool :=
  no_dup_keys (snd kv) && (negb (bytes_eqb (fst kv) n_lists) || match snd kv with JArr [] => true | _ => false end).

Lemma spec_member_ok_as_value sch kv :
  member_plain kv = true -> spec_member_ok sch (on_snd json_as_value kv) = spec_member_ok sch kv.
Proof.
  intros H. unfold member_plain in H. apply andb_true_iff in H. destruct H as [Hnd Hl].
  unfold spec_member_ok. rewrite (spec_field_member_as_value sch kv Hnd). unfold on_snd. cbn [fst snd].
  destruct (bytes_eqb (fst kv) n_lists); [|reflexivity]. cbn [negb orb] in Hl.
  destruct (snd kv) as [| | | |[|x l]|]; try discriminate. reflexivity.
Qed.

Lemma member_no_entries sch kv :
  member_plain kv = true ->
  (if bytes_eqb (fst kv) n_lists then match spec_section sch (snd kv) with Some l => l | None => [] end else [])
  = @nil (nat * matcher).
Proof.
  intros H. unfold member_plain in H. apply andb_true_iff in H. destruct H as [_ Hl].
  destruct (bytes_eqb (fst kv) n_lists); [|reflexivity]. cbn [negb orb] in Hl.
  destruct (snd kv) as [| | | |[|x l]|]; try discriminate. reflexivity.
Qed.

Lemma flat_map_nil {A B} (f : A -> list B) (l : list A) : (forall x, In x l -> f x = []) -> flat_map f l = [].
Proof.
  induction l as [|x l IH]; intros H; [reflexivity|]. cbn [flat_map]. rewrite (H x (or_introl eq_refl)).
  apply IH. intros y Hy. apply H. now right.
Qed.

Lemma member_no_entries' sch kv :
  member_plain kv = true ->
  (if bytes_eqb (fst kv) n_lists
   then match spec_section sch (json_as_value (snd kv)) with Some l => l | None => [] end else [])
  = @nil (nat * matcher).
Proof.
  intros H. unfold member_plain in H. apply andb_true_iff in H. destruct H as [_ Hl].
  destruct (bytes_eqb (fst kv) n_lists); [|reflexivity]. cbn [negb orb] in Hl.
  destruct (snd kv) as [| | | |[|x l]|]; try discriminate. reflexivity.
Qed.

Lemma field_member_key sch kv n v :
  spec_field_member sch kv = Some (n, v) ->
  exists fd, nth_error (sc_fields sch) n = Some fd /\ fst kv = fd_name fd.
Proof.
  unfold spec_field_member. destruct (bytes_eqb (fst kv) n_lists); [discriminate|].
  destruct (lookup_field sch (fst kv)) as [[i fd]|] eqn:El; [|discriminate].
  destruct (value_of_json (fd_ty fd) (snd kv)); [|discriminate]. cbn [result_opt option_map]. intros H.
  injection H as -> _. unfold lookup_field in El. apply lookup_from_bound in El. destruct El as (_ & Hn & Hk).
  rewrite Nat.sub_0_r in Hn. exists fd. split; [exact Hn|]. now apply bytes_eqb_eq.
Qed.

Theorem spec_as_value sch es :
  distinctb (map fst es) = true -> forallb member_plain es = true ->
  spec_ctx_of_json sch (json_as_value (JObj es)) = spec_ctx_of_json sch (JObj es).
Proof.
  intros Hd Hp. apply distinctb_NoDup in Hd. rewrite forallb_forall in Hp.
  rewrite json_as_value_obj. set (es' := bt_of_list (map (on_snd json_as_value) es)).
  assert (Hnd' : NoDup (map fst (map (on_snd json_as_value) es))) by (rewrite map_map; exact Hd).
  assert (Hfrom : forall kv', In kv' es' -> exists kv, In kv es /\ kv' = on_snd json_as_value kv).
  { intros kv' H. apply bt_of_list_In1 in H. apply in_map_iff in H. destruct H as (kv & <- & H). exists kv. now split. }
  assert (Hto : forall kv, In kv es -> In (on_snd json_as_value kv) es').
  { intros kv H. apply bt_of_list_In2; [exact Hnd'|]. now apply in_map. }
  assert (Hnd_of : forall kv, In kv es -> no_dup_keys (snd kv) = true).
  { intros kv H. specialize (Hp kv H). unfold member_plain in Hp. apply andb_true_iff in Hp. exact (proj1 Hp). }
  unfold spec_ctx_of_json.
  assert (Eok : forallb (spec_member_ok sch) es' = forallb (spec_member_ok sch) es).
  { apply eq_true_iff_eq. rewrite !forallb_forall. split.
    - intros H kv Hin. rewrite <- (spec_member_ok_as_value sch kv (Hp kv Hin)). apply H. now apply Hto.
    - intros H kv' Hin. destruct (Hfrom kv' Hin) as (kv & Hkv & ->).
      rewrite (spec_member_ok_as_value sch kv (Hp kv Hkv)). now apply H. }
  rewrite Eok. destruct (forallb (spec_member_ok sch) es); [|reflexivity]. f_equal. f_equal.
  - (* fields *)
    apply map_ext. intros n. unfold spec_field_at.
    set (f := fun kv : bytes * json => match spec_field_member sch kv with Some e => pick n e | None => None end).
    assert (Hf : forall kv, In kv es -> f (on_snd json_as_value kv) = f kv).
    { intros kv Hin. unfold f. now rewrite (spec_field_member_as_value sch kv (Hnd_of kv Hin)). }
    assert (Huniq : forall kv1 kv2 a b, In kv1 es -> In kv2 es -> f kv1 = Some a -> f kv2 = Some b -> a = b).
    { intros [k1 x1] [k2 x2] a b H1 H2 F1 F2. unfold f in F1, F2.
      destruct (spec_field_member sch (k1, x1)) as [[i1 v1]|] eqn:E1; [|discriminate].
      destruct (spec_field_member sch (k2, x2)) as [[i2 v2]|] eqn:E2; [|discriminate].
      unfold pick in F1, F2. cbn [fst snd] in F1, F2.
      destruct (Nat.eqb_spec i1 n) as [->|]; [|discriminate]. destruct (Nat.eqb_spec i2 n) as [->|]; [|discriminate].
      injection F1 as <-. injection F2 as <-.
      destruct (field_member_key _ _ _ _ E1) as (fd1 & Hn1 & Hk1).
      destruct (field_member_key _ _ _ _ E2) as (fd2 & Hn2 & Hk2).
      cbn [fst] in Hk1, Hk2. assert (fd1 = fd2) by congruence. subst fd2. subst k1 k2.
      pose proof (NoDup_fst_inj es _ _ _ Hd H1 H2) as ->. congruence. }
    destruct (last_some (map f es)) as [a|] eqn:E.
    + apply last_some_In in E. apply in_map_iff in E. destruct E as (kv & Fkv & Hkv).
      apply last_some_unique.
      * intros b Hb. apply in_map_iff in Hb. destruct Hb as (kv' & Fkv' & Hkv').
        destruct (Hfrom kv' Hkv') as (kv0 & Hkv0 & ->). rewrite (Hf kv0 Hkv0) in Fkv'.
        exact (Huniq kv0 kv b a Hkv0 Hkv Fkv' Fkv).
      * apply in_map_iff. exists (on_snd json_as_value kv). split; [|now apply Hto]. now rewrite (Hf kv Hkv).
    + apply last_some_None. intros x Hx. apply in_map_iff in Hx. destruct Hx as (kv' & <- & Hkv').
      destruct (Hfrom kv' Hkv') as (kv0 & Hkv0 & ->). rewrite (Hf kv0 Hkv0).
      destruct (f kv0) as [b|] eqn:Fb; [|reflexivity]. exfalso.
      assert (Hin : In (Some b) (map f es)) by (apply in_map_iff; exists kv0; split; assumption).
      assert (last_some (map f es) <> None); [|congruence].
      intros En. clear -En Hin. induction (map f es) as [|x l IH]; [destruct Hin|].
      rewrite last_some_cons in En. destruct (last_some l) eqn:El; [discriminate|]. subst x.
      destruct Hin as [H|H]; [discriminate|]. now apply IH.
  - (* no entry of a list section, on either side *)
    assert (E1 : spec_all_entries sch es = []).
    { unfold spec_all_entries. apply flat_map_nil. intros kv Hin. apply member_no_entries. now apply Hp. }
    assert (E2 : spec_all_entries sch es' = []).
    { unfold spec_all_entries. apply flat_map_nil. intros kv' Hin. destruct (Hfrom kv' Hin) as (kv & Hkv & ->).
      unfold on_snd. cbn [fst snd]. apply member_no_entries'. now apply Hp. }
    now rewrite E1, E2.
Qed.

(* documents the statement speaks about: no object repeats a key, no entry in
   a list section (see [value_entry_refuses_list_entries] for those) *)
Definition doc_plain (j : json) : bool :=
  no_dup_keys j && no_list_entries j.

Theorem entry_point_independent sch j e :
  doc_plain j = true -> ctx_of_json sch (supply e j) = ctx_of_json sch j.
Proof.
  intros H. destruct e; try reflexivity. cbn [supply]. unfold doc_plain in H. apply andb_true_iff in H.
  destruct H as [Hnd Hnl]. rewrite !ctx_of_json_spec.
  destruct j as [| | | |l|es]; try reflexivity.
  cbn [no_dup_keys] in Hnd. apply andb_true_iff in Hnd. destruct Hnd as [Hd Hvs].
  apply spec_as_value; [exact Hd|]. rewrite forallb_forall in Hvs |- *. cbn [no_list_entries] in Hnl.
  rewrite forallb_forall in Hnl. intros [k x] Hin. unfold member_plain. cbn [fst snd].
  rewrite (Hvs (k, x) Hin). exact (Hnl (k, x) Hin).
Qed.

(* ... and what happens to an entry of a list section in a value tree: "data"
   sorts before "type", the visitor asks for "type" first *)
Theorem value_entry_refuses_list_entries sch t d :
  ctx_of_json sch (supply EValue (JObj [(n_lists, JArr [JObj [(n_type, t); (n_data, d)]])])) = Err.
Proof.
  unfold ctx_of_json, ctx_decode, ctx_decode_into. cbn [supply]. rewrite json_as_value_obj.
  cbn [map on_snd fst snd]. unfold bt_of_list. cbn [fold_left fst snd bt_insert].
  cbn [ctx_entries_of_json]. unfold ctx_entry_of_json. change (bytes_eqb n_lists n_lists) with true. cbn iota.
  cbn [json_as_value map]. unfold bt_of_list. cbn [fold_left fst snd bt_insert].
  change (bytes_compare n_data n_type) with Lt. cbn iota.
  cbn [lists_of_json list_entries_of_json]. unfold list_entry_of_json.
  change (bytes_eqb n_data n_type) with false. cbn iota. reflexivity.
Qed.

(* ------------------------------------------------------------------ *)
(* what a context is written as is a plain document (when no list is    *)
(* registered), so the round trip holds through every entry point       *)

Lemma ssorted_NoDup {A} (l : list (bytes * A)) : ssorted l -> NoDup (map fst l).
Proof.
  induction l as [|[k v] l IH]; intros H; [constructor|]. cbn [ssorted] in H. destruct H as [H1 H2].
  cbn [map fst]. constructor; [|apply IH; exact H2]. intros Hin. apply in_map_iff in Hin.
  destruct Hin as ([k' v'] & Hk & Hin). cbn [fst] in Hk. subst k'. rewrite Forall_forall in H1.
  specialize (H1 _ Hin). unfold key_lt in H1. cbn [fst] in H1. rewrite bytes_compare_rfl in H1. discriminate.
Qed.

Lemma nums_no_dup b : no_dup_keys (nums b) = true.
Proof. unfold nums. cbn [no_dup_keys]. apply forallb_forall. intros x Hx. apply in_map_iff in Hx. destruct Hx as (y & <- & _). reflexivity. Qed.

Lemma bytes_to_json_no_dup b : no_dup_keys (bytes_to_json b) = true.
Proof. unfold bytes_to_json. destruct (utf8_valid b); [reflexivity|apply nums_no_dup]. Qed.

Lemma value_to_json_no_dup : forall v, value_wf v = true -> no_dup_keys (value_to_json v) = true.
Proof.
  apply (value_ind' (fun v => value_wf v = true -> no_dup_keys (value_to_json v) = true)); try reflexivity.
  - intros b _. apply bytes_to_json_no_dup.
  - intros t l IH Hwf. cbn [value_to_json no_dup_keys]. cbn [value_wf] in Hwf. rewrite forallb_forall in Hwf.
    apply forallb_forall. intros x Hx. apply in_map_iff in Hx. destruct Hx as (y & <- & Hy).
    rewrite Forall_forall in IH. apply IH; [exact Hy|]. specialize (Hwf y Hy). apply andb_true_iff in Hwf. exact (proj2 Hwf).
  - intros t l IH Hwf. cbn [value_wf] in Hwf. apply andb_true_iff in Hwf. destruct Hwf as [Hwf Hasc].
    rewrite forallb_forall in Hwf. rewrite Forall_forall in IH.
    assert (Hv : forall kv, In kv l -> no_dup_keys (value_to_json (snd kv)) = true).
    { intros kv Hkv. apply IH; [exact Hkv|]. specialize (Hwf kv Hkv). apply andb_true_iff in Hwf. exact (proj2 Hwf). }
    cbn [value_to_json]. destruct (forallb (fun kv : bytes * value => utf8_valid (fst kv)) l).
    + cbn [no_dup_keys]. apply andb_true_iff. split.
      * apply distinctb_NoDup. rewrite map_map. cbn [fst]. rewrite keys_ascending_names in Hasc.
        apply ssorted_NoDup. apply names_ascending_ssorted. exact Hasc.
      * apply forallb_forall. intros [k x] Hx. apply in_map_iff in Hx. destruct Hx as (kv & E & Hkv).
        injection E as _ <-. now apply Hv.
    + cbn [no_dup_keys]. apply forallb_forall. intros x Hx. apply in_map_iff in Hx. destruct Hx as (kv & <- & Hkv).
      cbn [no_dup_keys forallb]. rewrite bytes_to_json_no_dup, (Hv kv Hkv). reflexivity.
Qed.

Lemma field_entries_names : forall fds vals k, In k (map fst (field_entries fds vals)) -> In k (map fd_name fds).
Proof.
  induction fds as [|fd fds IH]; intros [|[v|] vals] k H; cbn [field_entries map] in *; try contradiction.
  - destruct H as [H|H]; [left; exact H|right; eapply IH; exact H].
  - right. eapply IH. exact H.
Qed.

Lemma field_entries_NoDup : forall fds vals, NoDup (map fd_name fds) -> NoDup (map fst (field_entries fds vals)).
Proof.
  induction fds as [|fd fds IH]; intros [|[v|] vals] H; cbn [field_entries map]; try constructor;
    inversion H as [|? ? Hn Hr]; subst.
  - intros Hin. apply Hn. eapply field_entries_names. exact Hin.
  - now apply IH.
  - now apply IH.
Qed.

Lemma field_entries_plain : forall fds vals,
  negb (existsb (bytes_eqb n_lists) (map fd_name fds)) = true -> slots_typed fds vals = true ->
  forall kv, In kv (field_entries fds vals) -> member_plain kv = true.
Proof.
  induction fds as [|fd fds IH]; intros [|o vals] Hl Ht kv Hin; cbn [field_entries] in Hin; try contradiction.
  cbn [map existsb] in Hl. apply negb_true_iff in Hl. apply orb_false_iff in Hl. destruct Hl as [Hl1 Hl2].
    cbn [slots_typed] in Ht. apply andb_true_iff in Ht. destruct Ht as [Ho Ht].
    assert (Hrest : forall kv, In kv (field_entries fds vals) -> member_plain kv = true).
    { apply IH; [now apply negb_true_iff|exact Ht]. }
    destruct o as [v|]; [|now apply Hrest]. destruct Hin as [<-|Hin]; [|now apply Hrest].
    unfold member_plain. cbn [fst snd]. cbn [slot_typed] in Ho. apply has_type_inv in Ho.
    rewrite (value_to_json_no_dup v (proj2 Ho)). rewrite bytes_eqb_sym, Hl1. reflexivity.
Qed.

Theorem ctx_to_json_plain sch c :
  names_ok (sc_fields sch) = true -> ctx_typed sch c = true -> sc_lists sch = [] ->
  doc_plain (ctx_to_json sch c) = true.
Proof.
  intros Hn Ht Hl. unfold names_ok in Hn. apply andb_true_iff in Hn. destruct Hn as [Hd Hnl].
  unfold ctx_typed in Ht. apply andb_true_iff in Ht. destruct Ht as [Hv Hlen]. apply Nat.eqb_eq in Hlen.
  rewrite Hl in Hlen. destruct (cx_lists c) eqn:El; [|discriminate]. unfold ctx_to_json. rewrite El, app_nil_r.
  pose proof (field_entries_plain _ _ Hnl Hv) as Hp.
  unfold doc_plain. cbn [no_dup_keys no_list_entries]. apply andb_true_iff. split.
  - apply andb_true_iff. split.
    + apply distinctb_NoDup. apply field_entries_NoDup. now apply distinctb_NoDup.
    + apply forallb_forall. intros [k x] Hin. specialize (Hp _ Hin). unfold member_plain in Hp. cbn [fst snd] in Hp.
      apply andb_true_iff in Hp. exact (proj1 Hp).
  - apply forallb_forall. intros kv Hin. specialize (Hp _ Hin). unfold member_plain in Hp.
    apply andb_true_iff in Hp. exact (proj2 Hp).
Qed.

Theorem ctx_roundtrip_every_entry sch c e :
  scheme_ok sch = true -> ctx_typed sch c = true -> ctx_rust sch c = true ->
  (e = EValue -> sc_lists sch = []) ->
  ctx_of_json sch (supply e (ctx_to_json sch c)) = Ok c.
Proof.
  intros Hs Ht Hr He. destruct e; try (apply ctx_roundtrip_result; assumption).
  rewrite entry_point_independent; [apply ctx_roundtrip_result; assumption|].
  apply ctx_to_json_plain; [|exact Ht|apply He; reflexivity].
  unfold scheme_ok in Hs. apply andb_true_iff in Hs. exact (proj1 Hs).
Qed.

(* ------------------------------------------------------------------ *)
(* filters on the context that came back                                *)

Theorem filters_agree_after_roundtrip sch c e c' :
  scheme_ok sch = true -> ctx_ok sch c = true -> ctx_rust sch c = true ->
  ctx_of_json sch (ctx_to_json sch c) = Ok c' ->
  run_filter sch e c' = run_filter sch e c.
Proof.
  intros Hs Hc Hr H. rewrite (ctx_roundtrip_result sch c Hs (ctx_ok_typed sch c Hc) Hr) in H. now injection H as <-.
Qed.
