(* C07, part 3: the compact JSON printer is injective.  Two JSON values with
   the same text are the same value; more precisely the printer is a prefix
   code: whatever follows (not starting with a digit, which could extend a
   number), the value and the rest can be read back. *)
From Coq Require Import List ZArith NArith Bool Lia DecimalN DecimalPos.
From WF Require Import Base.Bytes Base.Sexp Sem.TypeCodec Sem.JsonText Sem.AstJson Proofs.AstJsonProofs.
Import ListNotations.
Open Scope N_scope.

Definition dig (c : N) : bool := (48 <=? c) && (c <=? 57).
(* the text that follows does not start with a digit *)
Definition nd (r : bytes) : Prop := match r with [] => True | c :: _ => dig c = false end.

(* ---- numbers ---- *)

Lemma uint_inj_rest : forall u1 u2 r1 r2, nd r1 -> nd r2 ->
  uint_to_bytes u1 ++ r1 = uint_to_bytes u2 ++ r2 -> u1 = u2 /\ r1 = r2.
Proof.
  induction u1 as [|u1 IH|u1 IH|u1 IH|u1 IH|u1 IH|u1 IH|u1 IH|u1 IH|u1 IH|u1 IH];
    intros u2 r1 r2 H1 H2 H; destruct u2 as [|u2|u2|u2|u2|u2|u2|u2|u2|u2|u2];
    cbn [uint_to_bytes app] in H;
    first [ solve [split; [reflexivity|exact H]]
          | solve [exfalso; subst r1; cbn in H1; discriminate H1]
          | solve [exfalso; subst r2; cbn in H2; discriminate H2]
          | solve [exfalso; injection H as Hc _; discriminate Hc]
          | (injection H as Ht; destruct (IH _ _ _ H1 H2 Ht) as [-> ->]; split; reflexivity) ].
Qed.

Lemma uint_digits u : Forall (fun c => dig c = true) (uint_to_bytes u).
Proof. induction u; cbn [uint_to_bytes]; constructor; auto. Qed.

Lemma print_N_uint n : print_N n = uint_to_bytes (N.to_uint n).
Proof. destruct n; reflexivity. Qed.

Lemma print_N_inj_rest n1 n2 r1 r2 : nd r1 -> nd r2 ->
  print_N n1 ++ r1 = print_N n2 ++ r2 -> n1 = n2 /\ r1 = r2.
Proof.
  intros H1 H2 H. rewrite !print_N_uint in H.
  destruct (uint_inj_rest _ _ _ _ H1 H2 H) as [Hu ->]. split; [|reflexivity].
  now apply DecimalN.Unsigned.to_uint_inj.
Qed.

Lemma print_N_digits n : Forall (fun c => dig c = true) (print_N n).
Proof. rewrite print_N_uint. apply uint_digits. Qed.

Lemma to_uint_nonnil n : N.to_uint n <> Decimal.Nil.
Proof. destruct n as [|p]; [discriminate|]. apply DecimalPos.Unsigned.to_uint_nonnil. Qed.

Lemma print_N_head n : exists c t, print_N n = c :: t /\ dig c = true.
Proof.
  pose proof (print_N_digits n) as Hd. rewrite print_N_uint in *.
  pose proof (to_uint_nonnil n) as Hn. destruct (N.to_uint n); try contradiction;
    cbn [uint_to_bytes] in *; eexists; eexists; (split; [reflexivity|]); now inversion Hd.
Qed.

Corollary print_N_inj n1 n2 : print_N n1 = print_N n2 -> n1 = n2.
Proof.
  intro H. apply (f_equal (fun x => x ++ [])) in H.
  now destruct (print_N_inj_rest n1 n2 [] [] I I H).
Qed.

Lemma print_Z_head z : exists c t, print_Z z = c :: t /\ (c = 45 \/ dig c = true).
Proof.
  destruct z as [|p|p]; cbn [print_Z].
  - destruct (print_N_head (Z.to_N 0)) as (c & t & E & Hc). eauto.
  - destruct (print_N_head (Z.to_N (Z.pos p))) as (c & t & E & Hc). eauto.
  - eauto.
Qed.

Lemma print_Z_cases z :
  (exists n, print_Z z = print_N n /\ z = Z.of_N n) \/
  (exists p, print_Z z = 45 :: print_N (N.pos p) /\ z = Z.neg p).
Proof.
  destruct z as [|p|p].
  - left. exists 0. split; reflexivity.
  - left. exists (N.pos p). split; reflexivity.
  - right. exists p. split; reflexivity.
Qed.

Lemma print_Z_inj_rest z1 z2 r1 r2 : nd r1 -> nd r2 ->
  print_Z z1 ++ r1 = print_Z z2 ++ r2 -> z1 = z2 /\ r1 = r2.
Proof.
  intros H1 H2 H.
  assert (Hneg : forall p n t, 45 :: t = print_N n ++ p -> False).
  { intros p n t E. destruct (print_N_head n) as (c & t' & E' & Hc). rewrite E' in E.
    injection E as <- _. discriminate Hc. }
  destruct (print_Z_cases z1) as [(n1 & E1 & ->)|(p1 & E1 & ->)],
           (print_Z_cases z2) as [(n2 & E2 & ->)|(p2 & E2 & ->)]; rewrite E1, E2 in H.
  - destruct (print_N_inj_rest _ _ _ _ H1 H2 H) as [-> ->]. auto.
  - exfalso. cbn [app] in H. symmetry in H. now apply Hneg in H.
  - exfalso. cbn [app] in H. now apply Hneg in H.
  - cbn [app] in H. assert (H' : print_N (N.pos p1) ++ r1 = print_N (N.pos p2) ++ r2) by congruence.
    destruct (print_N_inj_rest _ _ _ _ H1 H2 H') as [E ->].
    injection E as ->. auto.
Qed.

(* ---- strings ---- *)

(* reads one (possibly escaped) character of a JSON string back; None at the closing quote *)
Definition unesc (x : bytes) : option (N * bytes) :=
  match x with
  | [] => None
  | c :: r =>
      if c =? 34 then None
      else if c =? 92 then
        match r with
        | e :: r1 =>
            if e =? 34 then Some (34, r1) else if e =? 92 then Some (92, r1)
            else if e =? 98 then Some (8, r1) else if e =? 102 then Some (12, r1)
            else if e =? 110 then Some (10, r1) else if e =? 114 then Some (13, r1)
            else if e =? 116 then Some (9, r1)
            else if e =? 117 then
              match r1 with
              | _ :: _ :: a :: d :: r2 =>
                  match hex_val a, hex_val d with
                  | Some u, Some v => Some (u * 16 + v, r2)
                  | _, _ => None
                  end
              | _ => None
              end
            else None
        | [] => None
        end
      else Some (c, r)
  end.

Lemma hex_val_digit n : n < 16 -> hex_val (hex_digit n) = Some n.
Proof.
  intro H. unfold hex_digit, hex_val. destruct (n <? 10) eqn:E.
  - apply N.ltb_lt in E.
    replace ((48 <=? 48 + n) && (48 + n <=? 57)) with true
      by (symmetry; apply andb_true_intro; split; apply N.leb_le; lia).
    f_equal. lia.
  - apply N.ltb_ge in E.
    replace ((48 <=? 87 + n) && (87 + n <=? 57)) with false
      by (symmetry; apply andb_false_intro2; apply N.leb_gt; lia).
    replace ((97 <=? 87 + n) && (87 + n <=? 102)) with true
      by (symmetry; apply andb_true_intro; split; apply N.leb_le; lia).
    f_equal. lia.
Qed.

Lemma unesc_esc c r : unesc (esc_byte c ++ r) = Some (c, r).
Proof.
  unfold esc_byte.
  destruct (c =? 34) eqn:E1; [apply N.eqb_eq in E1; subst; reflexivity|].
  destruct (c =? 92) eqn:E2; [apply N.eqb_eq in E2; subst; reflexivity|].
  destruct (c =? 8) eqn:E3; [apply N.eqb_eq in E3; subst; reflexivity|].
  destruct (c =? 12) eqn:E4; [apply N.eqb_eq in E4; subst; reflexivity|].
  destruct (c =? 10) eqn:E5; [apply N.eqb_eq in E5; subst; reflexivity|].
  destruct (c =? 13) eqn:E6; [apply N.eqb_eq in E6; subst; reflexivity|].
  destruct (c =? 9) eqn:E7; [apply N.eqb_eq in E7; subst; reflexivity|].
  destruct (c <? 32) eqn:E8.
  - apply N.ltb_lt in E8. cbn [app unesc].
    change (92 =? 34) with false. change (92 =? 92) with true. cbv iota.
    change (117 =? 34) with false. change (117 =? 92) with false. change (117 =? 98) with false.
    change (117 =? 102) with false. change (117 =? 110) with false. change (117 =? 114) with false.
    change (117 =? 116) with false. change (117 =? 117) with true. cbv iota.
    assert (H1 : c / 16 < 16) by (apply N.div_lt_upper_bound; lia).
    assert (H2 : c mod 16 < 16) by (apply N.mod_lt; discriminate).
    rewrite (hex_val_digit _ H1), (hex_val_digit _ H2). do 2 f_equal.
    rewrite N.mul_comm. symmetry. apply N.div_mod. discriminate.
  - cbn [app unesc]. now rewrite E1, E2.
Qed.

Lemma jstr_body_inj : forall x1 x2 r1 r2,
  flat_map esc_byte x1 ++ 34 :: r1 = flat_map esc_byte x2 ++ 34 :: r2 -> x1 = x2 /\ r1 = r2.
Proof.
  induction x1 as [|c1 x1 IH]; intros [|c2 x2] r1 r2 H; cbn [flat_map app] in H.
  - injection H as ->. auto.
  - apply (f_equal unesc) in H. rewrite <- app_assoc, unesc_esc in H. discriminate H.
  - apply (f_equal unesc) in H. rewrite <- app_assoc, unesc_esc in H. discriminate H.
  - apply (f_equal unesc) in H. rewrite <- !app_assoc, !unesc_esc in H. injection H as -> H.
    destruct (IH _ _ _ H) as [-> ->]. auto.
Qed.

Lemma print_jstr_inj_rest x1 x2 r1 r2 :
  print_jstr x1 ++ r1 = print_jstr x2 ++ r2 -> x1 = x2 /\ r1 = r2.
Proof.
  unfold print_jstr. cbn [app]. rewrite <- !app_assoc. cbn [app]. intro H. injection H as H.
  now apply jstr_body_inj.
Qed.

(* ---- values ---- *)

(* the first character tells the kind of value *)
Definition jhead (j : json) (c : N) : Prop :=
  match j with
  | JNull => c = 110
  | JBool true => c = 116
  | JBool false => c = 102
  | JNum _ => c = 45 \/ dig c = true
  | JStr _ => c = 34
  | JArr _ => c = 91
  | JObj _ => c = 123
  end.

Lemma jprint_head j : exists c t, jprint j = c :: t /\ jhead j c.
Proof.
  destruct j as [|[|]|z|x|l|l]; cbn [jprint jhead]; try (eexists; eexists; split; reflexivity).
  destruct (print_Z_head z) as (c & t & E & H). eauto.
Qed.

Definition same_ctor (j1 j2 : json) : Prop :=
  match j1, j2 with
  | JNull, JNull => True
  | JBool a, JBool c => a = c
  | JNum _, JNum _ | JStr _, JStr _ | JArr _, JArr _ | JObj _, JObj _ => True
  | _, _ => False
  end.

Lemma jhead_same j1 j2 c : jhead j1 c -> jhead j2 c -> same_ctor j1 j2.
Proof.
  destruct j1 as [|[|]|z1|x1|l1|l1], j2 as [|[|]|z2|x2|l2|l2]; cbn [jhead same_ctor]; intros H1 H2; auto;
    try (subst c; discriminate H2); try (subst c; destruct H2 as [H2|H2]; discriminate H2);
    try (subst c; destruct H1 as [H1|H1]; discriminate H1).
Qed.

(* a value never starts with a separator or a closing bracket *)
Lemma jhead_not_sep j c : jhead j c -> c <> 44 /\ c <> 93 /\ c <> 125.
Proof.
  destruct j as [|[|]|z|x|l|l]; cbn [jhead]; intro H; try (subst c; repeat split; discriminate).
  destruct H as [->|H]; repeat split; try discriminate; intros ->; discriminate H.
Qed.

(* a comma separated sequence closed by [close] *)
Lemma join_inj_gen {A} (pr : A -> bytes) (close : N) :
  close <> 44 -> dig close = false ->
  (forall x, exists c t, pr x = c :: t /\ c <> close) ->
  forall l1,
    Forall (fun x => forall y s1 s2, nd s1 -> nd s2 -> pr x ++ s1 = pr y ++ s2 -> x = y /\ s1 = s2) l1 ->
    forall l2 r1 r2,
      join_sep 44 (map pr l1) ++ close :: r1 = join_sep 44 (map pr l2) ++ close :: r2 -> l1 = l2 /\ r1 = r2.
Proof.
  intros Hc Hd Hhead l1 HF. induction HF as [|x l1 Hx HF IH]; intros l2 r1 r2 H.
  - destruct l2 as [|y l2]; cbn [map] in H.
    + cbn [join_sep app] in H. injection H as ->. auto.
    + exfalso. rewrite join_sep_cons, <- app_assoc in H. destruct (Hhead y) as (c & t & E & Hne).
      rewrite E in H. cbn [join_sep app] in H. injection H as H _. now apply Hne.
  - destruct l2 as [|y l2].
    + exfalso. cbn [map] in H. rewrite join_sep_cons, <- app_assoc in H. destruct (Hhead x) as (c & t & E & Hne).
      rewrite E in H. cbn [map join_sep app] in H. injection H as H _. now apply Hne.
    + cbn [map] in H. rewrite !join_sep_cons, <- !app_assoc in H.
      apply Hx in H.
      * destruct H as [-> H]. destruct l1 as [|x1 l1], l2 as [|y1 l2]; cbn [map app] in H.
        -- injection H as ->. auto.
        -- exfalso. injection H as H _. now apply Hc.
        -- exfalso. injection H as H _. now apply Hc.
        -- apply (f_equal (@tl N)) in H. cbn [tl] in H.
           destruct (IH (y1 :: l2) _ _ H) as [-> ->]. auto.
      * destruct l1; cbn [map app nd]; [exact Hd|reflexivity].
      * destruct l2; cbn [map app nd]; [exact Hd|reflexivity].
Qed.

Lemma same_ctor_of_eq j1 j2 r1 r2 : jprint j1 ++ r1 = jprint j2 ++ r2 -> same_ctor j1 j2.
Proof.
  intro H. destruct (jprint_head j1) as (c1 & t1 & E1 & Hh1), (jprint_head j2) as (c2 & t2 & E2 & Hh2).
  rewrite E1, E2 in H. cbn [app] in H. injection H as Hc _. subst c2. exact (jhead_same _ _ _ Hh1 Hh2).
Qed.

Definition jprint_inj_at (j1 : json) : Prop :=
  forall j2 r1 r2, nd r1 -> nd r2 -> jprint j1 ++ r1 = jprint j2 ++ r2 -> j1 = j2 /\ r1 = r2.

Lemma jprint_inj_rest : forall j1, jprint_inj_at j1.
Proof.
  induction j1 as [| v | z | x | l IH | l IH] using json_ind2; intros j2 r1 r2 H1 H2 H.
  all: pose proof (same_ctor_of_eq _ _ _ _ H) as Hs.
  - destruct j2; try contradiction. cbn [jprint] in H. apply app_inv_head in H. auto.
  - destruct j2 as [|v2| | | |]; try contradiction. cbn [same_ctor] in Hs. subst v2.
    apply app_inv_head in H. auto.
  - destruct j2 as [| |z2| | |]; try contradiction. cbn [jprint] in H.
    destruct (print_Z_inj_rest _ _ _ _ H1 H2 H) as [-> ->]. auto.
  - destruct j2 as [| | |x2| |]; try contradiction. cbn [jprint] in H.
    destruct (print_jstr_inj_rest _ _ _ _ H) as [-> ->]. auto.
  - destruct j2 as [| | | |l2|]; try contradiction. cbn [jprint app] in H. injection H as H.
    rewrite <- !app_assoc in H. cbn [app] in H.
    destruct (join_inj_gen jprint 93 ltac:(discriminate) eq_refl
                (fun x => match jprint_head x with
                          | ex_intro _ c (ex_intro _ t (conj E Hh)) =>
                              ex_intro _ c (ex_intro _ t (conj E (proj1 (proj2 (jhead_not_sep _ _ Hh)))))
                          end) l IH l2 r1 r2 H) as [-> ->].
    auto.
  - destruct j2 as [| | | | |l2]; try contradiction. cbn [jprint app] in H. injection H as H.
    rewrite <- !app_assoc in H. cbn [app] in H.
    set (pr := fun kv : bytes * json => match kv with (k, v) => jprint_member k (jprint v) end) in H.
    assert (Hhead : forall kv, exists c t, pr kv = c :: t /\ c <> 125).
    { intros [k v]. unfold pr, jprint_member, print_jstr. cbn [app]. eexists; eexists; split; [reflexivity|discriminate]. }
    assert (HF : Forall (fun x => forall y s1 s2, nd s1 -> nd s2 -> pr x ++ s1 = pr y ++ s2 -> x = y /\ s1 = s2) l).
    { eapply Forall_impl; [|exact IH]. intros [k v] Hv [k' v'] s1 s2 Hn1 Hn2 E. cbn [snd] in Hv.
      unfold pr, jprint_member in E. rewrite <- !app_assoc in E.
      destruct (print_jstr_inj_rest _ _ _ _ E) as [-> E']. cbn [app] in E'. injection E' as E'.
      destruct (Hv _ _ _ Hn1 Hn2 E') as [-> ->]. auto. }
    destruct (join_inj_gen pr 125 ltac:(discriminate) eq_refl Hhead l HF l2 r1 r2 H) as [-> ->]. auto.
Qed.

(* the text determines the value *)
Theorem jprint_injective j1 j2 : jprint j1 = jprint j2 -> j1 = j2.
Proof.
  intro H. apply (f_equal (fun x => x ++ [])) in H.
  now destruct (jprint_inj_rest j1 j2 [] [] I I H).
Qed.

(* the same for the writer of Sem/JsonText.v *)
Corollary json_print_injective j1 j2 : json_print j1 = json_print j2 -> j1 = j2.
Proof. rewrite <- !jprint_is_json_print. apply jprint_injective. Qed.

(* a list is cut in one way only at the first occurrence of a separator *)
Lemma split_at_unique {A} (c : A) : forall a1 a2 r1 r2,
  ~ In c a1 -> ~ In c a2 -> a1 ++ c :: r1 = a2 ++ c :: r2 -> a1 = a2 /\ r1 = r2.
Proof.
  induction a1 as [|x a1 IH]; intros [|y a2] r1 r2 H1 H2 H; cbn [app] in H.
  - injection H as ->. auto.
  - injection H as <- _. exfalso. apply H2. now left.
  - injection H as -> _. exfalso. apply H1. now left.
  - injection H as -> H. destruct (IH a2 r1 r2) as [-> ->]; auto.
    + intro Hi. apply H1. now right.
    + intro Hi. apply H2. now right.
Qed.
