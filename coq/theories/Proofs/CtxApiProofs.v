(* Proofs for C08: the model of the context API (Sem/CtxApi.v) refines the
   abstract typed map (Spec/C08.v) for every operation sequence; stored values
   are well typed in every reachable world; clones are independent; guards
   write through; containers are homogeneous; filters only execute against
   their own scheme. *)
From Coq Require Import List ZArith NArith Bool Arith Lia.
From WF Require Import Base.Bytes Sem.RangeSet Lang.Types Lang.Context Spec.Typing Sem.CtxApi Spec.C08.
Import ListNotations.
Open Scope nat_scope.

(* ------------------------------------------------------------------ *)
(* Basics                                                               *)

Lemma ty_eqb_rfl t : ty_eqb t t = true.
Proof. induction t as [| | | |t IH|t IH]; cbn; auto. Qed.

Lemma ty_eqb_true a : forall b, ty_eqb a b = true -> a = b.
Proof.
  induction a as [| | | |a IH|a IH]; intros b Hb; destruct b; cbn in Hb; try discriminate; try reflexivity;
    f_equal; apply IH; exact Hb.
Qed.

Lemma ty_eqb_sym a b : ty_eqb a b = ty_eqb b a.
Proof.
  destruct (ty_eqb a b) eqn:Hab.
  - apply ty_eqb_true in Hab. subst b. symmetry. apply ty_eqb_rfl.
  - destruct (ty_eqb b a) eqn:Hba; [|reflexivity].
    apply ty_eqb_true in Hba. subst b. rewrite ty_eqb_rfl in Hab. discriminate.
Qed.

Lemma bytes_eqb_rfl a : bytes_eqb a a = true.
Proof. induction a as [|x a IH]; cbn; [reflexivity|]. rewrite N.eqb_refl. exact IH. Qed.

Lemma bytes_eqb_true a : forall b, bytes_eqb a b = true -> a = b.
Proof.
  induction a as [|x a IH]; intros b Hb; destruct b as [|y b]; cbn in Hb; try discriminate; [reflexivity|].
  apply andb_true_iff in Hb. destruct Hb as [Hx Hr]. apply N.eqb_eq in Hx. subst y. f_equal. apply IH. exact Hr.
Qed.

Lemma bytes_compare_rfl a : bytes_compare a a = Eq.
Proof. induction a as [|x a IH]; cbn; [reflexivity|]. rewrite N.compare_refl. exact IH. Qed.

Lemma bytes_compare_eq a : forall b, bytes_compare a b = Eq -> a = b.
Proof.
  induction a as [|x a IH]; intros b Hb; destruct b as [|y b]; cbn in Hb; try discriminate; [reflexivity|].
  destruct (x ?= y)%N eqn:Hxy; try discriminate.
  apply N.compare_eq in Hxy. subst y. f_equal. apply IH. exact Hb.
Qed.

Lemma bytes_compare_gt_lt a : forall b, bytes_compare a b = Gt -> bytes_compare b a = Lt.
Proof.
  induction a as [|x a IH]; intros b Hb; destruct b as [|y b]; cbn in Hb; try discriminate; cbn; [reflexivity|].
  rewrite (N.compare_antisym x y). destruct (x ?= y)%N eqn:Hxy; cbn; try discriminate; [|reflexivity].
  apply IH. exact Hb.
Qed.

(* ---- set_nth / slot ---- *)

Lemma set_nth_length {A} (l : list A) : forall n x, length (set_nth l n x) = length l.
Proof. induction l as [|y l IH]; intros n x; destruct n; cbn; auto. Qed.

Lemma nth_error_set_nth_eq {A} (l : list A) : forall n x, n < length l -> nth_error (set_nth l n x) n = Some x.
Proof.
  induction l as [|y l IH]; intros n x Hn; cbn in Hn; [lia|].
  destruct n; cbn; [reflexivity|]. apply IH. lia.
Qed.

Lemma nth_error_set_nth_neq {A} (l : list A) : forall n m x, n <> m -> nth_error (set_nth l n x) m = nth_error l m.
Proof.
  induction l as [|y l IH]; intros n m x Hnm; destruct n; destruct m; cbn; try reflexivity; try lia.
  apply IH. lia.
Qed.

Lemma slot_some_lt tab c e : slot tab c = Some e -> c < length tab.
Proof.
  unfold slot. intros H. destruct (nth_error tab c) eqn:Hn; [|discriminate].
  apply nth_error_Some. rewrite Hn. discriminate.
Qed.

Lemma slot_set_nth_eq tab c x : c < length tab -> slot (set_nth tab c x) c = x.
Proof. intros H. unfold slot. rewrite nth_error_set_nth_eq by exact H. reflexivity. Qed.

Lemma slot_set_nth_neq tab c c' x : c <> c' -> slot (set_nth tab c x) c' = slot tab c'.
Proof. intros H. unfold slot. rewrite nth_error_set_nth_neq by exact H. reflexivity. Qed.

Lemma slot_out tab c : length tab <= c -> slot tab c = None.
Proof. intros H. unfold slot. apply nth_error_None in H. rewrite H. reflexivity. Qed.

(* ---- cur_in / put_in ---- *)

Lemma cur_in_lt g tab : forall c e, cur_in g tab c = Some e -> ~ In c (map fst g) -> c < length tab.
Proof.
  induction g as [|[c1 n1] r IH]; intros c e H Hni; cbn in *.
  - eapply slot_some_lt. exact H.
  - destruct (Nat.eqb c c1) eqn:Hc.
    + apply Nat.eqb_eq in Hc. exfalso. apply Hni. left. symmetry. exact Hc.
    + eapply IH; [exact H|]. intros Hin. apply Hni. right. exact Hin.
Qed.

Lemma put_in_fst g tab c e : map fst (fst (put_in g tab c e)) = map fst g.
Proof.
  induction g as [|[c1 n1] r IH]; cbn; [reflexivity|].
  destruct (Nat.eqb c c1); cbn; [reflexivity|]. rewrite IH. reflexivity.
Qed.

Lemma put_in_length g tab c e : length (snd (put_in g tab c e)) = length tab.
Proof.
  induction g as [|[c1 n1] r IH]; cbn; [apply set_nth_length|].
  destruct (Nat.eqb c c1); cbn; [reflexivity|]. exact IH.
Qed.

Lemma cur_put_same g tab c e : forall e0,
  cur_in g tab c = Some e0 -> cur_in (fst (put_in g tab c e)) (snd (put_in g tab c e)) c = Some e.
Proof.
  induction g as [|[c1 n1] r IH]; intros e0 H; cbn in *.
  - apply slot_set_nth_eq. eapply slot_some_lt. exact H.
  - destruct (Nat.eqb c c1) eqn:Hc; cbn; rewrite Hc; [reflexivity|]. eapply IH. exact H.
Qed.

Lemma cur_put_other g tab c e c' :
  c' <> c -> cur_in (fst (put_in g tab c e)) (snd (put_in g tab c e)) c' = cur_in g tab c'.
Proof.
  intros Hne. induction g as [|[c1 n1] r IH]; cbn.
  - apply slot_set_nth_neq. intros Heq. apply Hne. symmetry. exact Heq.
  - destruct (Nat.eqb c c1) eqn:Hc; cbn.
    + apply Nat.eqb_eq in Hc. subst c1. apply Nat.eqb_neq in Hne. rewrite Hne. reflexivity.
    + destruct (Nat.eqb c' c1); [reflexivity|]. exact IH.
Qed.

Lemma cur_put g tab c e e0 c' :
  cur_in g tab c = Some e0 ->
  cur_in (fst (put_in g tab c e)) (snd (put_in g tab c e)) c' = if Nat.eqb c' c then Some e else cur_in g tab c'.
Proof.
  intros H. destruct (Nat.eqb c' c) eqn:Hc.
  - apply Nat.eqb_eq in Hc. subst c'. eapply cur_put_same. exact H.
  - apply Nat.eqb_neq in Hc. apply cur_put_other. exact Hc.
Qed.

Lemma borrowed_false_notin w c : borrowed w c = false -> ~ In c (map fst (w_guards w)).
Proof.
  unfold borrowed. intros H Hin.
  assert (Ht : existsb (Nat.eqb c) (map fst (w_guards w)) = true).
  { apply existsb_exists. exists c. split; [exact Hin|apply Nat.eqb_refl]. }
  rewrite H in Ht. discriminate.
Qed.

Lemma cur_set_nth g tab dst x : forall c',
  ~ In dst (map fst g) -> dst < length tab ->
  cur_in g (set_nth tab dst x) c' = if Nat.eqb c' dst then x else cur_in g tab c'.
Proof.
  induction g as [|[c1 n1] r IH]; intros c' Hni Hlt; cbn in *.
  - destruct (Nat.eqb c' dst) eqn:Hc.
    + apply Nat.eqb_eq in Hc. subst c'. apply slot_set_nth_eq. exact Hlt.
    + apply Nat.eqb_neq in Hc. apply slot_set_nth_neq. intros Heq. apply Hc. symmetry. exact Heq.
  - destruct (Nat.eqb c' c1) eqn:Hc1.
    + apply Nat.eqb_eq in Hc1. subst c'.
      destruct (Nat.eqb c1 dst) eqn:Hd; [|reflexivity].
      apply Nat.eqb_eq in Hd. exfalso. apply Hni. left. exact Hd.
    + apply IH; [|exact Hlt]. intros Hin. apply Hni. right. exact Hin.
Qed.

(* ------------------------------------------------------------------ *)
(* The structural invariant                                             *)

(* every guard sits on a context of the same scheme *)
Fixpoint guards_wf (g : list (nat * ectx)) (tab : list (option ectx)) : Prop :=
  match g with
  | [] => True
  | (c, n) :: r => (exists e, cur_in r tab c = Some e /\ ec_tok e = ec_tok n) /\ guards_wf r tab
  end.

Lemma guards_wf_put g tab c e' : forall e,
  guards_wf g tab -> cur_in g tab c = Some e -> ec_tok e' = ec_tok e ->
  guards_wf (fst (put_in g tab c e')) (snd (put_in g tab c e')).
Proof.
  induction g as [|[c1 n1] r IH]; intros e Hwf Hcur Htok; cbn in *; [exact I|].
  destruct Hwf as [[e1 [He1 Ht1]] Hwf].
  destruct (Nat.eqb c c1) eqn:Hc; cbn.
  - split; [|exact Hwf]. exists e1. split; [exact He1|].
    inversion Hcur. subst e. rewrite Htok. exact Ht1.
  - split; [|eapply IH; eassumption].
    exists e1. split; [|exact Ht1].
    rewrite cur_put_other; [exact He1|].
    apply Nat.eqb_neq in Hc. intros Heq. apply Hc. symmetry. exact Heq.
Qed.

Lemma guards_wf_set_nth g tab dst x :
  ~ In dst (map fst g) -> dst < length tab -> guards_wf g tab -> guards_wf g (set_nth tab dst x).
Proof.
  induction g as [|[c1 n1] r IH]; intros Hni Hlt Hwf; cbn in *; [exact I|].
  destruct Hwf as [[e1 [He1 Ht1]] Hwf].
  assert (Hnr : ~ In dst (map fst r)) by (intros Hin; apply Hni; right; exact Hin).
  split; [|apply IH; assumption].
  exists e1. split; [|exact Ht1].
  rewrite cur_set_nth by assumption.
  destruct (Nat.eqb c1 dst) eqn:Hd; [|exact He1].
  apply Nat.eqb_eq in Hd. exfalso. apply Hni. left. exact Hd.
Qed.

Record inv (cf : config) (w : world) : Prop := {
  inv_len : length (w_ctxs w) = length (cf_init cf);
  inv_guards : guards_wf (w_guards w) (w_ctxs w);
  inv_vals : forall c e, cur w c = Some e -> length (ec_vals e) = length (cf_fields cf);
}.

Lemma cur_not_borrowed g tab c : ~ In c (map fst g) -> cur_in g tab c = slot tab c.
Proof.
  induction g as [|[c1 n1] r IH]; intros Hni; cbn in *; [reflexivity|].
  destruct (Nat.eqb c c1) eqn:Hc.
  - apply Nat.eqb_eq in Hc. exfalso. apply Hni. left. symmetry. exact Hc.
  - apply IH. intros Hin. apply Hni. right. exact Hin.
Qed.

(* ---- the two ways a step changes the world ---- *)

(* (A) a write through the name "slot c" that keeps the scheme *)
Lemma put_effect cf w c e e0 :
  length (w_ctxs w) = length (cf_init cf) -> guards_wf (w_guards w) (w_ctxs w) ->
  cur w c = Some e0 -> ec_tok e = ec_tok e0 ->
  length (w_ctxs (put w c e)) = length (cf_init cf) /\
  guards_wf (w_guards (put w c e)) (w_ctxs (put w c e)) /\
  map fst (w_guards (put w c e)) = map fst (w_guards w) /\
  forall c', cur (put w c e) c' = if Nat.eqb c' c then Some e else cur w c'.
Proof.
  intros Hlen Hwf Hcur Htok. unfold put, cur in *. cbn.
  split; [rewrite put_in_length; exact Hlen|].
  split; [eapply guards_wf_put; [exact Hwf|exact Hcur|exact Htok]|].
  split; [apply put_in_fst|].
  intros c'. eapply cur_put. exact Hcur.
Qed.

(* (B) an assignment to a slot of the table that is not borrowed *)
Definition tab_write (w : world) (dst : nat) (x : option ectx) : world :=
  {| w_ctxs := set_nth (w_ctxs w) dst x; w_guards := w_guards w |}.

Lemma tab_write_effect cf w dst x :
  length (w_ctxs w) = length (cf_init cf) -> guards_wf (w_guards w) (w_ctxs w) ->
  borrowed w dst = false -> dst < length (w_ctxs w) ->
  length (w_ctxs (tab_write w dst x)) = length (cf_init cf) /\
  guards_wf (w_guards (tab_write w dst x)) (w_ctxs (tab_write w dst x)) /\
  forall c', cur (tab_write w dst x) c' = if Nat.eqb c' dst then x else cur w c'.
Proof.
  intros Hlen Hwf Hb Hlt. apply borrowed_false_notin in Hb. unfold tab_write, cur. cbn.
  split; [rewrite set_nth_length; exact Hlen|].
  split; [apply guards_wf_set_nth; assumption|].
  intros c'. apply cur_set_nth; assumption.
Qed.

Lemma inv_of_parts cf w :
  length (w_ctxs w) = length (cf_init cf) -> guards_wf (w_guards w) (w_ctxs w) ->
  (forall c e, cur w c = Some e -> length (ec_vals e) = length (cf_fields cf)) -> inv cf w.
Proof. intros H1 H2 H3. constructor; assumption. Qed.

(* vals part of the invariant from a characterisation of [cur] *)
Lemma vals_from_cur cf (w w' : world) c oe :
  (forall c' e, cur w c' = Some e -> length (ec_vals e) = length (cf_fields cf)) ->
  (forall c', cur w' c' = if Nat.eqb c' c then oe else cur w c') ->
  (forall e, oe = Some e -> length (ec_vals e) = length (cf_fields cf)) ->
  forall c' e, cur w' c' = Some e -> length (ec_vals e) = length (cf_fields cf).
Proof.
  intros Hold Hcur Hoe c' e H. rewrite Hcur in H. destruct (Nat.eqb c' c).
  - apply Hoe. exact H.
  - eapply Hold. exact H.
Qed.

Lemma ltb_lt_true a b : Nat.ltb a b = true -> a < b.
Proof. apply Nat.ltb_lt. Qed.

(* what OBorrowBegin does *)
Definition push_guard (w : world) (c : nat) (e : ectx) : world :=
  let w1 := put w c {| ec_tok := ec_tok e; ec_vals := [] |} in
  {| w_ctxs := w_ctxs w1; w_guards := (c, {| ec_tok := ec_tok e; ec_vals := ec_vals e |}) :: w_guards w1 |}.

Lemma push_guard_effect cf w c e :
  inv cf w -> cur w c = Some e ->
  inv cf (push_guard w c e) /\
  map fst (w_guards (push_guard w c e)) = c :: map fst (w_guards w) /\
  (forall c', cur (push_guard w c e) c' = cur w c') /\
  (* the borrowed context itself holds no value while the guard lives *)
  cur_in (tl (w_guards (push_guard w c e))) (w_ctxs (push_guard w c e)) c = Some {| ec_tok := ec_tok e; ec_vals := [] |}.
Proof.
  intros Hinv Hcur.
  destruct (put_effect cf w c {| ec_tok := ec_tok e; ec_vals := [] |} e
              (inv_len _ _ Hinv) (inv_guards _ _ Hinv) Hcur eq_refl) as [Hlen [Hwf [Hfst Hc]]].
  assert (Hcur' : forall c', cur (push_guard w c e) c' = cur w c').
  { intros c'. unfold push_guard. unfold cur at 1. cbn [w_guards w_ctxs cur_in].
    destruct (Nat.eqb c' c) eqn:Hcc.
    - apply Nat.eqb_eq in Hcc. subst c'. rewrite Hcur. destruct e; reflexivity.
    - change (cur (put w c {| ec_tok := ec_tok e; ec_vals := [] |}) c' = cur w c').
      rewrite Hc. rewrite Hcc. reflexivity. }
  assert (Hbelow : cur (put w c {| ec_tok := ec_tok e; ec_vals := [] |}) c = Some {| ec_tok := ec_tok e; ec_vals := [] |}).
  { rewrite Hc. rewrite Nat.eqb_refl. reflexivity. }
  split; [|split; [|split]].
  - apply inv_of_parts.
    + exact Hlen.
    + unfold push_guard. cbn [w_guards w_ctxs guards_wf]. split; [|exact Hwf].
      exists {| ec_tok := ec_tok e; ec_vals := [] |}. split; [exact Hbelow|reflexivity].
    + intros c' e' H. rewrite Hcur' in H. eapply (inv_vals _ _ Hinv). exact H.
  - unfold push_guard. cbn [w_guards map fst]. rewrite Hfst. reflexivity.
  - exact Hcur'.
  - exact Hbelow.
Qed.

(* what OBorrowEnd does *)
Definition pop_guard (w : world) (c : nat) (n : ectx) (r : list (nat * ectx)) (old : ectx) : world :=
  put {| w_ctxs := w_ctxs w; w_guards := r |} c {| ec_tok := ec_tok old; ec_vals := ec_vals n |}.

Lemma pop_guard_effect cf w c n r :
  inv cf w -> w_guards w = (c, n) :: r ->
  exists old,
    cur {| w_ctxs := w_ctxs w; w_guards := r |} c = Some old /\ ec_tok old = ec_tok n /\
    inv cf (pop_guard w c n r old) /\
    map fst (w_guards (pop_guard w c n r old)) = map fst r /\
    (forall c', cur (pop_guard w c n r old) c' = cur w c').
Proof.
  intros Hinv Hg.
  pose proof (inv_guards _ _ Hinv) as Hwf. rewrite Hg in Hwf. cbn in Hwf.
  destruct Hwf as [[old [Hold Htok]] Hwf].
  exists old. split; [exact Hold|]. split; [exact Htok|].
  set (w1 := {| w_ctxs := w_ctxs w; w_guards := r |}).
  destruct (put_effect cf w1 c {| ec_tok := ec_tok old; ec_vals := ec_vals n |} old
              (inv_len _ _ Hinv) Hwf Hold eq_refl) as [Hlen [Hwf' [Hfst Hc]]].
  assert (Hcur' : forall c', cur (pop_guard w c n r old) c' = cur w c').
  { intros c'. unfold pop_guard. fold w1. rewrite Hc.
    unfold cur at 2. rewrite Hg. cbn [cur_in].
    destruct (Nat.eqb c' c) eqn:Hcc.
    - rewrite Htok. destruct n; reflexivity.
    - reflexivity. }
  split; [|split].
  - apply inv_of_parts; [exact Hlen|exact Hwf'|].
    intros c' e' H. rewrite Hcur' in H. eapply (inv_vals _ _ Hinv). exact H.
  - exact Hfst.
  - exact Hcur'.
Qed.

(* ------------------------------------------------------------------ *)
(* Every step is one of six effects                                      *)

Definition op_value (o : op) : option value :=
  match o with OSetByField _ _ _ v | OSetByName _ _ v => Some v | _ => None end.

Definition op_target (o : op) : option nat :=
  match o with OSetByField c _ _ _ | OSetByName c _ _ => Some c | _ => None end.

Inductive effect (cf : config) (w : world) : op -> world -> Prop :=
| EfNone o : effect cf w o w
| EfStore o c e f fd v :
    cur w c = Some e -> nth_error (cf_fields cf) f = Some fd -> f < length (ec_vals e) ->
    ty_eqb (fd_ty fd) (type_of v) = true ->
    op_value o = Some v -> op_target o = Some c ->
    effect cf w o (put w c {| ec_tok := ec_tok e; ec_vals := set_nth (ec_vals e) f (Some v) |})
| EfClear c e :
    cur w c = Some e ->
    effect cf w (OClear c) (put w c {| ec_tok := ec_tok e; ec_vals := map (fun _ => None) (ec_vals e) |})
| EfNew dst h tok :
    nth_error (cf_idents cf) h = Some tok -> borrowed w dst = false -> dst < length (w_ctxs w) ->
    effect cf w (ONew dst h) (tab_write w dst (Some (ctx_new cf tok)))
| EfClone src dst e :
    cur w src = Some e -> borrowed w dst = false -> dst < length (w_ctxs w) ->
    effect cf w (OCloneWith src dst) (tab_write w dst (Some {| ec_tok := ec_tok e; ec_vals := ec_vals e |}))
| EfTake src dst e :
    borrowed w src = false -> slot (w_ctxs w) src = Some e -> borrowed w dst = false -> dst < length (w_ctxs w) ->
    effect cf w (OTakeWith src dst) (tab_write (tab_write w src None) dst (Some e))
| EfBorrow c e :
    cur w c = Some e -> effect cf w (OBorrowBegin c) (push_guard w c e)
| EfDrop c n r old :
    w_guards w = (c, n) :: r -> cur {| w_ctxs := w_ctxs w; w_guards := r |} c = Some old ->
    effect cf w OBorrowEnd (pop_guard w c n r old).

Lemma set_checked_effect cf w c e f fd v o :
  cur w c = Some e -> nth_error (cf_fields cf) f = Some fd ->
  op_value o = Some v -> op_target o = Some c ->
  effect cf w o (fst (set_checked w c e f (fd_ty fd) v)).
Proof.
  intros Hcur Hfd Ho Hot. unfold set_checked.
  destruct (ty_eqb (fd_ty fd) (type_of v)) eqn:Hty; [|apply EfNone].
  destruct (nth_error (ec_vals e) f) eqn:Hn; [|apply EfNone].
  cbn [fst]. eapply EfStore; try eassumption.
  apply nth_error_Some. rewrite Hn. discriminate.
Qed.

Lemma step_effect cf w o : inv cf w -> effect cf w o (fst (step cf w o)).
Proof.
  intros Hinv. destruct o as [dst h|c h f v|c name v|c h f|c|src dst|src dst|c| |c h]; cbn [step].
  - destruct (nth_error (cf_idents cf) h) as [tok|] eqn:Hh; [|apply EfNone].
    destruct (Nat.ltb dst (length (w_ctxs w))) eqn:Hlt; [|apply EfNone].
    destruct (borrowed w dst) eqn:Hb; [apply EfNone|]. cbn [fst].
    apply EfNew; [exact Hh|exact Hb|apply Nat.ltb_lt; exact Hlt].
  - destruct (nth_error (cf_idents cf) h) as [tok|] eqn:Hh; [|apply EfNone].
    destruct (nth_error (cf_fields cf) f) as [fd|] eqn:Hf; [|apply EfNone].
    destruct (cur w c) as [e|] eqn:Hc; [|apply EfNone].
    destruct (Nat.eqb (ec_tok e) tok); [|apply EfNone].
    apply set_checked_effect; [exact Hc|exact Hf|reflexivity|reflexivity].
  - destruct (cur w c) as [e|] eqn:Hc; [|apply EfNone].
    destruct (find_field name (cf_fields cf) 0) as [f|]; [|apply EfNone].
    destruct (nth_error (cf_fields cf) f) as [fd|] eqn:Hf; [|apply EfNone].
    apply set_checked_effect; [exact Hc|exact Hf|reflexivity|reflexivity].
  - destruct (nth_error (cf_idents cf) h); [|apply EfNone].
    destruct (nth_error (cf_fields cf) f); [|apply EfNone].
    destruct (cur w c) as [e|]; [|apply EfNone].
    destruct (Nat.eqb (ec_tok e) n); [|apply EfNone].
    destruct (nth_error (ec_vals e) f); apply EfNone.
  - destruct (cur w c) as [e|] eqn:Hc; [|apply EfNone]. cbn [fst]. apply EfClear. exact Hc.
  - destruct (cur w src) as [e|] eqn:Hc; [|apply EfNone].
    destruct (Nat.ltb dst (length (w_ctxs w))) eqn:Hlt; [|apply EfNone].
    destruct (borrowed w dst) eqn:Hb; [apply EfNone|]. cbn [fst].
    apply EfClone; [exact Hc|exact Hb|apply Nat.ltb_lt; exact Hlt].
  - destruct (borrowed w src) eqn:Hbs; [apply EfNone|].
    destruct (slot (w_ctxs w) src) as [e|] eqn:Hs; [|apply EfNone].
    destruct (Nat.ltb dst (length (w_ctxs w))) eqn:Hlt; [|apply EfNone].
    destruct (borrowed w dst) eqn:Hb; [apply EfNone|]. cbn [fst].
    apply EfTake; [exact Hbs|exact Hs|exact Hb|apply Nat.ltb_lt; exact Hlt].
  - destruct (cur w c) as [e|] eqn:Hc; [|apply EfNone]. cbn [fst].
    apply (EfBorrow cf w c e Hc).
  - destruct (w_guards w) as [|[c n] r] eqn:Hg; [apply EfNone|].
    destruct (pop_guard_effect cf w c n r Hinv Hg) as [old [Hold _]].
    rewrite Hold. cbn [fst]. apply (EfDrop cf w c n r old Hg Hold).
  - destruct (nth_error (cf_idents cf) h); [|apply EfNone].
    destruct (cur w c) as [e|]; [|apply EfNone].
    destruct (Nat.eqb (ec_tok e) n); apply EfNone.
Qed.

Lemma ectx_eta e : {| ec_tok := ec_tok e; ec_vals := ec_vals e |} = e.
Proof. destruct e; reflexivity. Qed.

(* where the content of a visible context comes from after a step *)
Inductive origin (cf : config) (w : world) (o : op) (c : nat) (e' : ectx) : Prop :=
| OrSame : cur w c = Some e' -> origin cf w o c e'
| OrStore e f fd v :
    cur w c = Some e -> nth_error (cf_fields cf) f = Some fd -> f < length (ec_vals e) ->
    ty_eqb (fd_ty fd) (type_of v) = true -> op_value o = Some v ->
    e' = {| ec_tok := ec_tok e; ec_vals := set_nth (ec_vals e) f (Some v) |} -> origin cf w o c e'
| OrClear e :
    cur w c = Some e -> e' = {| ec_tok := ec_tok e; ec_vals := map (fun _ => None) (ec_vals e) |} ->
    origin cf w o c e'
| OrNew tok : e' = ctx_new cf tok -> origin cf w o c e'
| OrCopy src : cur w src = Some e' -> origin cf w o c e'.

Lemma effect_inv_origin cf w o w' :
  inv cf w -> effect cf w o w' ->
  inv cf w' /\ forall c e', cur w' c = Some e' -> origin cf w o c e'.
Proof.
  intros Hinv Hef.
  assert (Hfin : length (w_ctxs w') = length (cf_init cf) -> guards_wf (w_guards w') (w_ctxs w') ->
                 (forall c e', cur w' c = Some e' -> origin cf w o c e') ->
                 inv cf w' /\ forall c e', cur w' c = Some e' -> origin cf w o c e').
  { intros Hl Hg Hor. split; [|exact Hor].
    apply inv_of_parts; [exact Hl|exact Hg|].
    intros c e' Hc. destruct (Hor c e' Hc) as [Hs|e f fd v He Hfd Hf Hty Hv Heq|e He Heq|tok Heq|src Hs].
    - eapply (inv_vals _ _ Hinv). exact Hs.
    - subst e'. cbn. rewrite set_nth_length. eapply (inv_vals _ _ Hinv). exact He.
    - subst e'. cbn. rewrite map_length. eapply (inv_vals _ _ Hinv). exact He.
    - subst e'. cbn. apply repeat_length.
    - eapply (inv_vals _ _ Hinv). exact Hs. }
  destruct Hef as [o|o c e f fd v Hc Hfd Hf Hty Hv Hot|c e Hc|dst h tok Hh Hb Hlt|src dst e Hc Hb Hlt
                  |src dst e Hbs Hs Hb Hlt|c e Hc|c n r old Hg Hold].
  - split; [exact Hinv|]. intros c e' H. apply OrSame. exact H.
  - destruct (put_effect cf w c {| ec_tok := ec_tok e; ec_vals := set_nth (ec_vals e) f (Some v) |} e
                (inv_len _ _ Hinv) (inv_guards _ _ Hinv) Hc eq_refl) as [Hl [Hg [_ Hcur]]].
    apply Hfin; [exact Hl|exact Hg|]. intros c' e' H. rewrite Hcur in H.
    destruct (Nat.eqb c' c) eqn:Hcc.
    + apply Nat.eqb_eq in Hcc. subst c'. inversion H. eapply OrStore; try eassumption. reflexivity.
    + apply OrSame. exact H.
  - destruct (put_effect cf w c {| ec_tok := ec_tok e; ec_vals := map (fun _ => None) (ec_vals e) |} e
                (inv_len _ _ Hinv) (inv_guards _ _ Hinv) Hc eq_refl) as [Hl [Hg [_ Hcur]]].
    apply Hfin; [exact Hl|exact Hg|]. intros c' e' H. rewrite Hcur in H.
    destruct (Nat.eqb c' c) eqn:Hcc.
    + apply Nat.eqb_eq in Hcc. subst c'. inversion H. eapply OrClear; [exact Hc|reflexivity].
    + apply OrSame. exact H.
  - destruct (tab_write_effect cf w dst (Some (ctx_new cf tok)) (inv_len _ _ Hinv) (inv_guards _ _ Hinv) Hb Hlt)
      as [Hl [Hg Hcur]].
    apply Hfin; [exact Hl|exact Hg|]. intros c' e' H. rewrite Hcur in H.
    destruct (Nat.eqb c' dst); [inversion H; eapply OrNew; reflexivity|apply OrSame; exact H].
  - destruct (tab_write_effect cf w dst (Some {| ec_tok := ec_tok e; ec_vals := ec_vals e |})
                (inv_len _ _ Hinv) (inv_guards _ _ Hinv) Hb Hlt) as [Hl [Hg Hcur]].
    apply Hfin; [exact Hl|exact Hg|]. intros c' e' H. rewrite Hcur in H.
    destruct (Nat.eqb c' dst); [|apply OrSame; exact H].
    inversion H. rewrite ectx_eta. apply (OrCopy cf w _ c' e src). exact Hc.
  - assert (Hlts : src < length (w_ctxs w)) by (eapply slot_some_lt; exact Hs).
    destruct (tab_write_effect cf w src None (inv_len _ _ Hinv) (inv_guards _ _ Hinv) Hbs Hlts) as [Hl1 [Hg1 Hcur1]].
    assert (Hlt2 : dst < length (w_ctxs (tab_write w src None))).
    { unfold tab_write. cbn. rewrite set_nth_length. exact Hlt. }
    destruct (tab_write_effect cf (tab_write w src None) dst (Some e) Hl1 Hg1 Hb Hlt2) as [Hl [Hg Hcur]].
    apply Hfin; [exact Hl|exact Hg|]. intros c' e' H. rewrite Hcur in H.
    destruct (Nat.eqb c' dst).
    + inversion H. subst e'. apply (OrCopy cf w _ c' e src).
      unfold cur. rewrite cur_not_borrowed; [exact Hs|]. apply borrowed_false_notin. exact Hbs.
    + rewrite Hcur1 in H. destruct (Nat.eqb c' src); [discriminate|]. apply OrSame. exact H.
  - destruct (push_guard_effect cf w c e Hinv Hc) as [Hi [_ [Hcur _]]].
    split; [exact Hi|]. intros c' e' H. rewrite Hcur in H. apply OrSame. exact H.
  - destruct (pop_guard_effect cf w c n r Hinv Hg) as [old' [Hold' [_ [Hi [_ Hcur]]]]].
    rewrite Hold in Hold'. inversion Hold'. subst old'.
    split; [exact Hi|]. intros c' e' H. rewrite Hcur in H. apply OrSame. exact H.
Qed.

Lemma inv_init cf : inv cf (init cf).
Proof.
  apply inv_of_parts.
  - unfold init. cbn. apply map_length.
  - exact I.
  - intros c e H. unfold cur, init in H. cbn in H. unfold slot in H.
    rewrite nth_error_map in H.
    destruct (nth_error (cf_init cf) c) as [[h|]|]; cbn in H; try discriminate.
    destruct (nth_error (cf_idents cf) h); cbn in H; [|discriminate].
    inversion H. cbn. apply repeat_length.
Qed.

Lemma inv_step cf w o : inv cf w -> inv cf (fst (step cf w o)).
Proof. intros H. exact (proj1 (effect_inv_origin cf w o _ H (step_effect cf w o H))). Qed.

Lemma inv_run cf ops : forall w, inv cf w -> inv cf (fst (run_from cf w ops)).
Proof.
  induction ops as [|o r IH]; intros w H; cbn; [exact H|].
  apply IH. apply inv_step. exact H.
Qed.

(* ------------------------------------------------------------------ *)
(* Well-typedness of everything stored, over all histories               *)

Definition stored_ok (fds : list field_def) (vals : list (option value)) : Prop :=
  forall f v, nth_error vals f = Some (Some v) ->
              exists fd, nth_error fds f = Some fd /\ has_type v (fd_ty fd) = true.

Definition typed (cf : config) (w : world) : Prop :=
  forall c e, cur w c = Some e -> stored_ok (cf_fields cf) (ec_vals e).

Lemma stored_ok_none n fds : stored_ok fds (repeat None n).
Proof.
  intros f v H. apply nth_error_In in H. apply repeat_spec in H. discriminate.
Qed.

Lemma stored_ok_cleared fds (vals : list (option value)) : stored_ok fds (map (fun _ => None) vals).
Proof.
  intros f v H. rewrite nth_error_map in H. destruct (nth_error vals f); cbn in H; discriminate.
Qed.

Lemma stored_ok_set fds vals f fd v :
  stored_ok fds vals -> nth_error fds f = Some fd -> has_type v (fd_ty fd) = true ->
  stored_ok fds (set_nth vals f (Some v)).
Proof.
  intros Hok Hfd Hty f' v' H.
  destruct (Nat.eq_dec f f') as [Heq|Hne].
  - subst f'. destruct (Nat.lt_ge_cases f (length vals)) as [Hlt|Hge].
    + rewrite nth_error_set_nth_eq in H by exact Hlt. inversion H. subst v'. exists fd. split; assumption.
    + assert (Hn : nth_error (set_nth vals f (Some v)) f = None).
      { apply nth_error_None. rewrite set_nth_length. exact Hge. }
      rewrite Hn in H. discriminate.
  - rewrite nth_error_set_nth_neq in H by exact Hne. apply Hok. exact H.
Qed.

Lemma typed_init cf : typed cf (init cf).
Proof.
  intros c e H. unfold cur, init in H. cbn in H. unfold slot in H. rewrite nth_error_map in H.
  destruct (nth_error (cf_init cf) c) as [[h|]|]; cbn in H; try discriminate.
  destruct (nth_error (cf_idents cf) h); cbn in H; [|discriminate].
  inversion H. cbn. apply stored_ok_none.
Qed.

Lemma typed_step cf w o :
  inv cf w -> typed cf w -> op_wf o = true -> typed cf (fst (step cf w o)).
Proof.
  intros Hinv Hty Hwf c e' Hc.
  destruct (effect_inv_origin cf w o _ Hinv (step_effect cf w o Hinv)) as [_ Hor].
  destruct (Hor c e' Hc) as [Hs|e f fd v He Hfd Hf Hteq Hv Heq|e He Heq|tok Heq|src Hs].
  - eapply Hty. exact Hs.
  - subst e'. cbn. eapply stored_ok_set; [eapply Hty; exact He|exact Hfd|].
    unfold has_type. rewrite ty_eqb_sym. rewrite Hteq. cbn.
    destruct o; cbn in Hv; try discriminate; inversion Hv; subst; exact Hwf.
  - subst e'. cbn. apply stored_ok_cleared.
  - subst e'. cbn. apply stored_ok_none.
  - eapply Hty. exact Hs.
Qed.

Lemma typed_run cf ops : forall w,
  inv cf w -> typed cf w -> forallb op_wf ops = true -> typed cf (fst (run_from cf w ops)).
Proof.
  induction ops as [|o r IH]; intros w Hinv Hty Hwf; cbn; [exact Hty|].
  cbn in Hwf. apply andb_true_iff in Hwf. destruct Hwf as [Ho Hr].
  apply IH; [apply inv_step; exact Hinv|apply typed_step; assumption|exact Hr].
Qed.

(* After any history whose offered values were built by the checked
   constructors, every context the program can name has one slot per field and
   every stored value has the declared full nested type. *)
Theorem ctx_inv_well_typed_proof : forall cf ops,
  forallb op_wf ops = true ->
  forall c e, cur (fst (run_from cf (init cf) ops)) c = Some e ->
    length (ec_vals e) = length (cf_fields cf) /\ stored_ok (cf_fields cf) (ec_vals e).
Proof.
  intros cf ops Hwf c e H. split.
  - eapply (inv_vals _ _ (inv_run cf ops _ (inv_init cf))). exact H.
  - eapply (typed_run cf ops _ (inv_init cf) (typed_init cf) Hwf). exact H.
Qed.

(* Connection with Spec/Typing.v: this is [slots_ok] minus the clause that
   mandatory fields are set. *)
Lemma stored_ok_tail fd fds o vals : stored_ok (fd :: fds) (o :: vals) -> stored_ok fds vals.
Proof. intros H f v Hn. apply (H (S f) v). exact Hn. Qed.

Lemma slots_ok_of_stored : forall fds vals,
  length vals = length fds -> stored_ok fds vals ->
  (forall f fd, nth_error fds f = Some fd -> nth_error vals f = Some None -> fd_optional fd = true) ->
  slots_ok fds vals = true.
Proof.
  induction fds as [|fd fds IH]; intros vals Hlen Hok Hopt; destruct vals as [|o vals]; cbn in Hlen; try discriminate;
    [reflexivity|].
  cbn [slots_ok]. apply andb_true_iff. split.
  - destruct o as [v|]; cbn.
    + destruct (Hok 0 v eq_refl) as [fd' [Hfd Hty]]. cbn in Hfd. inversion Hfd. subst fd'. exact Hty.
    + apply (Hopt 0 fd); reflexivity.
  - apply IH; [lia|eapply stored_ok_tail; exact Hok|].
    intros f fd' Hf Hn. apply (Hopt (S f) fd'); assumption.
Qed.

Lemma stored_of_slots_ok : forall fds vals, slots_ok fds vals = true -> stored_ok fds vals.
Proof.
  induction fds as [|fd fds IH]; intros vals H; destruct vals as [|o vals]; cbn in H; try discriminate.
  - intros f v Hn. destruct f; discriminate.
  - apply andb_true_iff in H. destruct H as [Hs Hr]. intros f v Hn. destruct f as [|f]; cbn in Hn.
    + inversion Hn. subst o. exists fd. split; [reflexivity|exact Hs].
    + apply (IH vals Hr f v Hn).
Qed.

(* ------------------------------------------------------------------ *)
(* Refinement: the model behaves as the abstract typed map               *)

Definition rel_ctx (cf : config) (oe : option ectx) (ox : option actx) : Prop :=
  match oe, ox with
  | Some e, Some x =>
      ec_tok e = ac_scheme x /\
      forall f, f < length (cf_fields cf) -> nth_error (ec_vals e) f = Some (ac_map x f)
  | None, None => True
  | _, _ => False
  end.

Record sim (cf : config) (w : world) (a : astate) : Prop := {
  sim_inv : inv cf w;
  sim_borrowed : map fst (w_guards w) = a_borrowed a;
  sim_ctx : forall c, rel_ctx cf (cur w c) (a_ctx a c);
}.

Lemma sim_is_borrowed cf w a c : sim cf w a -> borrowed w c = is_borrowed a c.
Proof. intros H. unfold borrowed, is_borrowed. rewrite (sim_borrowed _ _ _ H). reflexivity. Qed.

Lemma sim_is_slot cf w a c : sim cf w a -> Nat.ltb c (length (w_ctxs w)) = is_slot cf c.
Proof. intros H. unfold is_slot. rewrite (inv_len _ _ (sim_inv _ _ _ H)). reflexivity. Qed.

Lemma find_field_seq name : forall fds pre,
  find_field name fds (length pre) =
  find (fun i => match nth_error (pre ++ fds) i with Some fd => bytes_eqb name (fd_name fd) | None => false end)
       (seq (length pre) (length fds)).
Proof.
  induction fds as [|fd r IH]; intros pre; cbn [find_field length seq find]; [reflexivity|].
  rewrite nth_error_app2 by lia. rewrite Nat.sub_diag. cbn [nth_error].
  destruct (bytes_eqb name (fd_name fd)); [reflexivity|].
  specialize (IH (pre ++ [fd])). rewrite app_length in IH. cbn [length] in IH.
  rewrite Nat.add_1_r in IH. rewrite IH. rewrite <- app_assoc. reflexivity.
Qed.

Lemma find_field_called fds name : find_field name fds 0 = field_called fds name.
Proof. exact (find_field_seq name fds []). Qed.

Lemma rel_upd cf (w w' : world) (a : astate) c oe ox :
  (forall c', rel_ctx cf (cur w c') (a_ctx a c')) ->
  (forall c', cur w' c' = if Nat.eqb c' c then oe else cur w c') ->
  rel_ctx cf oe ox ->
  forall c', rel_ctx cf (cur w' c') (a_ctx (a_set_ctx a c ox) c').
Proof.
  intros Hrel Hcur Hnew c'. rewrite Hcur. unfold a_set_ctx, upd. cbn [a_ctx].
  destruct (Nat.eqb c' c); [exact Hnew|apply Hrel].
Qed.

Lemma rel_len cf e x : rel_ctx cf (Some e) (Some x) -> length (cf_fields cf) <= length (ec_vals e).
Proof.
  intros [_ H]. destruct (Nat.le_gt_cases (length (cf_fields cf)) (length (ec_vals e))) as [Hle|Hgt]; [exact Hle|].
  specialize (H (length (ec_vals e)) Hgt).
  assert (Hn : nth_error (ec_vals e) (length (ec_vals e)) = None) by (apply nth_error_None; lia).
  rewrite Hn in H. discriminate.
Qed.

(* a write through a name *)
Lemma sim_put cf w a c e e' x' :
  sim cf w a -> cur w c = Some e -> ec_tok e' = ec_tok e ->
  length (ec_vals e') = length (cf_fields cf) ->
  rel_ctx cf (Some e') (Some x') ->
  sim cf (put w c e') (a_set_ctx a c (Some x')).
Proof.
  intros Hs Hc Htok Hlen Hrel.
  pose proof (sim_inv _ _ _ Hs) as Hinv.
  destruct (put_effect cf w c e' e (inv_len _ _ Hinv) (inv_guards _ _ Hinv) Hc Htok) as [Hl [Hg [Hfst Hcur]]].
  constructor.
  - apply inv_of_parts; [exact Hl|exact Hg|].
    eapply vals_from_cur; [apply (inv_vals _ _ Hinv)|exact Hcur|]. intros e0 He0. inversion He0. subst e0. exact Hlen.
  - rewrite Hfst. apply (sim_borrowed _ _ _ Hs).
  - eapply rel_upd; [apply (sim_ctx _ _ _ Hs)|exact Hcur|exact Hrel].
Qed.

(* an assignment to a slot that is not borrowed *)
Lemma sim_tab cf w a dst oe ox :
  sim cf w a -> borrowed w dst = false -> dst < length (w_ctxs w) ->
  (forall e, oe = Some e -> length (ec_vals e) = length (cf_fields cf)) ->
  rel_ctx cf oe ox ->
  sim cf (tab_write w dst oe) (a_set_ctx a dst ox).
Proof.
  intros Hs Hb Hlt Hlen Hrel.
  pose proof (sim_inv _ _ _ Hs) as Hinv.
  destruct (tab_write_effect cf w dst oe (inv_len _ _ Hinv) (inv_guards _ _ Hinv) Hb Hlt) as [Hl [Hg Hcur]].
  constructor.
  - apply inv_of_parts; [exact Hl|exact Hg|].
    eapply vals_from_cur; [apply (inv_vals _ _ Hinv)|exact Hcur|exact Hlen].
  - apply (sim_borrowed _ _ _ Hs).
  - eapply rel_upd; [apply (sim_ctx _ _ _ Hs)|exact Hcur|exact Hrel].
Qed.

Lemma rel_new cf tok : rel_ctx cf (Some (ctx_new cf tok)) (Some {| ac_scheme := tok; ac_map := empty_map |}).
Proof.
  split; [reflexivity|]. intros f Hf. cbn. unfold empty_map.
  apply nth_error_repeat. exact Hf.
Qed.

Lemma sim_init cf : sim cf (init cf) (a_init cf).
Proof.
  constructor; [apply inv_init|reflexivity|].
  intros c. unfold cur, init, a_init. cbn. unfold slot. rewrite nth_error_map.
  destruct (nth_error (cf_init cf) c) as [[h|]|]; cbn; try exact I.
  destruct (nth_error (cf_idents cf) h) as [tok|]; cbn; [apply rel_new|exact I].
Qed.

Lemma store_sim cf w a c e x f fd v :
  sim cf w a -> cur w c = Some e -> a_ctx a c = Some x -> nth_error (cf_fields cf) f = Some fd ->
  value_wf v = true ->
  sim cf (fst (set_checked w c e f (fd_ty fd) v)) (fst (a_store a c x f (fd_ty fd) v)) /\
  snd (set_checked w c e f (fd_ty fd) v) = snd (a_store a c x f (fd_ty fd) v).
Proof.
  intros Hs Hc Hx Hfd Hwf.
  pose proof (sim_ctx _ _ _ Hs c) as Hrel. rewrite Hc, Hx in Hrel.
  assert (Hf : f < length (cf_fields cf)) by (apply nth_error_Some; rewrite Hfd; discriminate).
  destruct Hrel as [Htok Hvals].
  unfold set_checked, a_store, has_type. rewrite (ty_eqb_sym (type_of v)). rewrite Hwf. rewrite andb_true_r.
  destruct (ty_eqb (fd_ty fd) (type_of v)); [|split; [exact Hs|reflexivity]].
  rewrite (Hvals f Hf). cbn [fst snd]. split; [|reflexivity].
  assert (Hlt : f < length (ec_vals e)) by (apply nth_error_Some; rewrite (Hvals f Hf); discriminate).
  apply (sim_put cf w a c e); [exact Hs|exact Hc|reflexivity| |].
  - cbn. rewrite set_nth_length. eapply (inv_vals _ _ (sim_inv _ _ _ Hs)). exact Hc.
  - split; [exact Htok|]. intros f' Hf'. cbn. unfold upd.
    destruct (Nat.eqb f' f) eqn:Hff.
    + apply Nat.eqb_eq in Hff. subst f'. apply nth_error_set_nth_eq. exact Hlt.
    + apply Nat.eqb_neq in Hff. rewrite nth_error_set_nth_neq; [apply Hvals; exact Hf'|].
      intros Heq. apply Hff. symmetry. exact Heq.
Qed.

Ltac rel_at Hs c e x Hc Hx Hrel :=
  pose proof (sim_ctx _ _ _ Hs c) as Hrel; unfold rel_ctx in Hrel;
  destruct (cur _ c) as [e|] eqn:Hc; destruct (a_ctx _ c) as [x|] eqn:Hx; try contradiction.

Lemma sim_step cf w a o :
  sim cf w a -> op_wf o = true ->
  sim cf (fst (step cf w o)) (fst (a_step cf a o)) /\ snd (step cf w o) = snd (a_step cf a o).
Proof.
  intros Hs Hwf. pose proof (sim_inv _ _ _ Hs) as Hinv.
  destruct o as [dst h|c h f v|c name v|c h f|c|src dst|src dst|c| |c h]; cbn [step a_step].
  - (* new *)
    destruct (nth_error (cf_idents cf) h) as [tok|]; [|split; [exact Hs|reflexivity]].
    rewrite (sim_is_slot cf w a dst Hs). rewrite (sim_is_borrowed cf w a dst Hs).
    destruct (is_slot cf dst) eqn:Hsl; cbn [negb]; [|split; [exact Hs|reflexivity]].
    destruct (is_borrowed a dst) eqn:Hb; [split; [exact Hs|reflexivity]|].
    cbn [fst snd]. split; [|reflexivity].
    apply (sim_tab cf w a dst (Some (ctx_new cf tok))).
    + exact Hs.
    + rewrite (sim_is_borrowed cf w a dst Hs). exact Hb.
    + apply Nat.ltb_lt. rewrite (sim_is_slot cf w a dst Hs). exact Hsl.
    + intros e He. inversion He. cbn. apply repeat_length.
    + apply rel_new.
  - (* set by field *)
    destruct (nth_error (cf_idents cf) h) as [tok|]; [|split; [exact Hs|reflexivity]].
    destruct (nth_error (cf_fields cf) f) as [fd|] eqn:Hfd; [|split; [exact Hs|reflexivity]].
    rel_at Hs c e x Hc Hx Hrel; [|split; [exact Hs|reflexivity]].
    destruct Hrel as [Htok _]. rewrite <- Htok. rewrite (Nat.eqb_sym tok).
    destruct (Nat.eqb (ec_tok e) tok); [|split; [exact Hs|reflexivity]].
    apply store_sim; assumption.
  - (* set by name *)
    rel_at Hs c e x Hc Hx Hrel; [|split; [exact Hs|reflexivity]].
    rewrite find_field_called.
    destruct (field_called (cf_fields cf) name) as [f|]; [|split; [exact Hs|reflexivity]].
    destruct (nth_error (cf_fields cf) f) as [fd|] eqn:Hfd; [|split; [exact Hs|reflexivity]].
    apply store_sim; assumption.
  - (* get *)
    destruct (nth_error (cf_idents cf) h) as [tok|]; [|split; [exact Hs|reflexivity]].
    destruct (nth_error (cf_fields cf) f) as [fd|] eqn:Hfd; [|split; [exact Hs|reflexivity]].
    rel_at Hs c e x Hc Hx Hrel; [|split; [exact Hs|reflexivity]].
    destruct Hrel as [Htok Hvals]. rewrite <- Htok. rewrite (Nat.eqb_sym tok).
    destruct (Nat.eqb (ec_tok e) tok); [|split; [exact Hs|reflexivity]].
    assert (Hf : f < length (cf_fields cf)) by (apply nth_error_Some; rewrite Hfd; discriminate).
    rewrite (Hvals f Hf). split; [exact Hs|reflexivity].
  - (* clear *)
    rel_at Hs c e x Hc Hx Hrel; [|split; [exact Hs|reflexivity]].
    destruct Hrel as [Htok Hvals]. cbn [fst snd]. split; [|reflexivity].
    apply (sim_put cf w a c e); [exact Hs|exact Hc|reflexivity| |].
    + cbn. rewrite map_length. eapply (inv_vals _ _ Hinv). exact Hc.
    + split; [exact Htok|]. intros f Hf. cbn. rewrite nth_error_map. rewrite (Hvals f Hf). reflexivity.
  - (* clone_with *)
    rel_at Hs src e x Hc Hx Hrel; [|split; [exact Hs|reflexivity]].
    rewrite (sim_is_slot cf w a dst Hs). rewrite (sim_is_borrowed cf w a dst Hs).
    destruct (is_slot cf dst) eqn:Hsl; cbn [negb]; [|split; [exact Hs|reflexivity]].
    destruct (is_borrowed a dst) eqn:Hb; [split; [exact Hs|reflexivity]|].
    cbn [fst snd]. split; [|reflexivity].
    apply (sim_tab cf w a dst (Some {| ec_tok := ec_tok e; ec_vals := ec_vals e |}) (Some x)).
    + exact Hs.
    + rewrite (sim_is_borrowed cf w a dst Hs). exact Hb.
    + apply Nat.ltb_lt. rewrite (sim_is_slot cf w a dst Hs). exact Hsl.
    + intros e0 He0. inversion He0. cbn. eapply (inv_vals _ _ Hinv). exact Hc.
    + exact Hrel.
  - (* take_with *)
    rewrite (sim_is_borrowed cf w a src Hs).
    destruct (is_borrowed a src) eqn:Hbs; [split; [exact Hs|reflexivity]|].
    assert (Hbs' : borrowed w src = false) by (rewrite (sim_is_borrowed cf w a src Hs); exact Hbs).
    assert (Hcs : cur w src = slot (w_ctxs w) src).
    { unfold cur. apply cur_not_borrowed. apply borrowed_false_notin. exact Hbs'. }
    rewrite <- Hcs.
    rel_at Hs src e x Hc Hx Hrel; [|split; [exact Hs|reflexivity]].
    rewrite (sim_is_slot cf w a dst Hs). rewrite (sim_is_borrowed cf w a dst Hs).
    destruct (is_slot cf dst) eqn:Hsl; cbn [negb]; [|split; [exact Hs|reflexivity]].
    destruct (is_borrowed a dst) eqn:Hb; [split; [exact Hs|reflexivity]|].
    cbn [fst snd]. split; [|reflexivity].
    assert (Hlts : src < length (w_ctxs w)) by (eapply slot_some_lt; symmetry; exact Hcs).
    assert (Hs1 : sim cf (tab_write w src None) (a_set_ctx a src None)).
    { apply sim_tab; [exact Hs|exact Hbs'|exact Hlts|intros e0 He0; discriminate|exact I]. }
    apply (sim_tab cf (tab_write w src None) (a_set_ctx a src None) dst (Some e) (Some x)).
    + exact Hs1.
    + unfold borrowed, tab_write. cbn [w_guards]. fold (borrowed w dst).
      rewrite (sim_is_borrowed cf w a dst Hs). exact Hb.
    + unfold tab_write. cbn [w_ctxs]. rewrite set_nth_length.
      apply Nat.ltb_lt. rewrite (sim_is_slot cf w a dst Hs). exact Hsl.
    + intros e0 He0. inversion He0. subst e0. eapply (inv_vals _ _ Hinv). exact Hc.
    + exact Hrel.
  - (* borrow_with *)
    rel_at Hs c e x Hc Hx Hrel; [|split; [exact Hs|reflexivity]].
    cbn [fst snd]. split; [|reflexivity].
    destruct (push_guard_effect cf w c e Hinv Hc) as [Hi [Hfst [Hcur _]]].
    constructor.
    + exact Hi.
    + unfold push_guard in Hfst. rewrite Hfst. cbn [a_borrowed]. rewrite (sim_borrowed _ _ _ Hs). reflexivity.
    + intros c'. cbn [a_ctx]. change (rel_ctx cf (cur (push_guard w c e) c') (a_ctx a c')).
      rewrite Hcur. apply (sim_ctx _ _ _ Hs).
  - (* drop of the guard *)
    pose proof (sim_borrowed _ _ _ Hs) as Hb.
    destruct (w_guards w) as [|[c n] r] eqn:Hg; destruct (a_borrowed a) as [|c0 r0] eqn:Ha; cbn in Hb; try discriminate.
    + split; [exact Hs|reflexivity].
    + destruct (pop_guard_effect cf w c n r Hinv Hg) as [old [Hold [_ [Hi [Hfst Hcur]]]]].
      rewrite Hold. cbn [fst snd]. split; [|reflexivity].
      constructor.
      * exact Hi.
      * unfold pop_guard in Hfst. rewrite Hfst. cbn [a_borrowed]. inversion Hb. reflexivity.
      * intros c'. cbn [a_ctx]. change (rel_ctx cf (cur (pop_guard w c n r old) c') (a_ctx a c')).
        rewrite Hcur. apply (sim_ctx _ _ _ Hs).
  - (* execute *)
    destruct (nth_error (cf_idents cf) h) as [tok|]; [|split; [exact Hs|reflexivity]].
    rel_at Hs c e x Hc Hx Hrel; [|split; [exact Hs|reflexivity]].
    destruct Hrel as [Htok _]. rewrite <- Htok. rewrite (Nat.eqb_sym tok).
    destruct (Nat.eqb (ec_tok e) tok); split; try exact Hs; reflexivity.
Qed.

Lemma sim_run cf ops : forall w a,
  sim cf w a -> forallb op_wf ops = true -> snd (run_from cf w ops) = a_run_from cf a ops.
Proof.
  induction ops as [|o r IH]; intros w a Hs Hwf; cbn; [reflexivity|].
  cbn in Hwf. apply andb_true_iff in Hwf. destruct Hwf as [Ho Hr].
  destruct (sim_step cf w a o Hs Ho) as [Hs' Hobs].
  rewrite Hobs. f_equal. apply IH; assumption.
Qed.

(* For every operation sequence from the initial world the observations of
   the model are those of the abstract typed map. *)
Theorem ctx_refines_typed_map_proof : forall cf ops,
  forallb op_wf ops = true -> run cf ops = a_run cf ops.
Proof. intros cf ops Hwf. unfold run, a_run. apply sim_run; [apply sim_init|exact Hwf]. Qed.

(* ---- failed operations change nothing; a set returns the previous value ---- *)

Theorem failed_set_changes_nothing : forall cf w o err,
  snd (step cf w o) = ObErr err -> fst (step cf w o) = w.
Proof.
  intros cf w o err H.
  destruct o as [dst h|c h f v|c name v|c h f|c|src dst|src dst|c| |c h]; cbn [step] in *;
    repeat match goal with
           | |- context [match ?t with _ => _ end] => destruct t eqn:?; cbn [fst snd] in *; try reflexivity; try discriminate
           end;
    unfold set_checked in *;
    repeat match goal with
           | |- context [match ?t with _ => _ end] => destruct t eqn:?; cbn [fst snd] in *; try reflexivity; try discriminate
           | H : context [match ?t with _ => _ end] |- _ => destruct t eqn:?; cbn [fst snd] in *; try reflexivity; try discriminate
           end.
Qed.

Theorem set_returns_previous : forall cf w c h f v w1 old,
  inv cf w -> step cf w (OSetByField c h f v) = (w1, ObPrev old) ->
  snd (step cf w (OGet c h f)) = ObVal old /\ snd (step cf w1 (OGet c h f)) = ObVal (Some v).
Proof.
  intros cf w c h f v w1 old Hinv H. cbn [step] in *.
  destruct (nth_error (cf_idents cf) h) as [tok|]; [|inversion H].
  destruct (nth_error (cf_fields cf) f) as [fd|]; [|inversion H].
  destruct (cur w c) as [e|] eqn:Hc; [|inversion H].
  destruct (Nat.eqb (ec_tok e) tok) eqn:Htok; [|inversion H].
  unfold set_checked in H. destruct (ty_eqb (fd_ty fd) (type_of v)); [|inversion H].
  destruct (nth_error (ec_vals e) f) as [o'|] eqn:Hn; [|inversion H].
  inversion H. subst o'. split; [reflexivity|].
  destruct (put_effect cf w c {| ec_tok := ec_tok e; ec_vals := set_nth (ec_vals e) f (Some v) |} e
              (inv_len _ _ Hinv) (inv_guards _ _ Hinv) Hc eq_refl) as [_ [_ [_ Hcur]]].
  rewrite Hcur. rewrite Nat.eqb_refl. cbn [ec_tok ec_vals]. rewrite Htok.
  rewrite nth_error_set_nth_eq; [reflexivity|]. apply nth_error_Some. rewrite Hn. discriminate.
Qed.

(* ---- frame: an operation only changes the contexts it names as targets ---- *)

Definition writes (o : op) (c : nat) : bool :=
  match o with
  | ONew d _ | OCloneWith _ d => Nat.eqb c d
  | OSetByField c' _ _ _ | OSetByName c' _ _ | OClear c' => Nat.eqb c c'
  | OTakeWith s d => Nat.eqb c s || Nat.eqb c d
  | _ => false
  end.

Lemma step_frame cf w o c : inv cf w -> writes o c = false -> cur (fst (step cf w o)) c = cur w c.
Proof.
  intros Hinv Hw. pose proof (step_effect cf w o Hinv) as Hef.
  destruct Hef as [o|o c0 e f fd v Hc Hfd Hf Hty Hv Hot|c0 e Hc|dst h tok Hh Hb Hlt|src dst e Hc Hb Hlt
                  |src dst e Hbs Hs Hb Hlt|c0 e Hc|c0 n r old Hg Hold].
  - reflexivity.
  - destruct (put_effect cf w c0 {| ec_tok := ec_tok e; ec_vals := set_nth (ec_vals e) f (Some v) |} e
                (inv_len _ _ Hinv) (inv_guards _ _ Hinv) Hc eq_refl) as [_ [_ [_ Hcur]]].
    rewrite Hcur. destruct o; cbn in Hot; try discriminate; inversion Hot; subst; cbn in Hw; rewrite Hw; reflexivity.
  - destruct (put_effect cf w c0 {| ec_tok := ec_tok e; ec_vals := map (fun _ => None) (ec_vals e) |} e
                (inv_len _ _ Hinv) (inv_guards _ _ Hinv) Hc eq_refl) as [_ [_ [_ Hcur]]].
    rewrite Hcur. cbn in Hw. rewrite Hw. reflexivity.
  - destruct (tab_write_effect cf w dst (Some (ctx_new cf tok)) (inv_len _ _ Hinv) (inv_guards _ _ Hinv) Hb Hlt)
      as [_ [_ Hcur]].
    rewrite Hcur. cbn in Hw. rewrite Hw. reflexivity.
  - destruct (tab_write_effect cf w dst (Some {| ec_tok := ec_tok e; ec_vals := ec_vals e |})
                (inv_len _ _ Hinv) (inv_guards _ _ Hinv) Hb Hlt) as [_ [_ Hcur]].
    rewrite Hcur. cbn in Hw. rewrite Hw. reflexivity.
  - assert (Hlts : src < length (w_ctxs w)) by (eapply slot_some_lt; exact Hs).
    destruct (tab_write_effect cf w src None (inv_len _ _ Hinv) (inv_guards _ _ Hinv) Hbs Hlts) as [Hl1 [Hg1 Hcur1]].
    assert (Hlt2 : dst < length (w_ctxs (tab_write w src None))).
    { unfold tab_write. cbn. rewrite set_nth_length. exact Hlt. }
    destruct (tab_write_effect cf (tab_write w src None) dst (Some e) Hl1 Hg1 Hb Hlt2) as [_ [_ Hcur]].
    rewrite Hcur, Hcur1. cbn in Hw. apply orb_false_iff in Hw. destruct Hw as [Hw1 Hw2].
    rewrite Hw1, Hw2. reflexivity.
  - destruct (push_guard_effect cf w c0 e Hinv Hc) as [_ [_ [Hcur _]]]. apply Hcur.
  - destruct (pop_guard_effect cf w c0 n r Hinv Hg) as [old' [Hold' [_ [_ [_ Hcur]]]]].
    rewrite Hold in Hold'. inversion Hold'. subst old'. apply Hcur.
Qed.

Lemma run_frame cf c ops : forall w,
  inv cf w -> forallb (fun o => negb (writes o c)) ops = true -> cur (fst (run_from cf w ops)) c = cur w c.
Proof.
  induction ops as [|o r IH]; intros w Hinv Hw; cbn; [reflexivity|].
  cbn in Hw. apply andb_true_iff in Hw. destruct Hw as [Ho Hr].
  rewrite IH; [|apply inv_step; exact Hinv|exact Hr].
  apply step_frame; [exact Hinv|]. apply negb_true_iff. exact Ho.
Qed.

(* A clone starts equal to its source; afterwards, whatever is done to the
   one (or to anything else) never shows in the other. *)
Theorem clone_independent_proof : forall cf w src dst w1,
  inv cf w -> step cf w (OCloneWith src dst) = (w1, ObOk) -> src <> dst ->
  (exists e, cur w src = Some e /\ cur w1 src = Some e /\ cur w1 dst = Some e) /\
  forall c ops, c = src \/ c = dst ->
    forallb (fun o => negb (writes o c)) ops = true ->
    cur (fst (run_from cf w1 ops)) c = cur w1 c.
Proof.
  intros cf w src dst w1 Hinv H Hne.
  assert (Hinv1 : inv cf w1).
  { replace w1 with (fst (step cf w (OCloneWith src dst))) by (rewrite H; reflexivity). apply inv_step. exact Hinv. }
  split.
  - cbn [step] in H. destruct (cur w src) as [e|] eqn:Hc; [|inversion H].
    destruct (Nat.ltb dst (length (w_ctxs w))) eqn:Hlt; [|inversion H].
    destruct (borrowed w dst) eqn:Hb; [inversion H|].
    inversion H as [Hw1]. exists e. split; [reflexivity|].
    apply Nat.ltb_lt in Hlt.
    destruct (tab_write_effect cf w dst (Some {| ec_tok := ec_tok e; ec_vals := ec_vals e |})
                (inv_len _ _ Hinv) (inv_guards _ _ Hinv) Hb Hlt) as [_ [_ Hcur]].
    unfold tab_write in Hcur. split.
    + rewrite Hcur. apply Nat.eqb_neq in Hne. rewrite Hne. exact Hc.
    + rewrite Hcur. rewrite Nat.eqb_refl. rewrite ectx_eta. reflexivity.
  - intros c ops _ Hw. apply run_frame; assumption.
Qed.

(* Borrowing moves the values into the guard and leaves the original empty;
   the name of the slot then denotes the guard, so every read and write in
   between acts on the guard's state; dropping the guard moves that state back:
   no visible context changes at either end. *)
Theorem guard_writes_through_proof : forall cf w, inv cf w ->
  (forall c w1, step cf w (OBorrowBegin c) = (w1, ObOk) ->
     exists e, cur w c = Some e /\
       (forall c', cur w1 c' = cur w c') /\
       map fst (w_guards w1) = c :: map fst (w_guards w) /\
       cur_in (tl (w_guards w1)) (w_ctxs w1) c = Some {| ec_tok := ec_tok e; ec_vals := [] |}) /\
  (forall w1, step cf w OBorrowEnd = (w1, ObOk) ->
     (forall c', cur w1 c' = cur w c') /\ map fst (w_guards w1) = tl (map fst (w_guards w))).
Proof.
  intros cf w Hinv. split.
  - intros c w1 H. cbn [step] in H. destruct (cur w c) as [e|] eqn:Hc; [|inversion H].
    inversion H as [Hw1]. exists e. split; [reflexivity|].
    destruct (push_guard_effect cf w c e Hinv Hc) as [_ [Hfst [Hcur Hbelow]]].
    unfold push_guard in Hfst, Hcur, Hbelow. split; [exact Hcur|]. split; [exact Hfst|exact Hbelow].
  - intros w1 H. cbn [step] in H. destruct (w_guards w) as [|[c n] r] eqn:Hg; [inversion H|].
    destruct (pop_guard_effect cf w c n r Hinv Hg) as [old [Hold [_ [_ [Hfst Hcur]]]]].
    rewrite Hold in H. inversion H as [Hw1]. unfold pop_guard in Hfst, Hcur.
    split; [exact Hcur|]. rewrite Hfst. reflexivity.
Qed.

(* ---- execute ---- *)

Theorem execute_only_same_scheme_proof : forall cf w c h,
  fst (step cf w (OExecute c h)) = w /\
  (snd (step cf w (OExecute c h)) = ObExecuted <->
     exists e, cur w c = Some e /\ nth_error (cf_idents cf) h = Some (ec_tok e)) /\
  (forall e tok, cur w c = Some e -> nth_error (cf_idents cf) h = Some tok -> tok <> ec_tok e ->
     snd (step cf w (OExecute c h)) = ObSchemeMismatch).
Proof.
  intros cf w c h. cbn [step].
  destruct (nth_error (cf_idents cf) h) as [tok|] eqn:Hh.
  - destruct (cur w c) as [e|] eqn:Hc.
    + destruct (Nat.eqb (ec_tok e) tok) eqn:Ht; cbn [fst snd].
      * apply Nat.eqb_eq in Ht. subst tok. split; [reflexivity|]. split.
        -- split; [intros _; exists e; split; reflexivity|reflexivity].
        -- intros e' tok' He' Htok' Hne. inversion He'. inversion Htok'. subst. exfalso. apply Hne. reflexivity.
      * apply Nat.eqb_neq in Ht. split; [reflexivity|]. split.
        -- split; [discriminate|]. intros [e' [He' Htok']]. inversion He'. inversion Htok'. subst.
           exfalso. apply Ht. reflexivity.
        -- reflexivity.
    + cbn [fst snd]. split; [reflexivity|]. split.
      * split; [discriminate|]. intros [e' [He' _]]. discriminate.
      * intros e tok' He. discriminate.
  - cbn [fst snd]. split; [reflexivity|]. split.
    + split; [discriminate|]. intros [e' [_ Htok']]. discriminate.
    + intros e tok' _ Htok'. discriminate.
Qed.

(* ------------------------------------------------------------------ *)
(* Containers can only be built homogeneous                              *)

Lemma homogeneous_Forall t l : homogeneous t l = true <-> Forall (fun x => type_of x = t) l.
Proof.
  unfold homogeneous. rewrite forallb_forall, Forall_forall. split; intros H x Hx.
  - apply ty_eqb_true. apply H. exact Hx.
  - rewrite (H x Hx). apply ty_eqb_rfl.
Qed.

Lemma array_new_spec t l : array_new t l = spec_array t l.
Proof. reflexivity. Qed.

Lemma array_new_iff t l v :
  array_new t l = Some v <-> (Forall (fun x => type_of x = t) l /\ v = VArray t l).
Proof.
  unfold array_new. fold (homogeneous t l). split.
  - destruct (homogeneous t l) eqn:Hh; [|discriminate]. intros H. inversion H.
    split; [apply homogeneous_Forall; exact Hh|reflexivity].
  - intros [Hf Hv]. apply homogeneous_Forall in Hf. rewrite Hf. subst v. reflexivity.
Qed.

Lemma array_new_wf t l v :
  array_new t l = Some v -> forallb value_wf l = true -> has_type v (TArray t) = true.
Proof.
  unfold array_new. destruct (forallb (fun x => ty_eqb (type_of x) t) l) eqn:Hh; [|discriminate].
  intros H Hwf. inversion H. unfold has_type. cbn [type_of ty_eqb value_wf]. rewrite ty_eqb_rfl. cbn.
  apply forallb_forall. intros x Hx.
  rewrite forallb_forall in Hh, Hwf. rewrite (Hh x Hx), (Hwf x Hx). reflexivity.
Qed.

Lemma keys_ascending_cons k v l :
  keys_ascending ((k, v) :: l) = true <->
  (match l with [] => True | (k2, _) :: _ => bytes_compare k k2 = Lt end /\ keys_ascending l = true).
Proof.
  cbn [keys_ascending]. destruct l as [|[k2 v2] r].
  - split; [intros _; split; [exact I|reflexivity]|reflexivity].
  - destruct (bytes_compare k k2); split; try discriminate; try (intros [H _]; discriminate).
    + intros H. split; [reflexivity|exact H].
    + intros [_ H]. exact H.
Qed.

Lemma map_insert_head k v l :
  match map_insert k v l with
  | [] => False
  | (k0, _) :: _ => k0 = k \/ match l with [] => False | (k1, _) :: _ => k0 = k1 /\ bytes_compare k1 k = Lt end
  end.
Proof.
  destruct l as [|[k1 v1] r]; cbn [map_insert]; [left; reflexivity|].
  destruct (bytes_compare k k1) eqn:Hc; [left; reflexivity|left; reflexivity|].
  right. split; [reflexivity|]. apply bytes_compare_gt_lt. exact Hc.
Qed.

Lemma map_insert_ascending k v : forall l, keys_ascending l = true -> keys_ascending (map_insert k v l) = true.
Proof.
  induction l as [|[k1 v1] r IH]; intros Hasc; [reflexivity|].
  cbn [map_insert]. destruct (bytes_compare k k1) eqn:Hc.
  - apply bytes_compare_eq in Hc. subst k1.
    apply keys_ascending_cons in Hasc. apply keys_ascending_cons. exact Hasc.
  - apply keys_ascending_cons. split; [exact Hc|exact Hasc].
  - apply keys_ascending_cons in Hasc. destruct Hasc as [Hhd Hr].
    apply keys_ascending_cons. split; [|apply IH; exact Hr].
    pose proof (map_insert_head k v r) as Hh.
    destruct (map_insert k v r) as [|[k0 v0] r0]; [exact I|].
    destruct Hh as [Hk|Hk].
    + subst k0. apply bytes_compare_gt_lt. exact Hc.
    + destruct r as [|[k2 v2] r2]; [contradiction|]. destruct Hk as [Hk _]. subst k0. exact Hhd.
Qed.

Lemma map_of_pairs_ascending kvs : keys_ascending (map_of_pairs kvs) = true.
Proof.
  unfold map_of_pairs.
  assert (H : forall m, keys_ascending m = true ->
                        keys_ascending (fold_left (fun m kv => map_insert (fst kv) (snd kv) m) kvs m) = true).
  { induction kvs as [|[k v] r IH]; intros m Hm; cbn; [exact Hm|]. apply IH. apply map_insert_ascending. exact Hm. }
  apply H. reflexivity.
Qed.

Lemma bytes_eqb_compare_gt k k' : bytes_compare k k' = Gt -> bytes_eqb k k' = false.
Proof.
  intros Hc. destruct (bytes_eqb k k') eqn:He; [|reflexivity].
  apply bytes_eqb_true in He. subst k'. rewrite bytes_compare_rfl in Hc. discriminate.
Qed.

Lemma bytes_eqb_compare_lt k k' : bytes_compare k k' = Lt -> bytes_eqb k k' = false.
Proof.
  intros Hc. destruct (bytes_eqb k k') eqn:He; [|reflexivity].
  apply bytes_eqb_true in He. subst k'. rewrite bytes_compare_rfl in Hc. discriminate.
Qed.

Lemma assoc_map_insert q k v : forall l,
  assoc_bytes q (map_insert k v l) = if bytes_eqb q k then Some v else assoc_bytes q l.
Proof.
  induction l as [|[k1 v1] r IH]; cbn [map_insert assoc_bytes]; [reflexivity|].
  destruct (bytes_compare k k1) eqn:Hc; cbn [assoc_bytes].
  - apply bytes_compare_eq in Hc. subst k1. destruct (bytes_eqb q k); reflexivity.
  - reflexivity.
  - rewrite IH. destruct (bytes_eqb q k1) eqn:Hq1; [|reflexivity].
    apply bytes_eqb_true in Hq1. subst k1.
    assert (Hqk : bytes_eqb q k = false).
    { destruct (bytes_eqb q k) eqn:He; [|reflexivity]. apply bytes_eqb_true in He. subst k.
      rewrite bytes_compare_rfl in Hc. discriminate. }
    rewrite Hqk. reflexivity.
Qed.

Lemma map_of_pairs_lookup kvs q : assoc_bytes q (map_of_pairs kvs) = last_for q kvs None.
Proof.
  unfold map_of_pairs.
  assert (H : forall m, assoc_bytes q (fold_left (fun m kv => map_insert (fst kv) (snd kv) m) kvs m)
                        = last_for q kvs (assoc_bytes q m)).
  { induction kvs as [|[k v] r IH]; intros m; cbn [fold_left last_for fst snd]; [reflexivity|].
    rewrite IH. rewrite assoc_map_insert. reflexivity. }
  apply H.
Qed.

Lemma map_of_pairs_is_map kvs : is_map_of kvs (map_of_pairs kvs).
Proof. split; [apply map_of_pairs_ascending|intros k; apply map_of_pairs_lookup]. Qed.

Lemma map_insert_In k v kv : forall l, In kv (map_insert k v l) -> kv = (k, v) \/ In kv l.
Proof.
  induction l as [|[k1 v1] r IH]; cbn [map_insert]; intros H.
  - destruct H as [H|[]]. left. symmetry. exact H.
  - destruct (bytes_compare k k1).
    + destruct H as [H|H]; [left; symmetry; exact H|right; right; exact H].
    + destruct H as [H|H]; [left; symmetry; exact H|right; exact H].
    + destruct H as [H|H]; [right; left; exact H|].
      destruct (IH H) as [H'|H']; [left; exact H'|right; right; exact H'].
Qed.

Lemma map_of_pairs_In kvs kv : In kv (map_of_pairs kvs) -> In kv kvs.
Proof.
  unfold map_of_pairs.
  assert (H : forall m, In kv (fold_left (fun m kv => map_insert (fst kv) (snd kv) m) kvs m) -> In kv kvs \/ In kv m).
  { induction kvs as [|[k v] r IH]; intros m Hin; cbn in Hin; [right; exact Hin|].
    destruct (IH _ Hin) as [H|H]; [left; right; exact H|].
    apply map_insert_In in H. cbn [fst snd] in H. destruct H as [H|H]; [left; left; symmetry; exact H|right; exact H]. }
  intros Hin. destruct (H [] Hin) as [H'|[]]. exact H'.
Qed.

Lemma map_new_iff t kvs v :
  map_new t kvs = Some v <->
  (Forall (fun kv => type_of (snd kv) = t) kvs /\ v = VMap t (map_of_pairs kvs)).
Proof.
  unfold map_new. split.
  - destruct (forallb (fun kv => ty_eqb (type_of (snd kv)) t) kvs) eqn:Hh; [|discriminate].
    intros H. inversion H. split; [|reflexivity].
    apply Forall_forall. intros kv Hkv. rewrite forallb_forall in Hh. apply ty_eqb_true. apply Hh. exact Hkv.
  - intros [Hf Hv]. subst v.
    assert (Hh : forallb (fun kv => ty_eqb (type_of (snd kv)) t) kvs = true).
    { apply forallb_forall. intros kv Hkv. rewrite Forall_forall in Hf. rewrite (Hf kv Hkv). apply ty_eqb_rfl. }
    rewrite Hh. reflexivity.
Qed.

Lemma map_new_wf t kvs v :
  map_new t kvs = Some v -> forallb (fun kv => value_wf (snd kv)) kvs = true -> has_type v (TMap t) = true.
Proof.
  unfold map_new. destruct (forallb (fun kv => ty_eqb (type_of (snd kv)) t) kvs) eqn:Hh; [|discriminate].
  intros H Hwf. inversion H. unfold has_type. cbn [type_of ty_eqb value_wf]. rewrite ty_eqb_rfl. cbn [andb].
  rewrite map_of_pairs_ascending. rewrite andb_true_r.
  apply forallb_forall. intros kv Hkv. apply map_of_pairs_In in Hkv.
  rewrite forallb_forall in Hh, Hwf. rewrite (Hh kv Hkv), (Hwf kv Hkv). reflexivity.
Qed.

(* ---- the relational specification determines the map ---- *)

Lemma bytes_compare_lt_trans a : forall b c,
  bytes_compare a b = Lt -> bytes_compare b c = Lt -> bytes_compare a c = Lt.
Proof.
  induction a as [|x a IH]; intros b c Hab Hbc; destruct b as [|y b]; destruct c as [|z c]; cbn in *;
    try discriminate; try reflexivity.
  destruct (N.compare_spec x y) as [Hxy|Hxy|Hxy]; try discriminate.
  - subst y. destruct (x ?= z)%N; try discriminate; [|reflexivity]. eapply IH; eassumption.
  - destruct (N.compare_spec y z) as [Hyz|Hyz|Hyz]; try discriminate.
    + subst z. apply N.compare_lt_iff in Hxy. rewrite Hxy. reflexivity.
    + assert (Hxz : (x < z)%N) by (eapply N.lt_trans; eassumption).
      apply N.compare_lt_iff in Hxz. rewrite Hxz. reflexivity.
Qed.

Lemma ascending_head_lt k v : forall r,
  keys_ascending ((k, v) :: r) = true -> forall k' v', In (k', v') r -> bytes_compare k k' = Lt.
Proof.
  induction r as [|[k1 v1] r IH]; intros Hasc k' v' Hin; [destruct Hin|].
  apply keys_ascending_cons in Hasc. destruct Hasc as [Hlt Hr].
  destruct Hin as [Heq|Hin]; [inversion Heq; subst; exact Hlt|].
  apply (IH) with (v' := v'); [|exact Hin].
  apply keys_ascending_cons. split.
  - destruct r as [|[k2 v2] r2]; [exact I|].
    apply keys_ascending_cons in Hr. destruct Hr as [H12 _]. eapply bytes_compare_lt_trans; eassumption.
  - destruct r as [|[k2 v2] r2]; [reflexivity|]. apply keys_ascending_cons in Hr. exact (proj2 Hr).
Qed.

Lemma assoc_none_below k : forall r,
  (forall k' (v' : value), In (k', v') r -> bytes_compare k k' = Lt) -> assoc_bytes k r = None.
Proof.
  induction r as [|[k1 v1] r IH]; intros H; [reflexivity|]. cbn [assoc_bytes].
  rewrite (bytes_eqb_compare_lt k k1) by (apply (H k1 v1); left; reflexivity).
  apply IH. intros k' v' Hin. apply (H k' v'). right. exact Hin.
Qed.

Lemma ascending_tail k v r : keys_ascending ((k, v) :: r) = true -> keys_ascending r = true.
Proof. intros H. apply keys_ascending_cons in H. exact (proj2 H). Qed.

Lemma ascending_assoc_unique : forall l1 l2,
  keys_ascending l1 = true -> keys_ascending l2 = true ->
  (forall q, assoc_bytes q l1 = assoc_bytes q l2) -> l1 = l2.
Proof.
  induction l1 as [|[k1 v1] r1 IH]; intros l2 H1 H2 Heq; destruct l2 as [|[k2 v2] r2].
  - reflexivity.
  - specialize (Heq k2). cbn in Heq. rewrite bytes_eqb_rfl in Heq. discriminate.
  - specialize (Heq k1). cbn in Heq. rewrite bytes_eqb_rfl in Heq. discriminate.
  - pose proof (ascending_head_lt k1 v1 r1 H1) as Hb1.
    pose proof (ascending_head_lt k2 v2 r2 H2) as Hb2.
    destruct (bytes_compare k1 k2) eqn:Hc.
    + apply bytes_compare_eq in Hc. subst k2.
      pose proof (Heq k1) as Hk. cbn in Hk. rewrite bytes_eqb_rfl in Hk. inversion Hk. subst v2.
      f_equal. apply IH; [eapply ascending_tail; exact H1|eapply ascending_tail; exact H2|].
      intros q. destruct (bytes_eqb q k1) eqn:Hq.
      * apply bytes_eqb_true in Hq. subst q.
        rewrite (assoc_none_below k1 r1 Hb1), (assoc_none_below k1 r2 Hb2). reflexivity.
      * specialize (Heq q). cbn in Heq. rewrite Hq in Heq. exact Heq.
    + exfalso. specialize (Heq k1). cbn in Heq. rewrite bytes_eqb_rfl in Heq.
      rewrite (bytes_eqb_compare_lt k1 k2 Hc) in Heq.
      rewrite assoc_none_below in Heq; [discriminate|].
      intros k' v' Hin. eapply bytes_compare_lt_trans; [exact Hc|]. eapply Hb2. exact Hin.
    + exfalso. apply bytes_compare_gt_lt in Hc. specialize (Heq k2). cbn in Heq. rewrite bytes_eqb_rfl in Heq.
      rewrite (bytes_eqb_compare_lt k2 k1 Hc) in Heq.
      rewrite assoc_none_below in Heq; [discriminate|].
      intros k' v' Hin. eapply bytes_compare_lt_trans; [exact Hc|]. eapply Hb1. exact Hin.
Qed.

Lemma is_map_of_unique kvs content : is_map_of kvs content -> content = map_of_pairs kvs.
Proof.
  intros [Hasc Hl]. apply ascending_assoc_unique; [exact Hasc|apply map_of_pairs_ascending|].
  intros q. rewrite Hl. symmetry. apply map_of_pairs_lookup.
Qed.

(* the full declarative reading of Map::try_from_iter *)
Lemma map_new_declarative t kvs v :
  map_new t kvs = Some v <->
  (Forall (fun kv => type_of (snd kv) = t) kvs /\ exists content, v = VMap t content /\ is_map_of kvs content).
Proof.
  rewrite map_new_iff. split.
  - intros [Hf Hv]. split; [exact Hf|]. exists (map_of_pairs kvs). split; [exact Hv|apply map_of_pairs_is_map].
  - intros [Hf [content [Hv Hm]]]. split; [exact Hf|]. rewrite Hv. f_equal. apply is_map_of_unique. exact Hm.
Qed.

(* ---- the executable form of the specification (Spec.C08.spec_map) ---- *)

Fixpoint asc_keys (l : list bytes) : Prop :=
  match l with
  | [] => True
  | k :: r => (forall k', In k' r -> bytes_compare k k' = Lt) /\ asc_keys r
  end.

Lemma insert_key_In k k' : forall l, In k' (insert_key k l) <-> k' = k \/ In k' l.
Proof.
  induction l as [|k1 r IH]; cbn [insert_key].
  - cbn. split; [intros [H|[]]; left; symmetry; exact H|intros [H|[]]; left; symmetry; exact H].
  - destruct (bytes_compare k k1) eqn:Hc.
    + apply bytes_compare_eq in Hc. subst k1. cbn. split; [intros H; right; exact H|].
      intros [H|H]; [left; symmetry; exact H|exact H].
    + cbn. split; [intros [H|H]; [left; symmetry; exact H|right; exact H]|
                   intros [H|H]; [left; symmetry; exact H|right; exact H]].
    + cbn [In]. rewrite IH. split.
      * intros [H|[H|H]]; [right; left; exact H|left; exact H|right; right; exact H].
      * intros [H|[H|H]]; [right; left; exact H|left; exact H|right; right; exact H].
Qed.

Lemma insert_key_asc k : forall l, asc_keys l -> asc_keys (insert_key k l).
Proof.
  induction l as [|k1 r IH]; intros Hasc; cbn [insert_key].
  - cbn. split; [intros k' []|exact I].
  - destruct Hasc as [Hlt Hr]. destruct (bytes_compare k k1) eqn:Hc.
    + cbn. split; assumption.
    + cbn [asc_keys]. split; [|split; assumption].
      intros k' [H|H]; [subst k'; exact Hc|]. eapply bytes_compare_lt_trans; [exact Hc|apply Hlt; exact H].
    + cbn [asc_keys]. split; [|apply IH; exact Hr].
      intros k' H. apply insert_key_In in H. destruct H as [H|H].
      * subst k'. apply bytes_compare_gt_lt. exact Hc.
      * apply Hlt. exact H.
Qed.

Lemma sorted_keys_asc ks : asc_keys (fold_right insert_key [] ks).
Proof. induction ks as [|k r IH]; cbn; [exact I|apply insert_key_asc; exact IH]. Qed.

Lemma sorted_keys_In ks k : In k (fold_right insert_key [] ks) <-> In k ks.
Proof.
  induction ks as [|k1 r IH]; cbn; [reflexivity|]. rewrite insert_key_In. rewrite IH.
  split; intros [H|H]; [left; symmetry; exact H|right; exact H|left; symmetry; exact H|right; exact H].
Qed.

Definition key_entry (kvs : list (bytes * value)) (k : bytes) : list (bytes * value) :=
  match last_for k kvs None with Some v => [(k, v)] | None => [] end.

Lemma flat_entries_keys kvs : forall ks k v, In (k, v) (flat_map (key_entry kvs) ks) -> In k ks.
Proof.
  induction ks as [|k1 r IH]; intros k v H; cbn in H; [destruct H|].
  apply in_app_or in H. destruct H as [H|H].
  - unfold key_entry in H. destruct (last_for k1 kvs None); [|destruct H].
    destruct H as [H|[]]. inversion H. left. reflexivity.
  - right. eapply IH. exact H.
Qed.

Lemma flat_entries_asc kvs : forall ks, asc_keys ks -> keys_ascending (flat_map (key_entry kvs) ks) = true.
Proof.
  induction ks as [|k r IH]; intros Hasc; [reflexivity|].
  destruct Hasc as [Hlt Hr]. cbn [flat_map]. unfold key_entry at 1.
  destruct (last_for k kvs None) as [v|]; [|cbn; apply IH; exact Hr].
  cbn [app]. apply keys_ascending_cons. split; [|apply IH; exact Hr].
  destruct (flat_map (key_entry kvs) r) as [|[k2 v2] rest] eqn:Hf; [exact I|].
  apply Hlt. apply (flat_entries_keys kvs r k2 v2). rewrite Hf. left. reflexivity.
Qed.

Lemma existsb_eqb_false q : forall ks,
  (forall k', In k' ks -> bytes_compare q k' = Lt) -> existsb (bytes_eqb q) ks = false.
Proof.
  induction ks as [|k r IH]; intros H; [reflexivity|]. cbn.
  rewrite (bytes_eqb_compare_lt q k) by (apply H; left; reflexivity). cbn.
  apply IH. intros k' Hin. apply H. right. exact Hin.
Qed.

Lemma flat_entries_assoc kvs q : forall ks, asc_keys ks ->
  assoc_bytes q (flat_map (key_entry kvs) ks) = if existsb (bytes_eqb q) ks then last_for q kvs None else None.
Proof.
  induction ks as [|k r IH]; intros Hasc; [reflexivity|].
  destruct Hasc as [Hlt Hr]. cbn [flat_map existsb]. unfold key_entry at 1.
  destruct (last_for k kvs None) as [v|] eqn:Hl.
  - cbn [app assoc_bytes]. destruct (bytes_eqb q k) eqn:Hq; cbn [orb].
    + apply bytes_eqb_true in Hq. subst q. symmetry. exact Hl.
    + apply IH. exact Hr.
  - cbn [app]. rewrite (IH Hr). destruct (bytes_eqb q k) eqn:Hq; cbn [orb]; [|reflexivity].
    apply bytes_eqb_true in Hq. subst q. rewrite (existsb_eqb_false k r Hlt). symmetry. exact Hl.
Qed.

Lemma last_for_absent q : forall kvs acc,
  (forall kv, In kv kvs -> bytes_eqb q (fst kv) = false) -> last_for q kvs acc = acc.
Proof.
  induction kvs as [|[k v] r IH]; intros acc H; [reflexivity|]. cbn [last_for].
  pose proof (H (k, v) (or_introl eq_refl)) as Hk. cbn [fst] in Hk. rewrite Hk. apply IH. intros kv Hin. apply H. right. exact Hin.
Qed.

Lemma spec_map_content_is_map kvs :
  is_map_of kvs (flat_map (key_entry kvs) (fold_right insert_key [] (map fst kvs))).
Proof.
  split; [apply flat_entries_asc; apply sorted_keys_asc|].
  intros q. rewrite flat_entries_assoc by apply sorted_keys_asc.
  destruct (existsb (bytes_eqb q) (fold_right insert_key [] (map fst kvs))) eqn:He; [reflexivity|].
  symmetry. apply last_for_absent. intros kv Hin.
  destruct (bytes_eqb q (fst kv)) eqn:Hq; [|reflexivity].
  assert (Ht : existsb (bytes_eqb q) (fold_right insert_key [] (map fst kvs)) = true).
  { apply existsb_exists. exists (fst kv). split; [|exact Hq]. apply sorted_keys_In. apply in_map. exact Hin. }
  rewrite He in Ht. discriminate.
Qed.

Lemma forallb_map_snd (p : value -> bool) : forall kvs : list (bytes * value),
  forallb p (map snd kvs) = forallb (fun kv => p (snd kv)) kvs.
Proof. induction kvs as [|kv r IH]; cbn; [reflexivity|]. rewrite IH. reflexivity. Qed.

Lemma map_new_spec t kvs : map_new t kvs = spec_map t kvs.
Proof.
  unfold map_new, spec_map, homogeneous. rewrite forallb_map_snd.
  destruct (forallb (fun kv => ty_eqb (type_of (snd kv)) t) kvs); [|reflexivity].
  f_equal. f_equal. symmetry. apply is_map_of_unique. apply spec_map_content_is_map.
Qed.

Theorem containers_homogeneous_proof :
  (forall t l, array_new t l = spec_array t l) /\
  (forall t kvs, map_new t kvs = spec_map t kvs) /\
  (forall t l v, array_new t l = Some v <-> (Forall (fun x => type_of x = t) l /\ v = VArray t l)) /\
  (forall t l v, array_new t l = Some v -> forallb value_wf l = true -> has_type v (TArray t) = true) /\
  (forall t kvs v, map_new t kvs = Some v <->
                   (Forall (fun kv => type_of (snd kv) = t) kvs /\ v = VMap t (map_of_pairs kvs))) /\
  (forall t kvs v, map_new t kvs = Some v <->
                   (Forall (fun kv => type_of (snd kv) = t) kvs /\
                    exists content, v = VMap t content /\ is_map_of kvs content)) /\
  (forall t kvs v, map_new t kvs = Some v -> forallb (fun kv => value_wf (snd kv)) kvs = true ->
                   has_type v (TMap t) = true).
Proof.
  split; [exact array_new_spec|]. split; [exact map_new_spec|].
  split; [exact array_new_iff|]. split; [exact array_new_wf|]. split; [exact map_new_iff|].
  split; [exact map_new_declarative|exact map_new_wf].
Qed.

(* the reachable-state form of the typing premise of C04 / C01: when in
   addition the mandatory fields have been given a value, the visible context
   is [slots_ok] *)
Theorem ctx_visible_slots_ok_proof : forall cf ops,
  forallb op_wf ops = true ->
  forall c e, cur (fst (run_from cf (init cf) ops)) c = Some e ->
    (forall f fd, nth_error (cf_fields cf) f = Some fd -> nth_error (ec_vals e) f = Some None ->
                  fd_optional fd = true) ->
    slots_ok (cf_fields cf) (ec_vals e) = true.
Proof.
  intros cf ops Hwf c e Hc Hopt.
  destruct (ctx_inv_well_typed_proof cf ops Hwf c e Hc) as [Hlen Hok].
  apply slots_ok_of_stored; assumption.
Qed.
