(* C06: integer literals and integer ranges. *)
From Coq Require Import List ZArith NArith Bool Lia Arith.
From Coq Require Import ZifyBool.
From WF Require Import Base.Bytes Sem.RangeSet Lang.Ast Parse.Lex Spec.C06 Proofs.LexBase.
Import ListNotations.
Open Scope Z_scope.

Lemma int_follow_stops : forall rest, int_follow_ok rest ->
  stops is_hexdigit rest /\ (forall r, rest <> 120%N :: r).
Proof.
  intros rest H. destruct rest as [|b r]; cbn in *.
  - split; [exact I|intros; discriminate].
  - split.
    + unfold is_hexdigit, Lex.is_digit, is_ascii, hex_digit_byte in *. lia.
    + intros r' E. inversion E; subst. unfold hex_digit_byte in H. cbn in H. discriminate.
Qed.

Lemma lex_digits_app : forall radix u ds rest, radix <= 16 -> ds <> [] ->
  Forall (is_digit_of radix u) ds -> stops is_hexdigit rest ->
  lex_digits (ds ++ rest) = LOk ds rest.
Proof.
  intros radix u ds rest Hr Hne Hall Hs. unfold lex_digits. apply take_while_app; [assumption| |assumption].
  eapply Forall_impl; [|exact Hall]. intros c Hc. eapply is_digit_of_hex; eassumption.
Qed.

Lemma zeros_digits : forall radix u n, 0 < radix -> Forall (is_digit_of radix u) (repeat 48%N n).
Proof.
  intros radix u n Hr. induction n; cbn; constructor; [|assumption].
  exists 0. split; [lia|]. destruct u; reflexivity.
Qed.

(* the `45 :: _` test of i64_from_str_radix on a first byte that is not '-' *)
Lemma i64_from_nonneg : forall c t radix, c <> 45%N ->
  i64_from_str_radix (c :: t) radix =
  match digits_val radix (c :: t) 0 with
  | Some v => if I64_MAX <? v then None else Some v
  | None => None
  end.
Proof.
  intros c t radix H. unfold i64_from_str_radix.
  destruct c as [|p]; [reflexivity|].
  do 6 (try (destruct p as [p|p|]); try reflexivity).
  exfalso; apply H; reflexivity.
Qed.

Lemma i64_from_neg : forall ds radix, ds <> [] ->
  i64_from_str_radix (45%N :: ds) radix =
  match digits_val radix ds 0 with
  | Some v => if - v <? I64_MIN then None else Some (- v)
  | None => None
  end.
Proof. intros ds radix H. destruct ds; [contradiction|reflexivity]. Qed.

(* the `48 :: _` test of lex_int on a first byte that is not '0' *)
Lemma lex_int_not_zero : forall c s, c <> 48%N ->
  lex_int (c :: s) =
  (let without_neg := match starts_with [45%N] (c :: s) with Some r => r | None => c :: s end in
   lbind (lex_digits without_neg)
     (fun _ rest => parse_number (c :: s) (firstn (span_len (c :: s) rest) (c :: s)) rest 10)).
Proof.
  intros c s H. unfold lex_int. rewrite !starts_with_cons.
  replace (48 =? c)%N with false by lia.
  destruct c as [|p]; [reflexivity|].
  do 6 (try (destruct p as [p|p|]); try reflexivity).
  exfalso; apply H; reflexivity.
Qed.

Lemma firstn_span : forall (p rest : bytes), firstn (span_len (p ++ rest) rest) (p ++ rest) = p.
Proof.
  intros p rest. unfold span_len. rewrite app_length.
  replace (length p + length rest - length rest)%nat with (length p) by lia.
  rewrite firstn_app, Nat.sub_diag, firstn_all. cbn. apply app_nil_r.
Qed.

Lemma digits_value : forall radix u v, 2 <= radix <= 16 -> 0 <= v ->
  digits_val radix (print_radix radix v u) 0 = Some v.
Proof.
  intros radix u v Hr Hv. destruct (print_radix_spec radix u v Hr Hv) as (_ & _ & Hval & _).
  specialize (Hval [] 0). rewrite app_nil_r in Hval. rewrite Hval. cbn [digits_val]. f_equal; lia.
Qed.

(* ---- decimal ---- *)
Lemma lex_int_dec_gen : forall v rest, int_follow_ok rest ->
  lex_int (print_dec v ++ rest) =
  if (v <? I64_MIN) || (I64_MAX <? v) then LErr EParseInt (print_dec v ++ rest) (length (print_dec v))
  else LOk v rest.
Proof.
  intros v rest Hf. destruct (int_follow_stops rest Hf) as [Hs Hx]. unfold print_dec.
  destruct (v <? 0) eqn:Eneg.
  - (* negative *)
    assert (Hv : 0 <= - v) by lia.
    destruct (print_radix_spec 10 false (- v) ltac:(lia) Hv) as (Hne & Hall & Hval & Hhd & _).
    set (ds := print_radix 10 (- v) false) in *.
    cbn [app]. rewrite lex_int_not_zero by discriminate. rewrite starts_with_cons, N.eqb_refl, starts_with_nil.
    cbn iota zeta.
    rewrite (lex_digits_app 10 false) by (assumption || lia). cbn [lbind].
    change (45%N :: ds ++ rest) with ((45%N :: ds) ++ rest). rewrite firstn_span.
    unfold parse_number. rewrite i64_from_neg by assumption.
    specialize (Hval [] 0). rewrite app_nil_r in Hval. rewrite Hval. cbn [digits_val].
    replace (0 * 10 ^ Z.of_nat (length ds) + - v) with (- v) by lia.
    rewrite Z.opp_involutive.
    replace (I64_MAX <? v) with false by (unfold I64_MAX; lia). rewrite orb_false_r.
    destruct (v <? I64_MIN); [|reflexivity].
    cbn [length]. reflexivity.
  - (* non-negative *)
    assert (Hv : 0 <= v) by lia.
    destruct (print_radix_spec 10 false v ltac:(lia) Hv) as (Hne & Hall & Hval & Hhd & H0).
    replace (v <? I64_MIN) with false by (unfold I64_MIN; lia). rewrite orb_false_l.
    destruct (Z.eq_dec v 0) as [->|Hnz].
    + rewrite (H0 eq_refl). cbn [app]. unfold lex_int. rewrite starts_with_cons, N.eqb_refl.
      assert (E : starts_with [120%N] rest = None).
      { destruct rest as [|b r]; [reflexivity|]. rewrite starts_with_cons. destruct (120 =? b)%N eqn:Eb; [|reflexivity].
        exfalso. apply (Hx r). f_equal. lia. }
      rewrite E. change (48%N :: rest) with ([48%N] ++ rest).
      rewrite (lex_digits_app 8 false) by (lia || discriminate || assumption ||
        (constructor; [exists 0; split; [lia|reflexivity]|constructor])).
      reflexivity.
    + destruct (Hhd ltac:(lia)) as (d & t & Eds & Hd).
      set (ds := print_radix 10 v false) in *.
      assert (Hc : digit_char false d <> 48%N) by (rewrite digit_char_zero by lia; lia).
      assert (Hm : digit_char false d <> 45%N) by (apply (digit_char_not false d); lia).
      rewrite Eds. cbn [app]. rewrite lex_int_not_zero by assumption. rewrite starts_with_cons.
      replace (45 =? digit_char false d)%N with false by lia. cbn iota zeta.
      change (digit_char false d :: t ++ rest) with ((digit_char false d :: t) ++ rest). rewrite <- Eds.
      rewrite (lex_digits_app 10 false) by (assumption || lia). cbn [lbind].
      rewrite firstn_span. unfold parse_number. rewrite Eds, i64_from_nonneg by assumption. rewrite <- Eds.
      specialize (Hval [] 0). rewrite app_nil_r in Hval. rewrite Hval. cbn [digits_val].
      replace (0 * 10 ^ Z.of_nat (length ds) + v) with v by lia.
      destruct (I64_MAX <? v); reflexivity.
Qed.

(* ---- hexadecimal and octal ---- *)
Lemma lex_int_hex_gen : forall u pad v rest, 0 <= v -> int_follow_ok rest ->
  lex_int (print_int (IHex u pad) v ++ rest) =
  if I64_MAX <? v
  then LErr EParseInt (repeat 48%N pad ++ print_radix 16 v u ++ rest) (length (repeat 48%N pad ++ print_radix 16 v u))
  else LOk v rest.
Proof.
  intros u pad v rest Hv Hf. destruct (int_follow_stops rest Hf) as [Hs _].
  destruct (print_radix_spec 16 u v ltac:(lia) Hv) as (Hne & Hall & Hval & _).
  unfold print_int. set (ds := print_radix 16 v u) in *.
  cbn [app]. unfold lex_int. rewrite !starts_with_cons, !N.eqb_refl, starts_with_nil.
  rewrite app_assoc.
  assert (Hne2 : repeat 48%N pad ++ ds <> []) by (destruct pad; destruct ds; cbn; congruence).
  rewrite (lex_digits_app 16 u); [|lia|assumption| |assumption].
  2:{ apply Forall_app. split; [apply zeros_digits; lia|assumption]. }
  cbn [lbind]. unfold parse_number.
  assert (Ehd : exists c t, repeat 48%N pad ++ ds = c :: t /\ c <> 45%N).
  { destruct pad as [|pad]; cbn [repeat app].
    - destruct ds as [|c t]; [contradiction|]. exists c, t. split; [reflexivity|].
      inversion Hall as [|? ? (d & Hd & Ec) _]; subst. apply (digit_char_not u d). lia.
    - eexists _, _. split; [reflexivity|discriminate]. }
  destruct Ehd as (c & t & Ec & Hc45). rewrite Ec, i64_from_nonneg by assumption. rewrite <- Ec.
  rewrite <- (app_nil_r (repeat 48%N pad ++ ds)), <- app_assoc, digits_val_zeros by lia.
  rewrite Hval. cbn [digits_val].
  replace (0 * 16 ^ Z.of_nat pad * 16 ^ Z.of_nat (length ds) + v) with v by lia.
  rewrite app_nil_r, <- app_assoc. destruct (I64_MAX <? v); reflexivity.
Qed.

Lemma lex_int_oct_gen : forall pad v rest, 0 <= v -> int_follow_ok rest ->
  lex_int (print_int (IOct pad) v ++ rest) =
  if I64_MAX <? v
  then LErr EParseInt (print_int (IOct pad) v ++ rest) (length (print_int (IOct pad) v))
  else LOk v rest.
Proof.
  intros pad v rest Hv Hf. destruct (int_follow_stops rest Hf) as [Hs _].
  destruct (print_radix_spec 8 false v ltac:(lia) Hv) as (Hne & Hall & Hval & _).
  unfold print_int. set (ds := print_radix 8 v false) in *.
  assert (E2 : starts_with [48%N; 120%N] ((48%N :: repeat 48%N pad ++ ds) ++ rest) = None).
  { cbn [app]. rewrite starts_with_cons, N.eqb_refl.
    destruct pad as [|pad]; cbn [repeat app].
    - destruct ds as [|c t]; [contradiction|]. cbn [app]. rewrite starts_with_cons.
      inversion Hall as [|? ? (d & Hd & Ec) _]; subst.
      assert (digit_char false d <> 120%N) by (apply (digit_char_not false d); lia).
      replace (120 =? digit_char false d)%N with false by lia. reflexivity.
    - reflexivity. }
  unfold lex_int. rewrite E2. cbn [app].
  change (48%N :: (repeat 48%N pad ++ ds) ++ rest) with ((repeat 48%N (S pad) ++ ds) ++ rest).
  rewrite (lex_digits_app 8 false); [|lia|discriminate| |assumption].
  2:{ apply Forall_app. split; [apply zeros_digits; lia|assumption]. }
  cbn [lbind]. unfold parse_number. cbn [repeat app].
  rewrite i64_from_nonneg by discriminate.
  change (48%N :: repeat 48%N pad ++ ds) with (repeat 48%N (S pad) ++ ds).
  rewrite <- (app_nil_r (repeat 48%N (S pad) ++ ds)), <- app_assoc, digits_val_zeros by lia.
  rewrite Hval. cbn [digits_val].
  replace (0 * 8 ^ Z.of_nat (S pad) * 8 ^ Z.of_nat (length ds) + v) with v by lia.
  rewrite app_nil_r. destruct (I64_MAX <? v); reflexivity.
Qed.

(* ---- the three forms together ---- *)
Theorem int_roundtrip : forall f v rest,
  in_i64 v -> int_form_ok f v -> int_follow_ok rest ->
  lex_int (print_int f v ++ rest) = LOk v rest.
Proof.
  intros f v rest [Hlo Hhi] Hok Hf. unfold i64_min, i64_max in *. destruct f as [|u pad|pad]; cbn in Hok.
  - cbn [print_int]. rewrite lex_int_dec_gen by assumption.
    replace (v <? I64_MIN) with false by (unfold I64_MIN; lia).
    replace (I64_MAX <? v) with false by (unfold I64_MAX; lia). reflexivity.
  - rewrite lex_int_hex_gen by assumption. replace (I64_MAX <? v) with false by (unfold I64_MAX; lia). reflexivity.
  - rewrite lex_int_oct_gen by assumption. replace (I64_MAX <? v) with false by (unfold I64_MAX; lia). reflexivity.
Qed.

Theorem int_out_of_range : forall f v rest,
  ~ in_i64 v -> int_form_ok f v -> int_follow_ok rest ->
  exists at_ len, lex_int (print_int f v ++ rest) = LErr EParseInt at_ len.
Proof.
  intros f v rest Hout Hok Hf. unfold in_i64, i64_min, i64_max in Hout. destruct f as [|u pad|pad]; cbn in Hok.
  - cbn [print_int]. rewrite lex_int_dec_gen by assumption.
    replace ((v <? I64_MIN) || (I64_MAX <? v)) with true by (unfold I64_MIN, I64_MAX; lia).
    eexists _, _; reflexivity.
  - rewrite lex_int_hex_gen by assumption. replace (I64_MAX <? v) with true by (unfold I64_MAX; lia).
    eexists _, _; reflexivity.
  - rewrite lex_int_oct_gen by assumption. replace (I64_MAX <? v) with true by (unfold I64_MAX; lia).
    eexists _, _; reflexivity.
Qed.

(* ---- ranges ---- *)
Lemma dotdot_follow : forall s, int_follow_ok ([46%N; 46%N] ++ s).
Proof. intros s. reflexivity. Qed.

Theorem int_range_lex : forall f1 f2 a b rest,
  in_i64 a -> in_i64 b -> int_form_ok f1 a -> int_form_ok f2 b -> int_follow_ok rest ->
  lex_int_range (print_int_range f1 f2 a b ++ rest) =
  if b <? a then LErr EIncompatibleRangeBounds (print_int_range f1 f2 a b ++ rest) (length (print_int_range f1 f2 a b))
  else LOk (a, b) rest.
Proof.
  intros f1 f2 a b rest Ha Hb Hoa Hob Hf. unfold lex_int_range, print_int_range.
  rewrite <- !app_assoc. rewrite int_roundtrip by (assumption || apply dotdot_follow).
  cbn [lbind app]. rewrite !starts_with_cons, !N.eqb_refl, starts_with_nil.
  rewrite int_roundtrip by assumption. cbn [lbind].
  destruct (b <? a); [|reflexivity]. f_equal.
  unfold span_len. repeat (rewrite ?app_length; cbn [length]). lia.
Qed.

Theorem int_single_as_range : forall f v rest,
  in_i64 v -> int_form_ok f v -> int_follow_ok rest -> no_dotdot_next rest ->
  lex_int_range (print_int f v ++ rest) = LOk (v, v) rest.
Proof.
  intros f v rest Hv Hok Hf Hd. unfold lex_int_range. rewrite int_roundtrip by assumption. cbn [lbind].
  assert (E : starts_with [46%N; 46%N] rest = None).
  { destruct rest as [|x [|y r]]; rewrite ?starts_with_cons.
    - reflexivity.
    - destruct (46 =? x)%N; reflexivity.
    - destruct (46 =? x)%N eqn:E1; [|reflexivity]. destruct (46 =? y)%N eqn:E2; [|reflexivity].
      exfalso. assert (x = 46%N) by lia. assert (y = 46%N) by lia. subst. exact Hd. }
  rewrite E. reflexivity.
Qed.
