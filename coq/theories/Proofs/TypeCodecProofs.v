(* C15: the model of the type / scheme encodings (Sem/TypeCodec.v) equals its
   specification (Spec/C15.v), and the specification is coherent: the three
   forms are mutually inverse up to 32 layers. *)
From Coq Require Import List NArith ZArith Bool Lia Arith Permutation Sorted.
From WF Require Import Base.Bytes Lang.Types Sem.TypeCodec Spec.C15.
Import ListNotations.
Open Scope N_scope.

Arguments N.shiftl : simpl never.
Arguments N.shiftr : simpl never.
Arguments N.land : simpl never.
Arguments N.lor : simpl never.
Arguments N.modulo : simpl never.
Arguments N.div : simpl never.
Arguments N.pow : simpl never.
Arguments N.mul : simpl never.
Arguments N.testbit : simpl never.
Arguments N.of_nat : simpl never.

(* ---- byte strings ---- *)

Lemma bytes_eqb_refl a : bytes_eqb a a = true.
Proof. induction a as [|x a IH]; cbn; [reflexivity|]. now rewrite N.eqb_refl, IH. Qed.

Lemma bytes_eqb_eq a : forall b, bytes_eqb a b = true -> a = b.
Proof.
  induction a as [|x a IH]; intros [|y b] H; cbn in H; try discriminate; [reflexivity|].
  apply andb_true_iff in H. destruct H as [Hx Hr]. apply N.eqb_eq in Hx. subst y.
  f_equal. now apply IH.
Qed.

Lemma bytes_eqb_neq a b : bytes_eqb a b = false -> a <> b.
Proof. intros H E. subst b. now rewrite bytes_eqb_refl in H. Qed.

Lemma bytes_compare_eq a : forall b, bytes_compare a b = Eq -> a = b.
Proof.
  induction a as [|x a IH]; intros [|y b] H; cbn in H; try discriminate; [reflexivity|].
  destruct (x ?= y) eqn:E; try discriminate. apply N.compare_eq_iff in E. subst y.
  f_equal. now apply IH.
Qed.

Lemma bytes_compare_antisym a : forall b, bytes_compare b a = CompOpp (bytes_compare a b).
Proof.
  induction a as [|x a IH]; intros [|y b]; cbn; try reflexivity.
  rewrite (N.compare_antisym x y). destruct (x ?= y); cbn; auto.
Qed.

(* ---- bit arithmetic of push / pop ---- *)

Definition is_map (l : layer) : bool := match l with LMap => true | LArray => false end.

Lemma layer_bit_b2n l : layer_bit l = N.b2n (is_map l).
Proof. now destruct l. Qed.

Lemma layer_bit_lt l : layer_bit l < 2.
Proof. destruct l; cbn; lia. Qed.

Lemma shl1 x : N.shiftl x 1 = 2 * x.
Proof. rewrite N.shiftl_mul_pow2. change (2 ^ 1) with 2. lia. Qed.

Lemma shr1 x : N.shiftr x 1 = x / 2.
Proof. rewrite N.shiftr_div_pow2. reflexivity. Qed.

Lemma land1 x : N.land x 1 = x mod 2.
Proof. change 1 with (N.ones 1) at 1. rewrite N.land_ones. reflexivity. Qed.

Lemma lor_bit x l : N.lor (2 * x) (layer_bit l) = 2 * x + layer_bit l.
Proof.
  destruct l; cbn [layer_bit].
  - rewrite N.lor_0_r. lia.
  - destruct x as [|p]; reflexivity.
Qed.

Lemma div2_bit x l : (2 * x + layer_bit l) / 2 = x.
Proof.
  symmetry. apply (N.div_unique _ 2 x (layer_bit l)); [apply layer_bit_lt|reflexivity].
Qed.

Lemma mod2_bit x l : (2 * x + layer_bit l) mod 2 = layer_bit l.
Proof.
  symmetry. apply (N.mod_unique _ 2 x (layer_bit l)); [apply layer_bit_lt|reflexivity].
Qed.

Lemma U32_pow : U32 = 2 ^ 32.
Proof. reflexivity. Qed.

(* the value [push] computes, when no bit is lost *)
Lemma push_layers x l n : x < 2 ^ n -> n < 32 ->
  N.lor (N.shiftl x 1 mod U32) (layer_bit l) = 2 * x + layer_bit l.
Proof.
  intros Hx Hn. rewrite shl1, N.mod_small, lor_bit; [reflexivity|].
  rewrite U32_pow. replace 32 with (N.succ 31) by reflexivity. rewrite N.pow_succ_r'.
  assert (2 ^ n <= 2 ^ 31) by (apply N.pow_le_mono_r; lia). lia.
Qed.

Lemma pop_bit x : (N.land x 1 =? 0) = negb (N.testbit x 0).
Proof.
  rewrite land1. pose proof (N.bit0_mod x) as H.
  destruct (N.testbit x 0); cbn in H; rewrite <- H; reflexivity.
Qed.

Lemma pop_layer x : (if N.land x 1 =? 0 then LArray else LMap) = layer_at x 0.
Proof. unfold layer_at. rewrite pop_bit. change (N.of_nat 0) with 0. now destruct (N.testbit x 0). Qed.

(* ---- the specification of the packed form is coherent ---- *)

Lemma build_layers p ls : layers_of (build p ls) = ls /\ prim_of (build p ls) = p.
Proof.
  induction ls as [|l ls [IH1 IH2]]; cbn [build].
  - now destruct p.
  - destruct l; cbn; now rewrite IH1, IH2.
Qed.

Lemma build_of_type t : build (prim_of t) (layers_of t) = t.
Proof. induction t as [| | | |x IH|x IH]; cbn; try reflexivity; now rewrite IH. Qed.

Lemma depth_build p ls : depth (build p ls) = length ls.
Proof. unfold depth. now rewrite (proj1 (build_layers p ls)). Qed.

Lemma bits_value_lt ls : bits_value ls < 2 ^ N.of_nat (length ls).
Proof.
  induction ls as [|l ls IH]; cbn [bits_value length]; [cbn; lia|].
  rewrite Nat2N.inj_succ, N.pow_succ_r'. pose proof (layer_bit_lt l). lia.
Qed.

Lemma layer_at_0 l x : layer_at (layer_bit l + 2 * x) 0 = l.
Proof.
  unfold layer_at. rewrite layer_bit_b2n, N.add_comm. cbn [N.of_nat].
  change (N.of_nat 0) with 0. rewrite N.testbit_0_r. now destruct l.
Qed.

Lemma layer_at_S l x i : layer_at (layer_bit l + 2 * x) (S i) = layer_at x i.
Proof.
  unfold layer_at. rewrite layer_bit_b2n, N.add_comm, Nat2N.inj_succ, N.testbit_succ_r. reflexivity.
Qed.

Lemma layer_at_div2 x i : layer_at x (S i) = layer_at (x / 2) i.
Proof.
  unfold layer_at. rewrite Nat2N.inj_succ, <- N.div2_div, N.div2_spec.
  rewrite N.shiftr_spec by lia. now rewrite N.add_1_r.
Qed.

Lemma unpack_bits ls : map (layer_at (bits_value ls)) (seq 0 (length ls)) = ls.
Proof.
  induction ls as [|l ls IH]; [reflexivity|].
  cbn [length seq map bits_value]. rewrite layer_at_0. f_equal.
  rewrite <- seq_shift, map_map. rewrite <- IH at 2.
  apply map_ext. intros i. apply layer_at_S.
Qed.

(* unpack after pack *)
Lemma spec_unpack_pack t c : spec_pack t = Some c ->
  spec_unpack (ct_layers c) (N.to_nat (ct_len c)) (ct_prim c) = t /\ ct_wf c.
Proof.
  unfold spec_pack. destruct (depth t <=? 32)%nat eqn:Hd; [|discriminate].
  intros H. injection H as <-. cbn [ct_layers ct_len ct_prim]. apply Nat.leb_le in Hd.
  split.
  - unfold spec_unpack. rewrite Nat2N.id. unfold depth. rewrite unpack_bits. apply build_of_type.
  - split; cbn [ct_layers ct_len]; [lia|apply bits_value_lt].
Qed.

Lemma bits_of_unpack n : forall x,
  bits_value (map (layer_at x) (seq 0 n)) = x mod 2 ^ N.of_nat n.
Proof.
  induction n as [|n IH]; intros x.
  - cbn. now rewrite N.mod_1_r.
  - cbn [seq map bits_value]. rewrite <- seq_shift, map_map.
    rewrite (map_ext _ (layer_at (x / 2)) (fun i => layer_at_div2 x i)), IH.
    rewrite Nat2N.inj_succ, N.pow_succ_r', N.mod_mul_r by (try apply N.pow_nonzero; lia).
    f_equal. unfold layer_at. change (N.of_nat 0) with 0. pose proof (N.bit0_mod x) as H.
    destruct (N.testbit x 0); cbn in H; cbn [layer_bit]; lia.
Qed.

(* pack after unpack *)
Lemma spec_pack_unpack c : ct_wf c ->
  spec_pack (spec_unpack (ct_layers c) (N.to_nat (ct_len c)) (ct_prim c)) = Some c.
Proof.
  intros [Hlen Hl]. unfold spec_pack, spec_unpack. rewrite depth_build, map_length, seq_length.
  assert (N.to_nat (ct_len c) <= 32)%nat as Hn by lia.
  apply Nat.leb_le in Hn. rewrite Hn.
  destruct (build_layers (ct_prim c) (map (layer_at (ct_layers c)) (seq 0 (N.to_nat (ct_len c))))) as [-> ->].
  rewrite bits_of_unpack, N2Nat.id, N.mod_small by assumption. now destruct c.
Qed.

(* ---- CompoundType: model = specification ---- *)

Theorem from_type_spec t : from_type t = spec_pack t.
Proof.
  assert (Hstep : forall x l, from_type x = spec_pack x ->
            match from_type x with Some c => ct_push c l | None => None end
            = spec_pack (wrap_layer l x)).
  { intros x l IH. rewrite IH. unfold spec_pack.
    assert (depth (wrap_layer l x) = S (depth x)) as -> by now destruct l.
    destruct (depth x <=? 32)%nat eqn:Hd.
    - apply Nat.leb_le in Hd. unfold ct_push. cbn [ct_len ct_layers ct_prim].
      destruct (32 <=? N.of_nat (depth x)) eqn:H32.
      + apply N.leb_le in H32. assert (S (depth x) <=? 32 = false)%nat as -> by (apply Nat.leb_gt; lia).
        reflexivity.
      + apply N.leb_gt in H32. assert (S (depth x) <=? 32 = true)%nat as -> by (apply Nat.leb_le; lia).
        rewrite (push_layers _ l (N.of_nat (depth x))) by (try apply bits_value_lt; lia).
        f_equal. f_equal.
        * destruct l; cbn [wrap_layer layers_of bits_value]; lia.
        * lia.
        * now destruct l.
    - apply Nat.leb_gt in Hd. assert (S (depth x) <=? 32 = false)%nat as -> by (apply Nat.leb_gt; lia).
      reflexivity. }
  induction t as [| | | |x IH|x IH]; try reflexivity.
  - exact (Hstep x LArray IH).
  - exact (Hstep x LMap IH).
Qed.

Lemma into_type_fuel_spec n : forall fuel c,
  ct_len c = N.of_nat n -> (n < fuel)%nat ->
  into_type_fuel fuel c = spec_unpack (ct_layers c) n (ct_prim c).
Proof.
  induction n as [|n IH]; intros fuel c Hlen Hf; (destruct fuel as [|f]; [lia|]);
    cbn [into_type_fuel]; unfold ct_pop; rewrite Hlen.
  - reflexivity.
  - assert (0 <? N.of_nat (S n) = true) as -> by (apply N.ltb_lt; lia).
    rewrite pop_layer, shr1. rewrite IH; cbn [ct_len ct_layers ct_prim]; try lia.
    unfold spec_unpack. cbn [seq map build]. f_equal.
    rewrite <- seq_shift, map_map. f_equal. apply map_ext. intros i. symmetry. apply layer_at_div2.
Qed.

Theorem into_type_spec c : ct_len c < 256 ->
  into_type c = spec_unpack (ct_layers c) (N.to_nat (ct_len c)) (ct_prim c).
Proof.
  intros H. unfold into_type. apply into_type_fuel_spec; [now rewrite N2Nat.id|lia].
Qed.

(* the statements of the property, for the model *)

Theorem into_from_type t c : from_type t = Some c -> into_type c = t /\ ct_wf c.
Proof.
  rewrite from_type_spec. intros H. destruct (spec_unpack_pack t c H) as [Hu Hwf].
  split; [|exact Hwf]. rewrite into_type_spec; [exact Hu|]. destruct Hwf. lia.
Qed.

Theorem from_type_defined t : (depth t <= 32)%nat <-> from_type t <> None.
Proof.
  rewrite from_type_spec. unfold spec_pack. destruct (depth t <=? 32)%nat eqn:Hd.
  - apply Nat.leb_le in Hd. split; [discriminate|auto].
  - apply Nat.leb_gt in Hd. split; [lia|congruence].
Qed.

Theorem from_into_type_inverse t : (depth t <= 32)%nat ->
  exists c, from_type t = Some c /\ into_type c = t /\ ct_wf c.
Proof.
  intros Hd. destruct (from_type t) as [c|] eqn:E.
  - exists c. split; [reflexivity|]. now apply into_from_type.
  - apply from_type_defined in Hd. congruence.
Qed.

Theorem from_into_type c : ct_wf c -> from_type (into_type c) = Some c.
Proof.
  intros Hwf. rewrite from_type_spec, into_type_spec by (destruct Hwf; lia).
  now apply spec_pack_unpack.
Qed.

Theorem too_deep_no_compound t : (32 < depth t)%nat -> from_type t = None.
Proof.
  intros H. destruct (from_type t) eqn:E; [|reflexivity].
  assert (from_type t <> None) as Hn by congruence. apply from_type_defined in Hn. lia.
Qed.

(* the meaning of the bits: bit i, from the least significant end, is the
   i-th layer counted from the outside *)
Theorem packed_bit_order t c i l : from_type t = Some c ->
  nth_error (layers_of t) i = Some l -> N.testbit (ct_layers c) (N.of_nat i) = is_map l.
Proof.
  rewrite from_type_spec. unfold spec_pack. destruct (depth t <=? 32)%nat; [|discriminate].
  intros H. injection H as <-. cbn [ct_layers]. revert i.
  induction (layers_of t) as [|l0 ls IH]; intros i Hn; [now destruct i|].
  cbn [bits_value]. rewrite layer_bit_b2n, N.add_comm. destruct i as [|i]; cbn in Hn.
  - injection Hn as <-. change (N.of_nat 0) with 0. apply N.testbit_0_r.
  - rewrite Nat2N.inj_succ, N.testbit_succ_r. now apply IH.
Qed.

(* ---- the C API form ---- *)

Lemma prim_code_inv p : prim_of_code (prim_code p) = Some p.
Proof. now destruct p. Qed.

Lemma prim_of_code_inv n p : prim_of_code n = Some p -> prim_code p = n.
Proof.
  unfold prim_of_code.
  destruct (n =? 1) eqn:E1; [apply N.eqb_eq in E1; intros H; injection H as <-; now subst|].
  destruct (n =? 2) eqn:E2; [apply N.eqb_eq in E2; intros H; injection H as <-; now subst|].
  destruct (n =? 3) eqn:E3; [apply N.eqb_eq in E3; intros H; injection H as <-; now subst|].
  destruct (n =? 4) eqn:E4; [apply N.eqb_eq in E4; intros H; injection H as <-; now subst|].
  discriminate.
Qed.

Lemma prim_of_code_range n : 1 <= n <= 4 -> exists p, prim_of_code n = Some p.
Proof.
  intros H. assert (n = 1 \/ n = 2 \/ n = 3 \/ n = 4) as [ -> | [ -> | [ -> | -> ] ] ] by lia;
    eexists; reflexivity.
Qed.

Theorem cty_of_type_spec t : forall c, from_type t = Some c ->
  cty_of_type t = Some (cty_of_compound c).
Proof.
  assert (Hstep : forall x l,
            (forall c, from_type x = Some c -> cty_of_type x = Some (cty_of_compound c)) ->
            forall c, match from_type x with Some c0 => ct_push c0 l | None => None end = Some c ->
                      match cty_of_type x with Some y => cy_push y l | None => None end
                      = Some (cty_of_compound c)).
  { intros x l IH c. destruct (from_type x) as [c0|]; [|discriminate].
    rewrite (IH c0 eq_refl). unfold ct_push. destruct (32 <=? ct_len c0) eqn:H32; [discriminate|].
    apply N.leb_gt in H32. intros H. injection H as <-.
    unfold cy_push, cty_of_compound. cbn [cy_len cy_layers cy_prim ct_len ct_layers ct_prim].
    assert (ct_len c0 =? 255 = false) as -> by (apply N.eqb_neq; lia). reflexivity. }
  induction t as [| | | |x IH|x IH]; intros c; cbn [from_type cty_of_type];
    try (intros H; injection H as <-; reflexivity).
  - exact (Hstep x LArray IH c).
  - exact (Hstep x LMap IH c).
Qed.

Lemma depth_wrap l t : depth (wrap_layer l t) = S (depth t).
Proof. now destruct l. Qed.

Lemma depth_unpack x n p : depth (spec_unpack x n p) = n.
Proof. unfold spec_unpack. now rewrite depth_build, map_length, seq_length. Qed.

Lemma unpack_S x n p :
  spec_unpack x (S n) p = wrap_layer (layer_at x 0) (spec_unpack (x / 2) n p).
Proof.
  unfold spec_unpack. cbn [seq map build]. f_equal.
  rewrite <- seq_shift, map_map. f_equal. apply map_ext. intros i. apply layer_at_div2.
Qed.

Lemma type_of_cty_fuel_spec n : forall fuel y p,
  cy_len y = N.of_nat n -> (n <= 33)%nat -> (n < fuel)%nat -> prim_of_code (cy_prim y) = Some p ->
  type_of_cty_fuel fuel y = Some (spec_unpack (cy_layers y) n p).
Proof.
  induction n as [|n IH]; intros fuel y p Hlen Hn Hf Hp; (destruct fuel as [|f]; [lia|]);
    cbn [type_of_cty_fuel]; unfold cy_pop; rewrite Hlen.
  - cbn [N.ltb N.compare]. change (0 <? N.of_nat 0) with false. cbv iota. rewrite Hp. reflexivity.
  - assert (0 <? N.of_nat (S n) = true) as -> by (apply N.ltb_lt; lia).
    rewrite pop_layer, shr1.
    rewrite (IH f _ p); cbn [cy_len cy_layers cy_prim]; try lia; try assumption.
    destruct (from_type (spec_unpack (cy_layers y / 2) n p)) as [k|] eqn:E.
    + destruct (into_from_type _ _ E) as [-> _]. now rewrite unpack_S.
    + assert (32 < depth (spec_unpack (cy_layers y / 2) n p))%nat as Hd.
      { destruct (Nat.le_gt_cases (depth (spec_unpack (cy_layers y / 2) n p)) 32) as [Hle|Hgt]; [|exact Hgt].
        apply from_type_defined in Hle. congruence. }
      rewrite depth_unpack in Hd. lia.
Qed.

(* a C triple of at most 33 layers with a valid code converts to the type its
   bits spell (33: the outer layer around a full packed element) *)
Theorem type_of_cty_spec y p : cy_len y <= 33 -> prim_of_code (cy_prim y) = Some p ->
  type_of_cty y = Some (spec_unpack (cy_layers y) (N.to_nat (cy_len y)) p).
Proof.
  intros Hl Hp. unfold type_of_cty. apply type_of_cty_fuel_spec; try assumption; lia.
Qed.

Theorem ctype_matches_compound t c : from_type t = Some c ->
  cty_of_type t = Some (cty_of_compound c) /\ type_of_cty (cty_of_compound c) = Some t.
Proof.
  intros H. split; [now apply cty_of_type_spec|].
  pose proof H as Hs. rewrite from_type_spec in Hs. destruct (spec_unpack_pack t c Hs) as [Hu [Hlen _]].
  rewrite (type_of_cty_spec _ (ct_prim c)); cbn [cty_of_compound cy_len cy_layers cy_prim].
  - now rewrite Hu.
  - lia.
  - apply prim_code_inv.
Qed.

Theorem ctype_roundtrip y : cy_wf y ->
  exists t, type_of_cty y = Some t /\ cty_of_type t = Some y /\ depth t = N.to_nat (cy_len y).
Proof.
  intros (Hlen & Hl & Hp). destruct (prim_of_code_range _ Hp) as [p Hpc].
  set (c := mk_ctype (cy_layers y) (cy_len y) p).
  assert (ct_wf c) as Hwf by (split; assumption).
  exists (into_type c). pose proof (from_into_type c Hwf) as Hf.
  rewrite (type_of_cty_spec y p) by (try assumption; lia).
  rewrite (into_type_spec c) by (cbn; lia). cbn [c ct_layers ct_len ct_prim].
  split; [reflexivity|]. split.
  - rewrite (into_type_spec c) in Hf by (cbn; lia). cbn [c ct_layers ct_len ct_prim] in Hf.
    rewrite (cty_of_type_spec _ c Hf). unfold cty_of_compound. cbn [c ct_layers ct_len ct_prim].
    rewrite (prim_of_code_inv _ _ Hpc). now destruct y.
  - apply depth_unpack.
Qed.

(* ---- JSON form of a type ---- *)

Lemma variant_of_spec s :
  variant_of s = if bytes_eqb s n_Array then Some VArrayV
                 else if bytes_eqb s n_Map then Some VMapV
                 else option_map VPrim (prim_named s).
Proof.
  unfold variant_of, prim_named.
  destruct (bytes_eqb s n_Bool) eqn:E1; [apply bytes_eqb_eq in E1; subst s; reflexivity|].
  destruct (bytes_eqb s n_Int) eqn:E2; [apply bytes_eqb_eq in E2; subst s; reflexivity|].
  destruct (bytes_eqb s n_Ip) eqn:E3; [apply bytes_eqb_eq in E3; subst s; reflexivity|].
  destruct (bytes_eqb s n_Bytes) eqn:E4; [apply bytes_eqb_eq in E4; subst s; reflexivity|].
  destruct (bytes_eqb s n_Array); [reflexivity|]. destruct (bytes_eqb s n_Map); reflexivity.
Qed.

Lemma wrap_compound_spec l v :
  wrap_compound l (spec_type_of_json v) =
  match option_map (wrap_layer l) (json_type v) with
  | Some t => if (depth t <=? 33)%nat then Ok t else Err
  | None => Err
  end.
Proof.
  unfold spec_type_of_json. destruct (json_type v) as [t|]; cbn [option_map]; [|reflexivity].
  rewrite depth_wrap. destruct (depth t <=? 33)%nat eqn:H33; cbn [wrap_compound].
  - destruct (from_type t) as [c|] eqn:E.
    + destruct (into_from_type t c E) as [-> _].
      assert (from_type t <> None) as Hn by congruence. apply from_type_defined in Hn.
      assert (S (depth t) <=? 33 = true)%nat as -> by (apply Nat.leb_le; lia). reflexivity.
    + assert (32 < depth t)%nat as Hd.
      { destruct (Nat.le_gt_cases (depth t) 32) as [Hle|Hgt]; [|exact Hgt].
        apply from_type_defined in Hle. congruence. }
      assert (S (depth t) <=? 33 = false)%nat as -> by (apply Nat.leb_gt; lia). reflexivity.
  - apply Nat.leb_gt in H33.
    assert (S (depth t) <=? 33 = false)%nat as -> by (apply Nat.leb_gt; lia). reflexivity.
Qed.

Lemma prim_depth p : (depth (prim_ty p) <=? 33)%nat = true.
Proof. now destruct p. Qed.

(* model = specification, for every JSON value *)
Theorem type_of_json_spec : forall j, type_of_json j = spec_type_of_json j.
Proof.
  fix IH 1. intros j. destruct j as [|b|z|s|l|l].
  - reflexivity.
  - reflexivity.
  - reflexivity.
  - clear IH. cbn [type_of_json]. unfold spec_type_of_json. cbn [json_type]. rewrite variant_of_spec.
    destruct (bytes_eqb s n_Array) eqn:EA; [apply bytes_eqb_eq in EA; subst s; reflexivity|].
    destruct (bytes_eqb s n_Map) eqn:EM; [apply bytes_eqb_eq in EM; subst s; reflexivity|].
    destruct (prim_named s) as [p|]; cbn [option_map]; [|reflexivity]. now rewrite prim_depth.
  - reflexivity.
  - destruct l as [|[k v] [|e r]]; [reflexivity| |reflexivity].
    cbn [type_of_json]. rewrite variant_of_spec.
    unfold spec_type_of_json at 1. cbn [json_type].
    destruct (bytes_eqb k n_Array).
    { rewrite (IH v). apply wrap_compound_spec. }
    destruct (bytes_eqb k n_Map).
    { rewrite (IH v). apply wrap_compound_spec. }
    clear IH. destruct (prim_named k) as [p|]; cbn [option_map]; [|reflexivity].
    destruct v; try reflexivity. now rewrite prim_depth.
Qed.

Lemma json_type_to_json t : json_type (type_to_json t) = Some t.
Proof.
  induction t as [| | | |x IH|x IH]; try reflexivity; cbn [type_to_json json_type].
  - rewrite bytes_eqb_refl, IH. reflexivity.
  - change (bytes_eqb n_Map n_Array) with false. cbv iota. rewrite bytes_eqb_refl, IH. reflexivity.
Qed.

Theorem type_json_roundtrip t : (depth t <= 33)%nat -> type_of_json (type_to_json t) = Ok t.
Proof.
  intros H. rewrite type_of_json_spec. unfold spec_type_of_json. rewrite json_type_to_json.
  apply Nat.leb_le in H. now rewrite H.
Qed.

Theorem too_deep_rejected t : (33 < depth t)%nat -> type_of_json (type_to_json t) = Err.
Proof.
  intros H. rewrite type_of_json_spec. unfold spec_type_of_json. rewrite json_type_to_json.
  apply Nat.leb_gt in H. now rewrite H.
Qed.

(* whatever is accepted is the type the document spells, never another one *)
Theorem type_of_json_sound j t : type_of_json j = Ok t ->
  json_type j = Some t /\ (depth t <= 33)%nat.
Proof.
  rewrite type_of_json_spec. unfold spec_type_of_json.
  destruct (json_type j) as [t'|]; [|discriminate].
  destruct (depth t' <=? 33)%nat eqn:H; [|discriminate].
  intros E. injection E as <-. apply Nat.leb_le in H. now split.
Qed.

Lemma json_as_value_type t : json_as_value (type_to_json t) = type_to_json t.
Proof.
  induction t as [| | | |x IH|x IH]; try reflexivity; cbn [type_to_json json_as_value map];
    rewrite IH; reflexivity.
Qed.

(* ---- one field of a scheme ---- *)

Definition the_type (t : option ty) (vs : list json) : result ty :=
  match t, vs with
  | Some t', [] => Ok t'
  | None, [tv] => spec_type_of_json tv
  | _, _ => Err
  end.

Definition the_bool (o : option bool) (vs : list json) : result bool :=
  match o, vs with
  | Some b, [] => Ok b
  | None, [JBool b] => Ok b
  | _, _ => Err
  end.

Definition pair_res (a : result ty) (b : result bool) : result (ty * bool) :=
  match a with
  | Ok t => match b with Ok o => Ok (t, o) | Err => Err end
  | Err => Err
  end.

Lemma pair_res_err_r a : pair_res a Err = Err.
Proof. now destruct a. Qed.

Lemma type_optional_differ k : bytes_eqb k n_type = true -> bytes_eqb k n_optional = false.
Proof. intros H. apply bytes_eqb_eq in H. now subst k. Qed.

Lemma field_of_entries_spec es : forall t o,
  field_of_entries es t o =
  pair_res (the_type t (values_of n_type es)) (the_bool o (values_of n_optional es)).
Proof.
  induction es as [|[k v] r IH]; intros t o.
  - destruct t, o; reflexivity.
  - cbn [field_of_entries]. unfold values_of. cbn [filter fst].
    destruct (bytes_eqb k n_type) eqn:ET.
    + rewrite (type_optional_differ k ET). cbn [map snd].
      fold (values_of n_type r). fold (values_of n_optional r).
      destruct t as [t'|]; [reflexivity|].
      rewrite type_of_json_spec. destruct (spec_type_of_json v) as [t'|] eqn:Ev.
      * rewrite IH. unfold the_type. destruct (values_of n_type r); [now rewrite Ev|reflexivity].
      * unfold the_type. destruct (values_of n_type r); [now rewrite Ev|reflexivity].
    + destruct (bytes_eqb k n_optional) eqn:EO.
      * cbn [map snd]. fold (values_of n_type r). fold (values_of n_optional r).
        destruct o as [b|]; [now rewrite pair_res_err_r|].
        destruct v; try (cbn [the_bool]; now rewrite pair_res_err_r).
        rewrite IH. unfold the_bool. destruct (values_of n_optional r); reflexivity.
      * fold (values_of n_type r). fold (values_of n_optional r). apply IH.
Qed.

Theorem field_of_json_spec j : field_of_json j = spec_field_of_json j.
Proof.
  destruct j as [|b|z|s|l|es]; try reflexivity.
  - destruct l as [|t [|o [|x r]]]; try reflexivity.
    destruct o; try reflexivity. cbn [field_of_json spec_field_of_json].
    now rewrite type_of_json_spec.
  - cbn [field_of_json spec_field_of_json]. rewrite field_of_entries_spec.
    destruct (values_of n_type es) as [|tv [|tv2 vt]];
      destruct (values_of n_optional es) as [|ov [|ov2 vo]]; cbn [the_type the_bool pair_res];
      try reflexivity; try (destruct ov; reflexivity);
      try (destruct (spec_type_of_json tv); reflexivity).
    all: destruct ov; destruct (spec_type_of_json tv); reflexivity.
Qed.

(* ---- a whole scheme ---- *)

Definition fresh (acc : list field_def) (k : bytes) : bool :=
  negb (existsb (fun g => bytes_eqb (fd_name g) k) acc).

Lemma forallb_fresh_snoc acc f ks :
  forallb (fresh (acc ++ [f])) ks =
  forallb (fresh acc) ks && negb (existsb (bytes_eqb (fd_name f)) ks).
Proof.
  induction ks as [|x ks IH]; [reflexivity|]. cbn [forallb existsb]. rewrite IH.
  assert (fresh (acc ++ [f]) x = fresh acc x && negb (bytes_eqb (fd_name f) x)) as ->.
  { unfold fresh. rewrite existsb_app. cbn [existsb]. now rewrite orb_false_r, negb_orb. }
  destruct (fresh acc x), (bytes_eqb (fd_name f) x), (forallb (fresh acc) ks),
    (existsb (bytes_eqb (fd_name f)) ks); reflexivity.
Qed.

Lemma fresh_exists acc k :
  existsb (fun g => bytes_eqb (fd_name g) k) acc = negb (fresh acc k).
Proof. unfold fresh. now rewrite negb_involutive. Qed.

Lemma scheme_add_entries_spec es : forall acc,
  scheme_add_entries es acc =
  match spec_fields es with
  | Ok fs => if forallb (fresh acc) (map fst es) && distinctb (map fst es) then Ok (acc ++ fs) else Err
  | Err => Err
  end.
Proof.
  induction es as [|[k v] r IH]; intros acc.
  - cbn. now rewrite app_nil_r.
  - cbn [scheme_add_entries spec_fields map fst forallb distinctb]. rewrite field_of_json_spec.
    destruct (spec_field_of_json v) as [[t o]|]; [|reflexivity].
    unfold sb_add_field. cbn [fd_name]. rewrite fresh_exists.
    destruct (fresh acc k); cbn [negb].
    + rewrite IH. destruct (spec_fields r) as [fs|]; [|reflexivity].
      rewrite forallb_fresh_snoc. cbn [fd_name]. rewrite <- app_assoc. cbn [app andb].
      destruct (forallb (fresh acc) (map fst r)), (existsb (bytes_eqb k) (map fst r)),
        (distinctb (map fst r)); reflexivity.
    + destruct (spec_fields r); reflexivity.
Qed.

(* model = specification, for every JSON value *)
Theorem scheme_of_json_spec j : scheme_of_json j = spec_scheme_of_json j.
Proof.
  destruct j as [|b|z|s|l|es]; try reflexivity.
  cbn [scheme_of_json spec_scheme_of_json]. rewrite scheme_add_entries_spec.
  assert (forallb (fresh []) (map fst es) = true) as ->.
  { apply forallb_forall. reflexivity. }
  cbn [andb app]. destruct (spec_fields es), (distinctb (map fst es)); reflexivity.
Qed.

(* SchemeBuilder: a repeated name is refused *)
Lemma sb_add_fields_spec fs : forall acc,
  sb_add_fields fs acc =
  if forallb (fresh acc) (map fd_name fs) && distinctb (map fd_name fs) then Ok (acc ++ fs) else Err.
Proof.
  induction fs as [|f r IH]; intros acc.
  - cbn. now rewrite app_nil_r.
  - cbn [sb_add_fields map forallb distinctb]. unfold sb_add_field. rewrite fresh_exists.
    destruct (fresh acc (fd_name f)); cbn [negb]; [|reflexivity].
    rewrite IH, forallb_fresh_snoc, <- app_assoc. cbn [app andb].
    destruct (forallb (fresh acc) (map fd_name r)), (existsb (bytes_eqb (fd_name f)) (map fd_name r)),
      (distinctb (map fd_name r)); reflexivity.
Qed.

Theorem builder_spec fs :
  sb_add_fields fs [] = if distinctb (map fd_name fs) then Ok fs else Err.
Proof.
  rewrite sb_add_fields_spec.
  assert (forallb (fresh []) (map fd_name fs) = true) as -> by (apply forallb_forall; reflexivity).
  reflexivity.
Qed.

Lemma existsb_In x l : existsb (bytes_eqb x) l = true <-> In x l.
Proof.
  rewrite existsb_exists. split.
  - intros (y & Hy & E). apply bytes_eqb_eq in E. now subst.
  - intros H. exists x. split; [assumption|apply bytes_eqb_refl].
Qed.

Lemma distinctb_NoDup l : distinctb l = true <-> NoDup l.
Proof.
  induction l as [|x l IH]; cbn [distinctb].
  - split; [constructor|reflexivity].
  - rewrite andb_true_iff, negb_true_iff, IH. split.
    + intros [Hx Hl]. constructor; [|assumption]. intros Hin. apply existsb_In in Hin. congruence.
    + intros H. inversion H as [|y l' Hx Hl]; subst. split; [|assumption].
      destruct (existsb (bytes_eqb x) l) eqn:E; [|reflexivity]. apply existsb_In in E. contradiction.
Qed.

Lemma spec_fields_names es : forall fs, spec_fields es = Ok fs -> map fd_name fs = map fst es.
Proof.
  induction es as [|[k v] r IH]; intros fs; cbn [spec_fields].
  - intros H. now injection H as <-.
  - destruct (spec_field_of_json v) as [[t o]|]; [|discriminate].
    destruct (spec_fields r) as [fs'|]; [|discriminate].
    intros H. injection H as <-. cbn. f_equal. now apply IH.
Qed.

(* what a scheme document is accepted as: its keys, all different, in order *)
Theorem scheme_of_json_names es fs : scheme_of_json (JObj es) = Ok fs ->
  NoDup (map fst es) /\ map fd_name fs = map fst es.
Proof.
  rewrite scheme_of_json_spec. cbn [spec_scheme_of_json].
  destruct (distinctb (map fst es)) eqn:Hd; [|discriminate].
  intros H. split; [now apply distinctb_NoDup|now apply spec_fields_names].
Qed.

Theorem duplicate_rejected es : ~ NoDup (map fst es) -> scheme_of_json (JObj es) = Err.
Proof.
  intros Hn. destruct (scheme_of_json (JObj es)) as [fs|] eqn:E; [|reflexivity].
  now apply scheme_of_json_names in E.
Qed.

(* ---- the round trip ---- *)

Definition field_form_ok (vj : ty -> bool -> json) : Prop :=
  forall t o, (depth t <= 33)%nat -> spec_field_of_json (vj t o) = Ok (t, o).

Definition depth_ok (f : field_def) : Prop := (depth (fd_ty f) <= 33)%nat.

Lemma spec_type_roundtrip t : (depth t <= 33)%nat -> spec_type_of_json (type_to_json t) = Ok t.
Proof. intros H. rewrite <- type_of_json_spec. now apply type_json_roundtrip. Qed.

Lemma field_form_written : field_form_ok field_to_json.
Proof.
  intros t o H. unfold field_to_json, spec_field_of_json.
  change (values_of n_type [(n_type, type_to_json t); (n_optional, JBool o)]) with [type_to_json t].
  change (values_of n_optional [(n_type, type_to_json t); (n_optional, JBool o)]) with [JBool o].
  cbv iota beta. now rewrite spec_type_roundtrip.
Qed.

(* the same member list as a sorted map *)
Definition field_to_value (t : ty) (o : bool) : json :=
  JObj [(n_optional, JBool o); (n_type, type_to_json t)].

Lemma field_form_value : field_form_ok field_to_value.
Proof.
  intros t o H. unfold field_to_value, spec_field_of_json.
  change (values_of n_type [(n_optional, JBool o); (n_type, type_to_json t)]) with [type_to_json t].
  change (values_of n_optional [(n_optional, JBool o); (n_type, type_to_json t)]) with [JBool o].
  cbv iota beta. now rewrite spec_type_roundtrip.
Qed.

Definition enc_with (vj : ty -> bool -> json) (f : field_def) : bytes * json :=
  (fd_name f, vj (fd_ty f) (fd_optional f)).

Lemma spec_fields_enc vj gs : field_form_ok vj -> Forall depth_ok gs ->
  spec_fields (map (enc_with vj) gs) = Ok gs.
Proof.
  intros Hvj HF. induction HF as [|f gs Hf Hgs IH]; [reflexivity|].
  cbn [map spec_fields enc_with]. fold (enc_with vj). rewrite (Hvj _ _ Hf), IH. now destruct f.
Qed.

Lemma scheme_of_enc vj gs : field_form_ok vj -> Forall depth_ok gs ->
  scheme_of_json (JObj (map (enc_with vj) gs)) = if distinctb (map fd_name gs) then Ok gs else Err.
Proof.
  intros Hvj HF. rewrite scheme_of_json_spec. cbn [spec_scheme_of_json].
  rewrite map_map. cbn [enc_with fst]. now rewrite spec_fields_enc.
Qed.

Theorem scheme_roundtrip_text fs : Forall depth_ok fs ->
  scheme_of_json (scheme_to_json fs) = if distinctb (map fd_name fs) then Ok fs else Err.
Proof. intros HF. exact (scheme_of_enc field_to_json fs field_form_written HF). Qed.

(* through a value tree *)

Lemma json_as_value_field t o : json_as_value (field_to_json t o) = field_to_value t o.
Proof.
  unfold field_to_json, field_to_value. cbn [json_as_value map]. rewrite json_as_value_type. reflexivity.
Qed.

Lemma bt_insert_enc vj f m :
  bt_insert (fd_name f) (vj (fd_ty f) (fd_optional f)) (map (enc_with vj) m)
  = map (enc_with vj) (fd_insert f m).
Proof.
  induction m as [|g m IH]; [reflexivity|]. cbn [map bt_insert fd_insert enc_with]. fold (enc_with vj).
  destruct (bytes_compare (fd_name f) (fd_name g)); cbn [map enc_with]; try reflexivity.
  fold (enc_with vj). now rewrite IH.
Qed.

Lemma bt_fold_enc vj fs : forall m,
  fold_left (fun m kv => bt_insert (fst kv) (snd kv) m) (map (enc_with vj) fs) (map (enc_with vj) m)
  = map (enc_with vj) (fold_left (fun m f => fd_insert f m) fs m).
Proof.
  induction fs as [|f fs IH]; intros m; [reflexivity|].
  cbn [map fold_left].
  change (fst (enc_with vj f)) with (fd_name f).
  change (snd (enc_with vj f)) with (vj (fd_ty f) (fd_optional f)).
  rewrite bt_insert_enc. apply IH.
Qed.

Lemma json_as_value_scheme fs :
  json_as_value (scheme_to_json fs) = JObj (map (enc_with field_to_value) (fields_by_name fs)).
Proof.
  unfold scheme_to_json. cbn [json_as_value]. f_equal. rewrite map_map.
  rewrite (map_ext _ (enc_with field_to_value)).
  - unfold bt_of_list, fields_by_name. exact (bt_fold_enc field_to_value fs []).
  - intros f. unfold enc_with. now rewrite json_as_value_field.
Qed.

Definition names (fs : list field_def) : list bytes := map fd_name fs.

Lemma fd_insert_perm f m : ~ In (fd_name f) (names m) -> Permutation (f :: m) (fd_insert f m).
Proof.
  induction m as [|g m IH]; intros Hn; [reflexivity|]. cbn [fd_insert].
  destruct (bytes_compare (fd_name f) (fd_name g)) eqn:E.
  - apply bytes_compare_eq in E. exfalso. apply Hn. left. now symmetry.
  - reflexivity.
  - rewrite perm_swap. apply perm_skip. apply IH. intros Hin. apply Hn. now right.
Qed.

Lemma fields_fold_perm fs : forall m, NoDup (names (m ++ fs)) ->
  Permutation (m ++ fs) (fold_left (fun m f => fd_insert f m) fs m).
Proof.
  induction fs as [|f fs IH]; intros m Hnd; cbn [fold_left].
  - now rewrite app_nil_r.
  - assert (~ In (fd_name f) (names m)) as Hf.
    { unfold names in Hnd. rewrite map_app in Hnd. cbn [map] in Hnd.
      apply NoDup_remove_2 in Hnd. intros Hin. apply Hnd. apply in_or_app. now left. }
    assert (Permutation (m ++ f :: fs) (fd_insert f m ++ fs)) as Hp.
    { rewrite <- (fd_insert_perm f m Hf). now rewrite <- Permutation_middle. }
    rewrite Hp. apply IH. unfold names. rewrite <- Hp. exact Hnd.
Qed.

(* by name: the same fields, in ascending order of their names *)
Theorem fields_by_name_perm fs : NoDup (names fs) -> Permutation fs (fields_by_name fs).
Proof. intros H. exact (fields_fold_perm fs [] H). Qed.

Definition name_lt (a b : field_def) : Prop := bytes_compare (fd_name a) (fd_name b) = Lt.

Lemma fd_insert_sorted f m : Sorted name_lt m -> Sorted name_lt (fd_insert f m).
Proof.
  induction m as [|g m IH]; intros Hs; cbn [fd_insert]; [repeat constructor|].
  inversion Hs as [|g' m' Hm Hhd]; subst.
  destruct (bytes_compare (fd_name f) (fd_name g)) eqn:E.
  - apply bytes_compare_eq in E. constructor; [assumption|].
    destruct Hhd as [|h m Hgh]; constructor. unfold name_lt in *. now rewrite E.
  - constructor; [assumption|]. now constructor.
  - constructor; [now apply IH|].
    assert (name_lt g f) as Hgf.
    { unfold name_lt. rewrite (bytes_compare_antisym (fd_name f) (fd_name g)), E. reflexivity. }
    destruct m as [|h m]; cbn [fd_insert]; [now constructor|].
    inversion Hhd as [|h' m' Hgh]; subst.
    destruct (bytes_compare (fd_name f) (fd_name h)); now constructor.
Qed.

Theorem fields_by_name_sorted fs : Sorted name_lt (fields_by_name fs).
Proof.
  unfold fields_by_name. assert (Sorted name_lt []) as H by constructor. revert H.
  generalize (@nil field_def). induction fs as [|f fs IH]; intros m Hm; cbn [fold_left]; [assumption|].
  apply IH. now apply fd_insert_sorted.
Qed.

(* the scheme round trip, however the JSON is supplied *)
Theorem scheme_roundtrip e fs : Forall depth_ok fs -> distinctb (names fs) = true ->
  scheme_of_json (supply e (scheme_to_json fs)) = Ok (supplied_order e fs).
Proof.
  intros HF Hd.
  assert (scheme_of_json (scheme_to_json fs) = Ok fs) as Hdirect.
  { rewrite scheme_roundtrip_text by assumption. unfold names in Hd. now rewrite Hd. }
  destruct e; try exact Hdirect.
  cbn [supply supplied_order]. rewrite json_as_value_scheme.
  pose proof (proj1 (distinctb_NoDup _) Hd) as Hnd.
  pose proof (fields_by_name_perm fs Hnd) as Hp.
  rewrite scheme_of_enc.
  - assert (distinctb (map fd_name (fields_by_name fs)) = true) as ->; [|reflexivity].
    apply distinctb_NoDup. eapply Permutation_NoDup; [|exact Hnd]. now apply Permutation_map.
  - exact field_form_value.
  - eapply Permutation_Forall; eassumption.
Qed.

Theorem scheme_roundtrip_spec e fs : Forall depth_ok fs ->
  match sb_add_fields fs [] with
  | Ok fs' => scheme_of_json (supply e (scheme_to_json fs'))
  | Err => Err
  end = spec_scheme_roundtrip e fs.
Proof.
  intros HF. rewrite builder_spec. unfold spec_scheme_roundtrip.
  destruct (distinctb (map fd_name fs)) eqn:Hd; [|reflexivity]. now apply scheme_roundtrip.
Qed.
