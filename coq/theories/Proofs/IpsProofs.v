(* Every address the parser model puts into an AST is a 32 / 128 bit value
   ([ips_ok] of Spec/C07.v): the premise of C07's text-injectivity theorem holds
   for whatever parse_filter accepts. *)
From Coq Require Import List ZArith NArith Bool Lia Arith.
From WF Require Import Base.Bytes Sem.RangeSet Sem.Matchers Lang.Types Lang.Ast Lang.Context
     Sem.Compile Spec.Typing Spec.C07 Parse.Lex Parse.Parser
     Proofs.ParserProofs Proofs.LexFacts Proofs.FuelProofs Proofs.LimitProofs.
Import ListNotations.
Local Notation length := List.length (only parsing).
Local Open Scope Z_scope.

Ltac dsc := (cbv beta iota; discriminate).

(* ---- the address parsers produce values in range ---- *)
Lemma hexval_lt b : (Z.of_N (hexval b) < 16 -> True). Proof. auto. Qed.

Lemma digits_val_bound radix : 0 < radix -> forall s acc v, 0 <= acc ->
  digits_val radix s acc = Some v -> acc * radix ^ Z.of_nat (length s) <= v < (acc + 1) * radix ^ Z.of_nat (length s).
Proof.
  intros Hr. induction s as [|b r IH]; intros acc v Ha H; cbn [digits_val length] in H |- *.
  - injection H as <-. cbn. lia.
  - destruct (Z.ltb_spec (Z.of_N (hexval b)) radix) as [Hd|]; [|discriminate H].
    assert (Hd0 : 0 <= Z.of_N (hexval b)) by lia.
    apply IH in H; [|nia]. rewrite Nat2Z.inj_succ, Z.pow_succ_r by lia.
    assert (0 < radix ^ Z.of_nat (length r)) by (apply Z.pow_pos_nonneg; lia). nia.
Qed.

Lemma dec_octet_range s v : dec_octet s = Some v -> 0 <= v < 256.
Proof.
  unfold dec_octet. destruct s as [|d t]; [dsc|].
  assert (Hone : (if is_digit d then Some (Z.of_N (d - 48)) else None) = Some v -> 0 <= v < 256).
  { destruct (is_digit d) eqn:E; [|dsc]. intros H. injection H as <-. unfold is_digit in E. lia. }
  assert (Hgen : forall s0 : bytes,
             (if (Nat.leb (length s0) 3 && forallb is_digit s0)%bool
              then match digits_val 10 s0 0 with
                   | Some v0 => if v0 <? 256 then Some v0 else None
                   | None => None
                   end
              else None) = Some v -> 0 <= v < 256).
  { intros s0. destruct (_ && _)%bool; [|dsc]. destruct (digits_val 10 s0 0) as [v0|] eqn:E; [|dsc].
    destruct (Z.ltb_spec v0 256) as [Hlt|Hge]; [|dsc]. intros Hq. injection Hq as <-.
    pose proof (digits_val_bound 10 ltac:(lia) s0 0 v0 ltac:(lia) E). lia. }
  destruct t as [|d2 r].
  - destruct d as [|p]; [exact Hone|]. repeat (destruct p as [p|p|]; try exact Hone).
  - pose proof (Hgen (d :: d2 :: r)) as Hg.
    destruct d as [|p]; [exact Hg|]. repeat (destruct p as [p|p|]; try exact Hg; try dsc).
Qed.

Lemma parse_v4_range s v : parse_v4 s = Some v -> 0 <= v < 2 ^ 32.
Proof.
  unfold parse_v4. destruct (split_on 46 s []) as [|a [|b [|c [|d [|? ?]]]]]; try dsc.
  destruct (dec_octet a) as [a'|] eqn:Ea; [|dsc]. destruct (dec_octet b) as [b'|] eqn:Eb; [|dsc].
  destruct (dec_octet c) as [c'|] eqn:Ec; [|dsc]. destruct (dec_octet d) as [d'|] eqn:Ed; [|dsc].
  intros H. injection H as <-.
  apply dec_octet_range in Ea, Eb, Ec, Ed. change (2 ^ 32) with 4294967296. lia.
Qed.

Lemma hex_group_range s g : hex_group s = Some g -> 0 <= g < 65536.
Proof.
  unfold hex_group. destruct s as [|b r]; [dsc|].
  destruct (Nat.leb_spec (length (b :: r)) 4); cbn [andb]; [|dsc].
  destruct (forallb is_hexdigit (b :: r)); [|dsc]. intros E.
  pose proof (digits_val_bound 16 ltac:(lia) _ 0 g ltac:(lia) E) as B.
  assert (16 ^ Z.of_nat (length (b :: r)) <= 16 ^ 4) by (apply Z.pow_le_mono_r; lia).
  change (16 ^ 4) with 65536 in *. lia.
Qed.

Definition groups_ok (gs : list Z) : Prop := Forall (fun g => 0 <= g < 65536) gs.

Lemma parse_groups_range : forall parts allow gs, parse_groups parts allow = Some gs -> groups_ok gs.
Proof.
  induction parts as [|p r IH]; intros allow gs H; cbn [parse_groups] in H.
  - injection H as <-. constructor.
  - destruct r as [|p2 r'].
    + destruct (hex_group p) as [g|] eqn:Eg.
      * injection H as <-. constructor; [now apply hex_group_range in Eg|constructor].
      * destruct allow; [|discriminate H]. destruct (parse_v4 p) as [v|] eqn:Ev; [|discriminate H].
        injection H as <-. apply parse_v4_range in Ev. change (2 ^ 32) with (65536 * 65536) in Ev.
        constructor; [|constructor; [|constructor]].
        -- split; [apply Z.div_pos; lia|apply Z.div_lt_upper_bound; lia].
        -- apply Z.mod_pos_bound. lia.
    + destruct (hex_group p) as [g|] eqn:Eg; [|discriminate H].
      destruct (parse_groups (p2 :: r') allow) as [gs'|] eqn:Er; [|discriminate H]. injection H as <-.
      constructor; [now apply hex_group_range in Eg|eapply IH; eauto].
Qed.

Lemma groups_val_range gs : groups_ok gs -> forall acc k, 0 <= acc < 65536 ^ Z.of_nat k ->
  0 <= groups_val gs acc < 65536 ^ Z.of_nat (k + length gs).
Proof.
  induction 1 as [|g gs Hg _ IH]; intros acc k Ha; cbn [groups_val length].
  - now rewrite Nat.add_0_r.
  - replace (k + S (length gs))%nat with (S k + length gs)%nat by lia. apply IH.
    rewrite Nat2Z.inj_succ, Z.pow_succ_r by lia. nia.
Qed.

Lemma parse_v6_range s v : parse_v6 s = Some v -> 0 <= v < 2 ^ 128.
Proof.
  unfold parse_v6. destruct (find_dcolon s 0) as [i|].
  - destruct (parse_groups (parts_of (firstn i s)) false) as [hs|] eqn:Eh; [|dsc].
    destruct (parse_groups (parts_of (skipn (i + 2) s)) true) as [ts|] eqn:Et; [|dsc].
    destruct (Nat.leb_spec (length hs + length ts) 7) as [Hn|]; [|dsc]. intros H. injection H as <-.
    apply parse_groups_range in Eh, Et.
    assert (Hall : groups_ok (hs ++ repeat 0 (8 - (length hs + length ts)) ++ ts)).
    { apply Forall_app. split; [exact Eh|]. apply Forall_app. split; [|exact Et].
      apply Forall_forall. intros x Hx. apply repeat_spec in Hx. subst. lia. }
    pose proof (groups_val_range _ Hall 0 0%nat ltac:(cbn; lia)) as B.
    rewrite !app_length, repeat_length in B.
    replace (0 + (length hs + (8 - (length hs + length ts) + length ts)))%nat with 8%nat in B by lia.
    change (65536 ^ Z.of_nat 8) with (2 ^ 128) in B. exact B.
  - destruct (parse_groups (parts_of s) true) as [gs|] eqn:Eg; [|dsc].
    destruct (Nat.eqb_spec (length gs) 8) as [H8|]; [|dsc]. intros H. injection H as <-.
    apply parse_groups_range in Eg. pose proof (groups_val_range _ Eg 0 0%nat ltac:(cbn; lia)) as B.
    rewrite H8 in B. change (65536 ^ Z.of_nat (0 + 8)) with (2 ^ 128) in B. exact B.
Qed.

Lemma parse_addr_ok s a : parse_addr s = Some a -> ip_ok a.
Proof.
  unfold parse_addr. destruct (parse_v4 s) as [v|] eqn:E4.
  - intros H. injection H as <-. exact (parse_v4_range _ _ E4).
  - destruct (parse_v6 s) as [v|] eqn:E6; [|dsc]. intros H. injection H as <-. exact (parse_v6_range _ _ E6).
Qed.

Lemma lex_ip_ok i a r : lex_ip i = LOk a r -> ip_ok a.
Proof.
  unfold lex_ip. intros H. apply lbind_ok in H. destruct H as (c & rest0 & _ & H).
  destruct (parse_addr c) eqn:E; [|discriminate H]. injection H as <- _. eapply parse_addr_ok; eauto.
Qed.

(* ---- CIDR items and ranges ---- *)
Lemma u8_dec_range s v : u8_dec s = Some v -> 0 <= v < 256.
Proof.
  unfold u8_dec. destruct s as [|b r]; [dsc|]. destruct (forallb is_digit (b :: r)); [|dsc].
  destruct (digits_val 10 (b :: r) 0) as [v0|] eqn:E; [|dsc].
  destruct (Z.ltb_spec v0 256) as [Hlt|Hge]; [|dsc]. intros H. injection H as <-.
  pose proof (digits_val_bound 10 ltac:(lia) _ 0 v0 ltac:(lia) E). lia.
Qed.

Lemma option_map_all_forall {A B} (f : A -> option B) (P : B -> Prop) :
  (forall x y, f x = Some y -> P y) -> forall l ys, option_map_all f l = Some ys -> Forall P ys /\ length ys = length l.
Proof.
  intros Hf. induction l as [|x l IH]; intros ys H; cbn [option_map_all] in H.
  - injection H as <-. split; [constructor|reflexivity].
  - destruct (f x) as [y|] eqn:E; [|discriminate H]. destruct (option_map_all f l) as [ys'|]; [|discriminate H].
    injection H as <-. destruct (IH _ eq_refl) as [H1 H2]. split; [constructor; eauto|cbn; lia].
Qed.

Lemma fold_octets_range l : Forall (fun v => 0 <= v < 256) l -> forall acc k, 0 <= acc < 256 ^ Z.of_nat k ->
  0 <= fold_left (fun a v => a * 256 + v) l acc < 256 ^ Z.of_nat (k + length l).
Proof.
  induction 1 as [|v l Hv _ IH]; intros acc k Ha; cbn [fold_left length].
  - now rewrite Nat.add_0_r.
  - replace (k + S (length l))%nat with (S k + length l)%nat by lia. apply IH.
    rewrite Nat2Z.inj_succ, Z.pow_succ_r by lia. nia.
Qed.

Lemma parse_short_v4_range s v : parse_short_v4 s = Some v -> 0 <= v < 2 ^ 32.
Proof.
  unfold parse_short_v4. destruct (Nat.ltb_spec 4 (length (split_on 46 s []))) as [|Hle]; [dsc|].
  destruct (option_map_all u8_dec (split_on 46 s [])) as [octs|] eqn:E; [|dsc].
  intros H. injection H as <-.
  destruct (option_map_all_forall u8_dec (fun v => 0 <= v < 256) u8_dec_range _ _ E) as [Ho Hl].
  assert (Hall : Forall (fun v => 0 <= v < 256) (octs ++ repeat 0 (4 - length octs))).
  { apply Forall_app. split; [exact Ho|]. apply Forall_forall. intros x Hx. apply repeat_spec in Hx. subst. lia. }
  pose proof (fold_octets_range _ Hall 0 0%nat ltac:(cbn; lia)) as B.
  rewrite app_length, repeat_length in B.
  replace (0 + (length octs + (4 - length octs)))%nat with 4%nat in B by lia.
  change (256 ^ Z.of_nat 4) with (2 ^ 32) in B. exact B.
Qed.

Lemma parse_loose_ip_ok s a : parse_loose_ip s = Some a -> ip_ok a.
Proof.
  unfold parse_loose_ip. destruct (parse_addr s) as [x|] eqn:E.
  - intros H. injection H as <-. exact (parse_addr_ok _ _ E).
  - destruct (parse_short_v4 s) as [v|] eqn:E2; [|dsc]. intros H. injection H as <-. exact (parse_short_v4_range _ _ E2).
Qed.

Lemma parse_cidr_ok c it : parse_cidr c = inl it -> ip_item_ok it.
Proof.
  unfold parse_cidr. destruct (rfind_byte 47 c 0 None) as [i|].
  - destruct (parse_loose_ip (firstn i c)) as [a|] eqn:Ea; [|dsc]. apply parse_loose_ip_ok in Ea.
    destruct (parse_prefix_len (skipn (S i) c)) as [n|]; [|dsc].
    destruct a as [v|v].
    + destruct (32 <? n); [dsc|]. destruct (v mod 2 ^ (32 - n) =? 0); [|dsc]. intros H. injection H as <-. exact Ea.
    + destruct (128 <? n); [dsc|]. destruct (v mod 2 ^ (128 - n) =? 0); [|dsc]. intros H. injection H as <-. exact Ea.
  - destruct (parse_loose_ip c) as [[v|v]|] eqn:Ea; [| |dsc]; apply parse_loose_ip_ok in Ea;
      intros H; injection H as <-; exact Ea.
Qed.

Lemma lex_ip_range_ok i it r : lex_ip_range i = LOk it r -> ip_item_ok it.
Proof.
  unfold lex_ip_range. intros H. apply lbind_ok in H. destruct H as (c & rest0 & _ & H). revert H.
  destruct (find_sub [46%N; 46%N] c 0) as [j|].
  - destruct (parse_addr (firstn j c)) as [first|] eqn:E1; [|dsc].
    destruct (parse_addr (skipn (j + 2) c)) as [last|] eqn:E2; [|dsc].
    apply parse_addr_ok in E1, E2.
    destruct first as [a|a], last as [b|b]; try dsc.
    + destruct (a <=? b); [|dsc]. intros H. injection H as <- _. split; assumption.
    + destruct (a <=? b); [|dsc]. intros H. injection H as <- _. split; assumption.
  - destruct (parse_cidr c) as [x|e] eqn:Ec.
    + intros H. injection H as <- _. now apply parse_cidr_ok in Ec.
    + destruct e; dsc.
Qed.

(* ---- literals reaching a comparison ---- *)
Lemma lex_rhs_ok t i x r : lex_rhs t i = LOk x r -> rhs_ok x.
Proof.
  unfold lex_rhs. destruct t; try dsc; intros H; apply lmap_ok in H; destruct H as (a & H & ->); cbn [rhs_ok]; auto.
  eapply lex_ip_ok; eauto.
Qed.

Lemma brace_items_ok {A} (P : A -> Prop) (lex1 : bytes -> lres A) :
  (forall i a r, lex1 i = LOk a r -> P a) ->
  forall fuel input acc l r, Forall P acc -> brace_items fuel lex1 input acc = LOk l r -> Forall P l.
Proof.
  intros H1. induction fuel as [|f IH]; intros input acc l r Hacc H; cbn [brace_items] in H; [discriminate H|].
  destruct (starts_with [125%N] (skip_space input)).
  - injection H as <- _. now apply Forall_rev.
  - apply lbind_ok in H. destruct H as (x & rest & Hx & H). eapply IH; [|exact H]. constructor; eauto.
Qed.

Lemma brace_ip_ok i l r : lex_brace_list lex_ip_range i = LOk l r -> Forall ip_item_ok l.
Proof.
  unfold lex_brace_list. intros H. apply lbind_ok in H. destruct H as (u & rest & _ & H).
  eapply (brace_items_ok ip_item_ok lex_ip_range lex_ip_range_ok); [constructor|exact H].
Qed.

Lemma ips_ok_list_app l e : ips_ok_list (lexprs_of_list l) -> ips_ok e -> ips_ok_list (lexprs_of_list (l ++ [e])).
Proof. induction l as [|x l IH]; cbn [app lexprs_of_list ips_ok_list]; intros H He; [auto|]. destruct H. auto. Qed.

Lemma ips_ok_combine lhs op rhs : ips_ok lhs -> ips_ok rhs -> ips_ok (combine lhs op rhs).
Proof.
  intros Hl Hr. unfold combine.
  assert (Hpair : ips_ok (ECombining op (LCons lhs (LCons rhs LNil)))) by (cbn; auto).
  destruct lhs as [o items| | | | |]; try exact Hpair. destruct (same_logop o op); [|exact Hpair].
  cbn [ips_ok] in Hl |- *. apply ips_ok_list_app; [|exact Hr]. now rewrite TypingProofs.lexprs_of_to_list.
Qed.

Lemma ips_ok_args_of_list l : Forall ips_ok_arg l -> ips_ok_args (args_of_list l).
Proof. induction 1; cbn [args_of_list ips_ok_args]; auto. Qed.

Section Ips.
Variable sch : scheme.
Variable st : settings.

Lemma with_lhs_ips f d input lhs e r :
  ips_ok_i lhs -> lex_with_lhs sch st f d input lhs = LOk e r -> ips_ok e.
Proof.
  intros Hl. destruct f as [|f]; [dsc|]. cbn [lex_with_lhs]. cbv zeta.
  repeat first
    [ match goal with
      | |- LOk (EComparison lhs ?op) _ = LOk e r -> _ =>
          let Hx := fresh "Hx" in
          intros Hx; injection Hx as <- _; cbn [ips_ok cmp_ips_ok]; split; [exact Hl|];
          first [exact I | eapply lex_rhs_ok; eassumption | eapply brace_ip_ok; eassumption]
      | |- LErr _ _ _ = _ -> _ => discriminate
      | |- LPanic = _ -> _ => discriminate
      | |- LFuel = _ -> _ => discriminate
      | |- lbind ?x ?k = LOk e r -> _ =>
          let Hy := fresh "Hy" in let Hz := fresh "Hz" in
          intros Hy; apply lbind_ok in Hy; destruct Hy as (? & ? & Hz & Hy); revert Hy
      | |- (match ?x with _ => _ end) = _ -> _ => destruct x
      | |- (if ?c then _ else _) = _ -> _ => destruct c
      end ].
Qed.

Record IPS (f : nat) : Prop := {
  ips_logical : forall d i e r, lex_logical sch st f d i = LOk e r -> ips_ok e;
  ips_more : forall d lhs minp la e r, ips_ok lhs -> lex_more sch st f d lhs minp la = LOk e r -> ips_ok e;
  ips_inner : forall d rhs rest op p r, ips_ok rhs -> lex_inner sch st f d rhs rest op = LOk p r -> ips_ok (fst p);
  ips_simple : forall d i e r, lex_simple sch st f d i = LOk e r -> ips_ok e;
  ips_index : forall d i e r, lex_index_expr sch st f d i = LOk e r -> ips_ok_i e;
  ips_call : forall d i fn a r, lex_call sch st f d i fn = LOk a r -> ips_ok_args a;
  ips_call_args : forall d i def acc l r, Forall ips_ok_arg acc ->
      lex_call_args sch st f d i def acc = LOk l r -> Forall ips_ok_arg l;
  ips_arg : forall d i a r, lex_arg sch st f d i = LOk a r -> ips_ok_arg a;
}.

Lemma IPS_0 : IPS 0.
Proof. constructor; intros; discriminate. Qed.

Tactic Notation "lb" hyp(H) ident(x) ident(rest) ident(Hx) :=
  apply lbind_ok in H; destruct H as (x & rest & Hx & H).

Lemma IPS_S f : IPS f -> IPS (S f).
Proof.
  intros IH. constructor.
  - intros d i e r H. cbn [lex_logical] in H. lb H lhs rest0 Hs. eapply (ips_more f IH); [|exact H]. eapply (ips_simple f IH); eauto.
  - intros d lhs minp [o lrest] e r Hl H. cbn [lex_more fst snd] in H. destruct o as [op|]; [|now injection H as <- _].
    lb H rhs rhs_rest Hs.
    destruct (lex_inner sch st f d rhs rhs_rest op) as [[rhs' la'] rr'|k a n| |] eqn:Ei; try discriminate H.
    destruct (ty_lexpr sch lhs); [|discriminate H]. destruct (ty_lexpr sch rhs'); [|discriminate H].
    destruct (types_combinable _ _); [|discriminate H].
    eapply (ips_more f IH); [|exact H]. apply ips_ok_combine; [exact Hl|].
    exact (ips_inner f IH _ _ _ _ _ _ (ips_simple f IH _ _ _ _ Hs) Ei).
  - intros d rhs rest op p r Hr H. cbn [lex_inner] in H. cbv zeta in H.
    destruct (Nat.leb _ _); [injection H as <- _; exact Hr|].
    destruct (lex_more sch st f d rhs (fst (lex_combining_op rest)) (lex_combining_op rest)) as [rhs' rest'|k a n| |] eqn:Em;
      try discriminate H.
    eapply (ips_inner f IH); [|exact H]. eapply (ips_more f IH); eauto.
  - intros d i e r H. cbn [lex_simple] in H.
    destruct (starts_with [40%N] i).
    { lb H d' x Hi. lb H e1 rest1 Hl. lb H u rest2 He. injection H as <- _. cbn [ips_ok]. eapply (ips_logical f IH); eauto. }
    destruct (lex_alts unary_ops i) as [[u r0]|].
    { lb H d' x Hi. lb H e1 rest1 Hl. injection H as <- _. cbn [ips_ok]. eapply (ips_simple f IH); eauto. }
    destruct (lex_quant_call i) as [[q r0]|].
    { lb H d' x Hi. lb H u rest1 He. cbv zeta in H.
      destruct (lex_arg sch st f d' (skip_space rest1)) as [a rest2|k aa n| |] eqn:Ea; try discriminate H.
      pose proof (ips_arg f IH _ _ _ _ Ea) as Ha.
      destruct a as [ie|lit|le].
      - revert H. destruct (Nat.ltb 0 _); [dsc|]. destruct (ty_iexpr sch ie) as [[| | | |[]|]|]; try dsc.
        intros H. lb H u2 rest3 He2. injection H as <- _. exact Ha.
      - discriminate H.
      - revert H. destruct (ty_lexpr sch le) as [[| | | |[]|]|]; try dsc.
        intros H. lb H u2 rest3 He2. injection H as <- _. exact Ha. }
    lb H lhs rest0 Hi. eapply with_lhs_ips; [|exact H]. eapply (ips_index f IH); eauto.
  - intros d i e r H. cbn [lex_index_expr] in H.
    destruct (lex_ident_name i) as [name rest0|k a n| |]; try discriminate H.
    destruct (scheme_get sch name) as [[j|j]|]; [| |discriminate H].
    + destruct (field_ty sch j); [|discriminate H]. apply lmap_ok in H. destruct H as (idx & _ & ->). exact I.
    + destruct (increase st d (skip_space rest0)) as [d' x|k a n| |]; try discriminate H.
      destruct (lex_call sch st f d' rest0 j) as [a rest1|k a n| |] eqn:Ec; try discriminate H.
      destruct (ty_call sch j a); [|discriminate H]. apply lmap_ok in H. destruct H as (idx & _ & ->).
      cbn [ips_ok_i]. eapply (ips_call f IH); eauto.
  - intros d i fn a r H. cbn [lex_call] in H. destruct (fn_of sch fn) as [def|]; [|discriminate H].
    lb H u rest He. apply lmap_ok in H. destruct H as (l & Hl & ->). apply ips_ok_args_of_list.
    eapply (ips_call_args f IH); [constructor|exact Hl].
  - intros d i def acc l r Hacc H. cbn [lex_call_args] in H. cbv zeta in H.
    assert (Hfin : forall i0, (if Nat.ltb (length acc) (if fn_variadic_same def then 2%nat else length (fn_params def))
                            then LErr EInvalidArgumentsCount i0 (length i0)
                            else lbind (expect [41%N] i0) (fun _ rest => LOk acc rest)) = LOk l r -> Forall ips_ok_arg l).
    { intros i0. destruct (Nat.ltb _ _); [dsc|]. intros Hx. lb Hx u rest He. injection Hx as <- _. exact Hacc. }
    assert (Hgo : lbind (if Nat.eqb (length acc) 0 then LOk tt i else expect [44%N] i)
        (fun _ input1 =>
           match lex_arg sch st f d (skip_space input1) with
           | LOk a rest =>
               if (Nat.ltb 0 (arg_map_each_count a) && negb (Nat.eqb (length acc) 0))%bool
               then LErr EInvalidMapEachAccess (skip_space input1) (span_len (skip_space input1) rest)
               else if (negb (fn_variadic_same def)
                       && Nat.leb (length (fn_params def) + length (fn_opt_params def)) (length acc))%bool
               then LErr EInvalidArgumentsCount (skip_space input1) (length (skip_space input1))
               else
                 match ty_arg sch a with
                 | None => LPanic
                 | Some t =>
                     match check_param sch def acc a t with
                     | PcOk => lex_call_args sch st f d (skip_space rest) def (acc ++ [a])
                     | PcKind => LErr EInvalidArgumentKind (skip_space input1) (span_len (skip_space input1) rest)
                     | PcType => LErr EInvalidArgumentType (skip_space input1) (span_len (skip_space input1) rest)
                     | PcUnreachable => LPanic
                     end
                 end
           | LErr k a n => LErr k a n
           | LPanic => LPanic
           | LFuel => LFuel
           end) = LOk l r -> Forall ips_ok_arg l).
    { intros Hx. lb Hx u input1 Hu.
      destruct (lex_arg sch st f d (skip_space input1)) as [a rest|k aa n| |] eqn:Ea; try discriminate Hx.
      revert Hx. destruct (Nat.ltb 0 (arg_map_each_count a) && _)%bool; [dsc|].
      destruct (negb (fn_variadic_same def) && _)%bool; [dsc|].
      destruct (ty_arg sch a); [|dsc]. destruct (check_param sch def acc a t); try dsc. intros Hx.
      eapply (ips_call_args f IH); [|exact Hx]. apply Forall_app. split; [exact Hacc|].
      constructor; [|constructor]. eapply (ips_arg f IH); eauto. }
    revert H. destruct i as [|b rr]; [apply Hfin|].
    destruct (N.eq_dec b 41) as [->|N41]; [apply Hfin|].
    other_byte b Hgo.
  - intros d i a r H. cbn [lex_arg] in H. destruct (first_chars i) as [[c1 c2] c3]. cbv zeta in H.
    assert (Hlit : forall x : lres arg,
       x = (match lex_ip i with
            | LOk a rest => LOk (ALit (RIp a)) rest
            | LPanic => LPanic
            | LFuel => LFuel
            | LErr _ _ _ =>
                match lex_int i with
                | LOk z rest => LOk (ALit (RInt z)) rest
                | LPanic => LPanic
                | LFuel => LFuel
                | LErr _ _ _ =>
                    match lex_bytes i with
                    | LOk p rest => LOk (ALit (RBytes (fst p) (snd p))) rest
                    | LPanic => LPanic
                    | LFuel => LFuel
                    | LErr _ _ _ => LErr EEOF i (length i)
                    end
                end
            end) -> x = LOk a r -> ips_ok_arg a).
    { intros x -> Hx. destruct (lex_ip i) eqn:E1; try discriminate Hx.
      - injection Hx as <- _. cbn. eapply lex_ip_ok; eauto.
      - destruct (lex_int i); try discriminate Hx; [injection Hx as <- _; exact I|].
        destruct (lex_bytes i); try discriminate Hx. injection Hx as <- _. exact I. }
    assert (Hidx : forall propagate : bool,
       (match lex_index_expr sch st f d i with
        | LOk lhs rest =>
            match lex_alts comparison_ops (skip_space rest) with
            | Some _ => lmap ALogical (lex_with_lhs sch st f d rest lhs)
            | None => LOk (AIndex lhs) rest
            end
        | LErr k a n => if propagate then LErr k a n else
            (match lex_ip i with
             | LOk a rest => LOk (ALit (RIp a)) rest
             | LPanic => LPanic
             | LFuel => LFuel
             | LErr _ _ _ =>
                 match lex_int i with
                 | LOk z rest => LOk (ALit (RInt z)) rest
                 | LPanic => LPanic
                 | LFuel => LFuel
                 | LErr _ _ _ =>
                     match lex_bytes i with
                     | LOk p rest => LOk (ALit (RBytes (fst p) (snd p))) rest
                     | LPanic => LPanic
                     | LFuel => LFuel
                     | LErr _ _ _ => LErr EEOF i (length i)
                     end
                 end
             end)
        | LPanic => LPanic
        | LFuel => LFuel
        end) = LOk a r -> ips_ok_arg a).
    { intros propagate Hx.
      destruct (lex_index_expr sch st f d i) as [lhs rest0|k aa n| |] eqn:Ei; try discriminate Hx.
      - pose proof (ips_index f IH _ _ _ _ Ei) as Hl.
        destruct (lex_alts comparison_ops (skip_space rest0)).
        + apply lmap_ok in Hx. destruct Hx as (e & Hx & ->). cbn. eapply with_lhs_ips; eauto.
        + injection Hx as <- _. exact Hl.
      - destruct propagate; [discriminate Hx|]. eapply Hlit; [reflexivity|exact Hx]. }
    destruct c1 as [b1|]; [|exact (Hidx false H)].
    destruct ((b1 =? 34)%N || _)%bool.
    { apply lmap_ok in H. destruct H as (p & _ & ->). exact I. }
    destruct (_ || _ || _)%bool.
    { apply lmap_ok in H. destruct H as (e & He & ->). cbn. eapply (ips_logical f IH); eauto. }
    destruct (_ || _ || _)%bool; [exact (Hidx true H)|exact (Hidx false H)].
Qed.

Theorem parser_ips f : IPS f.
Proof. induction f as [|f IH]; [apply IPS_0|now apply IPS_S]. Qed.

End Ips.

Theorem parse_filter_ips_ok sch st text e r : parse_filter sch st text = LOk e r -> ips_ok e.
Proof.
  unfold parse_filter. intros H. apply complete_ok in H. destruct H as [H _].
  apply lbind_ok in H. destruct H as (e0 & rest0 & Hl & H).
  assert (e0 = e) as -> by (destruct (ty_lexpr sch e0) as [[]|]; try discriminate H; now injection H as <- _).
  eapply (ips_logical sch st _ (parser_ips sch st _)); eauto.
Qed.
