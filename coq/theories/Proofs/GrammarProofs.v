(* Every text of the surface grammar (Spec/Grammar.v) is accepted by the parser model with exactly the
   AST the grammar assigns to it: completeness of the parser for rendered filters, for every layout and
   every choice of operator spelling.  One mutual induction over the three grammar relations, on top of
   the literal round trips (LexProofs), the token-boundary lemmas (LayoutProofs) and the refinement of the
   abstract climbing loop (ClimbText). *)
From Coq Require Import List Arith ZArith NArith Lia Bool String ZifyBool.
From WF Require Import Base.Bytes Sem.RangeSet Lang.Types Lang.Ast Parse.Lex Sem.Compile Parse.Parser Parse.Climb
  Spec.C06 Spec.C07 Spec.Grammar Proofs.LexBase Proofs.LexProofs Proofs.LexMiscProofs Proofs.LayoutProofs Proofs.ClimbText Proofs.FuelProofs.
Import ListNotations.
Open Scope N_scope.
Local Notation length := List.length (only parsing).

(* ---- what may follow a token ---- *)
(* after a complete simple expression: end of input, white space, `)`, `,`, or a symbolic logical operator *)
Definition atom_follow (r : bytes) : Prop :=
  match r with [] => True | b :: _ => is_space b = true \/ b = 41 \/ b = 38 \/ b = 124 \/ b = 94 \/ b = 44 end.
(* after a field name inside a comparison: additionally the first byte of a symbolic comparison operator *)
Definition name_follow (r : bytes) : Prop :=
  match r with
  | [] => True
  | b :: _ => is_space b = true \/ b = 41 \/ b = 38 \/ b = 124 \/ b = 94 \/ b = 44 \/ b = 61 \/ b = 33 \/ b = 62 \/ b = 60 \/ b = 126
  end.

Lemma atom_name_follow r : atom_follow r -> name_follow r.
Proof. destruct r as [|b r]; cbn; [auto|]. intuition. Qed.

Ltac follow_cases H :=
  cbn in H; repeat match type of H with _ \/ _ => destruct H as [H|H] end.

Lemma space_cases b : is_space b = true -> b = 32 \/ b = 13 \/ b = 10.
Proof.
  unfold is_space. intros H. apply orb_true_iff in H. destruct H as [H|H]; [apply orb_true_iff in H; destruct H as [H|H]|];
    apply N.eqb_eq in H; auto.
Qed.

Ltac follow_solve H :=
  follow_cases H; try (apply space_cases in H; destruct H as [H|[H|H]]); subst; cbn; try reflexivity; try discriminate; auto.

Lemma follow_int r : atom_follow r -> int_follow_ok r.
Proof. destruct r as [|b r]; [exact (fun _ => I)|]. intros H. unfold int_follow_ok, next_not. follow_solve H. Qed.
Lemma follow_ip r : atom_follow r -> ip_follow_ok r.
Proof. destruct r as [|b r]; [exact (fun _ => I)|]. intros H. unfold ip_follow_ok, next_not. follow_solve H. Qed.
Lemma follow_hex r : atom_follow r -> hexpairs_follow_ok r.
Proof. destruct r as [|b r]; [exact (fun _ => I)|]. intros H. unfold hexpairs_follow_ok, next_not. follow_solve H. Qed.

Definition ident_stop (r : bytes) : Prop :=
  match r with [] => True | b :: _ => (is_ascii b && is_ident_char b) = false /\ b <> 46 end.
Lemma follow_ident r : name_follow r -> ident_stop r.
Proof. destruct r as [|b r]; [exact (fun _ => I)|]. intros H. unfold ident_stop. follow_solve H; split; try reflexivity; discriminate. Qed.
Lemma follow_no_bracket r : name_follow r -> starts_with [91] r = None.
Proof. destruct r as [|b r]; [reflexivity|]. intros H. follow_solve H. Qed.
Lemma follow_no_paren_kw r : name_follow r -> True.
Proof. trivial. Qed.

(* ---- identifiers ---- *)
Lemma take_while_app seg r :
  Forall ident_byte seg -> match r with [] => True | b :: _ => (is_ascii b && is_ident_char b) = false end ->
  take_while_go is_ident_char (seg ++ r) = (seg, r).
Proof.
  intros Hs Hr. induction Hs as [|b seg Hb _ IH]; cbn [app take_while_go].
  - destruct r as [|b r]; [reflexivity|]. cbn [take_while_go]. now rewrite Hr.
  - unfold ident_byte in Hb. rewrite Hb, IH. reflexivity.
Qed.

Lemma ident_go_text name : ident_text name -> forall r fuel, ident_stop r -> (length name < fuel)%nat ->
  ident_go fuel (name ++ r) = LOk tt r.
Proof.
  induction 1 as [seg Hne Hs|seg r0 Hne Hs Hr0 IH]; intros r fuel Hr Hf.
  - destruct fuel as [|f]; [lia|]. cbn [ident_go]. rewrite take_while_app; [|assumption|destruct r; [exact I|apply Hr]].
    destruct seg as [|b seg]; [congruence|]. destruct r as [|c r]; [reflexivity|].
    destruct Hr as [_ Hc]. destruct c as [|p]; [reflexivity|].
    do 6 (try (destruct p as [p|p|]); try reflexivity); congruence.
  - destruct fuel as [|f]; [lia|]. cbn [ident_go]. rewrite <- app_assoc. cbn [app].
    rewrite take_while_app; [|assumption|reflexivity].
    destruct seg as [|b seg]; [congruence|]. apply IH; [assumption|].
    rewrite app_length in Hf. cbn [List.length] in Hf. cbn [List.length] in *. lia.
Qed.

Lemma ident_name_roundtrip name r : ident_text name -> ident_stop r -> lex_ident_name (name ++ r) = LOk name r.
Proof.
  intros Hn Hr. unfold lex_ident_name. rewrite (ident_go_text name Hn r); [|assumption|rewrite app_length; lia].
  cbn [lbind]. unfold span_len. rewrite app_length. replace (length name + length r - length r)%nat with (length name) by lia.
  rewrite firstn_app, firstn_all, Nat.sub_diag. cbn [firstn]. now rewrite app_nil_r.
Qed.

Lemma ident_text_first name : ident_text name -> exists b t, name = b :: t /\ ident_byte b.
Proof.
  destruct 1 as [seg Hne Hs|seg r0 Hne Hs _]; (destruct Hs as [|b seg Hb _]; [congruence|]).
  - exists b, seg. auto.
  - exists b, (seg ++ 46 :: r0). auto.
Qed.

Lemma ident_byte_facts b : ident_byte b -> is_space b = false /\ b <> 61 /\ b <> 40 /\ b <> 33.
Proof.
  unfold ident_byte, is_ascii, is_ident_char, is_alnum, is_digit, is_space. intros H.
  repeat split; try (intros ->; discriminate H).
  destruct (b =? 32) eqn:E1; [apply N.eqb_eq in E1; subst; discriminate H|].
  destruct (b =? 13) eqn:E2; [apply N.eqb_eq in E2; subst; discriminate H|].
  destruct (b =? 10) eqn:E3; [apply N.eqb_eq in E3; subst; discriminate H|]. reflexivity.
Qed.

(* a keyword that is not a prefix of the name is not a prefix of the name followed by a non-identifier byte *)
Lemma starts_with_app_none p : Forall ident_byte p -> forall name r,
  starts_with p name = None -> ident_stop r -> starts_with p (name ++ r) = None.
Proof.
  induction 1 as [|x p Hx Hp IH]; intros name r Hn Hr; [destruct name; discriminate Hn|].
  destruct name as [|y n']; cbn [app].
  - destruct r as [|b r]; [reflexivity|]. cbn [starts_with]. destruct (x =? b) eqn:E; [|reflexivity].
    apply N.eqb_eq in E. subst b. destruct Hr as [Hr _]. unfold ident_byte in Hx. congruence.
  - cbn [starts_with] in Hn |- *. destruct (x =? y); [now apply IH|reflexivity].
Qed.

Lemma kw_bytes : Forall ident_byte (bs "not") /\ Forall ident_byte (bs "any") /\ Forall ident_byte (bs "all").
Proof. repeat split; repeat constructor. Qed.

(* a field name is not read as `(`, `not`/`!`, `any(`/`all(` *)
Lemma name_not_special name r : ident_text name -> kw_free name -> ident_stop r ->
  starts_with [40] (name ++ r) = None /\ lex_alts unary_ops (name ++ r) = None /\ lex_quant_call (name ++ r) = None.
Proof.
  intros Hn (K1 & K2 & K3) Hr. destruct kw_bytes as (B1 & B2 & B3).
  pose proof (starts_with_app_none _ B1 name r K1 Hr) as E1.
  pose proof (starts_with_app_none _ B2 name r K2 Hr) as E2.
  pose proof (starts_with_app_none _ B3 name r K3 Hr) as E3.
  destruct (ident_text_first name Hn) as (b & t & -> & Hb). destruct (ident_byte_facts b Hb) as (_ & _ & H40 & H33).
  assert (S1 : starts_with [40] ((b :: t) ++ r) = None).
  { cbn [app starts_with]. destruct (40 =? b) eqn:E; [apply N.eqb_eq in E; congruence|reflexivity]. }
  assert (S2 : starts_with (bs "!") ((b :: t) ++ r) = None).
  { cbn [app]. change (bs "!") with [33]. cbn [starts_with]. destruct (33 =? b) eqn:E; [apply N.eqb_eq in E; congruence|reflexivity]. }
  split; [exact S1|]. split.
  - unfold unary_ops. cbn [lex_alts]. change (Parser.s "not") with (bs "not"). change (Parser.s "!") with (bs "!").
    now rewrite E1, S2.
  - unfold lex_quant_call, quant_ops. cbn [lex_alts]. change (Parser.s "any") with (bs "any"). change (Parser.s "all") with (bs "all").
    now rewrite E2, E3.
Qed.

(* ---- literals ---- *)
(* what may follow a literal: nothing that continues a number, an address or a hex string *)
Definition lit_follow (r : bytes) : Prop :=
  int_follow_ok r /\ ip_follow_ok r /\ hexpairs_follow_ok r /\ no_dotdot_next r /\ listname_follow_ok r.
Lemma atom_lit_follow r : atom_follow r -> lit_follow r.
Proof.
  intros H. repeat split; [now apply follow_int|now apply follow_ip|now apply follow_hex| |].
  - destruct r as [|b r]; [exact I|]. follow_solve H.
  - destruct r as [|b r]; [exact I|]. unfold listname_follow_ok, next_not. follow_solve H.
Qed.
(* inside a brace list: white space or the closing brace *)
Definition item_follow (r : bytes) : Prop :=
  match r with [] => True | b :: _ => is_space b = true \/ b = 125 end.
Lemma item_lit_follow r : item_follow r -> lit_follow r.
Proof.
  intros H. destruct r as [|b r]; [repeat split|].
  unfold lit_follow, int_follow_ok, ip_follow_ok, hexpairs_follow_ok, listname_follow_ok, next_not.
  repeat split; follow_solve H.
Qed.

Lemma lit_roundtrip t lit v r : lit_text t lit v -> lit_follow r -> lex_rhs t (lit ++ r) = LOk v r.
Proof.
  intros H (Hi & Hp & Hh & _ & _). destruct H as [f v Hv Hf|l Hl|n body Hn Hb Hc|u1 u2 b0 l Hb0 Hl Hne|t a Ha]; cbn [lex_rhs].
  - assert (E : lex_int (print_int f v ++ r) = LOk v r).
    { destruct f as [|u pad|pad].
      + apply int_dec_roundtrip; assumption.
      + apply int_hex_roundtrip; [|assumption]. cbn in Hf. unfold in_i64, i64_min, i64_max in *. lia.
      + apply int_oct_roundtrip; [|assumption]. cbn in Hf. unfold in_i64, i64_min, i64_max in *. lia. }
    rewrite E. reflexivity.
  - rewrite quoted_roundtrip by assumption. reflexivity.
  - rewrite raw_roundtrip_utf8 by assumption. reflexivity.
  - rewrite hexpairs_roundtrip; [reflexivity|assumption|exact Hl|assumption|assumption].
  - rewrite (addr_roundtrip t a r Ha Hp). reflexivity.
Qed.

Lemma lit_bytes_roundtrip lit b f r : lit_text TBytes lit (RBytes b f) -> lit_follow r -> lex_bytes (lit ++ r) = LOk (b, f) r.
Proof.
  intros H Hr. pose proof (lit_roundtrip _ _ _ r H Hr) as E. cbn [lex_rhs] in E. unfold lmap in E.
  destruct (lex_bytes (lit ++ r)) as [[b' f'] r'|k a n| |]; cbn [lbind fst snd] in E; try discriminate E.
  now injection E as -> -> ->.
Qed.
Lemma lit_int_roundtrip lit z r : lit_text TInt lit (RInt z) -> lit_follow r -> lex_int (lit ++ r) = LOk z r.
Proof.
  intros H Hr. pose proof (lit_roundtrip _ _ _ r H Hr) as E. cbn [lex_rhs] in E. unfold lmap in E.
  destruct (lex_int (lit ++ r)) as [z' r'|k a n| |]; cbn [lbind] in E; try discriminate E.
  now injection E as -> ->.
Qed.

(* ---- token ends ---- *)
Lemma visible_nospace b : visible b -> is_space b = false.
Proof.
  intros [_ H]. unfold is_ws_ascii in H. unfold is_space.
  destruct (b =? 32) eqn:E1; [apply N.eqb_eq in E1; subst; discriminate H|].
  destruct (b =? 13) eqn:E2; [apply N.eqb_eq in E2; subst; discriminate H|].
  destruct (b =? 10) eqn:E3; [apply N.eqb_eq in E3; subst; discriminate H|]. reflexivity.
Qed.
Lemma skip_space_tok t r : tok_start t -> skip_space (t ++ r) = t ++ r.
Proof. destruct t as [|b t]; [intros []|]. intros [Hv _]. cbn [app skip_space]. now rewrite (visible_nospace b Hv). Qed.
Lemma tok_end_app x y : tok_end y -> tok_end (x ++ y).
Proof.
  unfold tok_end. rewrite rev_app_distr. destruct (rev y) as [|b r]; [intros []|]. cbn [app]. auto.
Qed.
Lemma tok_start_app x y : tok_start x -> tok_start (x ++ y).
Proof. destruct x; [intros []|]. cbn. auto. Qed.
Lemma tok_end_last x b : visible b -> tok_end (x ++ [b]).
Proof. intros H. apply tok_end_app. exact H. Qed.

Lemma ident_byte_visible b : ident_byte b -> visible b /\ b <> 61 /\ b <> 125.
Proof.
  unfold ident_byte, visible, is_ascii, is_ident_char, is_alnum, is_digit, is_ws_ascii. intros H.
  apply andb_true_iff in H. destruct H as [H1 H2]. apply N.ltb_lt in H1.
  repeat split; [exact H1| |intros ->; discriminate H2|intros ->; discriminate H2].
  destruct ((9 <=? b) && (b <=? 13)) eqn:E.
  { apply andb_true_iff in E. destruct E as [Ea Eb]. apply N.leb_le in Ea, Eb.
    assert (b = 9 \/ b = 10 \/ b = 11 \/ b = 12 \/ b = 13) as [->|[->|[->|[->| ->]]]] by lia; discriminate H2. }
  destruct (b =? 32) eqn:E2; [apply N.eqb_eq in E2; subst; discriminate H2|reflexivity].
Qed.
Lemma ident_text_ends name : ident_text name -> tok_start name /\ tok_end name.
Proof.
  intros H. split.
  - destruct (ident_text_first name H) as (b & t & -> & Hb). exact (ident_byte_visible b Hb).
  - induction H as [seg Hne Hs|seg r0 Hne Hs Hr0 IH].
    + destruct (exists_last Hne) as (pre & b & ->). apply tok_end_last.
      apply Forall_app in Hs. destruct Hs as [_ Hs]. inversion Hs; subst. now apply ident_byte_visible.
    + change (seg ++ 46 :: r0) with (seg ++ [46] ++ r0). rewrite app_assoc. now apply tok_end_app.
Qed.

Lemma no_eq_ws_tok ws lit r : layout_ws ws -> tok_start lit -> no_eq_follows (ws ++ lit ++ r).
Proof.
  intros Hw Ht. destruct ws as [|c ws]; cbn [app].
  - destruct lit as [|b lit]; [destruct Ht|]. destruct Ht as [_ [Hb _]]. cbn. destruct b as [|p]; [exact I|].
    do 6 (try (destruct p as [p|p|]); try exact I). congruence.
  - inversion Hw as [|? ? Hc _]; subst. destruct Hc as [->|[->| ->]]; exact I.
Qed.

(* integers in every form begin and end with a visible character: the side conditions of the grammar hold *)
Lemma digit_tok u d : (0 <= d < 16)%Z -> visible (digit_char u d) /\ digit_char u d <> 61 /\ digit_char u d <> 125.
Proof.
  intros H. pose proof (digit_char_lt128 u d H) as L. pose proof (digit_char_hex u d H) as X.
  unfold visible, is_ws_ascii. unfold is_hexdigit, Lex.is_digit in X. repeat split; lia.
Qed.
Lemma digits_ends radix u ds : (2 <= radix <= 16)%Z -> ds <> [] -> Forall (is_digit_of radix u) ds -> tok_start ds /\ tok_end ds.
Proof.
  intros Hr Hne Hf. split.
  - destruct ds as [|c t]; [congruence|]. inversion Hf as [|? ? (d & Hd & ->) _]; subst. apply digit_tok. lia.
  - destruct (exists_last Hne) as (pre & c & ->). apply tok_end_last.
    apply Forall_app in Hf. destruct Hf as [_ Hf]. inversion Hf as [|? ? (d & Hd & ->) _]; subst. apply digit_tok. lia.
Qed.
Lemma print_int_ends f v : int_form_ok f v -> tok_start (print_int f v) /\ tok_end (print_int f v).
Proof.
  intros Hok. destruct f as [|u pad|pad]; cbn [print_int].
  - unfold print_dec. destruct (v <? 0)%Z eqn:E.
    + destruct (print_radix_spec 10 false (- v)%Z ltac:(lia) ltac:(lia)) as (Hne & Hf & _).
      destruct (digits_ends 10 false _ ltac:(lia) Hne Hf) as [_ He]. split.
      * cbn. repeat split; discriminate.
      * change (45 :: print_radix 10 (- v) false) with ([45] ++ print_radix 10 (- v) false). now apply tok_end_app.
    + destruct (print_radix_spec 10 false v ltac:(lia) ltac:(lia)) as (Hne & Hf & _).
      exact (digits_ends 10 false _ ltac:(lia) Hne Hf).
  - cbn in Hok. destruct (print_radix_spec 16 u v ltac:(lia) Hok) as (Hne & Hf & _).
    destruct (digits_ends 16 u _ ltac:(lia) Hne Hf) as [_ He]. split.
    + cbn. repeat split; discriminate.
    + rewrite app_assoc. now apply tok_end_app.
  - cbn in Hok. destruct (print_radix_spec 8 false v ltac:(lia) Hok) as (Hne & Hf & _).
    destruct (digits_ends 8 false _ ltac:(lia) Hne Hf) as [_ He]. split.
    + cbn. repeat split; discriminate.
    + change (48 :: repeat 48 pad ++ print_radix 8 v false) with ((48 :: repeat 48 pad) ++ print_radix 8 v false).
      now apply tok_end_app.
Qed.
Lemma print_quoted_ends l : tok_start (print_quoted l) /\ tok_end (print_quoted l).
Proof.
  unfold print_quoted. split; [cbn; repeat split; discriminate|].
  change (34 :: print_qbody l ++ [34]) with ((34 :: print_qbody l) ++ [34]). apply tok_end_last. split; reflexivity.
Qed.

(* ---- index accesses ---- *)
Lemma idx_ty t0 txt idx t : idx_text t0 txt idx t -> ty_index t0 idx = Some t.
Proof. induction 1; cbn [ty_index]; auto. Qed.

Lemma idx_text_first t0 txt idx t x : idx_text t0 txt idx t -> txt = [] \/ exists y, txt ++ x = 91 :: y.
Proof. destruct 1; [now left|right; eexists; reflexivity..]. Qed.

Lemma close_bracket_follow ws x : layout_ws ws -> lit_follow (ws ++ 93 :: x).
Proof.
  intros Hw. destruct ws as [|c ws]; cbn [app].
  - repeat split.
  - inversion Hw as [|? ? Hc _]; subst. destruct Hc as [->|[->| ->]]; repeat split.
Qed.

Section Main.
Variables (sch : scheme) (st : settings).

Lemma lex_indexes_text t0 txt idx t : idx_text t0 txt idx t ->
  forall r acc fuel, starts_with [91] r = None -> (List.length txt < fuel)%nat ->
  lex_indexes sch st fuel (txt ++ r) t0 acc = LOk (rev acc ++ idx) r.
Proof.
  induction 1 as [t|e ws1 f n ws2 rest idx t H1 H2 Hn Hf _ IH|e ws1 l ws2 rest idx t H1 H2 Hl Hu _ IH
                  |e ws1 ws2 rest idx t H1 H2 _ IH|e ws1 ws2 rest idx t H1 H2 _ IH]; intros r acc fuel Hr Hfu.
  - destruct fuel as [|fu]; [cbn in Hfu; lia|]. cbn [app lex_indexes]. rewrite Hr. now rewrite app_nil_r.
  - destruct fuel as [|fu]; [cbn in Hfu; lia|].
    replace ((91 :: ws1 ++ print_int f n ++ ws2 ++ 93 :: rest) ++ r)
      with (91 :: ws1 ++ (print_int f n ++ ws2 ++ 93 :: rest ++ r)) by (cbn [app]; rewrite <- !app_assoc; reflexivity).
    cbn [lex_indexes starts_with]. rewrite N.eqb_refl. cbv iota beta.
    rewrite skip_space_ws by assumption. rewrite (skip_space_tok _ _ (proj1 (print_int_ends f n Hf))).
    rewrite (index_roundtrip f n _ Hn Hf (proj1 (close_bracket_follow ws2 _ H2))). cbn [lbind].
    rewrite (proj2 (index_layout [] ws2 [] _ (Forall_nil _) H2)). cbn [lbind index_step index_of_raw].
    rewrite IH; [cbn [rev]; now rewrite <- app_assoc|assumption|].
    repeat (cbn [List.length] in Hfu; rewrite ?app_length in Hfu). lia.
  - destruct fuel as [|fu]; [cbn in Hfu; lia|].
    replace ((91 :: ws1 ++ print_quoted l ++ ws2 ++ 93 :: rest) ++ r)
      with (91 :: ws1 ++ (print_quoted l ++ ws2 ++ 93 :: rest ++ r)) by (cbn [app]; rewrite <- !app_assoc; reflexivity).
    cbn [lex_indexes starts_with]. rewrite N.eqb_refl. cbv iota beta.
    rewrite skip_space_ws by assumption. rewrite (skip_space_tok _ _ (proj1 (print_quoted_ends l))).
    rewrite (map_key_utf8_only l _ Hl), Hu. cbn [lbind].
    rewrite (proj2 (index_layout [] ws2 [] _ (Forall_nil _) H2)). cbn [lbind index_step index_of_raw].
    rewrite IH; [cbn [rev]; now rewrite <- app_assoc|assumption|].
    repeat (cbn [List.length] in Hfu; rewrite ?app_length in Hfu). lia.
  - destruct fuel as [|fu]; [cbn in Hfu; lia|].
    replace ((91 :: ws1 ++ 42 :: ws2 ++ 93 :: rest) ++ r)
      with (91 :: ws1 ++ (42 :: ws2 ++ 93 :: rest ++ r)) by (repeat (cbn [app]; rewrite <- ?app_assoc); reflexivity).
    cbn [lex_indexes starts_with]. rewrite N.eqb_refl. cbv iota beta.
    rewrite skip_space_ws by assumption. cbn [skip_space]. change (is_space 42) with false. cbv iota.
    change (lex_field_index (42 :: ws2 ++ 93 :: rest ++ r)) with (@LOk raw_index RIEach (ws2 ++ 93 :: rest ++ r)).
    cbn [lbind]. rewrite (proj2 (index_layout [] ws2 [] _ (Forall_nil _) H2)). cbn [lbind index_step index_of_raw].
    rewrite IH; [cbn [rev]; now rewrite <- app_assoc|assumption|].
    repeat (cbn [List.length] in Hfu; rewrite ?app_length in Hfu). lia.
  - destruct fuel as [|fu]; [cbn in Hfu; lia|].
    replace ((91 :: ws1 ++ 42 :: ws2 ++ 93 :: rest) ++ r)
      with (91 :: ws1 ++ (42 :: ws2 ++ 93 :: rest ++ r)) by (repeat (cbn [app]; rewrite <- ?app_assoc); reflexivity).
    cbn [lex_indexes starts_with]. rewrite N.eqb_refl. cbv iota beta.
    rewrite skip_space_ws by assumption. cbn [skip_space]. change (is_space 42) with false. cbv iota.
    change (lex_field_index (42 :: ws2 ++ 93 :: rest ++ r)) with (@LOk raw_index RIEach (ws2 ++ 93 :: rest ++ r)).
    cbn [lbind]. rewrite (proj2 (index_layout [] ws2 [] _ (Forall_nil _) H2)). cbn [lbind index_step index_of_raw].
    rewrite IH; [cbn [rev]; now rewrite <- app_assoc|assumption|].
    repeat (cbn [List.length] in Hfu; rewrite ?app_length in Hfu). lia.
Qed.


(* ---- brace lists ---- *)
Lemma tok_start_not_close t x : tok_start t -> starts_with [125] (t ++ x) = None.
Proof.
  destruct t as [|b t]; [intros []|]. intros (_ & _ & Hb). cbn [app starts_with].
  destruct (125 =? b) eqn:E; [apply N.eqb_eq in E; congruence|reflexivity].
Qed.

Lemma items_tail_follow {A} (item : bytes -> A -> Prop) txt l x : items_tail item txt l -> item_follow (txt ++ x).
Proof.
  destruct 1 as [ws Hw|ws t a rest l Hw Hne _ _ _].
  - destruct ws as [|c ws]; [cbn; auto|]. inversion Hw as [|? ? Hc _]; subst. destruct Hc as [->|[->| ->]]; cbn; auto.
  - destruct ws as [|c ws]; [congruence|]. inversion Hw as [|? ? Hc _]; subst. destruct Hc as [->|[->| ->]]; cbn; auto.
Qed.

Section Items.
Context {A : Type} (item : bytes -> A -> Prop) (lex1 : bytes -> lres A).
Hypothesis item_lex : forall t a r, item t a -> item_follow r -> lex1 (t ++ r) = LOk a r.

Lemma brace_items_tail txt l : items_tail item txt l -> forall r acc fuel, (List.length txt < fuel)%nat ->
  brace_items fuel lex1 (txt ++ r) acc = LOk (rev acc ++ l) r.
Proof.
  induction 1 as [ws Hw|ws t a rest l Hw Hne Hi Hs Ht IH]; intros r acc fuel Hf.
  - destruct fuel as [|fu]; [lia|]. cbn [brace_items]. rewrite <- app_assoc. rewrite skip_space_ws by assumption.
    cbn [app skip_space]. change (is_space 125) with false. cbv iota. cbn [starts_with]. rewrite N.eqb_refl.
    now rewrite app_nil_r.
  - destruct fuel as [|fu]; [lia|]. cbn [brace_items]. rewrite <- !app_assoc. rewrite skip_space_ws by assumption.
    rewrite (skip_space_tok t _ Hs). rewrite (tok_start_not_close t _ Hs).
    rewrite (item_lex t a (rest ++ r) Hi (items_tail_follow item rest l r Ht)). cbn [lbind].
    rewrite IH; [cbn [rev]; now rewrite <- app_assoc|].
    rewrite !app_length in Hf. destruct t as [|b t]; [destruct Hs|]. cbn [List.length] in Hf. lia.
Qed.

Lemma brace_list_text txt l r : list_text item txt l -> lex_brace_list lex1 (txt ++ r) = LOk l r.
Proof.
  destruct 1 as [ws Hw|ws t a rest l Hw Hi Hs Ht].
  - unfold lex_brace_list, expect. cbn [app starts_with]. rewrite N.eqb_refl. cbn [lbind].
    cbn [brace_items]. rewrite <- app_assoc. rewrite skip_space_ws by assumption.
    cbn [app skip_space]. change (is_space 125) with false. cbv iota. cbn [starts_with]. rewrite N.eqb_refl. reflexivity.
  - unfold lex_brace_list, expect. cbn [app starts_with]. rewrite N.eqb_refl. cbn [lbind].
    cbn [brace_items]. rewrite <- !app_assoc. rewrite skip_space_ws by assumption.
    rewrite (skip_space_tok t _ Hs). rewrite (tok_start_not_close t _ Hs).
    rewrite (item_lex t a (rest ++ r) Hi (items_tail_follow item rest l r Ht)). cbn [lbind].
    rewrite (brace_items_tail rest l Ht r [a]); [reflexivity|].
    repeat (cbn [List.length]; rewrite ?app_length). lia.
Qed.
End Items.

Lemma int_item_lex t a r : int_item_text t a -> item_follow r -> lex_int_range (t ++ r) = LOk a r.
Proof.
  intros H Hr. destruct (item_lit_follow r Hr) as (Hi & _ & _ & Hd & _).
  destruct H as [f v Hv Hf|f1 f2 a b Ha Hb H1 H2 Hab].
  - now apply int_single_as_range.
  - now apply int_range_roundtrip.
Qed.
Lemma ip_item_lex t a r : ip_item_text t a -> item_follow r -> lex_ip_range (t ++ r) = LOk a r.
Proof.
  intros H Hr. destruct (item_lit_follow r Hr) as (_ & Hp & _).
  destruct H as [t a Ha|t a n Ha Hn Hm|t1 t2 a b Ha Hb Hs Hab].
  - now apply host_in_list.
  - rewrite <- app_assoc. cbn [app]. now apply cidr_roundtrip.
  - rewrite <- !app_assoc. now apply ip_range_roundtrip.
Qed.
Lemma bytes_item_lex t a r : bytes_item_text t a -> item_follow r -> lex_bytes (t ++ r) = LOk a r.
Proof.
  intros H Hr. destruct a as [b f]. exact (lit_bytes_roundtrip t b f r H (item_lit_follow r Hr)).
Qed.

(* ---- the parser on atoms ---- *)
Definition kcls (K : bool) (t : ty) : bool :=
  if K then match t with TArray TBool => true | _ => false end else match t with TBool => true | _ => false end.
Lemma kcls_eq K t : kcls K t = true -> t = kty K.
Proof. destruct K, t as [| | | |e|e]; try discriminate; try reflexivity. destruct e; try discriminate; reflexivity. Qed.
Lemma kcls_kty K : kcls K (kty K) = true.
Proof. destruct K; reflexivity. Qed.
Lemma kcls_comb K a b : kcls K a = true -> kcls K b = true -> types_combinable a b = true.
Proof. intros Ha Hb. apply kcls_eq in Ha, Hb. subst. destruct K; reflexivity. Qed.

Lemma increase_ok d x : d < st_max_depth st -> increase st d x = LOk (d + 1) [].
Proof. intro Hd. unfold increase. destruct (st_max_depth st <=? d) eqn:E; [apply N.leb_le in E; lia|reflexivity]. Qed.

(* after a left-hand side: what follows a name, or an opening bracket never *)
Lemma idx_then_stop t0 itxt idx t r : idx_text t0 itxt idx t -> name_follow r -> ident_stop (itxt ++ r).
Proof.
  intros Hi Hr. destruct Hi; [now apply follow_ident|..]; cbn; split; (reflexivity || discriminate).
Qed.

Lemma index_expr_field' f d name i t0 itxt idx t r :
  ident_text name -> scheme_get sch name = Some (IdField i) -> field_ty sch i = Some t0 ->
  idx_text t0 itxt idx t -> name_follow r ->
  okf (lex_index_expr sch st f d (name ++ itxt ++ r)) (IField i idx) r.
Proof.
  intros Hn Hg Hty Hi Hr. destruct f as [|f]; [now left|]. right.
  cbn [lex_index_expr]. rewrite (ident_name_roundtrip name _ Hn (idx_then_stop _ _ _ _ r Hi Hr)). rewrite Hg, Hty.
  rewrite (lex_indexes_text t0 itxt idx t Hi r [] _ (follow_no_bracket r Hr)); [reflexivity|].
  rewrite app_length. lia.
Qed.
Lemma index_expr_field f d name i t0 itxt idx t r : names_field sch name i t0 -> idx_text t0 itxt idx t -> name_follow r ->
  okf (lex_index_expr sch st f d (name ++ itxt ++ r)) (IField i idx) r.
Proof. intros (Hn & _ & Hg & Hty). now apply index_expr_field'. Qed.

Lemma field_ty_iexpr i t0 itxt idx t : field_ty sch i = Some t0 -> idx_text t0 itxt idx t -> ty_iexpr sch (IField i idx) = Some t.
Proof. intros H Hi. cbn [ty_iexpr]. rewrite H. cbn. exact (idx_ty _ _ _ _ Hi). Qed.

Lemma alias_cases a1 a2 c : In (a1, a2, c) comparison_aliases ->
  (exists b x, a2 = b :: x /\ (b = 61 \/ b = 33 \/ b = 62 \/ b = 60 \/ b = 126 \/ b = 38)).
Proof.
  cbn. intros H. destruct H as [H|[H|[H|[H|[H|[H|[H|[H|[]]]]]]]]]; injection H as <- <- <-; cbn; eexists _, _; split; try reflexivity; tauto.
Qed.

Lemma in_op_lex x : lex_alts comparison_ops (bs "in" ++ x) = Some (OpIn, x).
Proof. reflexivity. Qed.

Lemma brace_start_not_dollar {A} (item : bytes -> A -> Prop) txt l x : list_text item txt l -> starts_with [36] (txt ++ x) = None.
Proof. destruct 1; reflexivity. Qed.

Lemma cmp_parses t sp sym lit c : cmp_text_s sch t sp sym lit c ->
  forall f d lhs ws1 ws2 r, ty_iexpr sch lhs = Some t -> layout_ws ws1 -> layout_ws ws2 -> tok_start lit -> atom_follow r ->
  lex_with_lhs sch st (S f) d (ws1 ++ sp ++ ws2 ++ lit ++ r) lhs = LOk (EComparison lhs c) r.
Proof.
  intros H f d lhs ws1 ws2 r Hty H1 H2 Hs Hr. pose proof (atom_lit_follow r Hr) as Hlf.
  assert (Hin_op : forall x, lex_with_lhs sch st (S f) d (ws1 ++ bs "in" ++ ws2 ++ x) lhs =
            match ty_iexpr sch lhs with
            | Some TBool | Some (TArray TBool) | Some (TMap TBool) | None => lex_with_lhs sch st (S f) d (ws1 ++ bs "in" ++ ws2 ++ x) lhs
            | Some lt =>
                if negb (match lt with TInt | TBytes | TIp => true | _ => false end)
                then LErr EUnsupportedOp (bs "in" ++ ws2 ++ x) (span_len (bs "in" ++ ws2 ++ x) (ws2 ++ x))
                else match starts_with [36] (skip_space x) with
                     | Some _ => lbind (lex_list_name (skip_space x)) (fun name rest =>
                          match list_index sch lt with
                          | Some li => LOk (EComparison lhs (CInList li name)) rest
                          | None => LErr EUnsupportedOp (bs "in" ++ ws2 ++ x) (span_len (bs "in" ++ ws2 ++ x) rest)
                          end)
                     | None =>
                        match lt with
                        | TInt => lbind (lex_brace_list lex_int_range (skip_space x)) (fun l rest => LOk (EComparison lhs (COneOfInt l)) rest)
                        | TIp => lbind (lex_brace_list lex_ip_range (skip_space x)) (fun l rest => LOk (EComparison lhs (COneOfIp l)) rest)
                        | _ => lbind (lex_brace_list lex_bytes (skip_space x)) (fun l rest => LOk (EComparison lhs (COneOfBytes l)) rest)
                        end
                     end
            end).
  { intros x. cbn [lex_with_lhs]. destruct (ty_iexpr sch lhs) as [lt|]; [|reflexivity].
    rewrite skip_space_ws by assumption. change (skip_space (bs "in" ++ ws2 ++ x)) with (bs "in" ++ ws2 ++ x).
    rewrite in_op_lex. rewrite skip_space_ws by assumption.
    destruct lt as [| | | |e|e]; try reflexivity; destruct e; reflexivity. }
  destruct H as [t sp sym lit c H|t name li Hp Hgn Hli].
  - destruct H as [t o sp sym lit v (a1 & a2 & Hin & Hsp) Hp Hl|sp sym lit z (a1 & a2 & Hin & Hsp) Hl|lit b fm Hl
                   |txt l Hl|txt l Hl|txt l Hl].
    + destruct (ordering_layout sch st f d lhs t a1 a2 o ws1 ws2 (lit ++ r) Hin Hty Hp H1 H2 (no_eq_ws_tok ws2 lit r H2 Hs)) as [E1 E2].
      rewrite (skip_space_tok lit r Hs), (lit_roundtrip _ _ _ r Hl Hlf) in E1, E2. cbn [lbind] in E1, E2.
      destruct Hsp as [[-> _]|[-> _]]; assumption.
    + assert (a1 = bs "bitwise_and" /\ a2 = bs "&") as [-> ->].
      { cbn in Hin. destruct Hin as [H|[H|[H|[H|[H|[H|[H|[H|[]]]]]]]]]; injection H as <- <-; try discriminate; auto. }
      destruct (bitwise_and_layout sch st f d lhs ws1 ws2 (lit ++ r) Hty H1 H2) as [E1 E2].
      rewrite (skip_space_tok lit r Hs), (lit_int_roundtrip _ _ r Hl Hlf) in E1, E2. cbn [lbind] in E1, E2.
      destruct Hsp as [[-> _]|[-> _]]; assumption.
    + cbn [lex_with_lhs]. rewrite Hty. rewrite skip_space_ws by assumption.
      change (skip_space (bs "contains" ++ ws2 ++ lit ++ r)) with (bs "contains" ++ ws2 ++ lit ++ r).
      change (lex_alts comparison_ops (bs "contains" ++ ws2 ++ lit ++ r)) with (Some (OpContains, ws2 ++ lit ++ r)).
      cbv iota beta. rewrite skip_space_ws by assumption. rewrite (skip_space_tok lit r Hs).
      rewrite (lit_bytes_roundtrip _ _ _ r Hl Hlf). reflexivity.
    + rewrite Hin_op, Hty. cbn [negb]. cbv iota. rewrite (skip_space_tok txt r Hs).
      rewrite (brace_start_not_dollar _ _ _ r Hl).
      pose proof (brace_list_text int_item_text lex_int_range int_item_lex txt l r Hl) as E. unfold range in E.
      rewrite E. reflexivity.
    + rewrite Hin_op, Hty. cbn [negb]. cbv iota. rewrite (skip_space_tok txt r Hs).
      rewrite (brace_start_not_dollar _ _ _ r Hl).
      rewrite (brace_list_text ip_item_text lex_ip_range ip_item_lex txt l r Hl). reflexivity.
    + rewrite Hin_op, Hty. cbn [negb]. cbv iota. rewrite (skip_space_tok txt r Hs).
      rewrite (brace_start_not_dollar _ _ _ r Hl).
      rewrite (brace_list_text bytes_item_text lex_bytes bytes_item_lex txt l r Hl). reflexivity.
  - rewrite Hin_op, Hty. destruct (Hlf) as (_ & _ & _ & _ & Hln).
    assert (E : lex_list_name (36 :: name ++ r) = LOk name r) by (now apply list_name_accept).
    destruct t; try discriminate Hp; cbn [negb]; cbv iota; rewrite (skip_space_tok (36 :: name) r Hs);
      cbn [app starts_with]; rewrite N.eqb_refl; rewrite E; cbn [lbind]; rewrite Hli; reflexivity.
Qed.

Lemma cmp_sym_first t sp lit c : cmp_text_s sch t sp true lit c ->
  exists b x, sp = b :: x /\ (b = 61 \/ b = 33 \/ b = 62 \/ b = 60 \/ b = 126 \/ b = 38).
Proof.
  intros H. inversion H as [t' sp' sym' lit' c' H'|]; subst.
  inversion H' as [t' o sp' sym lit' v (a1 & a2 & Hin & Hsp) Hp Hl|sp' sym lit' z (a1 & a2 & Hin & Hsp) Hl| | | |]; subst.
  - destruct Hsp as [[_ E]|[-> _]]; [discriminate E|]. exact (alias_cases _ _ _ Hin).
  - destruct Hsp as [[_ E]|[-> _]]; [discriminate E|]. exact (alias_cases _ _ _ Hin).
Qed.

Lemma cmp_not_istrue t sp sym lit c : cmp_text_s sch t sp sym lit c -> c <> CIsTrue /\ cmp3 t = true.
Proof.
  intros H. destruct H as [t sp sym lit c H|]; [destruct H|]; split; try discriminate; try reflexivity; assumption.
Qed.

Lemma layout_first_follow ws x : layout_ws ws -> ws <> [] -> name_follow (ws ++ x) /\ atom_follow (ws ++ x).
Proof.
  intros Hw Hne. destruct ws as [|c ws]; [congruence|]. inversion Hw as [|? ? Hc _]; subst.
  cbn. destruct Hc as [->|[->| ->]]; split; left; reflexivity.
Qed.


(* ---- quantifier arguments: FunctionCallArgExpr::lex_with on a field / on `(`, `not`, `!` ---- *)
Lemma char_len_ascii b : b < 128 -> char_len b = 1%nat.
Proof. intros H. unfold char_len. apply N.ltb_lt in H. now rewrite H. Qed.
Lemma first_chars_1 b1 : b1 < 128 -> first_chars [b1] = (Some b1, None, None).
Proof. intros H. unfold first_chars, next_char. cbv zeta. rewrite (char_len_ascii b1 H). reflexivity. Qed.
Lemma first_chars_2 b1 b2 s : b1 < 128 -> exists c3, first_chars (b1 :: b2 :: s) = (Some b1, Some b2, c3).
Proof.
  intros H. unfold first_chars, next_char. cbv zeta. rewrite (char_len_ascii b1 H). cbn [firstn skipn hd_error].
  assert (E : exists n, char_len b2 = S n) by (unfold char_len; destruct (b2 <? 128), (b2 <? 224), (b2 <? 240); eauto).
  destruct E as (n & ->). cbn [firstn hd_error].
  destruct (skipn (S n) (b2 :: s)) as [|b3 s3]; eexists; reflexivity.
Qed.

Definition second_ok (tl : bytes) : Prop := match tl with b2 :: _ => b2 <> 34 /\ b2 <> 35 | [] => True end.

Lemma ident_byte_not_quote b : ident_byte b -> b <> 34 /\ b <> 35 /\ b <> 40 /\ b < 128.
Proof.
  unfold ident_byte, is_ascii. intros H. apply andb_true_iff in H. destruct H as [H1 H2]. apply N.ltb_lt in H1.
  repeat split; try exact H1; intros ->; discriminate H2.
Qed.

Lemma name_second name X : ident_text name -> second_ok X ->
  exists b1 tl, name ++ X = b1 :: tl /\ ident_byte b1 /\ second_ok tl.
Proof.
  intros Hn HX. destruct Hn as [seg Hne Hs|seg r0 Hne Hs _]; (destruct Hs as [|b1 seg' Hb1 Hs']; [congruence|]).
  - exists b1, (seg' ++ X). split; [reflexivity|]. split; [exact Hb1|].
    destruct Hs' as [|b2 ? Hb2 _]; [exact HX|]. cbn. destruct (ident_byte_not_quote b2 Hb2) as (A & B & _). auto.
  - exists b1, ((seg' ++ 46 :: r0) ++ X). split; [reflexivity|]. split; [exact Hb1|].
    destruct Hs' as [|b2 ? Hb2 _]; [cbn; split; discriminate|]. cbn. destruct (ident_byte_not_quote b2 Hb2) as (A & B & _). auto.
Qed.

Lemma follow_second r : name_follow r -> second_ok r.
Proof. destruct r as [|b r]; [exact (fun _ => I)|]. intros H. unfold second_ok. follow_solve H; split; discriminate. Qed.
Lemma idx_second t0 itxt idx t r : idx_text t0 itxt idx t -> name_follow r -> second_ok (itxt ++ r).
Proof. intros Hi Hr. destruct Hi; [now apply follow_second|..]; cbn; split; discriminate. Qed.

(* the argument begins with a field name: IndexExpr first, then a comparison if an operator follows *)
Lemma lex_arg_field f d b1 tl :
  ident_byte b1 -> second_ok tl ->
  lex_alts unary_ops (b1 :: tl) = None -> lex_quant_call (b1 :: tl) = None ->
  lex_arg sch st (S f) d (b1 :: tl) =
  match lex_index_expr sch st f d (b1 :: tl) with
  | LOk lhs rest =>
      match lex_alts comparison_ops (skip_space rest) with
      | Some _ => lmap ALogical (lex_with_lhs sch st f d rest lhs)
      | None => LOk (AIndex lhs) rest
      end
  | LFuel => LFuel
  | x => lex_arg sch st (S f) d (b1 :: tl)
  end.
Proof.
  intros Hb Hs Hu Hq. destruct (ident_byte_not_quote b1 Hb) as (N34 & N35 & N40 & Hlt).
  destruct (lex_index_expr sch st f d (b1 :: tl)) as [lhs rest|k a n| |] eqn:Ei; try reflexivity.
  - cbn [lex_arg].
    assert (Hc : exists c2 c3, first_chars (b1 :: tl) = (Some b1, c2, c3) /\
                               match c2 with Some 35 | Some 34 => False | _ => True end).
    { destruct tl as [|b2 s0].
      - rewrite (first_chars_1 b1 Hlt). eexists _, _. split; [reflexivity|exact I].
      - destruct (first_chars_2 b1 b2 s0 Hlt) as (c3 & ->). eexists _, _. split; [reflexivity|].
        destruct Hs as [A B]. destruct b2 as [|p]; [exact I|]. do 6 (try (destruct p as [p|p|]); try exact I); congruence. }
    destruct Hc as (c2 & c3 & -> & Hc2). rewrite Hu, Hq, Ei.
    replace (b1 =? 34) with false by (symmetry; now apply N.eqb_neq).
    replace (b1 =? 40) with false by (symmetry; now apply N.eqb_neq).
    assert (E2 : (b1 =? 114) && match c2 with Some 35 | Some 34 => true | _ => false end = false).
    { destruct c2 as [[|p]|]; try (now rewrite andb_false_r).
      do 6 (try (destruct p as [p|p|]); try (now rewrite andb_false_r)); contradiction. }
    rewrite E2. cbn [orb]. destruct (_ || _ || _); reflexivity.
  - cbn [lex_arg].
    assert (Hc : exists c2 c3, first_chars (b1 :: tl) = (Some b1, c2, c3) /\
                               match c2 with Some 35 | Some 34 => False | _ => True end).
    { destruct tl as [|b2 s0].
      - rewrite (first_chars_1 b1 Hlt). eexists _, _. split; [reflexivity|exact I].
      - destruct (first_chars_2 b1 b2 s0 Hlt) as (c3 & ->). eexists _, _. split; [reflexivity|].
        destruct Hs as [A B]. destruct b2 as [|p]; [exact I|]. do 6 (try (destruct p as [p|p|]); try exact I); congruence. }
    destruct Hc as (c2 & c3 & -> & Hc2). rewrite Hu, Hq, Ei.
    replace (b1 =? 34) with false by (symmetry; now apply N.eqb_neq).
    replace (b1 =? 40) with false by (symmetry; now apply N.eqb_neq).
    assert (E2 : (b1 =? 114) && match c2 with Some 35 | Some 34 => true | _ => false end = false).
    { destruct c2 as [[|p]|]; try (now rewrite andb_false_r).
      do 6 (try (destruct p as [p|p|]); try (now rewrite andb_false_r)); contradiction. }
    rewrite E2. cbn [orb]. destruct (_ || _ || _); reflexivity.
Qed.

(* the argument begins with `(`, `!` or `not`: a logical expression *)
Lemma lex_arg_logical f d t : (exists x, t = 40 :: x \/ t = 33 :: x \/ t = bs "not" ++ x) ->
  lex_arg sch st (S f) d t = lmap ALogical (lex_logical sch st f d t).
Proof.
  intros (x & [->|[->| ->]]).
  - cbn [lex_arg]. destruct x as [|b2 s0].
    + rewrite (first_chars_1 40) by reflexivity. reflexivity.
    + destruct (first_chars_2 40 b2 s0 ltac:(reflexivity)) as (c3 & ->). reflexivity.
  - cbn [lex_arg]. destruct x as [|b2 s0].
    + rewrite (first_chars_1 33) by reflexivity. reflexivity.
    + destruct (first_chars_2 33 b2 s0 ltac:(reflexivity)) as (c3 & ->). reflexivity.
  - cbn [lex_arg]. change (bs "not" ++ x) with (110 :: 111 :: 116 :: x).
    destruct (first_chars_2 110 111 (116 :: x) ltac:(reflexivity)) as (c3 & ->). reflexivity.
Qed.

Lemma cmp_op_found t sp sym lit c wsb y : cmp_text_s sch t sp sym lit c -> layout_ws wsb -> tok_start lit ->
  exists o, lex_alts comparison_ops (sp ++ wsb ++ lit ++ y) = Some o.
Proof.
  intros H Hw Hs. pose proof (no_eq_ws_tok wsb lit y Hw Hs) as Hne.
  destruct H as [t sp sym lit c H|t name li Hp Hgn Hli]; [|eexists; apply in_op_lex].
  destruct H as [t o sp sym lit v (a1 & a2 & Hin & Hsp) Hp Hl|sp sym lit z (a1 & a2 & Hin & Hsp) Hl|lit b fm Hl
                 |txt l Hl|txt l Hl|txt l Hl]; try (eexists; apply in_op_lex).
  - destruct (comparison_alias_table a1 a2 _ _ Hin Hne) as [T1 T2]. destruct Hsp as [[-> _]|[-> _]]; eauto.
  - destruct (comparison_alias_table a1 a2 _ _ Hin Hne) as [T1 T2]. destruct Hsp as [[-> _]|[-> _]]; eauto.
  - eexists. reflexivity.
Qed.

Lemma cmp_sp_nospace t sp sym lit c y : cmp_text_s sch t sp sym lit c -> skip_space (sp ++ y) = sp ++ y.
Proof.
  intros H. destruct H as [t sp sym lit c H|t name li Hp Hgn Hli]; [|reflexivity].
  destruct H as [t o sp sym lit v (a1 & a2 & Hin & Hsp) Hp Hl|sp sym lit z (a1 & a2 & Hin & Hsp) Hl|lit b fm Hl
                 |txt l Hl|txt l Hl|txt l Hl]; try reflexivity.
  - apply (comparison_alias_nonspace _ _ _ Hin). destruct Hsp as [[-> _]|[-> _]]; cbn; auto.
  - apply (comparison_alias_nonspace _ _ _ Hin). destruct Hsp as [[-> _]|[-> _]]; cbn; auto.
Qed.

Lemma quant_call_lex qsp q ws1 x : In (qsp, q) [(bs "any", QAny); (bs "all", QAll)] -> layout_ws ws1 ->
  starts_with [40] (qsp ++ ws1 ++ 40 :: x) = None /\ lex_alts unary_ops (qsp ++ ws1 ++ 40 :: x) = None /\
  lex_quant_call (qsp ++ ws1 ++ 40 :: x) = Some (q, ws1 ++ 40 :: x).
Proof.
  intros Hq Hw.
  assert (E : starts_with [40] (skip_space (ws1 ++ 40 :: x)) = Some x).
  { rewrite skip_space_ws by assumption. cbn [skip_space]. change (is_space 40) with false. cbv iota.
    cbn [starts_with]. now rewrite N.eqb_refl. }
  assert (G : forall kw qq, lex_alts quant_ops (kw ++ ws1 ++ 40 :: x) = Some (qq, ws1 ++ 40 :: x) ->
                lex_quant_call (kw ++ ws1 ++ 40 :: x) = Some (qq, ws1 ++ 40 :: x)).
  { intros kw qq Ek. unfold lex_quant_call. rewrite Ek.
    change (match starts_with [40] (skip_space (ws1 ++ 40 :: x)) with Some _ => Some (qq, ws1 ++ 40 :: x) | None => None end
            = Some (qq, ws1 ++ 40 :: x)). now rewrite E. }
  destruct Hq as [Hq|[Hq|[]]]; injection Hq as <- <-; (split; [reflexivity|]); (split; [reflexivity|]); apply G; reflexivity.
Qed.

Lemma quant_tok qsp q x : In (qsp, q) [(bs "any", QAny); (bs "all", QAll)] -> tok_start (qsp ++ x).
Proof. intros [Hq|[Hq|[]]]; injection Hq as <- <-; cbn; repeat split; discriminate. Qed.

(* ---- the mutual induction ---- *)
Scheme GLhs_mind := Minimality for GLhs Sort Prop
  with GArgs_mind := Minimality for GArgs Sort Prop
  with GArg_mind := Minimality for GArg Sort Prop
  with GSimple_mind := Minimality for GSimple Sort Prop
  with GTail_mind := Minimality for GTail Sort Prop
  with GLogical_mind := Minimality for GLogical Sort Prop.
Combined Scheme grammar_ind from GLhs_mind, GArgs_mind, GArg_mind, GSimple_mind, GTail_mind, GLogical_mind.

Definition log_end (r : bytes) : Prop := atom_follow r /\ lex_combining_op r = (None, r).
(* after an argument: white space, then `,` or `)` *)
Definition sep_follow (r : bytes) : Prop := exists ws c x, layout_ws ws /\ r = ws ++ c :: x /\ (c = 44 \/ c = 41).
Definition arg_start (t : bytes) : Prop := match t with b :: _ => b <> 41 /\ b <> 44 | [] => False end.

Definition PLhs (d : N) (t : bytes) (ie : iexpr) (ty0 : ty) : Prop :=
  tok_start t /\ tok_end t /\ ty_iexpr sch ie = Some ty0 /\
  (exists name more, t = name ++ more /\ ident_text name /\ kw_free name /\
     forall r, name_follow r -> ident_stop (more ++ r) /\ second_ok (more ++ r)) /\
  forall r f, name_follow r -> okf (lex_index_expr sch st f d (t ++ r)) ie r.
Definition PArgs (d : N) (def : fn_def) (acc : list arg) (txt : bytes) (all : list arg) : Prop :=
  tok_end txt /\ (acc <> [] -> forall r, sep_follow (txt ++ r)) /\
  forall r f, okf (lex_call_args sch st f d (skip_space (txt ++ r)) def acc) all r.
Definition PArg (d : N) (atxt : bytes) (a : arg) : Prop :=
  tok_start atxt /\ tok_end atxt /\ arg_start atxt /\
  forall r f, sep_follow r -> okf (lex_arg sch st f d (atxt ++ r)) a r.
Definition PS (K : bool) (d : N) (t : bytes) (a : lexpr) : Prop :=
  tok_start t /\ tok_end t /\ not_combining a /\ ty_lexpr sch a = Some (kty K) /\
  forall r f, atom_follow r -> okf (lex_simple sch st f d (t ++ r)) a r.
Definition PT (K : bool) (d : N) (c : @chain lexpr) (tc : bytes) : Prop :=
  (tc = [] \/ tok_end tc) /\ (forall r, atom_follow r -> atom_follow (tc ++ r)) /\
  forall r, log_end r -> ChainRep sch st d (kcls K) c (tc ++ r) r.
Definition PL (K : bool) (d : N) (t : bytes) (e : lexpr) : Prop :=
  tok_start t /\ tok_end t /\ ty_lexpr sch e = Some (kty K) /\
  forall r f, log_end r -> okf (lex_logical sch st f d (t ++ r)) e r.

Lemma sep_atom r : sep_follow r -> atom_follow r /\ name_follow r.
Proof.
  intros (ws & c & x & Hw & -> & Hc). destruct ws as [|c0 ws].
  - cbn. destruct Hc as [->| ->]; split; tauto.
  - apply and_comm. apply (layout_first_follow (c0 :: ws)); [assumption|discriminate].
Qed.
Lemma sep_log_end r : sep_follow r -> log_end r.
Proof.
  intros H. split; [exact (proj1 (sep_atom r H))|]. destruct H as (ws & c & x & Hw & -> & Hc).
  apply combining_op_none. rewrite skip_space_ws by assumption. destruct Hc as [->| ->]; reflexivity.
Qed.
Lemma sep_no_cmp r : sep_follow r -> lex_alts comparison_ops (skip_space r) = None.
Proof. intros (ws & c & x & Hw & -> & Hc). rewrite skip_space_ws by assumption. destruct Hc as [->| ->]; reflexivity. Qed.

(* one turn of the argument loop when the input does not begin with `)` *)
Lemma call_args_step f d input def acc :
  match input with b :: _ => b <> 41 | [] => False end ->
  lex_call_args sch st (S f) d input def acc =
  lbind (if Nat.eqb (List.length acc) 0 then LOk tt input else expect [44] input) (fun _ input1 =>
    let input2 := skip_space input1 in
    match lex_arg sch st f d input2 with
    | LOk a rest =>
        let sp := span_len input2 rest in
        if Nat.ltb 0 (arg_map_each_count a) && negb (Nat.eqb (List.length acc) 0)
        then LErr EInvalidMapEachAccess input2 sp
        else if negb (fn_variadic_same def)
                && Nat.leb (List.length (fn_params def) + List.length (fn_opt_params def)) (List.length acc)
        then LErr EInvalidArgumentsCount input2 (List.length input2)
        else
          match ty_arg sch a with
          | None => LPanic
          | Some t =>
              match check_param sch def acc a t with
              | PcOk => lex_call_args sch st f d (skip_space rest) def (acc ++ [a])
              | PcKind => LErr EInvalidArgumentKind input2 sp
              | PcType => LErr EInvalidArgumentType input2 sp
              | PcUnreachable => LPanic
              end
          end
    | LErr k a n => LErr k a n
    | LPanic => LPanic
    | LFuel => LFuel
    end).
Proof.
  destruct input as [|b tl]; [intros []|]. intros Hb. cbn [lex_call_args].
  destruct b as [|p]; [reflexivity|]. do 6 (try (destruct p as [p|p|]); try reflexivity). congruence.
Qed.

Lemma sep_first o s x : sep_text o s -> atom_follow (s ++ x).
Proof.
  intros (ws1 & sp & sym & ws2 & -> & H1 & H2 & (a1 & a2 & Hin & Hsp) & Hs).
  destruct ws1 as [|c ws1].
  - destruct Hs as [->|Hs]; [|congruence]. destruct Hsp as [[_ E]|[-> _]]; [discriminate E|].
    cbn in Hin. destruct Hin as [H|[H|[H|[]]]]; injection H as <- <- _; cbn; tauto.
  - rewrite <- !app_assoc. apply (layout_first_follow (c :: ws1)); [assumption|discriminate].
Qed.

Lemma close_log_end ws r : layout_ws ws -> log_end (ws ++ 41 :: r).
Proof.
  intros Hw. split.
  - destruct ws as [|c ws]; [cbn; tauto|]. apply (layout_first_follow (c :: ws)); [assumption|discriminate].
  - apply combining_op_none. rewrite skip_space_ws by assumption. reflexivity.
Qed.

Lemma tok_end_bracket p rest : (rest = [] \/ tok_end rest) -> tok_end (p ++ 93 :: rest).
Proof.
  intros [->|H]; [apply tok_end_last; split; reflexivity|].
  change (p ++ 93 :: rest) with (p ++ [93] ++ rest). rewrite app_assoc. now apply tok_end_app.
Qed.
Lemma idx_text_end t0 itxt idx t : idx_text t0 itxt idx t -> itxt = [] \/ tok_end itxt.
Proof.
  induction 1 as [t|e ws1 f n ws2 rest idx t H1 H2 Hn Hf _ IH|e ws1 l ws2 rest idx t H1 H2 Hl Hu _ IH
                  |e ws1 ws2 rest idx t H1 H2 _ IH|e ws1 ws2 rest idx t H1 H2 _ IH]; [now left|right..].
  - replace (91 :: ws1 ++ print_int f n ++ ws2 ++ 93 :: rest) with ((91 :: ws1 ++ print_int f n ++ ws2) ++ 93 :: rest)
      by (repeat (cbn [app]; rewrite <- ?app_assoc); reflexivity). now apply tok_end_bracket.
  - replace (91 :: ws1 ++ print_quoted l ++ ws2 ++ 93 :: rest) with ((91 :: ws1 ++ print_quoted l ++ ws2) ++ 93 :: rest)
      by (repeat (cbn [app]; rewrite <- ?app_assoc); reflexivity). now apply tok_end_bracket.
  - replace (91 :: ws1 ++ 42 :: ws2 ++ 93 :: rest) with ((91 :: ws1 ++ 42 :: ws2) ++ 93 :: rest)
      by (repeat (cbn [app]; rewrite <- ?app_assoc); reflexivity). now apply tok_end_bracket.
  - replace (91 :: ws1 ++ 42 :: ws2 ++ 93 :: rest) with ((91 :: ws1 ++ 42 :: ws2) ++ 93 :: rest)
      by (repeat (cbn [app]; rewrite <- ?app_assoc); reflexivity). now apply tok_end_bracket.
Qed.

Lemma lhs_ends name itxt t0 idx t : ident_text name -> idx_text t0 itxt idx t -> tok_start (name ++ itxt) /\ tok_end (name ++ itxt).
Proof.
  intros Hn Hi. destruct (ident_text_ends name Hn) as [Hs He]. split; [now apply tok_start_app|].
  destruct (idx_text_end _ _ _ _ Hi) as [->|H]; [now rewrite app_nil_r|now apply tok_end_app].
Qed.

Lemma lhs_field_facts d name i t0 itxt idx t : names_field sch name i t0 -> idx_text t0 itxt idx t ->
  PLhs d (name ++ itxt) (IField i idx) t.
Proof.
  intros Hnf Hi. pose proof Hnf as (Hn & Hkw & Hg & Hty). destruct (lhs_ends name itxt t0 idx t Hn Hi) as [Hs He].
  split; [exact Hs|]. split; [exact He|]. split; [exact (field_ty_iexpr i t0 itxt idx t Hty Hi)|]. split.
  - exists name, itxt. split; [reflexivity|]. split; [exact Hn|]. split; [exact Hkw|].
    intros r Hr. split; [exact (idx_then_stop _ _ _ _ r Hi Hr)|exact (idx_second _ _ _ _ r Hi Hr)].
  - intros r f Hr. rewrite <- app_assoc. exact (index_expr_field f d name i t0 itxt idx t r Hnf Hi Hr).
Qed.

(* a bare left-hand side / a comparison, from the facts about the left-hand side *)
Lemma simple_istrue K d ltxt ie t : PLhs d ltxt ie t -> istrue_class (iexpr_idx ie) t = Some K ->
  PS K d ltxt (EComparison ie CIsTrue).
Proof.
  intros (Hs & He & Hlt & (name & more & -> & Hn & Hkw & Hmore) & Hp) Hk.
  split; [exact Hs|]. split; [exact He|]. split; [exact I|]. split.
  { cbn [ty_lexpr]. unfold ty_cmp_of. rewrite Hlt. unfold istrue_class in Hk.
    destruct (Nat.ltb 0 (map_each_count (iexpr_idx ie))); destruct t as [| | | |e|e]; try discriminate Hk;
      try (destruct e; try discriminate Hk); injection Hk as <-; reflexivity. }
  intros r f Hr. destruct f as [|f]; [now left|].
  destruct (Hmore r (atom_name_follow r Hr)) as [Hst _].
  pose proof (name_not_special name (more ++ r) Hn Hkw Hst) as (E1 & E2 & E3). rewrite app_assoc in E1, E2, E3.
  remember ((name ++ more) ++ r) as inp eqn:Ei. cbn [lex_simple]. rewrite E1, E2, E3. subst inp.
  eapply okf_bind; [apply Hp; now apply atom_name_follow|].
  destruct f as [|f]; [now left|]. right. cbn [lex_with_lhs]. rewrite Hlt. unfold istrue_class in Hk.
  destruct t as [| | | |e|e]; try discriminate Hk; try reflexivity;
    destruct e; try discriminate Hk; destruct (Nat.ltb 0 (map_each_count (iexpr_idx ie))); try discriminate Hk; reflexivity.
Qed.

Lemma simple_cmp K d ltxt ie t ws1 sp sym ws2 lit c : PLhs d ltxt ie t -> K = Nat.ltb 0 (map_each_count (iexpr_idx ie)) ->
  layout_ws ws1 -> layout_ws ws2 -> (sym = true \/ ws1 <> []) -> cmp_text_s sch t sp sym lit c -> tok_start lit -> tok_end lit ->
  PS K d (ltxt ++ ws1 ++ sp ++ ws2 ++ lit) (EComparison ie c).
Proof.
  intros (Hs & He & Hlt & (name & more & -> & Hn & Hkw & Hmore) & Hp) HK H1 H2 Hsym Hc Hls Hle.
  destruct (cmp_not_istrue _ _ _ _ _ Hc) as [Hnc Hp3].
  split; [now apply tok_start_app|]. split; [rewrite !app_assoc; now apply tok_end_app|].
  split; [exact I|]. split.
  { cbn [ty_lexpr]. unfold ty_cmp_of. subst K. destruct (Nat.ltb 0 (map_each_count (iexpr_idx ie))); [reflexivity|].
    destruct c; try reflexivity. congruence. }
  intros r f Hr. destruct f as [|f]; [now left|].
  assert (Hnf' : name_follow (ws1 ++ sp ++ ws2 ++ lit ++ r)).
  { destruct ws1 as [|c0 ws1].
    - destruct Hsym as [->|Hs']; [|congruence]. destruct (cmp_sym_first _ _ _ _ Hc) as (b & x & -> & Hb).
      cbn. tauto.
    - apply (layout_first_follow (c0 :: ws1)); [assumption|discriminate]. }
  replace (((name ++ more) ++ ws1 ++ sp ++ ws2 ++ lit) ++ r) with ((name ++ more) ++ (ws1 ++ sp ++ ws2 ++ lit ++ r))
    by (now rewrite <- !app_assoc).
  destruct (Hmore _ Hnf') as [Hst _].
  pose proof (name_not_special name _ Hn Hkw Hst) as (E1 & E2 & E3). rewrite app_assoc in E1, E2, E3.
  remember ((name ++ more) ++ ws1 ++ sp ++ ws2 ++ lit ++ r) as inp eqn:Ei. cbn [lex_simple]. rewrite E1, E2, E3. subst inp.
  eapply okf_bind; [apply Hp; assumption|].
  destruct f as [|f]; [now left|]. right.
  apply (cmp_parses t sp sym lit c Hc f d ie ws1 ws2 r Hlt H1 H2 Hls Hr).
Qed.

Theorem grammar_parses :
  (forall d t ie ty0, GLhs sch st d t ie ty0 -> PLhs d t ie ty0) /\
  (forall d def acc txt all, GArgs sch st d def acc txt all -> PArgs d def acc txt all) /\
  (forall d atxt a, GArg sch st d atxt a -> PArg d atxt a) /\
  (forall K d t a, GSimple sch st K d t a -> PS K d t a) /\
  (forall K d c tc, GTail sch st K d c tc -> PT K d c tc) /\
  (forall K d t e, GLogical sch st K d t e -> PL K d t e).
Proof.
  apply grammar_ind.
  - (* a field with index accesses *)
    intros d name i t0 itxt idx t Hnf Hi. exact (lhs_field_facts d name i t0 itxt idx t Hnf Hi).
  - (* a function call with index accesses *)
    intros d name i def ws1 atxt all tret itxt idx t Hnf H1 Hd _ (Hae & _ & Hap) Hret Hi.
    pose proof Hnf as (Hn & Hkw & Hg & Hdef). destruct (ident_text_ends name Hn) as [Hs He].
    split; [now apply tok_start_app|].
    split. { destruct (idx_text_end _ _ _ _ Hi) as [->|Hie].
             - rewrite app_nil_r. change (40 :: atxt) with ([40] ++ atxt). rewrite !app_assoc. now apply tok_end_app.
             - change (40 :: atxt ++ itxt) with ([40] ++ atxt ++ itxt). rewrite !app_assoc. now apply tok_end_app. }
    split. { cbn [ty_iexpr]. fold (ty_call sch i (args_of_list all)). rewrite Hret. cbn. exact (idx_ty _ _ _ _ Hi). }
    split.
    { exists name, (ws1 ++ 40 :: atxt ++ itxt). split; [reflexivity|]. split; [exact Hn|]. split; [exact Hkw|].
      intros r _. split.
      - destruct ws1 as [|c0 ws1]; [cbn; split; [reflexivity|discriminate]|].
        inversion H1 as [|? ? Hc _]; subst. destruct Hc as [->|[->| ->]]; cbn; split; (reflexivity || discriminate).
      - destruct ws1 as [|c0 ws1]; [cbn; split; discriminate|].
        inversion H1 as [|? ? Hc _]; subst. destruct Hc as [->|[->| ->]]; cbn; split; discriminate. }
    intros r f Hr. destruct f as [|f]; [now left|].
    replace ((name ++ ws1 ++ 40 :: atxt ++ itxt) ++ r) with (name ++ (ws1 ++ 40 :: (atxt ++ itxt ++ r)))
      by (repeat (cbn [app]; rewrite <- ?app_assoc); reflexivity).
    assert (Hst : ident_stop (ws1 ++ 40 :: atxt ++ itxt ++ r)).
    { destruct ws1 as [|c0 ws1]; [cbn; split; [reflexivity|discriminate]|].
      inversion H1 as [|? ? Hc _]; subst. destruct Hc as [->|[->| ->]]; cbn; split; (reflexivity || discriminate). }
    cbn [lex_index_expr]. rewrite (ident_name_roundtrip name _ Hn Hst). rewrite Hg.
    rewrite (increase_ok d _ Hd).
    destruct f as [|f]; [now left|]. cbn [lex_call]. rewrite Hdef.
    rewrite skip_space_ws by assumption. cbn [skip_space]. change (is_space 40) with false. cbv iota.
    unfold expect. cbn [starts_with]. rewrite N.eqb_refl. cbn [lbind].
    destruct (Hap (itxt ++ r) f) as [E|E]; rewrite E; [now left|]. unfold lmap at 1. cbn [lbind].
    rewrite Hret. rewrite (lex_indexes_text tret itxt idx t Hi r [] _ (follow_no_bracket r Hr)); [now right|].
    rewrite app_length. lia.
  - (* `)` *)
    intros d def acc ws Hw Har.
    split; [apply tok_end_last; split; reflexivity|].
    split. { intros _ r. exists ws, 41, r. rewrite <- app_assoc. auto. }
    intros r f. destruct f as [|f]; [now left|]. right. rewrite <- app_assoc. rewrite skip_space_ws by assumption.
    cbn [app skip_space]. change (is_space 41) with false. cbv iota. cbn [lex_call_args].
    unfold arity_reached in Har. rewrite Har. unfold expect. cbn [starts_with]. rewrite N.eqb_refl. reflexivity.
  - (* the first argument *)
    intros d def ws atxt a rest all Hw _ (Hs & He & Hst & Hp) (C1 & C2 & t & Hta & Hck) _ (Hre & Hrf & Hrp).
    split. { rewrite !app_assoc. now apply tok_end_app. }
    split; [congruence|].
    intros r f. destruct f as [|f]; [now left|].
    replace ((ws ++ atxt ++ rest) ++ r) with (ws ++ atxt ++ (rest ++ r)) by (now rewrite <- !app_assoc).
    rewrite skip_space_ws by assumption. rewrite (skip_space_tok atxt _ Hs).
    rewrite call_args_step by (destruct atxt as [|b ?]; [destruct Hst|exact (proj1 Hst)]).
    cbn [List.length Nat.eqb lbind]. cbv zeta. rewrite (skip_space_tok atxt _ Hs).
    destruct (Hp (rest ++ r) f (Hrf ltac:(discriminate) r)) as [E|E]; rewrite E; [now left|].
    cbn [List.length Nat.eqb negb] in C1, C2. rewrite andb_false_r. cbn [List.length] in *. rewrite C2, Hta, Hck. cbn [app]. apply Hrp.
  - (* a further argument *)
    intros d def acc ws0 ws atxt a rest all Hne Hw0 Hw _ (Hs & He & Hst & Hp) (C1 & C2 & t & Hta & Hck) _ (Hre & Hrf & Hrp).
    split. { change (ws0 ++ 44 :: ws ++ atxt ++ rest) with (ws0 ++ [44] ++ ws ++ atxt ++ rest). rewrite !app_assoc. now apply tok_end_app. }
    split. { intros _ r. exists ws0, 44, ((ws ++ atxt ++ rest) ++ r). rewrite <- app_assoc. auto. }
    intros r f. destruct f as [|f]; [now left|].
    replace ((ws0 ++ 44 :: ws ++ atxt ++ rest) ++ r) with (ws0 ++ 44 :: (ws ++ atxt ++ (rest ++ r)))
      by (repeat (cbn [app]; rewrite <- ?app_assoc); reflexivity).
    rewrite skip_space_ws by assumption. cbn [skip_space]. change (is_space 44) with false. cbv iota.
    rewrite call_args_step by discriminate.
    assert (En : Nat.eqb (List.length acc) 0 = false) by (destruct acc; [congruence|reflexivity]).
    rewrite En. unfold expect. cbn [starts_with]. rewrite N.eqb_refl. cbn [lbind]. cbv zeta.
    rewrite skip_space_ws by assumption. rewrite (skip_space_tok atxt _ Hs).
    assert (Hsf : sep_follow (rest ++ r)) by (apply Hrf; destruct acc; discriminate).
    destruct (Hp (rest ++ r) f Hsf) as [E|E]; rewrite E; [now left|].
    rewrite En in C1. rewrite C1, C2, Hta, Hck. apply Hrp.
  - (* a quoted string as an argument *)
    intros d l Hl. destruct (print_quoted_ends l) as [Hs He].
    split; [exact Hs|]. split; [exact He|]. split; [cbn; split; discriminate|].
    intros r f _. destruct f as [|f]; [now left|]. right. cbn [lex_arg].
    assert (Hc : exists c2 c3, first_chars (print_quoted l ++ r) = (Some 34, c2, c3)).
    { unfold print_quoted. cbn [app]. destruct ((print_qbody l ++ [34]) ++ r) as [|b2 s0].
      - rewrite (first_chars_1 34) by reflexivity. eauto.
      - destruct (first_chars_2 34 b2 s0 ltac:(reflexivity)) as (c3 & ->). eauto. }
    destruct Hc as (c2 & c3 & ->). cbn [N.eqb orb Pos.eqb]. rewrite (quoted_roundtrip l r Hl). reflexivity.
  - (* a left-hand side as an argument *)
    intros d t ie ty0 _ (Hs & He & Hlt & (name & more & -> & Hn & Hkw & Hmore) & Hp).
    split; [exact Hs|]. split; [exact He|].
    split. { destruct (ident_text_first name Hn) as (b & tl & -> & Hb). destruct (ident_byte_not_quote b Hb) as (_ & _ & _ & Hl).
             cbn. unfold ident_byte in Hb. split; intros ->; discriminate Hb. }
    intros r f Hr. destruct f as [|f]; [now left|].
    destruct (sep_atom r Hr) as [_ Hnf]. destruct (Hmore r Hnf) as [Hst Hsec].
    rewrite <- app_assoc. destruct (name_second name _ Hn Hsec) as (b1 & tl & Etl & Hb1 & Hsec').
    destruct (name_not_special name _ Hn Hkw Hst) as (_ & U2 & U3).
    pose proof (Hp r f Hnf) as Hix. rewrite <- app_assoc in Hix.
    rewrite Etl in *. rewrite (lex_arg_field f d b1 tl Hb1 Hsec' U2 U3).
    destruct Hix as [E|E]; rewrite E; [now left|]. rewrite (sep_no_cmp r Hr). now right.
  - (* a logical expression as an argument *)
    intros K d t le _ (Hs & He & Hty & Hp) Hst.
    split; [exact Hs|]. split; [exact He|].
    split. { destruct Hst as (x & [->|[->| ->]]); cbn; split; discriminate. }
    intros r f Hr. destruct f as [|f]; [now left|].
    assert (Hst' : exists y, t ++ r = 40 :: y \/ t ++ r = 33 :: y \/ t ++ r = bs "not" ++ y).
    { destruct Hst as (x & [->|[->| ->]]); exists (x ++ r);
        [left; reflexivity|right; left; reflexivity|right; right; now rewrite <- app_assoc]. }
    rewrite (lex_arg_logical f d _ Hst').
    destruct (Hp r f (sep_log_end r Hr)) as [E|E]; rewrite E; [now left|now right].
  - (* bare boolean / boolean-array field *)
    intros K d name i t0 itxt idx t Hnf Hi Hk.
    exact (simple_istrue K d _ _ t (lhs_field_facts d name i t0 itxt idx t Hnf Hi) Hk).
  - (* comparison over a field *)
    intros K d name i t0 itxt idx t ws1 sp sym ws2 lit c Hnf Hi HK H1 H2 Hsym Hc Hls Hle.
    rewrite app_assoc.
    exact (simple_cmp K d _ _ t ws1 sp sym ws2 lit c (lhs_field_facts d name i t0 itxt idx t Hnf Hi) HK H1 H2 Hsym Hc Hls Hle).
  - (* bare left-hand side *)
    intros K d ltxt ie t _ HP Hk. exact (simple_istrue K d ltxt ie t HP Hk).
  - (* comparison over a left-hand side *)
    intros K d ltxt ie t ws1 sp sym ws2 lit c _ HP HK H1 H2 Hsym Hc Hls Hle.
    exact (simple_cmp K d ltxt ie t ws1 sp sym ws2 lit c HP HK H1 H2 Hsym Hc Hls Hle).
  - (* not *)
    intros K d sp ws t a Hsp Hw Hd _ (Hs & He & Hn & Hty & Hp).
    split. { destruct Hsp as [<-|[<-|[]]]; cbn; repeat split; try reflexivity; discriminate. }
    split; [rewrite app_assoc; now apply tok_end_app|]. split; [exact I|]. split; [exact Hty|].
    intros r f Hr. destruct f as [|f]; [now left|].
    assert (Hal : In (bs "not", bs "!") unary_aliases) by (cbn; auto).
    destruct (unary_layout sch st f d _ _ ws (t ++ r) Hal Hw Hd) as [U1 U2].
    rewrite (skip_space_tok t r Hs) in U1, U2.
    replace ((sp ++ ws ++ t) ++ r) with (sp ++ ws ++ t ++ r) by (now rewrite <- !app_assoc).
    assert (E : lex_simple sch st (S f) d (sp ++ ws ++ t ++ r) =
                lbind (lex_simple sch st f (d + 1) (t ++ r)) (fun arg rest1 => LOk (ENot arg) rest1)).
    { destruct Hsp as [<-|[<-|[]]]; assumption. }
    rewrite E. eapply okf_bind; [apply Hp; assumption|]. now right.
  - (* parentheses *)
    intros K d ws1 t e ws2 H1 H2 Hd _ (Hs & He & Hty & Hp).
    split; [cbn; repeat split; try reflexivity; discriminate|].
    split. { change (40 :: ws1 ++ t ++ ws2 ++ [41]) with ([40] ++ ws1 ++ t ++ ws2 ++ [41]). rewrite !app_assoc. apply tok_end_last. split; reflexivity. }
    split; [exact I|]. split; [exact Hty|].
    intros r f Hr. destruct f as [|f]; [now left|].
    replace ((40 :: ws1 ++ t ++ ws2 ++ [41]) ++ r) with (40 :: ws1 ++ (t ++ ws2 ++ 41 :: r))
      by (cbn [app]; rewrite <- !app_assoc; reflexivity).
    rewrite (paren_layout sch st f d ws1 _ H1 Hd).
    remember (t ++ ws2 ++ 41 :: r) as x eqn:Ex.
    cbn [lex_simple starts_with]. rewrite N.eqb_refl. cbv iota beta. rewrite (increase_ok d _ Hd). cbn [lbind].
    subst x. rewrite (skip_space_tok t _ Hs).
    eapply okf_bind; [apply Hp; now apply close_log_end|].
    rewrite (expect_close_layout ws2 r H2). cbn [lbind]. now right.
  - (* any( ) / all( ) over a logical expression *)
    intros d q qsp ws1 ws2 t le ws3 Hq H1 H2 H3 Hd _ (Hs & He & Hty & Hp) Hst.
    split; [exact (quant_tok qsp q _ Hq)|].
    split. { change (40 :: ws2 ++ t ++ ws3 ++ [41]) with ([40] ++ ws2 ++ t ++ ws3 ++ [41]). rewrite !app_assoc. apply tok_end_last. split; reflexivity. }
    split; [exact I|]. split; [reflexivity|].
    intros r f Hr. destruct f as [|f]; [now left|].
    replace ((qsp ++ ws1 ++ 40 :: ws2 ++ t ++ ws3 ++ [41]) ++ r) with (qsp ++ ws1 ++ 40 :: (ws2 ++ t ++ ws3 ++ 41 :: r))
      by (repeat (cbn [app]; rewrite <- ?app_assoc); reflexivity).
    destruct (quant_call_lex qsp q ws1 (ws2 ++ t ++ ws3 ++ 41 :: r) Hq H1) as (E1 & E2 & E3).
    remember (qsp ++ ws1 ++ 40 :: ws2 ++ t ++ ws3 ++ 41 :: r) as inp eqn:Ei. cbn [lex_simple]. rewrite E1, E2, E3. subst inp.
    rewrite (increase_ok d _ Hd). cbn [lbind]. rewrite skip_space_ws by assumption.
    cbn [skip_space]. change (is_space 40) with false. cbv iota. unfold expect at 1. cbn [starts_with]. rewrite N.eqb_refl. cbn [lbind].
    rewrite skip_space_ws by assumption. rewrite (skip_space_tok t _ Hs).
    assert (Hst' : exists y, t ++ ws3 ++ 41 :: r = 40 :: y \/ t ++ ws3 ++ 41 :: r = 33 :: y \/ t ++ ws3 ++ 41 :: r = bs "not" ++ y).
    { destruct Hst as (x & [->|[->| ->]]); exists (x ++ ws3 ++ 41 :: r);
        [left; reflexivity|right; left; reflexivity|right; right; now rewrite <- app_assoc]. }
    destruct f as [|f]; [now left|]. rewrite (lex_arg_logical f (d + 1) _ Hst').
    destruct (Hp (ws3 ++ 41 :: r) f (close_log_end ws3 r H3)) as [E|E]; rewrite E; [now left|]. unfold lmap. cbn [lbind].
    rewrite Hty. rewrite (expect_close_layout ws3 r H3). cbn [lbind]. now right.
  - (* any( ) / all( ) over one comparison *)
    intros d q qsp ws1 ws2 name i t0 itxt idx t wsa sp sym wsb lit c ws3 Hq H1 H2 H3 Hd Hnf Hi Heach Ha Hb Hsym Hc Hls Hle.
    pose proof Hnf as (Hn & Hkw & Hg & Hty).
    pose proof (field_ty_iexpr i t0 itxt idx t Hty Hi) as Hlt.
    destruct (cmp_not_istrue _ _ _ _ _ Hc) as [Hnc Hp3].
    split; [exact (quant_tok qsp q _ Hq)|].
    split. { change (40 :: ws2 ++ (name ++ itxt ++ wsa ++ sp ++ wsb ++ lit) ++ ws3 ++ [41]) with ([40] ++ ws2 ++ (name ++ itxt ++ wsa ++ sp ++ wsb ++ lit) ++ ws3 ++ [41]). rewrite !app_assoc. apply tok_end_last. split; reflexivity. }
    split; [exact I|]. split; [reflexivity|].
    intros r f Hr. destruct f as [|f]; [now left|].
    set (tail := ws3 ++ 41 :: r).
    replace ((qsp ++ ws1 ++ 40 :: ws2 ++ (name ++ itxt ++ wsa ++ sp ++ wsb ++ lit) ++ ws3 ++ [41]) ++ r)
      with (qsp ++ ws1 ++ 40 :: (ws2 ++ name ++ itxt ++ (wsa ++ sp ++ wsb ++ lit ++ tail)))
      by (unfold tail; repeat (cbn [app]; rewrite <- ?app_assoc); reflexivity).
    destruct (quant_call_lex qsp q ws1 (ws2 ++ name ++ itxt ++ (wsa ++ sp ++ wsb ++ lit ++ tail)) Hq H1) as (E1 & E2 & E3).
    remember (qsp ++ ws1 ++ 40 :: ws2 ++ name ++ itxt ++ (wsa ++ sp ++ wsb ++ lit ++ tail)) as inp eqn:Ei. cbn [lex_simple]. rewrite E1, E2, E3. subst inp.
    rewrite (increase_ok d _ Hd). cbn [lbind]. rewrite skip_space_ws by assumption.
    cbn [skip_space]. change (is_space 40) with false. cbv iota. unfold expect at 1. cbn [starts_with]. rewrite N.eqb_refl. cbn [lbind].
    rewrite skip_space_ws by assumption. rewrite (skip_space_tok name _ (proj1 (ident_text_ends name Hn))).
    assert (Htf : atom_follow tail) by (apply close_log_end; assumption).
    assert (Hnf' : name_follow (wsa ++ sp ++ wsb ++ lit ++ tail)).
    { destruct wsa as [|c0 wsa].
      - destruct Hsym as [->|Hs']; [|congruence]. destruct (cmp_sym_first _ _ _ _ Hc) as (b & x & -> & Hb').
        cbn. tauto.
      - apply (layout_first_follow (c0 :: wsa)); [assumption|discriminate]. }
    destruct (name_second name _ Hn (idx_second _ _ _ _ _ Hi Hnf')) as (b1 & tl & Etl & Hb1 & Hsec).
    destruct (name_not_special name _ Hn Hkw (idx_then_stop _ _ _ _ _ Hi Hnf')) as (_ & U2 & U3).
    destruct f as [|f]; [now left|].
    pose proof (index_expr_field f (d + 1) name i t0 itxt idx t _ Hnf Hi Hnf') as Hix.
    rewrite Etl in *. rewrite (lex_arg_field f (d + 1) b1 tl Hb1 Hsec U2 U3).
    destruct Hix as [E|E]; rewrite E; [now left|].
    rewrite skip_space_ws by assumption. rewrite (cmp_sp_nospace _ _ _ _ _ _ Hc).
    destruct (cmp_op_found t sp sym lit c wsb tail Hc Hb Hls) as (o & Eo). rewrite Eo.
    destruct f as [|f]; [now left|].
    rewrite (cmp_parses t sp sym lit c Hc f (d + 1) (IField i idx) wsa wsb tail Hlt Ha Hb Hls Htf).
    unfold lmap. cbn [lbind]. cbn [arg_map_each_count iexpr_idx ty_lexpr]. unfold ty_cmp_of. cbn [iexpr_idx]. rewrite Heach.
    unfold tail. rewrite (expect_close_layout ws3 r H3). cbn [lbind]. now right.
  - (* any( ) / all( ) over a bare Array(Bool) left-hand side *)
    intros d q qsp ws1 ws2 name i t0 itxt idx ws3 Hq H1 H2 H3 Hd Hnf Hi Heach.
    pose proof Hnf as (Hn & Hkw & Hg & Hty).
    pose proof (field_ty_iexpr i t0 itxt idx _ Hty Hi) as Hlt.
    split; [exact (quant_tok qsp q _ Hq)|].
    split. { change (40 :: ws2 ++ (name ++ itxt) ++ ws3 ++ [41]) with ([40] ++ ws2 ++ (name ++ itxt) ++ ws3 ++ [41]). rewrite !app_assoc. apply tok_end_last. split; reflexivity. }
    split; [exact I|]. split; [reflexivity|].
    intros r f Hr. destruct f as [|f]; [now left|].
    set (tail := ws3 ++ 41 :: r).
    replace ((qsp ++ ws1 ++ 40 :: ws2 ++ (name ++ itxt) ++ ws3 ++ [41]) ++ r)
      with (qsp ++ ws1 ++ 40 :: (ws2 ++ name ++ itxt ++ tail))
      by (unfold tail; repeat (cbn [app]; rewrite <- ?app_assoc); reflexivity).
    destruct (quant_call_lex qsp q ws1 (ws2 ++ name ++ itxt ++ tail) Hq H1) as (E1 & E2 & E3).
    remember (qsp ++ ws1 ++ 40 :: ws2 ++ name ++ itxt ++ tail) as inp eqn:Ei. cbn [lex_simple]. rewrite E1, E2, E3. subst inp.
    rewrite (increase_ok d _ Hd). cbn [lbind]. rewrite skip_space_ws by assumption.
    cbn [skip_space]. change (is_space 40) with false. cbv iota. unfold expect at 1. cbn [starts_with]. rewrite N.eqb_refl. cbn [lbind].
    rewrite skip_space_ws by assumption. rewrite (skip_space_tok name _ (proj1 (ident_text_ends name Hn))).
    assert (Htf : atom_follow tail) by (apply close_log_end; assumption).
    pose proof (atom_name_follow tail Htf) as Hnf'.
    destruct (name_second name _ Hn (idx_second _ _ _ _ _ Hi Hnf')) as (b1 & tl & Etl & Hb1 & Hsec).
    destruct (name_not_special name _ Hn Hkw (idx_then_stop _ _ _ _ _ Hi Hnf')) as (_ & U2 & U3).
    destruct f as [|f]; [now left|].
    pose proof (index_expr_field f (d + 1) name i t0 itxt idx _ _ Hnf Hi Hnf') as Hix.
    rewrite Etl in *. rewrite (lex_arg_field f (d + 1) b1 tl Hb1 Hsec U2 U3).
    destruct Hix as [E|E]; rewrite E; [now left|].
    unfold tail at 1. rewrite skip_space_ws by assumption. cbn [skip_space]. change (is_space 41) with false. cbv iota.
    change (lex_alts comparison_ops (41 :: r)) with (@None (cop * bytes)).
    cbn [iexpr_idx]. rewrite Heach. cbn [Nat.ltb Nat.leb]. rewrite Hlt.
    unfold tail. rewrite (expect_close_layout ws3 r H3). cbn [lbind]. now right.
  - (* empty tail *)
    intros K d. split; [now left|]. split; [intros r Hr; exact Hr|].
    intros r [Hr He]. cbn [app ChainRep]. auto.
  - (* operator, simple expression, tail *)
    intros K d o s ta a c tc Hsep _ (Hs & He & Hn & Hty & Hp) _ (Hte & Htf & Htc).
    split. { right. destruct Hte as [->|Hte]; [rewrite app_nil_r; now apply tok_end_app|rewrite app_assoc; now apply tok_end_app]. }
    split. { intros r _. rewrite <- app_assoc. exact (sep_first o s _ Hsep). }
    intros r Hr. pose proof Hsep as (ws1 & sp & sym & ws2 & -> & H1 & H2 & (a1 & a2 & Hin & Hsp) & Hsym).
    cbn [ChainRep]. exists (ta ++ tc ++ r), (tc ++ r).
    split.
    { replace (((ws1 ++ sp ++ ws2) ++ ta ++ tc) ++ r) with (ws1 ++ sp ++ ws2 ++ (ta ++ tc ++ r)) by (now rewrite <- !app_assoc).
      destruct (combining_op_layout a1 a2 (cv o) ws1 ws2 (ta ++ tc ++ r) Hin H1 H2) as [C1 C2].
      rewrite (skip_space_tok ta _ Hs) in C1, C2. destruct Hsp as [[-> _]|[-> _]]; assumption. }
    split. { intros f. cbn [interp]. apply Hp. apply Htf. apply Hr. }
    split; [exact Hn|]. split; [exists (kty K); cbn [interp]; split; [exact Hty|apply kcls_kty]|].
    apply Htc. exact Hr.
  - (* a whole logical expression *)
    intros K d x t0 a0 tc Hx Hf _ (Hs & He & Hn & Hty & Hp) _ (Hte & Htf & Htc).
    assert (Hall : forall r, log_end r ->
              (forall f, okf (lex_logical sch st f d (t0 ++ tc ++ r)) (interp (build_or x)) r) /\
              lex_combining_op r = (None, r) /\ wt sch (kcls K) (build_or x)).
    { intros r Hr. apply (logical_chain_parses sch st d (kcls K) (kcls_comb K) x (t0 ++ tc ++ r) (tc ++ r) r Hx).
      - intros f. rewrite Hf. cbn [interp]. apply Hp. apply Htf. apply Hr.
      - rewrite Hf. exact Hn.
      - rewrite Hf. exists (kty K). cbn [interp]. split; [exact Hty|apply kcls_kty].
      - apply Htc. exact Hr. }
    split; [now apply tok_start_app|].
    split. { destruct Hte as [->|Hte]; [now rewrite app_nil_r|now apply tok_end_app]. }
    split.
    { destruct (Hall [] (conj I eq_refl)) as (_ & _ & (t & Ht & Hb)). now rewrite (kcls_eq K t Hb) in Ht. }
    intros r f Hr. rewrite <- app_assoc. apply (proj1 (Hall r Hr)).
Qed.

End Main.

(* ---- closed statements ---- *)
Lemma ws_prefix_visible b r : visible b -> ws_prefix (b :: r) = None.
Proof.
  intros [Hb Hw]. unfold ws_prefix. rewrite Hw.
  assert (E1 : (b =? 194) = false) by (apply N.eqb_neq; lia).
  assert (E2 : (b =? 225) = false) by (apply N.eqb_neq; lia).
  assert (E3 : (b =? 226) = false) by (apply N.eqb_neq; lia).
  assert (E4 : (b =? 227) = false) by (apply N.eqb_neq; lia).
  destruct r as [|c [|d r3]]; rewrite ?E1, ?E2, ?E3, ?E4; reflexivity.
Qed.

Lemma ws_suffix_visible d r : visible d -> ws_suffix_rev (d :: r) = None.
Proof.
  intros [Hb Hw]. unfold ws_suffix_rev. rewrite Hw.
  assert (E1 : (d =? 133) = false) by (apply N.eqb_neq; lia).
  assert (E2 : (d =? 160) = false) by (apply N.eqb_neq; lia).
  assert (E3 : (d =? 128) = false) by (apply N.eqb_neq; lia).
  assert (E4 : (128 <=? d) = false) by (apply N.leb_gt; lia).
  assert (E5 : (d =? 168) = false) by (apply N.eqb_neq; lia).
  assert (E6 : (d =? 169) = false) by (apply N.eqb_neq; lia).
  assert (E7 : (d =? 175) = false) by (apply N.eqb_neq; lia).
  assert (E8 : (d =? 159) = false) by (apply N.eqb_neq; lia).
  destruct r as [|c [|b r3]]; rewrite ?E1, ?E2, ?E3, ?E4, ?E5, ?E6, ?E7, ?E8; cbn [andb orb]; rewrite ?andb_false_r; reflexivity.
Qed.

Lemma trim_id t : tok_start t -> tok_end t -> trim t = t.
Proof.
  intros Hs He. unfold trim.
  assert (E : trim_start t = t).
  { unfold trim_start. destruct t as [|b t']; [destruct Hs|]. destruct Hs as [Hv _].
    cbn [List.length drop_while_some]. now rewrite (ws_prefix_visible b t' Hv). }
  rewrite E. unfold tok_end in He. destruct (rev t) as [|d r] eqn:Er; [destruct He|].
  assert (El : List.length t = S (List.length r)) by (rewrite <- (rev_length t), Er; reflexivity).
  rewrite El. cbn [drop_while_some]. rewrite (ws_suffix_visible d r He). rewrite <- Er. apply rev_involutive.
Qed.

Theorem filter_grammar_parses sch st text e : GFilter sch st text e -> parse_filter sch st text = LOk e [].
Proof.
  intros (ws1 & t & ws2 & -> & H1 & H2 & HG).
  rewrite (parse_filter_outer_layout sch st ws1 ws2 t H1 H2).
  destruct (proj2 (proj2 (proj2 (proj2 (proj2 (grammar_parses sch st))))) false 0 t e HG) as (Hs & He & Hty & Hp).
  pose proof (parse_filter_terminates sch st t) as Hnf.
  unfold parse_filter in *. rewrite (trim_id t Hs He) in *.
  specialize (Hp [] (8 * List.length t + 16)%nat (conj I eq_refl)). rewrite app_nil_r in Hp.
  destruct Hp as [E|E]; rewrite E in *; cbn [lbind complete] in *; [congruence|].
  rewrite Hty. reflexivity.
Qed.

(* two layouts / spellings of the same structure: the same AST *)
Corollary layouts_agree sch st t1 t2 e :
  GFilter sch st t1 e -> GFilter sch st t2 e -> parse_filter sch st t1 = parse_filter sch st t2.
Proof. intros H1 H2. now rewrite (filter_grammar_parses _ _ _ _ H1), (filter_grammar_parses _ _ _ _ H2). Qed.

(* ---- a worked instance ---- *)
Definition gex_sch : scheme :=
  {| sc_fields := [ {| fd_name := bs "num"; fd_ty := TInt; fd_optional := false |};
                    {| fd_name := bs "http.host"; fd_ty := TBytes; fd_optional := false |};
                    {| fd_name := bs "tt"; fd_ty := TBool; fd_optional := false |};
                    {| fd_name := bs "nums"; fd_ty := TArray TInt; fd_optional := true |} ];
     sc_functions := []; sc_lists := []; sc_nil_ne := true |}.
Definition gex_a1 : lexpr := EComparison (IField 0 []) (COrd OGe (RInt 5)).
Definition gex_a2 : lexpr := EComparison (IField 2 []) CIsTrue.
Definition gex_a3 : lexpr := ENot (EParen (EComparison (IField 1 []) (COrd OEq (RBytes [97] FQuoted)))).
Definition gex_a4 : lexpr := EComparison (IField 3 [IArr 1]) (COneOfInt [(1, 1); (3, 5)]%Z).
Definition gex_x : @orl lexpr := (((Atom gex_a1, [Atom gex_a2]), []), [((Atom gex_a3, []), []); ((Atom gex_a4, []), [])]).
Definition gex_text : bytes := bs "num>=5 and tt
  || !( http.host  eq ""a"") or nums[ 1 ] in {1 3..5}".

Lemma gex_names : names_field gex_sch (bs "num") 0 TInt /\ names_field gex_sch (bs "http.host") 1 TBytes /\
                  names_field gex_sch (bs "tt") 2 TBool /\ names_field gex_sch (bs "nums") 3 (TArray TInt).
Proof.
  assert (I1 : ident_text (bs "num")) by (apply IT_seg; [discriminate|repeat constructor]).
  assert (I2 : ident_text (bs "http.host")).
  { apply (IT_dot (bs "http") (bs "host")); [discriminate|repeat constructor|apply IT_seg; [discriminate|repeat constructor]]. }
  assert (I3 : ident_text (bs "tt")) by (apply IT_seg; [discriminate|repeat constructor]).
  assert (I4 : ident_text (bs "nums")) by (apply IT_seg; [discriminate|repeat constructor]).
  repeat split; assumption || reflexivity.
Qed.

Lemma ws1 : layout_ws [32]. Proof. repeat constructor. Qed.
Lemma ws0 : layout_ws []. Proof. constructor. Qed.

Example gex_in_grammar : GFilter gex_sch default_settings gex_text (interp (build_or gex_x)).
Proof.
  destruct gex_names as (N1 & N2 & N3 & N4).
  exists [], gex_text, []. split; [reflexivity|]. split; [exact ws0|]. split; [exact ws0|].
  change gex_text with (bs "num>=5" ++ (bs " and " ++ bs "tt" ++ (bs "
  || " ++ bs "!( http.host  eq ""a"")" ++ (bs " or " ++ bs "nums[ 1 ] in {1 3..5}" ++ [])))).
  apply (GL gex_sch default_settings false 0 gex_x (bs "num>=5") gex_a1); [repeat constructor|reflexivity| |].
  - apply (GS_cmp gex_sch default_settings false 0 (bs "num") 0 TInt [] [] TInt [] (bs ">=") true [] (bs "5") (COrd OGe (RInt 5)) N1);
      [constructor|reflexivity|exact ws0|exact ws0|now left| |cbn; repeat split; discriminate|cbn; repeat split].
    apply CS_plain, CT_ord; [exists (bs "ge"), (bs ">="); split; [cbn; tauto|now right]|reflexivity|].
    apply (LT_int IDec 5); [unfold in_i64, i64_min, i64_max; lia|exact I].
  - change (rest_or gex_x) with [(And, Atom gex_a2); (Or, Atom gex_a3); (Or, Atom gex_a4)].
    apply GT_cons.
    { exists [32], (bs "and"), false, [32]. split; [reflexivity|]. split; [exact ws1|]. split; [exact ws1|]. split.
      - exists (bs "and"), (bs "&&"). split; [cbn; tauto|now left].
      - right. discriminate. }
    { apply (GS_istrue gex_sch default_settings false 0 (bs "tt") 2 TBool [] [] TBool N3); [constructor|reflexivity]. }
    apply GT_cons.
    { exists [10; 32; 32], (bs "||"), true, [32]. split; [reflexivity|]. split; [repeat constructor; tauto|]. split; [exact ws1|]. split.
      - exists (bs "or"), (bs "||"). split; [cbn; tauto|now right].
      - now left. }
    { apply (GS_not gex_sch default_settings false 0 (bs "!") [] (bs "( http.host  eq ""a"")")); [cbn; tauto|exact ws0|reflexivity|].
      change (bs "( http.host  eq ""a"")") with (40 :: [32] ++ (bs "http.host  eq ""a""") ++ [] ++ [41]).
      apply GS_paren; [exact ws1|exact ws0|reflexivity|].
      change (bs "http.host  eq ""a""") with (bs "http.host  eq ""a""" ++ []).
      apply (GL gex_sch default_settings false (0 + 1 + 1)
               (((Atom (EComparison (IField 1 []) (COrd OEq (RBytes [97] FQuoted))), []), []), [])
               (bs "http.host  eq ""a""") (EComparison (IField 1 []) (COrd OEq (RBytes [97] FQuoted))));
        [repeat constructor|reflexivity| |apply GT_nil].
      apply (GS_cmp gex_sch default_settings false (0 + 1 + 1) (bs "http.host") 1 TBytes [] [] TBytes [32; 32] (bs "eq") false [32]
               (bs """a""") (COrd OEq (RBytes [97] FQuoted)) N2);
        [constructor|reflexivity|repeat constructor; tauto|exact ws1|right; discriminate| |cbn; repeat split; discriminate|cbn; repeat split].
      apply CS_plain, CT_ord; [exists (bs "eq"), (bs "=="); split; [cbn; tauto|now left]|reflexivity|].
      apply (LT_quoted [(SLit, 97)]). repeat constructor; cbn; try lia; auto. }
    apply GT_cons; [| |apply GT_nil].
    { exists [32], (bs "or"), false, [32]. split; [reflexivity|]. split; [exact ws1|]. split; [exact ws1|]. split.
      - exists (bs "or"), (bs "||"). split; [cbn; tauto|now left].
      - right. discriminate. }
    apply (GS_cmp gex_sch default_settings false 0 (bs "nums") 3 (TArray TInt) (bs "[ 1 ]") [IArr 1] TInt [32] (bs "in") false [32]
             (bs "{1 3..5}") (COneOfInt [(1, 1); (3, 5)]%Z) N4);
      [|reflexivity|exact ws1|exact ws1|right; discriminate| |cbn; repeat split; discriminate|cbn; repeat split].
    + apply (IX_arr TInt [32] IDec 1 [32] [] [] TInt ws1 ws1); [lia|exact I|constructor].
    + apply CS_plain, CT_in_int.
      apply (LT_items int_item_text [] (bs "1") (1, 1)%Z (bs " 3..5}") [(3, 5)%Z] ws0).
      * apply (II_one IDec 1); [unfold in_i64, i64_min, i64_max; lia|exact I].
      * cbn; repeat split; discriminate.
      * apply (IT_more int_item_text [32] (bs "3..5") (3, 5)%Z (bs "}") [] ws1); [discriminate| |cbn; repeat split; discriminate|].
        -- apply (II_range IDec IDec 3 5); try exact I; unfold in_i64, i64_min, i64_max; lia.
        -- apply (IT_close int_item_text [] ws0).
Qed.

Example gex_parses :
  parse_filter gex_sch default_settings gex_text =
  LOk (ECombining LOr (LCons (ECombining LAnd (LCons gex_a1 (LCons gex_a2 LNil))) (LCons gex_a3 (LCons gex_a4 LNil)))) [].
Proof. exact (filter_grammar_parses _ _ _ _ gex_in_grammar). Qed.

(* ---- value expressions ---- *)
Theorem value_grammar_parses sch st text e : GValue sch text e -> parse_value sch st text = LOk e [].
Proof.
  intros (ws1 & name & itxt & ws2 & i & t0 & idx & t & -> & H1 & H2 & Hn & Hg & Hty & Hi & He & ->).
  destruct (lhs_ends name itxt t0 idx t Hn Hi) as [Hs Hend].
  pose proof (parse_value_terminates sch st (name ++ itxt)) as Hnf.
  assert (E : parse_value sch st (ws1 ++ (name ++ itxt) ++ ws2) = parse_value sch st (name ++ itxt)).
  { unfold parse_value. now rewrite trim_layout. }
  rewrite E. unfold parse_value in *. rewrite (trim_id _ Hs Hend) in *.
  pose proof (index_expr_field' sch st (8 * List.length (name ++ itxt) + 16) 0 name i t0 itxt idx t [] Hn Hg Hty Hi I) as Hp.
  rewrite app_nil_r in Hp.
  destruct Hp as [Ep|Ep]; rewrite Ep in *; cbn [lbind complete] in *; [congruence|].
  cbn [iexpr_idx]. rewrite He. reflexivity.
Qed.

(* ---- a worked instance with a function call:  lower( http.host ) == "a"  ---- *)
Definition gex2_sch : scheme :=
  {| sc_fields := sc_fields gex_sch;
     sc_functions := [(bs "lower", {| fn_params := [(KField, TBytes)]; fn_opt_params := []; fn_ret := TBytes;
                                       fn_impl := fun _ => Some None; fn_variadic_same := false |})];
     sc_lists := []; sc_nil_ne := true |}.
Definition gex2_call : iexpr := ICall 0 (args_of_list [AIndex (IField 1 [])]) [].
Definition gex2_ast : lexpr := EComparison gex2_call (COrd OEq (RBytes [97] FQuoted)).
Definition gex2_text : bytes := bs "lower( http.host ) == ""a""".

Example gex2_in_grammar : GFilter gex2_sch default_settings gex2_text gex2_ast.
Proof.
  assert (I2 : ident_text (bs "http.host")).
  { apply (IT_dot (bs "http") (bs "host")); [discriminate|repeat constructor|apply IT_seg; [discriminate|repeat constructor]]. }
  assert (IL : ident_text (bs "lower")) by (apply IT_seg; [discriminate|repeat constructor]).
  assert (N2 : names_field gex2_sch (bs "http.host") 1 TBytes) by (repeat split; assumption || reflexivity).
  exists [], gex2_text, []. split; [reflexivity|]. split; [exact ws0|]. split; [exact ws0|].
  change gex2_text with (bs "lower( http.host ) == ""a""" ++ []).
  apply (GL gex2_sch default_settings false 0 (((Atom gex2_ast, []), []), []) (bs "lower( http.host ) == ""a""") gex2_ast);
    [repeat constructor|reflexivity| |apply GT_nil].
  change (bs "lower( http.host ) == ""a""") with (bs "lower( http.host )" ++ [32] ++ bs "==" ++ [32] ++ bs """a""").
  apply (GS_cmp_lhs gex2_sch default_settings false 0 (bs "lower( http.host )") gex2_call TBytes [32] (bs "==") true [32]
           (bs """a""") (COrd OEq (RBytes [97] FQuoted)));
    [|reflexivity|exact ws1|exact ws1|now left| |cbn; repeat split; discriminate|cbn; repeat split].
  - change (bs "lower( http.host )") with (bs "lower" ++ [] ++ 40 :: bs " http.host )" ++ []).
    apply (LH_call gex2_sch default_settings 0 (bs "lower") 0
             {| fn_params := [(KField, TBytes)]; fn_opt_params := []; fn_ret := TBytes;
                fn_impl := fun _ => Some None; fn_variadic_same := false |}
             [] (bs " http.host )") [AIndex (IField 1 [])] TBytes [] [] TBytes);
      [repeat split; assumption || reflexivity|exact ws0|reflexivity| |reflexivity|constructor].
    change (bs " http.host )") with ([32] ++ bs "http.host" ++ bs " )").
    apply (GA_first gex2_sch default_settings (0 + 1) _ [32] (bs "http.host") (AIndex (IField 1 [])) (bs " )") [AIndex (IField 1 [])] ws1).
    + apply (AR_lhs gex2_sch default_settings (0 + 1) (bs "http.host") (IField 1 []) TBytes).
      change (bs "http.host") with (bs "http.host" ++ []). apply (LH_field gex2_sch default_settings (0 + 1) (bs "http.host") 1 TBytes [] [] TBytes N2). constructor.
    + split; [reflexivity|]. split; [reflexivity|]. exists TBytes. split; reflexivity.
    + change (bs " )") with ([32] ++ [41]). apply (GA_end gex2_sch default_settings (0 + 1) _ [AIndex (IField 1 [])] [32] ws1). reflexivity.
  - apply CS_plain, CT_ord; [exists (bs "eq"), (bs "=="); split; [cbn; tauto|now right]|reflexivity|].
    apply (LT_quoted [(SLit, 97)]). repeat constructor; cbn; try lia; auto.
Qed.

Example gex2_parses : parse_filter gex2_sch default_settings gex2_text = LOk gex2_ast [].
Proof. exact (filter_grammar_parses _ _ _ _ gex2_in_grammar). Qed.
