(* Common lemmas for the lexer proofs (C06 / C05): result safety, take_while,
   take, digits in a radix, finite sweeps by computation. *)
From Coq Require Import List ZArith NArith Bool Lia Arith.
From Coq Require Import ZifyBool.
From WF Require Import Base.Bytes Sem.RangeSet Lang.Ast Parse.Lex Spec.C06.
Import ListNotations.
Open Scope Z_scope.

(* ---- finite sweeps ---- *)
Lemma Zforall_below : forall (P : Z -> bool) (n : nat),
  forallb P (map Z.of_nat (seq 0 n)) = true -> forall d, 0 <= d < Z.of_nat n -> P d = true.
Proof.
  intros P n H d Hd. rewrite forallb_forall in H. apply H.
  apply in_map_iff. exists (Z.to_nat d). split; [lia|]. apply in_seq. lia.
Qed.

Lemma Nforall_below : forall (P : N -> bool) (n : nat),
  forallb P (map N.of_nat (seq 0 n)) = true -> forall b, (b < N.of_nat n)%N -> P b = true.
Proof.
  intros P n H b Hb. rewrite forallb_forall in H. apply H.
  apply in_map_iff. exists (N.to_nat b). split; [lia|]. apply in_seq. lia.
Qed.

(* ---- results that are neither a panic nor an exhausted fuel ---- *)
Definition safe {A} (r : lres A) : Prop := r <> LPanic /\ r <> LFuel.
Lemma safe_ok : forall A (a : A) rest, safe (LOk a rest).
Proof. intros; split; discriminate. Qed.
Lemma safe_err : forall A k s n, safe (@LErr A k s n).
Proof. intros; split; discriminate. Qed.
Lemma safe_lbind : forall A B (r : lres A) (f : A -> bytes -> lres B),
  safe r -> (forall a rest, r = LOk a rest -> safe (f a rest)) -> safe (lbind r f).
Proof.
  intros A B r f [H1 H2] Hf. destruct r as [a rest|k s n| |]; cbn.
  - apply Hf; reflexivity.
  - apply safe_err.
  - contradiction.
  - contradiction.
Qed.
Lemma safe_lmap : forall A B (g : A -> B) (r : lres A), safe r -> safe (lmap g r).
Proof. intros A B g r H. unfold lmap. apply safe_lbind; [exact H|]. intros; apply safe_ok. Qed.
#[export] Hint Resolve safe_ok safe_err : lexsafe.

(* ---- character classes ---- *)
Lemma is_hexdigit_spec : forall b, is_hexdigit b = hex_digit_byte b.
Proof. reflexivity. Qed.
Lemma is_digit_spec : forall b, Lex.is_digit b = dec_digit_byte b.
Proof. reflexivity. Qed.
Lemma hexdigit_ascii : forall b, is_hexdigit b = true -> is_ascii b = true.
Proof. intros b H. unfold is_hexdigit, Lex.is_digit, is_ascii in *. lia. Qed.

(* ---- starts_with ---- *)
Lemma starts_with_cons : forall x p y s,
  starts_with (x :: p) (y :: s) = if (x =? y)%N then starts_with p s else None.
Proof. reflexivity. Qed.
Lemma starts_with_nil : forall s, starts_with [] s = Some s.
Proof. destruct s; reflexivity. Qed.
Lemma starts_with_app : forall p s, Forall (fun b => (b < 256)%N \/ True) p -> starts_with p (p ++ s) = Some s.
Proof.
  intros p s _. induction p as [|x p IH]; [apply starts_with_nil|].
  cbn [app]. rewrite starts_with_cons, N.eqb_refl. exact IH.
Qed.

(* ---- take_while ---- *)
Definition stops (f : N -> bool) (rest : bytes) : Prop :=
  match rest with [] => True | b :: _ => is_ascii b && f b = false end.

Lemma take_while_go_app : forall f l rest,
  Forall (fun b => is_ascii b && f b = true) l -> stops f rest ->
  take_while_go f (l ++ rest) = (l, rest).
Proof.
  intros f l rest Hl Hr. induction Hl as [|b l Hb Hl IH]; cbn [app take_while_go].
  - destruct rest as [|b r]; [reflexivity|]. unfold stops in Hr. cbn [take_while_go]. rewrite Hr. reflexivity.
  - rewrite Hb, IH. reflexivity.
Qed.

Lemma take_while_app : forall f l rest,
  l <> [] -> Forall (fun b => is_ascii b && f b = true) l -> stops f rest ->
  take_while f (l ++ rest) = LOk l rest.
Proof.
  intros f l rest Hne Hl Hr. unfold take_while. rewrite take_while_go_app by assumption.
  destruct l; [contradiction|reflexivity].
Qed.

Lemma take_while_go_split : forall f s t rest, take_while_go f s = (t, rest) -> s = t ++ rest.
Proof.
  intros f s. induction s as [|b s IH]; intros t rest H; cbn in H.
  - inversion H; reflexivity.
  - destruct (is_ascii b && f b).
    + destruct (take_while_go f s) as [t' r'] eqn:E. inversion H; subst. cbn. f_equal. apply IH. reflexivity.
    + inversion H; reflexivity.
Qed.

Lemma take_while_go_all : forall f s t rest, take_while_go f s = (t, rest) ->
  Forall (fun b => is_ascii b && f b = true) t /\ stops f rest.
Proof.
  intros f s. induction s as [|b s IH]; intros t rest H; cbn in H.
  - inversion H; subst. split; [constructor|exact I].
  - destruct (is_ascii b && f b) eqn:E.
    + destruct (take_while_go f s) as [t' r'] eqn:E2. inversion H; subst.
      destruct (IH _ _ eq_refl) as [H1 H2]. split; [constructor; assumption|assumption].
    + inversion H; subst. split; [constructor|]. cbn. exact E.
Qed.

Lemma take_while_safe : forall f s, safe (take_while f s).
Proof. intros f s. unfold take_while. destruct (take_while_go f s) as [[|b t] r]; auto with lexsafe. Qed.

(* ---- next_char / take on ASCII ---- *)
Lemma next_char_ascii : forall b s, (b < 128)%N -> next_char (b :: s) = Some ([b], s).
Proof.
  intros b s H. unfold next_char, char_len. replace (b <? 128)%N with true by lia. reflexivity.
Qed.

Lemma char_len_pos : forall b, (1 <= char_len b)%nat.
Proof. intros b. unfold char_len. repeat match goal with |- context [if ?c then _ else _] => destruct c end; lia. Qed.

Lemma next_char_shorter : forall s c r, next_char s = Some (c, r) -> (length r < length s)%nat /\ s = c ++ r.
Proof.
  intros s c r H. destruct s as [|b s]; [discriminate|]. unfold next_char in H. inversion H; subst. split.
  - pose proof (char_len_pos b). rewrite skipn_length. cbn [length]. lia.
  - symmetry. apply firstn_skipn.
Qed.

Lemma take_chars_split : forall n s t rest, take_chars n s = Some (t, rest) ->
  s = t ++ rest /\ (length rest + n <= length s)%nat.
Proof.
  induction n as [|n IH]; intros s t rest H; cbn in H.
  - inversion H; subst. split; [reflexivity|lia].
  - destruct (next_char s) as [[c r]|] eqn:E; [|discriminate].
    destruct (take_chars n r) as [[t' rest']|] eqn:E2; [|discriminate]. inversion H; subst.
    apply next_char_shorter in E. destruct E as [E1 E3]. destruct (IH _ _ _ E2) as [E4 E5]. split.
    + rewrite E3, E4. rewrite app_assoc. reflexivity.
    + lia.
Qed.

Lemma take_safe : forall n s, safe (take n s).
Proof. intros n s. unfold take. destruct (take_chars n s) as [[t r]|]; auto with lexsafe. Qed.

Lemma take_ascii2 : forall c1 c2 rest, (c1 < 128)%N -> (c2 < 128)%N ->
  take 2 (c1 :: c2 :: rest) = LOk [c1; c2] rest.
Proof.
  intros c1 c2 rest H1 H2. unfold take. cbn [take_chars].
  rewrite next_char_ascii by assumption. rewrite next_char_ascii by assumption. reflexivity.
Qed.
Lemma take_ascii3 : forall c1 c2 c3 rest, (c1 < 128)%N -> (c2 < 128)%N -> (c3 < 128)%N ->
  take 3 (c1 :: c2 :: c3 :: rest) = LOk [c1; c2; c3] rest.
Proof.
  intros c1 c2 c3 rest H1 H2 H3. unfold take. cbn [take_chars].
  rewrite !next_char_ascii by assumption. reflexivity.
Qed.

(* ---- digits ---- *)
Definition digit_facts (u : bool) (d : Z) : bool :=
  let c := digit_char u d in
  is_ascii c && is_hexdigit c && (Z.of_N (hexval c) =? d) && negb (c =? 45)%N && negb (c =? 46)%N &&
  negb (c =? 47)%N && negb (c =? 58)%N && negb (c =? 120)%N && negb (c =? 34)%N && negb (c =? 114)%N &&
  negb (c =? 42)%N && negb (c =? 35)%N &&
  (if d <? 10 then Lex.is_digit c && (c =? Z.to_N (48 + d))%N else true) &&
  (if d =? 0 then (c =? 48)%N else negb (c =? 48)%N).

Lemma digit_facts_all : forall u d, 0 <= d < 16 -> digit_facts u d = true.
Proof.
  intros u d H.
  pose proof (Zforall_below (fun d => digit_facts true d && digit_facts false d) 16) as E.
  specialize (E ltac:(vm_compute; reflexivity) d ltac:(lia)). cbn beta in E. destruct u; lia.
Qed.

Ltac digit_facts u d H :=
  let F := fresh "F" in
  pose proof (digit_facts_all u d H) as F; unfold digit_facts in F; cbn zeta in F;
  repeat (apply andb_prop in F; let F2 := fresh "F" in destruct F as [F F2]).

Lemma digit_char_ascii : forall u d, 0 <= d < 16 -> is_ascii (digit_char u d) = true.
Proof. intros u d H. digit_facts u d H. assumption. Qed.
Lemma digit_char_lt128 : forall u d, 0 <= d < 16 -> (digit_char u d < 128)%N.
Proof. intros u d H. pose proof (digit_char_ascii u d H) as A. unfold is_ascii in A. lia. Qed.
Lemma digit_char_hex : forall u d, 0 <= d < 16 -> is_hexdigit (digit_char u d) = true.
Proof. intros u d H. digit_facts u d H. assumption. Qed.
Lemma digit_char_val : forall u d, 0 <= d < 16 -> Z.of_N (hexval (digit_char u d)) = d.
Proof. intros u d H. digit_facts u d H. lia. Qed.
Lemma digit_char_dec : forall u d, 0 <= d < 10 -> Lex.is_digit (digit_char u d) = true /\ digit_char u d = Z.to_N (48 + d).
Proof.
  intros u d H. assert (H16 : 0 <= d < 16) by lia. digit_facts u d H16.
  replace (d <? 10) with true in * by lia. split; lia.
Qed.
Lemma digit_char_zero : forall u d, 0 <= d < 16 -> (digit_char u d = 48%N <-> d = 0).
Proof.
  intros u d H. digit_facts u d H. destruct (d =? 0) eqn:E; split; intro; lia.
Qed.
Lemma digit_char_not : forall u d, 0 <= d < 16 ->
  let c := digit_char u d in
  c <> 45%N /\ c <> 46%N /\ c <> 47%N /\ c <> 58%N /\ c <> 120%N /\ c <> 34%N /\ c <> 114%N /\ c <> 42%N /\ c <> 35%N.
Proof. intros u d H. digit_facts u d H. cbn zeta. repeat split; lia. Qed.

Lemma digits_val_step : forall radix u d t a, 0 <= d < radix -> radix <= 16 ->
  digits_val radix (digit_char u d :: t) a = digits_val radix t (a * radix + d).
Proof.
  intros radix u d t a Hd Hr. cbn [digits_val]. rewrite digit_char_val by lia.
  replace (d <? radix) with true by lia. reflexivity.
Qed.

Definition is_digit_of (radix : Z) (u : bool) (c : N) : Prop := exists d, 0 <= d < radix /\ c = digit_char u d.

Lemma digits_of_spec : forall radix u, 2 <= radix <= 16 ->
  forall fuel v acc, 0 <= v < radix ^ Z.of_nat fuel -> (0 < fuel)%nat ->
  exists ds, digits_of fuel radix v u acc = ds ++ acc /\
    ds <> [] /\ (length ds <= fuel)%nat /\
    Forall (is_digit_of radix u) ds /\
    (forall t a, digits_val radix (ds ++ t) a = digits_val radix t (a * radix ^ Z.of_nat (length ds) + v)) /\
    (0 < v -> exists d t, ds = digit_char u d :: t /\ 0 < d < radix) /\
    (v = 0 -> ds = [48%N]).
Proof.
  intros radix u Hr fuel. induction fuel as [|f IH]; intros v acc Hv Hf; [lia|].
  cbn [digits_of].
  assert (Hmod : 0 <= v mod radix < radix) by (apply Z.mod_pos_bound; lia).
  assert (Hdiv : 0 <= v / radix) by (apply Z.div_pos; lia).
  assert (Hvq : v = radix * (v / radix) + v mod radix) by (apply Z.div_mod; lia).
  destruct (v / radix =? 0) eqn:Eq.
  - exists [digit_char u (v mod radix)]. assert (v / radix = 0) by lia.
    assert (Hvr : v = v mod radix) by lia.
    split; [reflexivity|]. split; [discriminate|]. split; [cbn; lia|]. split.
    { constructor; [|constructor]. exists (v mod radix). split; [lia|reflexivity]. }
    split.
    { intros t a. cbn [app length]. rewrite digits_val_step by lia. f_equal.
      change (Z.of_nat 1) with 1. rewrite Z.pow_1_r. lia. }
    split.
    { intros Hpos. exists (v mod radix), []. split; [reflexivity|lia]. }
    { intros H0. subst v. rewrite Z.mod_0_l by lia. reflexivity. }
  - assert (Hq : 0 < v / radix) by lia.
    assert (Hf0 : (0 < f)%nat).
    { destruct f; [|lia]. exfalso. change (Z.of_nat 1) with 1 in Hv. rewrite Z.pow_1_r in Hv.
      assert (v / radix = 0) by (apply Z.div_small; lia). lia. }
    assert (Hq2 : 0 <= v / radix < radix ^ Z.of_nat f).
    { split; [lia|]. apply Z.div_lt_upper_bound; [lia|].
      replace (Z.of_nat (S f)) with (Z.of_nat f + 1) in Hv by lia.
      rewrite Z.pow_add_r, Z.pow_1_r in Hv by lia. lia. }
    destruct (IH (v / radix) (digit_char u (v mod radix) :: acc) Hq2 Hf0)
      as (ds & E & Hne & Hlen & Hall & Hval & Hhd & _).
    exists (ds ++ [digit_char u (v mod radix)]).
    split; [rewrite E, <- app_assoc; reflexivity|].
    split; [destruct ds; discriminate|].
    split; [rewrite app_length; cbn; lia|].
    split.
    { apply Forall_app. split; [assumption|]. constructor; [|constructor].
      exists (v mod radix). split; [lia|reflexivity]. }
    split.
    { intros t a. rewrite <- app_assoc. rewrite Hval. cbn [app]. rewrite digits_val_step by lia.
      f_equal. rewrite app_length. cbn [length].
      replace (Z.of_nat (length ds + 1)) with (Z.of_nat (length ds) + 1) by lia.
      rewrite Z.pow_add_r, Z.pow_1_r by lia. lia. }
    split.
    { intros _. destruct (Hhd Hq) as (d & t & Ed & Hd). exists d, (t ++ [digit_char u (v mod radix)]).
      split; [rewrite Ed; reflexivity|assumption]. }
    { intros H0. subst v. rewrite Z.div_0_l in Hq by lia. lia. }
Qed.

Lemma print_radix_spec : forall radix u v, 2 <= radix <= 16 -> 0 <= v ->
  let ds := print_radix radix v u in
  ds <> [] /\ Forall (is_digit_of radix u) ds /\
  (forall t a, digits_val radix (ds ++ t) a = digits_val radix t (a * radix ^ Z.of_nat (length ds) + v)) /\
  (0 < v -> exists d t, ds = digit_char u d :: t /\ 0 < d < radix) /\
  (v = 0 -> ds = [48%N]).
Proof.
  intros radix u v Hr Hv. unfold print_radix.
  assert (Hb : 0 <= v < radix ^ Z.of_nat (S (Z.to_nat (Z.log2 v)))).
  { split; [assumption|]. destruct (Z.eq_dec v 0) as [->|Hn].
    - change (Z.of_nat (S (Z.to_nat (Z.log2 0)))) with 1. rewrite Z.pow_1_r. lia.
    - assert (Hp : 0 < v) by lia. pose proof (Z.log2_spec v Hp) as [_ Hl].
      pose proof (Z.log2_nonneg v) as Hl0.
      replace (Z.of_nat (S (Z.to_nat (Z.log2 v)))) with (Z.succ (Z.log2 v)) by lia.
      eapply Z.lt_le_trans; [exact Hl|]. apply Z.pow_le_mono_l. lia. }
  destruct (digits_of_spec radix u Hr _ v [] Hb ltac:(lia)) as (ds & E & Hne & _ & Hall & Hval & Hhd & H0).
  rewrite app_nil_r in E. cbn zeta. rewrite E. repeat split; assumption.
Qed.

Lemma digits_val_zeros : forall radix n t a, 0 < radix ->
  digits_val radix (repeat 48%N n ++ t) a = digits_val radix t (a * radix ^ Z.of_nat n).
Proof.
  intros radix n t. induction n as [|n IH]; intros a Hr.
  - cbn [repeat app]. f_equal. change (Z.of_nat 0) with 0. rewrite Z.pow_0_r. lia.
  - cbn [repeat app digits_val]. change (Z.of_N (hexval 48)) with 0.
    replace (0 <? radix) with true by lia. rewrite IH by assumption. f_equal.
    replace (Z.of_nat (S n)) with (Z.of_nat n + 1) by lia. rewrite Z.pow_add_r, Z.pow_1_r by lia. lia.
Qed.

Lemma is_digit_of_hex : forall radix u c, radix <= 16 -> is_digit_of radix u c ->
  is_ascii c && is_hexdigit c = true.
Proof.
  intros radix u c Hr (d & Hd & ->). rewrite digit_char_ascii, digit_char_hex by lia. reflexivity.
Qed.
