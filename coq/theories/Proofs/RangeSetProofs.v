(* Proofs about Sem/RangeSet.v: the sort/merge normalisation denotes the same
   set of points, produces a separated list sorted by start, and the std
   binary search decides membership on such a list. *)
From Coq Require Import List ZArith NArith Bool Lia Sorted Permutation Arith ZifyBool.
From WF Require Import Base.Bytes Sem.RangeSet Spec.C09.
Import ListNotations.
Open Scope Z_scope.

Definition inr (x : Z) (r : range) : Prop := fst r <= x <= snd r.
Definition inrs (x : Z) (l : list range) : Prop := exists r, In r l /\ inr x r.
Definition by_start (a b : range) := fst a <= fst b.

Lemma in_range_inr x r : in_range x r = true <-> inr x r.
Proof. unfold in_range, inr. rewrite andb_true_iff, !Z.leb_le. tauto. Qed.

Lemma existsb_inrs x l : existsb (in_range x) l = true <-> inrs x l.
Proof.
  rewrite existsb_exists. unfold inrs. split; intros (r & Hr & H); exists r; split; auto;
    now apply in_range_inr.
Qed.

Lemma existsb_ext_inrs x l1 l2 :
  (inrs x l1 <-> inrs x l2) -> existsb (in_range x) l1 = existsb (in_range x) l2.
Proof.
  intros H. destruct (existsb (in_range x) l1) eqn:E1, (existsb (in_range x) l2) eqn:E2; auto.
  - apply existsb_inrs, H, existsb_inrs in E1. congruence.
  - apply existsb_inrs, H, existsb_inrs in E2. congruence.
Qed.

(* ---- the sort ---- *)

Lemma insert_perm r l : Permutation (r :: l) (insert_by_start r l).
Proof.
  induction l as [|h t IH]; cbn [insert_by_start]; [reflexivity|].
  destruct (fst r <=? fst h); [reflexivity|].
  rewrite perm_swap. now constructor.
Qed.

Lemma insert_sorted r l :
  StronglySorted by_start l -> StronglySorted by_start (insert_by_start r l).
Proof.
  induction l as [|h t IH]; intros Hs; cbn [insert_by_start].
  - repeat constructor.
  - inversion Hs as [|? ? Hs' Hf]; subst.
    destruct (fst r <=? fst h) eqn:E.
    + apply Z.leb_le in E. constructor; auto. constructor; [exact E|].
      eapply Forall_impl; [|exact Hf]. unfold by_start. intros a Ha. lia.
    + apply Z.leb_gt in E. constructor; [now apply IH|].
      eapply Permutation_Forall; [apply insert_perm|].
      constructor; [unfold by_start; lia|exact Hf].
Qed.

Lemma sort_perm l : Permutation l (sort_by_start l).
Proof.
  induction l as [|a l IH]; cbn; [constructor|].
  etransitivity; [|apply insert_perm]. now constructor.
Qed.

Lemma sort_sorted l : StronglySorted by_start (sort_by_start l).
Proof. induction l as [|a l IH]; cbn; [constructor|now apply insert_sorted]. Qed.

Lemma inrs_perm x l l' : Permutation l l' -> (inrs x l <-> inrs x l').
Proof.
  intros P. unfold inrs. split; intros (r & Hr & H); exists r; split; auto.
  - eapply Permutation_in; eauto.
  - eapply Permutation_in; [symmetry|]; eauto.
Qed.

(* ---- the merge (Vec::dedup_by closure) ---- *)

Lemma ss_same_start a a' l :
  fst a' = fst a -> StronglySorted by_start (a :: l) -> StronglySorted by_start (a' :: l).
Proof.
  intros E H. inversion H as [|? ? Hs Hf]; subst. constructor; auto.
  unfold by_start in *. rewrite E. exact Hf.
Qed.

Lemma merge_from_union : forall l a x,
  StronglySorted by_start (a :: l) ->
  (inrs x (merge_from a l) <-> inr x a \/ inrs x l).
Proof.
  induction l as [|b tl IH]; intros a x Hs; cbn [merge_from].
  - unfold inrs; cbn. split.
    + intros (r & [<-|[]] & H); auto.
    + intros [H|(r & [] & _)]. exists a; cbn; auto.
  - inversion Hs as [|? ? Hs' Hf]; subst. inversion Hf as [|? ? Hab Hf']; subst.
    unfold by_start in Hab.
    destruct (fst b <=? snd a) eqn:E.
    + apply Z.leb_le in E.
      set (a' := if snd a <? snd b then (fst a, snd b) else a).
      assert (Ha' : fst a' = fst a) by (unfold a'; destruct (snd a <? snd b); reflexivity).
      assert (Hs2 : StronglySorted by_start (a' :: tl)).
      { apply ss_same_start with (a := a); auto. inversion Hs'; subst. constructor; auto. }
      change (inrs x (merge_from a' tl) <-> inr x a \/ inrs x (b :: tl)).
      rewrite (IH a' x Hs2).
      unfold inrs at 2. cbn [In]. unfold inr, a'.
      destruct (snd a <? snd b) eqn:E2; [apply Z.ltb_lt in E2|apply Z.ltb_ge in E2]; cbn [fst snd]; split.
      * intros [H|(r & Hr & H)]; [|right; exists r; auto].
        destruct (Z_le_gt_dec x (snd a)); [left; lia| right; exists b; split; auto; unfold inr; lia].
      * intros [H|(r & [<-|Hr] & H)]; [left; lia | left; unfold inr in H; lia | right; exists r; auto].
      * intros [H|(r & Hr & H)]; [left; auto | right; exists r; auto].
      * intros [H|(r & [<-|Hr] & H)]; [left; auto | left; unfold inr in H; lia | right; exists r; auto].
    + unfold inrs at 1. cbn [In]. split.
      * intros (r & [<-|Hr] & H); [left; auto|].
        assert (H2 : inrs x (merge_from b tl)) by (exists r; auto).
        apply IH in H2; auto. destruct H2 as [H2|(r' & Hr' & H2)]; right.
        -- exists b; cbn; auto.
        -- exists r'; cbn; auto.
      * intros [H|(r & [<-|Hr] & H)].
        -- exists a; auto.
        -- assert (H2 : inrs x (merge_from b tl)) by (apply IH; auto).
           destruct H2 as (r' & Hr' & H2). exists r'; auto.
        -- assert (H2 : inrs x (merge_from b tl)) by (apply IH; auto; right; exists r; auto).
           destruct H2 as (r' & Hr' & H2). exists r'; auto.
Qed.

(* Separated and sorted by start: every later range starts strictly above
   every earlier end and not below any earlier start. *)
Inductive sepsorted : list range -> Prop :=
| ss_nil : sepsorted []
| ss_cons a l :
    Forall (fun b => snd a < fst b /\ fst a <= fst b) l -> sepsorted l -> sepsorted (a :: l).

Lemma merge_from_sep : forall l a,
  StronglySorted by_start (a :: l) ->
  sepsorted (merge_from a l) /\ Forall (fun r => fst a <= fst r) (merge_from a l).
Proof.
  induction l as [|b tl IH]; intros a Hs; cbn [merge_from].
  - split; repeat constructor. lia.
  - inversion Hs as [|? ? Hs' Hf]; subst. inversion Hf as [|? ? Hab Hf']; subst.
    unfold by_start in Hab.
    destruct (fst b <=? snd a) eqn:E.
    + set (a' := if snd a <? snd b then (fst a, snd b) else a).
      assert (Ha' : fst a' = fst a) by (unfold a'; destruct (snd a <? snd b); reflexivity).
      assert (Hs2 : StronglySorted by_start (a' :: tl)).
      { apply ss_same_start with (a := a); auto. inversion Hs'; subst. constructor; auto. }
      change (sepsorted (merge_from a' tl) /\ Forall (fun r => fst a <= fst r) (merge_from a' tl)).
      destruct (IH a' Hs2) as [H1 H2]. split; auto. rewrite Ha' in H2. exact H2.
    + apply Z.leb_gt in E. destruct (IH b Hs') as [H1 H2]. split.
      * constructor; auto. eapply Forall_impl; [|exact H2]. cbn. intros r Hr. lia.
      * constructor; [lia|]. eapply Forall_impl; [|exact H2]. cbn. intros r Hr. lia.
Qed.

Lemma merge_sep l : StronglySorted by_start l -> sepsorted (merge l).
Proof. destruct l as [|a tl]; intros H; cbn; [constructor|]. now apply merge_from_sep. Qed.

Lemma merge_union l x : StronglySorted by_start l -> (inrs x (merge l) <-> inrs x l).
Proof.
  destruct l as [|a tl]; intros H; cbn [merge]; [tauto|].
  rewrite merge_from_union by exact H. unfold inrs. cbn [In]. split.
  - intros [Ha|(r & Hr & Hx)]; [exists a|exists r]; auto.
  - intros (r & [<-|Hr] & Hx); [left|right; exists r]; auto.
Qed.

(* ---- the binary search ---- *)

Lemma sepsorted_nth : forall l i j a b,
  sepsorted l -> (i < j)%nat -> nth_error l i = Some a -> nth_error l j = Some b ->
  snd a < fst b /\ fst a <= fst b.
Proof.
  induction l as [|h t IH]; intros i j a b Hs Hij Hi Hj.
  - destruct i; discriminate.
  - inversion Hs as [|? ? Hf Hs']; subst.
    destruct j as [|j']; [lia|]. cbn in Hj.
    destruct i as [|i'].
    + cbn in Hi. injection Hi as <-. apply nth_error_In in Hj.
      rewrite Forall_forall in Hf. now apply Hf.
    + cbn in Hi. apply (IH i' j' a b Hs'); auto. lia.
Qed.

Definition IsEq (l : list range) (x : Z) (i : nat) : Prop :=
  exists r, nth_error l i = Some r /\ cmp_range x r = Eq.

Lemma cmp_range_Eq x r : cmp_range x r = Eq <-> inr x r.
Proof.
  unfold cmp_range, inr. rewrite Z.gtb_ltb, Z.geb_leb.
  destruct (Z.ltb_spec x (fst r)); [split; [discriminate|intros; exfalso; lia]|].
  destruct (Z.leb_spec x (snd r)); split; intros; try discriminate; try reflexivity;
    try (exfalso; lia); lia.
Qed.

Lemma cmp_range_Gt x r : cmp_range x r = Gt <-> x < fst r.
Proof.
  unfold cmp_range. rewrite Z.gtb_ltb, Z.geb_leb.
  destruct (Z.ltb_spec x (fst r)); [split; intros; [lia|reflexivity]|].
  destruct (Z.leb_spec x (snd r)); split; intros; try discriminate; exfalso; lia.
Qed.

Lemma div2_bounds n : (2 <= n)%nat -> (1 <= Nat.div2 n /\ Nat.div2 n <= n - Nat.div2 n /\ Nat.div2 n < n)%nat.
Proof.
  intros H. pose proof (Nat.div2_odd n) as E.
  destruct (Nat.odd n); cbn [Nat.b2n] in E; lia.
Qed.

Lemma bsearch_loop_ok : forall fuel l x base size,
  sepsorted l -> (1 <= size)%nat -> (base + size <= length l)%nat -> (size <= S fuel)%nat ->
  (forall i, IsEq l x i -> (base <= i < base + size)%nat) ->
  exists b, bsearch_loop fuel l x base size = Some b /\ (b < length l)%nat /\
            (forall i, IsEq l x i -> i = b).
Proof.
  induction fuel as [|fuel IH]; intros l x base size Hs H1 Hlen Hfuel Hinv.
  - assert (size = 1)%nat by lia. subst. cbn. exists base. split; [reflexivity|].
    split; [lia|]. intros i Hi. apply Hinv in Hi. lia.
  - cbn [bsearch_loop]. destruct (Nat.leb size 1) eqn:Esz.
    + apply Nat.leb_le in Esz. assert (size = 1)%nat by lia. subst.
      exists base. split; [reflexivity|]. split; [lia|]. intros i Hi. apply Hinv in Hi. lia.
    + apply Nat.leb_gt in Esz.
      destruct (div2_bounds size) as (Hh1 & Hh2 & Hh3); [lia|].
      set (half := Nat.div2 size) in *.
      destruct (nth_error l (base + half)) as [r|] eqn:Emid.
      2:{ apply nth_error_None in Emid. lia. }
      apply IH; auto; try lia.
      * destruct (cmp_range x r); lia.
      * intros i Hi. pose proof (Hinv i Hi) as Hb. destruct Hi as (ri & Hri & Ei).
        apply cmp_range_Eq in Ei. unfold inr in Ei.
        destruct (cmp_range x r) eqn:Ecmp.
        -- (* Eq at mid: i cannot be below mid *)
           apply cmp_range_Eq in Ecmp. unfold inr in Ecmp.
           destruct (Nat.lt_ge_cases i (base + half)) as [Hlt|Hge]; [|lia].
           destruct (sepsorted_nth l i (base + half) ri r Hs Hlt Hri Emid). lia.
        -- (* Lt at mid: snd r < x, so i >= mid *)
           assert (Hnot : ~ x < fst r) by (rewrite <- cmp_range_Gt; congruence).
           destruct (Nat.lt_ge_cases i (base + half)) as [Hlt|Hge]; [|lia].
           destruct (sepsorted_nth l i (base + half) ri r Hs Hlt Hri Emid). lia.
        -- (* Gt at mid: x < fst r, so i < mid *)
           apply cmp_range_Gt in Ecmp.
           destruct (Nat.lt_ge_cases i (base + half)) as [Hlt|Hge]; [lia|].
           destruct (Nat.eq_dec i (base + half)) as [->|Hne].
           ++ rewrite Emid in Hri. injection Hri as ->. lia.
           ++ assert (Hlt : (base + half < i)%nat) by lia.
              destruct (sepsorted_nth l (base + half) i r ri Hs Hlt Emid Hri). lia.
Qed.

Theorem rangeset_contains_sepsorted l x :
  sepsorted l -> rangeset_contains l x = Some (existsb (in_range x) l).
Proof.
  intros Hs. destruct l as [|a tl] eqn:El; [reflexivity|]. rewrite <- El in *.
  assert (Hne : (1 <= length l)%nat) by (subst; cbn; lia).
  unfold rangeset_contains.
  destruct (bsearch_loop_ok (length l) l x 0%nat (length l)) as (b & Hb & Hlt & Huniq); auto; try lia.
  { intros i (r & Hr & _). assert (Hn : nth_error l i <> None) by congruence.
    apply nth_error_Some in Hn. lia. }
  rewrite El at 1. rewrite Hb.
  destruct (nth_error l b) as [r|] eqn:Er; [|apply nth_error_None in Er; lia].
  f_equal.
  destruct (cmp_range x r) eqn:Ecmp.
  - symmetry. apply existsb_exists. exists r. split; [eapply nth_error_In; eauto|].
    apply in_range_inr, cmp_range_Eq. exact Ecmp.
  - destruct (existsb (in_range x) l) eqn:Ex; [|reflexivity].
    apply existsb_exists in Ex. destruct Ex as (r' & Hin & Hr').
    apply In_nth_error in Hin. destruct Hin as (i & Hi).
    assert (i = b). { apply Huniq. exists r'. split; auto. now apply cmp_range_Eq, in_range_inr. }
    subst i. rewrite Er in Hi. injection Hi as <-.
    apply in_range_inr, cmp_range_Eq in Hr'. congruence.
  - destruct (existsb (in_range x) l) eqn:Ex; [|reflexivity].
    apply existsb_exists in Ex. destruct Ex as (r' & Hin & Hr').
    apply In_nth_error in Hin. destruct Hin as (i & Hi).
    assert (i = b). { apply Huniq. exists r'. split; auto. now apply cmp_range_Eq, in_range_inr. }
    subst i. rewrite Er in Hi. injection Hi as <-.
    apply in_range_inr, cmp_range_Eq in Hr'. congruence.
Qed.

(* Whatever (unstable) sort is used: any permutation sorted by start works. *)
Theorem rangeset_any_sort l l' x :
  Permutation l l' -> StronglySorted by_start l' ->
  rangeset_contains (merge l') x = Some (existsb (in_range x) l).
Proof.
  intros P S. rewrite rangeset_contains_sepsorted by now apply merge_sep.
  f_equal. apply existsb_ext_inrs. rewrite merge_union by exact S.
  symmetry. now apply inrs_perm.
Qed.

Theorem rangeset_contains_spec l x :
  rangeset_contains (rangeset_from l) x = Some (existsb (in_range x) l).
Proof. apply rangeset_any_sort; [apply sort_perm|apply sort_sorted]. Qed.

(* ---- CIDR blocks ---- *)

Lemma cidr_range_spec bits a n v :
  0 <= n <= bits -> a mod 2 ^ (bits - n) = 0 ->
  in_range v (cidr_range bits a n) = in_cidr bits a n v.
Proof.
  intros Hn Hmod. unfold cidr_range, in_cidr, in_range. cbn [fst snd].
  set (h := bits - n) in *. assert (Hh : 0 <= h) by (unfold h; lia).
  assert (Hp : 0 < 2 ^ h) by (apply Z.pow_pos_nonneg; lia).
  assert (Hlor : Z.lor a (2 ^ h - 1) = a + (2 ^ h - 1)).
  { assert (Hland : Z.land a (2 ^ h - 1) = 0).
    { replace (2 ^ h - 1) with (Z.ones h) by (rewrite Z.ones_equiv; lia).
      rewrite Z.land_ones by exact Hh. exact Hmod. }
    rewrite <- Z.lxor_lor by exact Hland. symmetry. now apply Z.add_nocarry_lxor. }
  rewrite Hlor.
  assert (Ha : a = 2 ^ h * (a / 2 ^ h)).
  { pose proof (Z.div_mod a (2 ^ h)) as D. rewrite Hmod in D. lia. }
  set (p := 2 ^ h) in *. set (k := a / p) in *.
  destruct (v / p =? k) eqn:E.
  - apply Z.eqb_eq in E.
    pose proof (Z.div_mod v p ltac:(lia)) as D. pose proof (Z.mod_pos_bound v p Hp) as B.
    rewrite E in D. apply andb_true_iff. rewrite !Z.leb_le. lia.
  - apply Z.eqb_neq in E. apply andb_false_iff. rewrite !Z.leb_gt.
    destruct (Z_lt_le_dec v a) as [Hlt|Hge]; [left; exact Hlt|right].
    destruct (Z_lt_le_dec (a + (p - 1)) v) as [Hlt2|Hle2]; [exact Hlt2|].
    exfalso. apply E. symmetry. apply Z.div_unique_pos with (r := v - a); lia.
Qed.
