(* C07, part 5: the model of std's Display for addresses ([ip_text]) is
   injective on 32 / 128 bit values and never prints a `/`.  These are the two
   facts about addresses the injectivity of the JSON document relies on. *)
From Coq Require Import List ZArith NArith Bool Lia.
From WF Require Import Base.Bytes Base.Sexp Sem.RangeSet Sem.AstJson Spec.C07 Proofs.AstJsonProofs Proofs.JsonPrintProofs.
Import ListNotations.
Open Scope N_scope.
Local Notation length := List.length (only parsing).

Ltac ediv := zify; Z.to_euclidean_division_equations; lia.

(* ---- lists joined by a separator ---- *)

Lemma join_sep_in sep : forall gs c, In c (join_sep sep gs) -> c = sep \/ exists g, In g gs /\ In c g.
Proof.
  induction gs as [|g r IH]; intros c H; [destruct H|].
  rewrite join_sep_cons in H. apply in_app_or in H. destruct H as [H|H].
  - right. exists g. split; [now left|exact H].
  - destruct r as [|g' r']; [destruct H|]. destruct H as [<-|H]; [now left|].
    destruct (IH c H) as [->|(g0 & Hg & Hc)]; [now left|]. right. exists g0. split; [now right|exact Hc].
Qed.

Lemma join_sep_has_sep sep g1 g2 r : In sep (join_sep sep (g1 :: g2 :: r)).
Proof. rewrite join_sep_cons. apply in_or_app. right. now left. Qed.

Lemma join_sep_app sep : forall l1 l2, l1 <> [] -> l2 <> [] ->
  join_sep sep (l1 ++ l2) = join_sep sep l1 ++ sep :: join_sep sep l2.
Proof.
  induction l1 as [|g r IH]; intros l2 H1 H2; [contradiction|].
  cbn [app]. rewrite !join_sep_cons. destruct r as [|g' r'].
  - cbn [app]. destruct l2; [contradiction|]. now rewrite app_nil_r.
  - cbn [app] in *. rewrite (IH l2) by (discriminate || assumption). now rewrite <- app_assoc.
Qed.

Lemma join_sep_inj sep : forall l1 l2,
  (forall g, In g l1 -> ~ In sep g) -> (forall g, In g l2 -> ~ In sep g) ->
  l1 <> [] -> l2 <> [] -> join_sep sep l1 = join_sep sep l2 -> l1 = l2.
Proof.
  induction l1 as [|g1 r1 IH]; intros [|g2 r2] H1 H2 N1 N2 H; try contradiction.
  rewrite !join_sep_cons in H. destruct r1 as [|a1 r1], r2 as [|a2 r2].
  - rewrite !app_nil_r in H. now subst.
  - exfalso. rewrite app_nil_r in H. apply (H1 g1 (or_introl eq_refl)). rewrite H. apply in_or_app. right. now left.
  - exfalso. rewrite app_nil_r in H. apply (H2 g2 (or_introl eq_refl)). rewrite <- H. apply in_or_app. right. now left.
  - destruct (split_at_unique sep _ _ _ _ (H1 g1 (or_introl eq_refl)) (H2 g2 (or_introl eq_refl)) H) as [-> E].
    f_equal. apply IH; try discriminate; auto.
    + intros g Hg. apply H1. now right.
    + intros g Hg. apply H2. now right.
Qed.

(* ---- decimal and hexadecimal groups ---- *)

Lemma dig_not c : dig c = true -> c <> 46 /\ c <> 47 /\ c <> 58.
Proof. unfold dig. intro H. apply andb_prop in H. destruct H as [H1 H2]. apply N.leb_le in H1, H2. lia. Qed.

Definition hexch (c : N) : bool := dig c || ((97 <=? c) && (c <=? 102)).

Lemma hexch_not c : hexch c = true -> c <> 46 /\ c <> 47 /\ c <> 58.
Proof.
  unfold hexch. intro H. apply orb_prop in H. destruct H as [H|H]; [now apply dig_not|].
  apply andb_prop in H. destruct H as [H1 H2]. apply N.leb_le in H1, H2. lia.
Qed.

Lemma hex_digit_hexch n : n < 16 -> hexch (hex_digit n) = true.
Proof.
  intro H. unfold hexch, dig, hex_digit. destruct (n <? 10) eqn:E.
  - apply N.ltb_lt in E. apply orb_true_intro. left. apply andb_true_intro. split; apply N.leb_le; lia.
  - apply N.ltb_ge in E. apply orb_true_intro. right. apply andb_true_intro. split; apply N.leb_le; lia.
Qed.

Definition hexv (c : N) : N := match hex_val c with Some v => v | None => 0 end.
Definition hex_value (x : bytes) : N := fold_left (fun acc c => acc * 16 + hexv c) x 0.

Lemma hexv_digit n : n < 16 -> hexv (hex_digit n) = n.
Proof. intro H. unfold hexv. now rewrite hex_val_digit. Qed.

Lemma hex_text_spec n : n < 65536 ->
  hex_value (hex_text n) = n /\ hex_text n <> [] /\ Forall (fun c => hexch c = true) (hex_text n).
Proof.
  intro H. unfold hex_text.
  destruct (n <? 16) eqn:E1; [apply N.ltb_lt in E1|apply N.ltb_ge in E1].
  { repeat split; [|discriminate|repeat constructor; now apply hex_digit_hexch].
    unfold hex_value. cbn [fold_left]. rewrite hexv_digit by assumption. lia. }
  destruct (n <? 256) eqn:E2; [apply N.ltb_lt in E2|apply N.ltb_ge in E2].
  { assert (A1 : n / 16 < 16) by ediv. assert (A2 : n mod 16 < 16) by ediv.
    repeat split; [|discriminate|repeat constructor; now apply hex_digit_hexch].
    unfold hex_value. cbn [fold_left]. rewrite !hexv_digit by assumption. ediv. }
  destruct (n <? 4096) eqn:E3; [apply N.ltb_lt in E3|apply N.ltb_ge in E3].
  { assert (A1 : n / 256 < 16) by ediv. assert (A2 : (n / 16) mod 16 < 16) by ediv. assert (A3 : n mod 16 < 16) by ediv.
    repeat split; [|discriminate|repeat constructor; now apply hex_digit_hexch].
    unfold hex_value. cbn [fold_left]. rewrite !hexv_digit by assumption. ediv. }
  { assert (A1 : n / 4096 < 16) by ediv. assert (A2 : (n / 256) mod 16 < 16) by ediv.
    assert (A3 : (n / 16) mod 16 < 16) by ediv. assert (A4 : n mod 16 < 16) by ediv.
    repeat split; [|discriminate|repeat constructor; now apply hex_digit_hexch].
    unfold hex_value. cbn [fold_left]. rewrite !hexv_digit by assumption. ediv. }
Qed.

Definition seg_ok (x : N) : Prop := x < 65536.

Lemma hex_text_inj a c : seg_ok a -> seg_ok c -> hex_text a = hex_text c -> a = c.
Proof.
  intros Ha Hc H. rewrite <- (proj1 (hex_text_spec a Ha)), <- (proj1 (hex_text_spec c Hc)). now rewrite H.
Qed.

Lemma hex_texts_inj : forall l1 l2, Forall seg_ok l1 -> Forall seg_ok l2 -> map hex_text l1 = map hex_text l2 -> l1 = l2.
Proof.
  induction l1 as [|a l1 IH]; intros [|c l2] H1 H2 H; cbn [map] in H; try discriminate; [reflexivity|].
  injection H as Ha Hl. inversion H1; inversion H2; subst. f_equal; [now apply hex_text_inj|now apply IH].
Qed.

Lemma hex_texts_chars l c g : Forall seg_ok l -> In g (map hex_text l) -> In c g -> hexch c = true.
Proof.
  intros Hl Hg Hc. apply in_map_iff in Hg. destruct Hg as (x & <- & Hx).
  rewrite Forall_forall in Hl. pose proof (proj2 (proj2 (hex_text_spec x (Hl x Hx)))) as Hf.
  rewrite Forall_forall in Hf. now apply Hf.
Qed.

Lemma hex_texts_nonempty l g : Forall seg_ok l -> In g (map hex_text l) -> g <> [].
Proof.
  intros Hl Hg. apply in_map_iff in Hg. destruct Hg as (x & <- & Hx).
  rewrite Forall_forall in Hl. exact (proj1 (proj2 (hex_text_spec x (Hl x Hx)))).
Qed.

(* ---- IPv4 ---- *)

Lemma v4_octets_value n : n = nth 0 (v4_octets n) 0 * 16777216 + nth 1 (v4_octets n) 0 * 65536
                              + nth 2 (v4_octets n) 0 * 256 + nth 3 (v4_octets n) 0.
Proof. unfold v4_octets. cbn [nth]. ediv. Qed.

Lemma v4_chars c a : In c (v4_text a) -> c = 46 \/ dig c = true.
Proof.
  unfold v4_text. intro H. apply join_sep_in in H. destruct H as [->|(g & Hg & Hc)]; [now left|]. right.
  apply in_map_iff in Hg. destruct Hg as (x & <- & _).
  pose proof (print_N_digits x) as Hd. rewrite Forall_forall in Hd. now apply Hd.
Qed.

Lemma v4_text_inj a c : (0 <= a)%Z -> (0 <= c)%Z -> v4_text a = v4_text c -> a = c.
Proof.
  intros Ha Hc H. unfold v4_text in H. apply join_sep_inj in H.
  - assert (E : v4_octets (Z.to_N a) = v4_octets (Z.to_N c)).
    { revert H. generalize (v4_octets (Z.to_N a)) (v4_octets (Z.to_N c)).
      induction l as [|x l IH]; intros [|y l2] H; cbn [map] in H; try discriminate; [reflexivity|].
      injection H as Hx Hl. apply print_N_inj in Hx. subst. f_equal. now apply IH. }
    apply Z2N.inj; try assumption. rewrite (v4_octets_value (Z.to_N a)), (v4_octets_value (Z.to_N c)). now rewrite E.
  - intros g Hg Hi. apply in_map_iff in Hg. destruct Hg as (x & <- & _).
    pose proof (print_N_digits x) as Hd. rewrite Forall_forall in Hd. apply Hd in Hi. discriminate Hi.
  - intros g Hg Hi. apply in_map_iff in Hg. destruct Hg as (x & <- & _).
    pose proof (print_N_digits x) as Hd. rewrite Forall_forall in Hd. apply Hd in Hi. discriminate Hi.
  - discriminate.
  - discriminate.
Qed.

(* ---- IPv6: segments ---- *)

Lemma segments_length a : length (v6_segments a) = 8%nat.
Proof. reflexivity. Qed.

Lemma segments_ok a : Forall seg_ok (v6_segments a).
Proof. unfold v6_segments. repeat constructor; unfold seg_ok; apply N.mod_lt; discriminate. Qed.

Lemma seg_step a c k :
  a / 2 ^ (16 * (k + 1)) = c / 2 ^ (16 * (k + 1)) ->
  (a / 2 ^ (16 * k)) mod 65536 = (c / 2 ^ (16 * k)) mod 65536 ->
  a / 2 ^ (16 * k) = c / 2 ^ (16 * k).
Proof.
  intros H1 H2.
  assert (E : forall x, x / 2 ^ (16 * (k + 1)) = x / 2 ^ (16 * k) / 65536).
  { intro x. rewrite N.div_div by (try apply N.pow_nonzero; discriminate). f_equal.
    replace (16 * (k + 1)) with (16 * k + 16) by lia. now rewrite N.pow_add_r. }
  rewrite !E in H1.
  rewrite (N.div_mod (a / 2 ^ (16 * k)) 65536), (N.div_mod (c / 2 ^ (16 * k)) 65536) by discriminate.
  now rewrite H1, H2.
Qed.

Lemma segments_inj a c :
  (0 <= a < 2 ^ 128)%Z -> (0 <= c < 2 ^ 128)%Z -> v6_segments a = v6_segments c -> a = c.
Proof.
  intros Ha Hc H. apply Z2N.inj; try lia.
  assert (Ba : Z.to_N a < 2 ^ 128) by (change (2 ^ 128) with (Z.to_N (2 ^ 128)); apply Z2N.inj_lt; lia).
  assert (Bc : Z.to_N c < 2 ^ 128) by (change (2 ^ 128) with (Z.to_N (2 ^ 128)); apply Z2N.inj_lt; lia).
  set (x := Z.to_N a) in *. set (y := Z.to_N c) in *. unfold v6_segments in H. fold x y in H. cbn [map] in H.
  injection H as H7 H6 H5 H4 H3 H2 H1 H0.
  assert (E8 : x / 2 ^ (16 * (7 + 1)) = y / 2 ^ (16 * (7 + 1))) by (change (16 * (7 + 1)) with 128; now rewrite !N.div_small).
  pose proof (seg_step x y 7 E8 H7) as E7. change (16 * 7) with (16 * (6 + 1)) in E7.
  pose proof (seg_step x y 6 E7 H6) as E6. change (16 * 6) with (16 * (5 + 1)) in E6.
  pose proof (seg_step x y 5 E6 H5) as E5. change (16 * 5) with (16 * (4 + 1)) in E5.
  pose proof (seg_step x y 4 E5 H4) as E4. change (16 * 4) with (16 * (3 + 1)) in E4.
  pose proof (seg_step x y 3 E4 H3) as E3. change (16 * 3) with (16 * (2 + 1)) in E3.
  pose proof (seg_step x y 2 E3 H2) as E2. change (16 * 2) with (16 * (1 + 1)) in E2.
  pose proof (seg_step x y 1 E2 H1) as E1. change (16 * 1) with (16 * (0 + 1)) in E1.
  pose proof (seg_step x y 0 E1 H0) as E0. change (2 ^ (16 * 0)) with 1 in E0. now rewrite !N.div_1_r in E0.
Qed.

(* ---- IPv6: the run of zeros that is compressed ---- *)

Fixpoint lzr_mask (m : list bool) (i : nat) (cur best : nat * nat) : nat * nat :=
  match m with
  | [] => best
  | z :: r =>
      if z then
        let cur' := ((if Nat.eqb (snd cur) 0 then i else fst cur), S (snd cur)) in
        let best' := if Nat.ltb (snd best) (snd cur') then cur' else best in
        lzr_mask r (S i) cur' best'
      else lzr_mask r (S i) (O, O) best
  end.

Lemma lzr_is_mask segs : forall i cur best,
  longest_zero_run segs i cur best = lzr_mask (map (fun x => x =? 0) segs) i cur best.
Proof. induction segs as [|x r IH]; intros i cur best; cbn [longest_zero_run lzr_mask map]; [reflexivity|]. destruct (x =? 0); apply IH. Qed.

Fixpoint all_masks (n : nat) : list (list bool) :=
  match n with
  | O => [[]]
  | S k => map (cons true) (all_masks k) ++ map (cons false) (all_masks k)
  end.

Lemma all_masks_complete : forall n m, length m = n -> In m (all_masks n).
Proof.
  induction n as [|k IH]; intros [|z m] H; cbn [length] in H; try discriminate; [now left|].
  injection H as H. cbn [all_masks]. apply in_or_app. destruct z; [left|right]; apply in_map; now apply IH.
Qed.

Definition run_check (m : list bool) : bool :=
  let z := lzr_mask m 0 (O, O) (O, O) in
  Nat.leb (fst z + snd z) (length m) && forallb (fun v => v) (firstn (snd z) (skipn (fst z) m)).

Lemma run_check_all : forallb run_check (all_masks 8) = true.
Proof. vm_compute. reflexivity. Qed.

Lemma zeros_of_mask : forall l, forallb (fun v => v) (map (fun x => x =? 0) l) = true -> l = repeat 0 (length l).
Proof.
  induction l as [|x l IH]; cbn [map forallb length repeat]; intro H; [reflexivity|].
  apply andb_prop in H. destruct H as [Hx Hl]. apply N.eqb_eq in Hx. subst. f_equal. now apply IH.
Qed.

Lemma skipn_skipn {A} : forall m n (l : list A), skipn n (skipn m l) = skipn (m + n) l.
Proof.
  induction m as [|m IH]; intros n l; [reflexivity|]. destruct l as [|x l]; cbn [skipn plus]; [now destruct n|apply IH].
Qed.

Lemma Forall_firstn_ok {A} (P : A -> Prop) n : forall l, Forall P l -> Forall P (firstn n l).
Proof. induction n as [|n IH]; intros [|x l] H; cbn [firstn]; try constructor; inversion H; subst; auto. Qed.
Lemma Forall_skipn_ok {A} (P : A -> Prop) n : forall l, Forall P l -> Forall P (skipn n l).
Proof. induction n as [|n IH]; intros [|x l] H; cbn [skipn]; auto. inversion H; subst; auto. Qed.

(* the compressed run consists of zeros: the segments are what is printed
   before, that many zeros, and what is printed after *)
Lemma zero_run_spec segs : length segs = 8%nat ->
  let z := longest_zero_run segs 0 (O, O) (O, O) in
  segs = firstn (fst z) segs ++ repeat 0 (snd z) ++ skipn (fst z + snd z) segs /\ (fst z + snd z <= 8)%nat.
Proof.
  intros Hl z. unfold z. rewrite lzr_is_mask.
  pose proof run_check_all as Hall. rewrite forallb_forall in Hall.
  specialize (Hall (map (fun x => x =? 0) segs) (all_masks_complete 8 _ ltac:(rewrite map_length; exact Hl))).
  unfold run_check in Hall. set (zz := lzr_mask _ 0 (O, O) (O, O)) in *.
  apply andb_prop in Hall. destruct Hall as [Hle Hz]. apply Nat.leb_le in Hle. rewrite map_length, Hl in Hle.
  split; [|exact Hle].
  rewrite <- (firstn_skipn (fst zz) segs) at 1. f_equal.
  rewrite <- (firstn_skipn (snd zz) (skipn (fst zz) segs)) at 1. rewrite skipn_skipn. f_equal.
  rewrite skipn_map, firstn_map in Hz. apply zeros_of_mask in Hz. rewrite Hz at 1. f_equal.
  rewrite firstn_length, skipn_length. lia.
Qed.

(* ---- IPv6: the text as groups separated by colons ---- *)

Definition groups_of (l : list N) : list bytes := match l with [] => [[]] | _ => map hex_text l end.

Definition v6_chunks (segs : list N) : list bytes :=
  let z := longest_zero_run segs 0 (O, O) (O, O) in
  if Nat.ltb 1 (snd z) then groups_of (firstn (fst z) segs) ++ [] :: groups_of (skipn (fst z + snd z) segs)
  else map hex_text segs.

Lemma join_groups l : join_sep 58 (groups_of l) = fmt_subslice l.
Proof. destruct l; reflexivity. Qed.

Lemma groups_nonnil l : groups_of l <> [].
Proof. destruct l; discriminate. Qed.

Lemma v6_text_chunks a : v4_mapped (v6_segments a) = None -> v6_text a = join_sep 58 (v6_chunks (v6_segments a)).
Proof.
  intro H. unfold v6_text, v6_chunks. rewrite H. cbv zeta.
  destruct (Nat.ltb 1 _); [|reflexivity].
  rewrite join_sep_app by (apply groups_nonnil || discriminate).
  rewrite join_groups. f_equal. rewrite join_sep_cons.
  destruct (groups_of _) eqn:E; [now apply groups_nonnil in E|]. rewrite <- E, join_groups. reflexivity.
Qed.

Lemma groups_chars l c g : Forall seg_ok l -> In g (groups_of l) -> In c g -> hexch c = true.
Proof.
  destruct l as [|x l]; intros Hl Hg Hc.
  - destruct Hg as [<-|[]]. destruct Hc.
  - now apply (hex_texts_chars (x :: l) c g).
Qed.

Lemma chunks_chars segs c g : Forall seg_ok segs -> In g (v6_chunks segs) -> In c g -> hexch c = true.
Proof.
  intros Hs Hg Hc. unfold v6_chunks in Hg. cbv zeta in Hg. destruct (Nat.ltb 1 _).
  - apply in_app_or in Hg. destruct Hg as [Hg|[<-|Hg]]; [|destruct Hc|].
    + eapply groups_chars; [|exact Hg|exact Hc]. now apply Forall_firstn_ok.
    + eapply groups_chars; [|exact Hg|exact Hc]. now apply Forall_skipn_ok.
  - now apply (hex_texts_chars segs c g).
Qed.

Lemma chunks_two segs : length segs = 8%nat -> exists g1 g2 r, v6_chunks segs = g1 :: g2 :: r.
Proof.
  intro Hl. unfold v6_chunks. cbv zeta. destruct (Nat.ltb 1 _).
  - destruct (groups_of (firstn _ segs)) as [|g1 [|g2 r]] eqn:E; [now apply groups_nonnil in E| |]; cbn [app]; eauto.
  - destruct segs as [|x [|y r]]; try discriminate Hl. cbn [map]. eauto.
Qed.

Lemma groups_inj l1 l2 : Forall seg_ok l1 -> Forall seg_ok l2 -> groups_of l1 = groups_of l2 -> l1 = l2.
Proof.
  intros H1 H2 H. destruct l1 as [|x1 l1], l2 as [|x2 l2]; [reflexivity| | |now apply hex_texts_inj].
  - exfalso. cbn [groups_of map] in H. injection H as H _. symmetry in H. revert H.
    inversion H2; subst. exact (proj1 (proj2 (hex_text_spec x2 ltac:(assumption)))).
  - exfalso. cbn [groups_of map] in H. injection H as H _. revert H.
    inversion H1; subst. exact (proj1 (proj2 (hex_text_spec x1 ltac:(assumption)))).
Qed.

Lemma groups_split l1 l2 r1 r2 : Forall seg_ok l1 -> Forall seg_ok l2 ->
  groups_of l1 ++ [] :: r1 = groups_of l2 ++ [] :: r2 -> l1 = l2 /\ r1 = r2.
Proof.
  intros H1 H2 H.
  assert (Hne : forall l, Forall seg_ok l -> l <> [] -> ~ In [] (groups_of l)).
  { intros l Hl Hn Hi. destruct l as [|x l]; [contradiction|]. now apply (hex_texts_nonempty (x :: l) [] Hl Hi). }
  destruct l1 as [|x1 l1], l2 as [|x2 l2].
  - cbn [groups_of app] in H. injection H as ->. auto.
  - exfalso. cbn [groups_of map app] in H. injection H as H _. symmetry in H. revert H.
    inversion H2; subst. exact (proj1 (proj2 (hex_text_spec x2 ltac:(assumption)))).
  - exfalso. cbn [groups_of map app] in H. injection H as H _. revert H.
    inversion H1; subst. exact (proj1 (proj2 (hex_text_spec x1 ltac:(assumption)))).
  - destruct (split_at_unique ([] : bytes) _ _ _ _ (Hne _ H1 ltac:(discriminate)) (Hne _ H2 ltac:(discriminate)) H) as [E ->].
    split; [now apply groups_inj|reflexivity].
Qed.

Lemma chunks_inj s1 s2 :
  length s1 = 8%nat -> length s2 = 8%nat -> Forall seg_ok s1 -> Forall seg_ok s2 ->
  v6_chunks s1 = v6_chunks s2 -> s1 = s2.
Proof.
  intros L1 L2 F1 F2 H.
  destruct (zero_run_spec s1 L1) as [Z1 B1], (zero_run_spec s2 L2) as [Z2 B2].
  unfold v6_chunks in H. cbv zeta in H.
  set (z1 := longest_zero_run s1 0 (O, O) (O, O)) in *. set (z2 := longest_zero_run s2 0 (O, O) (O, O)) in *.
  destruct (Nat.ltb 1 (snd z1)) eqn:E1, (Nat.ltb 1 (snd z2)) eqn:E2.
  - apply groups_split in H; try (now apply Forall_firstn_ok). destruct H as [Ha Hb].
    apply groups_inj in Hb; try (now apply Forall_skipn_ok).
    assert (Hn : snd z1 = snd z2).
    { apply (f_equal (@List.length N)) in Z1. apply (f_equal (@List.length N)) in Z2.
      rewrite !app_length, repeat_length in Z1, Z2. rewrite Ha, Hb in Z1. lia. }
    rewrite Z1, Z2. now rewrite Ha, Hb, Hn.
  - exfalso. assert (Hi : In ([] : bytes) (map hex_text s2)) by (rewrite <- H; apply in_or_app; right; now left).
    now apply (hex_texts_nonempty s2 [] F2 Hi).
  - exfalso. assert (Hi : In ([] : bytes) (map hex_text s1)) by (rewrite H; apply in_or_app; right; now left).
    now apply (hex_texts_nonempty s1 [] F1 Hi).
  - now apply hex_texts_inj.
Qed.

(* ---- IPv6: mapped addresses ---- *)

Lemma v4_mapped_spec segs v : Forall seg_ok segs -> v4_mapped segs = Some v ->
  segs = [0; 0; 0; 0; 0; 65535; v / 65536; v mod 65536] /\ v < 4294967296.
Proof.
  intros Hs H. unfold v4_mapped in H.
  destruct segs as [|a [|b [|c [|d [|e [|f [|g [|h [|]]]]]]]]]; try discriminate H.
  destruct (a =? 0) eqn:Ea; [|discriminate H]. destruct (b =? 0) eqn:Eb; [|discriminate H].
  destruct (c =? 0) eqn:Ec; [|discriminate H]. destruct (d =? 0) eqn:Ed; [|discriminate H].
  destruct (e =? 0) eqn:Ee; [|discriminate H]. destruct (f =? 65535) eqn:Ef; [|discriminate H].
  cbn [andb] in H. injection H as <-.
  apply N.eqb_eq in Ea, Eb, Ec, Ed, Ee, Ef. subst.
  assert (Hg : g < 65536 /\ h < 65536).
  { repeat match goal with H : Forall _ (_ :: _) |- _ => inversion H; clear H; subst end. unfold seg_ok in *. auto. }
  destruct Hg as [Hg Hh]. split; [|lia]. repeat f_equal; ediv.
Qed.

Definition mapped_prefix : bytes := [58; 58; 102; 102; 102; 102; 58].

Lemma v6_text_mapped a v : v4_mapped (v6_segments a) = Some v -> v6_text a = mapped_prefix ++ v4_text (Z.of_N v).
Proof. intro H. unfold v6_text. now rewrite H. Qed.

Lemma v4_text_has_dot a : In 46 (v4_text a).
Proof. unfold v4_text, v4_octets. cbn [map]. apply join_sep_has_sep. Qed.

(* ---- the two facts ---- *)

Lemma v6_chars a c : In c (v6_text a) -> c = 46 \/ c = 58 \/ hexch c = true.
Proof.
  intro H. destruct (v4_mapped (v6_segments a)) as [v|] eqn:E.
  - rewrite (v6_text_mapped a v E) in H. apply in_app_or in H. destruct H as [H|H].
    + cbn in H. destruct H as [<-|[<-|[<-|[<-|[<-|[<-|[<-|[]]]]]]]]; auto.
    + apply v4_chars in H. destruct H as [->|H]; auto. right. right. unfold hexch. now rewrite H.
  - rewrite (v6_text_chunks a E) in H. apply join_sep_in in H. destruct H as [->|(g & Hg & Hc)]; auto.
    right. right. exact (chunks_chars _ c g (segments_ok a) Hg Hc).
Qed.

Lemma v6_has_colon a : In 58 (v6_text a).
Proof.
  destruct (v4_mapped (v6_segments a)) as [v|] eqn:E.
  - rewrite (v6_text_mapped a v E). apply in_or_app. left. now left.
  - rewrite (v6_text_chunks a E). destruct (chunks_two _ (segments_length a)) as (g1 & g2 & r & ->).
    apply join_sep_has_sep.
Qed.

Lemma v6_text_inj a c : (0 <= a < 2 ^ 128)%Z -> (0 <= c < 2 ^ 128)%Z -> v6_text a = v6_text c -> a = c.
Proof.
  intros Ha Hc H. apply segments_inj; try assumption.
  destruct (v4_mapped (v6_segments a)) as [v1|] eqn:E1, (v4_mapped (v6_segments c)) as [v2|] eqn:E2.
  - rewrite (v6_text_mapped a v1 E1), (v6_text_mapped c v2 E2) in H. apply app_inv_head in H.
    apply v4_text_inj in H; try lia. apply N2Z.inj in H. subst v2.
    destruct (v4_mapped_spec _ _ (segments_ok a) E1) as [-> _], (v4_mapped_spec _ _ (segments_ok c) E2) as [-> _].
    reflexivity.
  - exfalso. rewrite (v6_text_mapped a v1 E1), (v6_text_chunks c E2) in H.
    assert (Hd : In 46 (join_sep 58 (v6_chunks (v6_segments c)))).
    { rewrite <- H. apply in_or_app. right. apply v4_text_has_dot. }
    apply join_sep_in in Hd. destruct Hd as [Hd|(g & Hg & Hc')]; [discriminate Hd|].
    pose proof (chunks_chars _ 46 g (segments_ok c) Hg Hc') as Hx. discriminate Hx.
  - exfalso. rewrite (v6_text_mapped c v2 E2), (v6_text_chunks a E1) in H.
    assert (Hd : In 46 (join_sep 58 (v6_chunks (v6_segments a)))).
    { rewrite H. apply in_or_app. right. apply v4_text_has_dot. }
    apply join_sep_in in Hd. destruct Hd as [Hd|(g & Hg & Hc')]; [discriminate Hd|].
    pose proof (chunks_chars _ 46 g (segments_ok a) Hg Hc') as Hx. discriminate Hx.
  - rewrite (v6_text_chunks a E1), (v6_text_chunks c E2) in H.
    apply chunks_inj; try apply segments_length; try apply segments_ok.
    apply (join_sep_inj 58); try exact H.
    + intros g Hg Hi. pose proof (chunks_chars _ 58 g (segments_ok a) Hg Hi) as Hx. discriminate Hx.
    + intros g Hg Hi. pose proof (chunks_chars _ 58 g (segments_ok c) Hg Hi) as Hx. discriminate Hx.
    + destruct (chunks_two _ (segments_length a)) as (g1 & g2 & r & ->). discriminate.
    + destruct (chunks_two _ (segments_length c)) as (g1 & g2 & r & ->). discriminate.
Qed.

Theorem ip_text_injective : forall a c, ip_ok a -> ip_ok c -> ip_text a = ip_text c -> a = c.
Proof.
  intros [a|a] [c|c] Ha Hc H; cbn [ip_text ip_ok] in *.
  - f_equal. apply v4_text_inj; try lia. exact H.
  - exfalso. pose proof (v6_has_colon c) as Hi. rewrite <- H in Hi. apply v4_chars in Hi.
    destruct Hi as [Hi|Hi]; discriminate Hi.
  - exfalso. pose proof (v6_has_colon a) as Hi. rewrite H in Hi. apply v4_chars in Hi.
    destruct Hi as [Hi|Hi]; discriminate Hi.
  - f_equal. now apply v6_text_inj.
Qed.

Theorem ip_text_no_slash : forall a, ~ In 47 (ip_text a).
Proof.
  intros [a|a] H; cbn [ip_text] in H.
  - apply v4_chars in H. destruct H as [H|H]; discriminate H.
  - apply v6_chars in H. destruct H as [H|[H|H]]; discriminate H.
Qed.
