(* A "mini parser" around the literal lexers of Parse/Lex.v: exactly the part of
   the real parser (FilterParser::parse -> LogicalExpr -> ComparisonExpr ->
   IndexExpr / lex_rhs_values -> complete) that surrounds one literal in the
   filters

     i == TEXT      i in {TEXT}     i in $TEXT
     s == TEXT      s in {TEXT}
     p == TEXT      p in {TEXT}
     a[TEXT] == 1   m[TEXT] == 1

   optionally preceded by "(" or "( " and followed by an arbitrary SUFFIX, over
   the scheme  i:Int s:Bytes p:Ip a:Array(Int) m:Map(Int) t:Bool  with one Int
   list.  What may follow the comparison is modelled for the tokens the
   correspondence cases use (spaces, a combining operator followed by the
   field `t`, closing parentheses, end of input); anything else after a
   combining operator is answered [PUnsupported] (the case generator never
   produces it).  No proofs here. *)
From Coq Require Import List ZArith NArith Bool.
From WF Require Import Base.Bytes Sem.RangeSet Lang.Ast Parse.Lex.
Import ListNotations.
Open Scope N_scope.

Inductive lit_kind :=
| KIntEq | KIntIn | KIntList | KBytesEq | KBytesIn | KIpEq | KIpIn | KArrIdx | KMapIdx.

Inductive lit_val :=
| LVInt (z : Z)
| LVBytes (b : bytes) (f : bytes_format)
| LVIp (a : ip)
| LVInInt (l : list (Z * Z))
| LVInBytes (l : list (bytes * bytes_format))
| LVInIp (l : list ip_item)
| LVIdx (i : raw_index)
| LVList (name : bytes).

(* error: kind and the span as (suffix of the parsed text where it starts, length) *)
Inductive pres :=
| POk (v : lit_val)
| PErr (k : lexerr) (span_at : bytes) (span_len : nat)
| PPanic
| PFuel
| PUnsupported.

(* ---- str::trim (char::is_whitespace), end side; the texts start with a field name or "(" ---- *)
Definition is_ascii_ws (b : N) : bool := ((9 <=? b) && (b <=? 13)) || (b =? 32).

(* [r] is the reversed text: drop the reversed encodings of White_Space characters
   U+0009..000D U+0020 U+0085 U+00A0 U+1680 U+2000..200A U+2028 U+2029 U+202F U+205F U+3000 *)
Fixpoint drop_ws_rev (r : bytes) : bytes :=
  match r with
  | b :: r1 =>
      if is_ascii_ws b then drop_ws_rev r1
      else
        match r1 with
        | c :: r2 =>
            if (c =? 194) && ((b =? 133) || (b =? 160)) then drop_ws_rev r2
            else
              match r2 with
              | d :: r3 =>
                  if (d =? 225) && (c =? 154) && (b =? 128) then drop_ws_rev r3
                  else if (d =? 226) && (c =? 128) &&
                          (((128 <=? b) && (b <=? 138)) || (b =? 168) || (b =? 169) || (b =? 175))
                  then drop_ws_rev r3
                  else if (d =? 226) && (c =? 129) && (b =? 159) then drop_ws_rev r3
                  else if (d =? 227) && (c =? 128) && (b =? 128) then drop_ws_rev r3
                  else r
              | [] => r
              end
        | [] => r
        end
  | [] => []
  end.
Definition trim_end (s : bytes) : bytes := rev (drop_ws_rev (rev s)).

(* ---- the filter text ---- *)
Definition kind_prefix (k : lit_kind) : bytes :=
  match k with
  | KIntEq => [105; 32; 61; 61; 32]                  (* "i == " *)
  | KIntIn => [105; 32; 105; 110; 32; 123]           (* "i in {" *)
  | KIntList => [105; 32; 105; 110; 32; 36]          (* "i in $" *)
  | KBytesEq => [115; 32; 61; 61; 32]                (* "s == " *)
  | KBytesIn => [115; 32; 105; 110; 32; 123]
  | KIpEq => [112; 32; 61; 61; 32]                   (* "p == " *)
  | KIpIn => [112; 32; 105; 110; 32; 123]
  | KArrIdx => [97; 91]                              (* "a[" *)
  | KMapIdx => [109; 91]                             (* "m[" *)
  end.
Definition kind_postfix (k : lit_kind) : bytes :=
  match k with
  | KIntIn | KBytesIn | KIpIn => [125]               (* "}" *)
  | KArrIdx | KMapIdx => [93; 32; 61; 61; 32; 49]    (* "] == 1" *)
  | _ => []
  end.
Definition paren_prefix (p : N) : bytes :=
  match p with 0 => [] | 1 => [40] | _ => [40; 32] end.
Definition filter_text (k : lit_kind) (paren : N) (text suffix : bytes) : bytes :=
  paren_prefix paren ++ kind_prefix k ++ text ++ kind_postfix k ++ suffix.

(* ---- what follows a comparison ---- *)
(* LogicalOp::lex: "or" "||" "xor" "^^" "and" "&&" *)
Definition lex_logical_op (s : bytes) : option bytes :=
  match starts_with [111; 114] s with Some r => Some r | None =>
  match starts_with [124; 124] s with Some r => Some r | None =>
  match starts_with [120; 111; 114] s with Some r => Some r | None =>
  match starts_with [94; 94] s with Some r => Some r | None =>
  match starts_with [97; 110; 100] s with Some r => Some r | None =>
  starts_with [38; 38] s end end end end end.

Definition pbind {A} (r : lres A) (f : A -> bytes -> pres) : pres :=
  match r with
  | LOk a rest => f a rest
  | LErr k s n => PErr k s n
  | LPanic => PPanic
  | LFuel => PFuel
  end.

(* lex_more_with_precedence / complete / the closing parenthesis, for right
   operands that are the Bool field `t` *)
Fixpoint tail_go (fuel : nat) (depth : nat) (rest : bytes) (v : lit_val) : pres :=
  match fuel with
  | O => PFuel
  | S f =>
      match lex_logical_op (skip_space rest) with
      | Some r2 =>
          match skip_space r2 with
          | 116 :: r4 =>
              match r4 with
              | c :: _ =>
                  if is_ident_char c || (c =? 46) || (c =? 91) then PUnsupported
                  else tail_go f depth r4 v
              | [] => tail_go f depth r4 v
              end
          | [] => PErr EExpectedName [] 0          (* the right operand is missing: Identifier::lex_with *)
          | _ => PUnsupported
          end
      | None =>
          match depth with
          | O => match rest with [] => POk v | _ => PErr EEOF rest (length rest) end
          | S d =>
              pbind (expect [41] (skip_space rest)) (fun _ r => tail_go f d r v)
          end
      end
  end.
Definition tail (depth : nat) (rest : bytes) (v : lit_val) : pres :=
  tail_go (S (S (length rest))) depth rest v.

(* lex_rhs_values after the "{": items until "}" *)
Fixpoint values_go {A} (lexer : bytes -> lres A) (fuel : nat) (s : bytes) (acc : list A) : lres (list A) :=
  match fuel with
  | O => LFuel
  | S f =>
      let s1 := skip_space s in
      match starts_with [125] s1 with
      | Some rest => LOk (rev acc) rest
      | None => lbind (lexer s1) (fun it rest => values_go lexer f rest (it :: acc))
      end
  end.
Definition lex_rhs_values {A} (lexer : bytes -> lres A) (input : bytes) : lres (list A) :=
  lbind (expect [123] input) (fun _ rest => values_go lexer (S (length rest)) rest []).

(* ComparisonOp::lex: the spellings of every comparison operator; when none of
   them starts the text the error is ExpectedName("ComparisonOp") over the text *)
Definition comparison_op_spellings : list bytes :=
  [ [105; 110];                                   (* in *)
    [101; 113]; [61; 61]; [110; 101]; [33; 61];   (* eq == ne != *)
    [103; 101]; [62; 61]; [108; 101]; [60; 61];   (* ge >= le <= *)
    [103; 116]; [62]; [108; 116]; [60];           (* gt > lt < *)
    [38]; [98; 105; 116; 119; 105; 115; 101; 95; 97; 110; 100];   (* & bitwise_and *)
    [99; 111; 110; 116; 97; 105; 110; 115]; [126]; [109; 97; 116; 99; 104; 101; 115];   (* contains ~ matches *)
    [119; 105; 108; 100; 99; 97; 114; 100];                                             (* wildcard *)
    [115; 116; 114; 105; 99; 116; 32; 119; 105; 108; 100; 99; 97; 114; 100] ].          (* strict wildcard *)
Definition no_comparison_op (s : bytes) : bool :=
  negb (existsb (fun op => match starts_with op s with Some _ => true | None => false end) comparison_op_spellings).
Definition other_op (s0 : bytes) : pres :=
  if no_comparison_op s0 then PErr EExpectedName s0 (length s0) else PUnsupported.

(* ComparisonExpr::lex_with_lhs after the field: operator, literal *)
Definition after_field (k : lit_kind) (depth : nat) (s : bytes) : pres :=
  let s0 := skip_space s in
  match k with
  | KIntEq | KBytesEq | KIpEq | KArrIdx | KMapIdx =>
      match starts_with [61; 61] s0 with
      | None => other_op s0
      | Some s1 =>
          let s2 := skip_space s1 in
          match k with
          | KBytesEq => pbind (lex_bytes s2) (fun v rest => tail depth rest (LVBytes (fst v) (snd v)))
          | KIpEq => pbind (lex_ip s2) (fun v rest => tail depth rest (LVIp v))
          | _ => pbind (lex_int s2) (fun v rest => tail depth rest (LVInt v))
          end
      end
  | _ =>
      match starts_with [105; 110] s0 with
      | None => other_op s0
      | Some s1 =>
          let s2 := skip_space s1 in
          match s2 with
          | 36 :: _ =>
              pbind (lex_list_name s2) (fun name rest =>
                match k with
                | KIntIn | KIntList => tail depth rest (LVList name)
                | _ => PErr EUnsupportedOp s0 (span_len s0 rest)
                end)
          | _ =>
              match k with
              | KBytesIn => pbind (lex_rhs_values lex_bytes s2) (fun l rest => tail depth rest (LVInBytes l))
              | KIpIn => pbind (lex_rhs_values lex_ip_range s2) (fun l rest => tail depth rest (LVInIp l))
              | _ => pbind (lex_rhs_values lex_int_range s2) (fun l rest => tail depth rest (LVInInt l))
              end
          end
      end
  end.

(* IndexExpr::lex_with after the field name, for the Array(Int) field `a`
   ([is_map] = false) or the Map(Int) field `m` *)
Definition index_then (k : lit_kind) (depth : nat) (s : bytes) : pres :=
  match starts_with [91] s with
  | None => PUnsupported
  | Some s1 =>
      pbind (lex_field_index (skip_space s1)) (fun idx r1 =>
        pbind (expect [93] (skip_space r1)) (fun _ r2 =>
          let bad := PErr EInvalidIndexAccess s (span_len s r2) in
          let next :=
            match r2 with
            | 91 :: _ => PUnsupported
            | _ =>
                (* the comparison that follows; its own literal is not the subject: keep the index *)
                match after_field k depth r2 with
                | POk (LVInt _) => POk (LVIdx idx)
                | POk _ => PUnsupported
                | e => e
                end
            end in
          match idx, k with
          | RIArr _, KArrIdx => next
          | RIKey _, KMapIdx => next
          | RIEach, _ =>
              (* a[*] == 1 has type Array(Bool): FilterAst::lex_with rejects it as the root of a filter
                 (only the plain comparison at the end of the input is in scope) *)
              if bytes_eqb r2 [32; 61; 61; 32; 49] then PErr ETypeMismatch [] 0 else PUnsupported
          | _, _ => bad
          end))
  end.

Definition field_letter (k : lit_kind) : N :=
  match k with
  | KIntEq | KIntIn | KIntList => 105
  | KBytesEq | KBytesIn => 115
  | KIpEq | KIpIn => 112
  | KArrIdx => 97
  | KMapIdx => 109
  end.

Definition comparison (k : lit_kind) (depth : nat) (s : bytes) : pres :=
  match s with
  | c :: s1 =>
      if c =? field_letter k then
        match k with
        | KArrIdx | KMapIdx => index_then k depth s1
        | _ => after_field k depth s1
        end
      else PUnsupported
  | [] => PUnsupported
  end.

(* FilterParser::parse on filter_text k paren text suffix *)
Definition parse_case (k : lit_kind) (paren : N) (text suffix : bytes) : bytes * pres :=
  let full := trim_end (filter_text k paren text suffix) in
  (full,
   match paren with
   | 0 => comparison k 0 full
   | _ =>
       match full with
       | 40 :: s1 => comparison k 1 (skip_space s1)
       | _ => PUnsupported
       end
   end).

(* ---- ParseError::new: (line_number, span_start, span_len) of a span that starts
   [length full - length span_at] bytes into [orig] (the untrimmed input; the
   trimmed text is a prefix of it) ---- *)
Fixpoint count_nl_last (s : bytes) (pos : nat) (lines : nat) (line_start : nat) : nat * nat :=
  match s with
  | [] => (lines, line_start)
  | b :: r => if b =? 10 then count_nl_last r (S pos) (S lines) (S pos) else count_nl_last r (S pos) lines line_start
  end.
Fixpoint find_nl (s : bytes) (pos : nat) : option nat :=
  match s with
  | [] => None
  | b :: r => if b =? 10 then Some pos else find_nl r (S pos)
  end.
Definition parse_error_new (orig : bytes) (start len : nat) : nat * nat * nat :=
  let '(line_number, line_start) := count_nl_last (firstn start orig) 0 0 0 in
  let input := skipn line_start orig in
  let start' := (start - line_start)%nat in
  match find_nl input 0 with
  | Some line_end => (line_number, start', Nat.min len (line_end - start'))
  | None => (line_number, start', len)
  end.
