(* Character-level lexers: a Gallina mirror of engine/src/lex.rs and of the
   literal lexers in rhs_types/{int,bytes,ip,list}.rs and scheme.rs
   (FieldIndex, Identifier).  Inputs are byte strings that are valid UTF-8 (Rust
   &str).  A result is a value and the rest of the input, or an error kind with
   the error span: the span is the sub-slice of the input that starts where
   [span_at] starts and is [span_len] bytes long (every span the code builds is
   a prefix of a suffix of the original input).  No proofs here. *)
From Coq Require Import List ZArith NArith Bool.
From WF Require Import Base.Bytes Sem.RangeSet Lang.Types Lang.Ast.
Import ListNotations.
Open Scope N_scope.

(* one tag per LexErrorKind variant (payload text dropped) *)
Inductive lexerr :=
| EExpectedName | EExpectedLiteral | EParseInt | EParseNetwork | EParseRegex | EParseWildcard
| EInvalidCharacterEscape | EInvalidRawStringHashCount | EMissingEndingQuote | ECountMismatch
| EUnknownField | EUnknownFunction | EUnknownIdentifier | EUnsupportedOp | EIncompatibleRangeBounds
| EEOF | EInvalidArgumentsCount | EInvalidArgumentKind | EInvalidArgumentType | EInvalidArgumentValue
| EInvalidIndexAccess | ETypeMismatch | EInvalidMapEachAccess | EInvalidListName | ENestingLimitExceeded.

Inductive lres (A : Type) :=
| LOk (a : A) (rest : bytes)
| LErr (k : lexerr) (span_at : bytes) (span_len : nat)
| LPanic                         (* a Rust panic: slicing off a char boundary, unwrap, ... *)
| LFuel.                         (* recursion fuel exhausted (excluded by the theorems) *)
Arguments LOk {A}. Arguments LErr {A}. Arguments LPanic {A}. Arguments LFuel {A}.

Definition lbind {A B} (r : lres A) (f : A -> bytes -> lres B) : lres B :=
  match r with
  | LOk a rest => f a rest
  | LErr k s n => LErr k s n
  | LPanic => LPanic
  | LFuel => LFuel
  end.
Definition lmap {A B} (f : A -> B) (r : lres A) : lres B := lbind r (fun a rest => LOk (f a) rest).

(* ---- UTF-8 ---- *)
(* length in bytes of the scalar starting with lead byte [b] (valid UTF-8 assumed) *)
Definition char_len (b : N) : nat :=
  if b <? 128 then 1%nat else if b <? 224 then 2%nat else if b <? 240 then 3%nat else 4%nat.

(* chars().next(): the bytes of the first character and the rest *)
Definition next_char (s : bytes) : option (bytes * bytes) :=
  match s with
  | [] => None
  | b :: _ => let n := char_len b in Some (firstn n s, skipn n s)
  end.

Definition is_ascii (b : N) : bool := b <? 128.

(* span(input, rest) = &input[..input.len() - rest.len()]: its length *)
Definition span_len (input rest : bytes) : nat := (length input - length rest)%nat.

(* ---- lex.rs ---- *)
(* expect(input, s) *)
Definition expect (s input : bytes) : lres unit :=
  match starts_with s input with
  | Some rest => LOk tt rest
  | None => LErr EExpectedLiteral input (length input)
  end.

(* SPACE_CHARS = [' ', '\r', '\n'] *)
Definition is_space (b : N) : bool := (b =? 32) || (b =? 13) || (b =? 10).
Fixpoint skip_space (s : bytes) : bytes :=
  match s with
  | b :: r => if is_space b then skip_space r else s
  | [] => []
  end.

(* take_while over characters, with an ASCII-only predicate (every predicate of
   the code is); a non-ASCII character stops it *)
Fixpoint take_while_go (f : N -> bool) (s : bytes) : bytes * bytes :=
  match s with
  | b :: r => if is_ascii b && f b then let (t, rest) := take_while_go f r in (b :: t, rest) else ([], s)
  | [] => ([], [])
  end.
Definition take_while (f : N -> bool) (input : bytes) : lres bytes :=
  let (t, rest) := take_while_go f input in
  match t with
  | [] => LErr EExpectedName input (length input)
  | _ => LOk t rest
  end.

(* take(input, n): n characters *)
Fixpoint take_chars (n : nat) (s : bytes) : option (bytes * bytes) :=
  match n with
  | O => Some ([], s)
  | S n' =>
      match next_char s with
      | None => None
      | Some (c, r) =>
          match take_chars n' r with
          | Some (t, rest) => Some (c ++ t, rest)
          | None => None
          end
      end
  end.
Definition take (n : nat) (input : bytes) : lres bytes :=
  match take_chars n input with
  | Some (t, rest) => LOk t rest
  | None => LErr ECountMismatch input (length input)
  end.

(* ---- character classes ---- *)
Definition is_digit (b : N) : bool := (48 <=? b) && (b <=? 57).
Definition is_hexdigit (b : N) : bool :=
  is_digit b || ((97 <=? b) && (b <=? 102)) || ((65 <=? b) && (b <=? 70)).
Definition is_alnum (b : N) : bool :=
  is_digit b || ((97 <=? b) && (b <=? 122)) || ((65 <=? b) && (b <=? 90)).
Definition hexval (b : N) : N :=
  if is_digit b then b - 48 else if (97 <=? b) && (b <=? 102) then b - 87 else b - 55.

(* ---- integers: rhs_types/int.rs ---- *)
Definition I64_MAX : Z := 9223372036854775807.
Definition I64_MIN : Z := -9223372036854775808.

(* digits of [s] in [radix] (all assumed hex digits); None if some digit >= radix *)
Fixpoint digits_val (radix : Z) (s : bytes) (acc : Z) : option Z :=
  match s with
  | [] => Some acc
  | b :: r =>
      let d := Z.of_N (hexval b) in
      if (d <? radix)%Z then digits_val radix r (acc * radix + d)%Z else None
  end.

(* i64::from_str_radix on a string made of an optional leading '-' (only in
   decimal here) and hex digits: value, or None for InvalidDigit / overflow / empty *)
Definition i64_from_str_radix (s : bytes) (radix : Z) : option Z :=
  match s with
  | [] => None
  | 45 :: ds =>
      match ds with
      | [] => None
      | _ => match digits_val radix ds 0%Z with
             | Some v => if (- v <? I64_MIN)%Z then None else Some (- v)%Z
             | None => None
             end
      end
  | _ => match digits_val radix s 0%Z with
         | Some v => if (I64_MAX <? v)%Z then None else Some v
         | None => None
         end
  end.

Definition lex_digits (input : bytes) : lres bytes := take_while is_hexdigit input.

(* parse_number((input, rest), radix): error span = the digits *)
Definition parse_number (at_ digits rest : bytes) (radix : Z) : lres Z :=
  match i64_from_str_radix digits radix with
  | Some v => LOk v rest
  | None => LErr EParseInt at_ (length digits)
  end.

Definition lex_int (input : bytes) : lres Z :=
  match starts_with [48; 120] input with                    (* '0x' *)
  | Some after => lbind (lex_digits after) (fun ds rest => parse_number after ds rest 16)
  | None =>
      match input with
      | 48 :: _ => lbind (lex_digits input) (fun ds rest => parse_number input ds rest 8)
      | _ =>
          let without_neg := match starts_with [45] input with Some r => r | None => input end in
          lbind (lex_digits without_neg)
                (fun _ rest => parse_number input (firstn (span_len input rest) input) rest 10)
      end
  end.

(* IntRange::lex *)
Definition lex_int_range (input : bytes) : lres (Z * Z) :=
  lbind (lex_int input) (fun first rest1 =>
    match starts_with [46; 46] rest1 with
    | Some after =>
        lbind (lex_int after) (fun last rest2 =>
          if (last <? first)%Z then LErr EIncompatibleRangeBounds input (span_len input rest2)
          else LOk (first, last) rest2)
    | None => LOk (first, first) rest1
    end).

(* ---- byte strings: rhs_types/bytes.rs ---- *)
(* [bytes_format] (BytesFormat) is defined in Lang/Ast.v *)

(* u8::from_str_radix(digits, radix) for the fixed-width escapes, after the fix
   of the leading '+' acceptance: every character must be a digit of the radix *)
Definition u8_from_digits (ds : bytes) (radix : Z) : option N :=
  match ds with
  | [] => None
  | _ =>
      if forallb (fun b => is_ascii b && is_hexdigit b) ds then
        match digits_val radix ds 0%Z with
        | Some v => if (v <? 256)%Z then Some (Z.to_N v) else None
        | None => None
        end
      else None
  end.

Definition fixed_byte (n : nat) (radix : Z) (input : bytes) : lres N :=
  lbind (take n input) (fun ds rest =>
    match u8_from_digits ds radix with
    | Some b => LOk b rest
    | None => LErr EParseInt input (length ds)
    end).
Definition hex_byte := fixed_byte 2 16%Z.
Definition oct_byte := fixed_byte 3 8%Z.

(* lex_quoted_string_as_vec: [input] is the text after the opening quote *)
Fixpoint quoted_go (fuel : nat) (full s : bytes) (acc : bytes) : lres bytes :=
  match fuel with
  | O => LFuel
  | S f =>
      match next_char s with
      | None => LErr EMissingEndingQuote full (length full)
      | Some (c, r) =>
          match c with
          | [92] =>                                           (* backslash *)
              match next_char r with
              | None => LErr EMissingEndingQuote full (length full)
              | Some (c2, r2) =>
                  match c2 with
                  | [34] => quoted_go f full r2 (acc ++ [34])
                  | [92] => quoted_go f full r2 (acc ++ [92])
                  | [120] =>                                  (* x *)
                      match hex_byte r2 with
                      | LOk b rest => quoted_go f full rest (acc ++ [b])
                      | LErr k s' n => LErr k s' n
                      | LPanic => LPanic
                      | LFuel => LFuel
                      end
                  | [d] =>
                      if (48 <=? d) && (d <=? 55) then
                        match oct_byte r with
                        | LOk b rest => quoted_go f full rest (acc ++ [b])
                        | LErr k s' n => LErr k s' n
                        | LPanic => LPanic
                        | LFuel => LFuel
                        end
                      else LErr EInvalidCharacterEscape r 1%nat
                  | _ => LErr EInvalidCharacterEscape r (length c2)
                  end
              end
          | [34] => LOk acc r
          | _ => quoted_go f full r (acc ++ c)
          end
      end
  end.
Definition lex_quoted_string_as_vec (input : bytes) : lres bytes :=
  quoted_go (S (length input)) input input [].

(* ByteSeparator::lex *)
Definition lex_byte_sep (input : bytes) : lres unit :=
  lbind (take 1 input) (fun sep rest =>
    match sep with
    | [58] | [45] | [46] => LOk tt rest
    | _ => LErr EExpectedName input (length sep)
    end).

Fixpoint byte_string_go (fuel : nat) (s : bytes) (acc : bytes) : lres bytes :=
  match fuel with
  | O => LFuel
  | S f =>
      lbind (hex_byte s) (fun b rest =>
        match lex_byte_sep rest with
        | LOk _ rest' => byte_string_go f rest' (acc ++ [b])
        | _ => LOk (acc ++ [b]) rest
        end)
  end.
Definition lex_byte_string (input : bytes) : lres bytes :=
  lbind (hex_byte input) (fun b rest =>
    lbind (lex_byte_sep rest) (fun _ rest' => byte_string_go (S (length input)) rest' [b])).

(* lex_raw_string_as_str: [input] is the text after the `r` *)
Fixpoint count_hashes (s : bytes) : nat :=
  match s with 35 :: r => S (count_hashes r) | _ => O end.

(* look for `'` followed by at least [n] `#`; returns (body, rest) *)
Fixpoint raw_go (fuel : nat) (n : nat) (s : bytes) (body : bytes) : option (bytes * bytes) :=
  match fuel with
  | O => None
  | S f =>
      match next_char s with
      | None => None
      | Some (c, r) =>
          match c with
          | [34] =>
              if Nat.leb n (count_hashes r) then Some (body, skipn n r)
              else
                (* the hashes just counted were consumed by next_if; they are part of the body *)
                let k := count_hashes r in
                raw_go f n (skipn k r) (body ++ [34] ++ firstn k r)
          | _ => raw_go f n r (body ++ c)
          end
      end
  end.
Definition lex_raw_string_as_str (input : bytes) : lres (bytes * N) :=
  let n := count_hashes input in
  if Nat.ltb 255 n then LErr EInvalidRawStringHashCount input (length input)
  else
    match skipn n input with
    | 34 :: after =>
        match raw_go (S (length after)) n after [] with
        | Some (body, rest) => LOk (body, N.of_nat n) rest
        | None => LErr EMissingEndingQuote input (length input)
        end
    | s' => LErr EExpectedName s' (length s')
    end.

Definition lex_quoted_or_raw_string (input : bytes) : lres (bytes * bytes_format) :=
  match input with
  | 34 :: r => lmap (fun b => (b, FQuoted)) (lex_quoted_string_as_vec r)
  | 114 :: r => lmap (fun p => (fst p, FRaw (snd p))) (lex_raw_string_as_str r)
  | _ :: _ => LErr EExpectedName input (length input)
  | [] => LErr EEOF input 0%nat
  end.

(* BytesExpr::lex *)
Definition lex_bytes (input : bytes) : lres (bytes * bytes_format) :=
  match input with
  | 34 :: _ | 114 :: _ => lex_quoted_or_raw_string input
  | _ :: _ => lmap (fun b => (b, FByte)) (lex_byte_string input)
  | [] => LErr EEOF input 0%nat
  end.

(* ---- list names: rhs_types/list.rs ---- *)
Definition is_listname_char (b : N) : bool :=
  ((97 <=? b) && (b <=? 122)) || is_digit b || (b =? 95) || (b =? 46).

Definition lex_list_name (input : bytes) : lres bytes :=
  match starts_with [36] input with
  | None => LErr EExpectedLiteral input (length input)
  | Some after =>
      let (name, rest) := take_while_go is_listname_char after in
      match name with
      | [] => LErr EInvalidListName after (length after)
      | _ =>
          if (hd 0 name =? 46) || (last name 0 =? 46) then LErr EInvalidListName after (length after)
          else LOk name rest
      end
  end.

(* ---- identifiers: scheme.rs Identifier::lex_with (the name only) ---- *)
Definition is_ident_char (b : N) : bool := is_alnum b || (b =? 95).

Fixpoint ident_go (fuel : nat) (s : bytes) : lres unit :=
  match fuel with
  | O => LFuel
  | S f =>
      let (seg, rest) := take_while_go is_ident_char s in
      match seg with
      | [] => LErr EExpectedName s (length s)
      | _ =>
          match rest with
          | 46 :: rest' => ident_go f rest'
          | _ => LOk tt rest
          end
      end
  end.
(* the identifier text and the rest of the input *)
Definition lex_ident_name (input : bytes) : lres bytes :=
  lbind (ident_go (S (length input)) input) (fun _ rest => LOk (firstn (span_len input rest) input) rest).

(* ---- IP addresses: rhs_types/ip.rs over a model of std / cidr parsing ---- *)
Definition is_ip_char (b : N) : bool := is_hexdigit b || (b =? 58) || (b =? 46) || (b =? 47).
Definition match_addr_or_cidr (input : bytes) : lres bytes := take_while is_ip_char input.

(* decimal octet without leading zeros beyond a single 0 (std::net Ipv4Addr::from_str) *)
Definition dec_octet (s : bytes) : option Z :=
  match s with
  | [] => None
  | [d] => if is_digit d then Some (Z.of_N (d - 48)) else None
  | 48 :: _ => None
  | _ =>
      if (Nat.leb (length s) 3) && forallb is_digit s then
        match digits_val 10 s 0%Z with
        | Some v => if (v <? 256)%Z then Some v else None
        | None => None
        end
      else None
  end.

Fixpoint split_on (sep : N) (s : bytes) (cur : bytes) : list bytes :=
  match s with
  | [] => [rev cur]
  | b :: r => if b =? sep then rev cur :: split_on sep r [] else split_on sep r (b :: cur)
  end.

Definition parse_v4 (s : bytes) : option Z :=
  match split_on 46 s [] with
  | [a; b; c; d] =>
      match dec_octet a, dec_octet b, dec_octet c, dec_octet d with
      | Some a', Some b', Some c', Some d' => Some (((a' * 256 + b') * 256 + c') * 256 + d')%Z
      | _, _, _, _ => None
      end
  | _ => None
  end.

(* one 16-bit group: 1..4 hex digits *)
Definition hex_group (s : bytes) : option Z :=
  match s with
  | [] => None
  | _ => if (Nat.leb (length s) 4) && forallb is_hexdigit s then digits_val 16 s 0%Z else None
  end.

Fixpoint groups_val (gs : list Z) (acc : Z) : Z :=
  match gs with [] => acc | g :: r => groups_val r (acc * 65536 + g)%Z end.

(* the groups of a `::`-free part; the last group may be an embedded IPv4 address
   (two groups) when [allow_v4] *)
Fixpoint parse_groups (parts : list bytes) (allow_v4 : bool) : option (list Z) :=
  match parts with
  | [] => Some []
  | [p] =>
      match hex_group p with
      | Some g => Some [g]
      | None =>
          if allow_v4 then
            match parse_v4 p with
            | Some v => Some [(v / 65536)%Z; (v mod 65536)%Z]
            | None => None
            end
          else None
      end
  | p :: r =>
      match hex_group p, parse_groups r allow_v4 with
      | Some g, Some gs => Some (g :: gs)
      | _, _ => None
      end
  end.

(* index of the first '::' *)
Fixpoint find_dcolon (s : bytes) (i : nat) : option nat :=
  match s with
  | 58 :: ((58 :: _) as r) => Some i
  | _ :: r => find_dcolon r (S i)
  | [] => None
  end.

Definition parts_of (s : bytes) : list bytes := match s with [] => [] | _ => split_on 58 s [] end.

Definition parse_v6 (s : bytes) : option Z :=
  match find_dcolon s 0 with
  | None =>
      match parse_groups (parts_of s) true with
      | Some gs => if Nat.eqb (length gs) 8 then Some (groups_val gs 0%Z) else None
      | None => None
      end
  | Some i =>
      let head := firstn i s in
      let tail := skipn (i + 2) s in
      match parse_groups (parts_of head) false, parse_groups (parts_of tail) true with
      | Some hs, Some ts =>
          let n := (length hs + length ts)%nat in
          if Nat.leb n 7 then
            Some (groups_val (hs ++ repeat 0%Z (8 - n) ++ ts) 0%Z)
          else None
      | _, _ => None
      end
  end.

(* IpAddr::from_str: IPv4 first, then IPv6 *)
Definition parse_addr (s : bytes) : option ip :=
  match parse_v4 s with
  | Some v => Some (V4 v)
  | None => match parse_v6 s with Some v => Some (V6 v) | None => None end
  end.

(* IpAddr::lex *)
Definition lex_ip (input : bytes) : lres ip :=
  lbind (match_addr_or_cidr input) (fun chunk rest =>
    match parse_addr chunk with
    | Some a => LOk a rest
    | None => LErr EParseNetwork input (length chunk)
    end).

Fixpoint find_sub (p s : bytes) (i : nat) : option nat :=
  match starts_with p s with
  | Some _ => Some i
  | None => match s with [] => None | _ :: r => find_sub p r (S i) end
  end.

(* prefix length: u8::from_str on decimal digits (a sign cannot occur among the IP characters) *)
Definition parse_prefix_len (s : bytes) : option Z :=
  match s with
  | [] => None
  | _ => if forallb is_digit s then
           match digits_val 10 s 0%Z with
           | Some v => if (v <? 256)%Z then Some v else None
           | None => None
           end
         else None
  end.

Inductive cidr_err := CEAddr | CEHostPart | CELenParse | CELenTooLong.

(* index of the last occurrence of byte [c] *)
Fixpoint rfind_byte (c : N) (s : bytes) (i : nat) (found : option nat) : option nat :=
  match s with
  | [] => found
  | b :: r => rfind_byte c r (S i) (if b =? c then Some i else found)
  end.

(* u8::from_str on decimal digits (leading zeros allowed; a sign cannot occur among the IP characters) *)
Definition u8_dec (part : bytes) : option Z :=
  match part with
  | [] => None
  | _ =>
      if forallb is_digit part then
        match digits_val 10 part 0%Z with
        | Some v => if (v <? 256)%Z then Some v else None
        | None => None
        end
      else None
  end.

(* cidr::parsers::parse_short_ipv4_address_as_cidr(..).first_address(): 1..4 decimal octets,
   missing trailing octets are 0 *)
Definition parse_short_v4 (s0 : bytes) : option Z :=
  let parts := split_on 46 s0 [] in
  if Nat.ltb 4 (length parts) then None
  else
    match option_map_all u8_dec parts with
    | None => None
    | Some octs =>
        Some (fold_left (fun acc v => (acc * 256 + v)%Z) (octs ++ repeat 0%Z (4 - length octs)) 0%Z)
    end.

(* cidr's address parser (local_addr_parser.rs): std first, then the short IPv4 form *)
Definition parse_loose_ip (s0 : bytes) : option ip :=
  match parse_addr s0 with
  | Some a => Some a
  | None => option_map V4 (parse_short_v4 s0)
  end.

(* cidr::IpCidr::from_str: split at the LAST '/'; an address alone is a host block *)
Definition parse_cidr (chunk : bytes) : ip_item + cidr_err :=
  match rfind_byte 47 chunk 0 None with
  | None =>
      match parse_loose_ip chunk with
      | Some (V4 a) => inl (IpCidr4 a 32)
      | Some (V6 a) => inl (IpCidr6 a 128)
      | None => inr CEAddr
      end
  | Some i =>
      match parse_loose_ip (firstn i chunk) with
      | None => inr CEAddr
      | Some a =>
          match parse_prefix_len (skipn (S i) chunk) with
          | None => inr CELenParse
          | Some n =>
              match a with
              | V4 v => if (32 <? n)%Z then inr CELenTooLong
                        else if (v mod 2 ^ (32 - n) =? 0)%Z then inl (IpCidr4 v n) else inr CEHostPart
              | V6 v => if (128 <? n)%Z then inr CELenTooLong
                        else if (v mod 2 ^ (128 - n) =? 0)%Z then inl (IpCidr6 v n) else inr CEHostPart
              end
          end
      end
  end.

(* IpRange::lex *)
Definition lex_ip_range (input : bytes) : lres ip_item :=
  lbind (match_addr_or_cidr input) (fun chunk rest =>
    match find_sub [46; 46] chunk 0 with
    | Some i =>
        match parse_addr (firstn i chunk) with
        | None => LErr EParseNetwork input i
        | Some first =>
            let tl := skipn (i + 2) chunk in
            match parse_addr tl with
            | None => LErr EParseNetwork (skipn (i + 2) input) (length tl)
            | Some last =>
                match first, last with
                | V4 a, V4 b => if (a <=? b)%Z then LOk (IpRange4 a b) rest
                                else LErr EIncompatibleRangeBounds input (length chunk)
                | V6 a, V6 b => if (a <=? b)%Z then LOk (IpRange6 a b) rest
                                else LErr EIncompatibleRangeBounds input (length chunk)
                | _, _ => LErr EIncompatibleRangeBounds input (length chunk)
                end
            end
        end
    | None =>
        match parse_cidr chunk with
        | inl it => LOk it rest
        | inr e =>
            let split_pos := match find_sub [47] chunk 0 with Some i => i | None => length chunk end in
            match e with
            | CEAddr | CEHostPart => LErr EParseNetwork input split_pos
            | CELenParse => LErr EParseNetwork (skipn (S split_pos) input) (length chunk - S split_pos)
            | CELenTooLong => LErr EParseNetwork input (length chunk)
            end
        end
    end).

(* ---- FieldIndex::lex (scheme.rs) ---- *)
Inductive raw_index := RIArr (n : N) | RIKey (k : bytes) | RIEach.

(* String::from_utf8 acceptance (core::str::from_utf8) *)
Fixpoint utf8_valid_go (fuel : nat) (s : bytes) : bool :=
  match fuel with
  | O => false
  | S f =>
      match s with
      | [] => true
      | b :: r =>
          let cont x := (128 <=? x) && (x <=? 191) in
          if b <? 128 then utf8_valid_go f r
          else if (194 <=? b) && (b <=? 223) then
            match r with c1 :: r' => cont c1 && utf8_valid_go f r' | _ => false end
          else if b =? 224 then
            match r with c1 :: c2 :: r' => (160 <=? c1) && (c1 <=? 191) && cont c2 && utf8_valid_go f r' | _ => false end
          else if ((225 <=? b) && (b <=? 236)) || (b =? 238) || (b =? 239) then
            match r with c1 :: c2 :: r' => cont c1 && cont c2 && utf8_valid_go f r' | _ => false end
          else if b =? 237 then
            match r with c1 :: c2 :: r' => (128 <=? c1) && (c1 <=? 159) && cont c2 && utf8_valid_go f r' | _ => false end
          else if b =? 240 then
            match r with c1 :: c2 :: c3 :: r' => (144 <=? c1) && (c1 <=? 191) && cont c2 && cont c3 && utf8_valid_go f r' | _ => false end
          else if (241 <=? b) && (b <=? 243) then
            match r with c1 :: c2 :: c3 :: r' => cont c1 && cont c2 && cont c3 && utf8_valid_go f r' | _ => false end
          else if b =? 244 then
            match r with c1 :: c2 :: c3 :: r' => (128 <=? c1) && (c1 <=? 143) && cont c2 && cont c3 && utf8_valid_go f r' | _ => false end
          else false
      end
  end.
Definition utf8_valid (s : bytes) : bool := utf8_valid_go (S (length s)) s.

Definition lex_field_index (input : bytes) : lres raw_index :=
  match starts_with [42] input with
  | Some rest => LOk RIEach rest
  | None =>
      match input with
      | 34 :: _ =>
          match lex_bytes input with
          | LOk (b, _) rest =>
              if utf8_valid b then LOk (RIKey b) rest else LErr EExpectedLiteral input (length input)
          | LErr k s n => LErr k s n
          | LPanic => LPanic
          | LFuel => LFuel
          end
      | _ =>
          match lex_int input with
          | LOk i rest =>
              if (0 <=? i)%Z && (i <? 4294967296)%Z then LOk (RIArr (Z.to_N i)) rest
              else LErr EExpectedLiteral input (length input)
          | LErr _ _ _ => LErr EExpectedLiteral input (length input)
          | LPanic => LPanic
          | LFuel => LFuel
          end
      end
  end.
