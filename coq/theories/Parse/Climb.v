(* Precedence climbing = the stratified grammar, on abstract chains.
   [More]/[Inner] mirror LogicalExpr::lex_more_with_precedence and its inner
   `loop` (engine/src/ast/logical_expr.rs) on a chain  s1 op1 s2 op2 ... ;
   [build_or] is the grammar  or-list of xor-lists of and-lists  with
   same-operator runs flattened into one node.  The theorem says the loop
   returns exactly that tree for chains of any length and operator mix, i.e.
   binding strength  and > xor > or  (and `not`, parsed inside the simple
   expressions, binds tightest). *)
From Coq Require Import List Arith Lia Bool.
Import ListNotations.

Inductive op := Or | Xor | And.
Definition lvl (o : op) : nat := match o with Or => 1 | Xor => 2 | And => 3 end.
Definition op_eqb (a b : op) := Nat.eqb (lvl a) (lvl b).

Section Climb.
(* the atoms (simple expressions) are of an arbitrary type: the theorem is instantiated at the parser
   model's own AST in Proofs/ClimbText.v *)
Context {A : Type}.

Inductive expr := Atom (a : A) | Comb (o : op) (items : list expr).
Definition chain := list (op * expr).
Definition simple (e : expr) := match e with Atom _ => True | Comb _ _ => False end.

Definition combine (lhs : expr) (o : op) (rhs : expr) : expr :=
  match lhs with
  | Comb o' items => if op_eqb o' o then Comb o (items ++ [rhs]) else Comb o [lhs; rhs]
  | _ => Comb o [lhs; rhs]
  end.

Definition olt (a b : option op) : bool :=
  match a, b with
  | None, None => false | None, Some _ => true | Some _, None => false
  | Some x, Some y => Nat.ltb (lvl x) (lvl y) end.
Definition ole a b := negb (olt b a).
Definition hd_op (c : chain) : option op := match c with [] => None | (o, _) :: _ => Some o end.

Inductive More : expr -> option op -> chain -> expr * chain -> Prop :=
| M_nil lhs minp : More lhs minp [] (lhs, [])
| M_stop lhs minp o s tl rhs tl' :
    Inner s o tl (rhs, tl') -> olt (hd_op tl') minp = true ->
    More lhs minp ((o, s) :: tl) (combine lhs o rhs, tl')
| M_cont lhs minp o s tl rhs tl' r :
    Inner s o tl (rhs, tl') -> olt (hd_op tl') minp = false ->
    More (combine lhs o rhs) minp tl' r ->
    More lhs minp ((o, s) :: tl) r
with Inner : expr -> op -> chain -> expr * chain -> Prop :=
| I_break rhs o tl : ole (hd_op tl) (Some o) = true -> Inner rhs o tl (rhs, tl)
| I_rec rhs o tl rhs' tl' r :
    ole (hd_op tl) (Some o) = false ->
    More rhs (hd_op tl) tl (rhs', tl') -> Inner rhs' o tl' r -> Inner rhs o tl r.

Definition andl := (expr * list expr)%type.
Definition xorl := (andl * list andl)%type.
Definition orl := (xorl * list xorl)%type.

Definition mk (o : op) (first : expr) (rest : list expr) : expr :=
  match rest with [] => first | _ => Comb o (first :: rest) end.
Definition build_and (a : andl) := mk And (fst a) (snd a).
Definition build_xor (x : xorl) := mk Xor (build_and (fst x)) (map build_and (snd x)).
Definition build_or (x : orl) := mk Or (build_xor (fst x)) (map build_xor (snd x)).

Definition tail_and (l : list expr) : chain := map (fun s => (And, s)) l.
Definition item_xor (a : andl) : chain := (Xor, fst a) :: tail_and (snd a).
Definition tail_xor (l : list andl) : chain := concat (map item_xor l).
Definition first_xor (x : xorl) := fst (fst x).
Definition rest_xor (x : xorl) : chain := tail_and (snd (fst x)) ++ tail_xor (snd x).
Definition item_or (x : xorl) : chain := (Or, first_xor x) :: rest_xor x.
Definition tail_or (l : list xorl) : chain := concat (map item_or l).
Definition first_or (x : orl) := first_xor (fst x).
Definition rest_or (x : orl) : chain := rest_xor (fst x) ++ tail_or (snd x).

Definition simple_andl (a : andl) := simple (fst a).
Definition simple_xorl (x : xorl) := simple_andl (fst x) /\ Forall simple_andl (snd x).
Definition simple_orl (x : orl) := simple_xorl (fst x) /\ Forall simple_xorl (snd x).

(* "state after one loop iteration": either the loop stops here or it goes on *)
Definition After (lhs : expr) (minp : option op) (c : chain) (r : expr * chain) : Prop :=
  (olt (hd_op c) minp = true /\ r = (lhs, c)) \/ (olt (hd_op c) minp = false /\ More lhs minp c r).

Lemma iter lhs minp o s tl rhs tl' r :
  Inner s o tl (rhs, tl') -> After (combine lhs o rhs) minp tl' r -> More lhs minp ((o, s) :: tl) r.
Proof.
  intros HI [[H ->]|[H HM]]; [eapply M_stop | eapply M_cont]; eauto.
Qed.

Definition comb_all (lhs : expr) (o : op) (l : list expr) := fold_left (fun acc s => combine acc o s) l lhs.

Definition not_comb (o : op) (e : expr) :=
  match e with Comb o' _ => op_eqb o' o = false | _ => True end.

Lemma comb_all_push o : forall l items, comb_all (Comb o items) o l = Comb o (items ++ l).
Proof.
  unfold comb_all. induction l as [|x l IH]; intros items; cbn [fold_left].
  - now rewrite app_nil_r.
  - cbn [combine]. unfold op_eqb at 1. rewrite Nat.eqb_refl. rewrite IH, <- app_assoc. reflexivity.
Qed.

Lemma comb_all_mk o lhs l : not_comb o lhs -> comb_all lhs o l = mk o lhs l.
Proof.
  intros Hn. destruct l as [|x l]; [reflexivity|]. cbn [comb_all fold_left].
  assert (E : combine lhs o x = Comb o [lhs; x]).
  { destruct lhs; cbn in *; auto. now rewrite Hn. }
  rewrite E. apply comb_all_push.
Qed.

Lemma hd_le_and c : ole (hd_op c) (Some And) = true.
Proof. destruct c as [|[[] ?] ?]; reflexivity. Qed.

(* ---- AND runs ---- *)
Lemma and_run : forall l lhs minp rest r,
  olt (Some And) minp = false ->
  After (comb_all lhs And l) minp rest r -> After lhs minp (tail_and l ++ rest) r.
Proof.
  induction l as [|s l IH]; intros lhs minp rest r Hm HA; [exact HA|].
  right. split; [exact Hm|]. cbn [tail_and map app].
  eapply iter; [apply I_break, hd_le_and|]. apply IH; auto.
Qed.

Definition no_and (c : chain) := hd_op c <> Some And.

Lemma inner_and s o l rest :
  simple s -> o <> And -> no_and rest ->
  forall r, Inner (build_and (s, l)) o rest r -> Inner s o (tail_and l ++ rest) r.
Proof.
  intros Hs Ho Hr r HI. destruct l as [|x l]; [exact HI|].
  eapply I_rec with (rhs' := build_and (s, x :: l)) (tl' := rest).
  - destruct o; cbn; congruence.
  - assert (HA : After s (Some And) (tail_and (x :: l) ++ rest) (build_and (s, x :: l), rest)).
    { apply and_run; [reflexivity|]. left. split.
      + destruct rest as [|[[] ?] ?]; cbn; auto; now elim Hr.
      + unfold build_and. cbn [fst snd]. rewrite comb_all_mk; auto. destruct s; cbn in *; tauto. }
    destruct HA as [[H _]|[_ H]]; [discriminate H|exact H].
  - exact HI.
Qed.

Lemma build_and_not_comb o a : simple_andl a -> o <> And -> not_comb o (build_and a).
Proof.
  destruct a as [s [|x l]]; unfold simple_andl, build_and; cbn; intros Hs Ho.
  - destruct s; cbn in *; tauto.
  - destruct o; cbn; congruence.
Qed.

(* ---- XOR runs ---- *)
Lemma no_and_tail_xor l rest : no_and rest -> no_and (tail_xor l ++ rest).
Proof. destruct l; cbn; auto. unfold no_and; cbn; congruence. Qed.

Lemma hd_le_xor c : no_and c -> ole (hd_op c) (Some Xor) = true.
Proof. destruct c as [|[[] ?] ?]; cbn; auto; intros H; now elim H. Qed.

Lemma xor_run : forall l lhs minp rest r,
  Forall simple_andl l -> no_and rest ->
  olt (Some Xor) minp = false ->
  After (comb_all lhs Xor (map build_and l)) minp rest r -> After lhs minp (tail_xor l ++ rest) r.
Proof.
  induction l as [|a l IH]; intros lhs minp rest r Hl Hr Hm HA; [exact HA|].
  inversion Hl as [|? ? Ha Hl']; subst.
  right. split; [exact Hm|].
  change (tail_xor (a :: l)) with (item_xor a ++ tail_xor l). rewrite <- app_assoc.
  unfold item_xor. cbn [app].
  eapply iter with (rhs := build_and a) (tl' := tail_xor l ++ rest).
  - destruct a as [s la]. apply inner_and; auto; [congruence | now apply no_and_tail_xor |].
    apply I_break, hd_le_xor, no_and_tail_xor; auto.
  - apply IH; auto.
Qed.

Definition le_or (c : chain) := olt (hd_op c) (Some Xor) = true.  (* next op is Or or none *)

Lemma le_or_no_and c : le_or c -> no_and c.
Proof. destruct c as [|[[] ?] ?]; unfold le_or, no_and; cbn; congruence. Qed.

Lemma build_xor_not_comb x : simple_xorl x -> not_comb Or (build_xor x).
Proof.
  destruct x as [a [|b l]]; unfold simple_xorl, build_xor; cbn [fst snd map mk]; intros [Ha _].
  - apply build_and_not_comb; auto; congruence.
  - reflexivity.
Qed.

Lemma inner_xor x rest :
  simple_xorl x -> le_or rest ->
  forall r, Inner (build_xor x) Or rest r -> Inner (first_xor x) Or (rest_xor x ++ rest) r.
Proof.
  intros [Ha Hl] Hr r HI. destruct x as [[s la] l]. unfold first_xor, rest_xor. cbn [fst snd] in *.
  rewrite <- app_assoc.
  apply inner_and; auto; [congruence | apply no_and_tail_xor, le_or_no_and; auto |].
  destruct l as [|b l]; [exact HI|].
  eapply I_rec with (rhs' := build_xor ((s, la), b :: l)) (tl' := rest).
  - reflexivity.
  - assert (HA : After (build_and (s, la)) (Some Xor) (tail_xor (b :: l) ++ rest)
                   (build_xor ((s, la), b :: l), rest)).
    { apply xor_run.
      + exact Hl.
      + apply le_or_no_and; exact Hr.
      + reflexivity.
      + left. split; [exact Hr|].
        unfold build_xor. cbn [fst snd]. rewrite comb_all_mk; auto.
        apply build_and_not_comb; auto; congruence. }
    destruct HA as [[H _]|[_ H]]; [discriminate H|exact H].
  - exact HI.
Qed.

(* ---- OR runs ---- *)
Lemma le_or_tail_or l : le_or (tail_or l).
Proof. destruct l; reflexivity. Qed.

Lemma or_run : forall l lhs r,
  Forall simple_xorl l ->
  After (comb_all lhs Or (map build_xor l)) None [] r -> After lhs None (tail_or l) r.
Proof.
  induction l as [|x l IH]; intros lhs r Hl HA; [exact HA|].
  inversion Hl as [|? ? Hx Hl']; subst.
  right. split; [reflexivity|].
  change (tail_or (x :: l)) with (item_or x ++ tail_or l).
  unfold item_or. cbn [app].
  eapply iter with (rhs := build_xor x) (tl' := tail_or l).
  - apply inner_xor; auto; [apply le_or_tail_or|].
    apply I_break. destruct l; reflexivity.
  - apply IH; auto.
Qed.

(* ---- the theorem: precedence climbing = the stratified grammar ---- *)
Theorem climb_is_stratified (x : orl) :
  simple_orl x -> More (first_or x) None (rest_or x) (build_or x, []).
Proof.
  intros [[Ha Hl] Hxs]. destruct x as [[[s la] l] xs]. unfold first_or, rest_or, first_xor, rest_xor.
  cbn [fst snd] in *.
  assert (HA : After s None ((tail_and la ++ tail_xor l) ++ tail_or xs) (build_or (((s, la), l), xs), [])).
  { rewrite <- app_assoc. apply and_run; [reflexivity|].
    apply xor_run; [exact Hl | apply le_or_no_and, le_or_tail_or | reflexivity |].
    apply or_run; [exact Hxs|].
    right. split; [reflexivity|].
    rewrite (comb_all_mk And s la) by (destruct s; cbn in *; tauto).
    rewrite (comb_all_mk Xor) by (apply (build_and_not_comb Xor (s, la)); auto; congruence).
    rewrite (comb_all_mk Or) by (apply (build_xor_not_comb ((s, la), l)); split; auto).
    apply M_nil. }
  destruct HA as [[H _]|[_ H]]; [|exact H].
  destruct ((tail_and la ++ tail_xor l) ++ tail_or xs) as [|[? ?] ?]; discriminate H.
Qed.

End Climb.
