(* The scheme-directed parser / type-checker: a Gallina mirror of
   LogicalExpr::lex_with / lex_simple_expr / lex_more_with_precedence
   (ast/logical_expr.rs), ComparisonExpr::lex_with_lhs (ast/field_expr.rs),
   IndexExpr::lex_with (ast/index_expr.rs), FunctionCallExpr::lex_with_function
   and FunctionCallArgExpr::lex_with (ast/function_expr.rs), the check_param
   of SimpleFunctionDefinition / ConcatFunction (functions/), RhsValue(s)::lex_with
   (types.rs), FilterAst / FilterValueAst (ast/mod.rs) and FilterParser::parse
   (ast/parse.rs).  Recursion is on fuel; [LFuel] is excluded by the theorems.
   No proofs here. *)
From Coq Require Import List ZArith NArith Bool String.
From WF Require Import Base.Bytes Sem.RangeSet Sem.Matchers Lang.Types Lang.Ast Parse.Lex Sem.Compile.
Import ListNotations.
Open Scope N_scope.
Local Notation length := List.length (only parsing).

Record settings := {
  st_max_depth : N;             (* ParserSettings::max_nesting_depth (u16) *)
  st_star_limit : option N;     (* wildcard_star_limit; None = usize::MAX *)
}.
Definition default_settings : settings := {| st_max_depth := 128; st_star_limit := None |}.

(* ---- scheme lookup (Scheme::get: exact name, fields and functions share one name space) ---- *)
Inductive ident_ref := IdField (i : nat) | IdFn (i : nat).

Fixpoint find_field (name : bytes) (l : list field_def) (i : nat) : option nat :=
  match l with
  | [] => None
  | f :: r => if bytes_eqb name (fd_name f) then Some i else find_field name r (S i)
  end.
Fixpoint find_fn (name : bytes) (l : list (bytes * fn_def)) (i : nat) : option nat :=
  match l with
  | [] => None
  | (n, _) :: r => if bytes_eqb name n then Some i else find_fn name r (S i)
  end.
Definition scheme_get (sch : scheme) (name : bytes) : option ident_ref :=
  match find_field name (sc_fields sch) 0 with
  | Some i => Some (IdField i)
  | None => option_map IdFn (find_fn name (sc_functions sch) 0)
  end.

(* ---- operator tables (lex_enum! order matters: first alternative whose text is a prefix) ---- *)
Definition s (x : string) : bytes := bytes_of_string x.

Fixpoint lex_alts {A} (alts : list (bytes * A)) (input : bytes) : option (A * bytes) :=
  match alts with
  | [] => None
  | (t, a) :: r =>
      match starts_with t input with
      | Some rest => Some (a, rest)
      | None => lex_alts r input
      end
  end.

Definition logical_ops : list (bytes * logop) :=
  [(s "or", LOr); (s "||", LOr); (s "xor", LXor); (s "^^", LXor); (s "and", LAnd); (s "&&", LAnd)].
Definition unary_ops : list (bytes * unit) := [(s "not", tt); (s "!", tt)].
Definition quant_ops : list (bytes * quant) := [(s "any", QAny); (s "all", QAll)].

Inductive cop :=
| OpIn | OpOrd (o : ordop) | OpBand | OpContains | OpMatches | OpWildcard | OpStrictWildcard.
Definition comparison_ops : list (bytes * cop) :=
  [(s "in", OpIn);
   (s "eq", OpOrd OEq); (s "==", OpOrd OEq); (s "ne", OpOrd ONe); (s "!=", OpOrd ONe);
   (s "ge", OpOrd OGe); (s ">=", OpOrd OGe); (s "le", OpOrd OLe); (s "<=", OpOrd OLe);
   (s "gt", OpOrd OGt); (s ">", OpOrd OGt); (s "lt", OpOrd OLt); (s "<", OpOrd OLt);
   (s "&", OpBand); (s "bitwise_and", OpBand);
   (s "contains", OpContains); (s "~", OpMatches); (s "matches", OpMatches);
   (s "wildcard", OpWildcard); (s "strict wildcard", OpStrictWildcard)].

(* LogicalOp derives Ord in declaration order; Option: None < Some *)
Definition lvl (o : option logop) : nat :=
  match o with None => 0 | Some LOr => 1 | Some LXor => 2 | Some LAnd => 3 end.

(* LogicalExpr::lex_combining_op *)
Definition lex_combining_op (input : bytes) : option logop * bytes :=
  match lex_alts logical_ops (skip_space input) with
  | Some (op, r) => (Some op, skip_space r)
  | None => (None, input)
  end.

(* QuantifierOp::lex_call *)
Definition lex_quant_call (input : bytes) : option (quant * bytes) :=
  match lex_alts quant_ops input with
  | Some (q, rest) =>
      match starts_with [40] (skip_space rest) with Some _ => Some (q, rest) | None => None end
  | None => None
  end.

(* FilterParser::with_increased_nesting *)
Definition increase (st : settings) (d : N) (span_at : bytes) : lres N :=
  if st_max_depth st <=? d then LErr ENestingLimitExceeded span_at (length span_at) else LOk (d + 1) [].

Definition lift_m {A} (m : option A) (k : A -> lres lexpr) : lres lexpr :=
  match m with Some a => k a | None => LPanic end.

(* ---- literals by type: RhsValue::lex_with / RhsValues::lex_with ---- *)
Definition lex_rhs (t : ty) (input : bytes) : lres rhs :=
  match t with
  | TInt => lmap RInt (lex_int input)
  | TBytes => lmap (fun p => RBytes (fst p) (snd p)) (lex_bytes input)
  | TIp => lmap RIp (lex_ip input)
  | _ => LPanic                                   (* Uninhabited*::lex: unreachable!() *)
  end.

(* lex_rhs_values: `{` items `}` *)
Fixpoint brace_items {A} (fuel : nat) (lex1 : bytes -> lres A) (input : bytes) (acc : list A) : lres (list A) :=
  match fuel with
  | O => LFuel
  | S f =>
      let input := skip_space input in
      match starts_with [125] input with
      | Some rest => LOk (rev acc) rest
      | None => lbind (lex1 input) (fun x rest => brace_items f lex1 rest (x :: acc))
      end
  end.
Definition lex_brace_list {A} (lex1 : bytes -> lres A) (input : bytes) : lres (list A) :=
  lbind (expect [123] input) (fun _ rest => brace_items (S (length input)) lex1 rest []).

(* Regex::lex_with: pattern text reaching the engine, RegexFormat (None = Literal).  The quoted form is scanned by
   [regex_scan_go] of Sem/Matchers.v (rhs_types/regex/mod.rs; specified and proved in Spec/C11.v, Props/C11.v);
   the ParseRegex error span is the source text of the literal without its closing quote *)
Definition lex_regex (input : bytes) : lres (bytes * option N) :=
  match input with
  | 34 :: r =>
      match regex_scan_go r false with
      | Some (pat, rest) =>
          match regex_compile pat with
          | Some _ => LOk (pat, None) rest
          | None => LErr EParseRegex r (length r - length rest - 1)%nat
          end
      | None => LErr EMissingEndingQuote r (length r)
      end
  | 114 :: r =>
      lbind (lex_raw_string_as_str r) (fun p rest =>
        match regex_compile (fst p) with
        | Some _ => LOk (fst p, Some (snd p)) rest
        | None => LErr EParseRegex rest (length rest)
        end)
  | _ :: _ => LErr EExpectedName input (length input)
  | [] => LErr EEOF input 0%nat
  end.

(* Wildcard::lex_with *)
Definition lex_wildcard (st : settings) (input : bytes) : lres (bytes * bytes_format) :=
  lbind (lex_quoted_or_raw_string input) (fun p rest =>
    match wildcard_compile (st_star_limit st) (fst p) with
    | Some _ => LOk p rest
    | None => LErr EParseWildcard input (length input)
    end).

(* ---- function parameters (FunctionParam / check_param) ---- *)
Definition arg_is_literal (a : arg) : bool := match a with ALit _ => true | _ => false end.
Definition kind_matches (k : arg_kind) (a : arg) : bool :=
  match k with
  | KBoth => true
  | KLiteral => arg_is_literal a
  | KField => negb (arg_is_literal a)
  end.

Inductive param_check := PcOk | PcKind | PcType | PcUnreachable.

(* SimpleFunctionDefinition::check_param / ConcatFunction::check_param;
   [prev] = the arguments already accepted, [t] = static type of the next one *)
Definition check_param (sch : scheme) (d : fn_def) (prev : list arg) (a : arg) (t : ty) : param_check :=
  if fn_variadic_same d then
    match prev with
    | [] => match t with TArray _ | TBytes => PcOk | _ => PcType end
    | p0 :: _ =>
        match ty_arg sch p0 with
        | Some t0 => if ty_eqb t t0 then PcOk else PcType
        | None => PcUnreachable
        end
    end
  else
    let index := length prev in
    match nth_error (fn_params d) index with
    | Some (k, pt) => if negb (kind_matches k a) then PcKind else if ty_eqb t pt then PcOk else PcType
    | None =>
        match nth_error (fn_opt_params d) (index - length (fn_params d)) with
        | Some (k, dv) => if negb (kind_matches k a) then PcKind else if ty_eqb t (type_of dv) then PcOk else PcType
        | None => PcUnreachable
        end
    end.

(* c_is_field! / c_is_field_or_int! of FunctionCallArgExpr::lex_with *)
Definition c_is_field (b : N) : bool := (is_alnum b && negb (is_hexdigit b)) || (b =? 95).
Definition c_is_field_or_int (b : N) : bool := is_alnum b || (b =? 95).

Definition first_chars (input : bytes) : option N * option N * option N :=
  (* the first bytes of the first three characters (ASCII tests only) *)
  match next_char input with
  | None => (None, None, None)
  | Some (c1, r1) =>
      match next_char r1 with
      | None => (hd_error c1, None, None)
      | Some (c2, r2) =>
          match next_char r2 with
          | None => (hd_error c1, hd_error c2, None)
          | Some (c3, _) => (hd_error c1, hd_error c2, hd_error c3)
          end
      end
  end.

Definition one_ascii (c : option N) (f : N -> bool) : bool :=
  match c with Some b => is_ascii b && f b | None => false end.

(* type of the container element reached by one index (IndexExpr::lex_with) *)
Definition index_step (t : ty) (i : raw_index) : option ty :=
  match i, t with
  | RIArr _, TArray e => Some e
  | RIKey _, TMap e => Some e
  | RIEach, TArray e | RIEach, TMap e => Some e
  | _, _ => None
  end.
Definition index_of_raw (i : raw_index) : index :=
  match i with RIArr n => IArr n | RIKey k => IKey k | RIEach => IEach end.


(* the `[...]` loop of IndexExpr::lex_with *)
Fixpoint lex_indexes (sch : scheme) (st : settings) (fuel : nat) (input : bytes) (t : ty) (acc : list index) : lres (list index) :=
  match fuel with
  | O => LFuel
  | S f =>
      match starts_with [91] input with
      | None => LOk (rev acc) input
      | Some rest =>
          lbind (lex_field_index (skip_space rest)) (fun idx rest1 =>
            lbind (expect [93] (skip_space rest1)) (fun _ rest2 =>
              match index_step t idx with
              | Some t' => lex_indexes sch st f rest2 t' (index_of_raw idx :: acc)
              | None => LErr EInvalidIndexAccess input (span_len input rest2)
              end))
      end
  end.

Definition same_logop (a b : logop) : bool := Nat.eqb (lvl (Some a)) (lvl (Some b)).

(* combine lhs `op` rhs, flattening same-operator chains *)
Definition combine (lhs : lexpr) (op : logop) (rhs : lexpr) : lexpr :=
  match lhs with
  | ECombining o items =>
      if same_logop o op then ECombining op (lexprs_of_list (lexprs_to_list items ++ [rhs]))
      else ECombining op (LCons lhs (LCons rhs LNil))
  | _ => ECombining op (LCons lhs (LCons rhs LNil))
  end.

Definition types_combinable (a b : ty) : bool :=
  match a, b with
  | TBool, TBool => true
  | TArray _, TArray _ => true
  | _, _ => false
  end.

Fixpoint lex_logical (sch : scheme) (st : settings) (fuel : nat) (d : N) (input : bytes) {struct fuel} : lres lexpr :=
  match fuel with
  | O => LFuel
  | S f =>
      lbind (lex_simple sch st f d input) (fun lhs rest =>
        lex_more sch st f d lhs None (lex_combining_op rest))
  end
(* LogicalExpr::lex_more_with_precedence *)
with lex_more (sch : scheme) (st : settings) (fuel : nat) (d : N) (lhs : lexpr) (minp : option logop) (la : option logop * bytes)
     {struct fuel} : lres lexpr :=
  match fuel with
  | O => LFuel
  | S f =>
      match fst la with
      | None => LOk lhs (snd la)
      | Some op =>
          lbind (lex_simple sch st f d (snd la)) (fun rhs rhs_rest =>
            match lex_inner sch st f d rhs rhs_rest op with
            | LOk (rhs', la') rhs_rest' =>
                match ty_lexpr sch lhs, ty_lexpr sch rhs' with
                | Some tl, Some tr =>
                    if types_combinable tl tr then
                      let lhs' := combine lhs op rhs' in
                      let la'' := if Nat.ltb (lvl (fst la')) (lvl minp) then (None, rhs_rest') else la' in
                      lex_more sch st f d lhs' minp la''
                    else LErr ETypeMismatch (snd la') (length (snd la'))
                | _, _ => LPanic
                end
            | LErr k a n => LErr k a n
            | LPanic => LPanic
            | LFuel => LFuel
            end)
      end
  end
(* the inner `loop` of lex_more_with_precedence: returns rhs, its rest, and the lookahead *)
with lex_inner (sch : scheme) (st : settings) (fuel : nat) (d : N) (rhs : lexpr) (rhs_rest : bytes) (op : logop)
     {struct fuel} : lres (lexpr * (option logop * bytes)) :=
  match fuel with
  | O => LFuel
  | S f =>
      let la := lex_combining_op rhs_rest in
      if Nat.leb (lvl (fst la)) (lvl (Some op)) then LOk (rhs, la) rhs_rest
      else
        match lex_more sch st f d rhs (fst la) la with
        | LOk rhs' rest' => lex_inner sch st f d rhs' rest' op
        | LErr k a n => LErr k a n
        | LPanic => LPanic
        | LFuel => LFuel
        end
  end
(* LogicalExpr::lex_simple_expr *)
with lex_simple (sch : scheme) (st : settings) (fuel : nat) (d : N) (input : bytes) {struct fuel} : lres lexpr :=
  match fuel with
  | O => LFuel
  | S f =>
      match starts_with [40] input with
      | Some rest =>
          lbind (increase st d input) (fun d' _ =>
            lbind (lex_logical sch st f d' (skip_space rest)) (fun e rest1 =>
              lbind (expect [41] (skip_space rest1)) (fun _ rest2 => LOk (EParen e) rest2)))
      | None =>
          match lex_alts unary_ops input with
          | Some (_, rest) =>
              lbind (increase st d input) (fun d' _ =>
                lbind (lex_simple sch st f d' (skip_space rest)) (fun arg rest1 => LOk (ENot arg) rest1))
          | None =>
              match lex_quant_call input with
              | Some (q, rest) =>
                  lbind (increase st d (skip_space rest)) (fun d' _ =>
                    lbind (expect [40] (skip_space rest)) (fun _ rest1 =>
                      let arg_in := skip_space rest1 in
                      match lex_arg sch st f d' arg_in with
                      | LOk a rest2 =>
                          let sp := span_len arg_in rest2 in
                          let done (e : lexpr) : lres lexpr :=
                            lbind (expect [41] (skip_space rest2)) (fun _ rest3 => LOk e rest3) in
                          match a with
                          | AIndex ie =>
                              if Nat.ltb 0 (map_each_count (iexpr_idx ie))
                              then LErr EInvalidMapEachAccess arg_in sp
                              else
                                match ty_iexpr sch ie with
                                | Some (TArray TBool) => done (EQuantIndex q ie)
                                | Some _ => LErr ETypeMismatch arg_in sp
                                | None => LPanic
                                end
                          | ALogical le =>
                              match ty_lexpr sch le with
                              | Some (TArray TBool) => done (EQuantLogical q le)
                              | Some _ => LErr ETypeMismatch arg_in sp
                              | None => LPanic
                              end
                          | ALit _ => LErr ETypeMismatch arg_in sp
                          end
                      | LErr k a n => LErr k a n
                      | LPanic => LPanic
                      | LFuel => LFuel
                      end))
              | None =>
                  lbind (lex_index_expr sch st f d input) (fun lhs rest => lex_with_lhs sch st f d rest lhs)
              end
          end
      end
  end
(* ComparisonExpr::lex_with_lhs *)
with lex_with_lhs (sch : scheme) (st : settings) (fuel : nat) (d : N) (input : bytes) (lhs : iexpr) {struct fuel} : lres lexpr :=
  match fuel with
  | O => LFuel
  | S f =>
      match ty_iexpr sch lhs with
      | None => LPanic
      | Some TBool => LOk (EComparison lhs CIsTrue) input
      | Some (TArray TBool) | Some (TMap TBool) =>
          if Nat.ltb 0 (map_each_count (iexpr_idx lhs)) then LErr EUnsupportedOp input 0%nat
          else LOk (EComparison lhs CIsTrue) input
      | Some lt =>
          let initial := skip_space input in
          match lex_alts comparison_ops initial with
          | None => LErr EExpectedName initial (length initial)
          | Some (op, after_op) =>
              let input1 := skip_space after_op in
              let unsupported := LErr EUnsupportedOp initial (span_len initial after_op) in
              let prim3 := match lt with TInt | TBytes | TIp => true | _ => false end in
              match op with
              | OpIn =>
                  if negb prim3 then unsupported
                  else
                    match starts_with [36] input1 with
                    | Some _ =>
                        lbind (lex_list_name input1) (fun name rest =>
                          match list_index sch lt with
                          | Some li => LOk (EComparison lhs (CInList li name)) rest
                          | None => LErr EUnsupportedOp initial (span_len initial rest)
                          end)
                    | None =>
                        match lt with
                        | TInt => lbind (lex_brace_list lex_int_range input1)
                                        (fun l rest => LOk (EComparison lhs (COneOfInt l)) rest)
                        | TIp => lbind (lex_brace_list lex_ip_range input1)
                                       (fun l rest => LOk (EComparison lhs (COneOfIp l)) rest)
                        | _ => lbind (lex_brace_list lex_bytes input1)
                                     (fun l rest => LOk (EComparison lhs (COneOfBytes l)) rest)
                        end
                    end
              | OpOrd o =>
                  if negb prim3 then unsupported
                  else lbind (lex_rhs lt input1) (fun r rest => LOk (EComparison lhs (COrd o r)) rest)
              | OpBand =>
                  match lt with
                  | TInt => lbind (lex_int input1) (fun z rest => LOk (EComparison lhs (CBitAnd z)) rest)
                  | _ => unsupported
                  end
              | OpContains =>
                  match lt with
                  | TBytes => lbind (lex_bytes input1) (fun p rest => LOk (EComparison lhs (CContains (fst p) (snd p))) rest)
                  | _ => unsupported
                  end
              | OpMatches =>
                  match lt with
                  | TBytes => lbind (lex_regex input1) (fun p rest => LOk (EComparison lhs (CMatches (fst p) (snd p))) rest)
                  | _ => unsupported
                  end
              | OpWildcard =>
                  match lt with
                  | TBytes => lbind (lex_wildcard st input1)
                                    (fun p rest => LOk (EComparison lhs (CWildcard false (fst p) (snd p))) rest)
                  | _ => unsupported
                  end
              | OpStrictWildcard =>
                  match lt with
                  | TBytes => lbind (lex_wildcard st input1)
                                    (fun p rest => LOk (EComparison lhs (CWildcard true (fst p) (snd p))) rest)
                  | _ => unsupported
                  end
              end
          end
      end
  end
(* IndexExpr::lex_with (IdentifierExpr::lex_with + the index loop) *)
with lex_index_expr (sch : scheme) (st : settings) (fuel : nat) (d : N) (input : bytes) {struct fuel} : lres iexpr :=
  match fuel with
  | O => LFuel
  | S f =>
      match lex_ident_name input with
      | LOk name rest =>
          match scheme_get sch name with
          | None => LErr EUnknownIdentifier input (length name)
          | Some (IdField i) =>
              match field_ty sch i with
              | Some t => lmap (fun idx => IField i idx) (lex_indexes sch st (S (length rest)) rest t [])
              | None => LPanic
              end
          | Some (IdFn i) =>
              match increase st d (skip_space rest) with
              | LOk d' _ =>
                  match lex_call sch st f d' rest i with
                  | LOk a rest1 =>
                      match ty_call sch i a with
                      | Some t => lmap (fun idx => ICall i a idx) (lex_indexes sch st (S (length rest1)) rest1 t [])
                      | None => LPanic
                      end
                  | LErr k a n => LErr k a n
                  | LPanic => LPanic
                  | LFuel => LFuel
                  end
              | LErr k a n => LErr k a n
              | LPanic => LPanic
              | LFuel => LFuel
              end
          end
      | LErr k a n => LErr k a n
      | LPanic => LPanic
      | LFuel => LFuel
      end
  end
(* FunctionCallExpr::lex_with_function *)
with lex_call (sch : scheme) (st : settings) (fuel : nat) (d : N) (input : bytes) (fn : nat) {struct fuel} : lres args :=
  match fuel with
  | O => LFuel
  | S f =>
      match fn_of sch fn with
      | None => LPanic
      | Some def =>
          lbind (expect [40] (skip_space input)) (fun _ rest =>
            lmap args_of_list (lex_call_args sch st f d (skip_space rest) def []))
      end
  end
(* the argument loop; [acc] = arguments accepted so far, in order *)
with lex_call_args (sch : scheme) (st : settings) (fuel : nat) (d : N) (input : bytes) (def : fn_def) (acc : list arg)
     {struct fuel} : lres (list arg) :=
  match fuel with
  | O => LFuel
  | S f =>
      let mandatory := if fn_variadic_same def then 2%nat else length (fn_params def) in
      let finish (input : bytes) : lres (list arg) :=
          if Nat.ltb (length acc) mandatory then LErr EInvalidArgumentsCount input (length input)
          else lbind (expect [41] input) (fun _ rest => LOk acc rest) in
      match input with
      | [] => finish input
      | 41 :: _ => finish input
      | _ =>
          let index := length acc in
          let after_comma :=
              if Nat.eqb index 0 then LOk tt input else expect [44] input in
          lbind after_comma (fun _ input1 =>
            let input2 := skip_space input1 in
            match lex_arg sch st f d input2 with
            | LOk a rest =>
                let sp := span_len input2 rest in
                if Nat.ltb 0 (arg_map_each_count a) && negb (Nat.eqb index 0)
                then LErr EInvalidMapEachAccess input2 sp
                else if negb (fn_variadic_same def)
                        && Nat.leb (length (fn_params def) + length (fn_opt_params def)) index
                then LErr EInvalidArgumentsCount input2 (length input2)
                else
                  match ty_arg sch a with
                  | None => LPanic
                  | Some t =>
                      match check_param sch def acc a t with
                      | PcOk => lex_call_args sch st f d (skip_space rest) def (acc ++ [a])
                      | PcKind => LErr EInvalidArgumentKind input2 sp
                      | PcType => LErr EInvalidArgumentType input2 sp
                      | PcUnreachable => LPanic
                      end
                  end
            | LErr k a n => LErr k a n
            | LPanic => LPanic
            | LFuel => LFuel
            end)
      end
  end
(* FunctionCallArgExpr::lex_with *)
with lex_arg (sch : scheme) (st : settings) (fuel : nat) (d : N) (input : bytes) {struct fuel} : lres arg :=
  match fuel with
  | O => LFuel
  | S f =>
      let '(c1, c2, c3) := first_chars input in
      let index_or_cmp (on_fail : unit -> lres arg) (propagate : bool) : lres arg :=
          match lex_index_expr sch st f d input with
          | LOk lhs rest =>
              match lex_alts comparison_ops (skip_space rest) with
              | Some _ => lmap ALogical (lex_with_lhs sch st f d rest lhs)
              | None => LOk (AIndex lhs) rest
              end
          | LErr k a n => if propagate then LErr k a n else on_fail tt
          | LPanic => LPanic
          | LFuel => LFuel
          end in
      let literal (_ : unit) : lres arg :=
          match lex_ip input with
          | LOk a rest => LOk (ALit (RIp a)) rest
          | LPanic => LPanic
          | LFuel => LFuel
          | LErr _ _ _ =>
              match lex_int input with
              | LOk z rest => LOk (ALit (RInt z)) rest
              | LPanic => LPanic
              | LFuel => LFuel
              | LErr _ _ _ =>
                  match lex_bytes input with
                  | LOk p rest => LOk (ALit (RBytes (fst p) (snd p))) rest
                  | LPanic => LPanic
                  | LFuel => LFuel
                  | LErr _ _ _ => LErr EEOF input (length input)
                  end
              end
          end in
      match c1 with
      | None => index_or_cmp literal false
      | Some b1 =>
          if (b1 =? 34) || ((b1 =? 114) && (match c2 with Some 35 | Some 34 => true | _ => false end))
          then lmap (fun p => ALit (RBytes (fst p) (snd p))) (lex_bytes input)
          else if (b1 =? 40)
                  || (match lex_alts unary_ops input with Some _ => true | None => false end)
                  || (match lex_quant_call input with Some _ => true | None => false end)
          then lmap ALogical (lex_logical sch st f d input)
          else if one_ascii c1 c_is_field
                  || (one_ascii c1 c_is_field_or_int && one_ascii c2 c_is_field)
                  || (one_ascii c1 c_is_field_or_int && one_ascii c2 c_is_field_or_int && one_ascii c3 c_is_field)
          then index_or_cmp literal true
          else index_or_cmp literal false
      end
  end.

(* complete(): the whole input must be consumed *)
Definition complete {A} (r : lres A) : lres A :=
  match r with
  | LOk a [] => LOk a []
  | LOk _ rest => LErr EEOF rest (length rest)
  | x => x
  end.

(* str::trim(): characters with the Unicode White_Space property (char::is_whitespace):
   U+0009..U+000D, U+0020, U+0085, U+00A0, U+1680, U+2000..U+200A, U+2028, U+2029, U+202F, U+205F, U+3000,
   in their UTF-8 encodings *)
Definition is_ws_ascii (b : N) : bool := ((9 <=? b) && (b <=? 13)) || (b =? 32).
Definition ws_prefix (x : bytes) : option bytes :=
  match x with
  | b :: r =>
      if is_ws_ascii b then Some r
      else match r with
           | c :: r2 =>
               if (b =? 194) && ((c =? 133) || (c =? 160)) then Some r2
               else match r2 with
                    | d :: r3 =>
                        if (b =? 225) && (c =? 154) && (d =? 128) then Some r3
                        else if (b =? 226) && (c =? 128) &&
                                (((128 <=? d) && (d <=? 138)) || (d =? 168) || (d =? 169) || (d =? 175)) then Some r3
                        else if (b =? 226) && (c =? 129) && (d =? 159) then Some r3
                        else if (b =? 227) && (c =? 128) && (d =? 128) then Some r3
                        else None
                    | [] => None
                    end
           | [] => None
           end
  | [] => None
  end.
(* the same on a reversed text: the last character of the text first, its bytes reversed *)
Definition ws_suffix_rev (x : bytes) : option bytes :=
  match x with
  | d :: r =>
      if is_ws_ascii d then Some r
      else match r with
           | c :: r2 =>
               if (c =? 194) && ((d =? 133) || (d =? 160)) then Some r2
               else match r2 with
                    | b :: r3 =>
                        if (b =? 225) && (c =? 154) && (d =? 128) then Some r3
                        else if (b =? 226) && (c =? 128) &&
                                (((128 <=? d) && (d <=? 138)) || (d =? 168) || (d =? 169) || (d =? 175)) then Some r3
                        else if (b =? 226) && (c =? 129) && (d =? 159) then Some r3
                        else if (b =? 227) && (c =? 128) && (d =? 128) then Some r3
                        else None
                    | [] => None
                    end
           | [] => None
           end
  | [] => None
  end.
Fixpoint drop_while_some (step : bytes -> option bytes) (fuel : nat) (x : bytes) : bytes :=
  match fuel with
  | O => x
  | S f => match step x with Some r => drop_while_some step f r | None => x end
  end.
Definition trim_start (x : bytes) : bytes := drop_while_some ws_prefix (length x) x.
Definition trim (x : bytes) : bytes :=
  let y := trim_start x in rev (drop_while_some ws_suffix_rev (length y) (rev y)).

(* FilterAst::lex_with + FilterParser::parse *)
Definition parse_filter (sch : scheme) (st : settings) (text : bytes) : lres lexpr :=
  let input := trim text in
  complete
    (lbind (lex_logical sch st (8 * length input + 16) 0 input) (fun e rest =>
       match ty_lexpr sch e with
       | Some TBool => LOk e rest
       | Some _ => LErr ETypeMismatch rest (length rest)
       | None => LPanic
       end)).

(* FilterValueAst::lex_with + FilterParser::parse_value *)
Definition parse_value (sch : scheme) (st : settings) (text : bytes) : lres iexpr :=
  let input := trim text in
  complete
    (lbind (lex_index_expr sch st (8 * length input + 16) 0 input) (fun e rest =>
       if Nat.ltb 0 (map_each_count (iexpr_idx e)) then LErr ETypeMismatch input (length input)
       else LOk e rest)).

