(* C06 — literal forms: the PRINTERS (every permitted way of writing a value)
   and the side conditions of the round-trip theorems.  Written from the
   property text; nothing here refers to the lexers. *)
From Coq Require Import List ZArith NArith Bool.
From WF Require Import Base.Bytes Sem.RangeSet.
Import ListNotations.
Open Scope Z_scope.

Definition i64_min : Z := -9223372036854775808.
Definition i64_max : Z := 9223372036854775807.
Definition in_i64 (v : Z) : Prop := i64_min <= v <= i64_max.

(* ---- character classes of the property text ---- *)
Definition dec_digit_byte (b : N) : bool := ((48 <=? b) && (b <=? 57))%N.
Definition hex_digit_byte (b : N) : bool :=
  (((48 <=? b) && (b <=? 57)) || ((97 <=? b) && (b <=? 102)) || ((65 <=? b) && (b <=? 70)))%N.
Definition oct_digit_byte (b : N) : bool := ((48 <=? b) && (b <=? 55))%N.
(* 0-9 a-f A-F : . / *)
Definition ip_byte (b : N) : bool := (hex_digit_byte b || (b =? 58) || (b =? 46) || (b =? 47))%N.
(* a-z 0-9 _ . *)
Definition listname_byte (b : N) : bool :=
  (((97 <=? b) && (b <=? 122)) || ((48 <=? b) && (b <=? 57)) || (b =? 95) || (b =? 46))%N.

(* "the next character cannot extend the literal" *)
Definition next_not (cls : N -> bool) (rest : bytes) : Prop :=
  match rest with [] => True | b :: _ => cls b = false end.
(* after an integer: no hexadecimal digit (the lexer takes hex digits in every radix) and no `x` (0x...) *)
Definition int_follow_ok (rest : bytes) : Prop := next_not (fun b => hex_digit_byte b || (b =? 120)%N) rest.
(* after a separator-delimited hex string: no further separator *)
Definition hexpairs_follow_ok (rest : bytes) : Prop := next_not (fun b => (b =? 58) || (b =? 45) || (b =? 46))%N rest.
Definition ip_follow_ok (rest : bytes) : Prop := next_not ip_byte rest.
Definition listname_follow_ok (rest : bytes) : Prop := next_not listname_byte rest.
Definition no_dotdot_next (rest : bytes) : Prop :=
  match rest with 46%N :: 46%N :: _ => False | _ => True end.

(* ---- numbers in a radix, most significant digit first ---- *)
Definition digit_char (upper : bool) (d : Z) : N :=
  Z.to_N (if d <? 10 then 48 + d else if upper then 55 + d else 87 + d).

Fixpoint digits_of (fuel : nat) (radix v : Z) (upper : bool) (acc : bytes) : bytes :=
  match fuel with
  | O => acc
  | S f =>
      let acc' := digit_char upper (v mod radix) :: acc in
      if v / radix =? 0 then acc' else digits_of f radix (v / radix) upper acc'
  end.
(* v >= 0; S (log2 v) digits always suffice *)
Definition print_radix (radix v : Z) (upper : bool) : bytes :=
  digits_of (S (Z.to_nat (Z.log2 v))) radix v upper [].

Definition print_dec (v : Z) : bytes :=
  if v <? 0 then 45%N :: print_radix 10 (- v) false else print_radix 10 v false.

(* the three integer forms; [pad] = number of extra leading zeros *)
Inductive int_form := IDec | IHex (upper : bool) (pad : nat) | IOct (pad : nat).
Definition print_int (f : int_form) (v : Z) : bytes :=
  match f with
  | IDec => print_dec v
  | IHex u pad => [48%N; 120%N] ++ repeat 48%N pad ++ print_radix 16 v u
  | IOct pad => 48%N :: repeat 48%N pad ++ print_radix 8 v false
  end.
(* hexadecimal and octal have no sign *)
Definition int_form_ok (f : int_form) (v : Z) : Prop :=
  match f with IDec => True | _ => 0 <= v end.

Definition print_int_range (f1 f2 : int_form) (a b : Z) : bytes :=
  print_int f1 a ++ [46%N; 46%N] ++ print_int f2 b.

(* ---- quoted strings: one style per byte ---- *)
Inductive esc_style :=
| SLit                              (* the character itself (ASCII other than quote and backslash) *)
| SBackslash                        (* backslash + quote, or backslash + backslash *)
| SHex (upper1 upper2 : bool)       (* \xHH, each digit in either case *)
| SOct.                             (* \OOO *)

Definition style_ok (st : esc_style) (b : N) : Prop :=
  match st with
  | SLit => (b < 128)%N /\ b <> 34%N /\ b <> 92%N
  | SBackslash => b = 34%N \/ b = 92%N
  | SHex _ _ => (b < 256)%N
  | SOct => (b < 256)%N
  end.

Definition print_qbyte (st : esc_style) (b : N) : bytes :=
  match st with
  | SLit => [b]
  | SBackslash => [92%N; b]
  | SHex u1 u2 => [92%N; 120%N; digit_char u1 (Z.of_N b / 16); digit_char u2 (Z.of_N b mod 16)]
  | SOct => [92%N; digit_char false (Z.of_N b / 64); digit_char false (Z.of_N b / 8 mod 8);
             digit_char false (Z.of_N b mod 8)]
  end.

(* the text between the quotes *)
Fixpoint print_qbody (l : list (esc_style * N)) : bytes :=
  match l with
  | [] => []
  | (st, b) :: l' => print_qbyte st b ++ print_qbody l'
  end.
Definition print_quoted (l : list (esc_style * N)) : bytes := 34%N :: print_qbody l ++ [34%N].
Definition styles_ok (l : list (esc_style * N)) : Prop := Forall (fun p => style_ok (fst p) (snd p)) l.

(* what a well-formed escape looks like, for the rejection theorem: the text after a backslash *)
Definition good_escape (r : bytes) : Prop :=
  (exists r', r = 34%N :: r') \/ (exists r', r = 92%N :: r') \/
  (exists h1 h2 r', r = 120%N :: h1 :: h2 :: r' /\ hex_digit_byte h1 = true /\ hex_digit_byte h2 = true) \/
  (exists o1 o2 o3 r', r = o1 :: o2 :: o3 :: r' /\ oct_digit_byte o1 = true /\ oct_digit_byte o2 = true /\
                       oct_digit_byte o3 = true /\ (o1 <= 51)%N).      (* three octal digits below 0o400 *)

(* ---- raw strings ---- *)
Definition hashes (n : nat) : bytes := repeat 35%N n.
Definition print_raw (n : nat) (body : bytes) : bytes := 114%N :: hashes n ++ 34%N :: body ++ 34%N :: hashes n.

Fixpoint leading_hashes (s : bytes) : nat :=
  match s with 35%N :: r => S (leading_hashes r) | _ => O end.
(* the body never contains a quote followed by n or more hashes *)
Definition no_early_close (n : nat) (body : bytes) : Prop :=
  forall p q, body = p ++ 34%N :: q -> (leading_hashes q < n)%nat.

(* a sequence of well-formed UTF-8 characters (what a Rust &str is made of):
   an ASCII byte, or a lead byte followed by the right number of continuation bytes *)
Definition cont_byte (x : N) : Prop := (128 <= x <= 191)%N.
Inductive utf8_chars : bytes -> Prop :=
| U8nil : utf8_chars []
| U8one b s : (b < 128)%N -> utf8_chars s -> utf8_chars (b :: s)
| U8two b c1 s : (194 <= b <= 223)%N -> cont_byte c1 -> utf8_chars s -> utf8_chars (b :: c1 :: s)
| U8three b c1 c2 s : (224 <= b <= 239)%N -> cont_byte c1 -> cont_byte c2 -> utf8_chars s ->
                      utf8_chars (b :: c1 :: c2 :: s)
| U8four b c1 c2 c3 s : (240 <= b <= 244)%N -> cont_byte c1 -> cont_byte c2 -> cont_byte c3 -> utf8_chars s ->
                        utf8_chars (b :: c1 :: c2 :: c3 :: s).

(* ---- separator-delimited hex pairs ---- *)
Inductive byte_sep := SepColon | SepDash | SepDot.
Definition sep_char (s : byte_sep) : N := match s with SepColon => 58%N | SepDash => 45%N | SepDot => 46%N end.
Definition print_hexpair (u1 u2 : bool) (b : N) : bytes :=
  [digit_char u1 (Z.of_N b / 16); digit_char u2 (Z.of_N b mod 16)].
(* first byte, then (separator, byte) pairs; each byte with its own letter cases *)
Fixpoint print_hextail (l : list (byte_sep * (bool * bool) * N)) : bytes :=
  match l with
  | [] => []
  | (s, (u1, u2), b) :: l' => sep_char s :: print_hexpair u1 u2 b ++ print_hextail l'
  end.
Definition print_hexpairs (u1 u2 : bool) (b0 : N) (l : list (byte_sep * (bool * bool) * N)) : bytes :=
  print_hexpair u1 u2 b0 ++ print_hextail l.

(* ---- IP addresses ---- *)
Definition octet (o : Z) : Prop := 0 <= o < 256.
Definition v4_of (a b c d : Z) : Z := ((a * 256 + b) * 256 + c) * 256 + d.
Definition print_v4 (a b c d : Z) : bytes :=
  print_dec a ++ 46%N :: print_dec b ++ 46%N :: print_dec c ++ 46%N :: print_dec d.

Definition group16 (g : Z) : Prop := 0 <= g < 65536.
Fixpoint v6_of (gs : list Z) (acc : Z) : Z :=
  match gs with [] => acc | g :: r => v6_of r (acc * 65536 + g) end.
(* groups separated by ':' *)
Fixpoint print_groups (u : bool) (gs : list Z) : bytes :=
  match gs with
  | [] => []
  | [g] => print_radix 16 g u
  | g :: r => print_radix 16 g u ++ 58%N :: print_groups u r
  end.
(* the uncompressed form: exactly eight groups *)
Definition print_v6_full (u : bool) (gs : list Z) : bytes := print_groups u gs.
(* `::` between a head and a tail of groups (at most seven in total) *)
Definition print_v6_compressed (u : bool) (hs ts : list Z) : bytes :=
  print_groups u hs ++ [58%N; 58%N] ++ print_groups u ts.
(* the last 32 bits written as an IPv4 address *)
Definition print_v6_embedded (u : bool) (gs : list Z) (a b c d : Z) : bytes :=
  print_groups u gs ++ 58%N :: print_v4 a b c d.

(* both: `::` and a dotted tail (::ffff:1.2.3.4, 64:ff9b::192.0.2.33, ::1.2.3.4) *)
Definition print_v6_compressed_embedded (u : bool) (hs ts : list Z) (a b c d : Z) : bytes :=
  print_groups u hs ++ [58%N; 58%N] ++
  match ts with [] => print_v4 a b c d | _ => print_groups u ts ++ 58%N :: print_v4 a b c d end.

(* an address in one of the canonical texts above *)
Inductive addr_text : bytes -> ip -> Prop :=
| AT4 a b c d : octet a -> octet b -> octet c -> octet d -> addr_text (print_v4 a b c d) (V4 (v4_of a b c d))
| AT6 u gs : length gs = 8%nat -> Forall group16 gs -> addr_text (print_v6_full u gs) (V6 (v6_of gs 0))
| AT6c u hs ts : (length hs + length ts <= 7)%nat -> Forall group16 hs -> Forall group16 ts ->
    addr_text (print_v6_compressed u hs ts)
              (V6 (v6_of (hs ++ repeat 0 (8 - (length hs + length ts)) ++ ts) 0))
| AT6e u gs a b c d : length gs = 6%nat -> Forall group16 gs -> octet a -> octet b -> octet c -> octet d ->
    addr_text (print_v6_embedded u gs a b c d) (V6 (v6_of (gs ++ [a * 256 + b; c * 256 + d]) 0))
| AT6ce u hs ts a b c d : (length hs + length ts <= 5)%nat -> Forall group16 hs -> Forall group16 ts ->
    octet a -> octet b -> octet c -> octet d ->
    addr_text (print_v6_compressed_embedded u hs ts a b c d)
              (V6 (v6_of (hs ++ repeat 0 (6 - (length hs + length ts)) ++ ts ++ [a * 256 + b; c * 256 + d]) 0)).

Definition ip_bits (a : ip) : Z := match a with V4 _ => 32 | V6 _ => 128 end.
Definition ip_num (a : ip) : Z := match a with V4 v => v | V6 v => v end.
Definition same_family (a b : ip) : bool :=
  match a, b with V4 _, V4 _ => true | V6 _, V6 _ => true | _, _ => false end.
Definition cidr_item (a : ip) (n : Z) : ip_item :=
  match a with V4 v => IpCidr4 v n | V6 v => IpCidr6 v n end.
Definition range_item (a b : ip) : ip_item :=
  match a with V4 v => IpRange4 v (ip_num b) | V6 v => IpRange6 v (ip_num b) end.

(* ---- list names ---- *)
Definition good_list_name (name : bytes) : Prop :=
  name <> [] /\ Forall (fun b => listname_byte b = true) name /\ hd 0%N name <> 46%N /\ last name 0%N <> 46%N.
