(* The surface grammar of filters, as a relation between a text and the AST it must be read as.
   It is written from the language description, not from the parser: a filter is an or-list of
   xor-lists of and-lists of simple expressions (binding strength  not > and > xor > or; a run of the
   same operator is one node), a simple expression is a comparison `field op literal`, a bare boolean
   field, `not`/`!` applied to a simple expression, or a parenthesised filter; every operator may be
   written in either of its spellings; spaces, carriage returns and line feeds may stand between any
   two tokens (and must stand between a name or literal and a following *word* operator); literals are
   written in any of the forms of Spec/C06.v.  The depth index counts enclosing parentheses and
   negations and may not exceed the configured limit.

   Theorem (Proofs/GrammarProofs.v, Props C01/C04/C07/C13): every text of this grammar is accepted
   by the parser model with exactly this AST, whatever the layout and the spellings. *)
From Coq Require Import List ZArith NArith Bool String.
From WF Require Import Base.Bytes Sem.RangeSet Lang.Types Lang.Ast Parse.Lex Sem.Compile Parse.Parser Parse.Climb
  Spec.C06 Spec.C07.
Import ListNotations.
Open Scope N_scope.
Local Notation length := List.length (only parsing).

(* a literal's text begins and ends with a visible ASCII character, and does not begin with `=` (true of
   every literal form below; kept as a side condition of the grammar so that it does not rest on facts
   about the printers of Spec/C06.v - Proofs/GrammarProofs.v discharges it for the common forms) *)
Definition visible (b : N) : Prop := b < 128 /\ is_ws_ascii b = false.
Definition tok_start (t : bytes) : Prop :=
  match t with b :: _ => visible b /\ b <> 61 | [] => False end.
Definition tok_end (t : bytes) : Prop :=
  match rev t with b :: _ => visible b | [] => False end.

(* identifiers: non-empty runs of ASCII letters, digits and `_`, joined by single dots *)
Definition ident_byte (b : N) : Prop := (is_ascii b && is_ident_char b) = true.
Inductive ident_text : bytes -> Prop :=
| IT_seg seg : seg <> [] -> Forall ident_byte seg -> ident_text seg
| IT_dot seg r : seg <> [] -> Forall ident_byte seg -> ident_text r -> ident_text (seg ++ 46 :: r).

(* the operator keywords are recognised before identifiers are, so a name that begins with one of them
   cannot start a simple expression (the engine reads `notify` as `not ify`) *)
Definition kw_free (name : bytes) : Prop :=
  starts_with (bs "not") name = None /\ starts_with (bs "any") name = None /\ starts_with (bs "all") name = None.

(* literal texts by type (printers and side conditions of Spec/C06.v) *)
Inductive lit_text : ty -> bytes -> rhs -> Prop :=
| LT_int f v : in_i64 v -> int_form_ok f v -> lit_text TInt (print_int f v) (RInt v)
| LT_quoted l : styles_ok l -> lit_text TBytes (print_quoted l) (RBytes (map snd l) FQuoted)
| LT_raw n body : (n <= 255)%nat -> utf8_valid body = true -> no_early_close n body ->
    lit_text TBytes (print_raw n body) (RBytes body (FRaw (N.of_nat n)))
| LT_hex u1 u2 b0 l : b0 < 256 -> Forall (fun x => snd x < 256) l -> l <> [] ->
    lit_text TBytes (print_hexpairs u1 u2 b0 l) (RBytes (b0 :: map snd l) FByte)
| LT_ip t a : addr_text t a -> lit_text TIp t (RIp a).

(* an operator in one of its two spellings; [sym] = the spelling is made of symbols, not letters *)
Definition op_spelling (c : cop) (sp : bytes) (sym : bool) : Prop :=
  exists a1 a2, In (a1, a2, c) comparison_aliases /\ ((sp = a1 /\ sym = false) \/ (sp = a2 /\ sym = true)).
Definition logical_spelling (o : logop) (sp : bytes) (sym : bool) : Prop :=
  exists a1 a2, In (a1, a2, o) logical_aliases /\ ((sp = a1 /\ sym = false) \/ (sp = a2 /\ sym = true)).

Definition cmp3 (t : ty) : bool := match t with TInt | TBytes | TIp => true | _ => false end.

(* operator and literal of a comparison whose left side has type [t] *)
Inductive cmp_text : ty -> bytes -> bool -> bytes -> cmpop -> Prop :=
| CT_ord t o sp sym lit v : op_spelling (OpOrd o) sp sym -> cmp3 t = true -> lit_text t lit v ->
    cmp_text t sp sym lit (COrd o v)
| CT_band sp sym lit z : op_spelling OpBand sp sym -> lit_text TInt lit (RInt z) ->
    cmp_text TInt sp sym lit (CBitAnd z)
| CT_contains lit b f : lit_text TBytes lit (RBytes b f) ->
    cmp_text TBytes (bs "contains") false lit (CContains b f).

Definition cv (o : op) : logop := match o with Or => LOr | Xor => LXor | And => LAnd end.

(* the tree over the parser's AST that an abstract or/xor/and structure stands for *)
Fixpoint interp (e : @expr lexpr) : lexpr :=
  match e with
  | Atom a => a
  | Comb o items =>
      ECombining (cv o)
        ((fix go (l : list expr) : lexprs := match l with [] => LNil | x :: r => LCons (interp x) (go r) end) items)
  end.

(* white space, operator, white space; a word operator needs white space before it *)
Definition sep_text (o : op) (s : bytes) : Prop :=
  exists ws1 sp sym ws2, s = ws1 ++ sp ++ ws2 /\ layout_ws ws1 /\ layout_ws ws2 /\
    logical_spelling (cv o) sp sym /\ (sym = true \/ ws1 <> []).

Section Grammar.
Variables (sch : scheme) (st : settings).

Definition names_field (name : bytes) (i : nat) (t : ty) : Prop :=
  ident_text name /\ kw_free name /\ scheme_get sch name = Some (IdField i) /\ field_ty sch i = Some t.

Inductive GSimple : N -> bytes -> lexpr -> Prop :=
| GS_bool d name i : names_field name i TBool -> GSimple d name (EComparison (IField i []) CIsTrue)
| GS_cmp d name i t ws1 sp sym ws2 lit c :
    names_field name i t -> layout_ws ws1 -> layout_ws ws2 -> (sym = true \/ ws1 <> []) ->
    cmp_text t sp sym lit c -> tok_start lit -> tok_end lit ->
    GSimple d (name ++ ws1 ++ sp ++ ws2 ++ lit) (EComparison (IField i []) c)
| GS_not d sp ws t a :
    In sp [bs "not"; bs "!"] -> layout_ws ws -> d < st_max_depth st -> GSimple (d + 1) t a ->
    GSimple d (sp ++ ws ++ t) (ENot a)
| GS_paren d ws1 t e ws2 :
    layout_ws ws1 -> layout_ws ws2 -> d < st_max_depth st -> GLogical (d + 1) t e ->
    GSimple d (40 :: ws1 ++ t ++ ws2 ++ [41]) (EParen e)
(* operator, simple expression, ... : the chain that follows the first simple expression *)
with GTail : N -> @chain lexpr -> bytes -> Prop :=
| GT_nil d : GTail d [] []
| GT_cons d o s ta a c tc : sep_text o s -> GSimple d ta a -> GTail d c tc -> GTail d ((o, Atom a) :: c) (s ++ ta ++ tc)
(* [x] : the or-list of xor-lists of and-lists; [rest_or x] its operators and operands in reading order *)
with GLogical : N -> bytes -> lexpr -> Prop :=
| GL d (x : @orl lexpr) t0 a0 tc :
    simple_orl x -> first_or x = Atom a0 -> GSimple d t0 a0 -> GTail d (rest_or x) tc ->
    GLogical d (t0 ++ tc) (interp (build_or x)).

(* a whole filter: the expression, with any white space around it *)
Definition GFilter (text : bytes) (e : lexpr) : Prop :=
  exists ws1 t ws2, text = ws1 ++ t ++ ws2 /\ layout_ws ws1 /\ layout_ws ws2 /\ GLogical 0 t e.

End Grammar.
