(* The surface grammar of filters, as a relation between a text and the AST it must be read as.
   It is written from the language description, not from the parser: a filter is an or-list of
   xor-lists of and-lists of simple expressions (binding strength  not > and > xor > or; a run of the
   same operator is one node), a simple expression is a comparison `lhs op literal` / `lhs in {items}` /
   `lhs in $list`, a bare boolean (or boolean-array) left-hand side, `not`/`!` applied to a simple
   expression, a parenthesised filter, or a quantifier any( ) / all( ) over a boolean-array expression, where a left-hand side is a field followed by any number of
   index accesses `[n]`, `["key"]`, `[*]`; a left-hand side that iterates ([*]) or is a boolean array makes a
   boolean-array expression (class K = true), which combines only with its like; every operator may be
   written in either of its spellings; spaces, carriage returns and line feeds may stand between any
   two tokens (and must stand between a name or literal and a following *word* operator); literals are
   written in any of the forms of Spec/C06.v.  The depth index counts enclosing parentheses and
   negations and may not exceed the configured limit.

   Theorem (Proofs/GrammarProofs.v, Props C01/C04/C07/C13): every text of this grammar is accepted
   by the parser model with exactly this AST, whatever the layout and the spellings. *)
From Coq Require Import List ZArith NArith Bool String.
From WF Require Import Base.Bytes Sem.RangeSet Lang.Types Lang.Ast Parse.Lex Sem.Compile Parse.Parser Parse.Climb
  Spec.C06 Spec.C07.
Import ListNotations.
Open Scope N_scope.
Local Notation length := List.length (only parsing).

(* a literal's text begins and ends with a visible ASCII character, and does not begin with `=` or `}` (true of
   every literal form below; kept as a side condition of the grammar so that it does not rest on facts
   about the printers of Spec/C06.v - Proofs/GrammarProofs.v discharges it for the common forms) *)
Definition visible (b : N) : Prop := b < 128 /\ is_ws_ascii b = false.
Definition tok_start (t : bytes) : Prop :=
  match t with b :: _ => visible b /\ b <> 61 /\ b <> 125 | [] => False end.
Definition tok_end (t : bytes) : Prop :=
  match rev t with b :: _ => visible b | [] => False end.

(* identifiers: non-empty runs of ASCII letters, digits and `_`, joined by single dots *)
Definition ident_byte (b : N) : Prop := (is_ascii b && is_ident_char b) = true.
Inductive ident_text : bytes -> Prop :=
| IT_seg seg : seg <> [] -> Forall ident_byte seg -> ident_text seg
| IT_dot seg r : seg <> [] -> Forall ident_byte seg -> ident_text r -> ident_text (seg ++ 46 :: r).

(* the operator keywords are recognised before identifiers are, so a name that begins with one of them
   cannot start a simple expression (the engine reads `notify` as `not ify`) *)
Definition kw_free (name : bytes) : Prop :=
  starts_with (bs "not") name = None /\ starts_with (bs "any") name = None /\ starts_with (bs "all") name = None.

(* literal texts by type (printers and side conditions of Spec/C06.v) *)
Inductive lit_text : ty -> bytes -> rhs -> Prop :=
| LT_int f v : in_i64 v -> int_form_ok f v -> lit_text TInt (print_int f v) (RInt v)
| LT_quoted l : styles_ok l -> lit_text TBytes (print_quoted l) (RBytes (map snd l) FQuoted)
| LT_raw n body : (n <= 255)%nat -> utf8_valid body = true -> no_early_close n body ->
    lit_text TBytes (print_raw n body) (RBytes body (FRaw (N.of_nat n)))
| LT_hex u1 u2 b0 l : b0 < 256 -> Forall (fun x => snd x < 256) l -> l <> [] ->
    lit_text TBytes (print_hexpairs u1 u2 b0 l) (RBytes (b0 :: map snd l) FByte)
| LT_ip t a : addr_text t a -> lit_text TIp t (RIp a).

(* index accesses after a name: type before, text, indexes, type after *)
Inductive idx_text : ty -> bytes -> list index -> ty -> Prop :=
| IX_nil t : idx_text t [] [] t
| IX_arr e ws1 f n ws2 rest idx t :
    layout_ws ws1 -> layout_ws ws2 -> (0 <= n < 4294967296)%Z -> int_form_ok f n -> idx_text e rest idx t ->
    idx_text (TArray e) (91 :: ws1 ++ print_int f n ++ ws2 ++ 93 :: rest) (IArr (Z.to_N n) :: idx) t
| IX_key e ws1 l ws2 rest idx t :
    layout_ws ws1 -> layout_ws ws2 -> styles_ok l -> utf8_valid (map snd l) = true -> idx_text e rest idx t ->
    idx_text (TMap e) (91 :: ws1 ++ print_quoted l ++ ws2 ++ 93 :: rest) (IKey (map snd l) :: idx) t
| IX_each_arr e ws1 ws2 rest idx t :
    layout_ws ws1 -> layout_ws ws2 -> idx_text e rest idx t ->
    idx_text (TArray e) (91 :: ws1 ++ 42 :: ws2 ++ 93 :: rest) (IEach :: idx) t
| IX_each_map e ws1 ws2 rest idx t :
    layout_ws ws1 -> layout_ws ws2 -> idx_text e rest idx t ->
    idx_text (TMap e) (91 :: ws1 ++ 42 :: ws2 ++ 93 :: rest) (IEach :: idx) t.

(* the class of a bare left-hand side used as an expression: a plain boolean, or a boolean array *)
Definition istrue_class (idx : list index) (t : ty) : option bool :=
  match t with
  | TBool => Some (Nat.ltb 0 (map_each_count idx))
  | TArray TBool | TMap TBool => if Nat.ltb 0 (map_each_count idx) then None else Some true
  | _ => None
  end.
Definition kty (K : bool) : ty := if K then TArray TBool else TBool.

(* items of a brace list *)
Inductive int_item_text : bytes -> range -> Prop :=
| II_one f v : in_i64 v -> int_form_ok f v -> int_item_text (print_int f v) (v, v)
| II_range f1 f2 a b : in_i64 a -> in_i64 b -> int_form_ok f1 a -> int_form_ok f2 b -> (a <= b)%Z ->
    int_item_text (print_int_range f1 f2 a b) (a, b).
Inductive ip_item_text : bytes -> ip_item -> Prop :=
| PI_host t a : addr_text t a -> ip_item_text t (cidr_item a (ip_bits a))
| PI_cidr t a n : addr_text t a -> (0 <= n <= ip_bits a)%Z -> (ip_num a mod 2 ^ (ip_bits a - n) = 0)%Z ->
    ip_item_text (t ++ 47 :: print_dec n) (cidr_item a n)
| PI_range t1 t2 a b : addr_text t1 a -> addr_text t2 b -> same_family a b = true -> (ip_num a <= ip_num b)%Z ->
    ip_item_text (t1 ++ [46; 46] ++ t2) (range_item a b).
Definition bytes_item_text (t : bytes) (v : bytes * bytes_format) : Prop := lit_text TBytes t (RBytes (fst v) (snd v)).

(* `{` items `}`: white space is optional after `{`, mandatory between items, optional before `}` *)
Inductive items_tail {A} (item : bytes -> A -> Prop) : bytes -> list A -> Prop :=
| IT_close ws : layout_ws ws -> items_tail item (ws ++ [125]) []
| IT_more ws t a rest l : layout_ws ws -> ws <> [] -> item t a -> tok_start t -> items_tail item rest l ->
    items_tail item (ws ++ t ++ rest) (a :: l).
Inductive list_text {A} (item : bytes -> A -> Prop) : bytes -> list A -> Prop :=
| LT_empty ws : layout_ws ws -> list_text item (123 :: ws ++ [125]) []
| LT_items ws t a rest l : layout_ws ws -> item t a -> tok_start t -> items_tail item rest l ->
    list_text item (123 :: ws ++ t ++ rest) (a :: l).

(* an operator in one of its two spellings; [sym] = the spelling is made of symbols, not letters *)
Definition op_spelling (c : cop) (sp : bytes) (sym : bool) : Prop :=
  exists a1 a2, In (a1, a2, c) comparison_aliases /\ ((sp = a1 /\ sym = false) \/ (sp = a2 /\ sym = true)).
Definition logical_spelling (o : logop) (sp : bytes) (sym : bool) : Prop :=
  exists a1 a2, In (a1, a2, o) logical_aliases /\ ((sp = a1 /\ sym = false) \/ (sp = a2 /\ sym = true)).

Definition cmp3 (t : ty) : bool := match t with TInt | TBytes | TIp => true | _ => false end.

(* operator and literal of a comparison whose left side has type [t] *)
Inductive cmp_text : ty -> bytes -> bool -> bytes -> cmpop -> Prop :=
| CT_ord t o sp sym lit v : op_spelling (OpOrd o) sp sym -> cmp3 t = true -> lit_text t lit v ->
    cmp_text t sp sym lit (COrd o v)
| CT_band sp sym lit z : op_spelling OpBand sp sym -> lit_text TInt lit (RInt z) ->
    cmp_text TInt sp sym lit (CBitAnd z)
| CT_contains lit b f : lit_text TBytes lit (RBytes b f) ->
    cmp_text TBytes (bs "contains") false lit (CContains b f)
| CT_in_int txt l : list_text int_item_text txt l -> cmp_text TInt (bs "in") false txt (COneOfInt l)
| CT_in_ip txt l : list_text ip_item_text txt l -> cmp_text TIp (bs "in") false txt (COneOfIp l)
| CT_in_bytes txt l : list_text bytes_item_text txt l -> cmp_text TBytes (bs "in") false txt (COneOfBytes l).

Definition cv (o : op) : logop := match o with Or => LOr | Xor => LXor | And => LAnd end.

(* the tree over the parser's AST that an abstract or/xor/and structure stands for *)
Fixpoint interp (e : @expr lexpr) : lexpr :=
  match e with
  | Atom a => a
  | Comb o items =>
      ECombining (cv o)
        ((fix go (l : list expr) : lexprs := match l with [] => LNil | x :: r => LCons (interp x) (go r) end) items)
  end.

(* white space, operator, white space; a word operator needs white space before it *)
Definition sep_text (o : op) (s : bytes) : Prop :=
  exists ws1 sp sym ws2, s = ws1 ++ sp ++ ws2 /\ layout_ws ws1 /\ layout_ws ws2 /\
    logical_spelling (cv o) sp sym /\ (sym = true \/ ws1 <> []).

Section Grammar.
Variables (sch : scheme) (st : settings).

Definition names_field (name : bytes) (i : nat) (t : ty) : Prop :=
  ident_text name /\ kw_free name /\ scheme_get sch name = Some (IdField i) /\ field_ty sch i = Some t.

Definition names_fn (name : bytes) (i : nat) (def : fn_def) : Prop :=
  ident_text name /\ kw_free name /\ scheme_get sch name = Some (IdFn i) /\ fn_of sch i = Some def.

(* the rules an argument list obeys (FunctionCallExpr::lex_with_function): [*] only in the first argument, not more
   arguments than parameters, each argument of the kind and type its position asks for ([check_param], the mirror
   of SimpleFunctionDefinition / ConcatFunction::check_param), at least the mandatory ones at the end *)
Definition arg_admitted (def : fn_def) (prev : list arg) (a : arg) : Prop :=
  (Nat.ltb 0 (arg_map_each_count a) && negb (Nat.eqb (List.length prev) 0)) = false /\
  (negb (fn_variadic_same def) && Nat.leb (List.length (fn_params def) + List.length (fn_opt_params def)) (List.length prev)) = false /\
  exists t, ty_arg sch a = Some t /\ check_param sch def prev a t = PcOk.
Definition arity_reached (def : fn_def) (acc : list arg) : Prop :=
  Nat.ltb (List.length acc) (if fn_variadic_same def then 2%nat else List.length (fn_params def)) = false.

(* `lhs in $name`: the scheme must have a list for the type *)
Inductive cmp_text_s : ty -> bytes -> bool -> bytes -> cmpop -> Prop :=
| CS_plain t sp sym lit c : cmp_text t sp sym lit c -> cmp_text_s t sp sym lit c
| CS_in_list t name li : cmp3 t = true -> good_list_name name -> list_index sch t = Some li ->
    cmp_text_s t (bs "in") false (36 :: name) (CInList li name).

(* left-hand sides: a field or a function call, followed by index accesses.  Arguments (of the forms
   described so far): a quoted byte string, a left-hand side, or a logical expression that begins with
   `(`, `not` or `!`.   K: false = plain boolean, true = boolean array *)
Inductive GLhs : N -> bytes -> iexpr -> ty -> Prop :=
| LH_field d name i t0 itxt idx t :
    names_field name i t0 -> idx_text t0 itxt idx t -> GLhs d (name ++ itxt) (IField i idx) t
| LH_call d name i def ws1 atxt all tret itxt idx t :
    names_fn name i def -> layout_ws ws1 -> d < st_max_depth st ->
    GArgs (d + 1) def [] atxt all -> ty_call sch i (args_of_list all) = Some tret -> idx_text tret itxt idx t ->
    GLhs d (name ++ ws1 ++ 40 :: atxt ++ itxt) (ICall i (args_of_list all) idx) t
(* the text after `(`: arguments separated by commas, then `)`; [acc] = the arguments read so far *)
with GArgs : N -> fn_def -> list arg -> bytes -> list arg -> Prop :=
| GA_end d def acc ws : layout_ws ws -> arity_reached def acc -> GArgs d def acc (ws ++ [41]) acc
| GA_first d def ws atxt a rest all :
    layout_ws ws -> GArg d atxt a -> arg_admitted def [] a -> GArgs d def [a] rest all ->
    GArgs d def [] (ws ++ atxt ++ rest) all
| GA_next d def acc ws0 ws atxt a rest all :
    acc <> [] -> layout_ws ws0 -> layout_ws ws -> GArg d atxt a -> arg_admitted def acc a ->
    GArgs d def (acc ++ [a]) rest all ->
    GArgs d def acc (ws0 ++ 44 :: ws ++ atxt ++ rest) all
with GArg : N -> bytes -> arg -> Prop :=
| AR_quoted d l : styles_ok l -> GArg d (print_quoted l) (ALit (RBytes (map snd l) FQuoted))
| AR_lhs d t ie ty : GLhs d t ie ty -> GArg d t (AIndex ie)
| AR_logical K d t le :
    GLogical K d t le -> (exists x, t = 40 :: x \/ t = 33 :: x \/ t = bs "not" ++ x) -> GArg d t (ALogical le)
with GSimple : bool -> N -> bytes -> lexpr -> Prop :=
| GS_istrue K d name i t0 itxt idx t :
    names_field name i t0 -> idx_text t0 itxt idx t -> istrue_class idx t = Some K ->
    GSimple K d (name ++ itxt) (EComparison (IField i idx) CIsTrue)
| GS_cmp K d name i t0 itxt idx t ws1 sp sym ws2 lit c :
    names_field name i t0 -> idx_text t0 itxt idx t -> K = Nat.ltb 0 (map_each_count idx) ->
    layout_ws ws1 -> layout_ws ws2 -> (sym = true \/ ws1 <> []) ->
    cmp_text_s t sp sym lit c -> tok_start lit -> tok_end lit ->
    GSimple K d (name ++ itxt ++ ws1 ++ sp ++ ws2 ++ lit) (EComparison (IField i idx) c)
| GS_istrue_lhs K d ltxt ie t :
    GLhs d ltxt ie t -> istrue_class (iexpr_idx ie) t = Some K ->
    GSimple K d ltxt (EComparison ie CIsTrue)
| GS_cmp_lhs K d ltxt ie t ws1 sp sym ws2 lit c :
    GLhs d ltxt ie t -> K = Nat.ltb 0 (map_each_count (iexpr_idx ie)) ->
    layout_ws ws1 -> layout_ws ws2 -> (sym = true \/ ws1 <> []) ->
    cmp_text_s t sp sym lit c -> tok_start lit -> tok_end lit ->
    GSimple K d (ltxt ++ ws1 ++ sp ++ ws2 ++ lit) (EComparison ie c)
| GS_not K d sp ws t a :
    In sp [bs "not"; bs "!"] -> layout_ws ws -> d < st_max_depth st -> GSimple K (d + 1) t a ->
    GSimple K d (sp ++ ws ++ t) (ENot a)
| GS_paren K d ws1 t e ws2 :
    layout_ws ws1 -> layout_ws ws2 -> d < st_max_depth st -> GLogical K (d + 1) t e ->
    GSimple K d (40 :: ws1 ++ t ++ ws2 ++ [41]) (EParen e)
(* any( ) / all( ): the argument is a boolean-array expression.  One that begins with `(`, `not` or `!` may
   be a whole chain; otherwise it is a single comparison whose left-hand side iterates, or a bare
   Array(Bool) left-hand side without [*] *)
| GS_quant_logical d q qsp ws1 ws2 t le ws3 :
    In (qsp, q) [(bs "any", QAny); (bs "all", QAll)] -> layout_ws ws1 -> layout_ws ws2 -> layout_ws ws3 ->
    d < st_max_depth st -> GLogical true (d + 1) t le ->
    (exists x, t = 40 :: x \/ t = 33 :: x \/ t = bs "not" ++ x) ->
    GSimple false d (qsp ++ ws1 ++ 40 :: ws2 ++ t ++ ws3 ++ [41]) (EQuantLogical q le)
| GS_quant_cmp d q qsp ws1 ws2 name i t0 itxt idx t wsa sp sym wsb lit c ws3 :
    In (qsp, q) [(bs "any", QAny); (bs "all", QAll)] -> layout_ws ws1 -> layout_ws ws2 -> layout_ws ws3 ->
    d < st_max_depth st ->
    names_field name i t0 -> idx_text t0 itxt idx t -> Nat.ltb 0 (map_each_count idx) = true ->
    layout_ws wsa -> layout_ws wsb -> (sym = true \/ wsa <> []) ->
    cmp_text_s t sp sym lit c -> tok_start lit -> tok_end lit ->
    GSimple false d (qsp ++ ws1 ++ 40 :: ws2 ++ (name ++ itxt ++ wsa ++ sp ++ wsb ++ lit) ++ ws3 ++ [41])
            (EQuantLogical q (EComparison (IField i idx) c))
| GS_quant_index d q qsp ws1 ws2 name i t0 itxt idx ws3 :
    In (qsp, q) [(bs "any", QAny); (bs "all", QAll)] -> layout_ws ws1 -> layout_ws ws2 -> layout_ws ws3 ->
    d < st_max_depth st ->
    names_field name i t0 -> idx_text t0 itxt idx (TArray TBool) -> map_each_count idx = 0%nat ->
    GSimple false d (qsp ++ ws1 ++ 40 :: ws2 ++ (name ++ itxt) ++ ws3 ++ [41]) (EQuantIndex q (IField i idx))
(* operator, simple expression, ... : the chain that follows the first simple expression *)
with GTail : bool -> N -> @chain lexpr -> bytes -> Prop :=
| GT_nil K d : GTail K d [] []
| GT_cons K d o s ta a c tc :
    sep_text o s -> GSimple K d ta a -> GTail K d c tc -> GTail K d ((o, Atom a) :: c) (s ++ ta ++ tc)
(* [x] : the or-list of xor-lists of and-lists; [rest_or x] its operators and operands in reading order *)
with GLogical : bool -> N -> bytes -> lexpr -> Prop :=
| GL K d (x : @orl lexpr) t0 a0 tc :
    simple_orl x -> first_or x = Atom a0 -> GSimple K d t0 a0 -> GTail K d (rest_or x) tc ->
    GLogical K d (t0 ++ tc) (interp (build_or x)).

(* a whole filter: the expression, with any white space around it *)
Definition GFilter (text : bytes) (e : lexpr) : Prop :=
  exists ws1 t ws2, text = ws1 ++ t ++ ws2 /\ layout_ws ws1 /\ layout_ws ws2 /\ GLogical false 0 t e.

End Grammar.

(* value expressions (FilterValueAst): a left-hand side that does not iterate, with white space around it *)
Definition GValue (sch : scheme) (text : bytes) (e : iexpr) : Prop :=
  exists ws1 name itxt ws2 i t0 idx t,
    text = ws1 ++ (name ++ itxt) ++ ws2 /\ layout_ws ws1 /\ layout_ws ws2 /\
    ident_text name /\ scheme_get sch name = Some (IdField i) /\ field_ty sch i = Some t0 /\
    idx_text t0 itxt idx t /\ map_each_count idx = 0%nat /\ e = IField i idx.
