(* Specification of C20 (the failure-reporting half), written from the property text:

   "Every failure is reported through the status or boolean result together with
    a last-error message that belongs to the calling thread and is a NUL-terminated
    string without interior NUL bytes, and with the panic catcher enabled a panic
    raised inside parse, compile or match (for instance by a user-supplied
    function) is reported as a panic status instead of unwinding into the caller."

   The abstract last error of a thread is an optional TEXT (None: the pointer is
   NULL).  There is no byte vector, no pop / push, no terminator in this file: a C
   string is described by the predicate [is_c_string].  Only the syntax of calls,
   the result type and the per-function tables of result kinds are shared with the
   model (Sem/FfiProto.v).  The "mirrors the Rust API" half of C20 is a comparison
   made by the harness on the real code (see Run/C20.v). *)
From Coq Require Import List NArith Bool.
From WF Require Import Base.Bytes Sem.CString Sem.FfiProto.
Import ListNotations.
Open Scope N_scope.

(* The text a C caller can receive for a Rust message: NUL cannot travel inside a
   C string, it is replaced by SUB (0x1a). *)
Definition spec_text (m : bytes) : bytes := map (fun b => if b =? 0 then 26 else b) m.

(* [buf] is the C string with content [m]. *)
Definition is_c_string (buf : list N) (m : bytes) : Prop := buf = m ++ [0] /\ ~ In 0 m.

(* ---- the string buffer alone: what was appended since the last clear ---- *)

Fixpoint spec_pending (acc : option bytes) (ops : list cs_op) : option bytes :=
  match ops with
  | [] => acc
  | CsClear :: ops' => spec_pending None ops'
  | CsAppend b :: ops' =>
      spec_pending (Some (match acc with None => b | Some a => a ++ b end)) ops'
  end.

(* ---- the protocol ---- *)

Record astate := mk_astate {
  a_err : option bytes;    (* the calling thread's last error text *)
  a_enabled : bool         (* panic catcher enabled on this thread *)
}.

Definition init_astate : astate := mk_astate None false.

(* the text of a formatted message; an empty text leaves no message *)
Definition spec_message (msg : message) : option bytes :=
  match concat msg with
  | [] => None
  | m => Some (spec_text m)
  end.

Definition spec_panic_message (hook : bool) (pre payload post : bytes) : option bytes :=
  spec_message (panic_text hook pre payload post).

Definition spec_step (p : pstate) (a : astate) (c : call) : pstate * astate * ret :=
  if p_dead p then (p, a, RNotRun) else
  match c with
  | Call f o =>
      match o with
      | Panicked pre payload post =>
          if catches f && a_enabled a
          then (p, mk_astate (spec_panic_message (p_hook p) pre payload post) (a_enabled a),
                RStatus (panic_status f))
          else (mk_pstate (p_hook p) true, a, RAbort)
      | Failure _ msg =>
          (* a failing call: its own message replaces whatever was there *)
          (p, mk_astate (spec_message msg) (a_enabled a), ret_failure f)
      | Success =>
          match f with
          | F_get_last_error => (p, a, RErrPtr (option_map (fun m => m ++ [0]) (a_err a)))
          | F_clear_last_error => (p, mk_astate None (a_enabled a), RUnit)
          | F_enable_panic_catcher => (p, mk_astate (a_err a) true, RUnit)
          | F_disable_panic_catcher => (p, mk_astate (a_err a) false, RUnit)
          | F_set_panic_catcher_hook => (mk_pstate true (p_dead p), a, RUnit)
          | _ => (p, a, ret_success f)   (* a succeeding call leaves the last error alone *)
          end
      end
  end.

(* an abstract observation: the result and the thread's last error after the call *)
Definition sobs := (ret * cs_view_t)%type.

Definition view_of (e : option bytes) : cs_view_t :=
  match e with None => VNull | Some m => VStr m end.

Fixpoint spec_run (p : pstate) (a : astate) (h : list call) : list sobs * pstate * astate :=
  match h with
  | [] => ([], p, a)
  | c :: h' =>
      let '(p1, a1, r) := spec_step p a c in
      let '(os, p2, a2) := spec_run p1 a1 h' in
      ((r, view_of (a_err a1)) :: os, p2, a2)
  end.

(* how a model observation is read *)
Definition abs_obs (o : obs) : sobs := (fst o, cs_view (snd o)).

(* how a model state is read *)
Definition rel (st : tstate) (a : astate) : Prop :=
  t_enabled st = a_enabled a /\
  match a_err a with
  | None => t_err st = []
  | Some m => is_c_string (t_err st) m
  end.

(* Two threads: whatever the schedule, each thread observes what it observes alone. *)
Definition spec_two (p : pstate) (ha hb : list call) : list sobs * list sobs :=
  (fst (fst (spec_run p init_astate ha)), fst (fst (spec_run p init_astate hb))).

(* No call of a history makes the process abort. *)
Definition no_abort (os : list sobs) : Prop := Forall (fun o => fst o <> RAbort /\ fst o <> RNotRun) os.
