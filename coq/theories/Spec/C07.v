(* C07 — the AST and its JSON are a canonical image of filter structure.

   Specification, written from the property text:
   * the operator aliases and what counts as layout white space;
   * the STRUCTURE of a filter: its AST without the parenthesis nodes
     (parentheses are visible only as nesting) and without the notation a
     literal was written in (quoted / raw string / hex bytes; raw or quoted
     regular expression) beyond what decides how its decoded value is shown;
   * the canonical DOCUMENT of a structure: operator names, identifier names,
     index kinds and values, decoded literals, one node per same-operator chain;
   * its text (the compact JSON text) and the hash (FNV-1a, 64 bit, of the text).

   How an address / CIDR block is written as text is the behaviour of std and
   of the cidr crate (ip_text, cidr_text in Sem/AstJson.v), reused here. *)
From Coq Require Import List ZArith NArith Bool String.
From WF Require Import Base.Bytes Sem.RangeSet Lang.Types Lang.Ast Sem.TypeCodec Sem.JsonText
     Parse.Lex Sem.Compile Parse.Parser Sem.AstJson.
Import ListNotations.
Open Scope string_scope.
Open Scope list_scope.
Open Scope N_scope.

(* ---- aliases and layout ---- *)

Definition bs (x : string) : bytes := bytes_of_string x.

(* and/&&, or/||, xor/^^ *)
Definition logical_aliases : list (bytes * bytes * logop) :=
  [(bs "and", bs "&&", LAnd); (bs "or", bs "||", LOr); (bs "xor", bs "^^", LXor)].
(* not/! *)
Definition unary_aliases : list (bytes * bytes) := [(bs "not", bs "!")].
(* eq/==, ne/!=, ge/>=, le/<=, gt/>, lt/<, matches/~, bitwise_and/& *)
Definition comparison_aliases : list (bytes * bytes * cop) :=
  [(bs "eq", bs "==", OpOrd OEq); (bs "ne", bs "!=", OpOrd ONe); (bs "ge", bs ">=", OpOrd OGe);
   (bs "le", bs "<=", OpOrd OLe); (bs "gt", bs ">", OpOrd OGt); (bs "lt", bs "<", OpOrd OLt);
   (bs "matches", bs "~", OpMatches); (bs "bitwise_and", bs "&", OpBand)].

(* spaces and line breaks *)
Definition layout_ws (ws : bytes) : Prop := Forall (fun c => c = 32 \/ c = 13 \/ c = 10) ws.

(* `>` and `<` are prefixes of `>=` and `<=`: the text after them must not start with `=` *)
Definition no_eq_follows (rest : bytes) : Prop := match rest with 61 :: _ => False | _ => True end.

(* ---- structure ---- *)

(* what of the notation of a byte-string literal is part of the structure:
   only whether its decoded value is shown as text or as numbers *)
Definition shown_as_text (x : bytes) (f : bytes_format) : bool :=
  match f with FByte => false | _ => utf8_valid x end.
Definition erase_fmt (x : bytes) (f : bytes_format) : bytes_format :=
  if shown_as_text x f then FQuoted else FByte.

Definition erase_rhs (r : rhs) : rhs :=
  match r with RBytes x f => RBytes x (erase_fmt x f) | _ => r end.

Definition erase_cmpop (op : cmpop) : cmpop :=
  match op with
  | COrd o r => COrd o (erase_rhs r)
  | CContains p f => CContains p (erase_fmt p f)
  | CMatches pat _ => CMatches pat None
  | CWildcard s p f => CWildcard s p (erase_fmt p f)
  | COneOfBytes l => COneOfBytes (map (fun p => (fst p, erase_fmt (fst p) (snd p))) l)
  | _ => op
  end.

Fixpoint erase (e : lexpr) {struct e} : lexpr :=
  match e with
  | ECombining op items => ECombining op (erase_list items)
  | EComparison lhs op => EComparison (erase_i lhs) (erase_cmpop op)
  | EParen e' => erase e'
  | ENot e' => ENot (erase e')
  | EQuantIndex q a => EQuantIndex q (erase_i a)
  | EQuantLogical q a => EQuantLogical q (erase a)
  end
with erase_list (l : lexprs) {struct l} : lexprs :=
  match l with LNil => LNil | LCons e r => LCons (erase e) (erase_list r) end
with erase_i (e : iexpr) {struct e} : iexpr :=
  match e with
  | IField f idx => IField f idx
  | ICall fn a idx => ICall fn (erase_args a) idx
  end
with erase_args (a : args) {struct a} : args :=
  match a with ANil => ANil | ACons x r => ACons (erase_arg x) (erase_args r) end
with erase_arg (a : arg) {struct a} : arg :=
  match a with
  | AIndex e => AIndex (erase_i e)
  | ALit r => ALit (erase_rhs r)
  | ALogical e => ALogical (erase e)
  end.

(* two filters have the same structure *)
Definition struct_eq (e1 e2 : lexpr) : Prop := erase e1 = erase e2.

(* ---- the canonical document ---- *)

Definition obj (l : list (string * json)) : json := JObj (map (fun p => (bs (fst p), snd p)) l).
Definition txt (x : string) : json := JStr (bs x).
Definition nums (x : bytes) : json := JArr (map (fun c => JNum (Z.of_N c)) x).

Definition doc_bytes (x : bytes) (f : bytes_format) : json := if shown_as_text x f then JStr x else nums x.

Definition doc_rhs (r : rhs) : json :=
  match r with
  | RInt z => JNum z
  | RBytes x f => doc_bytes x f
  | RIp a => JStr (ip_text a)
  end.

Definition doc_span (a z : json) : json := obj [("start", a); ("end", z)].

Definition doc_ip_item (it : ip_item) : json :=
  match it with
  | IpRange4 a z => doc_span (JStr (ip_text (V4 a))) (JStr (ip_text (V4 z)))
  | IpRange6 a z => doc_span (JStr (ip_text (V6 a))) (JStr (ip_text (V6 z)))
  | IpCidr4 a n => JStr (cidr_text (ip_text (V4 a)) n 32)
  | IpCidr6 a n => JStr (cidr_text (ip_text (V6 a)) n 128)
  end.

(* operator name and, when there is one, the right-hand side *)
Definition doc_cmpop (op : cmpop) : string * option json :=
  match op with
  | CIsTrue => ("IsTrue", None)
  | COrd OEq r => ("Equal", Some (doc_rhs r))
  | COrd ONe r => ("NotEqual", Some (doc_rhs r))
  | COrd OGe r => ("GreaterThanEqual", Some (doc_rhs r))
  | COrd OLe r => ("LessThanEqual", Some (doc_rhs r))
  | COrd OGt r => ("GreaterThan", Some (doc_rhs r))
  | COrd OLt r => ("LessThan", Some (doc_rhs r))
  | CBitAnd z => ("BitwiseAnd", Some (JNum z))
  | CContains p f => ("Contains", Some (doc_bytes p f))
  | CMatches pat _ => ("Matches", Some (JStr pat))
  | CWildcard false p f => ("Wildcard", Some (doc_bytes p f))
  | CWildcard true p f => ("Strict Wildcard", Some (doc_bytes p f))
  | COneOfInt l => ("OneOf", Some (JArr (map (fun r => doc_span (JNum (fst r)) (JNum (snd r))) l)))
  | COneOfIp l => ("OneOf", Some (JArr (map doc_ip_item l)))
  | COneOfBytes l => ("OneOf", Some (JArr (map (fun p => doc_bytes (fst p) (snd p)) l)))
  | CInList _ name => ("InList", Some (JStr name))
  end.

Definition doc_index (i : index) : json :=
  match i with
  | IArr n => obj [("kind", txt "ArrayIndex"); ("value", JNum (Z.of_N n))]
  | IKey k => obj [("kind", txt "MapKey"); ("value", JStr k)]
  | IEach => obj [("kind", txt "MapEach")]
  end.

(* an identifier alone, or followed by its indexes *)
Definition doc_indexed (ident : json) (idx : list index) : json :=
  match idx with [] => ident | _ :: _ => JArr (ident :: map doc_index idx) end.

Definition doc_kind (kind : string) (v : json) : json := obj [("kind", txt kind); ("value", v)].

Definition name_of_field (sch : scheme) (f : nat) : bytes :=
  nth f (map fd_name (sc_fields sch)) [].
Definition name_of_fn (sch : scheme) (f : nat) : bytes :=
  nth f (map fst (sc_functions sch)) [].

Fixpoint doc (sch : scheme) (e : lexpr) {struct e} : json :=
  match e with
  | ECombining LOr items => obj [("op", txt "Or"); ("items", JArr (doc_list sch items))]
  | ECombining LXor items => obj [("op", txt "Xor"); ("items", JArr (doc_list sch items))]
  | ECombining LAnd items => obj [("op", txt "And"); ("items", JArr (doc_list sch items))]
  | EComparison lhs op =>
      match doc_cmpop op with
      | (name, Some r) => obj [("lhs", doc_i sch lhs); ("op", txt name); ("rhs", r)]
      | (name, None) => obj [("lhs", doc_i sch lhs); ("op", txt name)]
      end
  | EParen e' => doc sch e'
  | ENot e' => obj [("op", txt "Not"); ("arg", doc sch e')]
  | EQuantIndex QAny a => obj [("op", txt "Any"); ("arg", doc_kind "IndexExpr" (doc_i sch a))]
  | EQuantIndex QAll a => obj [("op", txt "All"); ("arg", doc_kind "IndexExpr" (doc_i sch a))]
  | EQuantLogical QAny a => obj [("op", txt "Any"); ("arg", doc_kind "SimpleExpr" (doc sch a))]
  | EQuantLogical QAll a => obj [("op", txt "All"); ("arg", doc_kind "SimpleExpr" (doc sch a))]
  end
with doc_list (sch : scheme) (l : lexprs) {struct l} : list json :=
  match l with LNil => [] | LCons e r => doc sch e :: doc_list sch r end
with doc_i (sch : scheme) (e : iexpr) {struct e} : json :=
  match e with
  | IField f idx => doc_indexed (JStr (name_of_field sch f)) idx
  | ICall fn a idx => doc_indexed (obj [("name", JStr (name_of_fn sch fn)); ("args", JArr (doc_args sch a))]) idx
  end
with doc_args (sch : scheme) (a : args) {struct a} : list json :=
  match a with ANil => [] | ACons x r => doc_arg sch x :: doc_args sch r end
with doc_arg (sch : scheme) (a : arg) {struct a} : json :=
  match a with
  | AIndex e => doc_kind "IndexExpr" (doc_i sch e)
  | ALit r => doc_kind "Literal" (doc_rhs r)
  | ALogical e => doc_kind "SimpleExpr" (doc sch e)
  end.

(* the canonical document of a filter is the document of its structure *)
Definition canon_doc (sch : scheme) (e : lexpr) : json := doc sch (erase e).

(* its text: compact JSON (json_print: Sem/JsonText.v) *)
Definition canon_text (sch : scheme) (e : lexpr) : bytes := json_print (canon_doc sch e).

(* ---- FNV-1a, 64 bit ---- *)
Definition fnv_step (h c : N) : N := (N.lxor h c * 1099511628211) mod 2 ^ 64.
Definition fnv1a_spec (text : bytes) : N := fold_left fnv_step text 14695981039346656037.

Definition canon_hash (sch : scheme) (e : lexpr) : N := fnv1a_spec (canon_text sch e).

(* ---- what the document does not carry, and why nothing is lost ----
   The document shows a literal by its decoded value only: an address and the
   byte string that spells it look the same, an empty `in {}` list does not say
   what it is a list of, `in $name` does not say which list.  The typing rules
   decide all of that from the left-hand side or from the parameter the literal
   is passed to ([lits_typed], implied by well-typedness), so that on well-typed
   filters the document determines the structure. *)

(* addresses are 32 / 128 bit values *)
Definition ip_ok (a : ip) : Prop :=
  match a with V4 x => (0 <= x < 2 ^ 32)%Z | V6 x => (0 <= x < 2 ^ 128)%Z end.
Definition rhs_ok (r : rhs) : Prop := match r with RIp a => ip_ok a | _ => True end.
Definition ip_item_ok (it : ip_item) : Prop :=
  match it with
  | IpRange4 a z => ip_ok (V4 a) /\ ip_ok (V4 z)
  | IpRange6 a z => ip_ok (V6 a) /\ ip_ok (V6 z)
  | IpCidr4 a _ => ip_ok (V4 a)
  | IpCidr6 a _ => ip_ok (V6 a)
  end.

(* scheme names are distinct: fields and functions share one name space *)
Definition names_distinct (sch : scheme) : Prop :=
  NoDup (map fd_name (sc_fields sch) ++ map fst (sc_functions sch)).

(* the operator and its literal fit the type [t] of the left-hand side *)
Definition cmp_typed (sch : scheme) (t : option ty) (op : cmpop) : Prop :=
  match op with
  | COrd _ r => t = Some (rhs_ty r) /\ rhs_ok r
  | COneOfInt _ => t = Some TInt
  | COneOfIp l => t = Some TIp /\ Forall ip_item_ok l
  | COneOfBytes _ => t = Some TBytes
  | CInList li _ => exists t', t = Some t' /\ list_index sch t' = Some li
  | _ => True
  end.

(* the type a literal must have as the i-th argument of a function: that of the
   parameter; the variadic function takes byte strings or arrays, so a literal is a byte string *)
Definition param_ty (d : fn_def) (i : nat) : option ty :=
  if fn_variadic_same d then Some TBytes
  else nth_error (map snd (fn_params d) ++ map (fun p => type_of (snd p)) (fn_opt_params d)) i.

Fixpoint lits_typed (sch : scheme) (e : lexpr) {struct e} : Prop :=
  match e with
  | ECombining _ items => lits_typed_list sch items
  | EComparison lhs op => lits_typed_i sch lhs /\ cmp_typed sch (ty_iexpr sch lhs) op
  | EParen e' => lits_typed sch e'
  | ENot e' => lits_typed sch e'
  | EQuantIndex _ a => lits_typed_i sch a
  | EQuantLogical _ a => lits_typed sch a
  end
with lits_typed_list (sch : scheme) (l : lexprs) {struct l} : Prop :=
  match l with LNil => True | LCons e r => lits_typed sch e /\ lits_typed_list sch r end
with lits_typed_i (sch : scheme) (e : iexpr) {struct e} : Prop :=
  match e with
  | IField f _ => (f < List.length (sc_fields sch))%nat
  | ICall fn a _ =>
      match fn_of sch fn with
      | Some d => lits_typed_args sch (param_ty d) O a
      | None => False
      end
  end
with lits_typed_args (sch : scheme) (ex : nat -> option ty) (i : nat) (a : args) {struct a} : Prop :=
  match a with
  | ANil => True
  | ACons x r => lits_typed_arg sch (ex i) x /\ lits_typed_args sch ex (S i) r
  end
with lits_typed_arg (sch : scheme) (t : option ty) (a : arg) {struct a} : Prop :=
  match a with
  | AIndex e => lits_typed_i sch e
  | ALit r => t = Some (rhs_ty r) /\ rhs_ok r
  | ALogical e => lits_typed sch e
  end.

(* every address written in the filter is a 32 / 128 bit value (the parser produces no other) *)
Definition cmp_ips_ok (op : cmpop) : Prop :=
  match op with
  | COrd _ r => rhs_ok r
  | COneOfIp l => Forall ip_item_ok l
  | _ => True
  end.

Fixpoint ips_ok (e : lexpr) {struct e} : Prop :=
  match e with
  | ECombining _ items => ips_ok_list items
  | EComparison lhs op => ips_ok_i lhs /\ cmp_ips_ok op
  | EParen e' => ips_ok e'
  | ENot e' => ips_ok e'
  | EQuantIndex _ a => ips_ok_i a
  | EQuantLogical _ a => ips_ok a
  end
with ips_ok_list (l : lexprs) {struct l} : Prop :=
  match l with LNil => True | LCons e r => ips_ok e /\ ips_ok_list r end
with ips_ok_i (e : iexpr) {struct e} : Prop :=
  match e with
  | IField _ _ => True
  | ICall _ a _ => ips_ok_args a
  end
with ips_ok_args (a : args) {struct a} : Prop :=
  match a with ANil => True | ACons x r => ips_ok_arg x /\ ips_ok_args r end
with ips_ok_arg (a : arg) {struct a} : Prop :=
  match a with
  | AIndex e => ips_ok_i e
  | ALit r => rhs_ok r
  | ALogical e => ips_ok e
  end.

(* ---- layouts: the full invariance statement (C07_full in Props/C07.v) ----
   A filter (an AST) is written out under a LAYOUT: a stream of choices, one per
   token boundary or aliased operator, each giving a spelling (word or symbol)
   and a run of white space.  Literals are written in one fixed notation (which
   notation a literal uses is not what the property quantifies over).  A word
   operator needs white space on both sides, the items of a `{...}` list are
   separated by white space, every other token boundary may have any amount of
   white space, including none.  [render] is None when the layout asks for
   something else than white space, leaves out a mandatory separation or is
   too short. *)
Definition layout := list (bool * bytes).
Definition R := layout -> option (bytes * layout).

Definition ret (x : bytes) : R := fun l => Some (x, l).
Definition seq (a c : R) : R :=
  fun l => match a l with
           | Some (x, l1) => match c l1 with Some (y, l2) => Some (x ++ y, l2) | None => None end
           | None => None
           end.
Local Notation "a +++ c" := (seq a c) (at level 61, right associativity).

Definition is_ws (ws : bytes) : bool := forallb is_space ws.
(* optional / mandatory white space *)
Definition osp : R :=
  fun l => match l with (_, ws) :: r => if is_ws ws then Some (ws, r) else None | [] => None end.
Definition msp : R :=
  fun l => match l with
           | (_, ws) :: r => if is_ws ws && negb (Nat.eqb (List.length ws) 0) then Some (ws, r) else None
           | [] => None
           end.
(* an operator with two spellings *)
Definition aliased (word symbol : string) : R :=
  fun l => match l with
           | (true, _) :: _ => (osp +++ ret (bs symbol) +++ osp) l
           | (false, _) :: _ => (msp +++ ret (bs word) +++ msp) l
           | [] => None
           end.
Definition word_op (word : string) : R := msp +++ ret (bs word) +++ msp.

(* the fixed notation of literals *)
Definition hex2 (c : N) : bytes := [Sexp.hex_digit (c / 16); Sexp.hex_digit (c mod 16)].
Definition raw_text (x : bytes) (n : N) : bytes :=
  114 :: repeat 35 (N.to_nat n) ++ 34 :: x ++ 34 :: repeat 35 (N.to_nat n).
Definition p_bytes (x : bytes) (f : bytes_format) : bytes :=
  match f with
  | FByte => join_sep 58 (map hex2 x)
  | FRaw n => raw_text x n
  | FQuoted => 34 :: flat_map (fun c => 92 :: 120 :: hex2 c) x ++ [34]
  end.
Definition p_rhs (r : rhs) : bytes :=
  match r with RInt z => Sexp.print_Z z | RBytes x f => p_bytes x f | RIp a => ip_text a end.
Definition p_regex (pat : bytes) (raw : option N) : bytes :=
  match raw with
  | Some n => raw_text pat n
  | None => 34 :: flat_map (fun c => if c =? 34 then [92; 34] else [c]) pat ++ [34]
  end.
Definition p_int_item (r : range) : bytes :=
  if (fst r =? snd r)%Z then Sexp.print_Z (fst r) else Sexp.print_Z (fst r) ++ 46 :: 46 :: Sexp.print_Z (snd r).
Definition p_ip_item (it : ip_item) : bytes :=
  match it with
  | IpRange4 a z => ip_text (V4 a) ++ 46 :: 46 :: ip_text (V4 z)
  | IpRange6 a z => ip_text (V6 a) ++ 46 :: 46 :: ip_text (V6 z)
  | IpCidr4 a n => ip_text (V4 a) ++ 47 :: Sexp.print_Z n
  | IpCidr6 a n => ip_text (V6 a) ++ 47 :: Sexp.print_Z n
  end.
Definition p_index (i : index) : bytes :=
  match i with IArr n => Sexp.print_N n | IKey k => p_bytes k FQuoted | IEach => [42] end.

(* items separated by mandatory white space inside braces *)
Fixpoint r_items (l : list bytes) : R :=
  match l with
  | [] => ret []
  | [x] => ret x
  | x :: r => ret x +++ msp +++ r_items r
  end.
Definition r_braces (l : list bytes) : R := word_op "in" +++ ret [123] +++ osp +++ r_items l +++ osp +++ ret [125].

Definition ord_word (o : ordop) : string :=
  match o with OEq => "eq" | ONe => "ne" | OGe => "ge" | OLe => "le" | OGt => "gt" | OLt => "lt" end.
Definition ord_symbol (o : ordop) : string :=
  match o with OEq => "==" | ONe => "!=" | OGe => ">=" | OLe => "<=" | OGt => ">" | OLt => "<" end.
Definition log_word (o : logop) : string := match o with LOr => "or" | LXor => "xor" | LAnd => "and" end.
Definition log_symbol (o : logop) : string := match o with LOr => "||" | LXor => "^^" | LAnd => "&&" end.

Definition r_cmpop (op : cmpop) : R :=
  match op with
  | CIsTrue => ret []
  | COrd o r => aliased (ord_word o) (ord_symbol o) +++ ret (p_rhs r)
  | CBitAnd z => aliased "bitwise_and" "&" +++ ret (Sexp.print_Z z)
  | CContains p f => word_op "contains" +++ ret (p_bytes p f)
  | CMatches pat raw => aliased "matches" "~" +++ ret (p_regex pat raw)
  | CWildcard true p f => word_op "strict wildcard" +++ ret (p_bytes p f)
  | CWildcard false p f => word_op "wildcard" +++ ret (p_bytes p f)
  | COneOfInt l => r_braces (map p_int_item l)
  | COneOfIp l => r_braces (map p_ip_item l)
  | COneOfBytes l => r_braces (map (fun p => p_bytes (fst p) (snd p)) l)
  | CInList _ name => word_op "in" +++ ret (36 :: name)
  end.

Fixpoint r_indexes (idx : list index) : R :=
  match idx with
  | [] => ret []
  | i :: r => ret [91] +++ osp +++ ret (p_index i) +++ osp +++ ret [93] +++ r_indexes r
  end.

Definition r_call (name : bytes) (a : R) : R := ret name +++ osp +++ ret [40] +++ osp +++ a +++ osp +++ ret [41].
Definition quant_word (q : quant) : bytes := match q with QAny => bs "any" | QAll => bs "all" end.

Fixpoint r_lexpr (sch : scheme) (e : lexpr) {struct e} : R :=
  match e with
  | ECombining op items => r_chain sch op items
  | EComparison lhs op => r_iexpr sch lhs +++ r_cmpop op
  | EParen e' => ret [40] +++ osp +++ r_lexpr sch e' +++ osp +++ ret [41]
  | ENot e' =>
      (fun l => match l with
                | (true, _) :: _ => (ret (bs "!") +++ osp) l
                | (false, _) :: _ => (ret (bs "not") +++ msp) l
                | [] => None
                end) +++ r_lexpr sch e'
  | EQuantIndex q a => r_call (quant_word q) (r_iexpr sch a)
  | EQuantLogical q a => r_call (quant_word q) (r_lexpr sch a)
  end
with r_chain (sch : scheme) (op : logop) (l : lexprs) {struct l} : R :=
  match l with
  | LNil => ret []
  | LCons e r =>
      match r with
      | LNil => r_lexpr sch e
      | LCons _ _ => r_lexpr sch e +++ aliased (log_word op) (log_symbol op) +++ r_chain sch op r
      end
  end
with r_iexpr (sch : scheme) (e : iexpr) {struct e} : R :=
  match e with
  | IField f idx => ret (field_name sch f) +++ r_indexes idx
  | ICall fn a idx => r_call (fn_name sch fn) (r_args sch a) +++ r_indexes idx
  end
with r_args (sch : scheme) (a : args) {struct a} : R :=
  match a with
  | ANil => ret []
  | ACons x r =>
      match r with
      | ANil => r_arg sch x
      | ACons _ _ => r_arg sch x +++ osp +++ ret [44] +++ osp +++ r_args sch r
      end
  end
with r_arg (sch : scheme) (a : arg) {struct a} : R :=
  match a with
  | AIndex e => r_iexpr sch e
  | ALit r => ret (p_rhs r)
  | ALogical e => r_lexpr sch e
  end.

(* the text of a filter under a layout: white space is allowed at both ends *)
Definition render (sch : scheme) (e : lexpr) (lay : layout) : option bytes :=
  match (osp +++ r_lexpr sch e +++ osp) lay with
  | Some (t, _) => Some t
  | None => None
  end.
