(* Specification of C08, written from the property text:
   "An execution context behaves as a typed map from its scheme's fields to
    optional values: setting a field succeeds exactly when the value's full
    nested type equals the field's declared type and the field belongs to the
    context's scheme, returns the previously stored value, and otherwise fails
    leaving the context unchanged; reads return the last value set, clear
    empties every field, clones are independent and a temporary borrow writes
    through to the original.  Arrays and maps can only be built homogeneous,
    and a filter runs only against a context of the very scheme it was parsed
    with - anything else is a scheme-mismatch error, never an evaluation."

   The abstract state is a partial function slot -> (scheme identity, field ->
   optional value).  There is no vector of values, no guard object and no
   moved-out state here: a borrow is only remembered as "the slot is
   borrowed" (which decides what the program may do with the slot), all
   reads and writes go to the one abstract map of the slot. *)
From Coq Require Import List ZArith NArith Bool Arith.
From WF Require Import Base.Bytes Sem.RangeSet Lang.Types Lang.Context Sem.CtxApi.
Import ListNotations.

Record actx := { ac_scheme : nat; ac_map : nat -> option value }.

Record astate := {
  a_ctx : nat -> option actx;
  a_borrowed : list nat;          (* slots currently borrowed, innermost first *)
}.

Definition upd {A} (m : nat -> A) (k : nat) (x : A) : nat -> A :=
  fun i => if Nat.eqb i k then x else m i.

Definition a_set_ctx (a : astate) (c : nat) (x : option actx) : astate :=
  {| a_ctx := upd (a_ctx a) c x; a_borrowed := a_borrowed a |}.

Definition empty_map : nat -> option value := fun _ => None.

Definition a_init (cf : config) : astate :=
  {| a_ctx := fun c => match nth_error (cf_init cf) c with
                       | Some (Some h) =>
                           option_map (fun i => {| ac_scheme := i; ac_map := empty_map |}) (nth_error (cf_idents cf) h)
                       | _ => None
                       end;
     a_borrowed := [] |}.

(* the field called [name], if any *)
Definition field_called (fds : list field_def) (name : bytes) : option nat :=
  find (fun i => match nth_error fds i with Some fd => bytes_eqb name (fd_name fd) | None => false end)
       (seq 0 (length fds)).

Definition is_slot (cf : config) (c : nat) : bool := Nat.ltb c (length (cf_init cf)).
Definition is_borrowed (a : astate) (c : nat) : bool := existsb (Nat.eqb c) (a_borrowed a).

(* "succeeds exactly when the value's full nested type equals the field's
    declared type ..., returns the previously stored value, and otherwise
    fails leaving the context unchanged" *)
Definition a_store (a : astate) (c : nat) (x : actx) (f : nat) (fty : ty) (v : value) : astate * obs :=
  if has_type v fty then
    (a_set_ctx a c (Some {| ac_scheme := ac_scheme x; ac_map := upd (ac_map x) f (Some v) |}), ObPrev (ac_map x f))
  else (a, ObErr TypeMismatch).

Definition a_step (cf : config) (a : astate) (o : op) : astate * obs :=
  match o with
  | ONew dst h =>
      match nth_error (cf_idents cf) h with
      | None => (a, ObBadArg)
      | Some i =>
          if negb (is_slot cf dst) then (a, ObBadArg)
          else if is_borrowed a dst then (a, ObBusy)
          else (a_set_ctx a dst (Some {| ac_scheme := i; ac_map := empty_map |}), ObOk)
      end
  | OSetByField c h f v =>
      match nth_error (cf_idents cf) h, nth_error (cf_fields cf) f with
      | Some i, Some fd =>
          match a_ctx a c with
          | None => (a, ObNoCtx)
          | Some x =>
              (* "... and the field belongs to the context's scheme" *)
              if Nat.eqb i (ac_scheme x) then a_store a c x f (fd_ty fd) v
              else (a, ObErr SchemeMismatch)
          end
      | _, _ => (a, ObBadArg)
      end
  | OSetByName c name v =>
      match a_ctx a c with
      | None => (a, ObNoCtx)
      | Some x =>
          match field_called (cf_fields cf) name with
          | None => (a, ObErr UnknownField)
          | Some f =>
              match nth_error (cf_fields cf) f with
              | Some fd => a_store a c x f (fd_ty fd) v
              | None => (a, ObBadArg)
              end
          end
      end
  | OGet c h f =>
      match nth_error (cf_idents cf) h, nth_error (cf_fields cf) f with
      | Some i, Some _ =>
          match a_ctx a c with
          | None => (a, ObNoCtx)
          | Some x =>
              (* "reads return the last value set" *)
              if Nat.eqb i (ac_scheme x) then (a, ObVal (ac_map x f)) else (a, ObRefused)
          end
      | _, _ => (a, ObBadArg)
      end
  | OClear c =>
      match a_ctx a c with
      | None => (a, ObNoCtx)
      | Some x => (a_set_ctx a c (Some {| ac_scheme := ac_scheme x; ac_map := empty_map |}), ObOk)
      end
  | OCloneWith src dst =>
      match a_ctx a src with
      | None => (a, ObNoCtx)
      | Some x =>
          if negb (is_slot cf dst) then (a, ObBadArg)
          else if is_borrowed a dst then (a, ObBusy)
          else (a_set_ctx a dst (Some x), ObOk)
      end
  | OTakeWith src dst =>
      if is_borrowed a src then (a, ObBusy)
      else
        match a_ctx a src with
        | None => (a, ObNoCtx)
        | Some x =>
            if negb (is_slot cf dst) then (a, ObBadArg)
            else if is_borrowed a dst then (a, ObBusy)
            else (a_set_ctx (a_set_ctx a src None) dst (Some x), ObOk)
        end
  | OBorrowBegin c =>
      match a_ctx a c with
      | None => (a, ObNoCtx)
      | Some _ =>
          (* "a temporary borrow writes through to the original": the map is shared *)
          ({| a_ctx := a_ctx a; a_borrowed := c :: a_borrowed a |}, ObOk)
      end
  | OBorrowEnd =>
      match a_borrowed a with
      | [] => (a, ObNoGuard)
      | _ :: r => ({| a_ctx := a_ctx a; a_borrowed := r |}, ObOk)
      end
  | OExecute c h =>
      match nth_error (cf_idents cf) h with
      | None => (a, ObBadArg)
      | Some i =>
          match a_ctx a c with
          | None => (a, ObNoCtx)
          | Some x =>
              (* "runs only against a context of the very scheme it was parsed with" *)
              if Nat.eqb i (ac_scheme x) then (a, ObExecuted) else (a, ObSchemeMismatch)
          end
      end
  end.

Fixpoint a_run_from (cf : config) (a : astate) (ops : list op) : list obs :=
  match ops with
  | [] => []
  | o :: r => let p := a_step cf a o in snd p :: a_run_from cf (fst p) r
  end.

Definition a_run (cf : config) (ops : list op) : list obs := a_run_from cf (a_init cf) ops.

(* "Arrays and maps can only be built homogeneous (every element of the
    declared element type)": a construction request is accepted exactly when
    every element has the declared element type; the array keeps the elements
    in order, the map holds, for every key offered, the last value offered for
    it, in key order. *)
Definition homogeneous (t : ty) (l : list value) : bool := forallb (fun x => ty_eqb (type_of x) t) l.

Definition spec_array (t : ty) (elems : list value) : option value :=
  if homogeneous t elems then Some (VArray t elems) else None.

Fixpoint last_for (k : bytes) (kvs : list (bytes * value)) (acc : option value) : option value :=
  match kvs with
  | [] => acc
  | (k', v) :: r => last_for k r (if bytes_eqb k k' then Some v else acc)
  end.

(* v is the content of a map built from kvs: keys strictly ascending and the
   lookups agree with "last value offered" *)
Definition is_map_of (kvs content : list (bytes * value)) : Prop :=
  keys_ascending content = true /\
  forall k, assoc_bytes k content = last_for k kvs None.

(* executable form: the keys offered, in order and without repetition, each
   with the last value offered for it *)
Fixpoint insert_key (k : bytes) (l : list bytes) : list bytes :=
  match l with
  | [] => [k]
  | k' :: r =>
      match bytes_compare k k' with
      | Lt => k :: l
      | Eq => l
      | Gt => k' :: insert_key k r
      end
  end.

Definition spec_map (t : ty) (kvs : list (bytes * value)) : option value :=
  if homogeneous t (map snd kvs) then
    Some (VMap t (flat_map (fun k => match last_for k kvs None with Some v => [(k, v)] | None => [] end)
                           (fold_right insert_key [] (map fst kvs))))
  else None.

(* the well-formedness of the operations' inputs: every value offered to a
   context was built by the checked constructors *)
Definition op_wf (o : op) : bool :=
  match o with
  | OSetByField _ _ _ v | OSetByName _ _ v => value_wf v
  | _ => true
  end.
