(* Reference semantics of the filter language, written from the property texts
   of C01 (scalar comparisons, boolean logic, nil rule), C02 (indexing,
   map-each, element-wise logic, any/all), C03 (function calls), C09 (in {..}),
   C17 (in $list).  It is total on paths (no panics), uses plain Boolean
   operators (no short-circuit), [map2]-style truncation, and recursive
   flattening; none of the engine's strategies appears here.
   [None] means "this tree has no meaning" (it is not well-typed). *)
From Coq Require Import List ZArith NArith Bool.
From WF Require Import Base.Bytes Sem.RangeSet Sem.Matchers Spec.C09 Lang.Types Lang.Ast Lang.Context.
Import ListNotations.

(* ---- paths ---- *)

Fixpoint nth_N' {A} (l : list A) (n : N) : option A :=
  match l with
  | [] => None
  | x :: r => if (n =? 0)%N then Some x else nth_N' r (N.pred n)
  end.

Definition elems (v : value) : list value :=
  match v with VArray _ l => l | VMap _ l => map snd l | _ => [] end.

(* one non-[*] access: out of range / absent key / wrong container = no value *)
Definition get1 (v : value) (i : index) : option value :=
  match i, v with
  | IArr n, VArray _ l => nth_N' l n
  | IKey k, VMap _ l => assoc_bytes k l
  | _, _ => None
  end.

Fixpoint get_path (v : value) (idx : list index) : option value :=
  match idx with
  | [] => Some v
  | i :: r => match get1 v i with Some x => get_path x r | None => None end
  end.

(* every [*] expands to all elements (arrays in index order, maps in ascending
   key order); several [*] flatten in row-major order *)
Fixpoint flatten (idx : list index) (v : value) : list value :=
  match idx with
  | [] => [v]
  | IEach :: r => flat_map (flatten r) (elems v)
  | i :: r => match get1 v i with Some x => flatten r x | None => [] end
  end.

(* ---- comparisons ---- *)

Definition ord_holds (op : ordop) (c : option comparison) : bool :=
  match op, c with
  | OEq, Some Eq => true
  | ONe, Some Eq => false
  | ONe, _ => true                      (* incomparable (v4 vs v6): only != holds *)
  | OLt, Some Lt | OLe, Some Lt | OLe, Some Eq | OGt, Some Gt | OGe, Some Gt | OGe, Some Eq => true
  | _, _ => false
  end.

Definition ip_compare (a b : ip) : option comparison :=
  match a, b with
  | V4 x, V4 y => Some (x ?= y)%Z
  | V6 x, V6 y => Some (x ?= y)%Z
  | _, _ => None
  end.

Fixpoint occurs_spec (p h : bytes) : bool :=
  (bytes_eqb (firstn (length p) h) p) || match h with [] => false | _ :: h' => occurs_spec p h' end.


(* the truth of `v op` for a present left value of the right type *)
Definition cmp_holds (sch : scheme) (op : cmpop) (c : ctx) (v : value) : option bool :=
  match op, v with
  | CIsTrue, VBool b => Some b
  | COrd o (RInt z), VInt a => Some (ord_holds o (Some (a ?= z)%Z))
  | COrd o (RBytes b _), VBytes a => Some (ord_holds o (Some (bytes_compare a b)))
  | COrd o (RIp b), VIp a => Some (ord_holds o (ip_compare a b))
  | CBitAnd z, VInt a => Some (negb (Z.land a z =? 0)%Z)
  | CContains p _, VBytes h => Some (occurs_spec p h)
  | CMatches pat _, VBytes h => option_map (fun r => regex_run r h) (regex_compile pat)
  | CWildcard strict pat _, VBytes h => wildcard_match strict pat h
  | COneOfInt l, VInt a => Some (spec_in_int l (Some a))
  | COneOfIp l, VIp a => Some (spec_in_ip l (Some a))
  | COneOfBytes l, VBytes a => Some (spec_in_bytes (map fst l) (Some a))
  | CInList _ name, (VInt _ | VBytes _ | VIp _) =>
      (* the matcher installed for the value's type, asked with the list name *)
      match list_index sch (type_of v) with
      | Some i => option_map (fun m => match_value m name v) (nth_error (cx_lists c) i)
      | None => None
      end
  | _, _ => None
  end.

(* a comparison whose left side has no value: false, except != (nil-not-equal) *)
Definition nil_result (sch : scheme) (op : cmpop) : bool :=
  match op with COrd ONe _ => sc_nil_ne sch | _ => false end.

Inductive lres := ROne (b : bool) | RVec (l : list bool).

Fixpoint all_some {A} (l : list (option A)) : option (list A) :=
  match l with
  | [] => Some []
  | Some x :: r => option_map (cons x) (all_some r)
  | None :: _ => None
  end.

Definition lop_spec (op : logop) (a b : bool) : bool :=
  match op with LAnd => andb a b | LOr => orb a b | LXor => xorb a b end.

(* element-wise with truncation to the shorter operand *)
Fixpoint map2_trunc (f : bool -> bool -> bool) (a b : list bool) : list bool :=
  match a, b with
  | x :: a', y :: b' => f x y :: map2_trunc f a' b'
  | _, _ => []
  end.

Definition combine_spec (op : logop) (a b : lres) : option lres :=
  match a, b with
  | ROne x, ROne y => Some (ROne (lop_spec op x y))
  | RVec x, RVec y => Some (RVec (map2_trunc (lop_spec op) x y))
  | _, _ => None
  end.

Definition quant_spec (q : quant) (l : list bool) : bool :=
  match q with QAny => existsb (fun b => b) l | QAll => forallb (fun b => b) l end.

Definition bools_of (l : list value) : option (list bool) :=
  all_some (map (fun v => match v with VBool b => Some b | _ => None end) l).

(* value of a field in a context: outer None = not a field of the scheme *)
Definition field_lookup (f : nat) (c : ctx) : option (option value) := nth_error (cx_vals c) f.

Definition filter_map_opt {A B} (f : A -> option B) (l : list A) : list B :=
  flat_map (fun x => match f x with Some y => [y] | None => [] end) l.

(* Meaning of the left side of a comparison / of an argument:
   - [SAbsent]: no value;
   - [SOne v]: one value (no [*] in the path);
   - [SMany l]: the values selected by a path with [*].  *)
Inductive sel := SAbsent | SOne (v : value) | SMany (l : list value).

Definition select (base : option value) (idx : list index) : sel :=
  match base with
  | None => if Nat.eqb (map_each_count idx) 0 then SAbsent else SMany []
  | Some v =>
      if Nat.eqb (map_each_count idx) 0
      then match get_path v idx with Some x => SOne x | None => SAbsent end
      else SMany (flatten idx v)
  end.

(* typed result of evaluating a value expression (an argument, a value AST) *)
Definition sel_vres (s : sel) (t : ty) (each_absent : bool) : vres :=
  match s with
  | SAbsent => VAbsent t
  | SOne v => VOk v
  | SMany l => if each_absent then VAbsent (TArray t) else VOk (VArray t l)
  end.

Fixpoint ty_index_spec (t : ty) (idx : list index) {struct idx} : option ty :=
  match idx with
  | [] => Some t
  | i :: r =>
      match t, i with
      | TArray s, IArr _ | TArray s, IEach | TMap s, IKey _ | TMap s, IEach => ty_index_spec s r
      | _, _ => None
      end
  end.

(* is the container reached by the path before a single trailing [*] absent?
   (then a mapped call / a `x[*]` value is absent rather than empty) *)
Definition prefix_absent (base : option value) (idx : list index) : bool :=
  match base with
  | None => true
  | Some v =>
      if Nat.eqb (map_each_count idx) 1 && index_is_each (last idx (IArr 0))
      then match get_path v (removelast idx) with Some _ => false | None => true end
      else false
  end.

Fixpoint denote (sch : scheme) (e : lexpr) (c : ctx) {struct e} : option lres :=
  match e with
  | ECombining op items =>
      match items with
      | LNil => None
      | LCons e0 rest =>
          match denote sch e0 c with
          | Some r0 => denote_fold sch op r0 rest c
          | None => None
          end
      end
  | EComparison lhs op =>
      match denote_ident sch lhs c with
      | None => None
      | Some (base, t0, idx) =>
          match ty_index_spec t0 idx with
          | None => None
          | Some t =>
              match op, t with
              | CIsTrue, (TArray TBool | TMap TBool) =>
                  (* a bare container of booleans: its values in element / key order *)
                  match select base idx with
                  | SOne v => option_map RVec (bools_of (elems v))
                  | SAbsent => Some (RVec [])
                  | SMany _ => None
                  end
              | _, _ =>
                  match select base idx with
                  | SAbsent => Some (ROne (nil_result sch op))
                  | SOne v => option_map ROne (cmp_holds sch op c v)
                  | SMany l => option_map RVec (all_some (map (cmp_holds sch op c) l))
                  end
              end
          end
      end
  | EParen e' => denote sch e' c
  | ENot e' =>
      match denote sch e' c with
      | Some (ROne b) => Some (ROne (negb b))
      | Some (RVec l) => Some (RVec (map negb l))
      | None => None
      end
  | EQuantIndex q a =>
      (* any/all applied directly to a boolean-array value; absent => false *)
      match denote_ident sch a c with
      | Some (base, t0, idx) =>
          match select base idx with
          | SOne (VArray _ l) => option_map (fun bs => ROne (quant_spec q bs)) (bools_of l)
          | SAbsent => Some (ROne false)
          | _ => None
          end
      | None => None
      end
  | EQuantLogical q a =>
      match denote sch a c with
      | Some (RVec l) => Some (ROne (quant_spec q l))
      | _ => None
      end
  end
with denote_fold (sch : scheme) (op : logop) (acc : lres) (l : lexprs) (c : ctx) {struct l} : option lres :=
  match l with
  | LNil => Some acc
  | LCons e r =>
      match denote sch e c with
      | Some x => match combine_spec op acc x with Some acc' => denote_fold sch op acc' r c | None => None end
      | None => None
      end
  end
(* identifier of an index expression: (its value if any, its type, the path) *)
with denote_ident (sch : scheme) (e : iexpr) (c : ctx) {struct e} : option (option value * ty * list index) :=
  match e with
  | IField f idx =>
      match field_lookup f c, field_ty sch f with
      | Some v, Some t => Some (v, t, idx)
      | _, _ => None
      end
  | ICall fn a idx =>
      match fn_of sch fn, denote_args sch a c with
      | Some d, Some ds =>
          let vs := map snd ds in
          let first_mapped := match ds with (m, _, _) :: _ => m | [] => None end in
          let first_ty := match ds with (_, t, _) :: _ => Some t | [] => None end in
          let defaults :=
            if fn_variadic_same d then []
            else map (fun p => VOk (snd p)) (skipn (length vs - length (fn_params d)) (fn_opt_params d)) in
          match (if fn_variadic_same d then first_ty else Some (fn_ret d)) with
          | None => None
          | Some ret =>
          match first_mapped with
          | None =>
              (* the implementation receives exactly the evaluated arguments in
                 source order, then the defaults of the omitted optional ones *)
              match fn_impl d (vs ++ defaults) with
              | Some r => Some (r, ret, idx)
              | None => None
              end
          | Some None => Some (None, TArray ret, idx)       (* mapped container absent *)
          | Some (Some elts) =>
              (* applied once per element, in order; absent results dropped *)
              match all_some (map (fun x => fn_impl d (VOk x :: tl vs ++ defaults)) elts) with
              | Some rs => Some (Some (VArray ret (filter_map_opt (fun r => r) rs)), TArray ret, idx)
              | None => None
              end
          end
          end
      | _, _ => None
      end
  end
(* arguments, in source order: (mapping, static type, value) of each; the
   mapping of an argument with [*] is the list of elements it maps over
   ([Some None] = its container is absent) *)
with denote_args (sch : scheme) (a : args) (c : ctx) {struct a}
  : option (list (option (option (list value)) * ty * vres)) :=
  match a with
  | ANil => Some []
  | ACons x r =>
      match denote_arg sch x c, denote_args sch r c with
      | Some d, Some ds => Some (d :: ds)
      | _, _ => None
      end
  end
(* (mapping, static type, value) of one argument *)
with denote_arg (sch : scheme) (a : arg) (c : ctx) {struct a} : option (option (option (list value)) * ty * vres) :=
  match a with
  | ALit r => Some (None, rhs_ty r, VOk (rhs_value r))
  | ALogical e =>
      match denote sch e c with
      | Some (ROne b) => Some (None, TBool, VOk (VBool b))
      | Some (RVec l) => Some (None, TArray TBool, VOk (VArray TBool (map VBool l)))
      | None => None
      end
  | AIndex e =>
      match denote_ident sch e c with
      | None => None
      | Some (base, t0, idx) =>
          match ty_index_spec t0 idx with
          | None => None
          | Some t =>
              let s := select base idx in
              Some (match s with
                    | SMany l => Some (if prefix_absent base idx then None else Some l)
                    | SOne _ | SAbsent => None
                    end, t, sel_vres s t (prefix_absent base idx))
          end
      end
  end.

(* a value expression (FilterValueAst: no [*]) *)
Definition denote_value (sch : scheme) (e : iexpr) (c : ctx) : option vres :=
  match denote_ident sch e c with
  | Some (base, t0, idx) =>
      match ty_index_spec t0 idx with
      | Some t => Some (sel_vres (select base idx) t false)
      | None => None
      end
  | None => None
  end.

Definition denote_filter (sch : scheme) (e : lexpr) (c : ctx) : option bool :=
  match denote sch e c with Some (ROne b) => Some b | _ => None end.

