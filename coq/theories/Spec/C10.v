(* Specification of C10, written from the property text:
   "For every byte string h and pattern p, `h contains p` is true exactly when
    p occurs as a contiguous subsequence of h (the empty pattern always
    occurs) ... The answer is the same on every code path."
   No algorithm of the code appears here. *)
From Coq Require Import List NArith Bool.
From WF Require Import Base.Bytes Spec.Denote.
Import ListNotations.

(* p is a contiguous subsequence of h *)
Definition substring (p h : bytes) : Prop := exists a b, h = a ++ p ++ b.

(* The executable form used by the language semantics (Spec/Denote.v): some
   suffix of h starts with p.  Proofs/SearcherProofs.v shows that it decides
   [substring]. *)
Definition contains_spec (p h : bytes) : bool := occurs_spec p h.
